/-
The notifier wrappers (`Generated/WrapProg.lean`, language `Model/PyW.lean`) against `Model/Wrappers.lean`'s filters
and `Model.Attr.callWrapper`: one lemma per translated function, by symbolic execution of the interpreter.
-/
import TraitsVerif.Generated.WrapProg
namespace TraitsVerif.Lemmas.WrapSource
open TraitsVerif TraitsVerif.Model.Attr TraitsVerif.Model.PyW
open TraitsVerif.Generated

macro "pw_exec" "[" ts:Lean.Parser.Tactic.simpLemma,* "]" : tactic =>
  `(tactic| simp [TraitsVerif.Model.PyW.run, exec, eval, evalArgs, bindArgs, setVar, truthy, getGlob, getAttr, callFn, triVal, invoke, ofWrapper,
      traitKindMembers, comparisonModeMembers, List.lookup, Kind.toNat, $ts,*])

theorem change_accepted_is_source (C : WC) (old new : Id) (s : OSt) :
    Model.PyW.run C WrapProg.change_accepted [.object, .name, .id old, .id new] s
      = (.ok (.bool (changeAccepted C.E.cmp C.t.kind C.t.flags old new)),
         if old = uninit then s else s.ensureItrait) := by
  unfold changeAccepted changeAcceptedCmp eqMode
  by_cases ho : old = uninit
  · pw_exec [WrapProg.change_accepted, ho]
  · cases hk : C.t.kind
    · by_cases hm : comparisonModeInt C.t.flags = 2
      · cases hn : C.E.cmp.neq old new <;> pw_exec [WrapProg.change_accepted, ho, hk, hm, hn, CMode.toNat]
      · have hm' : ¬ ((comparisonModeInt C.t.flags : Nat) : Int) = 2 := by omega
        pw_exec [WrapProg.change_accepted, ho, hk, hm, hm', CMode.toNat]
    · pw_exec [WrapProg.change_accepted, ho, hk, CMode.toNat]

theorem ensureItrait_self (s : OSt) : s.ensureItrait.self = s.self := by
  unfold OSt.ensureItrait; split <;> rfl

theorem prevent_event_is_source (C : WC) (s : OSt) :
    Model.PyW.run C WrapProg.ctrait_prevent_event [.event] s
      = (.ok (.bool (preventEvent C.E.cmp C.t.kind C.t.flags C.old C.new)), s) := by
  unfold preventEvent eqMode
  by_cases ho : C.old = uninit
  · pw_exec [WrapProg.ctrait_prevent_event, ho]
  · cases hk : C.t.kind
    · by_cases hm : comparisonModeInt C.t.flags = 2
      · cases hn : C.E.cmp.eqv C.old C.new <;> pw_exec [WrapProg.ctrait_prevent_event, ho, hk, hm, hn, CMode.toNat]
      · have hm' : ¬ ((comparisonModeInt C.t.flags : Nat) : Int) = 2 := by omega
        pw_exec [WrapProg.ctrait_prevent_event, ho, hk, hm, hm', CMode.toNat]
    · pw_exec [WrapProg.ctrait_prevent_event, ho, hk, CMode.toNat]

set_option hygiene false in
/-- the three outcomes of the user handler, with both settings of the re-raise flags -/
macro "handler_cases" "[" ts:Lean.Parser.Tactic.simpLemma,* "]" : tactic =>
  `(tactic| (rcases hh : C.E.handler C.n.h s0.ctx.log.length (C.old, C.new) with e | a
             · cases hrl : C.E.reraiseLegacy <;> cases hro : C.E.reraiseObserve <;> pw_exec [hh, hrl, hro, $ts,*]
             · cases a <;> pw_exec [hh, $ts,*]))

theorem static_call_is_source (C : WC) (s : OSt) (hk : C.n.kind = .static) :
    Model.PyW.run C WrapProg.AbstractStaticChangeNotifyWrapper_call [.self, .object, .name, .id C.old, .id C.new] s
      = ofWrapper (callWrapper C.E C.t C.n C.loc C.old C.new s) := by
  unfold callWrapper
  by_cases ho : C.old = uninit
  · pw_exec [WrapProg.AbstractStaticChangeNotifyWrapper_call, changeAccepted, ho, hk]
  · cases hc : changeAcceptedCmp C.E.cmp C.t.kind C.t.flags C.old C.new
    · pw_exec [WrapProg.AbstractStaticChangeNotifyWrapper_call, changeAccepted, ho, hk, hc]
    · have hself : s.ensureItrait.self = s.self := by unfold OSt.ensureItrait; split <;> rfl
      generalize hs0 : s.ensureItrait = s0 at hself
      handler_cases [WrapProg.AbstractStaticChangeNotifyWrapper_call, changeAccepted, ho, hk, hc, hs0, hself]

/-- what `callFn` takes `self._dispatch_change_event(object, name, old, new, handler)` to be -/
def dispatchSem (C : WC) (s : OSt) : Except Exc Val × OSt :=
  match invoke C { vars := fun _ => .stuck, s := s } with
  | (.error e, ms1) => if C.E.reraiseLegacy then (.error e, ms1.s) else (.ok .none, ms1.s)
  | (r, ms1) => (r, ms1.s)

theorem dispatch_is_source (C : WC) (s : OSt) (sels : List Sel) (o n : Id) :
    Model.PyW.run C WrapProg.TraitChangeNotifyWrapper_dispatch [.self, .handler, .tuple sels o n] s
      = (match invoke C { vars := fun _ => .stuck, s := s } with | (r, ms1) => (r, ms1.s)) := by
  generalize hs0 : s = s0
  handler_cases [WrapProg.TraitChangeNotifyWrapper_dispatch]

theorem dispatch_change_event_is_source (C : WC) (s : OSt) :
    Model.PyW.run C WrapProg.TraitChangeNotifyWrapper_dispatch_change_event
        [.self, .object, .name, .id C.old, .id C.new, .handler] s = dispatchSem C s := by
  unfold dispatchSem
  generalize hs0 : s = s0
  handler_cases [WrapProg.TraitChangeNotifyWrapper_dispatch_change_event]

theorem notify_function_is_source (C : WC) (s : OSt) (hk : C.n.kind = .dynamic) :
    Model.PyW.run C WrapProg.TraitChangeNotifyWrapper_notify_function_listener
        [.self, .object, .name, .id C.old, .id C.new] s
      = ofWrapper (callWrapper C.E C.t C.n C.loc C.old C.new s) := by
  unfold callWrapper
  by_cases ho : C.old = uninit
  · pw_exec [WrapProg.TraitChangeNotifyWrapper_notify_function_listener, changeAccepted, ho, hk]
  · cases hc : changeAcceptedCmp C.E.cmp C.t.kind C.t.flags C.old C.new
    · pw_exec [WrapProg.TraitChangeNotifyWrapper_notify_function_listener, changeAccepted, ho, hk, hc]
    · have hself : s.ensureItrait.self = s.self := ensureItrait_self s
      generalize hs0 : s.ensureItrait = s0 at hself
      handler_cases [WrapProg.TraitChangeNotifyWrapper_notify_function_listener, changeAccepted, ho, hk, hc, hs0, hself]

theorem notify_method_is_source (C : WC) (s : OSt) (hk : C.n.kind = .dynamic) (k : Nat) (hn : C.wrapName = some k)
    (ha : C.ownerAlive = true) :
    Model.PyW.run C WrapProg.TraitChangeNotifyWrapper_notify_method_listener
        [.self, .object, .name, .id C.old, .id C.new] s
      = ofWrapper (callWrapper C.E C.t C.n C.loc C.old C.new s) := by
  unfold callWrapper
  by_cases ho : C.old = uninit
  · pw_exec [WrapProg.TraitChangeNotifyWrapper_notify_method_listener, changeAccepted, ho, hk, hn, ha]
  · cases hc : changeAcceptedCmp C.E.cmp C.t.kind C.t.flags C.old C.new
    · pw_exec [WrapProg.TraitChangeNotifyWrapper_notify_method_listener, changeAccepted, ho, hk, hc, hn, ha]
    · have hself : s.ensureItrait.self = s.self := ensureItrait_self s
      generalize hs0 : s.ensureItrait = s0 at hself
      handler_cases [WrapProg.TraitChangeNotifyWrapper_notify_method_listener, changeAccepted, ho, hk, hc, hs0, hself, hn, ha]

theorem dynamic_call_is_source (C : WC) (s : OSt) :
    Model.PyW.run C WrapProg.TraitChangeNotifyWrapper_call [.self, .object, .name, .id C.old, .id C.new] s
      = ofWrapper (callWrapper C.E C.t C.n C.loc C.old C.new s) := by
  rcases h : callWrapper C.E C.t C.n C.loc C.old C.new s with ⟨_ | e, s'⟩ <;>
  pw_exec [WrapProg.TraitChangeNotifyWrapper_call, h]

theorem observe_call_is_source (C : WC) (s : OSt) (hk : C.n.kind = .observe) :
    Model.PyW.run C WrapProg.TraitEventNotifier_call [.self, .args, .args] s
      = ofWrapper (callWrapper C.E C.t C.n C.loc C.old C.new s) := by
  unfold callWrapper
  cases hp : preventEvent C.E.cmp C.t.kind C.t.flags C.old C.new
  · generalize hs0 : s = s0
    handler_cases [WrapProg.TraitEventNotifier_call, hk, hp]
  · pw_exec [WrapProg.TraitEventNotifier_call, hk, hp]

/-- the value `equals` receives for a candidate handler -/
def candVal : Cand → Val
  | .self => .self
  | _ => .cand

/-- When does a wrapper stand for a given handler (`on_trait_change` registration / removal look-up)?  The wrapper
itself; a bound method: same method name and the SAME listener object (identity — equal-but-distinct listener objects
are different handlers; seeded change C02-m13 compared them with `==`); otherwise a function wrapper whose function
is that very function. -/
def equalsSpec (C : WC) : Bool :=
  match C.cand with
  | .self => true
  | .method (some o) k => decide (C.wrapName = some k) && decide (C.wrapOwner = some o)
  | c => C.wrapName.isNone && decide (c = .func C.wrapFn)

theorem equals_is_source (C : WC) (s : OSt) :
    Model.PyW.run C WrapProg.TraitChangeNotifyWrapper_equals [.self, candVal C.cand] s
      = (.ok (.bool (equalsSpec C)), s) := by
  unfold equalsSpec
  rcases hc : C.cand with _ | f | ⟨_ | o, k⟩
  · pw_exec [WrapProg.TraitChangeNotifyWrapper_equals, candVal, hc]
  · cases hn : C.wrapName <;> pw_exec [WrapProg.TraitChangeNotifyWrapper_equals, candVal, hc, hn]
  · cases hn : C.wrapName <;> pw_exec [WrapProg.TraitChangeNotifyWrapper_equals, candVal, hc, hn]
  · rcases hn : C.wrapName with _ | k' <;> rcases ho : C.wrapOwner with _ | o'
    · pw_exec [WrapProg.TraitChangeNotifyWrapper_equals, candVal, hc, hn, ho]
    · pw_exec [WrapProg.TraitChangeNotifyWrapper_equals, candVal, hc, hn, ho]
    · by_cases hk : k = k' <;> pw_exec [WrapProg.TraitChangeNotifyWrapper_equals, candVal, hc, hn, ho, hk] <;>
        simp [eq_comm, hk]
    · by_cases hk : k = k' <;> by_cases hoo : o = o' <;>
        pw_exec [WrapProg.TraitChangeNotifyWrapper_equals, candVal, hc, hn, ho, hk, hoo] <;> simp_all [eq_comm]

/-- The dead-owner path of a method wrapper: the weak reference no longer refers to the listener object — nobody is
called (the log is untouched), nothing is raised; only `_change_accepted`'s look-up of the instance trait happened. -/
theorem notify_method_dead (C : WC) (s : OSt) (hd : C.ownerAlive = false) :
    Model.PyW.run C WrapProg.TraitChangeNotifyWrapper_notify_method_listener
        [.self, .object, .name, .id C.old, .id C.new] s
      = (.ok .none, if C.old = uninit then s else s.ensureItrait) := by
  by_cases ho : C.old = uninit
  · pw_exec [WrapProg.TraitChangeNotifyWrapper_notify_method_listener, changeAccepted, ho, hd]
  · cases hc : changeAcceptedCmp C.E.cmp C.t.kind C.t.flags C.old C.new <;>
    pw_exec [WrapProg.TraitChangeNotifyWrapper_notify_method_listener, changeAccepted, ho, hd, hc]

/-- `listener_deleted` (the weak reference's callback): the wrapper takes itself out of the notifier list it sits in;
nothing is raised (a wrapper that is no longer there is not an error). -/
theorem listener_deleted_is_source (C : WC) (s : OSt) :
    Model.PyW.run C WrapProg.TraitChangeNotifyWrapper_listener_deleted [.self, .weak] s
      = (.ok .none, s.removeSelf C.n C.loc) := by
  pw_exec [WrapProg.TraitChangeNotifyWrapper_listener_deleted]

/-- what a handler of the given arity receives from each wrapper class: the source's tables -/
theorem argument_transforms_are_source :
    WrapProg.TraitChangeNotifyWrapper_argument_transforms
      = [(0, []), (1, [.new]), (2, [.name, .new]), (3, [.obj, .name, .new]), (4, [.obj, .name, .old, .new])]
    ∧ WrapProg.StaticTraitChangeNotifyWrapper_argument_transforms
      = [(0, []), (1, [.obj]), (2, [.obj, .new]), (3, [.obj, .old, .new]), (4, [.obj, .name, .old, .new])]
    ∧ WrapProg.StaticAnytraitChangeNotifyWrapper_argument_transforms
      = [(0, []), (1, [.obj]), (2, [.obj, .name]), (3, [.obj, .name, .new]), (4, [.obj, .name, .old, .new])] := by
  decide

/-! ### `ExtendedTraitChangeNotifyWrapper` (the internal wrappers of extended-name listeners): no `_change_accepted`
filter (an `Uninitialized` old value and an equal new value are passed on, no instance trait is created), no tracers;
everything else as for `TraitChangeNotifyWrapper`. -/

theorem ext_dispatch_change_event_is_source (C : WC) (s : OSt) :
    Model.PyW.run C WrapProg.ExtendedTraitChangeNotifyWrapper_dispatch_change_event
        [.self, .object, .name, .id C.old, .id C.new, .handler] s = dispatchSem C s := by
  unfold dispatchSem
  generalize hs0 : s = s0
  handler_cases [WrapProg.ExtendedTraitChangeNotifyWrapper_dispatch_change_event]

theorem ext_notify_function_is_source (C : WC) (s : OSt) :
    Model.PyW.run C WrapProg.ExtendedTraitChangeNotifyWrapper_notify_function_listener
        [.self, .object, .name, .id C.old, .id C.new] s = dispatchSem C s := by
  unfold dispatchSem
  generalize hs0 : s = s0
  handler_cases [WrapProg.ExtendedTraitChangeNotifyWrapper_notify_function_listener]

theorem ext_notify_method_is_source (C : WC) (s : OSt) (k : Nat) (hn : C.wrapName = some k) :
    Model.PyW.run C WrapProg.ExtendedTraitChangeNotifyWrapper_notify_method_listener
        [.self, .object, .name, .id C.old, .id C.new] s
      = if C.ownerAlive then dispatchSem C s else (.ok .none, s) := by
  unfold dispatchSem
  cases ha : C.ownerAlive
  · pw_exec [WrapProg.ExtendedTraitChangeNotifyWrapper_notify_method_listener, hn, ha]
  · generalize hs0 : s = s0
    handler_cases [WrapProg.ExtendedTraitChangeNotifyWrapper_notify_method_listener, hn, ha]

/-! ### `TraitChangeNotifyWrapper.init` -/

/-- What `init(handler, owner, target)` does, case by case: a bound method with a live `__self__` gets a weak
reference to its owner (callback `listener_deleted`), the method NAME, the notifier list, the METHOD listener and the
transform for `co_argcount - 1` arguments; anything else (a function, a method without `__self__`) gets — after the
weak reference to `target`, for a function with a target — no name, the handler itself, the FUNCTION listener and the
transform for `co_argcount` arguments; more than four arguments: `TraitNotificationError`, raised before a listener
or a transform is installed.  Returned: the argument count. -/
def initSpec (C : WC) (target : Bool) : Except Exc Val × List (Model.PyW.Attr × Val) :=
  match C.cand with
  | .method (some _) k =>
    let pre := [(Model.PyW.Attr.object, Val.weak), (.name, .nameV k), (.owner, .ownerList)]
    if (C.candArgc : Int) - 1 > 4 then (.error .other, pre)
    else (.ok (.int ((C.candArgc : Int) - 1)),
          pre ++ [(.notify_listener, .listenerRef true), (.argument_transform, .xformV ((C.candArgc : Int) - 1))])
  | c =>
    let pre := if (target && (match c with | .func _ => true | _ => false)) = true
      then [(Model.PyW.Attr.object, Val.weak), (.owner, .ownerList)] else []
    if (C.candArgc : Int) > 4 then (.error .other, pre)
    else (.ok (.int C.candArgc),
          pre ++ [(.name, .none), (.handler, .cand), (.notify_listener, .listenerRef false),
                  (.argument_transform, .xformV C.candArgc)])

macro "init_exec" "[" ts:Lean.Parser.Tactic.simpLemma,* "]" : tactic =>
  `(tactic| simp [runInit, exec, eval, evalArgs, bindArgs, setVar, truthy, getGlob, getAttr, callFn,
      WrapProg.TraitChangeNotifyWrapper_init, candVal, initSpec, $ts,*])

theorem init_is_source (C : WC) (s : OSt) (target : Bool) (hc : C.cand ≠ .self) (h1 : 1 ≤ C.candArgc) :
    runInit C WrapProg.TraitChangeNotifyWrapper_init
        [.self, candVal C.cand, .ownerList, if target then .target else .none] s = initSpec C target := by
  rcases hcand : C.cand with _ | f | ⟨_ | o, k⟩
  · exact absurd hcand hc
  · by_cases hg : (C.candArgc : Int) > 4 <;> cases target <;> init_exec [hcand, hg]
  · by_cases hg : (C.candArgc : Int) > 4 <;> cases target <;> init_exec [hcand, hg]
  · have a1 : ¬ ((C.candArgc : Int) < 1) := by omega
    have a2 : (1 : Int) ≤ (C.candArgc : Int) := by omega
    by_cases hg : (C.candArgc : Int) - 1 > 4
    · cases target <;> init_exec [hcand, hg, a1, a2]
    · have a3 : (C.candArgc : Int) - 1 ≤ 4 := by omega
      have a4 : (C.candArgc : Int) ≤ 5 := by omega
      have a5 : (0 : Int) ≤ (C.candArgc : Int) - 1 := by omega
      cases target <;> init_exec [hcand, hg, a1, a2, a3, a4, a5]
end TraitsVerif.Lemmas.WrapSource
