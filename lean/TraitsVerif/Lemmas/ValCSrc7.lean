/-
Source tie of the compiled validators, part 7: `validate_trait_tuple_check`.  The helper's
translated source text (outer loop over the items, the tuple built in place with
`PyTuple_SET_ITEM`, the inner copy loop run when the first validated item differs from
the original), interpreted, computes the model's `tupleCheck`: `tupleCheckSpec_holds`
discharges the hypothesis `TupleCheckSpec` of Lemmas/ValCSrc6.lean.

Method (as in ValCSrc5): loop lemmas stated on the semantics of cond / incr / body
(`iter_copy`, `iter_tuple`), their Hoare-style forms, a pure mirror of what the loop does
to the variable `tuple` (`stepTup`, `foldTup`) with its closed form (`foldTup_none`).
-/
import TraitsVerif.Lemmas.ValCSrc6
namespace TraitsVerif.Model.CSrc
open TraitsVerif TraitsVerif.Py.Value TraitsVerif.Model.Val TraitsVerif.Generated.CValidators

set_option maxRecDepth 16384
set_option maxHeartbeats 1000000

/-! ## Pure part: the tuple the C loop builds -/

/-- The variable `tuple`: NULL or the tuple under construction. -/
def tupCV : Option (List CV) → CV
  | none => .null
  | some xs => .mtuple xs

/-- What PyErr_Clear leaves of the error indicator when the item validator failed. -/
def clrErr : Exc → Err
  | .traitError => none
  | e => some e

/-- The new tuple after the inner copy loop has copied the first `j` items of `value`. -/
def copyP (n : Nat) (vs : List Val) (j : Nat) : List CV :=
  (vs.take j).map CV.obj ++ List.replicate (n - j) CV.null

/-- One iteration of the outer loop on `tuple` (item `i`, validated `a`, original `b`). -/
def stepTup (n : Nat) (vs : List Val) (i : Nat) (o : Option (List CV)) (a b : Val) : Option (List CV) :=
  match o with
  | some xs => some (xs.set i (.obj a))
  | none => if a = b then none else some ((vs.take i).map CV.obj ++ CV.obj a :: List.replicate (n - i - 1) CV.null)

/-- The remaining iterations. -/
def foldTup (n : Nat) (vs : List Val) : Nat → Option (List CV) → List Val → List Val → Option (List CV)
  | i, o, a :: as, b :: bs => foldTup n vs (i + 1) (stepTup n vs i o a b) as bs
  | _, o, _, _ => o

theorem copyP_set (n : Nat) (vs : List Val) (j : Nat) (x : CV) (hj : j < n) (hv : j ≤ vs.length) :
    (copyP n vs j).set j x = (vs.take j).map CV.obj ++ x :: List.replicate (n - j - 1) CV.null := by
  have h1 : ((vs.take j).map CV.obj).length = j := by simp [Nat.min_eq_left hv]
  have h2 : n - j = (n - j - 1) + 1 := by omega
  unfold copyP
  rw [List.set_append_right _ _ (by omega), h1, Nat.sub_self, h2, List.replicate_succ, List.set_cons_zero]
  simp

theorem copyP_succ (n : Nat) (vs : List Val) (j : Nat) (b : Val) (hj : j < n) (hb : vs[j]? = some b) :
    (copyP n vs j).set j (.obj b) = copyP n vs (j + 1) := by
  have hlt : j < vs.length := by
    rcases Nat.lt_or_ge j vs.length with h | h
    · exact h
    · simp [List.getElem?_eq_none h] at hb
  rw [copyP_set n vs j _ hj (Nat.le_of_lt hlt)]
  have hb' : vs[j] = b := by simpa [List.getElem?_eq_getElem hlt] using hb
  unfold copyP
  rw [List.take_succ_eq_append_getElem hlt, hb']
  simp [Nat.sub_add_eq]

theorem foldTup_some (n : Nat) (vs : List Val) :
    ∀ (as bs ws : List Val) (i : Nat), ws.length = i → as.length = bs.length →
      foldTup n vs i (some (ws.map CV.obj ++ List.replicate as.length CV.null)) as bs = some ((ws ++ as).map CV.obj) := by
  intro as
  induction as with
  | nil => intro bs ws i _ _; cases bs <;> simp [foldTup]
  | cons a as ih =>
    intro bs ws i hw hl
    cases bs with
    | nil => simp at hl
    | cons b bs =>
      simp only [List.length_cons] at hl
      have h1 : (ws.map CV.obj).length = i := by simpa using hw
      have := ih bs (ws ++ [a]) (i + 1) (by simp [hw]) (by omega)
      simp only [foldTup, stepTup, List.length_cons, List.replicate_succ]
      rw [List.set_append_right _ _ (by omega), h1, Nat.sub_self, List.set_cons_zero]
      simpa using this

theorem foldTup_none (n : Nat) :
    ∀ (as bs pre : List Val), as.length = bs.length → n = pre.length + bs.length →
      foldTup n (pre ++ bs) pre.length none as bs = if as = bs then none else some ((pre ++ as).map CV.obj) := by
  intro as
  induction as with
  | nil => intro bs pre hl _; cases bs <;> simp [foldTup] at hl ⊢
  | cons a as ih =>
    intro bs pre hl hn
    cases bs with
    | nil => simp at hl
    | cons b bs =>
      simp only [List.length_cons] at hl hn
      simp only [foldTup, stepTup]
      by_cases hab : a = b
      · subst hab
        have := ih bs (pre ++ [a]) (by omega) (by simp; omega)
        simp only [List.append_assoc, List.singleton_append, List.length_append, List.length_singleton] at this
        simp [this]
      · have h2 : n - pre.length - 1 = as.length := by omega
        have h3 := foldTup_some n (pre ++ b :: bs) as bs (pre ++ [a]) (pre.length + 1) (by simp) (by omega)
        simp only [hab, if_false, h2]
        simp only [List.map_append, List.map_cons, List.map_nil, List.append_assoc, List.singleton_append] at h3
        simp [hab, h3]

theorem tupleItems_length (E : Env) :
    ∀ (ds : List (Option Desc)) (bs ws : List Val), ds.length = bs.length → tupleItems E ds bs = .ok ws →
      ws.length = bs.length := by
  intro ds
  induction ds with
  | nil => intro bs ws hl h; cases bs <;> simp_all [tupleItems]
  | cons d ds ih =>
    intro bs ws hl h
    cases bs with
    | nil => simp at hl
    | cons b bs =>
      simp only [tupleItems] at h
      cases h1 : optValidate E d b with
      | traitError => simp [h1] at h
      | raised e => simp [h1] at h
      | ok a =>
        simp only [h1] at h
        cases h2 : tupleItems E ds bs with
        | error x => simp [h2] at h
        | ok as =>
          simp only [h2, Except.ok.injEq] at h
          subst h
          simp [ih bs as (by simpa using hl) h2]


/-! ## The two loops, semantically -/

/-- The inner copy loop `for (j = 0; j < i; j++) tuple[j] = value[j]`. -/
theorem iter_copy {R : Type} (cond incr : St → (CV → St → R) → R) (body : St → (Out → St → R) → R)
    (k : Out → St → R) (S : Nat → List CV → CV → St) (n : Nat) (vs : List Val) (i : Nat)
    (hin : i < n) (hiv : i ≤ vs.length)
    (hc : ∀ j xs t k', cond (S j xs t) k' = k' (ofBool (decide (j < i))) (S j xs t))
    (hi : ∀ j xs t k', incr (S j xs t) k' = k' (.int j) (S (j + 1) xs t))
    (hb : ∀ j xs t k' b, vs[j]? = some b → body (S j xs t) k' = k' .norm (S j (xs.set j (.obj b)) (.obj b))) :
    ∀ (d j : Nat) (t : CV) (m : Nat), j + d = i → d < m →
      ∃ t', iter cond incr body k m (S j (copyP n vs j) t) = k .norm (S i (copyP n vs i) t') := by
  intro d
  induction d with
  | zero =>
    intro j t m hj hm
    cases m with
    | zero => omega
    | succ m =>
      have : j = i := by omega
      subst this
      exact ⟨t, by simp [iter, hc]⟩
  | succ d ih =>
    intro j t m hj hm
    cases m with
    | zero => omega
    | succ m =>
      have hji : j < i := by omega
      have hjv : j < vs.length := by omega
      have hb' := hb j (copyP n vs j) t
      obtain ⟨t', ht'⟩ := ih (j + 1) (.obj vs[j]) m (by omega) (by omega)
      refine ⟨t', ?_⟩
      simp [iter, hc, hji, hb j (copyP n vs j) t _ vs[j] (List.getElem?_eq_getElem hjv), hi,
        copyP_succ n vs j vs[j] (by omega) (List.getElem?_eq_getElem hjv), ht']

theorem iter_copy_Q {R : Type} (cond incr : St → (CV → St → R) → R) (body : St → (Out → St → R) → R)
    (k : Out → St → R) (S : Nat → List CV → CV → St) (n : Nat) (vs : List Val) (i : Nat)
    (hin : i < n) (hiv : i ≤ vs.length)
    (hc : ∀ j xs t k', cond (S j xs t) k' = k' (ofBool (decide (j < i))) (S j xs t))
    (hi : ∀ j xs t k', incr (S j xs t) k' = k' (.int j) (S (j + 1) xs t))
    (hb : ∀ j xs t k' b, vs[j]? = some b → body (S j xs t) k' = k' .norm (S j (xs.set j (.obj b)) (.obj b)))
    (t : CV) (m : Nat) (hm : i < m) (Q : R → Prop)
    (hQ : ∀ t', Q (k .norm (S i (copyP n vs i) t'))) :
    Q (iter cond incr body k m (S 0 (List.replicate n .null) t)) := by
  obtain ⟨t', h⟩ := iter_copy cond incr body k S n vs i hin hiv hc hi hb i 0 t m (by omega) hm
  have h0 : copyP n vs 0 = List.replicate n .null := by simp [copyP]
  rw [h0] at h
  rw [h]; exact hQ t'

/-- The outer loop over the items. -/
theorem iter_tuple {R : Type} (E : Env) (cond incr : St → (CV → St → R) → R) (body : St → (Out → St → R) → R)
    (k : Out → St → R) (S : Nat → CV → CV → CV → CV → CV → St) (n : Nat)
    (items : List (Option Desc)) (vs : List Val)
    (hc : ∀ i tup t4 t5 t6 t10 k', cond (S i tup t4 t5 t6 t10) k' = k' (ofBool (decide (i < n))) (S i tup t4 t5 t6 t10))
    (hi : ∀ i tup t4 t5 t6 t10 k', incr (S i tup t4 t5 t6 t10) k' = k' (.int i) (S (i + 1) tup t4 t5 t6 t10))
    (hb : ∀ i o t4 t5 t6 t10 k' od b, i < n → items[i]? = some od → vs[i]? = some b →
      ∃ u4 u5 u6 u10, body (S i (tupCV o) t4 t5 t6 t10) k' =
        match optValidate E od b with
        | .traitError => k' (.ret .null) (S i (tupCV o) u4 u5 u6 u10)
        | .raised e => k' (.ret .null) { S i (tupCV o) u4 u5 u6 u10 with err := clrErr e }
        | .ok a => k' .norm (S i (tupCV (stepTup n vs i o a b)) u4 u5 u6 u10)) :
    ∀ (sufI : List (Option Desc)) (sufV : List Val) (preI : List (Option Desc)) (preV : List Val)
      (o : Option (List CV)) (t4 t5 t6 t10 : CV) (m : Nat),
      items = preI ++ sufI → vs = preV ++ sufV → preI.length = preV.length → sufI.length = sufV.length →
      n = items.length → sufI.length < m →
      ∃ i' o' u4 u5 u6 u10, iter cond incr body k m (S preV.length (tupCV o) t4 t5 t6 t10) =
        match tupleItems E sufI sufV with
        | .error none => k (.ret .null) (S i' (tupCV o') u4 u5 u6 u10)
        | .error (some e) => k (.ret .null) { S i' (tupCV o') u4 u5 u6 u10 with err := clrErr e }
        | .ok ws => k .norm (S n (tupCV (foldTup n vs preV.length o ws sufV)) u4 u5 u6 u10) := by
  intro sufI
  induction sufI with
  | nil =>
    intro sufV preI preV o t4 t5 t6 t10 m hI hV hp hs hn hm
    cases sufV with
    | cons _ _ => simp at hs
    | nil =>
      cases m with
      | zero => omega
      | succ m =>
        have h1 : preV.length = n := by simp [hn, hI, hp]
        refine ⟨0, none, t4, t5, t6, t10, ?_⟩
        simp [iter, hc, h1, tupleItems, foldTup]
  | cons od restI ih =>
    intro sufV preI preV o t4 t5 t6 t10 m hI hV hp hs hn hm
    cases sufV with
    | nil => simp at hs
    | cons b restV =>
      simp only [List.length_cons] at hs hm
      cases m with
      | zero => omega
      | succ m =>
        have hlt : preV.length < n := by simp [hn, hI, hp]
        have hgI : items[preV.length]? = some od := by simp [hI, ← hp]
        have hgV : vs[preV.length]? = some b := by simp [hV]
        obtain ⟨u4, u5, u6, u10, hbody⟩ := hb preV.length o t4 t5 t6 t10
          (fun o s2 => match o with
            | .norm => incr s2 fun _ s3 => iter cond incr body k m s3
            | .brk => k .norm s2
            | o => k o s2) od b hlt hgI hgV
        cases hov : optValidate E od b with
        | traitError =>
          refine ⟨preV.length, o, u4, u5, u6, u10, ?_⟩
          simp only [hov] at hbody
          simp only [iter, hc, hlt, decide_true, truthy_ofBool, if_true, tupleItems, hov]
          exact hbody
        | raised e =>
          refine ⟨preV.length, o, u4, u5, u6, u10, ?_⟩
          simp only [hov] at hbody
          simp only [iter, hc, hlt, decide_true, truthy_ofBool, if_true, tupleItems, hov]
          exact hbody
        | ok a =>
          simp only [hov] at hbody
          obtain ⟨i', o', w4, w5, w6, w10, hrec⟩ := ih restV (preI ++ [od]) (preV ++ [b])
            (stepTup n vs preV.length o a b) u4 u5 u6 u10 m (by simp [hI]) (by simp [hV]) (by simp [hp])
            (by omega) hn (by omega)
          simp only [List.length_append, List.length_singleton] at hrec
          refine ⟨i', o', w4, w5, w6, w10, ?_⟩
          simp only [iter, hc, hlt, decide_true, truthy_ofBool, if_true, tupleItems, hov]
          refine hbody.trans ?_
          simp only [hi, hrec]
          cases tupleItems E restI restV with
          | error x => cases x <;> rfl
          | ok ws => simp [foldTup]

theorem iter_tuple_Q {R : Type} (E : Env) (cond incr : St → (CV → St → R) → R) (body : St → (Out → St → R) → R)
    (k : Out → St → R) (S : Nat → CV → CV → CV → CV → CV → St) (n : Nat)
    (items : List (Option Desc)) (vs : List Val)
    (hc : ∀ i tup t4 t5 t6 t10 k', cond (S i tup t4 t5 t6 t10) k' = k' (ofBool (decide (i < n))) (S i tup t4 t5 t6 t10))
    (hi : ∀ i tup t4 t5 t6 t10 k', incr (S i tup t4 t5 t6 t10) k' = k' (.int i) (S (i + 1) tup t4 t5 t6 t10))
    (hb : ∀ i o t4 t5 t6 t10 k' od b, i < n → items[i]? = some od → vs[i]? = some b →
      ∃ u4 u5 u6 u10, body (S i (tupCV o) t4 t5 t6 t10) k' =
        match optValidate E od b with
        | .traitError => k' (.ret .null) (S i (tupCV o) u4 u5 u6 u10)
        | .raised e => k' (.ret .null) { S i (tupCV o) u4 u5 u6 u10 with err := clrErr e }
        | .ok a => k' .norm (S i (tupCV (stepTup n vs i o a b)) u4 u5 u6 u10))
    (t4 t5 t6 t10 : CV) (m : Nat) (hl : items.length = vs.length) (hn : n = items.length) (hm : items.length < m)
    (Q : R → Prop)
    (hQ : ∀ i' o' u4 u5 u6 u10, Q (match tupleItems E items vs with
        | .error none => k (.ret .null) (S i' (tupCV o') u4 u5 u6 u10)
        | .error (some e) => k (.ret .null) { S i' (tupCV o') u4 u5 u6 u10 with err := clrErr e }
        | .ok ws => k .norm (S n (tupCV (foldTup n vs 0 none ws vs)) u4 u5 u6 u10))) :
    Q (iter cond incr body k m (S 0 .null t4 t5 t6 t10)) := by
  obtain ⟨i', o', u4, u5, u6, u10, h⟩ := iter_tuple E cond incr body k S n items vs hc hi hb items vs [] [] none
    t4 t5 t6 t10 m rfl rfl rfl hl hn hm
  simp only [List.length_nil, tupCV] at h
  rw [h]; exact hQ i' o' u4 u5 u6 u10


/-! ## The function -/

theorem isInst_tuple_tuple (sub : Bool) (vs : List Val) : Val.isInst .tuple (.tuple sub vs) = true := by
  simp [Val.isInst]

theorem map_cvToVal_obj (ws : List Val) : (ws.map CV.obj).map cvToVal = ws := by
  induction ws with
  | nil => rfl
  | cons w ws ih => simp only [List.map_cons, cvToVal, ih]

/-- What `helpers` does with the result of `runFn`. -/
def finK (err : Err) : Option (CV × Err) → CV × Err
  | some r => (finishT r.1, r.2)
  | none => (.undef, err)

theorem helpers_eq (E : Env) (inner : Desc → Val → Res) (cdflt : Val) (fuel : Nat) (name : String) (f : Fn)
    (xs : List CV) (err : Err) (hl : table.lookup name = some f) :
    helpers E inner cdflt fuel name xs err = finK err (runFn (C0 E inner cdflt) fuel f xs err) := by
  simp only [helpers, hl]
  cases runFn (C0 E inner cdflt) fuel f xs err <;> rfl

theorem ex_of_Q {R : Type} (x : R) (F : CV → CV → CV → CV → R)
    (h : ∀ Q : R → Prop, (∀ u4 u5 u6 u10, Q (F u4 u5 u6 u10)) → Q x) : ∃ u4 u5 u6 u10, x = F u4 u5 u6 u10 :=
  h (fun r => ∃ u4 u5 u6 u10, r = F u4 u5 u6 u10) (fun u4 u5 u6 u10 => ⟨u4, u5, u6, u10, rfl⟩)

theorem tupleItems_error_ne (E : Env) :
    ∀ (ds : List (Option Desc)) (bs : List Val) (e : Exc),
      (∀ d, some d ∈ ds → ∀ x, fastAlone E d x ≠ .raised .traitError) →
      tupleItems E ds bs = .error (some e) → e ≠ .traitError := by
  intro ds
  induction ds with
  | nil => intro bs e _ h; simp [tupleItems] at h
  | cons d ds ih =>
    intro bs e hte h
    cases bs with
    | nil => simp [tupleItems] at h
    | cons b bs =>
      simp only [tupleItems] at h
      cases h1 : optValidate E d b with
      | traitError => simp [h1] at h
      | raised e' =>
        simp only [h1, Except.error.injEq, Option.some.injEq] at h
        subst h
        cases d with
        | none => simp [optValidate] at h1
        | some d' =>
          intro he
          subst he
          exact hte d' (by simp) b (by simpa [optValidate] using h1)
      | ok a =>
        simp only [h1] at h
        cases h2 : tupleItems E ds bs with
        | error x =>
          simp only [h2, Except.error.injEq] at h
          subst h
          exact ih bs e (fun d hd => hte d (by simp [hd])) h2
        | ok as => simp [h2] at h

theorem tupleCheck_tuple_eq (E : Env) (inner : Desc → Val → Res) (cdflt : Val) (fuel : Nat) (items : List (Option Desc))
    (hin : ∀ d, some d ∈ items → ∀ x, inner d x = fastAlone E d x)
    (hte : ∀ d, some d ∈ items → ∀ x, fastAlone E d x ≠ .raised .traitError)
    (hf : items.length < fuel) (sub : Bool) (vs : List Val) (hlen : items.length = vs.length) :
    helpers E inner cdflt fuel "validate_trait_tuple_check" [.traits items, .hobj, .name, .obj (.tuple sub vs)] none =
      tupToC (tupleCheck E items (.tuple sub vs)) := by
  have hl : table.lookup "validate_trait_tuple_check" = some fn_validate_trait_tuple_check := by rfl
  rw [helpers_eq E inner cdflt fuel _ _ _ _ hl]
  simp only [tupleCheck, tupleCheckWith, hlen, if_true, C0]
  simp only [fn_validate_trait_tuple_check]
  csrc_evalw [isInst_tuple_tuple, hlen]
  refine iter_tuple_Q E _ _ _ _
    (fun i tup t4 t5 t6 t10 => ⟨[.traits items, .hobj, .name, .obj (.tuple sub vs), t4, t5, t6, tup,
      .int ↑vs.length, .int ↑i, t10], none⟩)
    vs.length items vs ?hc ?hi ?hb .undef .undef .undef .undef fuel hlen hlen.symm hf
    (fun r => finK none r = tupToC _) ?hQ
  case hc =>
    intro i tup t4 t5 t6 t10 k'
    simp
  case hi =>
    intro i tup t4 t5 t6 t10 k'
    simp [Int.natCast_add]
  case hb =>
    intro i o t4 t5 t6 t10 k' od b hlt hgI hgV
    have hlt' : i < vs.length := hlt
    have hgV' : vs[i] = b := by simpa [List.getElem?_eq_getElem hlt'] using hgV
    cases od with
    | none =>
      cases o with
      | some xs =>
        refine ⟨.itrait none, .obj b, .obj b, t10, ?_⟩
        csrc_evalw [optValidate, stepTup, tupCV, hgI, hgV, hgV', hlt']
      | none =>
        refine ⟨.itrait none, .obj b, .obj b, t10, ?_⟩
        csrc_evalw [optValidate, stepTup, tupCV, hgI, hgV, hgV', hlt']
    | some d =>
      have hmem : some d ∈ items := List.mem_of_getElem? hgI
      have hinb := hin d hmem b
      have hteb := hte d hmem b
      cases hv : fastAlone E d b with
      | traitError =>
        refine ⟨.itrait (some d), .obj b, .null, t10, ?_⟩
        cases o <;> csrc_evalw [optValidate, stepTup, tupCV, hgI, hgV, hgV', hlt', hinb, hv]
      | raised e =>
        refine ⟨.itrait (some d), .obj b, .null, t10, ?_⟩
        have hne : e ≠ .traitError := by intro h; subst h; exact hteb hv
        cases o <;> cases e <;> simp at hne <;>
          csrc_evalw [optValidate, stepTup, tupCV, hgI, hgV, hgV', hlt', hinb, hv, clrErr]
      | ok a =>
        cases o with
        | some xs =>
          refine ⟨.itrait (some d), .obj b, .obj a, t10, ?_⟩
          csrc_evalw [optValidate, stepTup, tupCV, hgI, hgV, hgV', hlt', hinb, hv]
        | none =>
          by_cases hab : a = b
          · refine ⟨.itrait (some d), .obj b, .obj a, t10, ?_⟩
            csrc_evalw [optValidate, stepTup, tupCV, hgI, hgV, hgV', hlt', hinb, hv, hab]
          · simp only [optValidate, hv, stepTup, hab, if_false, tupCV]
            refine ex_of_Q _ _ ?_
            intro Q hQ0
            csrc_evalw [hgI, hgV, hgV', hlt', hinb, hv, hab]
            refine iter_copy_Q _ _ _ _
              (fun j xs t => ⟨[.traits items, .hobj, .name, .obj (.tuple sub vs), .itrait (some d), t, .obj a,
                .mtuple xs, .int ↑vs.length, .int ↑i, .int ↑j], none⟩)
              vs.length vs i hlt' (Nat.le_of_lt hlt') ?hc2 ?hi2 ?hb2 (.obj b) fuel (by omega) Q ?hQ2
            case hc2 =>
              intro j xs t k''
              simp
            case hi2 =>
              intro j xs t k''
              simp [Int.natCast_add]
            case hb2 =>
              intro j xs t k'' b' hb'
              csrc_evalw [hb']
            case hQ2 =>
              intro t'
              csrc_evalw [copyP_set vs.length vs i (.obj a) hlt' (Nat.le_of_lt hlt')]
              simp only [List.map_take] at hQ0
              exact hQ0 _ _ _ _
  case hQ =>
    intro i' o' u4 u5 u6 u10
    cases hti : tupleItems E items vs with
    | error x =>
      cases x with
      | none => simp [finK, finishT, tupToC]
      | some e =>
        have hne := tupleItems_error_ne E items vs e hte hti
        have hclr : clrErr e = some e := by cases e <;> simp_all [clrErr]
        simp [finK, finishT, tupToC, hclr]
    | ok ws =>
      have hwl := tupleItems_length E items vs ws hlen hti
      have hfold := foldTup_none vs.length ws vs [] hwl (by simp)
      simp only [List.nil_append, List.length_nil] at hfold
      simp only [hfold]
      by_cases hwv : ws = vs
      · subst hwv
        simp [tupCV, finK, finishT, tupToC, Val.beqL_refl]
      · have hb1 : Val.beqL ws vs = false := by
          cases hb : Val.beqL ws vs with
          | false => rfl
          | true => exact absurd ((Val.beqL_iff ws vs).1 hb) hwv
        simp [hwv, tupCV, finK, finishT, tupToC, hb1]
        simpa using map_cvToVal_obj ws


theorem tupleCheck_nontuple_eq (E : Env) (inner : Desc → Val → Res) (cdflt : Val) (fuel : Nat)
    (items : List (Option Desc)) (v : Val) (hv : Val.isInst .tuple v = false) :
    helpers E inner cdflt fuel "validate_trait_tuple_check" [.traits items, .hobj, .name, .obj v] none = (.null, none) := by
  have hl : table.lookup "validate_trait_tuple_check" = some fn_validate_trait_tuple_check := by rfl
  rw [helpers_eq E inner cdflt fuel _ _ _ _ hl]
  simp only [C0, fn_validate_trait_tuple_check]
  csrc_evalw [hv, finK, finishT]

theorem tupleCheck_length_eq (E : Env) (inner : Desc → Val → Res) (cdflt : Val) (fuel : Nat)
    (items : List (Option Desc)) (sub : Bool) (vs : List Val) (hlen : ¬ items.length = vs.length) :
    helpers E inner cdflt fuel "validate_trait_tuple_check" [.traits items, .hobj, .name, .obj (.tuple sub vs)] none =
      (.null, none) := by
  have hl : table.lookup "validate_trait_tuple_check" = some fn_validate_trait_tuple_check := by rfl
  rw [helpers_eq E inner cdflt fuel _ _ _ _ hl]
  simp only [C0, fn_validate_trait_tuple_check]
  have hlen' : ¬ ((items.length : Int) = ↑vs.length) := by omega
  csrc_evalw [isInst_tuple_tuple, hlen, hlen', finK, finishT]

/-- `validate_trait_tuple_check`, interpreted on its translated source text, computes the
model's `tupleCheck` (the equation `TupleCheckSpec` asks for), provided the item validators
are the stand-alone validators (`hin`), none of them reports the junk value
`.raised .traitError` (`hte`: the C code clears a TraitError and reports "no match"), and
the loop bound of the interpreter exceeds the number of items (`hf`). -/
theorem tupleCheckSpec_holds (E : Env) (inner : Desc → Val → Res) (cdflt : Val) (fuel : Nat)
    (items : List (Option Desc))
    (hin : ∀ d, some d ∈ items → ∀ x, inner d x = fastAlone E d x)
    (hte : ∀ d, some d ∈ items → ∀ x, fastAlone E d x ≠ .raised .traitError)
    (hf : items.length < fuel) :
    TupleCheckSpec E inner cdflt fuel items := by
  intro v
  cases v with
  | atom a =>
    rw [tupleCheck_nontuple_eq E inner cdflt fuel items _ (by cases a <;> simp [Val.isInst])]
    simp [tupleCheck, tupleCheckWith, tupToC]
  | list ws =>
    rw [tupleCheck_nontuple_eq E inner cdflt fuel items _ (by simp [Val.isInst])]
    simp [tupleCheck, tupleCheckWith, tupToC]
  | tuple sub vs =>
    by_cases hlen : items.length = vs.length
    · exact tupleCheck_tuple_eq E inner cdflt fuel items hin hte hf sub vs hlen
    · rw [tupleCheck_length_eq E inner cdflt fuel items sub vs hlen]
      simp [tupleCheck, tupleCheckWith, hlen, tupToC]

end TraitsVerif.Model.CSrc
