/-
Helper lemmas for C10, part 2: how one statement on one (object, attribute)
pair can change the shared context — for EVERY environment.  Containers that
existed before keep their contents (`default_value_for` only allocates), new
log entries are about this object, new factory-call entries are about this
(object, attribute).
-/
import TraitsVerif.Lemmas.AttrFrame
namespace TraitsVerif.Model.Attr
open TraitsVerif

/-! ### Heap lookups -/

theorem heapGet_append_ne (heap : List (Id × List Id)) (a x : Id) (xs : List Id) (h : x ≠ a) :
    heapGet (heap ++ [(a, xs)]) x = heapGet heap x := by
  unfold heapGet
  rw [List.find?_append]
  cases hf : heap.find? (fun e => e.1 == x) with
  | some p => simp
  | none =>
    have : ((a, xs).1 == x) = false := by simp; exact fun e => h e.symm
    simp [List.find?, this]

theorem heapGet_append_self (heap : List (Id × List Id)) (a : Id) (xs : List Id)
    (h : heapGet heap a = none) : heapGet (heap ++ [(a, xs)]) a = some xs := by
  unfold heapGet at h ⊢
  rw [List.find?_append]
  cases hf : heap.find? (fun e => e.1 == a) with
  | some p => simp [hf] at h
  | none => simp [List.find?]

/-- Context after allocations only. -/
structure CFrame (c c' : Ctx) : Prop where
  le : c.alloc ≤ c'.alloc
  heap : ∀ x, x < c.alloc → heapGet c'.heap x = heapGet c.heap x
  log : c'.log = c.log
  postLog : c'.postLog = c.postLog

theorem CFrame.refl (c : Ctx) : CFrame c c := ⟨Nat.le_refl _, fun _ _ => rfl, rfl, rfl⟩

theorem CFrame.trans {a b c : Ctx} (h1 : CFrame a b) (h2 : CFrame b c) : CFrame a c :=
  ⟨Nat.le_trans h1.le h2.le,
   fun x hx => (h2.heap x (Nat.lt_of_lt_of_le hx h1.le)).trans (h1.heap x hx),
   h2.log.trans h1.log, h2.postLog.trans h1.postLog⟩

theorem newContainer_frame (c : Ctx) (xs : List Id) : CFrame c (c.newContainer xs).2 := by
  unfold Ctx.newContainer
  exact ⟨Nat.le_succ _, fun x hx => heapGet_append_ne _ _ _ _ (Nat.ne_of_lt hx), rfl, rfl⟩

theorem newContainer_fcalls (c : Ctx) (xs : List Id) : (c.newContainer xs).2.fcalls = c.fcalls := rfl
theorem newContainer_nval (c : Ctx) (xs : List Id) : (c.newContainer xs).2.nval = c.nval := rfl

theorem copyOf_frame (c : Ctx) (src : Id) : CFrame c (c.copyOf src).2 := newContainer_frame c _
theorem copyOf_fcalls (c : Ctx) (src : Id) : (c.copyOf src).2.fcalls = c.fcalls := rfl

theorem allocElems_frame : ∀ (es : List Elem) (c : Ctx),
    CFrame c (c.allocElems es).2 ∧ (c.allocElems es).2.fcalls = c.fcalls ∧ (c.allocElems es).2.nval = c.nval
  | [], c => ⟨CFrame.refl c, rfl, rfl⟩
  | .atom v :: es, c => by
    have ih := allocElems_frame es c
    simp only [Ctx.allocElems]
    exact ih
  | .inner xs :: es, c => by
    have h1 := newContainer_frame c xs
    have ih := allocElems_frame es (c.newContainer xs).2
    simp only [Ctx.allocElems]
    exact ⟨h1.trans ih.1, ih.2.1.trans (newContainer_fcalls c xs), ih.2.2.trans (newContainer_nval c xs)⟩

theorem allocRes_frame (r : FRes) (c : Ctx) :
    CFrame c (c.allocRes r).2 ∧ (c.allocRes r).2.fcalls = c.fcalls ∧ (c.allocRes r).2.nval = c.nval := by
  cases r with
  | existing v => exact ⟨CFrame.refl c, rfl, rfl⟩
  | fresh es fr =>
    have h1 := allocElems_frame es c
    have h2 := newContainer_frame (c.allocElems es).2 (c.allocElems es).1
    simp only [Ctx.allocRes]
    cases fr
    · exact ⟨h1.1.trans h2, h1.2.1, h1.2.2⟩
    · exact ⟨h1.1.trans ⟨h2.le, h2.heap, h2.log, h2.postLog⟩, h1.2.1, h1.2.2⟩

theorem runValidate_frame (E : Env) (t : TraitCore) (v : Id) (c : Ctx) :
    CFrame c (runValidate E t v c).2 ∧ (runValidate E t v c).2.fcalls = c.fcalls := by
  unfold runValidate
  cases t.validate <;> exact ⟨⟨Nat.le_refl _, fun _ _ => rfl, rfl, rfl⟩, rfl⟩

theorem callFactory_frame (E : Env) (f obj : Id) (name : Name) (arg : Id) (c : Ctx) :
    CFrame c (callFactory E f obj name arg c).2 ∧
    (callFactory E f obj name arg c).2.fcalls = c.fcalls ++ [(f, obj, name)] := by
  unfold callFactory
  have hc1 : CFrame c { c with fcalls := c.fcalls ++ [(f, obj, name)] } :=
    ⟨Nat.le_refl _, fun _ _ => rfl, rfl, rfl⟩
  cases E.factory f c.fcalls.length arg with
  | error e => exact ⟨hc1, rfl⟩
  | ok r =>
    have h2 := allocRes_frame r { c with fcalls := c.fcalls ++ [(f, obj, name)] }
    exact ⟨hc1.trans h2.1, h2.2.1⟩

theorem validateDefault_frame (E : Env) (t : TraitCore) (v : Id) (c : Ctx) :
    CFrame c (validateDefault E t v c).2 ∧ (validateDefault E t v c).2.fcalls = c.fcalls := by
  unfold validateDefault
  cases t.validate with
  | none => exact ⟨CFrame.refl c, rfl⟩
  | some k =>
    have h := runValidate_frame E t v c
    simp only []
    cases hr : runValidate E t v c with
    | mk r c3 =>
      rw [hr] at h
      cases r with
      | error e => exact h
      | ok w => simp only []; split <;> exact h

/-- `default_value_for`: allocates only; at most one factory call, attributed
to this object and name. -/
theorem defaultValueFor_frame (E : Env) (t : TraitCore) (obj : Id) (name : Name) (c : Ctx) :
    CFrame c (defaultValueFor E t obj name c).2 ∧
    ∃ l, (defaultValueFor E t obj name c).2.fcalls = c.fcalls ++ l ∧ l.length ≤ 1 ∧
      ∀ f ∈ l, f.2 = (obj, name) := by
  unfold defaultValueFor
  split
  · exact ⟨CFrame.refl c, [], by simp, by simp, by simp⟩
  split
  · exact ⟨CFrame.refl c, [], by simp, by simp, by simp⟩
  split
  · exact ⟨copyOf_frame c _, [], by simp [copyOf_fcalls], by simp, by simp⟩
  split
  · have h := callFactory_frame E (t.dv.getD noneId) obj name noneId c
    exact ⟨h.1, [_], h.2, by simp, by simp⟩
  split
  · have h := callFactory_frame E (t.dv.getD noneId) obj name obj c
    cases hc : callFactory E (t.dv.getD noneId) obj name obj c with
    | mk r c1 =>
      rw [hc] at h
      cases r with
      | error e => exact ⟨h.1, [_], h.2, by simp, by simp⟩
      | ok v =>
        have h2 := validateDefault_frame E t v c1
        exact ⟨h.1.trans h2.1, [_], h2.2.trans h.2, by simp, by simp⟩
  · exact ⟨CFrame.refl c, [], by simp, by simp, by simp⟩

/-! ### One statement on one (object, attribute) pair -/

/-- What `step` can change, whatever the environment. -/
structure SFrame (s s' : OSt) : Prop where
  self : s'.self = s.self
  name : s'.name = s.name
  cn : s'.cn = s.cn
  le : s.ctx.alloc ≤ s'.ctx.alloc
  heap : ∀ x, x < s.ctx.alloc → heapGet s'.ctx.heap x = heapGet s.ctx.heap x
  log : ∃ l, s'.ctx.log = s.ctx.log ++ l ∧ ∀ c ∈ l, c.obj = s.self
  fcalls : ∃ l, s'.ctx.fcalls = s.ctx.fcalls ++ l ∧ ∀ f ∈ l, f.2 = (s.self, s.name)

theorem SFrame.refl (s : OSt) : SFrame s s :=
  ⟨rfl, rfl, rfl, Nat.le_refl _, fun _ _ => rfl, ⟨[], by simp, by simp⟩, [], by simp, by simp⟩

theorem SFrame.trans {a b c : OSt} (h1 : SFrame a b) (h2 : SFrame b c) : SFrame a c := by
  obtain ⟨l1, e1, m1⟩ := h1.log
  obtain ⟨l2, e2, m2⟩ := h2.log
  obtain ⟨k1, f1, n1⟩ := h1.fcalls
  obtain ⟨k2, f2, n2⟩ := h2.fcalls
  refine ⟨h2.self.trans h1.self, h2.name.trans h1.name, h2.cn.trans h1.cn, Nat.le_trans h1.le h2.le,
    fun x hx => (h2.heap x (Nat.lt_of_lt_of_le hx h1.le)).trans (h1.heap x hx),
    ⟨l1 ++ l2, by rw [e2, e1, List.append_assoc], ?_⟩, k1 ++ k2, by rw [f2, f1, List.append_assoc], ?_⟩
  · intro c hc
    rcases List.mem_append.mp hc with h | h
    · exact m1 c h
    · rw [m2 c h, h1.self]
  · intro f hf
    rcases List.mem_append.mp hf with h | h
    · exact n1 f h
    · rw [n2 f h, h1.self, h1.name]

theorem NFrame.toS {s s' : OSt} (h : NFrame s s') : SFrame s s' :=
  ⟨h.self, h.name, h.cn, Nat.le_of_eq h.alloc.symm, fun _ _ => by rw [h.heap], h.log,
   [], by simp [h.fcalls], by simp⟩

/-- Changing only the slot, the notifier lists or the flag is within the frame. -/
theorem SFrame.ofCtx (s s' : OSt) (h1 : s'.self = s.self) (h2 : s'.name = s.name) (h3 : s'.cn = s.cn)
    (h4 : s'.ctx = s.ctx) : SFrame s s' :=
  ⟨h1, h2, h3, by rw [h4]; exact Nat.le_refl _, fun _ _ => by rw [h4], ⟨[], by simp [h4], by simp⟩,
   [], by simp [h4], by simp⟩

theorem postSetattr_sframe (E : Env) (t : TraitCore) (v : Id) (s : OSt) : SFrame s (postSetattr E t v s).2 := by
  unfold postSetattr
  cases t.post with
  | none => exact SFrame.refl s
  | some p =>
    have h : SFrame s { s with ctx := { s.ctx with postLog := s.ctx.postLog ++ [(s.self, v)] } } :=
      ⟨rfl, rfl, rfl, Nat.le_refl _, fun _ _ => rfl, ⟨[], by simp, by simp⟩, [], by simp, by simp⟩
    simp only []
    split <;> exact h

theorem defaultValueFor_sframe (E : Env) (t : TraitCore) (s : OSt) : SFrame s (s.defaultValueFor E t).2 := by
  unfold OSt.defaultValueFor
  obtain ⟨hc, l, hl, -, hm⟩ := defaultValueFor_frame E t s.self s.name s.ctx
  exact ⟨rfl, rfl, rfl, hc.le, hc.heap, ⟨[], by simp [hc.log], by simp⟩, l, hl, hm⟩

theorem getattrTrait_sframe (E : Env) (t : TraitCore) (s : OSt) : SFrame s (getattrTrait E t s).2 := by
  unfold getattrTrait
  have h1 := defaultValueFor_sframe E t s
  cases hd : s.defaultValueFor E t with
  | mk r s1 =>
    rw [hd] at h1
    cases r with
    | error e => exact h1
    | ok v =>
      simp only []
      have h2 : SFrame s { s1 with slot := some v } :=
        h1.trans (SFrame.ofCtx _ _ rfl rfl rfl rfl)
      have h3 := postSetattr_sframe E t v { s1 with slot := some v }
      cases hp : postSetattr E t v { s1 with slot := some v } with
      | mk r2 s3 =>
        rw [hp] at h3
        cases r2 with
        | some e => exact h2.trans h3
        | none =>
          simp only []
          split
          · rw [callNotifiers_uninit']
            exact h2.trans h3
          · exact h2.trans h3

theorem traitGetattr_sframe (E : Env) (t : TraitCore) (s : OSt) : SFrame s (traitGetattr E t s).2 := by
  unfold traitGetattr
  cases t.kind
  · exact getattrTrait_sframe E t s
  · exact SFrame.refl s

theorem getattro_sframe (E : Env) (t : TraitCore) (s : OSt) : SFrame s (getattro E t s).2 := by
  unfold getattro
  cases s.slot
  · exact traitGetattr_sframe E t s
  · exact SFrame.refl s

theorem validateAssigned_sframe (E : Env) (t : TraitCore) (v : Id) (s : OSt) :
    SFrame s (s.validateAssigned E t v).2 := by
  unfold OSt.validateAssigned
  split
  · have h := runValidate_frame E t v s.ctx
    exact ⟨rfl, rfl, rfl, h.1.le, h.1.heap, ⟨[], by simp [h.1.log], by simp⟩, [], by simp [h.2], by simp⟩
  · exact SFrame.refl s

theorem fetchOld_sframe (E : Env) (t : TraitCore) (c0 dn : Bool) (w : Id) (s : OSt) :
    SFrame s (s.fetchOld E t c0 dn w).2 := by
  unfold OSt.fetchOld
  split
  · cases hs : s.slot with
    | some old => exact SFrame.refl s
    | none =>
      simp only []
      have h1 := defaultValueFor_sframe E t s
      cases hd : s.defaultValueFor E t with
      | mk r s2 =>
        rw [hd] at h1
        cases r with
        | error e => exact h1
        | ok old =>
          simp only []
          have h2 : SFrame s { s2 with slot := some old } := h1.trans (SFrame.ofCtx _ _ rfl rfl rfl rfl)
          have h3 := postSetattr_sframe E t old { s2 with slot := some old }
          cases hp : postSetattr E t old { s2 with slot := some old } with
          | mk r2 s4 =>
            rw [hp] at h3
            cases r2 <;> exact h2.trans h3
  · exact SFrame.refl s

theorem callNotifiers_sframe (E : Env) (t : TraitCore) (tn on : Option (List Notifier)) (old new : Id) (s : OSt) :
    SFrame s (callNotifiers E t tn on old new s).2 := (callNotifiers_frame E t tn on old new s).toS

theorem setattrTraitDel_sframe (E : Env) (t : TraitCore) (c0 : Bool) (s : OSt) :
    SFrame s (setattrTraitDel E t c0 s).2 := by
  unfold setattrTraitDel
  cases hs : s.slot with
  | none => exact SFrame.refl s
  | some old =>
    simp only []
    have h0 : SFrame s { s with slot := none } := SFrame.ofCtx _ _ rfl rfl rfl rfl
    split
    · exact h0
    · split
      · have h1 := traitGetattr_sframe E t { s with slot := none }
        cases hg : traitGetattr E t { s with slot := none } with
        | mk r s2 =>
          rw [hg] at h1
          cases r with
          | error e => exact h0.trans h1
          | ok v =>
            simp only []
            split
            · have h2 := postSetattr_sframe E t v s2
              cases hp : postSetattr E t v s2 with
              | mk r2 s3 =>
                rw [hp] at h2
                cases r2 with
                | some e => exact (h0.trans h1).trans h2
                | none =>
                  simp only []
                  split
                  · exact ((h0.trans h1).trans h2).trans (callNotifiers_sframe E t _ _ old v s3)
                  · exact (h0.trans h1).trans h2
            · exact h0.trans h1
      · exact h0

theorem setattrTrait_sframe (E : Env) (t : TraitCore) (v : Option Id) (s : OSt) :
    SFrame s (setattrTrait E t v s).2 := by
  unfold setattrTrait
  cases v with
  | none => exact setattrTraitDel_sframe E t _ s
  | some original =>
    simp only []
    have h1 := validateAssigned_sframe E t original s
    cases hv : s.validateAssigned E t original with
    | mk r s1 =>
      rw [hv] at h1
      cases r with
      | error e => exact h1
      | ok value =>
        simp only []
        have h2 := fetchOld_sframe E t (testFlag t.flags Generated.TRAIT_COMPARISON_MODE_NONE)
          (hasNotifiers s1.tn s1.on) value s1
        cases hf : s1.fetchOld E t (testFlag t.flags Generated.TRAIT_COMPARISON_MODE_NONE)
            (hasNotifiers s1.tn s1.on) value with
        | mk r2 s2 =>
          rw [hf] at h2
          cases r2 with
          | error e => exact h1.trans h2
          | ok p =>
            obtain ⟨oldOpt, changed⟩ := p
            simp only []
            have h3 : ∀ nv : Id, SFrame s { s2 with slot := some nv } := fun nv =>
              (h1.trans h2).trans (SFrame.ofCtx _ _ rfl rfl rfl rfl)
            split
            · have h4 := postSetattr_sframe E t
                (if testFlag t.flags Generated.TRAIT_POST_SETATTR_ORIGINAL_VALUE = true then original else value)
                { s2 with slot := some (if testFlag t.flags Generated.TRAIT_SETATTR_ORIGINAL_VALUE = true
                  then original else value) }
              cases hp : postSetattr E t
                (if testFlag t.flags Generated.TRAIT_POST_SETATTR_ORIGINAL_VALUE = true then original else value)
                { s2 with slot := some (if testFlag t.flags Generated.TRAIT_SETATTR_ORIGINAL_VALUE = true
                  then original else value) } with
              | mk r3 s4 =>
                rw [hp] at h4
                cases r3 with
                | some e => exact (h3 _).trans h4
                | none =>
                  simp only []
                  split
                  · exact ((h3 _).trans h4).trans (callNotifiers_sframe E t _ _ _ _ s4)
                  · exact (h3 _).trans h4
            · exact h3 _

theorem setattrEvent_sframe (E : Env) (t : TraitCore) (v : Option Id) (s : OSt) :
    SFrame s (setattrEvent E t v s).2 := by
  unfold setattrEvent
  cases v with
  | none => exact SFrame.refl s
  | some v =>
    simp only []
    cases hv : t.validate with
    | none =>
      simp only []
      split
      · exact callNotifiers_sframe E t _ _ _ _ s
      · exact SFrame.refl s
    | some k =>
      simp only []
      have h := runValidate_frame E t v s.ctx
      have h1 : SFrame s { s with ctx := (runValidate E t v s.ctx).2 } :=
        ⟨rfl, rfl, rfl, h.1.le, h.1.heap, ⟨[], by simp [h.1.log], by simp⟩, [], by simp [h.2], by simp⟩
      cases hr : runValidate E t v s.ctx with
      | mk r c =>
        rw [hr] at h1
        cases r with
        | error e => exact h1
        | ok w =>
          simp only []
          split
          · exact h1.trans (callNotifiers_sframe E t _ _ _ _ _)
          · exact h1

theorem traitSetattr_sframe (E : Env) (t : TraitCore) (v : Option Id) (s : OSt) :
    SFrame s (traitSetattr E t v s).2 := by
  unfold traitSetattr
  cases t.kind
  · exact setattrTrait_sframe E t v s
  · exact setattrEvent_sframe E t v s

theorem ensureItrait_sframe (s : OSt) : SFrame s s.ensureItrait := (NFrame.ensureItrait s).toS

theorem regDynamic_sframe (s : OSt) (h : Nat) (p : Bool) : SFrame s (s.regDynamic h p) := by
  unfold OSt.regDynamic
  have h0 := ensureItrait_sframe s
  simp only []
  split <;> exact h0.trans (SFrame.ofCtx _ _ rfl rfl rfl rfl)

theorem unregDynamic_sframe (s : OSt) (h : Nat) : SFrame s (s.unregDynamic h) := by
  unfold OSt.unregDynamic
  split
  · exact SFrame.ofCtx _ _ rfl rfl rfl rfl
  · exact SFrame.refl s

theorem regAny_sframe (s : OSt) (h : Nat) (p : Bool) : SFrame s (s.regAny h p) := by
  unfold OSt.regAny
  simp only []
  split <;> exact SFrame.ofCtx _ _ rfl rfl rfl rfl

theorem unregAny_sframe (s : OSt) (h : Nat) : SFrame s (s.unregAny h) := by
  unfold OSt.unregAny
  cases s.on
  · exact SFrame.refl s
  · exact SFrame.ofCtx _ _ rfl rfl rfl rfl

theorem regObserve_sframe (s : OSt) (h : Nat) : SFrame s (s.regObserve h) := by
  unfold OSt.regObserve
  have h0 := ensureItrait_sframe s
  simp only []
  split <;> exact h0.trans (SFrame.ofCtx _ _ rfl rfl rfl rfl)

theorem unregObserve_sframe (s : OSt) (h : Nat) : SFrame s (s.unregObserve h).2 := by
  unfold OSt.unregObserve
  split
  · split
    · exact SFrame.ofCtx _ _ rfl rfl rfl rfl
    · exact SFrame.refl s
  · exact SFrame.refl s

/-- Every operation of `step` stays within the frame. -/
theorem step_sframe (E : Env) (t : TraitCore) (s : OSt) (op : Op) : SFrame s (step E t s op).2 := by
  cases op with
  | set v => exact traitSetattr_sframe E t (some v) s
  | del => exact traitSetattr_sframe E t none s
  | get =>
    have h := getattro_sframe E t s
    show SFrame s (match getattro E t s with
      | (.ok v, s') => (({ val := some v } : Res), s')
      | (.error e, s') => ({ exc := some e }, s')).2
    cases hg : getattro E t s with
    | mk r s' => rw [hg] at h; cases r <;> exact h
  | setq v =>
    have h0 : SFrame s { s with noNotify := true } := SFrame.ofCtx _ _ rfl rfl rfl rfl
    have h1 := traitSetattr_sframe E t (some v) { s with noNotify := true }
    exact (h0.trans h1).trans (SFrame.ofCtx _ _ rfl rfl rfl rfl)
  | regDyn h p => exact regDynamic_sframe s h p
  | unregDyn h => exact unregDynamic_sframe s h
  | regAny h p => exact regAny_sframe s h p
  | unregAny h => exact unregAny_sframe s h
  | regObs h => exact regObserve_sframe s h
  | unregObs h => exact unregObserve_sframe s h

end TraitsVerif.Model.Attr
