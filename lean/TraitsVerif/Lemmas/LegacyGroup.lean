/-
Group names `x.[a,b].c` (ListenerGroup) on top of the chain model: a conservative extension.

`ListenerParser` turns `[a₁,…,aₙ]` into a `ListenerGroup` whose items share the next listener
(`C16_group_is_source`, and the `example` on `[a, b].c` in Props/C16.lean); `ListenerGroup.register /
unregister` apply every item's own method to the same object, in list order.  Here a group name is
the family of its member chains (one attribute chosen at every group position), every member with
its OWN copy of the later items.  The real code shares the later items — one `active` table per
depth for all members; on tree-shaped heaps the members' objects are disjoint below a group (an
object is referenced from one attribute of one object), so sharing is not observable.  That step is
covered by the differential oracle on group names (harness/props/c16lib.py), not by a theorem.
-/
import TraitsVerif.Lemmas.LegacyMain
namespace TraitsVerif.Model.Legacy

/-- A link position of a group name: the attributes of the group (`[a]` for a plain link). -/
structure GLink where
  attrs : List Attr
  notify : Bool

/-- Member chains: one attribute chosen at every position. -/
def expand : List GLink → List (List Link)
  | [] => [[]]
  | g :: gs => g.attrs.flatMap (fun a => (expand gs).map (fun ls => ⟨a, g.notify⟩ :: ls))

structure GName where
  links : List GLink
  final : Final
  htype : LType
  deferred : Bool := false

/-- The parser gives the handler's type to the first position only; all members share it. -/
def GName.members (G : GName) : List Name :=
  (expand G.links).map (fun ls => ⟨ls, G.final, G.htype, G.deferred⟩)

/-- Calls of the legacy handler for an operation after a history: `ListenerGroup` fan-out. -/
def gCalls (G : GName) (h₀ : Heap) (ops : List Op) (op : Op) : List Call :=
  G.members.flatMap (fun N => (step N (run N (start h₀) ops) op).2.2)

/-- What `observe` promises for the corresponding group expression: the branches of a group are
independent observer graphs, each notifies for what is reachable along it. -/
def gSpec (G : GName) (h₀ : Heap) (ops : List Op) (op : Op) : List Call :=
  G.members.flatMap (fun N => specStep N (run N (start h₀) ops) op)

theorem flatMap_congr' {α β : Type} {l : List α} {f g : α → List β} (h : ∀ a ∈ l, f a = g a) :
    l.flatMap f = l.flatMap g := by
  induction l with
  | nil => rfl
  | cons x xs ih =>
    simp only [List.flatMap_cons]
    rw [h x (by simp), ih (fun a ha => h a (by simp [ha]))]

end TraitsVerif.Model.Legacy
