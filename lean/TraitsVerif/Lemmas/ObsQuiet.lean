/-
Cluster `obs`: quiet links.  If nothing held for handler key `k` can notify (no
user notifier of `k`, every maintainer of `k` carries a graph without notifying
node) then no mutation whatsoever delivers to `k`, and the state persists.
No hypothesis on the heap: holds through cycles, sharing and the F10 situations.
-/
import TraitsVerif.Lemmas.ObsMutate
import TraitsVerif.Lemmas.ObsTouch
namespace TraitsVerif.Model.Obs
open TraitsVerif

def GoodKey (k : HKey) : NKey → Prop
  | .user k' => k' ≠ k
  | .maint _ g k' => k' = k → g.quiet = true

def QuietInv (H : Hooks) (k : HKey) : Prop := ∀ o n, n ∈ H.get o → GoodKey k n.key

def GoodItems (k : HKey) (its : List Item) : Prop := ∀ it ∈ its, GoodKey k it.2

theorem Graph.quietL_iff (cs : List Graph) : Graph.quietL cs = true ↔ ∀ c ∈ cs, c.quiet = true := by
  induction cs with
  | nil => simp [Graph.quietL]
  | cons c cs ih => simp [Graph.quietL, ih]

theorem Graph.quiet_node (ob : Observer) (cs : List Graph) :
    (Graph.node ob cs).quiet = true ↔ ob.notify = false ∧ ∀ c ∈ cs, c.quiet = true := by
  simp [Graph.quiet, Graph.quietL_iff]

theorem userAdd_good (k : HKey) (k' : HKey) (ns : List Notifier) (hg : ∀ n ∈ ns, GoodKey k n.key)
    (hq : GoodKey k (.user k')) : ∀ n ∈ userAdd k' ns, GoodKey k n.key := by
  induction ns with
  | nil => intro n hn; simp [userAdd] at hn; subst hn; exact hq
  | cons m ns ih =>
    have hns : ∀ n ∈ ns, GoodKey k n.key := fun n hn => hg n (List.mem_cons_of_mem _ hn)
    have hm := hg m (List.mem_cons_self ..)
    cases m with
    | user k'' rc =>
      simp only [userAdd]
      split
      · intro n hn
        cases hn with
        | head => exact hm
        | tail _ h => exact hns n h
      · intro n hn
        cases hn with
        | head => exact hm
        | tail _ h => exact ih hns n h
    | maint mk g k'' =>
      simp only [userAdd]
      intro n hn
      cases hn with
      | head => exact hm
      | tail _ h => exact ih hns n h

theorem addKey_good (k : HKey) (q : NKey) (ns : List Notifier) (hg : ∀ n ∈ ns, GoodKey k n.key)
    (hq : GoodKey k q) : ∀ n ∈ addKey q ns, GoodKey k n.key := by
  cases q with
  | user k' => exact userAdd_good k k' ns hg hq
  | maint mk g k' =>
    intro n hn
    simp only [addKey, maintAdd, List.mem_append, List.mem_singleton] at hn
    rcases hn with h | h
    · exact hg n h
    · subst h; exact hq

theorem userRemove_good (k : HKey) (k' : HKey) (ns ns' : List Notifier) (hg : ∀ n ∈ ns, GoodKey k n.key)
    (h : userRemove k' ns = .ok ns') : ∀ n ∈ ns', GoodKey k n.key := by
  induction ns generalizing ns' with
  | nil => simp [userRemove] at h
  | cons m ns ih =>
    have hns : ∀ n ∈ ns, GoodKey k n.key := fun n hn => hg n (List.mem_cons_of_mem _ hn)
    have hm := hg m (List.mem_cons_self ..)
    cases m with
    | user k'' rc =>
      simp only [userRemove] at h
      split at h
      · split at h
        · cases h; exact hns
        · split at h
          · cases h
          · cases h
            intro n hn
            cases hn with
            | head => exact hm
            | tail _ h' => exact hns n h'
      · cases hr : userRemove k' ns with
        | error e => simp [hr, Except.map] at h
        | ok l =>
          simp [hr, Except.map] at h
          subst h
          intro n hn
          cases hn with
          | head => exact hm
          | tail _ h' => exact ih l hns hr n h'
    | maint mk g k'' =>
      simp only [userRemove] at h
      cases hr : userRemove k' ns with
      | error e => simp [hr, Except.map] at h
      | ok l =>
        simp [hr, Except.map] at h
        subst h
        intro n hn
        cases hn with
        | head => exact hm
        | tail _ h' => exact ih l hns hr n h'

theorem maintRemove_good (k : HKey) (mk : MKind) (g : Graph) (k' : HKey) (ns ns' : List Notifier)
    (hg : ∀ n ∈ ns, GoodKey k n.key) (h : maintRemove mk g k' ns = .ok ns') : ∀ n ∈ ns', GoodKey k n.key := by
  induction ns generalizing ns' with
  | nil => simp [maintRemove] at h
  | cons m ns ih =>
    have hns : ∀ n ∈ ns, GoodKey k n.key := fun n hn => hg n (List.mem_cons_of_mem _ hn)
    have hm := hg m (List.mem_cons_self ..)
    simp only [maintRemove] at h
    split at h
    · cases h; exact hns
    · cases hr : maintRemove mk g k' ns with
      | error e => simp [hr, Except.map] at h
      | ok l =>
        simp [hr, Except.map] at h
        subst h
        intro n hn
        cases hn with
        | head => exact hm
        | tail _ h' => exact ih l hns hr n h'

theorem addItem_quiet (k : HKey) (it : Item) (H : Hooks) (hq : QuietInv H k) (hi : GoodKey k it.2) :
    QuietInv (addItem it H) k := by
  intro o n hn
  unfold addItem at hn
  rw [Hooks.get_upd] at hn
  split at hn
  · exact addKey_good k it.2 _ (hq it.1) hi n hn
  · exact hq o n hn

theorem removeItem_quiet (k : HKey) (it : Item) (H H' : Hooks) (hq : QuietInv H k)
    (h : removeItem it H = .ok H') : QuietInv H' k := by
  unfold removeItem at h
  cases hr : removeKey it.2 (H.get it.1) with
  | error e => simp [hr] at h
  | ok l =>
    simp [hr] at h
    subst h
    intro o n hn
    rw [Hooks.get_upd] at hn
    split at hn
    · cases hit : it.2 with
      | user k' => rw [hit] at hr; exact userRemove_good k k' _ _ (hq it.1) hr n hn
      | maint mk g k' => rw [hit] at hr; exact maintRemove_good k mk g k' _ _ (hq it.1) hr n hn
    · exact hq o n hn

theorem foldRes_pres (P : Hooks → Prop) (f : W → Hooks → Res) (hf : ∀ y H, P H → P (f y H).H)
    (ys : List W) (H : Hooks) (hP : P H) : P (foldRes f ys H).H := by
  induction ys generalizing H with
  | nil => exact hP
  | cons y ys ih =>
    simp only [foldRes]
    split
    · exact hf y H hP
    · exact ih _ (hf y H hP)

/-- every item a walk for key `k'` can touch is good for `k` when `k' ≠ k` or the graph is quiet -/
theorem hookList_good (h : Heap) (k k' : HKey) :
    ∀ g : Graph, (k' = k → g.quiet = true) → ∀ (e : Bool) (x : W), ∀ it ∈ hookList h k' e g x, GoodKey k it.2 := by
  apply Graph.ind (P := fun g => (k' = k → g.quiet = true) → ∀ (e : Bool) (x : W),
    ∀ it ∈ hookList h k' e g x, GoodKey k it.2)
  intro ob cs ih hg e x it hit
  have hnot : ob.notify = true → k' ≠ k := by
    intro hn e'
    have := ((Graph.quiet_node ob cs).1 (hg e')).1
    rw [hn] at this; cases this
  have hcs : k' = k → ∀ c ∈ cs, c.quiet = true := fun e' => ((Graph.quiet_node ob cs).1 (hg e')).2
  rw [hookList_node, List.mem_append, List.mem_append] at hit
  rcases hit with (h1 | h1) | h1
  · simp only [ownItems, List.mem_append, List.mem_flatMap, List.mem_map] at h1
    rcases h1 with h2 | ⟨ob', _, c, hc, rfl⟩
    · split at h2
      · rename_i hn
        simp only [List.mem_map] at h2
        obtain ⟨ob', _, rfl⟩ := h2
        exact hnot hn
      · cases h2
    · exact fun e' => hcs e' c hc
  · obtain ⟨c, hc, y, _, hm⟩ := (mem_hookListCs h k' ob x cs it).1 h1
    exact ih c hc (fun e' => hcs e' c hc) true y it hm
  · split at h1
    · simp only [extraItems, List.mem_map] at h1
      obtain ⟨ob', _, rfl⟩ := h1
      exact hg
    · cases h1

theorem addRemove_quiet (h : Heap) (k k' : HKey) (g : Graph) (hg : k' = k → g.quiet = true)
    (rm extra : Bool) (x : W) (H : Hooks) (hq : QuietInv H k) :
    QuietInv (addRemove h k' rm extra g x H).H k :=
  addRemove_touch (fun H => QuietInv H k) (fun it => GoodKey k it.2)
    (fun it H hi hP => addItem_quiet k it H hP hi)
    (fun it H H' _ hP hr => removeItem_quiet k it H H' hP hr)
    h k' g rm extra x H (hookList_good h k k' g hg extra x) hq

/-! ### mutations -/

theorem restrict_quiet (g : Graph) (n : Name) (hg : g.quiet = true) : (restrict g n).quiet = true := by
  cases g with
  | node ob cs =>
    obtain ⟨a, b⟩ := (Graph.quiet_node ob cs).1 hg
    exact (Graph.quiet_node _ _).2 ⟨by simpa [Observer.notify, Graph.ob] using a, by simpa [Graph.children] using b⟩

theorem maintTrait_quiet (h : Heap) (k k' : HKey) (mk : MKind) (g : Graph) (o : Id) (old new : Val) (H : Hooks)
    (hg : k' = k → g.quiet = true) (hq : QuietInv H k) :
    QuietInv (maintTrait h mk g k' o old new H).H k := by
  unfold maintTrait
  cases mk with
  | trait =>
    simp only []
    have r1 : QuietInv (removeOld h k' g old H).H k := by
      unfold removeOld
      split
      · rename_i w _ _
        have := addRemove_quiet h k k' g hg true true w H hq
        simp only []
        split
        · exact this
        · exact this
      · exact hq
    split
    · exact r1
    · unfold addNew
      split
      · exact addRemove_quiet h k k' g hg false true _ _ r1
      · exact r1
  | added =>
    simp only []
    split
    · split
      · exact addRemove_quiet h k k' _ (fun e => restrict_quiet g _ (hg e)) false false _ H hq
      · exact hq
    · exact hq
  | list => exact hq
  | dict => exact hq
  | set => exact hq

theorem callTrait_quiet (E : Env) (h : Heap) (k : HKey) (o : Id) (n : Name) (old new : Val) :
    ∀ (ns : List Notifier) (H : Hooks) (ds : List Delivered),
      (∀ nt ∈ ns, GoodKey k nt.key) → QuietInv H k → (∀ d ∈ ds, d.key ≠ k) →
      QuietInv (callTrait E h o n old new ns H ds).1 k ∧
      ∀ d ∈ (callTrait E h o n old new ns H ds).2.1, d.key ≠ k := by
  intro ns
  induction ns with
  | nil => intro H ds _ hq hd; exact ⟨hq, hd⟩
  | cons nt ns ih =>
    intro H ds hg hq hd
    have hnt := hg nt (List.mem_cons_self ..)
    have hrest : ∀ nt' ∈ ns, GoodKey k nt'.key := fun n' hn' => hg n' (List.mem_cons_of_mem _ hn')
    cases nt with
    | user k' rc =>
      simp only [callTrait]
      split
      · exact ih H ds hrest hq hd
      · apply ih H _ hrest hq
        intro d hdm
        rcases List.mem_append.1 hdm with h1 | h1
        · exact hd d h1
        · simp only [List.mem_singleton] at h1
          subst h1
          exact hnt
    | maint mk g k' =>
      simp only [callTrait]
      split
      · exact ih H ds hrest hq hd
      · have hm := maintTrait_quiet h k k' mk g o old new H hnt hq
        split
        · exact ⟨hm, hd⟩
        · exact ih _ ds hrest hm hd

theorem maintCont_quiet (h : Heap) (k k' : HKey) (g : Graph) (ev : CEvent) (H : Hooks)
    (hg : k' = k → g.quiet = true) (hq : QuietInv H k) : QuietInv (maintCont h g k' ev H).H k := by
  unfold maintCont walkAll
  have r1 := foldRes_pres (fun H => QuietInv H k) (addRemove h k' true true g)
    (fun y H' hP => addRemove_quiet h k k' g hg true true y H' hP) (ev.removed.map some) H hq
  simp only []
  split
  · exact r1
  · exact foldRes_pres (fun H => QuietInv H k) (addRemove h k' false true g)
      (fun y H' hP => addRemove_quiet h k k' g hg false true y H' hP) (ev.added.map some) _ r1

theorem notifyCont_quiet (E : Env) (h : Heap) (k : HKey) (c : Id) (ev : CEvent) :
    ∀ (fuel i : Nat) (H : Hooks) (ds : List Delivered), QuietInv H k → (∀ d ∈ ds, d.key ≠ k) →
      QuietInv (notifyCont E h c ev fuel i H ds).1 k ∧
      ∀ d ∈ (notifyCont E h c ev fuel i H ds).2.1, d.key ≠ k := by
  intro fuel
  induction fuel with
  | zero => intro i H ds hq hd; exact ⟨hq, hd⟩
  | succ fuel ih =>
    intro i H ds hq hd
    simp only [notifyCont]
    cases hgt : (H.get (.cont c))[i]? with
    | none => exact ⟨hq, hd⟩
    | some nt =>
      have hm : nt ∈ H.get (.cont c) := List.mem_of_getElem? hgt
      have hnt := hq _ nt hm
      cases nt with
      | user k' rc =>
        simp only []
        split
        · exact ih _ H ds hq hd
        · apply ih _ H _ hq
          intro d hdm
          rcases List.mem_append.1 hdm with h1 | h1
          · exact hd d h1
          · simp only [List.mem_singleton] at h1
            subst h1
            rw [(deliverCont_observable k' c ev).2]
            exact hnt
      | maint mk g k' =>
        simp only []
        split
        · exact ih _ H ds hq hd
        · have hmq := maintCont_quiet h k k' g ev H hnt hq
          split
          · exact ⟨hmq, hd⟩
          · exact ih _ _ ds hmq hd

theorem runCont_quiet (E : Env) (st : St) (k : HKey) (h' : Heap) (c : Id) (ev : Option CEvent)
    (hq : QuietInv st.H k) :
    QuietInv (runCont E st h' c ev).st.H k ∧ ∀ d ∈ (runCont E st h' c ev).delivered, d.key ≠ k := by
  cases ev with
  | none => exact ⟨hq, by intro d hd; cases hd⟩
  | some ev =>
    simp only [runCont]
    exact notifyCont_quiet E h' k c ev _ 0 st.H [] hq (by intro d hd; cases hd)

theorem fire_quiet (E : Env) (H : Hooks) (k : HKey) (h' : Heap) (o : Id) (n : Name) (old new : Val)
    (hq : QuietInv H k) :
    QuietInv (fire E H h' o n old new).st.H k ∧ ∀ d ∈ (fire E H h' o n old new).delivered, d.key ≠ k := by
  simp only [fire]
  exact callTrait_quiet E h' k o n old new _ H [] (hq _) hq (by intro d hd; cases hd)

theorem refire_quiet (E : Env) (r1 : Out) (k : HKey) (o : Id) (n : Name) (cmp : Cmp) (old new : Val)
    (hq : QuietInv r1.st.H k ∧ ∀ d ∈ r1.delivered, d.key ≠ k) :
    QuietInv (refire E r1 o n cmp old new).st.H k ∧ ∀ d ∈ (refire E r1 o n cmp old new).delivered, d.key ≠ k := by
  unfold refire
  split
  · exact hq
  · split
    · have h2 := fire_quiet E r1.st.H k r1.st.h o n old new hq.1
      refine ⟨h2.1, ?_⟩
      intro d hd
      simp only [List.mem_append] at hd
      rcases hd with hd | hd
      · exact hq.2 d hd
      · exact h2.2 d hd
    · exact hq

theorem mutate_quiet (E : Env) (st : St) (k : HKey) (m : Mutation) (hq : QuietInv st.H k) :
    QuietInv (mutate E st m).st.H k ∧ ∀ d ∈ (mutate E st m).delivered, d.key ≠ k := by
  have triv : QuietInv st.H k ∧ ∀ d ∈ ([] : List Delivered), d.key ≠ k := ⟨hq, by intro d hd; cases hd⟩
  cases m with
  | alloc i o => exact triv
  | setField o n v fresh =>
    simp only [mutate]
    split
    · split
      · exact triv
      · split
        · exact triv
        · split
          · exact triv
          · exact fire_quiet E st.H k _ o n _ v hq
    · exact triv
  | read o n fresh =>
    simp only [mutate]
    split
    · split
      · exact triv
      · split
        · exact fire_quiet E st.H k _ o n _ _ hq
        · exact triv
    · exact triv
  | delField o n fresh =>
    simp only [mutate]
    split
    · split
      · exact triv
      · split
        · exact triv
        · exact refire_quiet E _ k o n _ _ _ (fire_quiet E st.H k _ o n _ _ hq)
    · exact triv
  | addTrait o n tagged dflt =>
    simp only [mutate]
    split
    · split
      · exact triv
      · exact fire_quiet E st.H k _ o _ _ _ hq
    · exact triv
  | announce o n guard =>
    simp only [mutate]
    split
    · split
      · exact triv
      · exact fire_quiet E st.H k _ o _ _ _ hq
    · exact triv
  | listAppend c x =>
    simp only [mutate]; split
    · exact runCont_quiet E st k _ c _ hq
    · exact triv
  | listInsert c i x =>
    simp only [mutate]; split
    · split
      · exact runCont_quiet E st k _ c _ hq
      · exact triv
    · exact triv
  | listDel c i =>
    simp only [mutate]; split
    · split
      · exact runCont_quiet E st k _ c _ hq
      · exact triv
    · exact triv
  | listSet c i x =>
    simp only [mutate]; split
    · split
      · exact runCont_quiet E st k _ c _ hq
      · exact triv
    · exact triv
  | listSlice c i j xs =>
    simp only [mutate]; split
    · split
      · exact runCont_quiet E st k _ c _ hq
      · exact triv
    · exact triv
  | listStride c i step xs =>
    simp only [mutate]; split
    · split
      · exact runCont_quiet E st k _ c _ hq
      · exact triv
    · exact triv
  | listClear c =>
    simp only [mutate]; split
    · exact runCont_quiet E st k _ c _ hq
    · exact triv
  | listExtend c xs =>
    simp only [mutate]; split
    · exact runCont_quiet E st k _ c _ hq
    · exact triv
  | dictSet c key x =>
    simp only [mutate]; split
    · split
      · exact runCont_quiet E st k _ c _ hq
      · exact runCont_quiet E st k _ c _ hq
    · exact triv
  | dictDel c key =>
    simp only [mutate]; split
    · split
      · exact runCont_quiet E st k _ c _ hq
      · exact triv
    · exact triv
  | dictClear c =>
    simp only [mutate]; split
    · exact runCont_quiet E st k _ c _ hq
    · exact triv
  | setAdd c x =>
    simp only [mutate]; split
    · split
      · exact triv
      · exact runCont_quiet E st k _ c _ hq
    · exact triv
  | setDiscard c x =>
    simp only [mutate]; split
    · split
      · exact runCont_quiet E st k _ c _ hq
      · exact triv
    · exact triv
  | setClear c =>
    simp only [mutate]; split
    · exact runCont_quiet E st k _ c _ hq
    · exact triv

end TraitsVerif.Model.Obs
