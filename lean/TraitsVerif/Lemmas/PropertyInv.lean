/-
Invariant lemmas for the C12 model: the cache invariant `Inv` is preserved by
every read, mutation, listener change, construction and copy.
-/
import TraitsVerif.Lemmas.PropertyHeap
namespace TraitsVerif.Model.Property
open TraitsVerif

variable {Val : Type}

/-! ## Specification vocabulary -/

/-- Whenever the getter returns, it returns `g heap` (it may also raise,
depending on the call ordinal). -/
def PartialGetter (G : Callback Heap Val) (g : Heap → Val) : Prop :=
  ∀ n h v, G n h = .ok v → v = g h

/-- The getter never raises and computes `g`. -/
def PureGetter (G : Callback Heap Val) (g : Heap → Val) : Prop :=
  ∀ n h, G n h = .ok (g h)

theorem PureGetter.partial {G : Callback Heap Val} {g : Heap → Val} (hp : PureGetter G g) :
    PartialGetter G g := by
  intro n h v hv
  rw [hp n h] at hv
  cases hv
  rfl

/-- The C12 invariant: there is no cache entry, or it holds what the getter
computes from the current heap (and only cached properties have an entry). -/
def Inv (P : Env Val) (g : Heap → Val) (s : St Val) : Prop :=
  s.cache = none ∨ (P.cached = true ∧ s.cache = some (g s.heap))

/-- Weak invariant that also holds inside a dispatch, between the heap update
and the invalidation: an uncached property has no entry. -/
def NoEntryIfUncached (P : Env Val) (s : St Val) : Prop :=
  P.cached = false → s.cache = none

theorem Inv.weak {P : Env Val} {g : Heap → Val} {s : St Val} (hi : Inv P g s) : NoEntryIfUncached P s := by
  intro hc
  cases hi with
  | inl h => exact h
  | inr h => rw [hc] at h; exact absurd h.1 (by simp)

/-! ## Field-preservation facts -/

@[simp] theorem compute_heap (P : Env Val) (s : St Val) : (compute P s).2.heap = s.heap := by
  unfold compute; split <;> rfl
@[simp] theorem compute_dyn (P : Env Val) (s : St Val) : (compute P s).2.dyn = s.dyn := by
  unfold compute; split <;> rfl
@[simp] theorem compute_dynObj (P : Env Val) (s : St Val) : (compute P s).2.dynObj = s.dynObj := by
  unfold compute; split <;> rfl
@[simp] theorem compute_notes (P : Env Val) (s : St Val) : (compute P s).2.notes = s.notes := by
  unfold compute; split <;> rfl
@[simp] theorem compute_nested (P : Env Val) (s : St Val) : (compute P s).2.nested = s.nested := by
  unfold compute; split <;> rfl
@[simp] theorem compute_calls (P : Env Val) (s : St Val) : (compute P s).2.calls = s.calls + 1 := by
  unfold compute; split <;> rfl

@[simp] theorem readProp_heap (P : Env Val) (s : St Val) : (readProp P s).2.heap = s.heap := by
  unfold readProp; repeat' split
  all_goals simp
@[simp] theorem readProp_dyn (P : Env Val) (s : St Val) : (readProp P s).2.dyn = s.dyn := by
  unfold readProp; repeat' split
  all_goals simp
@[simp] theorem readProp_dynObj (P : Env Val) (s : St Val) : (readProp P s).2.dynObj = s.dynObj := by
  unfold readProp; repeat' split
  all_goals simp
@[simp] theorem readProp_notes (P : Env Val) (s : St Val) : (readProp P s).2.notes = s.notes := by
  unfold readProp; repeat' split
  all_goals simp
@[simp] theorem readProp_nested (P : Env Val) (s : St Val) : (readProp P s).2.nested = s.nested := by
  unfold readProp; repeat' split
  all_goals simp

@[simp] theorem nestedRead_heap (P : Env Val) (s : St Val) : (nestedRead P s).heap = s.heap := by
  simp [nestedRead]
@[simp] theorem nestedRead_dyn (P : Env Val) (s : St Val) : (nestedRead P s).dyn = s.dyn := by
  simp [nestedRead]
@[simp] theorem nestedRead_dynObj (P : Env Val) (s : St Val) : (nestedRead P s).dynObj = s.dynObj := by
  simp [nestedRead]
@[simp] theorem nestedRead_notes (P : Env Val) (s : St Val) : (nestedRead P s).notes = s.notes := by
  simp [nestedRead]
@[simp] theorem nestedRead_cache (P : Env Val) (s : St Val) : (nestedRead P s).cache = (readProp P s).2.cache := by
  simp [nestedRead]
@[simp] theorem nestedRead_calls (P : Env Val) (s : St Val) : (nestedRead P s).calls = (readProp P s).2.calls := by
  simp [nestedRead]

@[simp] theorem popCache_heap (P : Env Val) (s : St Val) : (popCache P s).heap = s.heap := by
  unfold popCache; split <;> rfl
@[simp] theorem popCache_dyn (P : Env Val) (s : St Val) : (popCache P s).dyn = s.dyn := by
  unfold popCache; split <;> rfl
@[simp] theorem popCache_dynObj (P : Env Val) (s : St Val) : (popCache P s).dynObj = s.dynObj := by
  unfold popCache; split <;> rfl
@[simp] theorem popCache_notes (P : Env Val) (s : St Val) : (popCache P s).notes = s.notes := by
  unfold popCache; split <;> rfl
@[simp] theorem popCache_calls (P : Env Val) (s : St Val) : (popCache P s).calls = s.calls := by
  unfold popCache; split <;> rfl

@[simp] theorem tpc_heap (P : Env Val) (s : St Val) (old : Old Val) : (tpc P s old).heap = s.heap := by
  unfold tpc; repeat' split
  all_goals simp
@[simp] theorem tpc_dyn (P : Env Val) (s : St Val) (old : Old Val) : (tpc P s old).dyn = s.dyn := by
  unfold tpc; repeat' split
  all_goals simp

@[simp] theorem legacyNotify_heap (P : Env Val) (s : St Val) (old : Old Val) :
    (legacyNotify P s old).heap = s.heap := by
  unfold legacyNotify; repeat' split
  all_goals simp
@[simp] theorem legacyNotify_dyn (P : Env Val) (s : St Val) (old : Old Val) :
    (legacyNotify P s old).dyn = s.dyn := by
  unfold legacyNotify; repeat' split
  all_goals simp

/-! ## Reads -/

theorem compute_inv (P : Env Val) (g : Heap → Val) (hG : PartialGetter P.G g) (s : St Val)
    (hi : Inv P g s) : Inv P g (compute P s).2 := by
  unfold compute
  split
  · exact hi
  · rename_i v hv
    have := hG _ _ _ hv
    subst this
    by_cases hc : P.cached = true
    · right; simp [hc]
    · simp only [Bool.not_eq_true] at hc
      simp only [hc]
      exact hi

theorem compute_weak (P : Env Val) (s : St Val) (hw : NoEntryIfUncached P s) :
    NoEntryIfUncached P (compute P s).2 := by
  intro hc
  unfold compute
  split
  · exact hw hc
  · simp [hc]; exact hw hc

theorem compute_value (P : Env Val) (g : Heap → Val) (hG : PartialGetter P.G g) (s : St Val) (v : Val)
    (hv : (compute P s).1 = .ok v) : v = g s.heap := by
  unfold compute at hv
  split at hv
  · cases hv
  · rename_i w hw
    cases hv
    exact hG _ _ _ hw

theorem readProp_inv (P : Env Val) (g : Heap → Val) (hG : PartialGetter P.G g) (s : St Val)
    (hi : Inv P g s) : Inv P g (readProp P s).2 := by
  unfold readProp
  repeat' split
  all_goals first | exact hi | exact compute_inv P g hG s hi

theorem readProp_weak (P : Env Val) (s : St Val) (hw : NoEntryIfUncached P s) :
    NoEntryIfUncached P (readProp P s).2 := by
  unfold readProp
  repeat' split
  all_goals first | exact hw | exact compute_weak P s hw

/-- Every read that returns, returns what the getter computes from the current heap. -/
theorem readProp_value (P : Env Val) (g : Heap → Val) (hG : PartialGetter P.G g) (s : St Val)
    (hi : Inv P g s) (v : Val) (hv : (readProp P s).1 = .ok v) : v = g s.heap := by
  unfold readProp at hv
  split at hv
  · split at hv
    · rename_i w hw
      split at hv
      · exact compute_value P g hG s v hv
      · cases hv
        cases hi with
        | inl h => rw [h] at hw; cases hw
        | inr h => rw [h.2] at hw; cases hw; rfl
    · exact compute_value P g hG s v hv
  · exact compute_value P g hG s v hv

theorem nestedRead_inv (P : Env Val) (g : Heap → Val) (hG : PartialGetter P.G g) (s : St Val)
    (hi : Inv P g s) : Inv P g (nestedRead P s) := by
  have := readProp_inv P g hG s hi
  unfold Inv at this ⊢
  simpa using this

theorem nestedRead_weak (P : Env Val) (s : St Val) (hw : NoEntryIfUncached P s) :
    NoEntryIfUncached P (nestedRead P s) := by
  have := readProp_weak P s hw
  unfold NoEntryIfUncached at this ⊢
  simpa using this

/-! ## Invalidation -/

theorem popCache_inv (P : Env Val) (g : Heap → Val) (s : St Val) (hw : NoEntryIfUncached P s) :
    Inv P g (popCache P s) := by
  unfold popCache
  by_cases hc : P.cached = true
  · simp [hc, Inv]
  · simp only [Bool.not_eq_true] at hc
    simp only [hc]
    left
    exact hw hc

theorem tpc_inv (P : Env Val) (g : Heap → Val) (hG : PartialGetter P.G g) (s : St Val) (old : Old Val)
    (hi : Inv P g s) : Inv P g (tpc P s old) := by
  have hr := readProp_inv P g hG s hi
  unfold tpc
  repeat' split
  · exact hr
  · unfold Inv at hr ⊢
    simpa using hr
  · exact hi

theorem legacyNotify_inv (P : Env Val) (g : Heap → Val) (hG : PartialGetter P.G g) (s : St Val) (old : Old Val)
    (hi : Inv P g s) : Inv P g (legacyNotify P s old) := by
  unfold legacyNotify
  repeat' split
  all_goals first | exact hi | exact tpc_inv P g hG s _ hi

theorem handlerObserve_inv (P : Env Val) (g : Heap → Val) (hG : PartialGetter P.G g) (s : St Val)
    (hw : NoEntryIfUncached P s) : Inv P g (handlerObserve P s) :=
  tpc_inv P g hG _ _ (popCache_inv P g s hw)

/-! ## Mutations -/

theorem sib_inv (P : Env Val) (g : Heap → Val) (hG : PartialGetter P.G g) (b : Bool) (s : St Val)
    (hi : Inv P g s) : Inv P g (sib P b s) := by
  unfold sib
  split
  · exact nestedRead_inv P g hG s hi
  · exact hi

theorem sib_weak (P : Env Val) (b : Bool) (s : St Val)
    (hw : NoEntryIfUncached P s) : NoEntryIfUncached P (sib P b s) := by
  unfold sib
  split
  · exact nestedRead_weak P s hw
  · exact hw

theorem dispatchQuiet_inv (P : Env Val) (g : Heap → Val) (hG : PartialGetter P.G g) (s0 : St Val)
    (m : Mutation) (hi : Inv P g s0) : Inv P g (dispatchQuiet P s0 m) :=
  sib_inv P g hG _ _ (sib_inv P g hG _ _ hi)

/-- Whatever the cache held before (it may be stale here), it is gone after
the handler ran. -/
theorem dispatchFire_inv (P : Env Val) (g : Heap → Val) (hG : PartialGetter P.G g) (s0 : St Val)
    (m : Mutation) (hw : NoEntryIfUncached P s0) : Inv P g (dispatchFire P s0 m) := by
  unfold dispatchFire
  split
  · exact sib_inv P g hG _ _ (legacyNotify_inv P g hG _ _ (sib_inv P g hG _ _ (popCache_inv P g s0 hw)))
  · exact sib_inv P g hG _ _ (handlerObserve_inv P g hG _ (sib_weak P _ _ hw))

/-- The heart of C12: a mutation preserves the invariant, because a mutation
that can change the getter's value is relevant, hence fires the handler
(`ObserveSound`), hence pops the cache. -/
theorem mutate_inv (P : Env Val) (g : Heap → Val) (hG : PartialGetter P.G g)
    (hD : DependsOnly g P.E P.root) (hS : ObserveSound P) (s : St Val) (m : Mutation)
    (hi : Inv P g s) : Inv P g (mutate P s m) := by
  -- the state right after the heap update
  have key : relevant P.E P.root s.heap m = false →
      Inv P g { s with heap := apply m s.heap } := by
    intro hr
    have hg : g s.heap = g (apply m s.heap) := hD _ _ (sameViews_of_not_relevant P.E P.root s.heap m hr)
    cases hi with
    | inl h => left; exact h
    | inr h => right; exact ⟨h.1, by simp only; rw [← hg]; exact h.2⟩
  have hw0 : NoEntryIfUncached P { s with heap := apply m s.heap } := fun hc => hi.weak hc
  unfold mutate
  simp only
  by_cases hc : changed s.heap m = true
  · simp only [hc, if_true]
    by_cases hf : P.fires s.heap m = true
    · simp only [hf, if_true]
      exact dispatchFire_inv P g hG _ m hw0
    · have hr : relevant P.E P.root s.heap m = false := by
        cases hrel : relevant P.E P.root s.heap m
        · rfl
        · exact absurd (hS _ _ hrel) hf
      simp only [hf]
      exact dispatchQuiet_inv P g hG _ m (key hr)
  · have hr : relevant P.E P.root s.heap m = false := by
      simp only [Bool.not_eq_true] at hc
      simp [relevant, hc]
    simp only [hc]
    exact key hr

theorem runMuts_inv (P : Env Val) (g : Heap → Val) (hG : PartialGetter P.G g)
    (hD : DependsOnly g P.E P.root) (hS : ObserveSound P) :
    ∀ (ms : List Mutation) (s : St Val), Inv P g s → Inv P g (runMuts P s ms)
  | [], _, hi => hi
  | m :: ms, s, hi => by
    simp only [runMuts, List.foldl_cons]
    exact runMuts_inv P g hG hD hS ms _ (mutate_inv P g hG hD hS s m hi)

/-- Objects built by `__init__(**kw)`, `__setstate__`, `clone_traits`: the
invariant holds because the observer exists before the first value arrives. -/
theorem restore_inv (P : Env Val) (g : Heap → Val) (hG : PartialGetter P.G g)
    (hD : DependsOnly g P.E P.root) (hS : ObserveSound P) (hp : P.postInit = false)
    (h0 : Heap) (ws : List Write) : Inv P g (restore P h0 ws) := by
  unfold restore
  simp only [hp]
  apply runMuts_inv P g hG hD hS
  left
  rfl

/-- A set through the property's own setter keeps the invariant: whatever the
setter writes goes through `mutate`. -/
theorem setProp_inv (P : Env Val) (g : Heap → Val) (hG : PartialGetter P.G g)
    (hD : DependsOnly g P.E P.root) (hS : ObserveSound P) (s : St Val) (a : SetArg) (hi : Inv P g s) :
    Inv P g (setProp P s a).2 := by
  have hc : ∀ x, Inv P g (callSetter P s x).2 := by
    intro x
    unfold callSetter
    split
    · exact hi
    · split
      · exact hi
      · exact runMuts_inv P g hG hD hS _ _ hi
  cases a with
  | delete => exact hi
  | value x =>
    simp only [setProp]
    cases P.fvalidate with
    | none => exact hc x
    | some fv =>
      simp only
      cases fv x with
      | error e => exact hi
      | ok y => exact hc y

theorem step_inv (P : Env Val) (g : Heap → Val) (hG : PartialGetter P.G g)
    (hD : DependsOnly g P.E P.root) (hS : ObserveSound P) (hp : P.postInit = false)
    (s : St Val) (st : Step) (hi : Inv P g s) : Inv P g (step P s st) := by
  cases st with
  | change m => exact mutate_inv P g hG hD hS s m hi
  | read => exact readProp_inv P g hG s hi
  | attach => exact hi
  | detach => exact hi
  | attachObj => exact hi
  | detachObj => exact hi
  | set a => exact setProp_inv P g hG hD hS s a hi
  | construct ws => exact restore_inv P g hG hD hS hp _ _
  | copy => exact restore_inv P g hG hD hS hp _ _

theorem run_inv (P : Env Val) (g : Heap → Val) (hG : PartialGetter P.G g)
    (hD : DependsOnly g P.E P.root) (hS : ObserveSound P) (hp : P.postInit = false) :
    ∀ (steps : List Step) (s : St Val), Inv P g s → Inv P g (run P s steps)
  | [], _, hi => hi
  | st :: rest, s, hi => by
    simp only [run, List.foldl_cons]
    exact run_inv P g hG hD hS hp rest _ (step_inv P g hG hD hS hp s st hi)

end TraitsVerif.Model.Property
