/-
The prefix (wildcard) table: the sort of `update_traits_class_dict`, the search
of `__prefix_trait__`, and what `mkClass` puts into the tables of a class.
-/
import TraitsVerif.Lemmas.ResolveMap
namespace TraitsVerif.Model.Resolve
open TraitsVerif

/-! ### the sort -/

/-- Longest first. -/
def Sorted (l : List (Name × Trait)) : Prop :=
  l.Pairwise (fun a b => a.1.length ≥ b.1.length)

theorem insertDesc_perm (e : Name × Trait) (l : List (Name × Trait)) : (insertDesc e l).Perm (e :: l) := by
  induction l with
  | nil => exact List.Perm.refl _
  | cons x xs ih =>
    unfold insertDesc
    split
    · exact (List.Perm.cons x ih).trans (List.Perm.swap e x xs)
    · exact List.Perm.refl _

theorem sortPrefixes_perm (l : List (Name × Trait)) : (sortPrefixes l).Perm l := by
  induction l with
  | nil => exact List.Perm.refl _
  | cons e es ih =>
    unfold sortPrefixes
    exact (insertDesc_perm e _).trans (List.Perm.cons e ih)

theorem mem_sortPrefixes {l : List (Name × Trait)} {e : Name × Trait} : e ∈ sortPrefixes l ↔ e ∈ l :=
  (sortPrefixes_perm l).mem_iff

theorem insertDesc_sorted (e : Name × Trait) {l : List (Name × Trait)} (h : Sorted l) :
    Sorted (insertDesc e l) := by
  induction l with
  | nil => simp [insertDesc, Sorted]
  | cons x xs ih =>
    unfold Sorted at h ih ⊢
    rw [List.pairwise_cons] at h
    unfold insertDesc
    split
    · rename_i hlt
      rw [List.pairwise_cons]
      refine ⟨?_, ih h.2⟩
      intro y hy
      rcases List.mem_cons.mp ((insertDesc_perm e xs).mem_iff.mp hy) with hy | hy
      · subst hy; omega
      · exact h.1 y hy
    · rename_i hnlt
      rw [List.pairwise_cons, List.pairwise_cons]
      refine ⟨?_, h.1, h.2⟩
      intro y hy
      rcases List.mem_cons.mp hy with hy | hy
      · subst hy; omega
      · have := h.1 y hy; omega

theorem sortPrefixes_sorted (l : List (Name × Trait)) : Sorted (sortPrefixes l) := by
  induction l with
  | nil => simp [sortPrefixes, Sorted]
  | cons e es ih => unfold sortPrefixes; exact insertDesc_sorted e ih

/-- The sort is stable: entries of equal length keep their relative order
(`list.sort` with `reverse=True` preserves stability). -/
theorem insertDesc_filter_len (e : Name × Trait) (l : List (Name × Trait)) (n : Nat) :
    (insertDesc e l).filter (fun x => x.1.length = n) = (e :: l).filter (fun x => x.1.length = n) := by
  induction l with
  | nil => rfl
  | cons x xs ih =>
    unfold insertDesc
    split
    · rename_i hlt
      simp only [List.filter_cons] at ih ⊢
      by_cases hx : x.1.length = n
      · have he : ¬ e.1.length = n := by omega
        simp [hx, he] at ih ⊢
        exact ih
      · simp [hx] at ih ⊢
        exact ih
    · rfl

theorem sortPrefixes_stable (l : List (Name × Trait)) (n : Nat) :
    (sortPrefixes l).filter (fun x => x.1.length = n) = l.filter (fun x => x.1.length = n) := by
  induction l with
  | nil => rfl
  | cons e es ih =>
    unfold sortPrefixes
    rw [insertDesc_filter_len]
    simp only [List.filter_cons]
    rw [ih]

/-! ### the search -/

theorem prefixMatches_iff {p n : Name} : prefixMatches p n = true ↔ p <+: n := by
  unfold prefixMatches
  rw [List.prefix_iff_eq_take]
  simp

theorem prefix_eq_of_length_eq {p q n : Name} (hp : p <+: n) (hq : q <+: n) (h : p.length = q.length) :
    p = q := by
  rw [List.prefix_iff_eq_take] at hp hq
  rw [hp, hq, h]

theorem firstMatch_some {ps : List (Name × Trait)} {name : Name} {e : Name × Trait}
    (h : firstMatch ps name = some e) : e ∈ ps ∧ e.1 <+: name := by
  unfold firstMatch at h
  have h2 := List.find?_some h
  exact ⟨List.mem_of_find?_eq_some h, prefixMatches_iff.mp h2⟩

theorem firstMatch_none {ps : List (Name × Trait)} {name : Name}
    (h : firstMatch ps name = none) : ∀ e ∈ ps, ¬ e.1 <+: name := by
  unfold firstMatch at h
  intro e he hp
  have := List.find?_eq_none.mp h e he
  exact this (prefixMatches_iff.mpr hp)

/-- In a table sorted longest first the first match is a longest match. -/
theorem firstMatch_longest {ps : List (Name × Trait)} (hs : Sorted ps) {name : Name} {e : Name × Trait}
    (h : firstMatch ps name = some e) : ∀ e' ∈ ps, e'.1 <+: name → e'.1.length ≤ e.1.length := by
  induction ps with
  | nil => simp [firstMatch] at h
  | cons x xs ih =>
    unfold Sorted at hs
    rw [List.pairwise_cons] at hs
    unfold firstMatch at h
    rw [List.find?_cons] at h
    intro e' he' hp'
    cases hx : prefixMatches x.1 name with
    | true =>
      rw [hx] at h
      cases h
      rcases List.mem_cons.mp he' with he' | he'
      · subst he'; exact Nat.le_refl _
      · exact hs.1 e' he'
    | false =>
      rw [hx] at h
      rcases List.mem_cons.mp he' with he' | he'
      · subst he'
        rw [prefixMatches_iff.mpr hp'] at hx; cases hx
      · exact ih hs.2 h e' he' hp'

theorem firstMatch_total {ps : List (Name × Trait)} (h : ∃ t, ([], t) ∈ ps) (name : Name) :
    ∃ e, firstMatch ps name = some e := by
  cases hf : firstMatch ps name with
  | some e => exact ⟨e, rfl⟩
  | none =>
    obtain ⟨t, ht⟩ := h
    exact absurd (List.nil_prefix) (firstMatch_none hf ([], t) ht)

/-- With distinct keys the first match is determined by the *set* of entries:
any entry that is a longest match is the one returned. -/
theorem firstMatch_unique {ps : List (Name × Trait)} (hs : Sorted ps) (hn : NodupKeys ps) {name : Name}
    {e e' : Name × Trait} (h : firstMatch ps name = some e) (he' : e' ∈ ps) (hp' : e'.1 <+: name)
    (hmax : ∀ x ∈ ps, x.1 <+: name → x.1.length ≤ e'.1.length) : e' = e := by
  obtain ⟨hmem, hp⟩ := firstMatch_some h
  have h1 := firstMatch_longest hs h e' he' hp'
  have h2 := hmax e hmem hp
  have hk : e'.1 = e.1 := prefix_eq_of_length_eq hp' hp (by omega)
  have g1 := hn.get_of_mem (k := e'.1) (v := e'.2) he'
  have g2 := hn.get_of_mem (k := e.1) (v := e.2) hmem
  rw [hk] at g1
  rw [g1] at g2
  cases e; cases e'; simp_all

/-! ### the tables of a class built by `mkClass` -/

theorem ensureDefault_mem {pl : List (Name × Trait)} : ∃ t, ([], t) ∈ ensureDefault pl := by
  unfold ensureDefault
  cases h : Map.get pl [] with
  | some t => exact ⟨t, Map.mem_of_get h⟩
  | none => exact ⟨pythonDefault, by simp⟩

theorem ensureDefault_get (pl : List (Name × Trait)) (k : Name) :
    Map.get (ensureDefault pl) k = match Map.get pl k with
      | some v => some v
      | none => if k = [] then some pythonDefault else none := by
  unfold ensureDefault
  cases h : Map.get pl [] with
  | some t =>
    cases hk : Map.get pl k with
    | some v => rfl
    | none =>
      have : k ≠ [] := by intro hk'; subst hk'; rw [h] at hk; cases hk
      simp [this]
  | none =>
    simp only [Map.get_append, Map.get_cons, Map.get_nil]
    cases hk : Map.get pl k with
    | some v => rfl
    | none =>
      by_cases hk' : k = []
      · subst hk'; simp
      · have : ¬ ([] : Name) = k := fun h => hk' h.symm
        simp [hk', this]

theorem ensureDefault_nodup {pl : List (Name × Trait)} (h : NodupKeys pl) : NodupKeys (ensureDefault pl) := by
  unfold ensureDefault
  cases hg : Map.get pl [] with
  | some t => exact h
  | none =>
    unfold NodupKeys at *
    rw [List.map_append, List.nodup_append]
    refine ⟨h, by simp, ?_⟩
    intro a ha b hb
    simp at hb
    subst hb
    obtain ⟨e, he, rfl⟩ := List.mem_map.mp ha
    exact Map.get_eq_none_iff.mp hg e he

theorem ensureDefault_mem_cases {pl : List (Name × Trait)} {e : Name × Trait} (h : e ∈ ensureDefault pl) :
    e ∈ pl ∨ e = ([], pythonDefault) := by
  unfold ensureDefault at h
  cases hg : Map.get pl [] with
  | some t => rw [hg] at h; exact Or.inl h
  | none =>
    rw [hg] at h
    rcases List.mem_append.mp h with h | h
    · exact Or.inl h
    · simp at h; exact Or.inr h

theorem mkClass_sorted (bases : List Cls) (decls : List (Name × Trait)) :
    Sorted (mkClass bases decls).prefixes := sortPrefixes_sorted _

theorem mkClass_hasDefault (bases : List Cls) (decls : List (Name × Trait)) :
    ∃ t, ([], t) ∈ (mkClass bases decls).prefixes := by
  obtain ⟨t, ht⟩ := ensureDefault_mem
    (pl := bases.foldl (fun acc b => mergePrefixes acc b.prefixes) (ownPrefixes decls))
  exact ⟨t, mem_sortPrefixes.mpr ht⟩

theorem mkClass_nodup {bases : List Cls} {decls : List (Name × Trait)}
    (h : NodupKeys (ownPrefixes decls)) : NodupKeys (mkClass bases decls).prefixes := by
  unfold mkClass
  exact (ensureDefault_nodup (foldl_mergePrefixes_nodup _ h)).perm (sortPrefixes_perm _).symm

/-- Every wildcard of a class is its own, or comes from a base, or is the
`Python()` default for ''. -/
theorem mkClass_prefix_mem {bases : List Cls} {decls : List (Name × Trait)} {e : Name × Trait}
    (h : e ∈ (mkClass bases decls).prefixes) :
    e ∈ ownPrefixes decls ∨ (∃ b ∈ bases, e ∈ b.prefixes) ∨ e = ([], pythonDefault) := by
  unfold mkClass at h
  rcases ensureDefault_mem_cases (mem_sortPrefixes.mp h) with h | h
  · rcases foldl_mergePrefixes_mem _ h with h | h
    · exact Or.inl h
    · exact Or.inr (Or.inl h)
  · exact Or.inr (Or.inr h)

/-- The wildcard table of a class as a dictionary: own wildcard, else the one of
the first base that has it, else the default for ''. -/
theorem mkClass_prefix_get {bases : List Cls} {decls : List (Name × Trait)}
    (h : NodupKeys (ownPrefixes decls)) (p : Name) :
    Map.get (mkClass bases decls).prefixes p = match Map.get (ownPrefixes decls) p with
      | some t => some t
      | none => match firstSome (bases.map (fun b => Map.get b.prefixes p)) with
        | some t => some t
        | none => if p = [] then some pythonDefault else none := by
  have hn := ensureDefault_nodup (foldl_mergePrefixes_nodup (fun b : Cls => b.prefixes) (bases := bases) h)
  unfold mkClass
  simp only
  rw [← Map.get_perm hn (sortPrefixes_perm _).symm, ensureDefault_get, foldl_mergePrefixes_get]
  cases Map.get (ownPrefixes decls) p with
  | some t => rfl
  | none => rfl

theorem mkClass_ctraits_get (bases : List Cls) (decls : List (Name × Trait)) (n : Name) :
    (mkClass bases decls).ctraits.get n = match (ownTraits decls).get n with
      | some t => some t
      | none => firstSome (bases.map (fun b => b.ctraits.get n)) :=
  foldl_mergeMap_get (fun b : Cls => b.ctraits) bases _ n

/-- Declared class traits: own exact declaration, else the first base that has one. -/
theorem mkClass_decl_get (bases : List Cls) (decls : List (Name × Trait)) (n : Name) :
    (mkClass bases decls).decl.get n = match (ownTraits decls).get n with
      | some t => some t
      | none => firstSome (bases.map (fun b => b.decl.get n)) :=
  foldl_mergeMap_get (fun b : Cls => b.decl) bases _ n

theorem ownTraits_mem {decls : List (Name × Trait)} {e : Name × Trait} (h : e ∈ ownTraits decls) :
    e ∈ decls := (List.mem_filter.mp h).1

theorem ownPrefixes_mem {decls : List (Name × Trait)} {e : Name × Trait} (h : e ∈ ownPrefixes decls) :
    ∃ d ∈ decls, e.2 = d.2 := by
  unfold ownPrefixes at h
  obtain ⟨d, hd, rfl⟩ := List.mem_map.mp h
  exact ⟨d, (List.mem_filter.mp hd).1, rfl⟩

end TraitsVerif.Model.Resolve
