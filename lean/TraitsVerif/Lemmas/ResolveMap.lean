/-
Lemmas about the association-list dictionaries of Model/Resolve and about the
two merge loops of `update_traits_class_dict`.
-/
import TraitsVerif.Model.Resolve
namespace TraitsVerif.Model.Resolve
open TraitsVerif

variable {β : Type}

@[simp] theorem Map.get_nil (k : Name) : Map.get ([] : Map β) k = none := rfl

theorem Map.get_cons (k' : Name) (v : β) (m : Map β) (k : Name) :
    Map.get ((k', v) :: m) k = if k' = k then some v else Map.get m k := rfl

theorem Map.get_set (m : Map β) (k : Name) (v : β) (k' : Name) :
    (m.set k v).get k' = if k = k' then some v else m.get k' := rfl

theorem Map.get_set_same (m : Map β) (k : Name) (v : β) : (m.set k v).get k = some v := by
  simp [Map.get_set]

theorem Map.get_set_ne (m : Map β) {k k' : Name} (v : β) (h : k ≠ k') :
    (m.set k v).get k' = m.get k' := by
  simp [Map.get_set, h]

theorem Map.get_erase (m : Map β) (k k' : Name) :
    (m.erase k).get k' = if k = k' then none else m.get k' := by
  induction m with
  | nil => simp [Map.erase]
  | cons e m ih =>
    obtain ⟨a, v⟩ := e
    unfold Map.erase at ih ⊢
    by_cases hak : a = k
    · subst hak
      by_cases hk : a = k'
      · subst hk; simpa using ih
      · simp [Map.get_cons, hk] at ih ⊢; exact ih
    · by_cases hk : k = k'
      · subst hk
        simp [hak, Map.get_cons] at ih ⊢
        exact ih
      · simp only [List.filter_cons, hak, ne_eq, not_false_eq_true, decide_true, ↓reduceIte,
          Map.get_cons, hk] at ih ⊢
        rw [ih]

theorem Map.get_erase_same (m : Map β) (k : Name) : (m.erase k).get k = none := by
  simp [Map.get_erase]

theorem Map.get_erase_ne (m : Map β) {k k' : Name} (h : k ≠ k') : (m.erase k).get k' = m.get k' := by
  simp [Map.get_erase, h]

theorem Map.mem_of_get {m : Map β} {k : Name} {v : β} (h : m.get k = some v) : (k, v) ∈ m := by
  induction m with
  | nil => simp at h
  | cons e m ih =>
    obtain ⟨a, w⟩ := e
    rw [Map.get_cons] at h
    by_cases hak : a = k
    · simp [hak] at h; subst hak; subst h; exact List.mem_cons_self
    · simp [hak] at h; exact List.mem_cons_of_mem _ (ih h)

theorem Map.get_eq_none_iff {m : Map β} {k : Name} : m.get k = none ↔ ∀ e ∈ m, e.1 ≠ k := by
  induction m with
  | nil => simp
  | cons e m ih =>
    obtain ⟨a, w⟩ := e
    rw [Map.get_cons]
    by_cases hak : a = k
    · simp [hak]
    · simp [hak, ih]

theorem Map.get_isSome_of_mem {m : Map β} {e : Name × β} (h : e ∈ m) : ∃ v, m.get e.1 = some v := by
  cases hg : m.get e.1 with
  | some v => exact ⟨v, rfl⟩
  | none => exact absurd rfl (Map.get_eq_none_iff.mp hg e h)

theorem Map.mem_erase {m : Map β} {k : Name} {e : Name × β} (h : e ∈ m.erase k) : e ∈ m := by
  unfold Map.erase at h
  exact (List.mem_filter.mp h).1

theorem Map.get_append (a b : Map β) (k : Name) :
    Map.get (a ++ b) k = match Map.get a k with
      | some v => some v
      | none => Map.get b k := by
  induction a with
  | nil => simp
  | cons e a ih =>
    obtain ⟨x, w⟩ := e
    simp only [List.cons_append, Map.get_cons]
    by_cases hx : x = k
    · simp [hx]
    · simp [hx, ih]

/-- Keys pairwise distinct (what a Python `dict` guarantees). -/
def NodupKeys (m : Map β) : Prop := (m.map (·.1)).Nodup

theorem NodupKeys.get_of_mem {m : Map β} (hn : NodupKeys m) {k : Name} {v : β} (h : (k, v) ∈ m) :
    m.get k = some v := by
  induction m with
  | nil => simp at h
  | cons e m ih =>
    obtain ⟨a, w⟩ := e
    unfold NodupKeys at hn
    simp only [List.map_cons, List.nodup_cons] at hn
    rw [Map.get_cons]
    rcases List.mem_cons.mp h with h | h
    · cases h; simp
    · have : a ≠ k := by
        intro hak; subst hak
        exact hn.1 (List.mem_map.mpr ⟨(a, v), h, rfl⟩)
      simp [this]; exact ih hn.2 h

theorem NodupKeys.get_iff_mem {m : Map β} (hn : NodupKeys m) {k : Name} {v : β} :
    m.get k = some v ↔ (k, v) ∈ m := ⟨Map.mem_of_get, hn.get_of_mem⟩

theorem NodupKeys.perm {m m' : Map β} (hn : NodupKeys m) (hp : m.Perm m') : NodupKeys m' := by
  unfold NodupKeys at *
  exact (hp.map _).nodup_iff.mp hn

/-- A dictionary read does not depend on the order of the entries. -/
theorem Map.get_perm {m m' : Map β} (hn : NodupKeys m) (hp : m.Perm m') (k : Name) :
    Map.get m k = Map.get m' k := by
  have hn' := hn.perm hp
  cases h : Map.get m k with
  | some v =>
    exact (hn'.get_of_mem (hp.mem_iff.mp (Map.mem_of_get h))).symm
  | none =>
    cases h' : Map.get m' k with
    | none => rfl
    | some v =>
      have := hn.get_of_mem (hp.mem_iff.mpr (Map.mem_of_get h'))
      rw [h] at this; cases this

/-! ### `mergeMap` (class traits of the bases) -/

theorem mergeMap_get (acc base : Map Trait) (k : Name) :
    (mergeMap acc base).get k = match acc.get k with
      | some v => some v
      | none => base.get k := by
  unfold mergeMap
  induction base generalizing acc with
  | nil => simp only [List.foldl_nil]; cases acc.get k <;> rfl
  | cons e base ih =>
    obtain ⟨a, t⟩ := e
    simp only [List.foldl_cons]
    rw [ih]
    cases hacc : acc.get a with
    | some u =>
      simp only [Map.get_cons]
      cases hk : acc.get k with
      | some v => rfl
      | none =>
        have : a ≠ k := by intro h; subst h; rw [hacc] at hk; cases hk
        simp [this]
    | none =>
      simp only [Map.get_set, Map.get_cons]
      by_cases hak : a = k
      · subst hak; simp [hacc]
      · simp [hak]

theorem mergeMap_mem {acc base : Map Trait} {e : Name × Trait} (h : e ∈ mergeMap acc base) :
    e ∈ acc ∨ e ∈ base := by
  unfold mergeMap at h
  induction base generalizing acc with
  | nil => exact Or.inl h
  | cons x base ih =>
    simp only [List.foldl_cons] at h
    cases hx : acc.get x.1 with
    | some u =>
      rw [hx] at h
      rcases ih h with h | h
      · exact Or.inl h
      · exact Or.inr (List.mem_cons_of_mem _ h)
    | none =>
      rw [hx] at h
      rcases ih h with h | h
      · rcases List.mem_cons.mp h with h | h
        · exact Or.inr (h ▸ List.mem_cons_self)
        · exact Or.inl h
      · exact Or.inr (List.mem_cons_of_mem _ h)

/-- "first base that has it". -/
def firstSome {α : Type} : List (Option α) → Option α
  | [] => none
  | some a :: _ => some a
  | none :: xs => firstSome xs

theorem foldl_mergeMap_get {γ : Type} (f : γ → Map Trait) (bases : List γ) (own : Map Trait) (k : Name) :
    (bases.foldl (fun acc b => mergeMap acc (f b)) own).get k = match own.get k with
      | some v => some v
      | none => firstSome (bases.map (fun b => (f b).get k)) := by
  induction bases generalizing own with
  | nil => simp only [List.foldl_nil, List.map_nil, firstSome]; cases own.get k <;> rfl
  | cons b bases ih =>
    simp only [List.foldl_cons, List.map_cons]
    rw [ih, mergeMap_get]
    cases own.get k with
    | some v => rfl
    | none =>
      cases (f b).get k with
      | some v => simp [firstSome]
      | none => simp [firstSome]

theorem foldl_mergeMap_mem {γ : Type} (f : γ → Map Trait) {bases : List γ} {own : Map Trait}
    {e : Name × Trait} (h : e ∈ bases.foldl (fun acc b => mergeMap acc (f b)) own) :
    e ∈ own ∨ ∃ b ∈ bases, e ∈ f b := by
  induction bases generalizing own with
  | nil => exact Or.inl h
  | cons b bases ih =>
    simp only [List.foldl_cons] at h
    rcases ih h with h | ⟨b', hb', h⟩
    · rcases mergeMap_mem h with h | h
      · exact Or.inl h
      · exact Or.inr ⟨b, List.mem_cons_self, h⟩
    · exact Or.inr ⟨b', List.mem_cons_of_mem _ hb', h⟩

/-! ### `mergePrefixes` (prefix traits of the bases) -/

theorem mergePrefixes_get (acc base : List (Name × Trait)) (k : Name) :
    Map.get (mergePrefixes acc base) k = match Map.get acc k with
      | some v => some v
      | none => Map.get base k := by
  unfold mergePrefixes
  induction base generalizing acc with
  | nil => simp only [List.foldl_nil]; cases Map.get acc k <;> rfl
  | cons e base ih =>
    obtain ⟨a, t⟩ := e
    simp only [List.foldl_cons]
    rw [ih]
    cases hacc : Map.get acc a with
    | some u =>
      simp only [Map.get_cons]
      cases hk : Map.get acc k with
      | some v => rfl
      | none =>
        have : a ≠ k := by intro h; subst h; rw [hacc] at hk; cases hk
        simp [this]
    | none =>
      simp only [Map.get_append, Map.get_cons, Map.get_nil]
      cases hk : Map.get acc k with
      | some v => rfl
      | none =>
        by_cases hak : a = k
        · simp [hak]
        · simp [hak]

theorem mergePrefixes_mem {acc base : List (Name × Trait)} {e : Name × Trait}
    (h : e ∈ mergePrefixes acc base) : e ∈ acc ∨ e ∈ base := by
  unfold mergePrefixes at h
  induction base generalizing acc with
  | nil => exact Or.inl h
  | cons x base ih =>
    simp only [List.foldl_cons] at h
    cases hx : Map.get acc x.1 with
    | some u =>
      rw [hx] at h
      rcases ih h with h | h
      · exact Or.inl h
      · exact Or.inr (List.mem_cons_of_mem _ h)
    | none =>
      rw [hx] at h
      rcases ih h with h | h
      · rcases List.mem_append.mp h with h | h
        · exact Or.inl h
        · simp at h; exact Or.inr (h ▸ List.mem_cons_self)
      · exact Or.inr (List.mem_cons_of_mem _ h)

theorem mergePrefixes_nodup {acc base : List (Name × Trait)} (h : NodupKeys acc) :
    NodupKeys (mergePrefixes acc base) := by
  unfold mergePrefixes
  induction base generalizing acc with
  | nil => exact h
  | cons x base ih =>
    simp only [List.foldl_cons]
    cases hx : Map.get acc x.1 with
    | some u => exact ih h
    | none =>
      apply ih
      unfold NodupKeys at *
      rw [List.map_append, List.nodup_append]
      refine ⟨h, by simp, ?_⟩
      intro a ha b hb
      simp at hb
      subst hb
      obtain ⟨e, he, rfl⟩ := List.mem_map.mp ha
      exact Map.get_eq_none_iff.mp hx e he

theorem foldl_mergePrefixes_get {γ : Type} (f : γ → List (Name × Trait)) (bases : List γ)
    (own : List (Name × Trait)) (k : Name) :
    Map.get (bases.foldl (fun acc b => mergePrefixes acc (f b)) own) k = match Map.get own k with
      | some v => some v
      | none => firstSome (bases.map (fun b => Map.get (f b) k)) := by
  induction bases generalizing own with
  | nil => simp only [List.foldl_nil, List.map_nil, firstSome]; cases Map.get own k <;> rfl
  | cons b bases ih =>
    simp only [List.foldl_cons, List.map_cons]
    rw [ih, mergePrefixes_get]
    cases Map.get own k with
    | some v => rfl
    | none =>
      cases Map.get (f b) k with
      | some v => simp [firstSome]
      | none => simp [firstSome]

theorem foldl_mergePrefixes_mem {γ : Type} (f : γ → List (Name × Trait)) {bases : List γ}
    {own : List (Name × Trait)} {e : Name × Trait}
    (h : e ∈ bases.foldl (fun acc b => mergePrefixes acc (f b)) own) :
    e ∈ own ∨ ∃ b ∈ bases, e ∈ f b := by
  induction bases generalizing own with
  | nil => exact Or.inl h
  | cons b bases ih =>
    simp only [List.foldl_cons] at h
    rcases ih h with h | ⟨b', hb', h⟩
    · rcases mergePrefixes_mem h with h | h
      · exact Or.inl h
      · exact Or.inr ⟨b, List.mem_cons_self, h⟩
    · exact Or.inr ⟨b', List.mem_cons_of_mem _ hb', h⟩

theorem foldl_mergePrefixes_nodup {γ : Type} (f : γ → List (Name × Trait)) {bases : List γ}
    {own : List (Name × Trait)} (h : NodupKeys own) :
    NodupKeys (bases.foldl (fun acc b => mergePrefixes acc (f b)) own) := by
  induction bases generalizing own with
  | nil => exact h
  | cons b bases ih => exact ih (mergePrefixes_nodup h)

end TraitsVerif.Model.Resolve
