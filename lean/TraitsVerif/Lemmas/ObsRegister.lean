/-
Cluster `obs`: what `add_or_remove_notifiers` does to the counts of registrations.

L1 `addRemove_add`   : a registration that does not raise adds exactly the
                       from-scratch items `hookList` (and succeeds iff `walkOk`);
L2 `addRemove_remove`: when the from-scratch items are all held, removal does not
                       raise and takes exactly them away.
-/
import TraitsVerif.Lemmas.ObsBasic
namespace TraitsVerif.Model.Obs
open TraitsVerif

/-! ### hooks-level counting -/

def WF (H : Hooks) : Prop := ∀ o, WFList (H.get o)

theorem WF_empty : WF Hooks.empty := by
  intro o k rc hm
  simp [Hooks.empty, Hooks.get] at hm

/-- weight of one item at `(o, q)` -/
def wt (it : Item) (o : Observable) (q : NKey) : Nat := if it.1 = o then hit it.2 q else 0

theorem cntItems_nil (o : Observable) (q : NKey) : cntItems [] o q = 0 := rfl

theorem cntItems_cons (it : Item) (l : List Item) (o : Observable) (q : NKey) :
    cntItems (it :: l) o q = wt it o q + cntItems l o q := by
  unfold cntItems wt hit
  rw [List.countP_cons]
  by_cases h1 : it.1 = o
  · by_cases h2 : it.2.equals q = true
    · simp [h1, h2]; omega
    · simp [h1, h2]
  · simp [h1]

theorem cntItems_append (a b : List Item) (o : Observable) (q : NKey) :
    cntItems (a ++ b) o q = cntItems a o q + cntItems b o q := by
  simp [cntItems, List.countP_append]

theorem cntItems_reverse (a : List Item) (o : Observable) (q : NKey) :
    cntItems a.reverse o q = cntItems a o q := by
  simp [cntItems, List.countP_reverse]

theorem cntItems_flatMap {α} (l : List α) (f : α → List Item) (o : Observable) (q : NKey) :
    cntItems (l.flatMap f) o q = (l.map (fun a => cntItems (f a) o q)).sum := by
  induction l with
  | nil => rfl
  | cons a l ih => simp [List.flatMap_cons, cntItems_append, ih]

theorem cnt_addItem (it : Item) (H : Hooks) (o : Observable) (q : NKey) :
    cnt (addItem it H) o q = cnt H o q + wt it o q := by
  unfold cnt addItem wt
  rw [Hooks.get_upd]
  by_cases h : o = it.1
  · subst h; simp [cntList_addKey]
  · have : ¬ it.1 = o := fun e => h e.symm
    simp [h, this]

theorem WF_addItem (it : Item) (H : Hooks) (hw : WF H) : WF (addItem it H) := by
  intro o
  unfold addItem
  rw [Hooks.get_upd]
  split
  · exact WFList_addKey _ _ (hw _)
  · exact hw o

theorem cnt_removeItem {it : Item} {H H' : Hooks} (h : removeItem it H = .ok H') (o : Observable) (q : NKey) :
    cnt H' o q + wt it o q = cnt H o q := by
  unfold removeItem at h
  cases hr : removeKey it.2 (H.get it.1) with
  | error e => simp [hr] at h
  | ok l =>
    simp [hr] at h
    subst h
    unfold cnt wt
    rw [Hooks.get_upd]
    by_cases e : o = it.1
    · subst e; simp; exact cntList_removeKey q it.2 _ _ hr
    · have : ¬ it.1 = o := fun e' => e e'.symm
      simp [e, this]

theorem WF_removeItem {it : Item} {H H' : Hooks} (hw : WF H) (h : removeItem it H = .ok H') : WF H' := by
  unfold removeItem at h
  cases hr : removeKey it.2 (H.get it.1) with
  | error e => simp [hr] at h
  | ok l =>
    simp [hr] at h
    subst h
    intro o
    rw [Hooks.get_upd]
    split
    · exact WFList_removeKey _ _ _ (hw _) hr
    · exact hw o

theorem removeItem_ok (it : Item) (H : Hooks) (hw : WF H) (hpos : 0 < cnt H it.1 it.2) :
    ∃ H', removeItem it H = .ok H' := by
  obtain ⟨l, hl⟩ := removeKey_ok it.2 (H.get it.1) (hw _) hpos
  exact ⟨H.upd it.1 l, by simp [removeItem, hl]⟩

theorem removeItem_none (it : Item) (H : Hooks) (hw : WF H) (h0 : cnt H it.1 it.2 = 0) :
    removeItem it H = .error .notifierNotFound := by
  simp [removeItem, removeKey_none it.2 (H.get it.1) (hw _) h0]

theorem wt_self (it : Item) : wt it it.1 it.2 = 1 := by simp [wt, hit_self]

/-! ### one step of `_AddOrRemoveNotifier` -/

/-- Adding never fails. -/
theorem applyOwn_add (its : List Item) (H : Hooks) (done : List Item) :
    ∃ H', applyOwn false its H done = (H', its.reverse ++ done, none) ∧
      (∀ o q, cnt H' o q = cnt H o q + cntItems its o q) ∧ (WF H → WF H') := by
  induction its generalizing H done with
  | nil => exact ⟨H, rfl, by simp [cntItems_nil], id⟩
  | cons it its ih =>
    obtain ⟨H', he, hc, hw⟩ := ih (addItem it H) (it :: done)
    refine ⟨H', ?_, ?_, ?_⟩
    · simp [applyOwn, he]
    · intro o q; rw [hc, cnt_addItem, cntItems_cons]; omega
    · exact fun h => hw (WF_addItem it H h)

/-- Removing items that are all held succeeds and takes exactly them away. -/
theorem applyOwn_rm_ok (its : List Item) (H : Hooks) (done : List Item) (hw : WF H)
    (hle : ∀ o q, cntItems its o q ≤ cnt H o q) :
    ∃ H', applyOwn true its H done = (H', its.reverse ++ done, none) ∧
      (∀ o q, cnt H' o q + cntItems its o q = cnt H o q) ∧ WF H' := by
  induction its generalizing H done with
  | nil => exact ⟨H, rfl, by simp [cntItems_nil], hw⟩
  | cons it its ih =>
    have hpos : 0 < cnt H it.1 it.2 := by
      have := hle it.1 it.2
      rw [cntItems_cons, wt_self] at this
      omega
    obtain ⟨H1, h1⟩ := removeItem_ok it H hw hpos
    have hc1 := cnt_removeItem h1
    have hle1 : ∀ o q, cntItems its o q ≤ cnt H1 o q := by
      intro o q
      have := hle o q
      rw [cntItems_cons] at this
      have := hc1 o q
      omega
    obtain ⟨H', he, hc, hw'⟩ := ih H1 (it :: done) (WF_removeItem hw h1) hle1
    refine ⟨H', ?_, ?_, hw'⟩
    · simp [applyOwn, h1, he]
    · intro o q
      have := hc o q
      have := hc1 o q
      rw [cntItems_cons]; omega

/-- With nothing of these items held, the first removal raises NotifierNotFound
and nothing has been touched. -/
theorem applyOwn_rm_none (its : List Item) (H : Hooks) (done : List Item) (hw : WF H)
    (h0 : ∀ it ∈ its, cnt H it.1 it.2 = 0) :
    applyOwn true its H done = (H, done, if its = [] then none else some .notifierNotFound) := by
  cases its with
  | nil => rfl
  | cons it its =>
    have := removeItem_none it H hw (h0 it (List.mem_cons_self ..))
    simp [applyOwn, this]

/-- Undoing additions: `remove_from` of what is held. -/
theorem undo_add (done : List Item) (H : Hooks) (hw : WF H) (hle : ∀ o q, cntItems done o q ≤ cnt H o q) :
    (∀ o q, cnt (undo false done H) o q + cntItems done o q = cnt H o q) ∧ WF (undo false done H) := by
  induction done generalizing H with
  | nil => exact ⟨by simp [undo, cntItems_nil], hw⟩
  | cons it done ih =>
    have hpos : 0 < cnt H it.1 it.2 := by
      have := hle it.1 it.2
      rw [cntItems_cons, wt_self] at this
      omega
    obtain ⟨H1, h1⟩ := removeItem_ok it H hw hpos
    have hc1 := cnt_removeItem h1
    have hle1 : ∀ o q, cntItems done o q ≤ cnt H1 o q := by
      intro o q
      have := hle o q
      rw [cntItems_cons] at this
      have := hc1 o q
      omega
    obtain ⟨hc, hw'⟩ := ih H1 (WF_removeItem hw h1) hle1
    simp only [undo, h1, Bool.false_eq_true, if_false]
    refine ⟨?_, hw'⟩
    intro o q
    have := hc o q
    have := hc1 o q
    rw [cntItems_cons]; omega

/-- Undoing removals: `add_to`. -/
theorem undo_rm (done : List Item) (H : Hooks) :
    (∀ o q, cnt (undo true done H) o q = cnt H o q + cntItems done o q) ∧ (WF H → WF (undo true done H)) := by
  induction done generalizing H with
  | nil => exact ⟨by simp [undo, cntItems_nil], id⟩
  | cons it done ih =>
    obtain ⟨hc, hw⟩ := ih (addItem it H)
    simp only [undo, if_true]
    refine ⟨?_, fun h => hw (WF_addItem it H h)⟩
    intro o q
    rw [hc, cnt_addItem, cntItems_cons]; omega

/-! ### the items of one node -/

def userItems (k : HKey) (os : List Observable) : List Item := os.map (fun o => (o, NKey.user k))
def maintItems (ob : Observer) (cs : List Graph) (k : HKey) (os : List Observable) : List Item :=
  os.flatMap (fun o => cs.map (fun c => (o, NKey.maint ob.mkind c k)))
def extraItems (g : Graph) (k : HKey) (os : List Observable) : List Item :=
  os.map (fun o => (o, NKey.maint .added g k))

theorem ownItems_eq (h : Heap) (k : HKey) (ob : Observer) (cs : List Graph) (x : W) (os : List Observable)
    (hos : observables h ob x = .ok os) :
    ownItems h k ob cs x = (if ob.notify then userItems k os else []) ++ maintItems ob cs k os := by
  simp [ownItems, hos, okOr, userItems, maintItems]

theorem hookList_node (h : Heap) (k : HKey) (extra : Bool) (ob : Observer) (cs : List Graph) (x : W) :
    hookList h k extra (.node ob cs) x =
      ownItems h k ob cs x ++ hookListCs h k ob x cs ++
      (if extra then extraItems (.node ob cs) k (okOr [] (extraObservables h ob x)) else []) := by
  simp [hookList, extraItems]

theorem hookListCs_cons (h : Heap) (k : HKey) (ob : Observer) (x : W) (c : Graph) (cs : List Graph) :
    hookListCs h k ob x (c :: cs) =
      (okOr [] (objects h ob x)).flatMap (fun y => hookList h k true c y) ++ hookListCs h k ob x cs := by
  simp [hookListCs]

/-! ### `foldRes` -/

theorem foldRes_spec (f : W → Hooks → Res) (items : W → List Item) (P : Hooks → Prop) (good Q : W → Prop)
    (hf : ∀ y H, good y → P H → (f y H).err = none →
      (∀ o q, cnt (f y H).H o q = cnt H o q + cntItems (items y) o q) ∧ P (f y H).H ∧ Q y)
    (ys : List W) (H : Hooks) (hg : ∀ y ∈ ys, good y) (hP : P H) (hok : (foldRes f ys H).err = none) :
    (∀ o q, cnt (foldRes f ys H).H o q = cnt H o q + cntItems (ys.flatMap items) o q) ∧
      P (foldRes f ys H).H ∧ ∀ y ∈ ys, Q y := by
  induction ys generalizing H with
  | nil => exact ⟨by simp [foldRes, cntItems_nil], hP, by simp⟩
  | cons y ys ih =>
    simp only [foldRes] at hok ⊢
    cases he : (f y H).err with
    | some e => simp [he] at hok
    | none =>
      simp only [he] at hok ⊢
      obtain ⟨hc, hP', hQ⟩ := hf y H (hg y (List.mem_cons_self ..)) hP he
      obtain ⟨hc2, hP2, hQ2⟩ := ih (f y H).H (fun y' hy' => hg y' (List.mem_cons_of_mem _ hy')) hP' hok
      refine ⟨?_, hP2, ?_⟩
      · intro o q
        rw [hc2, hc, List.flatMap_cons, cntItems_append]; omega
      · intro y' hy'
        cases hy' with
        | head => exact hQ
        | tail _ hm => exact hQ2 y' hm

/-! ### L1: a registration that does not raise adds exactly `hookList` -/

theorem addRemove_add_unfold (h : Heap) (k : HKey) (extra : Bool) (ob : Observer) (cs : List Graph) (x : W) (H : Hooks) :
    addRemove h k false extra (.node ob cs) x H =
      (let s1 := notifStep h k false ob x H []
       match s1.2.2 with
       | some e => ⟨undo false s1.2.1 s1.1, some e⟩
       | none =>
         let s2 := maintStep h k false ob cs x s1.1 s1.2.1
         match s2.2.2 with
         | some e => ⟨undo false s2.2.1 s2.1, some e⟩
         | none =>
           let r3 := addRemoveCs h k false ob x cs s2.1
           match r3.err with
           | some e => ⟨undo false s2.2.1 r3.H, some e⟩
           | none =>
             let r4 := if extra then extraStep h k false (.node ob cs) x r3.H else ⟨r3.H, none⟩
             match r4.err with
             | some e => ⟨undo false s2.2.1 r4.H, some e⟩
             | none => ⟨r4.H, none⟩) := by
  rw [addRemove]; rfl

/-- What L1 states about one walk. -/
def AddSpec (h : Heap) (k : HKey) (g : Graph) : Prop :=
  ∀ (extra : Bool) (x : W) (H : Hooks), (addRemove h k false extra g x H).err = none →
    walkOk h extra g x = true ∧
    (∀ o q, cnt (addRemove h k false extra g x H).H o q = cnt H o q + cntItems (hookList h k extra g x) o q) ∧
    (WF H → WF (addRemove h k false extra g x H).H)

theorem addRemoveCs_add (h : Heap) (k : HKey) (ob : Observer) (x : W) (cs : List Graph)
    (ih : ∀ c ∈ cs, AddSpec h k c) (H : Hooks) (hok : (addRemoveCs h k false ob x cs H).err = none) :
    walkOkCs h ob x cs = true ∧
    (∀ o q, cnt (addRemoveCs h k false ob x cs H).H o q = cnt H o q + cntItems (hookListCs h k ob x cs) o q) ∧
    (WF H → WF (addRemoveCs h k false ob x cs H).H) := by
  induction cs generalizing H with
  | nil => exact ⟨rfl, by simp [addRemoveCs, hookListCs, cntItems_nil], by simp [addRemoveCs]⟩
  | cons c cs ihcs =>
    simp only [addRemoveCs] at hok ⊢
    cases hobj : objects h ob x with
    | error e => simp [hobj] at hok
    | ok ys =>
      simp only [hobj] at hok ⊢
      cases hr : (foldRes (addRemove h k false true c) ys H).err with
      | some e => simp [hr] at hok
      | none =>
        simp only [hr] at hok ⊢
        have hc := ih c (List.mem_cons_self ..)
        obtain ⟨h1, h2, h3⟩ := foldRes_spec (addRemove h k false true c) (fun y => hookList h k true c y)
          (fun H' => WF H → WF H') (fun _ => True) (fun y => walkOk h true c y = true)
          (fun y H' _ hP he => by
            obtain ⟨a, b, d⟩ := hc true y H' he
            exact ⟨b, fun hw => d (hP hw), a⟩)
          ys H (fun _ _ => trivial) id hr
        obtain ⟨g1, g2, g3⟩ := ihcs (fun c' hc' => ih c' (List.mem_cons_of_mem _ hc')) _ hok
        refine ⟨?_, ?_, fun hw => g3 (h2 hw)⟩
        · simp only [walkOkCs, hobj, g1, Bool.and_true, List.all_eq_true]
          exact h3
        · intro o q
          rw [g2, h1, hookListCs_cons, cntItems_append, hobj]; simp only [okOr]; omega

theorem extraStep_add (h : Heap) (k : HKey) (g : Graph) (x : W) (H : Hooks)
    (hok : (extraStep h k false g x H).err = none) :
    isOk (extraObservables h g.ob x) = true ∧
    (∀ o q, cnt (extraStep h k false g x H).H o q =
      cnt H o q + cntItems (extraItems g k (okOr [] (extraObservables h g.ob x))) o q) ∧
    (WF H → WF (extraStep h k false g x H).H) := by
  unfold extraStep at hok ⊢
  cases he : extraObservables h g.ob x with
  | error e => simp [he] at hok
  | ok os =>
    simp only [he] at hok ⊢
    obtain ⟨H', ha, hc, hw⟩ := applyOwn_add (os.map (fun o => (o, NKey.maint .added g k))) H []
    simp only [ha]
    exact ⟨rfl, by simpa [okOr, extraItems] using hc, hw⟩

theorem addRemove_add (h : Heap) (k : HKey) : ∀ g : Graph, AddSpec h k g := by
  apply Graph.ind
  intro ob cs ih extra x H hok
  rw [addRemove_add_unfold] at hok ⊢
  cases hobs : observables h ob x with
  | error e =>
    -- the first step that calls `iter_observables` raises
    exfalso
    simp only [notifStep, maintStep, hobs] at hok
    by_cases hn : ob.notify = true <;> simp [hn] at hok
  | ok os =>
    -- step 1
    obtain ⟨H1, d1, hs1, hc1, hw1⟩ : ∃ H1 d1, notifStep h k false ob x H [] = (H1, d1, none) ∧
        (∀ o q, cnt H1 o q = cnt H o q + cntItems (if ob.notify then userItems k os else []) o q) ∧
        (WF H → WF H1) := by
      unfold notifStep
      by_cases hn : ob.notify = true
      · obtain ⟨H1, ha, hc, hw⟩ := applyOwn_add (userItems k os) H []
        exact ⟨H1, _, by simp [hn, hobs]; exact ha, by simpa [hn] using hc, hw⟩
      · exact ⟨H, [], by simp [hn], by simp [hn, cntItems_nil], id⟩
    simp only [hs1] at hok ⊢
    -- step 2
    obtain ⟨H2, ha2, hc2, hw2⟩ := applyOwn_add (maintItems ob cs k os) H1 d1
    have hs2 : maintStep h k false ob cs x H1 d1 = (H2, (maintItems ob cs k os).reverse ++ d1, none) := by
      simp [maintStep, hobs]; exact ha2
    simp only [hs2] at hok ⊢
    -- step 3
    cases hr3 : (addRemoveCs h k false ob x cs H2).err with
    | some e => simp [hr3] at hok
    | none =>
      simp only [hr3] at hok ⊢
      obtain ⟨w3, c3, wf3⟩ := addRemoveCs_add h k ob x cs ih H2 hr3
      -- step 4
      cases extra with
      | false =>
        simp only [Bool.false_eq_true, if_false] at hok ⊢
        refine ⟨by simp [walkOk, hobs, isOk, w3], ?_, fun hw => wf3 (hw2 (hw1 hw))⟩
        intro o q
        rw [c3, hc2, hc1, hookList_node, ownItems_eq h k ob cs x os hobs]
        simp [cntItems_append, cntItems_nil]; omega
      | true =>
        simp only [if_true] at hok ⊢
        cases hr4 : (extraStep h k false (.node ob cs) x (addRemoveCs h k false ob x cs H2).H).err with
        | some e => simp [hr4] at hok
        | none =>
          simp only [hr4]
          obtain ⟨w4, c4, wf4⟩ := extraStep_add h k (.node ob cs) x _ hr4
          refine ⟨by simpa [walkOk, hobs, isOk, w3, Graph.ob] using w4, ?_, fun hw => wf4 (wf3 (hw2 (hw1 hw)))⟩
          intro o q
          rw [c4, c3, hc2, hc1, hookList_node, ownItems_eq h k ob cs x os hobs]
          simp [cntItems_append, Graph.ob]; omega

end TraitsVerif.Model.Obs
