/-
Cluster `obs`: what `add_or_remove_notifiers` does to the counts of registrations.

`walk_did`           : whatever a walk has done, complete or interrupted, is in its
                       undo log (hence `finish` rolls an interrupted call back exactly);
L1 `addRemove_add`   : a registration that does not raise adds exactly the
                       from-scratch items `hookList` (and succeeds iff `walkOk`).
-/
import TraitsVerif.Lemmas.ObsBasic
namespace TraitsVerif.Model.Obs
open TraitsVerif

/-! ### hooks-level counting -/

def WF (H : Hooks) : Prop := ∀ o, WFList (H.get o)

theorem WF_empty : WF Hooks.empty := by
  intro o k rc hm
  simp [Hooks.empty, Hooks.get] at hm

/-- weight of one item at `(o, q)` -/
def wt (it : Item) (o : Observable) (q : NKey) : Nat := if it.1 = o then hit it.2 q else 0

theorem cntItems_nil (o : Observable) (q : NKey) : cntItems [] o q = 0 := rfl

theorem cntItems_cons (it : Item) (l : List Item) (o : Observable) (q : NKey) :
    cntItems (it :: l) o q = wt it o q + cntItems l o q := by
  unfold cntItems wt hit
  rw [List.countP_cons]
  by_cases h1 : it.1 = o
  · by_cases h2 : it.2.equals q = true
    · simp [h1, h2]; omega
    · simp [h1, h2]
  · simp [h1]

theorem cntItems_append (a b : List Item) (o : Observable) (q : NKey) :
    cntItems (a ++ b) o q = cntItems a o q + cntItems b o q := by
  simp [cntItems, List.countP_append]

theorem cntItems_reverse (a : List Item) (o : Observable) (q : NKey) :
    cntItems a.reverse o q = cntItems a o q := by
  simp [cntItems, List.countP_reverse]

theorem cntItems_flatMap {α} (l : List α) (f : α → List Item) (o : Observable) (q : NKey) :
    cntItems (l.flatMap f) o q = (l.map (fun a => cntItems (f a) o q)).sum := by
  induction l with
  | nil => rfl
  | cons a l ih => simp [List.flatMap_cons, cntItems_append, ih]

theorem cnt_addItem (it : Item) (H : Hooks) (o : Observable) (q : NKey) :
    cnt (addItem it H) o q = cnt H o q + wt it o q := by
  unfold cnt addItem wt
  rw [Hooks.get_upd]
  by_cases h : o = it.1
  · subst h; simp [cntList_addKey]
  · have : ¬ it.1 = o := fun e => h e.symm
    simp [h, this]

theorem WF_addItem (it : Item) (H : Hooks) (hw : WF H) : WF (addItem it H) := by
  intro o
  unfold addItem
  rw [Hooks.get_upd]
  split
  · exact WFList_addKey _ _ (hw _)
  · exact hw o

theorem cnt_removeItem {it : Item} {H H' : Hooks} (h : removeItem it H = .ok H') (o : Observable) (q : NKey) :
    cnt H' o q + wt it o q = cnt H o q := by
  unfold removeItem at h
  cases hr : removeKey it.2 (H.get it.1) with
  | error e => simp [hr] at h
  | ok l =>
    simp [hr] at h
    subst h
    unfold cnt wt
    rw [Hooks.get_upd]
    by_cases e : o = it.1
    · subst e; simp; exact cntList_removeKey q it.2 _ _ hr
    · have : ¬ it.1 = o := fun e' => e e'.symm
      simp [e, this]

theorem WF_removeItem {it : Item} {H H' : Hooks} (hw : WF H) (h : removeItem it H = .ok H') : WF H' := by
  unfold removeItem at h
  cases hr : removeKey it.2 (H.get it.1) with
  | error e => simp [hr] at h
  | ok l =>
    simp [hr] at h
    subst h
    intro o
    rw [Hooks.get_upd]
    split
    · exact WFList_removeKey _ _ _ (hw _) hr
    · exact hw o

theorem removeItem_ok (it : Item) (H : Hooks) (hw : WF H) (hpos : 0 < cnt H it.1 it.2) :
    ∃ H', removeItem it H = .ok H' := by
  obtain ⟨l, hl⟩ := removeKey_ok it.2 (H.get it.1) (hw _) hpos
  exact ⟨H.upd it.1 l, by simp [removeItem, hl]⟩

theorem removeItem_none (it : Item) (H : Hooks) (hw : WF H) (h0 : cnt H it.1 it.2 = 0) :
    removeItem it H = .error .notifierNotFound := by
  simp [removeItem, removeKey_none it.2 (H.get it.1) (hw _) h0]

theorem wt_self (it : Item) : wt it it.1 it.2 = 1 := by simp [wt, hit_self]

/-! ### one step of `_AddOrRemoveNotifier` -/

/-- Adding never fails. -/
theorem applyOwn_add (its : List Item) (H : Hooks) (done : List Item) :
    ∃ H', applyOwn false its H done = (H', its.reverse ++ done, none) ∧
      (∀ o q, cnt H' o q = cnt H o q + cntItems its o q) ∧ (WF H → WF H') := by
  induction its generalizing H done with
  | nil => exact ⟨H, rfl, by simp [cntItems_nil], id⟩
  | cons it its ih =>
    obtain ⟨H', he, hc, hw⟩ := ih (addItem it H) (it :: done)
    refine ⟨H', ?_, ?_, ?_⟩
    · simp [applyOwn, he]
    · intro o q; rw [hc, cnt_addItem, cntItems_cons]; omega
    · exact fun h => hw (WF_addItem it H h)

/-- Removing items that are all held succeeds and takes exactly them away. -/
theorem applyOwn_rm_ok (its : List Item) (H : Hooks) (done : List Item) (hw : WF H)
    (hle : ∀ o q, cntItems its o q ≤ cnt H o q) :
    ∃ H', applyOwn true its H done = (H', its.reverse ++ done, none) ∧
      (∀ o q, cnt H' o q + cntItems its o q = cnt H o q) ∧ WF H' := by
  induction its generalizing H done with
  | nil => exact ⟨H, rfl, by simp [cntItems_nil], hw⟩
  | cons it its ih =>
    have hpos : 0 < cnt H it.1 it.2 := by
      have := hle it.1 it.2
      rw [cntItems_cons, wt_self] at this
      omega
    obtain ⟨H1, h1⟩ := removeItem_ok it H hw hpos
    have hc1 := cnt_removeItem h1
    have hle1 : ∀ o q, cntItems its o q ≤ cnt H1 o q := by
      intro o q
      have := hle o q
      rw [cntItems_cons] at this
      have := hc1 o q
      omega
    obtain ⟨H', he, hc, hw'⟩ := ih H1 (it :: done) (WF_removeItem hw h1) hle1
    refine ⟨H', ?_, ?_, hw'⟩
    · simp [applyOwn, h1, he]
    · intro o q
      have := hc o q
      have := hc1 o q
      rw [cntItems_cons]; omega

/-- With nothing of these items held, the first removal raises NotifierNotFound
and nothing has been touched. -/
theorem applyOwn_rm_none (its : List Item) (H : Hooks) (done : List Item) (hw : WF H)
    (h0 : ∀ it ∈ its, cnt H it.1 it.2 = 0) :
    applyOwn true its H done = (H, done, if its = [] then none else some .notifierNotFound) := by
  cases its with
  | nil => rfl
  | cons it its =>
    have := removeItem_none it H hw (h0 it (List.mem_cons_self ..))
    simp [applyOwn, this]

/-- Undoing additions: `remove_from` of what is held. -/
theorem undo_add (done : List Item) (H : Hooks) (hw : WF H) (hle : ∀ o q, cntItems done o q ≤ cnt H o q) :
    (∀ o q, cnt (undo false done H) o q + cntItems done o q = cnt H o q) ∧ WF (undo false done H) := by
  induction done generalizing H with
  | nil => exact ⟨by simp [undo, cntItems_nil], hw⟩
  | cons it done ih =>
    have hpos : 0 < cnt H it.1 it.2 := by
      have := hle it.1 it.2
      rw [cntItems_cons, wt_self] at this
      omega
    obtain ⟨H1, h1⟩ := removeItem_ok it H hw hpos
    have hc1 := cnt_removeItem h1
    have hle1 : ∀ o q, cntItems done o q ≤ cnt H1 o q := by
      intro o q
      have := hle o q
      rw [cntItems_cons] at this
      have := hc1 o q
      omega
    obtain ⟨hc, hw'⟩ := ih H1 (WF_removeItem hw h1) hle1
    simp only [undo, h1, Bool.false_eq_true, if_false]
    refine ⟨?_, hw'⟩
    intro o q
    have := hc o q
    have := hc1 o q
    rw [cntItems_cons]; omega

/-- Undoing removals: `add_to`. -/
theorem undo_rm (done : List Item) (H : Hooks) :
    (∀ o q, cnt (undo true done H) o q = cnt H o q + cntItems done o q) ∧ (WF H → WF (undo true done H)) := by
  induction done generalizing H with
  | nil => exact ⟨by simp [undo, cntItems_nil], id⟩
  | cons it done ih =>
    obtain ⟨hc, hw⟩ := ih (addItem it H)
    simp only [undo, if_true]
    refine ⟨?_, fun h => hw (WF_addItem it H h)⟩
    intro o q
    rw [hc, cnt_addItem, cntItems_cons]; omega

/-! ### the items of one node -/

def userItems (k : HKey) (os : List Observable) : List Item := os.map (fun o => (o, NKey.user k))
def maintItems (ob : Observer) (cs : List Graph) (k : HKey) (os : List Observable) : List Item :=
  os.flatMap (fun o => cs.map (fun c => (o, NKey.maint ob.mkind c k)))
def extraItems (g : Graph) (k : HKey) (os : List Observable) : List Item :=
  os.map (fun o => (o, NKey.maint .added g k))

theorem ownItems_eq (h : Heap) (k : HKey) (ob : Observer) (cs : List Graph) (x : W) (os : List Observable)
    (hos : observables h ob x = .ok os) :
    ownItems h k ob cs x = (if ob.notify then userItems k os else []) ++ maintItems ob cs k os := by
  simp [ownItems, hos, okOr, userItems, maintItems]

theorem hookList_node (h : Heap) (k : HKey) (extra : Bool) (ob : Observer) (cs : List Graph) (x : W) :
    hookList h k extra (.node ob cs) x =
      ownItems h k ob cs x ++ hookListCs h k ob x cs ++
      (if extra then extraItems (.node ob cs) k (okOr [] (extraObservables h ob x)) else []) := by
  simp [hookList, extraItems]

theorem hookListCs_cons (h : Heap) (k : HKey) (ob : Observer) (x : W) (c : Graph) (cs : List Graph) :
    hookListCs h k ob x (c :: cs) =
      (okOr [] (objects h ob x)).flatMap (fun y => hookList h k true c y) ++ hookListCs h k ob x cs := by
  simp [hookListCs]

/-! ### `foldRes` -/

theorem foldRes_spec (f : W → Hooks → Res) (items : W → List Item) (P : Hooks → Prop) (good Q : W → Prop)
    (hf : ∀ y H, good y → P H → (f y H).err = none →
      (∀ o q, cnt (f y H).H o q = cnt H o q + cntItems (items y) o q) ∧ P (f y H).H ∧ Q y)
    (ys : List W) (H : Hooks) (hg : ∀ y ∈ ys, good y) (hP : P H) (hok : (foldRes f ys H).err = none) :
    (∀ o q, cnt (foldRes f ys H).H o q = cnt H o q + cntItems (ys.flatMap items) o q) ∧
      P (foldRes f ys H).H ∧ ∀ y ∈ ys, Q y := by
  induction ys generalizing H with
  | nil => exact ⟨by simp [foldRes, cntItems_nil], hP, by simp⟩
  | cons y ys ih =>
    simp only [foldRes] at hok ⊢
    cases he : (f y H).err with
    | some e => simp [he] at hok
    | none =>
      simp only [he] at hok ⊢
      obtain ⟨hc, hP', hQ⟩ := hf y H (hg y (List.mem_cons_self ..)) hP he
      obtain ⟨hc2, hP2, hQ2⟩ := ih (f y H).H (fun y' hy' => hg y' (List.mem_cons_of_mem _ hy')) hP' hok
      refine ⟨?_, hP2, ?_⟩
      · intro o q
        rw [hc2, hc, List.flatMap_cons, cntItems_append]; omega
      · intro y' hy'
        cases hy' with
        | head => exact hQ
        | tail _ hm => exact hQ2 y' hm

/-! ### the owner of the undo log -/

theorem finish_err (rm : Bool) (r : Tr) : (finish rm r).err = r.2.2 := by
  unfold finish; split <;> simp_all

theorem finish_ok (rm : Bool) (r : Tr) (h : r.2.2 = none) : (finish rm r).H = r.1 := by
  unfold finish; simp [h]

theorem foldW_spec (f : W → Hooks → List Item → Tr) (items : W → List Item) (P : Hooks → Prop) (good Q : W → Prop)
    (hf : ∀ y H log, good y → P H → (f y H log).2.2 = none →
      (∀ o q, cnt (f y H log).1 o q = cnt H o q + cntItems (items y) o q) ∧ P (f y H log).1 ∧ Q y)
    (ys : List W) (H : Hooks) (log : List Item) (hg : ∀ y ∈ ys, good y) (hP : P H)
    (hok : (foldW f ys H log).2.2 = none) :
    (∀ o q, cnt (foldW f ys H log).1 o q = cnt H o q + cntItems (ys.flatMap items) o q) ∧
      P (foldW f ys H log).1 ∧ ∀ y ∈ ys, Q y := by
  induction ys generalizing H log with
  | nil => exact ⟨by simp [foldW, cntItems_nil], hP, by simp⟩
  | cons y ys ih =>
    simp only [foldW] at hok ⊢
    cases he : (f y H log).2.2 with
    | some e => simp [he] at hok
    | none =>
      simp only [he] at hok ⊢
      obtain ⟨hc, hP', hQ⟩ := hf y H log (hg y (List.mem_cons_self ..)) hP he
      obtain ⟨hc2, hP2, hQ2⟩ := ih _ _ (fun y' hy' => hg y' (List.mem_cons_of_mem _ hy')) hP' hok
      refine ⟨?_, hP2, ?_⟩
      · intro o q
        rw [hc2, hc, List.flatMap_cons, cntItems_append]; omega
      · intro y' hy'
        cases hy' with
        | head => exact hQ
        | tail _ hm => exact hQ2 y' hm

/-! ### whatever a walk has done is in its undo log -/

/-- `r` is reached from `(H, log)` by acting on the items `new` (all recorded, most
recent first): every count moved by exactly them. -/
def Did (rm : Bool) (H : Hooks) (log : List Item) (r : Tr) : Prop :=
  ∃ new, r.2.1 = new ++ log ∧
    (∀ o q, (rm = true → cnt r.1 o q + cntItems new o q = cnt H o q) ∧
            (rm = false → cnt r.1 o q = cnt H o q + cntItems new o q)) ∧ WF r.1

theorem Did.refl (rm : Bool) (H : Hooks) (log : List Item) (e : Option Exc) (hw : WF H) : Did rm H log (H, log, e) :=
  ⟨[], rfl, fun o q => ⟨fun _ => by simp [cntItems_nil], fun _ => by simp [cntItems_nil]⟩, hw⟩

theorem Did.wf {rm : Bool} {H : Hooks} {log : List Item} {r : Tr} (h : Did rm H log r) : WF r.1 := by
  obtain ⟨_, _, _, w⟩ := h; exact w

theorem Did.trans {rm : Bool} {H : Hooks} {log : List Item} {r1 r2 : Tr} (h1 : Did rm H log r1)
    (h2 : Did rm r1.1 r1.2.1 r2) : Did rm H log r2 := by
  obtain ⟨n1, e1, c1, _⟩ := h1
  obtain ⟨n2, e2, c2, w2⟩ := h2
  refine ⟨n2 ++ n1, by rw [e2, e1, List.append_assoc], ?_, w2⟩
  intro o q
  have a := c1 o q
  have b := c2 o q
  refine ⟨fun hr => ?_, fun hr => ?_⟩
  · have := a.1 hr; have := b.1 hr; rw [cntItems_append]; omega
  · have := a.2 hr; have := b.2 hr; rw [cntItems_append]; omega

theorem applyOwn_did (rm : Bool) (its : List Item) (H : Hooks) (done : List Item) (hw : WF H) :
    Did rm H done (applyOwn rm its H done) := by
  induction its generalizing H done with
  | nil => exact Did.refl rm H done none hw
  | cons it its ih =>
    cases rm with
    | true =>
      simp only [applyOwn, if_true]
      cases hr : removeItem it H with
      | error e => exact Did.refl true H done (some e) hw
      | ok H' =>
        have hc := cnt_removeItem hr
        have step : Did true H done (H', it :: done, none) :=
          ⟨[it], rfl, fun o q => ⟨fun _ => (by have := hc o q; rw [cntItems_cons, cntItems_nil]; omega),
            fun h => (by cases h)⟩, WF_removeItem hw hr⟩
        exact Did.trans step (ih H' (it :: done) (WF_removeItem hw hr))
    | false =>
      simp only [applyOwn, Bool.false_eq_true, if_false]
      have step : Did false H done (addItem it H, it :: done, none) :=
        ⟨[it], rfl, fun o q => ⟨fun h => (by cases h),
          fun _ => (by rw [cnt_addItem, cntItems_cons, cntItems_nil]; omega)⟩, WF_addItem it H hw⟩
      exact Did.trans step (ih _ _ (WF_addItem it H hw))

theorem notifStep_did (h : Heap) (k : HKey) (rm : Bool) (ob : Observer) (x : W) (H : Hooks) (done : List Item)
    (hw : WF H) : Did rm H done (notifStep h k rm ob x H done) := by
  unfold notifStep
  split
  · split
    · exact Did.refl rm H done _ hw
    · exact applyOwn_did rm _ H done hw
  · exact Did.refl rm H done _ hw

theorem maintStep_did (h : Heap) (k : HKey) (rm : Bool) (ob : Observer) (cs : List Graph) (x : W) (H : Hooks)
    (done : List Item) (hw : WF H) : Did rm H done (maintStep h k rm ob cs x H done) := by
  unfold maintStep
  split
  · exact Did.refl rm H done _ hw
  · exact applyOwn_did rm _ H done hw

theorem extraStepW_did (h : Heap) (k : HKey) (rm : Bool) (g : Graph) (x : W) (H : Hooks) (log : List Item)
    (hw : WF H) : Did rm H log (extraStepW h k rm g x H log) := by
  unfold extraStepW
  split
  · exact Did.refl rm H log _ hw
  · exact applyOwn_did rm _ H log hw

theorem foldW_did (rm : Bool) (f : W → Hooks → List Item → Tr)
    (hf : ∀ y H log, WF H → Did rm H log (f y H log)) (ys : List W) (H : Hooks) (log : List Item) (hw : WF H) :
    Did rm H log (foldW f ys H log) := by
  induction ys generalizing H log with
  | nil => exact Did.refl rm H log none hw
  | cons y ys ih =>
    simp only [foldW]
    have h1 := hf y H log hw
    split
    · exact h1
    · exact Did.trans h1 (ih _ _ h1.wf)

theorem walk_rm_unfold (h : Heap) (k : HKey) (extra : Bool) (ob : Observer) (cs : List Graph) (x : W) (H : Hooks)
    (log : List Item) :
    walk h k true extra (.node ob cs) x H log =
      (let r1 : Tr := if extra then extraStepW h k true (.node ob cs) x H log else (H, log, none)
       match r1.2.2 with
       | some _ => r1
       | none =>
         let r2 := walkCs h k true ob x cs r1.1 r1.2.1
         match r2.2.2 with
         | some _ => r2
         | none =>
           let s3 := maintStep h k true ob cs x r2.1 r2.2.1
           match s3.2.2 with
           | some _ => s3
           | none => notifStep h k true ob x s3.1 s3.2.1) := by
  rw [walk]; rfl

theorem walk_add_unfold (h : Heap) (k : HKey) (extra : Bool) (ob : Observer) (cs : List Graph) (x : W) (H : Hooks)
    (log : List Item) :
    walk h k false extra (.node ob cs) x H log =
      (let s1 := notifStep h k false ob x H log
       match s1.2.2 with
       | some _ => s1
       | none =>
         let s2 := maintStep h k false ob cs x s1.1 s1.2.1
         match s2.2.2 with
         | some _ => s2
         | none =>
           let r3 := walkCs h k false ob x cs s2.1 s2.2.1
           match r3.2.2 with
           | some _ => r3
           | none => if extra then extraStepW h k false (.node ob cs) x r3.1 r3.2.1 else r3) := by
  rw [walk]; rfl

theorem walk_did (h : Heap) (k : HKey) : ∀ g : Graph, ∀ (rm extra : Bool) (x : W) (H : Hooks) (log : List Item),
    WF H → Did rm H log (walk h k rm extra g x H log) := by
  apply Graph.ind (P := fun g => ∀ (rm extra : Bool) (x : W) (H : Hooks) (log : List Item),
    WF H → Did rm H log (walk h k rm extra g x H log))
  intro ob cs ih rm extra x H log hw
  have hCs : ∀ (rm : Bool) (cs' : List Graph), (∀ c ∈ cs', c ∈ cs) → ∀ H log, WF H →
      Did rm H log (walkCs h k rm ob x cs' H log) := by
    intro rm cs'
    induction cs' with
    | nil => intro _ H log hw; exact Did.refl rm H log none hw
    | cons c cs' ihc =>
      intro hsub H log hw
      simp only [walkCs]
      split
      · exact Did.refl rm H log _ hw
      · rename_i ys _
        have h1 : Did rm H log (foldW (walk h k rm true c) ys H log) :=
          foldW_did rm _ (fun y H' log' hw' => ih c (hsub c (List.mem_cons_self ..)) rm true y H' log' hw') ys H log hw
        split
        · exact h1
        · exact Did.trans h1 (ihc (fun c' hc' => hsub c' (List.mem_cons_of_mem _ hc')) _ _ h1.wf)
  cases rm with
  | true =>
    rw [walk_rm_unfold]
    have r1 : Did true H log (if extra then extraStepW h k true (.node ob cs) x H log else (H, log, none) : Tr) := by
      split
      · exact extraStepW_did h k true _ x H log hw
      · exact Did.refl true H log none hw
    simp only []
    split
    · exact r1
    · have r2 := Did.trans r1 (hCs true cs (fun c hc => hc) _ _ r1.wf)
      split
      · exact r2
      · have r3 := Did.trans r2 (maintStep_did h k true ob cs x _ _ r2.wf)
        split
        · exact r3
        · exact Did.trans r3 (notifStep_did h k true ob x _ _ r3.wf)
  | false =>
    rw [walk_add_unfold]
    have s1 := notifStep_did h k false ob x H log hw
    simp only []
    split
    · exact s1
    · have s2 := Did.trans s1 (maintStep_did h k false ob cs x _ _ s1.wf)
      split
      · exact s2
      · have r3 := Did.trans s2 (hCs false cs (fun c hc => hc) _ _ s2.wf)
        split
        · exact r3
        · split
          · exact Did.trans r3 (extraStepW_did h k false _ x _ _ r3.wf)
          · exact r3

theorem applyObserversW_did (h : Heap) (k : HKey) (rm : Bool) (x : W) (gs : List Graph) (H : Hooks)
    (log : List Item) (hw : WF H) : Did rm H log (applyObserversW h k rm x gs H log) := by
  induction gs generalizing H log with
  | nil => exact Did.refl rm H log none hw
  | cons g gs ih =>
    simp only [applyObserversW]
    have h1 := walk_did h k g rm true x H log hw
    split
    · exact h1
    · exact Did.trans h1 (ih _ _ h1.wf)

/-- The owner's roll-back restores every count. -/
theorem finish_atomic (rm : Bool) (H : Hooks) (r : Tr) (hd : Did rm H [] r) (he : r.2.2 ≠ none) :
    (∀ o q, cnt (finish rm r).H o q = cnt H o q) ∧ WF (finish rm r).H := by
  obtain ⟨new, hlog, hc, hw⟩ := hd
  rw [List.append_nil] at hlog
  unfold finish
  cases hr : r.2.2 with
  | none => exact absurd hr he
  | some e =>
    simp only [hlog]
    cases rm with
    | true =>
      obtain ⟨a, b⟩ := undo_rm new r.1
      exact ⟨fun o q => by rw [a]; exact (hc o q).1 rfl, b hw⟩
    | false =>
      have hle : ∀ o q, cntItems new o q ≤ cnt r.1 o q := fun o q => by rw [(hc o q).2 rfl]; omega
      obtain ⟨a, b⟩ := undo_add new r.1 hw hle
      exact ⟨fun o q => by have := a o q; have := (hc o q).2 rfl; omega, b⟩

/-! ### L1: a registration that does not raise adds exactly `hookList` -/

/-- What L1 states about one walk. -/
def AddSpec (h : Heap) (k : HKey) (g : Graph) : Prop :=
  ∀ (extra : Bool) (x : W) (H : Hooks) (log : List Item), (walk h k false extra g x H log).2.2 = none →
    walkOk h extra g x = true ∧
    (∀ o q, cnt (walk h k false extra g x H log).1 o q = cnt H o q + cntItems (hookList h k extra g x) o q) ∧
    (WF H → WF (walk h k false extra g x H log).1)

theorem walkCs_add (h : Heap) (k : HKey) (ob : Observer) (x : W) (cs : List Graph)
    (ih : ∀ c ∈ cs, AddSpec h k c) (H : Hooks) (log : List Item)
    (hok : (walkCs h k false ob x cs H log).2.2 = none) :
    walkOkCs h ob x cs = true ∧
    (∀ o q, cnt (walkCs h k false ob x cs H log).1 o q = cnt H o q + cntItems (hookListCs h k ob x cs) o q) ∧
    (WF H → WF (walkCs h k false ob x cs H log).1) := by
  induction cs generalizing H log with
  | nil => exact ⟨rfl, by simp [walkCs, hookListCs, cntItems_nil], by simp [walkCs]⟩
  | cons c cs ihcs =>
    simp only [walkCs] at hok ⊢
    cases hobj : objects h ob x with
    | error e => simp [hobj] at hok
    | ok ys =>
      simp only [hobj] at hok ⊢
      cases hr : (foldW (walk h k false true c) ys H log).2.2 with
      | some e => simp [hr] at hok
      | none =>
        simp only [hr] at hok ⊢
        have hc := ih c (List.mem_cons_self ..)
        obtain ⟨h1, h2, h3⟩ := foldW_spec (walk h k false true c) (fun y => hookList h k true c y)
          (fun H' => WF H → WF H') (fun _ => True) (fun y => walkOk h true c y = true)
          (fun y H' log' _ hP he => by
            obtain ⟨a, b, d⟩ := hc true y H' log' he
            exact ⟨b, fun hw => d (hP hw), a⟩)
          ys H log (fun _ _ => trivial) id hr
        obtain ⟨g1, g2, g3⟩ := ihcs (fun c' hc' => ih c' (List.mem_cons_of_mem _ hc')) _ _ hok
        refine ⟨?_, ?_, fun hw => g3 (h2 hw)⟩
        · simp only [walkOkCs, hobj, g1, Bool.and_true, List.all_eq_true]
          exact h3
        · intro o q
          rw [g2, h1, hookListCs_cons, cntItems_append, hobj]; simp only [okOr]; omega

theorem extraStepW_add (h : Heap) (k : HKey) (g : Graph) (x : W) (H : Hooks) (log : List Item)
    (hok : (extraStepW h k false g x H log).2.2 = none) :
    isOk (extraObservables h g.ob x) = true ∧
    (∀ o q, cnt (extraStepW h k false g x H log).1 o q =
      cnt H o q + cntItems (extraItems g k (okOr [] (extraObservables h g.ob x))) o q) ∧
    (WF H → WF (extraStepW h k false g x H log).1) := by
  unfold extraStepW at hok ⊢
  cases he : extraObservables h g.ob x with
  | error e => simp [he] at hok
  | ok os =>
    simp only [he] at hok ⊢
    obtain ⟨H', ha, hc, hw⟩ := applyOwn_add (os.map (fun o => (o, NKey.maint .added g k))) H log
    simp only [ha]
    exact ⟨rfl, by simpa [okOr, extraItems] using hc, hw⟩

theorem walk_add (h : Heap) (k : HKey) : ∀ g : Graph, AddSpec h k g := by
  apply Graph.ind
  intro ob cs ih extra x H log hok
  rw [walk_add_unfold] at hok ⊢
  cases hobs : observables h ob x with
  | error e =>
    exfalso
    simp only [notifStep, maintStep, hobs] at hok
    by_cases hn : ob.notify = true <;> simp [hn] at hok
  | ok os =>
    obtain ⟨H1, d1, hs1, hc1, hw1⟩ : ∃ H1 d1, notifStep h k false ob x H log = (H1, d1, none) ∧
        (∀ o q, cnt H1 o q = cnt H o q + cntItems (if ob.notify then userItems k os else []) o q) ∧
        (WF H → WF H1) := by
      unfold notifStep
      by_cases hn : ob.notify = true
      · obtain ⟨H1, ha, hc, hw⟩ := applyOwn_add (userItems k os) H log
        exact ⟨H1, _, by simp [hn, hobs]; exact ha, by simpa [hn] using hc, hw⟩
      · exact ⟨H, log, by simp [hn], by simp [hn, cntItems_nil], id⟩
    simp only [hs1] at hok ⊢
    obtain ⟨H2, ha2, hc2, hw2⟩ := applyOwn_add (maintItems ob cs k os) H1 d1
    have hs2 : maintStep h k false ob cs x H1 d1 = (H2, (maintItems ob cs k os).reverse ++ d1, none) := by
      simp [maintStep, hobs]; exact ha2
    simp only [hs2] at hok ⊢
    cases hr3 : (walkCs h k false ob x cs H2 ((maintItems ob cs k os).reverse ++ d1)).2.2 with
    | some e => simp [hr3] at hok
    | none =>
      simp only [hr3] at hok ⊢
      obtain ⟨w3, c3, wf3⟩ := walkCs_add h k ob x cs ih H2 _ hr3
      cases extra with
      | false =>
        simp only [Bool.false_eq_true, if_false] at hok ⊢
        refine ⟨by simp [walkOk, hobs, isOk, w3], ?_, fun hw => wf3 (hw2 (hw1 hw))⟩
        intro o q
        rw [c3, hc2, hc1, hookList_node, ownItems_eq h k ob cs x os hobs]
        simp [cntItems_append, cntItems_nil]; omega
      | true =>
        simp only [if_true] at hok ⊢
        obtain ⟨w4, c4, wf4⟩ := extraStepW_add h k (.node ob cs) x _ _ hok
        refine ⟨by simpa [walkOk, hobs, isOk, w3, Graph.ob] using w4, ?_, fun hw => wf4 (wf3 (hw2 (hw1 hw)))⟩
        intro o q
        rw [c4, c3, hc2, hc1, hookList_node, ownItems_eq h k ob cs x os hobs]
        simp [cntItems_append, Graph.ob]; omega

/-- L1 for an outermost call. -/
theorem addRemove_add (h : Heap) (k : HKey) (g : Graph) (extra : Bool) (x : W) (H : Hooks)
    (hok : (addRemove h k false extra g x H).err = none) :
    walkOk h extra g x = true ∧
    (∀ o q, cnt (addRemove h k false extra g x H).H o q = cnt H o q + cntItems (hookList h k extra g x) o q) ∧
    (WF H → WF (addRemove h k false extra g x H).H) := by
  unfold addRemove at hok ⊢
  rw [finish_err] at hok
  rw [finish_ok _ _ hok]
  exact walk_add h k g extra x H [] hok

end TraitsVerif.Model.Obs
