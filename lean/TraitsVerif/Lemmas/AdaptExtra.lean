/-
Further consequences of the `_adapt` model: soundness without any hypothesis on the
factories, where exceptions come from, the first iteration (one-step adaptation),
uniqueness of the queue counters along a run, and what `register_offer` builds.
-/
import TraitsVerif.Lemmas.AdaptLoop
namespace TraitsVerif.Lemmas.Adapt
open TraitsVerif TraitsVerif.Model.Adapt
variable {α : Type}

/-! ## Soundness needs no assumption on the factories -/

theorem adaptLoop_sound {cfg : Cfg} {src target : Nat} {f : Factory α} {adaptee : α} :
    ∀ (fuel : Nat) (st : St), (∀ e ∈ st.queue, WF cfg src target e) →
    ∀ path a tr, adaptLoop cfg f adaptee target fuel st = (.found path a, tr) →
      Cand cfg src target path ∧ ∃ tr', (walk f path adaptee tr').1 = .done a
  | 0, st, _, path, a, tr, h => by simp [adaptLoop] at h
  | fuel + 1, st, hwf, path, a, tr, h => by
    cases hq : st.queue with
    | nil => simp [adaptLoop, hq] at h
    | cons w rest =>
      rw [hq] at hwf
      have hw : WF cfg src target w := hwf w List.mem_cons_self
      have hmem : ∀ x, x ∈ pySort (edgeLt cfg) (applicable cfg w.cur w.path) ↔
          x ∈ kids cfg src w.path := by
        intro x; rw [mem_pySort, hw.cur]; rfl
      rcases hpe : processEdges cfg f adaptee target w
        (pySort (edgeLt cfg) (applicable cfg w.cur w.path)) { st with queue := rest } with ⟨r, st'⟩
      cases r with
      | some r =>
        have hunf : adaptLoop cfg f adaptee target (fuel + 1) st = (r, st'.trace) := by
          simp only [adaptLoop, hq, hpe]
        rw [hunf] at h
        simp only [Prod.mk.injEq] at h
        obtain ⟨hr, _⟩ := h
        subst hr
        obtain ⟨l1, d, o, l2, hes, hp, harr, hwalk, _⟩ :=
          processEdges_found cfg f adaptee target w _ _ _ _ _ hpe
        have hk : (d, o) ∈ kids cfg src w.path := (hmem _).1 (by rw [hes]; simp)
        exact ⟨⟨w.path, d, o, hp, hw.reach, hk, harr⟩, hwalk⟩
      | none =>
        have hunf : adaptLoop cfg f adaptee target (fuel + 1) st =
            adaptLoop cfg f adaptee target fuel st' := by
          simp only [adaptLoop, hq, hpe]
        rw [hunf] at h
        refine adaptLoop_sound fuel st' ?_ path a tr h
        intro e he
        obtain ⟨_, h2, _, _, _⟩ := processEdges_none cfg f adaptee target w _ _ _ hpe
        rcases h2 e he with h | ⟨d, o, hm, hna, hp, hc, hn⟩
        · exact hwf e (List.mem_cons_of_mem _ h)
        · refine ⟨?_, ?_, ?_⟩
          · rw [hp]; exact Reach.snoc hw.reach ((hmem _).1 hm) hna
          · rw [hp, hc, endOf_concat]
          · rw [hp, hn, hw.nAd]; simp

/-! ## Exceptions come from factories only -/

theorem walk_raised {f : Factory α} : ∀ (os : List Offer) (a : α) (tr : List CallRec) (e : Exc),
    (walk f os a tr).1 = .raised e → ∃ k o a', f k o a' = .raise e
  | [], a, tr, e, h => by simp [walk] at h
  | o :: os, a, tr, e, h => by
    simp only [walk] at h
    cases hf : f tr.length o a with
    | adapter a' => rw [hf] at h; exact walk_raised os a' _ e h
    | none => rw [hf] at h; simp at h
    | raise e' =>
      rw [hf] at h
      simp only [WalkRes.raised.injEq] at h
      subst h
      exact ⟨_, _, _, hf⟩

theorem processEdges_raised (cfg : Cfg) (f : Factory α) (adaptee : α) (target : Nat) (w : Entry) :
    ∀ (es : List Edge) (st st' : St) (e : Exc),
    processEdges cfg f adaptee target w es st = (some (.raised e), st') →
    ∃ k o a', f k o a' = .raise e
  | [], st, st', e, h => by simp [processEdges] at h
  | (d, o) :: es, st, st', e, h => by
    simp only [processEdges] at h
    by_cases harr : cfg.provides o.to target = true
    · simp only [harr, if_true] at h
      rcases hw : walk f (w.path ++ [o]) adaptee st.trace with ⟨res, tr⟩
      rw [hw] at h
      cases res with
      | done a' => simp at h
      | raised e' =>
        simp only [Prod.mk.injEq, Option.some.injEq, Res.raised.injEq] at h
        obtain ⟨rfl, _⟩ := h
        exact walk_raised _ _ _ _ (by rw [hw])
      | failed => exact processEdges_raised cfg f adaptee target w es _ _ _ h
    · simp only [harr, Bool.false_eq_true, if_false] at h
      exact processEdges_raised cfg f adaptee target w es _ _ _ h

theorem adaptLoop_raised (cfg : Cfg) (f : Factory α) (adaptee : α) (target : Nat) :
    ∀ (fuel : Nat) (st : St) (e : Exc), (adaptLoop cfg f adaptee target fuel st).1 = .raised e →
      ∃ k o a', f k o a' = .raise e
  | 0, st, e, h => by simp [adaptLoop] at h
  | fuel + 1, st, e, h => by
    cases hq : st.queue with
    | nil => simp [adaptLoop, hq] at h
    | cons w rest =>
      rcases hpe : processEdges cfg f adaptee target w
        (pySort (edgeLt cfg) (applicable cfg w.cur w.path)) { st with queue := rest } with ⟨r, st'⟩
      cases r with
      | some r =>
        have hunf : adaptLoop cfg f adaptee target (fuel + 1) st = (r, st'.trace) := by
          simp only [adaptLoop, hq, hpe]
        rw [hunf] at h
        simp only at h
        subst h
        exact processEdges_raised cfg f adaptee target w _ _ _ _ hpe
      | none =>
        have hunf : adaptLoop cfg f adaptee target (fuel + 1) st =
            adaptLoop cfg f adaptee target fuel st' := by
          simp only [adaptLoop, hq, hpe]
        rw [hunf] at h
        exact adaptLoop_raised cfg f adaptee target fuel st' e h

/-! ## The first iteration: one-step adaptation -/

/-- `_adapt` returned a one-offer chain: it was found while expanding the source
type itself, as the first arriving edge — in `list.sort` order — whose factory
succeeded. -/
theorem found_one_step {cfg : Cfg} {src target : Nat} {f : Factory α} {adaptee : α}
    (hdet : Deterministic f) {o : Offer} {a : α} {tr : List CallRec}
    (h : adaptInner cfg f src adaptee target = (.found [o] a, tr)) :
    ∃ l1 d l2, pySort (edgeLt cfg) (applicable cfg src []) = l1 ++ (d, o) :: l2 ∧
      cfg.provides o.to target = true ∧
      ∀ d1 o1, (d1, o1) ∈ l1 → cfg.provides o1.to target = true → Fails f adaptee [o1] := by
  unfold adaptInner fuelFor at h
  rcases hpe : processEdges cfg f adaptee target ⟨0, 0, 0, [], src⟩
    (pySort (edgeLt cfg) (applicable cfg src [])) { initSt src with queue := [] } with ⟨r, st'⟩
  cases r with
  | some r =>
    have hunf : adaptLoop cfg f adaptee target (simplePaths (nOffers cfg) + 1) (initSt src) =
        (r, st'.trace) := by
      simp only [adaptLoop, initSt] at hpe ⊢
      simp only [hpe]
    rw [hunf] at h
    simp only [Prod.mk.injEq] at h
    obtain ⟨hr, _⟩ := h
    subst hr
    obtain ⟨l1, d, o', l2, hes, hp, harr, _, hfail⟩ :=
      processEdges_found cfg f adaptee target _ _ _ _ _ _ hpe
    simp only [List.nil_append, List.cons.injEq, and_true] at hp
    subst hp
    refine ⟨l1, d, l2, hes, harr, ?_⟩
    intro d1 o1 hm ha
    obtain ⟨tr', htr⟩ := hfail d1 o1 hm ha
    exact walk_failed_fails hdet htr
  | none =>
    exfalso
    have hunf : adaptLoop cfg f adaptee target (simplePaths (nOffers cfg) + 1) (initSt src) =
        adaptLoop cfg f adaptee target (simplePaths (nOffers cfg)) st' := by
      simp only [adaptLoop, initSt] at hpe ⊢
      simp only [hpe]
    rw [hunf] at h
    have hinv := Inv.step hdet (Inv.init cfg src target f adaptee) (st := { initSt src with queue := [] })
      rfl hpe
    obtain ⟨_, _, _, h4⟩ := (adaptLoop_spec hdet _ st' hinv).2 _ _ _ h
    have := h4 1 (by
      intro e he
      obtain ⟨_, hb, _, _, _⟩ := processEdges_none cfg f adaptee target _ _ _ _ hpe
      rcases hb e he with h | ⟨_, _, _, _, _, _, hn⟩
      · cases h
      · omega)
    simp at this

/-- `o` adapts `src` to `target` in one step, and its factory accepts the adaptee. -/
structure OneStep (cfg : Cfg) (f : Factory α) (src : Nat) (adaptee : α) (target : Nat) (o : Offer) : Prop where
  reg : Registered cfg o
  app : cfg.provides src o.frm = true
  arr : cfg.provides o.to target = true
  ok : ∃ a, f 0 o adaptee = .adapter a

/-- The comparison of `_adapt` is a strict weak order on these edges. -/
def WeakOn (cfg : Cfg) (es : List Edge) : Prop :=
  (∀ a ∈ es, ∀ b ∈ es, ∀ c ∈ es, edgeLt cfg a b = true → edgeLt cfg a c = true ∨ edgeLt cfg c b = true) ∧
  (∀ a ∈ es, ∀ b ∈ es, edgeLt cfg a b = true → edgeLt cfg b a = false)

/-- Among one-step successes the chosen offer is not after any other in any order the
sort respects. -/
theorem one_step_order {cfg : Cfg} {src target : Nat} {f : Factory α} {adaptee : α}
    {S : Edge → Edge → Prop} {P : Edge → Prop} (H : Compat (edgeLt cfg) S P)
    (hP : ∀ x ∈ applicable cfg src [], P x)
    (hdet : Deterministic f) (hh : Homogeneous cfg) {o : Offer} {a : α} {tr : List CallRec}
    (h : adaptInner cfg f src adaptee target = (.found [o] a, tr))
    {o' : Offer} (h' : OneStep cfg f src adaptee target o') :
    ∃ d d', dist cfg src o.frm = some d ∧ dist cfg src o'.frm = some d' ∧
      ((d', o') = (d, o) ∨ ¬ S (d', o') (d, o)) := by
  obtain ⟨l1, d, l2, hes, _, hfail⟩ := found_one_step hdet h
  have hmo : (d, o) ∈ applicable cfg src [] := mem_pySort.1 (by rw [hes]; simp)
  obtain ⟨d', hmo'⟩ := applicable_of hh (cur := src) (path := []) h'.reg h'.app (by simp)
  obtain ⟨_, _, _, hd⟩ := applicable_facts hh hmo
  obtain ⟨_, _, _, hd'⟩ := applicable_facts hh hmo'
  refine ⟨d, d', hd, hd', ?_⟩
  have hsorted := pySort_sorted H (applicable cfg src []) hP
  rw [hes] at hsorted
  have hin : (d', o') ∈ l1 ++ (d, o) :: l2 := by rw [← hes]; exact mem_pySort.2 hmo'
  rcases List.mem_append.1 hin with hin | hin
  · exfalso
    obtain ⟨a', ha'⟩ := h'.ok
    exact hfail d' o' hin h'.arr ⟨a', a', ha', rfl⟩
  · rcases List.mem_cons.1 hin with heq | hin
    · exact Or.inl heq
    · right
      unfold SortedS at hsorted
      rw [List.pairwise_append] at hsorted
      exact (List.pairwise_cons.1 hsorted.2.1).1 _ hin

/-! ## Counters are unique along a run (the hypothesis of `heap_is_sorted_list`) -/

def CntInv (st : St) : Prop :=
  (∀ e ∈ st.queue, e.cnt < st.counter) ∧ st.queue.Pairwise (fun a b => a.cnt ≠ b.cnt)

theorem processEdges_cnt (cfg : Cfg) (f : Factory α) (adaptee : α) (target : Nat) (w : Entry) :
    ∀ (es : List Edge) (st st' : St) (r : Option (Res α)),
    processEdges cfg f adaptee target w es st = (r, st') → CntInv st → CntInv st'
  | [], st, st', r, h, hc => by
    simp only [processEdges, Prod.mk.injEq] at h
    rw [← h.2]; exact hc
  | (d, o) :: es, st, st', r, h, hc => by
    simp only [processEdges] at h
    by_cases harr : cfg.provides o.to target = true
    · simp only [harr, if_true] at h
      rcases hw : walk f (w.path ++ [o]) adaptee st.trace with ⟨res, tr⟩
      rw [hw] at h
      cases res with
      | done a' => simp only [Prod.mk.injEq] at h; rw [← h.2]; exact hc
      | raised e => simp only [Prod.mk.injEq] at h; rw [← h.2]; exact hc
      | failed => exact processEdges_cnt cfg f adaptee target w es _ _ _ h hc
    · simp only [harr, Bool.false_eq_true, if_false] at h
      refine processEdges_cnt cfg f adaptee target w es _ _ _ h ?_
      obtain ⟨h1, h2⟩ := hc
      refine ⟨?_, ?_⟩
      · intro e he
        rcases mem_qInsert.1 he with rfl | he
        · exact Nat.lt_succ_self _
        · exact Nat.lt_succ_of_lt (h1 e he)
      · refine ((qInsert_perm _ _).pairwise_iff (fun {x y} hxy => Ne.symm hxy)).2 ?_
        refine List.pairwise_cons.2 ⟨?_, h2⟩
        intro e he
        have := h1 e he
        exact Nat.ne_of_gt this

/-- The states the `while` loop goes through. -/
inductive Run (cfg : Cfg) (f : Factory α) (adaptee : α) (target src : Nat) : St → Prop
  | init : Run cfg f adaptee target src (initSt src)
  | step {st st' : St} {w : Entry} {rest : List Entry} : Run cfg f adaptee target src st →
      st.queue = w :: rest →
      processEdges cfg f adaptee target w (pySort (edgeLt cfg) (applicable cfg w.cur w.path))
        { st with queue := rest } = (none, st') →
      Run cfg f adaptee target src st'

theorem Run.cntInv {cfg : Cfg} {f : Factory α} {adaptee : α} {target src : Nat} {st : St}
    (h : Run cfg f adaptee target src st) : CntInv st := by
  induction h with
  | init => simp [CntInv, initSt]
  | @step st st' w rest _ hq hpe ih =>
    refine processEdges_cnt cfg f adaptee target w _ _ _ _ hpe ?_
    obtain ⟨h1, h2⟩ := ih
    rw [hq] at h1 h2
    exact ⟨fun e he => h1 e (List.mem_cons_of_mem _ he), (List.pairwise_cons.1 h2).2⟩

theorem Run.sorted {cfg : Cfg} {f : Factory α} {adaptee : α} {target src : Nat} {st : St}
    (h : Run cfg f adaptee target src st) : QSorted st.queue := by
  induction h with
  | init => simp [QSorted, initSt]
  | @step st st' w rest _ hq hpe ih =>
    obtain ⟨_, _, _, _, h5⟩ := processEdges_none cfg f adaptee target w _ _ _ hpe
    rw [hq] at ih
    exact h5 (List.pairwise_cons.1 ih).2

/-! ## `register_offer` -/

theorem registerOffer_inv (S : Offer → Prop) (reg : List (Nat × List Offer)) (o : Offer)
    (h : ∀ kv ∈ reg, ∀ x ∈ kv.2, x.key = kv.1 ∧ S x) (ho : S o) :
    ∀ kv ∈ registerOffer reg o, ∀ x ∈ kv.2, x.key = kv.1 ∧ S x := by
  intro kv hkv x hx
  unfold registerOffer at hkv
  split at hkv
  · rw [List.mem_map] at hkv
    obtain ⟨kv0, hkv0, heq⟩ := hkv
    by_cases hk : (kv0.1 == o.key) = true
    · simp only [hk, if_true] at heq
      subst heq
      simp only [List.mem_append, List.mem_singleton] at hx
      rcases hx with hx | rfl
      · exact h kv0 hkv0 x hx
      · exact ⟨(beq_iff_eq.1 hk).symm, ho⟩
    · simp only [hk, Bool.false_eq_true, if_false] at heq
      subst heq
      exact h kv0 hkv0 x hx
  · rw [List.mem_append] at hkv
    rcases hkv with hkv | hkv
    · exact h kv hkv x hx
    · simp only [List.mem_singleton] at hkv
      subst hkv
      simp only [List.mem_singleton] at hx
      subst hx
      exact ⟨rfl, ho⟩

theorem foldl_registerOffer_inv (S : Offer → Prop) : ∀ (os : List Offer) (reg : List (Nat × List Offer)),
    (∀ kv ∈ reg, ∀ x ∈ kv.2, x.key = kv.1 ∧ S x) → (∀ o ∈ os, S o) →
    ∀ kv ∈ os.foldl registerOffer reg, ∀ x ∈ kv.2, x.key = kv.1 ∧ S x
  | [], _, h, _ => h
  | o :: os, reg, h, hs => by
    simp only [List.foldl_cons]
    exact foldl_registerOffer_inv S os _
      (registerOffer_inv S reg o h (hs o List.mem_cons_self))
      (fun x hx => hs x (List.mem_cons_of_mem _ hx))

/-- Distinct protocols have distinct names ⇒ the buckets `register_offer` builds are
homogeneous. -/
theorem groupsOf_homogeneous (os : List Offer)
    (hnames : ∀ o ∈ os, ∀ o' ∈ os, o.key = o'.key → o.frm = o'.frm)
    (provides : Nat → Nat → Bool) (supers : Nat → List Nat) :
    Homogeneous ⟨provides, supers, groupsOf os⟩ := by
  intro g hg o0 h0 o ho
  simp only [groupsOf, List.mem_map] at hg
  obtain ⟨kv, hkv, rfl⟩ := hg
  have hinv := foldl_registerOffer_inv (· ∈ os) os [] (by simp) (fun o ho => ho) kv hkv
  have ho0 : o0 ∈ kv.2 := List.mem_of_mem_head? h0
  obtain ⟨k1, m1⟩ := hinv o ho
  obtain ⟨k0, m0⟩ := hinv o0 ho0
  exact hnames o m1 o0 m0 (by rw [k1, k0])

end TraitsVerif.Lemmas.Adapt
