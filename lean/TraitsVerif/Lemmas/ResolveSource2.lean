/-
`…_src` lemmas for the lookup functions (continues Lemmas/ResolveSource.lean):
`get_trait`, `__prefix_trait__`, `get_prefix_trait`, `has_traits_setattro`,
`has_traits_getattro`, `add_trait`, `remove_trait`, `trait`, `base_trait`.
-/
import TraitsVerif.Lemmas.ResolveSource
namespace TraitsVerif.Model.ResL
open TraitsVerif TraitsVerif.Model.Resolve TraitsVerif.Generated

/-- What `get_trait(obj, name, 0)` returns. -/
def trait0V (st : St) (k : Name) : V :=
  match st.o.itraits.get k with
  | some t => .trait t
  | none => match st.c.ctraits.get k with
    | some t => .trait t
    | none => .none

set_option maxHeartbeats 2000000 in
theorem get_trait0_src (E : Env) (st : St) (k : Name) (hI : st.nullI = true → st.o.itraits = []) :
    user4 E .get_trait [.obj, .name k, .int 0] st = (st, trait0V st k) ∧
    user4 E .m_trait [.obj, .name k, .int 0] st = (st, trait0V st k) := by
  obtain ⟨w, oi, o, c, nI, nO, fr, er, env⟩ := st
  cases hn : nI with
  | true =>
    have hi : o.itraits = [] := hI hn
    have hg : o.itraits.get k = none := by rw [hi]; rfl
    cases hc : c.ctraits.get k <;>
      (constructor <;> resl_eval [user4, user3, user2, user1, user0, ResolveC.get_trait, hn, hc]) <;> simp [trait0V, hg, hc]
  | false =>
    cases hg : o.itraits.get k with
    | some t => constructor <;> resl_eval [user4, user3, user2, user1, user0, ResolveC.get_trait, hn, hg] <;> simp [trait0V, hg]
    | none =>
      cases hc : c.ctraits.get k <;>
        (constructor <;> resl_eval [user4, user3, user2, user1, user0, ResolveC.get_trait, hn, hg, hc]) <;> simp [trait0V, hg, hc]

/-! ### `__prefix_trait__` -/

theorem sliceTo_nat (n : Name) (k : Nat) : sliceTo n (k : Int) = n.take k := by
  simp [sliceTo]

theorem sliceTo_two (n : Name) : sliceTo n 2 = n.take 2 := sliceTo_nat n 2

theorem sliceTo_neg_one (n : Name) : sliceTo n (-1) = stem n := by
  simp [sliceTo, stem]

theorem sliceFrom_neg_one (n : Name) : sliceFrom n (-1) = n.drop (n.length - 1) := by
  simp [sliceFrom]

theorem sliceFrom_neg_two (n : Name) : sliceFrom n (-2) = n.drop (n.length - 2) := by
  simp [sliceFrom]

theorem kindName_delegate (k : Kind) : kindName k = ['d', 'e', 'l', 'e', 'g', 'a', 't', 'e'] ↔ k = .delegate := by
  cases k <;> decide

theorem classDunder_eq : classDunder = ['_', '_', 'c', 'l', 'a', 's', 's', '_', '_'] := by decide

/-- The body of the `for prefix in prefix_traits["*"]` loop of `__prefix_trait__`
as the translator emits it (a copy: if the source changes, the rewrite with
`prefix_loop` below no longer applies and the equality proof breaks). -/
def prefixLoopBody : List Stmt :=
  [(.ite (.call .eq [(.var .l2), (.call .slice_to [(.var .p1), (.call .len [(.var .l2)])])]) [(.expr (.asg .l0 (.call .getitem [(.var .l1), (.var .l2)]))), (.ghost 0), (.ghost 1), (.ghost 2), (.ghost 3), (.ghost 4), (.ghost 5), (.ret (.var .l0))] [])]

/-- The state with another frame. -/
def St.withEnv (st : St) (env : List (Var × V)) : St := { st with env := env }

set_option maxHeartbeats 2000000 in
theorem prefix_loop_aux (Γ : Ctx) (name : Name) (all : List (Name × Trait)) (hstar : ∀ e ∈ all, e.1 ≠ ['*']) :
    ∀ (ps pre : List (Name × Trait)) (st : St), st.c.prefixes = all → all = pre ++ ps →
      (∀ e ∈ pre, prefixMatches e.1 name = false) →
      St.get st .p1 = .name name → St.get st .l1 = .dict .P →
      ∃ env', forLoop (fun s => execs Γ true prefixLoopBody s) .l2 (ps.map (·.1)) st =
        (st.withEnv env', match firstMatch ps name with | some e => .ret (.trait e.2) | none => .next) := by
  intro ps
  induction ps with
  | nil => intro pre st _ _ _ _ _; exact ⟨st.env, rfl⟩
  | cons x xs ih =>
    intro pre st hc hall hpre hname hpt
    obtain ⟨w, oi, o, c, nI, nO, fr, er, env⟩ := st
    simp only [St.get] at hname hpt
    simp only at hc
    by_cases hm : prefixMatches x.1 name = true
    · have hx : x.1 = name.take x.1.length := by simpa [prefixMatches] using hm
      have hget : Map.get c.prefixes x.1 = some x.2 := by
        rw [hc, hall]
        clear ih hx hstar hc hall
        induction pre with
        | nil => simp [Map.get]
        | cons p pre ihp =>
          obtain ⟨pk, pv⟩ := p
          have hp := hpre (pk, pv) List.mem_cons_self
          have hne : pk ≠ x.1 := by
            intro h; simp only at hp; rw [h] at hp; rw [hm] at hp; cases hp
          show Map.get ((pk, pv) :: (pre ++ x :: xs)) x.1 = some x.2
          rw [Map.get_cons, if_neg hne]
          exact ihp (fun e he => hpre e (List.mem_cons_of_mem _ he))
      have hns : x.1 ≠ ['*'] := hstar x (by rw [hall]; simp)
      refine ⟨(Var.l0, V.trait x.2) :: (Var.l2, V.name x.1) :: env, ?_⟩
      simp only [List.map_cons, forLoop, prefixLoopBody]
      resl_eval [hname, hpt, sliceTo_nat, V.name.injEq, ← hx, hget, hns]
      simp [firstMatch, List.find?, hm, St.withEnv]
    · have hm' : prefixMatches x.1 name = false := by simpa using hm
      have hx : ¬ (x.1 = name.take x.1.length) := by simpa [prefixMatches] using hm
      obtain ⟨env', h⟩ := ih (pre ++ [x]) (St.mk w oi o c nI nO fr er ((Var.l2, V.name x.1) :: env)) hc
        (by rw [hall]; simp) (by
          intro e he
          rcases List.mem_append.mp he with he | he
          · exact hpre e he
          · simp only [List.mem_singleton] at he; rw [he]; exact hm')
        (by simp [St.get, envGet, hname]) (by simp [St.get, envGet, hpt])
      refine ⟨env', ?_⟩
      simp only [List.map_cons, forLoop, prefixLoopBody]
      resl_eval [hname, hpt, sliceTo_nat, V.name.injEq, hx]
      simp only [prefixLoopBody] at h
      rw [h]
      simp [firstMatch, List.find?, hm', St.withEnv]

theorem isDunder_iff (n : Name) :
    isDunder n = true ↔ n.take 2 = ['_', '_'] ∧ n.drop (n.length - 2) = ['_', '_'] := by
  simp [isDunder]

theorem endsUnderscore_iff (n : Name) : endsUnderscore n = true ↔ n.drop (n.length - 1) = ['_'] := by
  simp [endsUnderscore]

/-- What the call `obj.__prefix_trait__(name, is_set)` returns in the interpreter,
in terms of the model's `prefixTrait`. -/
def prefixTraitV (st : St) (name : Name) (b : Bool) : St × V :=
  match prefixTrait st.c st.o name b with
  | .ok t => (st, .trait t)
  | .error e => ({ st with err := some e }, .null)

def NoStar (c : Cls) : Prop := ∀ e ∈ c.prefixes, e.1 ≠ ['*']

set_option maxHeartbeats 4000000 in
theorem prefix_trait_src (E : Env) (st : St) (name : Name) (b : Bool)
    (hI : st.nullI = true → st.o.itraits = []) (hstar : NoStar st.c) :
    user5 E .m_prefix_trait [.obj, .name name, .int (if b then 1 else 0)] st = prefixTraitV st name b := by
  obtain ⟨w, oi, o, c, nI, nO, fr, er, env⟩ := st
  have h0 : ∀ env' kk, user4 E .m_trait [.obj, .name kk, .int 0] (St.mk w oi o c nI nO fr er env') =
      (St.mk w oi o c nI nO fr er env', trait0V (St.mk w oi o c nI nO fr er env') kk) :=
    fun env' kk => (get_trait0_src E (St.mk w oi o c nI nO fr er env') kk hI).2
  have hloop := fun env' h1 h2 => prefix_loop_aux ⟨E, user4 E⟩ name c.prefixes hstar c.prefixes []
    (St.mk w oi o c nI nO fr er env') rfl rfl (by intro e he; cases he) h1 h2
  by_cases hdu : isDunder name = true
  · obtain ⟨h1, h2⟩ := (isDunder_iff name).mp hdu
    by_cases hcl : name = classDunder
    · subst hcl
      resl_eval [user5, ResolvePy.prefix_trait, sliceTo_two, sliceFrom_neg_two, V.name.injEq, h1, h2]
      simp [prefixTraitV, prefixTrait, classDunder_eq,
        show isDunder ['_', '_', 'c', 'l', 'a', 's', 's', '_', '_'] = true from by decide]
    · have hcl' : ¬ (name = ['_', '_', 'c', 'l', 'a', 's', 's', '_', '_']) := by rw [← classDunder_eq]; exact hcl
      cases b with
      | true =>
        resl_eval [user5, ResolvePy.prefix_trait, sliceTo_two, sliceFrom_neg_two, V.name.injEq, h1, h2, hcl']
        simp [prefixTraitV, prefixTrait, hdu, hcl]
      | false =>
        resl_eval [user5, ResolvePy.prefix_trait, sliceTo_two, sliceFrom_neg_two, V.name.injEq, h1, h2, hcl']
        simp [prefixTraitV, prefixTrait, hdu, hcl]
  · have hdu' : ¬ (name.take 2 = ['_', '_'] ∧ name.drop (name.length - 2) = ['_', '_']) :=
      fun h => hdu ((isDunder_iff name).mpr h)
    have hdf : isDunder name = false := by simpa using hdu
    have hsplit : (name.take 2 = ['_', '_'] ∧ ¬ name.drop (name.length - 2) = ['_', '_']) ∨
        ¬ name.take 2 = ['_', '_'] := by
      by_cases h1 : name.take 2 = ['_', '_']
      · exact Or.inl ⟨h1, fun h => hdu' ⟨h1, h⟩⟩
      · exact Or.inr h1
    cases hf : firstMatch c.prefixes name <;>
    rcases hsplit with ⟨h1, h2⟩ | h1 <;>
    (by_cases heu : endsUnderscore name = true
     · have h3 := (endsUnderscore_iff name).mp heu
       cases hi : o.itraits.get (stem name) with
       | some t =>
         by_cases hk : t.kind = .delegate
         · first
             | resl_eval [user5, ResolvePy.prefix_trait, sliceTo_two, sliceFrom_neg_two, sliceFrom_neg_one, sliceTo_neg_one,
            V.name.injEq, h0, trait0V, kindName_delegate, St.withEnv, h1, h2, h3, hi, hk]
             | resl_eval [user5, ResolvePy.prefix_trait, sliceTo_two, sliceFrom_neg_two, sliceFrom_neg_one, sliceTo_neg_one,
            V.name.injEq, h0, trait0V, kindName_delegate, St.withEnv, h1, h3, hi, hk]
           simp [prefixTraitV, prefixTrait, hdf, heu, trait0, hi, hk]
         · obtain ⟨e1, hl⟩ := hloop ((Var.l1, V.dict .P) :: (Var.l0, V.trait t) :: [(Var.p0, V.obj), (Var.p1, V.name name), (Var.p2, V.int (if b then 1 else 0))]) rfl rfl
           simp only [prefixLoopBody, hf] at hl
           first
             | resl_eval [user5, ResolvePy.prefix_trait, sliceTo_two, sliceFrom_neg_two, sliceFrom_neg_one, sliceTo_neg_one,
            V.name.injEq, h0, trait0V, kindName_delegate, St.withEnv, h1, h2, h3, hi, hk, hl]
             | resl_eval [user5, ResolvePy.prefix_trait, sliceTo_two, sliceFrom_neg_two, sliceFrom_neg_one, sliceTo_neg_one,
            V.name.injEq, h0, trait0V, kindName_delegate, St.withEnv, h1, h3, hi, hk, hl]
           simp [prefixTraitV, prefixTrait, hdf, heu, trait0, hi, hk, hf, St.withEnv]
       | none =>
         cases hc : c.ctraits.get (stem name) with
         | some t =>
           by_cases hk : t.kind = .delegate
           · first
               | resl_eval [user5, ResolvePy.prefix_trait, sliceTo_two, sliceFrom_neg_two, sliceFrom_neg_one, sliceTo_neg_one,
            V.name.injEq, h0, trait0V, kindName_delegate, St.withEnv, h1, h2, h3, hi, hc, hk]
               | resl_eval [user5, ResolvePy.prefix_trait, sliceTo_two, sliceFrom_neg_two, sliceFrom_neg_one, sliceTo_neg_one,
            V.name.injEq, h0, trait0V, kindName_delegate, St.withEnv, h1, h3, hi, hc, hk]
             simp [prefixTraitV, prefixTrait, hdf, heu, trait0, hi, hc, hk]
           · obtain ⟨e1, hl⟩ := hloop ((Var.l1, V.dict .P) :: (Var.l0, V.trait t) :: [(Var.p0, V.obj), (Var.p1, V.name name), (Var.p2, V.int (if b then 1 else 0))]) rfl rfl
             simp only [prefixLoopBody, hf] at hl
             first
               | resl_eval [user5, ResolvePy.prefix_trait, sliceTo_two, sliceFrom_neg_two, sliceFrom_neg_one, sliceTo_neg_one,
            V.name.injEq, h0, trait0V, kindName_delegate, St.withEnv, h1, h2, h3, hi, hc, hk, hl]
               | resl_eval [user5, ResolvePy.prefix_trait, sliceTo_two, sliceFrom_neg_two, sliceFrom_neg_one, sliceTo_neg_one,
            V.name.injEq, h0, trait0V, kindName_delegate, St.withEnv, h1, h3, hi, hc, hk, hl]
             simp [prefixTraitV, prefixTrait, hdf, heu, trait0, hi, hc, hk, hf, St.withEnv]
         | none =>
           obtain ⟨e1, hl⟩ := hloop ((Var.l1, V.dict .P) :: (Var.l0, V.none) :: [(Var.p0, V.obj), (Var.p1, V.name name), (Var.p2, V.int (if b then 1 else 0))]) rfl rfl
           simp only [prefixLoopBody, hf] at hl
           first
             | resl_eval [user5, ResolvePy.prefix_trait, sliceTo_two, sliceFrom_neg_two, sliceFrom_neg_one, sliceTo_neg_one,
            V.name.injEq, h0, trait0V, kindName_delegate, St.withEnv, h1, h2, h3, hi, hc, hl]
             | resl_eval [user5, ResolvePy.prefix_trait, sliceTo_two, sliceFrom_neg_two, sliceFrom_neg_one, sliceTo_neg_one,
            V.name.injEq, h0, trait0V, kindName_delegate, St.withEnv, h1, h3, hi, hc, hl]
           simp [prefixTraitV, prefixTrait, hdf, heu, trait0, hi, hc, hf, St.withEnv]
     · have h3 : ¬ name.drop (name.length - 1) = ['_'] := fun h => heu ((endsUnderscore_iff name).mpr h)
       obtain ⟨e1, hl⟩ := hloop ((Var.l1, V.dict .P) :: [(Var.p0, V.obj), (Var.p1, V.name name), (Var.p2, V.int (if b then 1 else 0))]) rfl rfl
       simp only [prefixLoopBody, hf] at hl
       first
         | resl_eval [user5, ResolvePy.prefix_trait, sliceTo_two, sliceFrom_neg_two, sliceFrom_neg_one, sliceTo_neg_one,
            V.name.injEq, h0, trait0V, kindName_delegate, St.withEnv, h1, h2, h3, hl]
         | resl_eval [user5, ResolvePy.prefix_trait, sliceTo_two, sliceFrom_neg_two, sliceFrom_neg_one, sliceTo_neg_one,
            V.name.injEq, h0, trait0V, kindName_delegate, St.withEnv, h1, h3, hl]
       simp [prefixTraitV, prefixTrait, hdf, heu, hf, St.withEnv])

end TraitsVerif.Model.ResL
