/-
Cluster `obs`: mutations of an observed LIST preserve the refinement invariant when the
active registrations MAY contain `filtered` nodes (`*`, `+metadata`): `ListCoreF` =
`ListCore` without `noFiltered`.

A container cell is neither read nor yielded by a `filtered` node (those stand on
instances and observe traits), so the site machinery of `ObsSite.lean` goes through
verbatim once its heap relation is stated for ALL observers (`GenA.SiteOKA`, `GenA.RelA`,
`decA`, `localityA`, `stable_at_targetA`: copies of `Gen.*` without the `isFiltered = false`
/ `noFiltered` premises); `listRel_updA` proves the relation for `filtered` nodes too.
-/
import TraitsVerif.Lemmas.ObsInvList
namespace TraitsVerif.Model.Obs.GenA
open TraitsVerif TraitsVerif.Model.Obs TraitsVerif.Model.Obs.Gen

variable (S : Gen.Site) (act : Observer → W → Bool)

/-- what the site looks like in heap `h` (`act` = the read is effective there) -/
structure SiteOKA (h : Heap) : Prop where
  own : ∀ ob x, S.rd ob x = true → act ob x = true → observables h ob x = .ok [S.tgt] ∧ ob.mkind = S.kind
  inactive : ∀ ob x, S.rd ob x = true → act ob x = false →
    (okOr [] (objects h ob x) : List W) = [] ∧ S.tgt ∉ (okOr [] (observables h ob x) : List Observable)
  other : ∀ ob x, S.rd ob x = false →
    S.tgt ∉ (okOr [] (observables h ob x) : List Observable)

/-- `h'` differs from `h` only in the cell, whose content is `newObjs` in `h'`. -/
structure RelA (h h' : Heap) (newObjs : List W) : Prop where
  obs : ∀ ob x, observables h' ob x = observables h ob x
  ext : ∀ ob x, extraObservables h' ob x = extraObservables h ob x
  objs : ∀ ob x, S.rd ob x = false → objects h' ob x = objects h ob x
  objsR : ∀ ob x, S.rd ob x = true → act ob x = true → objects h' ob x = .ok newObjs
  objsN : ∀ ob x, S.rd ob x = true → act ob x = false → objects h' ob x = objects h ob x

variable {S act}

theorem ownItems_relA {h h' : Heap} {no : List W} (R : RelA S act h h' no) (k : HKey)
    (ob : Observer) (cs : List Graph) (x : W) :
    ownItems h' k ob cs x = ownItems h k ob cs x := by
  simp [ownItems, R.obs ob x]

/-- L4 for a site. -/
theorem decA {h h' : Heap} {no : List W} (ok : SiteOKA S act h) (R : RelA S act h h' no) (k : HKey) :
    ∀ g : Graph, ∀ (e : Bool) (x : W) (o' : Observable) (q : NKey),
      cntItems (hookList h' k e g x) o' q =
        cntItems (Gen.stable S h k e g x) o' q + Gen.blocks h' k no (Gen.visits S act h g x) o' q := by
  apply Graph.ind (P := fun g => ∀ (e : Bool) (x : W) (o' : Observable) (q : NKey),
      cntItems (hookList h' k e g x) o' q =
        cntItems (Gen.stable S h k e g x) o' q + Gen.blocks h' k no (Gen.visits S act h g x) o' q)
  intro ob cs ih e x o' q
  have hC : ∀ cs' : List Graph, (∀ c ∈ cs', c ∈ cs) →
      cntItems (hookListCs h' k ob x cs') o' q =
        cntItems (Gen.stableCs S h k ob x cs') o' q +
        Gen.blocks h' k no ((if S.rd ob x && act ob x then cs' else []) ++ Gen.visitsCs S act h ob x cs') o' q := by
    intro cs'
    induction cs' with
    | nil => intro _; simp [hookListCs, Gen.stableCs, Gen.visitsCs, cntItems_nil, Gen.blocks_nil]
    | cons c cs' ihc =>
      intro hsub
      have hc := hsub c (List.mem_cons_self ..)
      have ihc' := ihc (fun c' hc' => hsub c' (List.mem_cons_of_mem _ hc'))
      rw [hookListCs_cons, cntItems_append, ihc']
      simp only [Gen.stableCs, Gen.visitsCs, cntItems_append, Gen.blocks_append]
      by_cases hr : S.rd ob x = true
      · by_cases ht : act ob x = true
        · simp only [hr, ht, Bool.and_self, if_true, cntItems_nil, Gen.blocks_nil, R.objsR ob x hr ht, okOr]
          have : Gen.blocks h' k no (c :: cs') o' q =
              cntItems (no.flatMap (fun w => hookList h' k true c w)) o' q + Gen.blocks h' k no cs' o' q := by
            simp [Gen.blocks]
          rw [this]; omega
        · have ht' : act ob x = false := by simpa using ht
          have hobj : (okOr [] (objects h' ob x) : List W) = [] := by
            rw [R.objsN ob x hr ht']; exact (ok.inactive ob x hr ht').1
          simp only [hr, ht', Bool.and_false, Bool.false_eq_true, if_false, if_true, hobj, List.flatMap_nil,
            cntItems_nil, Gen.blocks_nil]
          omega
      · have hr' : S.rd ob x = false := by simpa using hr
        simp only [hr', Bool.false_and, Bool.false_eq_true, if_false, R.objs ob x hr']
        rw [cntItems_flatMap, cntItems_flatMap, Gen.blocks_flatMap]
        have : ∀ y, cntItems (hookList h' k true c y) o' q =
            cntItems (Gen.stable S h k true c y) o' q + Gen.blocks h' k no (Gen.visits S act h c y) o' q :=
          fun y => ih c hc true y o' q
        simp only [this, sum_map_add]
        simp only [Gen.blocks_nil, Gen.blocks_append] at *
        omega
  rw [hookList_node, cntItems_append, cntItems_append, hC cs (fun c hc => hc)]
  simp only [Gen.stable, Gen.visits, cntItems_append, ownItems_relA R k ob cs x, R.ext ob x, extraItems]
  omega

/-- at a visit every child graph leaves a maintainer on the target -/
theorem visit_itemA {h : Heap} (ok : SiteOKA S act h) (k : HKey) (ob : Observer) (cs : List Graph) (x : W)
    (hr : S.rd ob x = true) (ht : act ob x = true) (c : Graph) (hc : c ∈ cs) :
    (S.tgt, NKey.maint S.kind c k) ∈ ownItems h k ob cs x := by
  obtain ⟨hos, hmk⟩ := ok.own ob x hr ht
  simp only [ownItems, hos, okOr, List.mem_append, List.mem_flatMap, List.mem_map]
  exact Or.inr ⟨S.tgt, by simp, c, hc, by rw [hmk]⟩

/-- L3 for a site. -/
theorem localityA {h h' : Heap} {no : List W} (ok : SiteOKA S act h) (R : RelA S act h h' no) (k : HKey) :
    ∀ g : Graph, ∀ (e : Bool) (x : W), (∀ it ∈ hookList h k e g x, it.1 ≠ S.tgt) →
      hookList h' k e g x = hookList h k e g x := by
  apply Graph.ind (P := fun g => ∀ (e : Bool) (x : W),
      (∀ it ∈ hookList h k e g x, it.1 ≠ S.tgt) → hookList h' k e g x = hookList h k e g x)
  intro ob cs ih e x hno
  have hobj : cs ≠ [] → objects h' ob x = objects h ob x := by
    intro hne
    by_cases hr : S.rd ob x = true
    · by_cases ht : act ob x = true
      · exfalso
        obtain ⟨c, hc⟩ := List.exists_mem_of_ne_nil cs hne
        exact hno _ (mem_hookList_own h k e ob cs x _ (visit_itemA ok k ob cs x hr ht c hc)) rfl
      · exact R.objsN ob x hr (by simpa using ht)
    · exact R.objs ob x (by simpa using hr)
  have hC : ∀ cs' : List Graph, (∀ c ∈ cs', c ∈ cs) → hookListCs h' k ob x cs' = hookListCs h k ob x cs' := by
    intro cs'
    induction cs' with
    | nil => intro _; rfl
    | cons c cs' ihc =>
      intro hsub
      have hc := hsub c (List.mem_cons_self ..)
      have hne : cs ≠ [] := by intro e'; rw [e'] at hc; cases hc
      rw [hookListCs_cons, hookListCs_cons, ihc (fun c' hc' => hsub c' (List.mem_cons_of_mem _ hc')), hobj hne]
      congr 1
      apply flatMap_congr'
      intro y hy
      exact ih c hc true y (fun it hit => hno it (mem_hookList_child h k e ob cs x it c hc y hy hit))
  rw [hookList_node, hookList_node, hC cs (fun c hc => hc), ownItems_relA R k ob cs x, R.ext ob x]

theorem ownItems_at_targetA {h : Heap} (ok : SiteOKA S act h) (k : HKey) (ob : Observer) (cs : List Graph) (x : W) (c0 : Graph) (k0 : HKey) :
    cntItems (ownItems h k ob cs x) S.tgt (.maint S.kind c0 k0) =
      Gen.visitHits S.kind k (if S.rd ob x && act ob x then cs else []) (.maint S.kind c0 k0) := by
  unfold ownItems
  rw [cntItems_append]
  have hu : cntItems (if ob.notify then (okOr [] (observables h ob x)).map (fun o' => (o', NKey.user k)) else [])
      S.tgt (.maint S.kind c0 k0) = 0 := by
    split
    · exact cntItems_map_user k _ _ _ _ _
    · rfl
  rw [hu, Nat.zero_add]
  by_cases hr : S.rd ob x = true
  · by_cases ht : act ob x = true
    · obtain ⟨hos, hmk⟩ := ok.own ob x hr ht
      simp only [hr, ht, Bool.and_self, if_true, hos, okOr, List.flatMap_cons, List.flatMap_nil, List.append_nil,
        cntItems_maint_at, hmk, Gen.visitHits]
    · have ht' : act ob x = false := by simpa using ht
      simp only [hr, ht', Bool.and_false, Bool.false_eq_true, if_false, Gen.visitHits, List.map_nil, List.sum_nil]
      exact cntItems_flatMap_maint_notin _ _ _ _ _ _ (ok.inactive ob x hr ht').2
  · have hr' : S.rd ob x = false := by simpa using hr
    simp only [hr', Bool.false_and, Bool.false_eq_true, if_false, Gen.visitHits, List.map_nil, List.sum_nil]
    exact cntItems_flatMap_maint_notin _ _ _ _ _ _ (ok.other ob x hr')

theorem stable_at_targetA {h : Heap} (ok : SiteOKA S act h) (hmk : S.kind ≠ .added) (k : HKey) :
    ∀ g : Graph, ∀ (e : Bool) (x : W) (c0 : Graph) (k0 : HKey),
      cntItems (Gen.stable S h k e g x) S.tgt (.maint S.kind c0 k0) =
        Gen.visitHits S.kind k (Gen.visits S act h g x) (.maint S.kind c0 k0) := by
  apply Graph.ind (P := fun g => ∀ (e : Bool) (x : W) (c0 : Graph) (k0 : HKey),
      cntItems (Gen.stable S h k e g x) S.tgt (.maint S.kind c0 k0) =
        Gen.visitHits S.kind k (Gen.visits S act h g x) (.maint S.kind c0 k0))
  intro ob cs ih e x c0 k0
  have hC : ∀ cs' : List Graph, (∀ c ∈ cs', c ∈ cs) →
      cntItems (Gen.stableCs S h k ob x cs') S.tgt (.maint S.kind c0 k0) =
        Gen.visitHits S.kind k (Gen.visitsCs S act h ob x cs') (.maint S.kind c0 k0) := by
    intro cs'
    induction cs' with
    | nil => intro _; rfl
    | cons c cs' ihc =>
      intro hsub
      have hc := hsub c (List.mem_cons_self ..)
      simp only [Gen.stableCs, Gen.visitsCs, cntItems_append, Gen.visitHits_append,
        ihc (fun c' hc' => hsub c' (List.mem_cons_of_mem _ hc'))]
      by_cases hr : S.rd ob x = true
      · simp [hr, cntItems_nil, Gen.visitHits]
      · have hr' : S.rd ob x = false := by simpa using hr
        simp only [hr', Bool.false_eq_true, if_false, cntItems_flatMap, Gen.visitHits_flatMap]
        have : ∀ y, cntItems (Gen.stable S h k true c y) S.tgt (.maint S.kind c0 k0) =
            Gen.visitHits S.kind k (Gen.visits S act h c y) (.maint S.kind c0 k0) := fun y => ih c hc true y c0 k0
        simp only [this]
  simp only [Gen.stable, Gen.visits, cntItems_append, Gen.visitHits_append, hC cs (fun c hc => hc),
    ownItems_at_targetA ok k ob cs x c0 k0]
  have : cntItems (if e then (okOr [] (extraObservables h ob x)).map
      (fun ob' => (ob', NKey.maint .added (.node ob cs) k)) else []) S.tgt (.maint S.kind c0 k0) = 0 := by
    split
    · exact cntItems_map_added' _ _ _ _ _ hmk _ _
    · rfl
  rw [this]; omega


end TraitsVerif.Model.Obs.GenA

namespace TraitsVerif.Model.Obs
open TraitsVerif

theorem listSite_okA (h : Heap) (c : Id) (items : List Id) (hc : h.get c = .list items) :
    GenA.SiteOKA (listSite c) actTrue h where
  own := by
    intro ob x hr _
    cases ob with
    | listItems nt opt =>
      simp only [listSite, isListItems, Bool.true_and, beq_iff_eq] at hr
      subst hr
      simp [observables, Heap.at, hc, Observer.mkind, listSite]
    | _ => simp [listSite, isListItems] at hr
  inactive := by intro ob x _ ha; simp [actTrue] at ha
  other := by
    intro ob x hr hm
    obtain ⟨hx, hkind⟩ := obs_cont_mem h ob x c hm
    subst hx
    rcases hkind with ⟨hl, _⟩ | ⟨_, l, hl⟩ | ⟨_, l, hl⟩
    · simp [listSite, hl] at hr
    · rw [hc] at hl; cases hl
    · rw [hc] at hl; cases hl

theorem listRel_selfA (h : Heap) (c : Id) (items : List Id) (hc : h.get c = .list items) :
    GenA.RelA (listSite c) actTrue h h (items.map some) where
  obs := fun _ _ => rfl
  ext := fun _ _ => rfl
  objs := fun _ _ _ => rfl
  objsN := by intro ob x _ ha; simp [actTrue] at ha
  objsR := by
    intro ob x hr _
    cases ob with
    | listItems nt opt =>
      simp only [listSite, isListItems, Bool.true_and, beq_iff_eq] at hr
      subst hr
      simp [objects, Heap.at, hc]
    | _ => simp [listSite, isListItems] at hr

section upd
variable {h : Heap} {c : Id} {items : List Id}

theorem listRel_updA (hc : h.get c = .list items) (items' : List Id) :
    GenA.RelA (listSite c) actTrue h (h.upd c (.list items')) (items'.map some) where
  obs := by
    intro ob x
    by_cases hx : x = some c
    · subst hx
      cases ob with
      | filtered fl nt => simp [observables, Heap.at, Heap.get_upd, hc]
      | named m nt opt => simp only [observables, hasTrait_upd_list hc]
      | listItems nt opt => simp [observables, Heap.at, Heap.get_upd, hc]
      | dictItems nt opt => simp [observables, Heap.at, Heap.get_upd, hc]
      | setItems nt opt => simp [observables, Heap.at, Heap.get_upd, hc]
    · cases ob with
      | filtered fl nt => simp [observables, upd_at_ne items' x hx]
      | named m nt opt => simp only [observables, hasTrait_upd_list hc]
      | listItems nt opt => simp [observables, upd_at_ne items' x hx]
      | dictItems nt opt => simp [observables, upd_at_ne items' x hx]
      | setItems nt opt => simp [observables, upd_at_ne items' x hx]
  ext := by
    intro ob x
    by_cases hx : x = some c
    · subst hx
      cases ob with
      | filtered fl nt => simp [extraObservables, Heap.at, Heap.get_upd, hc]
      | named m nt opt => simp [extraObservables, Heap.at, Heap.get_upd, hc]
      | listItems nt opt => rfl
      | dictItems nt opt => rfl
      | setItems nt opt => rfl
    · cases ob with
      | filtered fl nt => simp [extraObservables, upd_at_ne items' x hx]
      | named m nt opt => simp [extraObservables, upd_at_ne items' x hx]
      | listItems nt opt => rfl
      | dictItems nt opt => rfl
      | setItems nt opt => rfl
  objs := by
    intro ob x hr
    by_cases hx : x = some c
    · subst hx
      cases ob with
      | filtered fl nt => simp [objects, Heap.at, Heap.get_upd, hc]
      | named m nt opt => simp only [objects, hasTrait_upd_list hc, fieldVal_upd_list hc]
      | listItems nt opt => simp [listSite, isListItems] at hr
      | dictItems nt opt => simp [objects, Heap.at, Heap.get_upd, hc]
      | setItems nt opt => simp [objects, Heap.at, Heap.get_upd, hc]
    · cases ob with
      | filtered fl nt => simp [objects, upd_at_ne items' x hx]
      | named m nt opt => simp only [objects, hasTrait_upd_list hc, fieldVal_upd_list hc]
      | listItems nt opt => simp [objects, upd_at_ne items' x hx]
      | dictItems nt opt => simp [objects, upd_at_ne items' x hx]
      | setItems nt opt => simp [objects, upd_at_ne items' x hx]
  objsN := by intro ob x _ ha; simp [actTrue] at ha
  objsR := by
    intro ob x hr _
    cases ob with
    | listItems nt opt =>
      simp only [listSite, isListItems, Bool.true_and, beq_iff_eq] at hr
      subst hr
      simp [objects, Heap.at, Heap.get_upd]
    | _ => simp [listSite, isListItems] at hr

end upd

/-- Hypotheses under which a mutation of list `c` (contents `items` ↦ `items'`,
reported as `ev`) preserves the invariant. -/
structure ListCoreF (E : Env) (st : St) (regs : List Reg) (c : Id) (items items' : List Id) (ev : CEvent) : Prop where
  hc : st.h.get c = .list items
  alive : ∀ k, E.dead k = false
  /-- the walks the maintainers perform meet no failing `iter_*` -/
  okRem : ∀ mk g k, Notifier.maint mk g k ∈ st.H.get (.cont c) → ∀ y ∈ ev.removed,
    walkOk (st.h.upd c (.list items')) true g (some y) = true
  okAdd : ∀ mk g k, Notifier.maint mk g k ∈ st.H.get (.cont c) → ∀ y ∈ ev.added,
    walkOk (st.h.upd c (.list items')) true g (some y) = true
  /-- NoSelfReach: below the current items, and below the removed / added ones, the
  maintained sub-graphs never come back to the list itself -/
  nsrItems : ∀ r ∈ regs, ∀ g ∈ Gen.visits (listSite c) actTrue st.h r.g (some r.x), ∀ y ∈ items,
    ∀ it ∈ hookList st.h r.k true g (some y), it.1 ≠ .cont c
  nsrLive : ∀ mk g k, Notifier.maint mk g k ∈ st.H.get (.cont c) → ∀ y ∈ ev.removed ++ ev.added,
    ∀ it ∈ hookList (st.h.upd c (.list items')) k true g (some y), it.1 ≠ .cont c
  /-- graph equality is structural on the sub-graphs involved -/
  eqStruct : ∀ mk g k, Notifier.maint mk g k ∈ st.H.get (.cont c) → ∀ r ∈ regs,
    ∀ g' ∈ Gen.visits (listSite c) actTrue st.h r.g (some r.x),
    (NKey.maint mk g k).equals (.maint .list g' r.k) = true → g = g' ∧ k = r.k

/-- … plus: the event is a faithful delta, old = removed + rest, new = rest + added
(as multisets; proved below for each list operation). -/
structure ListFragF (E : Env) (st : St) (regs : List Reg) (c : Id) (items items' rest : List Id) (ev : CEvent) : Prop
    extends ListCoreF E st regs c items items' ev where
  hitems : ∀ F : Id → Nat, (items.map F).sum = (ev.removed.map F).sum + (rest.map F).sum
  hitems' : ∀ F : Id → Nat, (items'.map F).sum = (rest.map F).sum + (ev.added.map F).sum

theorem listMut_preservesF (E : Env) (st : St) (regs : List Reg) (c : Id) (items items' rest : List Id) (ev : CEvent)
    (hinv : HooksEqReach st.h st.H regs) (fr : ListFragF E st regs c items items' rest ev) :
    HooksEqReach (st.h.upd c (.list items')) (runCont E st (st.h.upd c (.list items')) c (some ev)).st.H regs ∧
    (runCont E st (st.h.upd c (.list items')) c (some ev)).err = none := by
  obtain ⟨hwf, hcnt⟩ := hinv
  have ok := listSite_okA st.h c items fr.hc
  have R0 := listRel_selfA st.h c items fr.hc
  have R1 := listRel_updA fr.hc items'
  have Dh : ∀ r ∈ regs, ∀ o' q, cntItems (hookList st.h r.k true r.g (some r.x)) o' q =
      cntItems (Gen.stable (listSite c) st.h r.k true r.g (some r.x)) o' q +
      Gen.blocks st.h r.k (items.map some) (Gen.visits (listSite c) actTrue st.h r.g (some r.x)) o' q :=
    fun r hr o' q => GenA.decA ok R0 r.k r.g true (some r.x) o' q
  have Dh' : ∀ r ∈ regs, ∀ o' q, cntItems (hookList (st.h.upd c (.list items')) r.k true r.g (some r.x)) o' q =
      cntItems (Gen.stable (listSite c) st.h r.k true r.g (some r.x)) o' q +
      Gen.blocks (st.h.upd c (.list items')) r.k (items'.map some)
        (Gen.visits (listSite c) actTrue st.h r.g (some r.x)) o' q :=
    fun r hr o' q => GenA.decA ok R1 r.k r.g true (some r.x) o' q
  -- L3 below every current item
  have L3y : ∀ r ∈ regs, ∀ g ∈ Gen.visits (listSite c) actTrue st.h r.g (some r.x), ∀ y ∈ items,
      hookList (st.h.upd c (.list items')) r.k true g (some y) = hookList st.h r.k true g (some y) := by
    intro r hr g hg y hy
    exact GenA.localityA ok R1 r.k g true (some y)
      (fr.nsrItems r hr g hg y hy)
  have L3 : ∀ r ∈ regs, ∀ o' q, Gen.blocks (st.h.upd c (.list items')) r.k (items.map some)
        (Gen.visits (listSite c) actTrue st.h r.g (some r.x)) o' q =
      Gen.blocks st.h r.k (items.map some) (Gen.visits (listSite c) actTrue st.h r.g (some r.x)) o' q := by
    intro r hr o' q
    unfold Gen.blocks
    apply sum_map_congr
    intro g hg
    congr 1
    apply flatMap_congr'
    intro w hw
    simp only [List.mem_map] at hw
    obtain ⟨y, hy, rfl⟩ := hw
    exact L3y r hr g hg y hy
  have B0 : ∀ r ∈ regs, ∀ q, Gen.blocks st.h r.k (items.map some)
      (Gen.visits (listSite c) actTrue st.h r.g (some r.x)) (.cont c) q = 0 := by
    intro r hr q
    unfold Gen.blocks
    apply sum_map_zero
    intro g hg
    apply cntItems_zero_of_ne
    intro it hit
    simp only [List.mem_flatMap, List.mem_map] at hit
    obtain ⟨w, ⟨y, hy, rfl⟩, hm⟩ := hit
    exact fr.nsrItems r hr g hg y hy it hm
  have specH : ∀ o' q, specCnt st.h regs o' q =
      (regs.map (fun r => cntItems (Gen.stable (listSite c) st.h r.k true r.g (some r.x)) o' q)).sum +
      (regs.map (fun r => Gen.blocks st.h r.k (items.map some)
        (Gen.visits (listSite c) actTrue st.h r.g (some r.x)) o' q)).sum := by
    intro o' q
    unfold specCnt
    rw [← sum_map_add]
    exact sum_map_congr _ _ _ (fun r hr => Dh r hr o' q)
  have specH' : ∀ o' q, specCnt (st.h.upd c (.list items')) regs o' q =
      (regs.map (fun r => cntItems (Gen.stable (listSite c) st.h r.k true r.g (some r.x)) o' q)).sum +
      (regs.map (fun r => Gen.blocks (st.h.upd c (.list items')) r.k (items'.map some)
        (Gen.visits (listSite c) actTrue st.h r.g (some r.x)) o' q)).sum := by
    intro o' q
    unfold specCnt
    rw [← sum_map_add]
    exact sum_map_congr _ _ _ (fun r hr => Dh' r hr o' q)
  -- the maintainers on the list are the visits
  have hcounts : ∀ q, (mKeys (st.H.get (.cont c))).countP (fun a => a.equals q) =
      (visitKeysL st.h c regs).countP (fun a => a.equals q) := by
    intro q
    cases q with
    | user k0 =>
      rw [List.countP_eq_zero.2, List.countP_eq_zero.2]
      · intro a ha
        obtain ⟨r, _, g, _, rfl⟩ := visitKeysL_shape _ _ _ a ha
        simp [NKey.equals]
      · intro a ha
        obtain ⟨mk, g, k, rfl, _⟩ := mKeys_shape _ a ha
        simp [NKey.equals]
    | maint mk c0 k0 =>
      rw [← cntList_eq_countP_m]
      have := hcnt (.cont c) (.maint mk c0 k0)
      unfold cnt at this
      rw [this]
      by_cases hmk : mk = .list
      · subst hmk
        rw [visitKeysL_countP, specH]
        have hz : (regs.map (fun r => Gen.blocks st.h r.k (items.map some)
            (Gen.visits (listSite c) actTrue st.h r.g (some r.x)) (.cont c) (.maint .list c0 k0))).sum = 0 :=
          sum_map_zero _ _ (fun r hr => B0 r hr _)
        rw [hz, Nat.add_zero]
        exact sum_map_congr _ _ _ (fun r hr =>
          GenA.stable_at_targetA ok (by simp [listSite]) r.k r.g true (some r.x) c0 k0)
      · rw [specCnt_cont_kind st.h regs c items fr.hc mk c0 k0 hmk, eq_comm, List.countP_eq_zero]
        intro a ha
        obtain ⟨r, _, g, _, rfl⟩ := visitKeysL_shape _ _ _ a ha
        cases mk <;> simp_all [NKey.equals]
  have hmatch : ∀ (ys : List Id) o' q,
      effectSumC (blockOf (st.h.upd c (.list items')) ys o' q) (st.H.get (.cont c)) =
      (regs.map (fun r => Gen.blocks (st.h.upd c (.list items')) r.k (ys.map some)
        (Gen.visits (listSite c) actTrue st.h r.g (some r.x)) o' q)).sum := by
    intro ys o' q
    rw [effectSumC_eq_keys, sum_blocks_eq_keysL]
    apply sum_eq_of_equiv_counts _ _ _ hcounts
    intro a ha b hb hab
    obtain ⟨mk, g, k, rfl, hm⟩ := mKeys_shape _ a ha
    obtain ⟨r, hr, g', hg', rfl⟩ := visitKeysL_shape _ _ _ b hb
    obtain ⟨rfl, rfl⟩ := fr.eqStruct mk g k hm r hr g' hg' hab
    rfl
  -- multiset decomposition of the blocks
  have hsplitB : ∀ (ys a b : List Id), (∀ F : Id → Nat, (ys.map F).sum = (a.map F).sum + (b.map F).sum) →
      ∀ o' q, (regs.map (fun r => Gen.blocks (st.h.upd c (.list items')) r.k (ys.map some)
        (Gen.visits (listSite c) actTrue st.h r.g (some r.x)) o' q)).sum =
      (regs.map (fun r => Gen.blocks (st.h.upd c (.list items')) r.k (a.map some)
        (Gen.visits (listSite c) actTrue st.h r.g (some r.x)) o' q)).sum +
      (regs.map (fun r => Gen.blocks (st.h.upd c (.list items')) r.k (b.map some)
        (Gen.visits (listSite c) actTrue st.h r.g (some r.x)) o' q)).sum := by
    intro ys a b hd o' q
    rw [← sum_map_add]
    apply sum_map_congr
    intro r _
    unfold Gen.blocks
    rw [← sum_map_add]
    apply sum_map_congr
    intro g _
    have := hd (fun y => cntItems (hookList (st.h.upd c (.list items')) r.k true g (some y)) o' q)
    simp only [cntItems_flatMap, List.map_map, Function.comp_def]
    exact this
  -- live iteration = iteration over the copy
  have hfr : ∀ mk g k, Notifier.maint mk g k ∈ st.H.get (.cont c) → ∀ H',
      (maintCont (st.h.upd c (.list items')) g k ev H').H.get (.cont c) = H'.get (.cont c) :=
    fun mk g k hm H' => maintCont_frame _ g k ev (.cont c) H' (fr.nsrLive mk g k hm)
  have heq := notifyCont_eq_callCont E (st.h.upd c (.list items')) c ev (st.H.get (.cont c)) hfr
    ((st.H.get (.cont c)).length + 4096) 0 st.H [] rfl (by omega)
  simp only [runCont, heq, List.drop_zero]
  have hl : LoopOkC E (st.h.upd c (.list items')) ev (st.H.get (.cont c)) :=
    { alive := fr.alive, okRem := fr.okRem, okAdd := fr.okAdd }
  have hI := fun o' q => hsplitB items ev.removed rest fr.hitems o' q
  have hI' := fun o' q => hsplitB items' rest ev.added fr.hitems' o' q
  have hle : ∀ o' q, effectSumC (blockOf (st.h.upd c (.list items')) ev.removed o' q) (st.H.get (.cont c)) ≤
      cnt st.H o' q := by
    intro o' q
    rw [hmatch, hcnt, specH, ← sum_map_congr _ _ _ (fun r hr => L3 r hr o' q), hI]
    omega
  obtain ⟨e, w, cc⟩ := callCont_effect E (st.h.upd c (.list items')) c ev _ st.H [] hl hwf hle
  refine ⟨⟨w, ?_⟩, e⟩
  intro o' q
  have := cc o' q
  rw [hmatch, hmatch, hcnt, specH, ← sum_map_congr _ _ _ (fun r hr => L3 r hr o' q), hI] at this
  rw [specH', hI']
  omega

/-- `l.append(x)` -/
theorem listAppend_preservesF (E : Env) (st : St) (regs : List Reg) (c : Id) (x : Id) (items : List Id)
    (hinv : HooksEqReach st.h st.H regs)
    (core : ListCoreF E st regs c items (items ++ [x]) (.list items.length [] [x])) :
    HooksEqReach (mutate E st (.listAppend c x)).st.h (mutate E st (.listAppend c x)).st.H regs ∧
    (mutate E st (.listAppend c x)).err = none := by
  have fr : ListFragF E st regs c items (items ++ [x]) items (.list items.length [] [x]) :=
    { core with
      hitems := by intro F; simp [CEvent.removed]
      hitems' := by intro F; simp [CEvent.added, List.map_append, List.sum_append] }
  simp only [mutate, core.hc]
  exact listMut_preservesF E st regs c items _ items _ hinv fr

/-- `l.insert(i, x)` -/
theorem listInsert_preservesF (E : Env) (st : St) (regs : List Reg) (c : Id) (i : Nat) (x : Id) (items : List Id)
    (hi : i ≤ items.length) (hinv : HooksEqReach st.h st.H regs)
    (core : ListCoreF E st regs c items (items.take i ++ x :: items.drop i) (.list i [] [x])) :
    HooksEqReach (mutate E st (.listInsert c i x)).st.h (mutate E st (.listInsert c i x)).st.H regs ∧
    (mutate E st (.listInsert c i x)).err = none := by
  have fr : ListFragF E st regs c items (items.take i ++ x :: items.drop i) items (.list i [] [x]) :=
    { core with
      hitems := by intro F; simp [CEvent.removed]
      hitems' := by intro F; rw [sum_insert]; simp [CEvent.added] }
  simp only [mutate, core.hc, hi, if_true]
  exact listMut_preservesF E st regs c items _ items _ hinv fr

/-- `del l[i]` — an object present twice and removed once keeps one registration's worth of hooks -/
theorem listDel_preservesF (E : Env) (st : St) (regs : List Reg) (c : Id) (i : Nat) (y : Id) (items : List Id)
    (hy : items[i]? = some y) (hinv : HooksEqReach st.h st.H regs)
    (core : ListCoreF E st regs c items (items.eraseIdx i) (.list i [y] [])) :
    HooksEqReach (mutate E st (.listDel c i)).st.h (mutate E st (.listDel c i)).st.H regs ∧
    (mutate E st (.listDel c i)).err = none := by
  have fr : ListFragF E st regs c items (items.eraseIdx i) (items.eraseIdx i) (.list i [y] []) :=
    { core with
      hitems := by intro F; rw [sum_eraseIdx F items i y hy]; simp [CEvent.removed]
      hitems' := by intro F; simp [CEvent.added] }
  simp only [mutate, core.hc, hy]
  exact listMut_preservesF E st regs c items _ _ _ hinv fr

/-- `l[i] = x` -/
theorem listSet_preservesF (E : Env) (st : St) (regs : List Reg) (c : Id) (i : Nat) (x y : Id) (items : List Id)
    (hy : items[i]? = some y) (hinv : HooksEqReach st.h st.H regs)
    (core : ListCoreF E st regs c items (items.set i x) (.list i [y] [x])) :
    HooksEqReach (mutate E st (.listSet c i x)).st.h (mutate E st (.listSet c i x)).st.H regs ∧
    (mutate E st (.listSet c i x)).err = none := by
  have fr : ListFragF E st regs c items (items.set i x) (items.eraseIdx i) (.list i [y] [x]) :=
    { core with
      hitems := by intro F; rw [sum_eraseIdx F items i y hy]; simp [CEvent.removed]
      hitems' := by intro F; rw [sum_set F items i y x hy]; simp [CEvent.added] }
  simp only [mutate, core.hc, hy]
  exact listMut_preservesF E st regs c items _ _ _ hinv fr

/-- `l.clear()` on a non-empty list -/
theorem listClear_preservesF (E : Env) (st : St) (regs : List Reg) (c : Id) (items : List Id)
    (hne : items.isEmpty = false) (hinv : HooksEqReach st.h st.H regs)
    (core : ListCoreF E st regs c items [] (.list 0 items [])) :
    HooksEqReach (mutate E st (.listClear c)).st.h (mutate E st (.listClear c)).st.H regs ∧
    (mutate E st (.listClear c)).err = none := by
  have fr : ListFragF E st regs c items [] [] (.list 0 items []) :=
    { core with
      hitems := by intro F; simp [CEvent.removed]
      hitems' := by intro F; simp [CEvent.added] }
  simp only [mutate, core.hc, hne, Bool.false_eq_true, if_false]
  exact listMut_preservesF E st regs c items _ _ _ hinv fr

/-- `l.extend(xs)` with `xs` non-empty (same object several times allowed) -/
theorem listExtend_preservesF (E : Env) (st : St) (regs : List Reg) (c : Id) (xs : List Id) (items : List Id)
    (hne : xs.isEmpty = false) (hinv : HooksEqReach st.h st.H regs)
    (core : ListCoreF E st regs c items (items ++ xs) (.list items.length [] xs)) :
    HooksEqReach (mutate E st (.listExtend c xs)).st.h (mutate E st (.listExtend c xs)).st.H regs ∧
    (mutate E st (.listExtend c xs)).err = none := by
  have fr : ListFragF E st regs c items (items ++ xs) items (.list items.length [] xs) :=
    { core with
      hitems := by intro F; simp [CEvent.removed]
      hitems' := by intro F; simp [CEvent.added, List.map_append, List.sum_append] }
  simp only [mutate, core.hc, hne, Bool.false_eq_true, if_false]
  exact listMut_preservesF E st regs c items _ _ _ hinv fr

/-- `l[i:j] = xs` (any lengths; the classic case: same length, same objects, other
multiplicities — `[a, a, b]` ↦ `[a, b, b]`) -/
theorem listSlice_preservesF (E : Env) (st : St) (regs : List Reg) (c : Id) (i j : Nat) (xs : List Id) (items : List Id)
    (hij : i ≤ j ∧ j ≤ items.length)
    (hne : (((items.drop i).take (j - i)).isEmpty && xs.isEmpty) = false)
    (hinv : HooksEqReach st.h st.H regs)
    (core : ListCoreF E st regs c items (items.take i ++ xs ++ items.drop j) (.list i ((items.drop i).take (j - i)) xs)) :
    HooksEqReach (mutate E st (.listSlice c i j xs)).st.h (mutate E st (.listSlice c i j xs)).st.H regs ∧
    (mutate E st (.listSlice c i j xs)).err = none := by
  have fr : ListFragF E st regs c items (items.take i ++ xs ++ items.drop j) (items.take i ++ items.drop j)
      (.list i ((items.drop i).take (j - i)) xs) :=
    { core with
      hitems := by intro F; rw [sum_slice_split F items i j hij.1]; simp [CEvent.removed]
      hitems' := by intro F; simp [CEvent.added, List.map_append, List.sum_append]; omega }
  simp only [mutate, core.hc, hij, and_self, if_true, hne, Bool.false_eq_true, if_false]
  exact listMut_preservesF E st regs c items _ _ _ hinv fr



/-! ### non-vacuity witness

`a.kids = [b]` (list cell 100) observed through a quiet `*` node on `a`: graph
`filtered anyTrait` → optional `items` → `value`; then `a.kids.append(c)`. -/
namespace FilteredListWitness

def fld (n : Name) (v : Val) : Field := ⟨n, false, .val (if n == nValue then .int 0 else .none), v, .equality⟩

def wKey : HKey := ⟨0, 0⟩

def wHeap : Heap :=
  [(0, .inst [fld nKids (.ref 100), fld nTraitAdded .unset]),
   (1, .inst [fld nValue (.int 3), fld nTraitAdded .unset]),
   (2, .inst [fld nValue (.int 5), fld nTraitAdded .unset]),
   (100, .list [1])]
def wGraph : Graph :=
  .node (.filtered .anyTrait false) [.node (.listItems true true) [.node (.named nValue true false) []]]
def wSt : St := ⟨wHeap, (addRemove wHeap wKey false true wGraph (some 0) Hooks.empty).H⟩
def wRegs : List Reg := [⟨wKey, wGraph, 0⟩]

theorem wInv : HooksEqReach wSt.h wSt.H wRegs := by
  have hok : (addRemove wHeap wKey false true wGraph (some 0) Hooks.empty).err = none := by decide
  obtain ⟨_, hc, hw⟩ := addRemove_add wHeap wKey wGraph true (some 0) Hooks.empty hok
  refine ⟨hw WF_empty, ?_⟩
  intro o q
  show cnt (addRemove wHeap wKey false true wGraph (some 0) Hooks.empty).H o q = _
  rw [hc]
  simp [specCnt, cnt, Hooks.empty, cntList, wRegs, wSt]

theorem wHooks : wSt.H.get (.cont 100) =
    [.user wKey 1, .maint .list (.node (.named nValue true false) []) wKey] := rfl
theorem wVisits : Gen.visits (listSite 100) actTrue wSt.h wGraph (some 0) = [.node (.named nValue true false) []] := rfl

/-- The hypotheses of `listAppend_preservesF` hold for `a.kids.append(c)` under the `*` registration. -/
theorem wCore : ListCoreF {} wSt wRegs 100 [1] ([1] ++ [2]) (.list 1 [] [2]) where
  hc := rfl
  alive := fun _ => rfl
  okRem := by intro mk g k _ y hy; simp [CEvent.removed] at hy
  okAdd := by
    intro mk g k hm y hy
    rw [wHooks] at hm
    simp at hm
    obtain ⟨rfl, rfl, rfl⟩ := hm
    simp [CEvent.added] at hy
    subst hy
    decide
  nsrItems := by
    intro r hr g hg y hy
    simp [wRegs] at hr; subst hr
    rw [wVisits] at hg
    simp at hg; subst hg
    simp at hy; subst hy
    decide
  nsrLive := by
    intro mk g k hm y hy
    rw [wHooks] at hm
    simp at hm
    obtain ⟨rfl, rfl, rfl⟩ := hm
    simp [CEvent.removed, CEvent.added] at hy
    subst hy
    decide
  eqStruct := by
    intro mk g k hm r hr g' hg' he
    rw [wHooks] at hm
    simp at hm
    obtain ⟨rfl, rfl, rfl⟩ := hm
    simp [wRegs] at hr; subst hr
    rw [wVisits] at hg'
    simp at hg'; subst hg'
    exact ⟨rfl, rfl⟩

example : HooksEqReach (mutate {} wSt (.listAppend 100 2)).st.h (mutate {} wSt (.listAppend 100 2)).st.H wRegs :=
  (listAppend_preservesF {} wSt wRegs 100 2 [1] wInv wCore).1

example : cnt wSt.H (.trait 2 nValue) (.user wKey) = 0 ∧
    cnt (mutate {} wSt (.listAppend 100 2)).st.H (.trait 2 nValue) (.user wKey) = 1 ∧
    cnt (mutate {} wSt (.listAppend 100 2)).st.H (.trait 1 nValue) (.user wKey) = 1 := by decide

end FilteredListWitness

end TraitsVerif.Model.Obs
