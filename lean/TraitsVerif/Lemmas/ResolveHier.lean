/-
The declarative reading of "which trait governs a name" (`Governs`), its
agreement with the lookup of the model (`Dispatch`) on coherent classes, linear
hierarchies (`chain`) below `HasTraits` / `HasStrictTraits` /
`HasPrivateTraits`, and the initial world.
-/
import TraitsVerif.Lemmas.ResolveGov
namespace TraitsVerif.Model.Resolve
open TraitsVerif

/-! ### the property's resolution order, declaratively -/

/-- "instance trait of that name if one was added, else the class trait of that
name (own or inherited), else the wildcard trait with the longest matching
prefix (the '' wildcard = class default)" — plus the two rules the code has for
`__xxx__` names, which the property text does not mention. -/
inductive Governs (c : Cls) (o : Obj) (name : Name) (isSet : Bool) : Except Exc Trait → Prop
  | inst {t : Trait} (h : o.itraits.get name = some t) : Governs c o name isSet (.ok t)
  | declared {t : Trait} (hi : o.itraits.get name = none) (h : c.decl.get name = some t) :
      Governs c o name isSet (.ok t)
  | dunderClass (hi : o.itraits.get name = none) (hd : c.decl.get name = none) (h : name = classDunder) :
      Governs c o name isSet (.ok genericTrait)
  | dunderSet (hi : o.itraits.get name = none) (hd : c.decl.get name = none) (hdu : isDunder name = true)
      (hne : name ≠ classDunder) (hs : isSet = true) : Governs c o name isSet (.ok anyTrait)
  | dunderGet (hi : o.itraits.get name = none) (hd : c.decl.get name = none) (hdu : isDunder name = true)
      (hne : name ≠ classDunder) (hs : isSet = false) : Governs c o name isSet (.error .attributeError)
  | wildcard {e : Name × Trait} (hi : o.itraits.get name = none) (hd : c.decl.get name = none)
      (hdu : isDunder name = false) (hm : e ∈ c.prefixes) (hp : e.1 <+: name)
      (hmax : ∀ e' ∈ c.prefixes, e'.1 <+: name → e'.1.length ≤ e.1.length) :
      Governs c o name isSet (.ok e.2)

theorem classDunder_isDunder : isDunder classDunder = true := by decide

theorem resolve₀_governs {c : Cls} {o : Obj} {name : Name} {b : Bool} {r : Except Exc Trait}
    (hc : ClsInv c) (hi : o.itraits.get name = none) (hd : c.decl.get name = none)
    (h : resolve₀ c.prefixes name b = r) : Governs c o name b r := by
  unfold resolve₀ at h
  by_cases hdu : isDunder name = true
  · simp only [hdu, ↓reduceIte] at h
    by_cases hcl : name = classDunder
    · simp only [hcl, ↓reduceIte] at h; subst h; exact .dunderClass hi hd hcl
    · simp only [hcl, ↓reduceIte] at h
      cases b with
      | true => simp at h; subst h; exact .dunderSet hi hd hdu hcl rfl
      | false => simp at h; subst h; exact .dunderGet hi hd hdu hcl rfl
  · simp only [hdu] at h
    have hdu' : isDunder name = false := by simpa using hdu
    cases hf : firstMatch c.prefixes name with
    | some e =>
      rw [hf] at h; simp at h; subst h
      exact .wildcard hi hd hdu' (firstMatch_some hf).1 (firstMatch_some hf).2 (firstMatch_longest hc.sorted hf)
    | none =>
      obtain ⟨e, he⟩ := firstMatch_total hc.hasDefault name
      rw [he] at hf; cases hf

/-- On a coherent class the lookup dispatches to the trait the property names:
for every write, and for every read of a name that is not `__xxx__`. -/
theorem Dispatch.governs {c : Cls} {o : Obj} {name : Name} {b : Bool} {r : Except Exc Trait}
    (h : Dispatch c o name b r) (hc : ClsInv c) (hcp : ClsPlain c) (hop : ObjPlain o)
    (hside : b = true ∨ isDunder name = false) : Governs c o name b r := by
  cases h with
  | inst h => exact .inst h
  | cls hi h =>
    cases hd : c.decl.get name with
    | some t' =>
      have := hc.declSub name t' hd
      rw [h] at this; cases this
      exact .declared hi hd
    | none =>
      obtain ⟨b', hb'⟩ := hc.coherent name _ h hd
      rcases hside with hside | hside
      · -- a write: only `__xxx__` names resolve differently for reads and writes
        subst hside
        by_cases hdu : isDunder name = true
        · have hb : resolve₀ c.prefixes name true = resolve₀ c.prefixes name b' ∨ b' = false := by
            cases b' with
            | true => exact Or.inl rfl
            | false => exact Or.inr rfl
          rcases hb with hb | hb
          · rw [← hb] at hb'; exact resolve₀_governs hc hi hd hb'
          · subst hb
            unfold resolve₀ at hb'
            simp only [hdu, ↓reduceIte] at hb'
            by_cases hcl : name = classDunder
            · simp only [hcl, ↓reduceIte] at hb'; cases hb'
              exact .dunderClass hi hd hcl
            · simp [hcl] at hb'
        · have hdu' : isDunder name = false := by simpa using hdu
          rw [resolve₀_not_dunder hdu' b' true] at hb'
          exact resolve₀_governs hc hi hd hb'
      · rw [resolve₀_not_dunder hside b' b] at hb'
        exact resolve₀_governs hc hi hd hb'
  | pref hi hct h =>
    have hd : c.decl.get name = none := by
      cases hd : c.decl.get name with
      | none => rfl
      | some t' => have := hc.declSub name t' hd; rw [hct] at this; cases this
    rw [prefixTrait_plain_eq hcp hop] at h
    exact resolve₀_governs hc hi hd h

/-- The lookup of `has_traits_getattro` once `__dict__` and the type have no
entry (ctraits.c:862-881). -/
def resolveGet (w : World) (oi : Nat) (o : Obj) (c : Cls) (name : Name) : World × Except Exc Trait :=
  match trait0 c o name with
  | some t => (w, .ok t)
  | none => getPrefixTrait w oi o c name false

theorem resolveGet_spec (w : World) {oi : Nat} {o : Obj} (c : Cls) (name : Name)
    (hh : o.hooks = []) (ho : w.objs[oi]? = some o) :
    Resolved w o c name (resolveGet w oi o c name).1 ∧ Dispatch c o name false (resolveGet w oi o c name).2 := by
  unfold resolveGet
  cases h0 : trait0 c o name with
  | some t => exact ⟨.same, trait0_dispatch false h0⟩
  | none =>
    obtain ⟨hi, hct⟩ := trait0_none h0
    refine ⟨getPrefixTrait_resolved w false hi hct hh ho, ?_⟩
    cases hp : prefixTrait c o name false with
    | error e => simp only [getPrefixTrait_error hp]; exact .pref hi hct hp
    | ok t => simp only [getPrefixTrait_ok hp hi hh ho]; exact .pref hi hct hp

/-- `getattro` is: `__dict__` hit, else type attribute (only when no trait of
that name exists yet), else the getter of the trait `resolveGet` finds. -/
theorem getattro_eq_resolveGet (E : Env) (w : World) (oi : Nat) (o : Obj) (c : Cls) (name : Name)
    (hd : o.dict.get name = none) (hca : E.classAttr name = none) :
    getattro E w oi o c name =
      match resolveGet w oi o c name with
      | (w', .error e) => (w', .error e)
      | (w', .ok t) =>
        match getattrKind E t o.dict name with
        | .error e => (w', .error e)
        | .ok (v, d) => (setDict w' oi d, .ok (.val v)) := by
  unfold getattro resolveGet
  rw [hd]
  simp only
  cases trait0 c o name with
  | some t => rfl
  | none =>
    simp only [hca]
    rcases getPrefixTrait w oi o c name false with ⟨w', r⟩
    cases r with
    | error e => rfl
    | ok t =>
      simp only
      cases getattrKind E t o.dict name with
      | error e => rfl
      | ok r => rfl

/-! ### linear hierarchies -/

/-- `chain root [body₁, …, bodyₙ]`: the class obtained by subclassing `root`
n times, `bodyₙ` being the most derived class body. -/
def chain (root : Cls) : List (List (Name × Trait)) → Cls
  | [] => root
  | decls :: rest => chain (mkClass [root] decls) rest

theorem Total_mkClass (bases : List Cls) (decls : List (Name × Trait)) : Total (mkClass bases decls) :=
  mkClass_hasDefault bases decls

theorem ensureDefault_of_get {pl : List (Name × Trait)} {t : Trait} (h : Map.get pl [] = some t) :
    ensureDefault pl = pl := by
  unfold ensureDefault; rw [h]

/-- Below a class that has a '' wildcard nothing is invented: every wildcard of
the subclass is its own or its base's. -/
theorem mkClass1_prefix_mem {root : Cls} (htot : Total root) {decls : List (Name × Trait)} {e : Name × Trait}
    (h : e ∈ (mkClass [root] decls).prefixes) : e ∈ ownPrefixes decls ∨ e ∈ root.prefixes := by
  unfold mkClass at h
  simp only [List.foldl_cons, List.foldl_nil] at h
  have hm := mem_sortPrefixes.mp h
  have : ∃ t, Map.get (mergePrefixes (ownPrefixes decls) root.prefixes) [] = some t := by
    rw [mergePrefixes_get]
    cases hown : Map.get (ownPrefixes decls) [] with
    | some t => exact ⟨t, rfl⟩
    | none =>
      obtain ⟨t, ht⟩ := htot
      exact Map.get_isSome_of_mem (e := ([], t)) ht
  obtain ⟨t, ht⟩ := this
  rw [ensureDefault_of_get ht] at hm
  exact mergePrefixes_mem hm

theorem chain_total {root : Cls} (htot : Total root) (levels : List (List (Name × Trait))) :
    Total (chain root levels) := by
  induction levels generalizing root with
  | nil => exact htot
  | cons d rest ih => exact ih (Total_mkClass _ _)

theorem chain_prefix_mem {root : Cls} (htot : Total root) {levels : List (List (Name × Trait))}
    {e : Name × Trait} (h : e ∈ (chain root levels).prefixes) :
    (∃ l ∈ levels, e ∈ ownPrefixes l) ∨ e ∈ root.prefixes := by
  induction levels generalizing root with
  | nil => exact Or.inr h
  | cons d rest ih =>
    rcases ih (Total_mkClass _ _) h with ⟨l, hl, he⟩ | he
    · exact Or.inl ⟨l, List.mem_cons_of_mem _ hl, he⟩
    · rcases mkClass1_prefix_mem htot he with he | he
      · exact Or.inl ⟨d, List.mem_cons_self, he⟩
      · exact Or.inr he

theorem chain_ctraits_none {root : Cls} {name : Name} (hroot : root.ctraits.get name = none)
    {levels : List (List (Name × Trait))} (hown : ∀ l ∈ levels, (ownTraits l).get name = none) :
    (chain root levels).ctraits.get name = none := by
  induction levels generalizing root with
  | nil => exact hroot
  | cons d rest ih =>
    apply ih
    · rw [mkClass_ctraits_get, hown d List.mem_cons_self]
      simp [firstSome, hroot]
    · intro l hl; exact hown l (List.mem_cons_of_mem _ hl)

theorem chain_sorted {root : Cls} (hs : Sorted root.prefixes) (levels : List (List (Name × Trait))) :
    Sorted (chain root levels).prefixes := by
  induction levels generalizing root with
  | nil => exact hs
  | cons d rest ih => exact ih (mkClass_sorted _ _)

/-- A wildcard prefix of the root stays a key of the table of every derived
class (possibly with a redeclared trait). -/
theorem mkClass1_prefix_key {root : Cls} (d : List (Name × Trait)) {k : Name}
    (h : ∃ t, (k, t) ∈ root.prefixes) : ∃ t, (k, t) ∈ (mkClass [root] d).prefixes := by
  obtain ⟨t0, h0⟩ := h
  have : ∃ t, Map.get (mergePrefixes (ownPrefixes d) root.prefixes) k = some t := by
    rw [mergePrefixes_get]
    cases Map.get (ownPrefixes d) k with
    | some t => exact ⟨t, rfl⟩
    | none => exact Map.get_isSome_of_mem (e := (k, t0)) h0
  obtain ⟨t, ht⟩ := this
  refine ⟨t, ?_⟩
  unfold mkClass
  simp only [List.foldl_cons, List.foldl_nil]
  apply mem_sortPrefixes.mpr
  have hmm := Map.mem_of_get ht
  unfold ensureDefault
  cases Map.get (mergePrefixes (ownPrefixes d) root.prefixes) [] with
  | some _ => exact hmm
  | none => exact List.mem_append_left _ hmm

theorem chain_prefix_key {root : Cls} (levels : List (List (Name × Trait))) {k : Name}
    (h : ∃ t, (k, t) ∈ root.prefixes) : ∃ t, (k, t) ∈ (chain root levels).prefixes := by
  induction levels generalizing root with
  | nil => exact h
  | cons d rest ih => exact ih (mkClass1_prefix_key d h)

/-- For a name no class of the chain declares, exactly or by a matching
wildcard, the class-level rule is the root's wildcard rule. -/
theorem chain_classGov {P : Trait → Prop} {root : Cls} (htot : Total root) {name : Name}
    (hdu : isDunder name = false) (hroot : root.ctraits.get name = none)
    (hrootP : ∀ e ∈ root.prefixes, e.1 <+: name →
      (∀ e' ∈ root.prefixes, e'.1 <+: name → e'.1.length ≤ e.1.length) → P e.2)
    (hs : Sorted root.prefixes)
    {levels : List (List (Name × Trait))} (hown : ∀ l ∈ levels, (ownTraits l).get name = none)
    (hwild : ∀ l ∈ levels, ∀ e ∈ ownPrefixes l, ¬ e.1 <+: name) :
    ClassGov P (chain root levels) name := by
  intro t ht
  rw [chain_ctraits_none hroot hown] at ht
  rcases ht with ht | ⟨_, b, ht⟩
  · cases ht
  · unfold resolve₀ at ht
    simp only [hdu] at ht
    cases hf : firstMatch (chain root levels).prefixes name with
    | none => rw [hf] at ht; simp at ht
    | some e =>
      rw [hf] at ht; simp at ht; subst ht
      obtain ⟨hm, hp⟩ := firstMatch_some hf
      have hmax := firstMatch_longest (chain_sorted hs levels) hf
      rcases chain_prefix_mem htot hm with ⟨l, hl, he⟩ | he
      · exact absurd hp (hwild l hl e he)
      · apply hrootP e he hp
        intro e' he' hp'
        -- the prefix of e' is still a key of the derived class's table, so the first match is at least as long
        obtain ⟨t'', h''⟩ := chain_prefix_key levels (k := e'.1) ⟨e'.2, he'⟩
        exact hmax (e'.1, t'') h'' hp'

/-! ### the sample environment and the initial world -/

/-- The environment of the line-protocol driver: validator 0 = "is an int",
1 = "is a str"; no type attributes; delegates unreachable. -/
def Env.sample : Env :=
  { validate := fun i _ v =>
      match i, v with
      | 0, .int n => .ok (.int n)
      | 1, .str s => .ok (.str s)
      | _, _ => .error .traitError
    classAttr := fun _ => none
    delegGet := fun _ _ => .error .attributeError
    delegSet := fun _ _ => .error .traitError }

theorem clean_clsHasTraits : Clean clsHasTraits := mkClass_clean _ (by intro b hb; cases hb)

theorem clean_clsHasStrictTraits : Clean clsHasStrictTraits :=
  mkClass_clean _ (by intro b hb; simp at hb; subst hb; exact clean_clsHasTraits)

theorem clean_clsHasPrivateTraits : Clean clsHasPrivateTraits :=
  mkClass_clean _ (by intro b hb; simp at hb; subst hb; exact clean_clsHasTraits)

theorem allClean_init : AllClean World.init := by
  intro c hc
  simp [World.init] at hc
  rcases hc with hc | hc | hc <;> subst hc
  · exact clean_clsHasTraits
  · exact clean_clsHasStrictTraits
  · exact clean_clsHasPrivateTraits

theorem noDeleg_init : NoDeleg World.init := by
  constructor
  · intro c hc
    simp [World.init] at hc
    rcases hc with hc | hc | hc <;> subst hc
    · exact mkClass_plain (by intro b hb; cases hb) (by decide)
    · exact mkClass_plain (by intro b hb; simp at hb; subst hb;
                               exact mkClass_plain (by intro b hb; cases hb) (by decide)) (by decide)
    · exact mkClass_plain (by intro b hb; simp at hb; subst hb;
                               exact mkClass_plain (by intro b hb; cases hb) (by decide)) (by decide)
  · intro o ho; simp [World.init] at ho
  · intro o ho; simp [World.init] at ho

theorem inv_init : Inv World.init := by
  refine ⟨noDeleg_init, ?_⟩
  intro c hc
  simp [World.init] at hc
  rcases hc with hc | hc | hc <;> subst hc
  · exact mkClass_inv _ (by intro b hb; cases hb)
  · exact mkClass_inv _ (by intro b hb; simp at hb; subst hb; exact clean_clsHasTraits)
  · exact mkClass_inv _ (by intro b hb; simp at hb; subst hb; exact clean_clsHasTraits)

end TraitsVerif.Model.Resolve
