/-
Source tie of the Python-level validate methods, part 4: the loops — Tuple.validate
(generator over zip(types, value)), Union.validate, TraitCompound.validate / slow_validate
(first alternative that does not raise TraitError) — and Callable.validate through its
super() call; assembly over all covered trait types.
-/
import TraitsVerif.Lemmas.ValPySrc3
namespace TraitsVerif.Model.PyVSrc
open TraitsVerif TraitsVerif.Py.Value TraitsVerif.Model.Val TraitsVerif.Generated.PyValidators
set_option maxHeartbeats 1600000
variable (E : Env)

/-- First result that is not a TraitError; TraitError when there is none. -/
def firstOk (v : Val) : List (Val → Res) → Res
  | [] => .traitError
  | g :: gs => match g v with | .traitError => firstOk v gs | r => r

/-- The alternatives loop (`for x in xs: try: return x(...) except TraitError: pass`),
stated on the semantics of its body. -/
theorem forEach_first {R : Type} (step : (Val → Res) → List PV → (List PV → R) → R)
    (kn : List PV → R) (kr : PV → R) (ke : PExc → R) (a b c d : PV) (v : Val) (K : R)
    (hb : ∀ g x kn', step g [a, b, c, d, x] kn' =
      match g v with
      | .ok w => kr (.val w)
      | .traitError => kn' [a, b, c, d, .fnv g]
      | .raised e => if e = .traitError then kn' [a, b, c, d, .fnv g] else ke (.ex e))
    (hkn : ∀ x, kn [a, b, c, d, x] = K) :
    ∀ (gs : List (Val → Res)) (x : PV), (∀ g ∈ gs, g v ≠ .raised .traitError) →
      forEach step gs [a, b, c, d, x] kn =
      match firstOk v gs with
      | .ok w => kr (.val w)
      | .traitError => K
      | .raised e => ke (.ex e) := by
  intro gs
  induction gs with
  | nil => intro x _; simp [forEach, firstOk, hkn]
  | cons g gs ih =>
    intro x hte
    have hg := hte g (by simp)
    have ih' := fun y => ih y (fun g' hg' => hte g' (by simp [hg']))
    simp only [forEach, hb, firstOk]
    cases hgv : g v with
    | ok w => simp
    | traitError => simp [ih']
    | raised e =>
      have : e ≠ .traitError := fun he => hg (by rw [hgv, he])
      simp [this]

theorem unionFirst_eq (alts : List TraitType) (v : Val) :
    unionFirst E alts v = firstOk v (alts.map (fun t => ctraitValidate E t)) := by
  induction alts with
  | nil => simp [unionFirst, firstOk]
  | cons t ts ih =>
    simp only [unionFirst, List.map_cons, firstOk]
    have hct : ctraitValidateWith E (descOf E t) (hasPy t) (fun x => pyValidate E t x) v = ctraitValidate E t v := rfl
    rw [hct, ih]
    cases ctraitValidate E t v <;> rfl

theorem py_union (alts : List TraitType) (v : Val)
    (hte : ∀ g ∈ alts.map (fun t => ctraitValidate E t), g v ≠ .raised .traitError) :
    srcPy E (.union alts) v = some (pyValidate E (.union alts) v) := by
  py_start m_Union_validate "Union.validate"
  pyv_eval
  rw [forEach_first _ _ (fun w => MRes.ret w) (fun e => MRes.exc e) .self_ .hobj .name (.val v) v (MRes.exc .te)
    ?hb (fun _ => rfl) _ .undef hte]
  case hb =>
    intro g x kn'
    simp [callFn]
    cases hgv : g v with
    | ok w => simp
    | traitError => simp
    | raised e => cases e <;> simp [Exc.name]
  simp only [pyValidate, unionFirst_eq]
  cases firstOk v (alts.map fun t => ctraitValidate E t) <;> simp

theorem pySel_eq (want : Bool) (hs : List TraitType) (v : Val) :
    pySel E want hs v = firstOk v ((hs.filter (fun t => (descOf E t).isSome == want)).map
      (fun t x => if want || hasPy t then pyValidate E t x else .ok x)) := by
  induction hs with
  | nil => simp [pySel, firstOk]
  | cons t ts ih =>
    simp only [pySel, List.filter_cons]
    by_cases hd : ((descOf E t).isSome == want) = true
    · simp only [hd, if_true, List.map_cons, firstOk, ih]
      cases (if (want || hasPy t) = true then pyValidate E t v else Res.ok v) <;> rfl
    · simp only [hd, if_false, ih]
      simp

theorem py_slow_validate (cfg : String → PV) (n : Nat) (gs : List (Val → Res)) (v : Val)
    (h1 : cfg "slow_validates" = .fns gs) (hte : ∀ g ∈ gs, g v ≠ .raised .traitError) :
    runL E cfg (n + 1) "TraitCompound.slow_validate" [.self_, .hobj, .name, .val v] = resToM (firstOk v gs) := by
  have hl : table.lookup "TraitCompound.slow_validate" = some m_TraitCompound_slow_validate := by rfl
  rw [runL_succ]
  simp only [hl, m_TraitCompound_slow_validate]
  pyv_eval
  simp only [h1]
  rw [forEach_first _ _ (fun w => MRes.ret w) (fun e => MRes.exc e) .self_ .hobj .name (.val v) v (MRes.exc .te)
    ?hb (fun _ => rfl) _ .undef hte]
  case hb =>
    intro g x kn'
    simp [callFn]
    cases hgv : g v with
    | ok w => simp
    | traitError => simp
    | raised e => cases e <;> simp [Exc.name]
  cases firstOk v gs <;> simp [resToM]

theorem py_compoundH (hs : List TraitType) (v : Val)
    (hte : ∀ t ∈ hs, pyValidate E t v ≠ .raised .traitError) :
    srcPy E (.compoundH hs) v = some (pyValidate E (.compoundH hs) v) := by
  py_start m_TraitCompound_validate "TraitCompound.validate"
  pyv_eval
  have hte1 : ∀ g ∈ (hs.filter (fun t => (descOf E t).isSome)).map (fun t => pyValidate E t),
      g v ≠ .raised .traitError := by
    intro g hg
    obtain ⟨t, ht, rfl⟩ := List.mem_map.mp hg
    exact hte t (List.mem_filter.mp ht).1
  have hte2 : ∀ g ∈ (hs.filter (fun t => (descOf E t).isNone)).map
      (fun t x => if hasPy t = true then pyValidate E t x else Res.ok x), g v ≠ .raised .traitError := by
    intro g hg
    obtain ⟨t, ht, rfl⟩ := List.mem_map.mp hg
    have := hte t (List.mem_filter.mp ht).1
    by_cases hp : hasPy t = true <;> simp [hp, this]
  rw [forEach_first _ _ (fun w => MRes.ret w) (fun e => MRes.exc e) .self_ .hobj .name (.val v) v ?K
    ?hb ?hkn _ .undef hte1]
  case hkn =>
    intro x
    simp only [List.getElem?_cons_succ, List.getElem?_cons_zero, Option.getD_some]
    rfl
  case hb =>
    intro g x kn'
    simp [callFn]
    cases hgv : g v with
    | ok w => simp
    | traitError => simp
    | raised e => cases e <;> simp [Exc.name]
  simp only [callOut]
  rw [py_slow_validate E _ 1 _ v rfl hte2]
  simp only [pyValidate, pySel_eq]
  simp
  have e1 : ∀ L : List TraitType, List.map (fun t x => pyValidate E t x) L = List.map (fun t => pyValidate E t) L :=
    fun _ => rfl
  simp only [e1]
  cases firstOk v (List.map (fun t => pyValidate E t) (List.filter (fun t => (descOf E t).isSome) hs)) <;> simp
  cases firstOk v (List.map (fun t x => if hasPy t = true then pyValidate E t x else Res.ok x)
    (List.filter (fun t => (descOf E t).isNone) hs)) <;> simp [resToM]


/-- Element-wise validation (what the generator over `zip(types, value)` computes). -/
def elemsL : List (Val → Res) → List Val → Except (Option Exc) (List Val)
  | g :: gs, b :: bs =>
    match g b with
    | .traitError => .error none
    | .raised e => .error (some e)
    | .ok a => match elemsL gs bs with | .error x => .error x | .ok as => .ok (a :: as)
  | _, _ => .ok []

theorem ctraitValidateL_eq (items : List TraitType) (vs : List Val) :
    ctraitValidateL E items vs = elemsL (items.map (fun t => ctraitValidate E t)) vs := by
  induction items generalizing vs with
  | nil => cases vs <;> simp [ctraitValidateL, elemsL]
  | cons t ts ih =>
    cases vs with
    | nil => simp [ctraitValidateL, elemsL]
    | cons b bs =>
      simp only [ctraitValidateL, List.map_cons, elemsL]
      have hct : ctraitValidateWith E (descOf E t) (hasPy t) (fun x => pyValidate E t x) b = ctraitValidate E t b := rfl
      rw [hct, ih]
      cases ctraitValidate E t b <;> rfl

theorem map_pvToVal : ∀ ws : List Val, List.map pvToVal (List.map PV.val ws) = ws
  | [] => rfl
  | w :: ws => by simp [pvToVal, map_pvToVal ws]

theorem elemsL_raised : ∀ (gs : List (Val → Res)) (vs : List Val) (e : Exc),
    elemsL gs vs = .error (some e) → ∃ g ∈ gs, ∃ b, g b = .raised e
  | [], _, e, h => by simp [elemsL] at h
  | _ :: _, [], e, h => by simp [elemsL] at h
  | g :: gs, b :: bs, e, h => by
    simp only [elemsL] at h
    cases hgb : g b with
    | traitError => simp [hgb] at h
    | raised e' => simp [hgb] at h; subst h; exact ⟨g, by simp, b, hgb⟩
    | ok a =>
      simp only [hgb] at h
      cases hr : elemsL gs bs with
      | ok ws => simp [hr] at h
      | error x =>
        simp [hr] at h; subst h
        obtain ⟨g', hg', b', hb'⟩ := elemsL_raised gs bs e hr
        exact ⟨g', by simp [hg'], b', hb'⟩

theorem zipEval_elems {R : Type} (f : (Val → Res) → Val → (PV → R) → (PExc → R) → R)
    (hf : ∀ g b k' ke', f g b k' ke' =
      match g b with
      | .ok w => k' (.val w)
      | .traitError => ke' .te
      | .raised e => ke' (.ex e)) :
    ∀ (gs : List (Val → Res)) (vs : List Val) (k : List PV → R) (ke : PExc → R),
      zipEval f gs vs k ke =
        match elemsL gs vs with
        | .ok ws => k (ws.map PV.val)
        | .error none => ke .te
        | .error (some e) => ke (.ex e) := by
  intro gs
  induction gs with
  | nil => intro vs k ke; simp [zipEval, elemsL]
  | cons g gs ih =>
    intro vs k ke
    cases vs with
    | nil => simp [zipEval, elemsL]
    | cons b bs =>
      simp only [zipEval, hf, elemsL]
      cases hgb : g b with
      | traitError => simp
      | raised e => simp
      | ok a =>
        simp only [ih]
        cases elemsL gs bs with
        | ok ws => simp
        | error x => cases x <;> simp

theorem py_tuple (items : List TraitType) (v : Val)
    (hte : ∀ t ∈ items, ∀ x, ctraitValidate E t x ≠ .raised .traitError) :
    srcPy E (.tuple items) v = some (pyValidate E (.tuple items) v) := by
  py_start m_Tuple_validate "Tuple.validate"
  rcases v with a | ⟨sub, vs⟩ | ws
  · pyv_eval
    simp [Val.isInst, pyValidate]
  · pyv_eval
    simp only [Val.isInst, pyValidate]
    have hlen : ((vs.length : Int) = items.length) ↔ (vs.length = items.length) := by omega
    simp only [hlen]
    by_cases hl : vs.length = items.length
    · simp only [hl, if_true]
      simp
      rw [zipEval_elems _ (by intro g b k' ke'; simp [callFn]; cases g b <;> rfl)]
      rw [ctraitValidateL_eq]
      cases hel : elemsL (List.map (fun t => ctraitValidate E t) items) vs with
      | ok ws =>
        simp
        have := map_pvToVal ws
        simpa [List.map_map] using this
      | error x =>
        cases x with
        | none => simp
        | some e =>
          obtain ⟨g, hg, b, hgb⟩ := elemsL_raised _ _ e hel
          obtain ⟨t, ht, rfl⟩ := List.mem_map.mp hg
          have hne : e ≠ .traitError := fun he => hte t ht b (by rw [hgb, he])
          cases e <;> simp [Exc.name] at hne ⊢
    · simp [hl]
  · pyv_eval
    simp [Val.isInst, pyValidate]

theorem builtin_callable {R : Type} (C : Ctx) (v : Val) (k : PV → R) (ke : PExc → R) :
    builtin C "callable" [.val v] k ke = k (.bool v.callable) := by
  unfold builtin
  simp

macro "pyv_evalB" : tactic => `(tactic|
  simp [srcPy, pyMethodOf, runMethod, exec, handle, evalE, evalArgs, builtin_callable, pvIn, ofExcept,
    specMatches, excMatches, globOf, attrOf, pvIs, pvLt, pvLe, pvEq, selfCfg, selfCfgE, optFloat, optInt, PV.truthy, toRes])

theorem py_baseCallable (cfg : String → PV) (n : Nat) (v : Val) :
    runL E cfg (n + 1) "BaseCallable.validate" [.self_, .hobj, .name, .val v] =
      (if v.isNone || v.callable then .ret (.val v) else .exc .te) := by
  have hl : table.lookup "BaseCallable.validate" = some m_BaseCallable_validate := by rfl
  rw [runL_succ]
  simp only [hl, m_BaseCallable_validate]
  pyv_evalB
  simp only [isNone_iff']
  cases v.isNone <;> cases v.callable <;> simp

theorem py_callable (an : Bool) (v : Val) :
    srcPy E (.callable an) v = some (pyValidate E (.callable an) v) := by
  py_start m_Callable_validate "Callable.validate"
  pyv_evalB
  simp only [callOut, py_baseCallable, pyValidate, isNone_iff']
  cases an <;> cases v.isNone <;> cases v.callable <;> simp [toRes]

/-! ## Assembly, fourth part -/

theorem firstOk_append (v : Val) (as bs : List (Val → Res)) :
    firstOk v (as ++ bs) = match firstOk v as with | .traitError => firstOk v bs | r => r := by
  induction as with
  | nil => simp [firstOk]
  | cons g gs ih =>
    simp only [List.cons_append, firstOk]
    cases g v <;> simp [ih]

/-- No member validator reports a TraitError as a foreign exception (`raised traitError`
is not a value a Python method can produce: a TraitError IS caught by `except TraitError`). -/
def noTE (E : Env) : TraitType → Val → Prop
  | .noFast t, v => noTE E t v
  | .tuple items, _ => ∀ t ∈ items, ∀ x, ctraitValidate E t x ≠ .raised .traitError
  | .union alts, v => ∀ t ∈ alts, ctraitValidate E t v ≠ .raised .traitError
  | .compoundH hs, v => ∀ t ∈ hs, pyValidate E t v ≠ .raised .traitError
  | _, _ => True

def pyCovered4 : TraitType → Bool
  | .noFast t => pyCovered4 t
  | .tuple _ | .union _ | .compoundH _ | .callable _ => true
  | t => pyCovered3 t

theorem srcPy_eq4 (hE : CastIdem E) (hA : ∀ v cls r, E.adapt v cls = .ok (some r) → r ≠ Val.none) :
    ∀ (t : TraitType) (v : Val), pyCovered4 t = true → noTE E t v → srcPy E t v = some (pyValidate E t v)
  | .noFast t, v, h, hn => by
    rw [srcPy_noFast, srcPy_eq4 hE hA t v (by simpa [pyCovered4] using h) (by simpa [noTE] using hn)]
    simp [pyValidate]
  | .tuple items, v, _, hn => py_tuple E items v (by simpa [noTE] using hn)
  | .union alts, v, _, hn => py_union E alts v (by
      intro g hg
      obtain ⟨t, ht, rfl⟩ := List.mem_map.mp hg
      have hn' : ∀ t ∈ alts, ctraitValidate E t v ≠ .raised .traitError := by simpa [noTE] using hn
      exact hn' t ht)
  | .compoundH hs, v, _, hn => py_compoundH E hs v (by simpa [noTE] using hn)
  | .callable an, v, _, _ => py_callable E an v
  | .int, v, h, _ | .float, v, h, _ | .complex, v, h, _ | .str, v, h, _ | .bytes, v, h, _ | .bool, v, h, _
  | .cint, v, h, _ | .cfloat, v, h, _ | .ccomplex, v, h, _ | .cstr, v, h, _ | .cbytes, v, h, _ | .cbool, v, h, _
  | .enum _, v, h, _ | .map .., v, h, _ | .noneTrait, v, h, _ | .this _, v, h, _
  | .rangeF .., v, h, _ | .rangeI .., v, h, _ | .type_ .., v, h, _ | .instance .., v, h, _
  | .any, v, h, _ | .baseTuple _, v, h, _
  | .validatedTuple .., v, h, _ | .tupleAny, v, h, _
  | .module, v, h, _ | .either .., v, h, _ | .string .., v, h, _ | .prefixList _, v, h, _
  | .prefixMap .., v, h, _ | .array .., v, h, _ | .coerceH _, v, h, _ | .castH _, v, h, _ | .instanceH .., v, h, _
  | .functionH _, v, h, _ | .enumH _, v, h, _ | .mapH .., v, h, _ =>
    srcPy_eq3 E hE hA _ v (by simpa [pyCovered4] using h)

/-- The alternatives loops of the Python source compute "first accepting alternative". -/
theorem srcPy_union_first (alts : List TraitType) (v : Val)
    (hn : ∀ t ∈ alts, ctraitValidate E t v ≠ .raised .traitError) :
    srcPy E (.union alts) v = some (firstOk v (alts.map (fun t => ctraitValidate E t))) := by
  rw [py_union E alts v (by
      intro g hg
      obtain ⟨t, ht, rfl⟩ := List.mem_map.mp hg
      exact hn t ht)]
  simp [pyValidate, unionFirst_eq]

theorem srcPy_compound_first (hs : List TraitType) (v : Val)
    (hn : ∀ t ∈ hs, pyValidate E t v ≠ .raised .traitError) :
    srcPy E (.compoundH hs) v = some (firstOk v
      ((hs.filter (fun t => (descOf E t).isSome)).map (fun t => pyValidate E t) ++
       (hs.filter (fun t => !(descOf E t).isSome)).map (fun t x => if hasPy t then pyValidate E t x else .ok x))) := by
  rw [py_compoundH E hs v hn, firstOk_append]
  simp only [pyValidate, pySel_eq]
  simp
  have e1 : ∀ L : List TraitType, List.map (fun t x => pyValidate E t x) L = List.map (fun t => pyValidate E t) L :=
    fun _ => rfl
  simp only [e1]
  cases firstOk v (List.map (fun t => pyValidate E t) (List.filter (fun t => (descOf E t).isSome) hs)) <;> rfl

end TraitsVerif.Model.PyVSrc

