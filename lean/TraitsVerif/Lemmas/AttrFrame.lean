/-
Helper lemmas for C10, part 1: frame properties that hold for EVERY
environment (arbitrary handlers — raising, self-removing — arbitrary exception
handler configuration): what a round of notifications can change, and that a
notification with `old = Uninitialized` changes nothing at all.
-/
import TraitsVerif.Model.SetAttr
namespace TraitsVerif.Model.Attr
open TraitsVerif

/-- `s'` differs from `s` at most in the instance-trait notifier list, the
object notifier list and by new log entries about this very object. -/
structure NFrame (s s' : OSt) : Prop where
  self : s'.self = s.self
  name : s'.name = s.name
  slot : s'.slot = s.slot
  cn : s'.cn = s.cn
  nn : s'.noNotify = s.noNotify
  alloc : s'.ctx.alloc = s.ctx.alloc
  heap : s'.ctx.heap = s.ctx.heap
  frozen : s'.ctx.frozen = s.ctx.frozen
  postLog : s'.ctx.postLog = s.ctx.postLog
  fcalls : s'.ctx.fcalls = s.ctx.fcalls
  nval : s'.ctx.nval = s.ctx.nval
  log : ∃ l, s'.ctx.log = s.ctx.log ++ l ∧ ∀ c ∈ l, c.obj = s.self

theorem NFrame.refl (s : OSt) : NFrame s s :=
  ⟨rfl, rfl, rfl, rfl, rfl, rfl, rfl, rfl, rfl, rfl, rfl, [], by simp, by simp⟩

theorem NFrame.trans {a b c : OSt} (h1 : NFrame a b) (h2 : NFrame b c) : NFrame a c := by
  obtain ⟨l1, e1, m1⟩ := h1.log
  obtain ⟨l2, e2, m2⟩ := h2.log
  refine ⟨h2.self.trans h1.self, h2.name.trans h1.name, h2.slot.trans h1.slot, h2.cn.trans h1.cn,
    h2.nn.trans h1.nn, h2.alloc.trans h1.alloc, h2.heap.trans h1.heap, h2.frozen.trans h1.frozen,
    h2.postLog.trans h1.postLog, h2.fcalls.trans h1.fcalls, h2.nval.trans h1.nval, l1 ++ l2, ?_, ?_⟩
  · rw [e2, e1, List.append_assoc]
  · intro c hc
    rcases List.mem_append.mp hc with h | h
    · exact m1 c h
    · rw [m2 c h, h1.self]

theorem NFrame.ensureItrait (s : OSt) : NFrame s s.ensureItrait := by
  unfold OSt.ensureItrait
  cases s.it <;> exact ⟨rfl, rfl, rfl, rfl, rfl, rfl, rfl, rfl, rfl, rfl, rfl, [], by simp, by simp⟩

theorem NFrame.removeSelf (s : OSt) (n : Notifier) (loc : Loc) : NFrame s (s.removeSelf n loc) := by
  unfold OSt.removeSelf
  cases loc with
  | o => exact ⟨rfl, rfl, rfl, rfl, rfl, rfl, rfl, rfl, rfl, rfl, rfl, [], by simp, by simp⟩
  | t =>
    have h := NFrame.ensureItrait s
    exact ⟨h.self, h.name, h.slot, h.cn, h.nn, h.alloc, h.heap, h.frozen, h.postLog, h.fcalls, h.nval, h.log⟩

theorem NFrame.addLog (s : OSt) (c : Call) (hc : c.obj = s.self) :
    NFrame s { s with ctx := { s.ctx with log := s.ctx.log ++ [c] } } :=
  ⟨rfl, rfl, rfl, rfl, rfl, rfl, rfl, rfl, rfl, rfl, rfl, [c], rfl, by simp [hc]⟩

theorem callWrapper_frame (E : Env) (t : TraitCore) (n : Notifier) (loc : Loc) (old new : Id) (s : OSt) :
    NFrame s (callWrapper E t n loc old new s).2 := by
  unfold callWrapper
  cases hk : n.kind
  case observe =>
    simp only []
    split
    · exact NFrame.refl s
    · have h1 := NFrame.addLog s ⟨s.self, n.h, old, new⟩ rfl
      split
      · exact h1
      · exact h1.trans (NFrame.removeSelf _ n loc)
      · split <;> exact h1
  all_goals
    simp only []
    split
    · exact NFrame.refl s
    · have h0 := NFrame.ensureItrait s
      split
      · exact h0
      · have h1 : NFrame s { s.ensureItrait with ctx := { s.ensureItrait.ctx with
            log := s.ensureItrait.ctx.log ++ [⟨s.self, n.h, old, new⟩] } } :=
          h0.trans (NFrame.addLog _ ⟨s.self, n.h, old, new⟩ h0.self.symm)
        split
        · exact h1
        · split
          · exact h1
          · exact h1.trans (NFrame.removeSelf _ n loc)
        · split <;> exact h1

theorem notifyLoop_frame (E : Env) (t : TraitCore) (old new : Id) :
    ∀ (ns : List (Notifier × Loc)) (s : OSt), NFrame s (notifyLoop E t old new ns s).2
  | [], s => NFrame.refl s
  | (n, loc) :: rest, s => by
    rw [notifyLoop]
    split
    · exact NFrame.refl s
    · have h1 := callWrapper_frame E t n loc old new s
      cases hc : callWrapper E t n loc old new s with
      | mk r s1 =>
        rw [hc] at h1
        cases r with
        | some e => exact h1
        | none => exact h1.trans (notifyLoop_frame E t old new rest s1)

theorem callNotifiers_frame (E : Env) (t : TraitCore) (tn on : Option (List Notifier)) (old new : Id) (s : OSt) :
    NFrame s (callNotifiers E t tn on old new s).2 := by
  unfold callNotifiers
  split
  · exact NFrame.refl s
  · exact notifyLoop_frame E t old new _ s

/-- The raw notification of a default read, `(Uninitialized, value)`, is dropped
by every wrapper before anything happens — for every environment. -/
theorem callWrapper_uninit (E : Env) (t : TraitCore) (n : Notifier) (loc : Loc) (new : Id) (s : OSt) :
    callWrapper E t n loc uninit new s = (none, s) := by
  unfold callWrapper preventEvent
  cases n.kind <;> simp

theorem notifyLoop_uninit (E : Env) (t : TraitCore) (new : Id) :
    ∀ (ns : List (Notifier × Loc)) (s : OSt), notifyLoop E t uninit new ns s = (none, s)
  | [], _ => rfl
  | (n, loc) :: rest, s => by
    rw [notifyLoop, callWrapper_uninit]
    simp only [notifyLoop_uninit E t new rest s]
    split <;> rfl

theorem callNotifiers_uninit' (E : Env) (t : TraitCore) (tn on : Option (List Notifier)) (new : Id) (s : OSt) :
    callNotifiers E t tn on uninit new s = (none, s) := by
  unfold callNotifiers
  rw [notifyLoop_uninit]
  split <;> rfl

end TraitsVerif.Model.Attr
