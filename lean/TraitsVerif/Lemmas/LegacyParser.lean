/-
The interpreted `ListenerParser` (Model/ParL.lean on Generated/LegacyProg.lean) on the names of
C16's fragment `a₀ c₀ a₁ c₁ … final` (cᵢ ∈ {'.', ':'}): helper lemmas for `C16_parser_is_source`.
-/
import TraitsVerif.Lemmas.LegacySource
namespace TraitsVerif.Model.ParL
open TraitsVerif.Generated.LegacyProg List
open TraitsVerif.Model.Legacy (LType typeOf)

def sepTok (notify : Bool) : Tok := if notify then .dot else .colon

/-- The token string of an extended name of the fragment. -/
def toksOf : List (Nat × Bool) → Nat → List Tok
  | [], fin => [.name fin]
  | (a, n) :: ls, fin => .name a :: sepTok n :: toksOf ls fin

/-- A plain chain: the head item with the given type / deferred flag, every later item
`ANY_LISTENER`, not deferred. -/
def chainFrom (any : Nat) (ty : Nat) (d : Bool) : List (Nat × Bool) → Nat → LTree
  | [], fin => .item { name := some fin, type := ty, deferred := d } .nil
  | (a, n) :: ls, fin => .item { name := some a, notify := n, type := ty, deferred := d } (chainFrom any any false ls fin)

theorem parseItem_last (f : Nat) (before : List Tok) (ty : Nat) (d : Bool) (fin : Nat) :
    parseItem pprog (f + 1) ⟨.eos, d, ty⟩ ⟨before, [.name fin]⟩ =
      some (chainFrom pprog.anyListener ty d [] fin, ⟨.name fin :: before, []⟩) := by
  rfl

theorem parseItem_chain : ∀ (ls : List (Nat × Bool)) (fin f : Nat) (before : List Tok) (ty : Nat) (d : Bool),
    ls.length < f →
    parseItem pprog f ⟨.eos, d, ty⟩ ⟨before, toksOf ls fin⟩ =
      some (chainFrom pprog.anyListener ty d ls fin, ⟨(toksOf ls fin).reverse ++ before, []⟩) := by
  intro ls
  induction ls with
  | nil =>
    intro fin f before ty d hf
    obtain ⟨f', rfl⟩ : ∃ f', f = f' + 1 := ⟨f - 1, by simp at hf; omega⟩
    simpa [toksOf] using parseItem_last f' before ty d fin
  | cons x ls ih =>
    intro fin f before ty d hf
    obtain ⟨a, n⟩ := x
    obtain ⟨f', rfl⟩ : ∃ f', f = f' + 1 := ⟨f - 1, by simp at hf; omega⟩
    have hrec := ih fin f' (sepTok n :: .name a :: before) pprog.anyListener false (by simp at hf; omega)
    have hany : pprog.anyListener = 0 := rfl
    rw [hany] at hrec
    cases n <;>
      simp [parseItem, toksOf, sepTok, chainFrom, pprog, parse_item, execP, evalP, PS.read, PS.back, PS.lastName,
        Loc.getC, Loc.setC, Loc.getS, Loc.setS, Loc.getB, Loc.setB, LTree.setNotify] at hrec ⊢ <;>
      simp [hrec, LTree.setNext]

/-- `ListenerParser(text, deferred=d, handler_type=ty).listener` for a name of the fragment. -/
theorem parseSrc_chain (ls : List (Nat × Bool)) (fin : Nat) (ty : Nat) (d : Bool) :
    parseSrc pprog (toksOf ls fin) d ty = some (chainFrom pprog.anyListener ty d ls fin) := by
  have key : ∀ toks, toks = toksOf ls fin →
      (groupLoop pprog (parseItem pprog (toks.length + 2)) (toks.length + 2)
        ⟨.eos, pprog.parseGroupArgs.1.getD d, pprog.parseGroupArgs.2.getD ty⟩ ⟨[], toks⟩ []).map (·.1)
        = some (chainFrom pprog.anyListener ty d ls fin) := by
    intro toks ht
    have hlen : ls.length < toks.length + 2 := by
      subst ht
      clear d ty
      induction ls with
      | nil => simp [toksOf]
      | cons x ls ih => obtain ⟨a, n⟩ := x; simp [toksOf] at ih ⊢; omega
    have h := parseItem_chain ls fin (toks.length + 2) [] ty d hlen
    subst ht
    simp [groupLoop, pprog, PS.read] at h ⊢
    simp [h]
  match ls with
  | [] => simpa [parseSrc, toksOf] using key _ rfl
  | [(a, n)] => cases n <;> simp [parseSrc, toksOf, sepTok, chainFrom, pprog]
  | (a, n) :: (b, m) :: ls' =>
    have := key _ (rfl : toksOf ((a, n) :: (b, m) :: ls') fin = _)
    simpa [parseSrc, toksOf] using this

/-- The chain of the MODEL (`Model/Legacy.lean`): item `k` has `typeOf ty0 k` (only the first item
carries the handler's type), only the first item is deferred, `notify` = the connector after it. -/
def modelChain (ty0 : LType) (d : Bool) : Nat → List (Nat × Bool) → Nat → LTree
  | k, [], fin => .item { name := some fin, type := LisL.typeNum prog (typeOf ty0 k), deferred := d && k == 0 } .nil
  | k, (a, n) :: ls, fin =>
    .item { name := some a, notify := n, type := LisL.typeNum prog (typeOf ty0 k), deferred := d && k == 0 }
      (modelChain ty0 d (k + 1) ls fin)

theorem chainFrom_later (ty0 : LType) (d : Bool) : ∀ (ls : List (Nat × Bool)) (fin k : Nat), k ≠ 0 →
    chainFrom pprog.anyListener pprog.anyListener false ls fin = modelChain ty0 d k ls fin := by
  intro ls
  induction ls with
  | nil =>
    intro fin k hk
    have h1 : typeOf ty0 k = .any := by simp [typeOf, hk]
    have h2 : (k == 0) = false := by simp [hk]
    simp only [chainFrom, modelChain, h1, h2, Bool.and_false]; rfl
  | cons x ls ih =>
    intro fin k hk
    obtain ⟨a, n⟩ := x
    have h1 : typeOf ty0 k = .any := by simp [typeOf, hk]
    have h2 : (k == 0) = false := by simp [hk]
    simp only [chainFrom, modelChain, h1, h2, Bool.and_false, ih fin (k + 1) (by omega)]; rfl

theorem chainFrom_model (ty0 : LType) (d : Bool) (ls : List (Nat × Bool)) (fin : Nat) :
    chainFrom pprog.anyListener (LisL.typeNum prog ty0) d ls fin = modelChain ty0 d 0 ls fin := by
  cases ls with
  | nil => simp [chainFrom, modelChain, typeOf]
  | cons x ls =>
    obtain ⟨a, n⟩ := x
    simp [chainFrom, modelChain, typeOf, chainFrom_later ty0 d ls fin 1 (by omega)]

end TraitsVerif.Model.ParL
