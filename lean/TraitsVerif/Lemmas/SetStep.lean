/-
Step-level facts about `TraitSet.step`, one per clause of property C07; the
property theorems in `Props/C07.lean` are assembled from these.
-/
import TraitsVerif.Model.TraitSet
import TraitsVerif.Lemmas.SetPy
set_option linter.unusedSectionVars false
namespace TraitsVerif.Model.SetM
open TraitsVerif TraitsVerif.Py
open TraitsVerif.Py.PSet
variable {α : Type} [DecidableEq α]

/-! #### validators -/

theorem valAll_valid {v : Callback α α} {k : Nat} {xs ys : List α} (h : valAll v k xs = .ok ys) :
    ∀ y ∈ ys, TraitSet.ValidOut v y := by
  induction xs generalizing k ys with
  | nil => simp [valAll] at h; subst h; simp
  | cons x xs ih =>
    simp only [valAll] at h
    split at h <;> try cases h
    rename_i y hy
    split at h <;> try cases h
    rename_i ys' hys
    intro z hz
    rcases List.mem_cons.mp hz with hz | hz
    · subst hz; exact ⟨k, x, hy⟩
    · exact ih hys z hz

theorem valAll_fixed {v : Callback α α} {s : List α} (h : FixedOn v s) (k : Nat) : valAll v k s = .ok s := by
  induction s generalizing k with
  | nil => rfl
  | cons x s ih =>
    have hx : v k x = .ok x := h k x (by simp)
    have hs : FixedOn v s := fun n y hy => h n y (List.mem_cons_of_mem _ hy)
    simp [valAll, hx, ih hs]

/-! #### the delta law for the three shapes of notification -/

theorem notifyRemoved_spec {s new : PSet α} (hsub : ∀ x ∈ new, x ∈ s) :
    (notifyRemoved new (diff s new)).items = new ∧ (notifyRemoved new (diff s new)).ret = none ∧
    (∀ e, (notifyRemoved new (diff s new)).event = some e → Delta s new e) ∧
    ((notifyRemoved new (diff s new)).event = none → Equiv new s) := by
  unfold notifyRemoved
  split
  · rename_i hlen
    refine ⟨rfl, rfl, ?_, by simp⟩
    intro e he; cases he
    refine ⟨fun x hx => (mem_diff.mp hx).1, by simp, ?_, .inl (by intro h; have h' : diff s new = [] := h; simp [h'] at hlen)⟩
    intro x; simp only [mem_diff, List.not_mem_nil, or_false]
    constructor
    · intro hx; exact ⟨hsub x hx, fun h => h.2 hx⟩
    · intro ⟨h1, h2⟩; exact Classical.byContradiction fun hn => h2 ⟨h1, hn⟩
  · rename_i hlen
    refine ⟨rfl, rfl, by simp, ?_⟩
    intro _ x
    have hnil : diff s new = [] := by
      cases hd : diff s new with
      | nil => rfl
      | cons y t => simp [hd] at hlen
    constructor
    · exact hsub x
    · intro hx
      apply Classical.byContradiction; intro hn
      have : x ∈ diff s new := mem_diff.mpr ⟨hx, hn⟩
      rw [hnil] at this; cases this

theorem notifyAdded_spec {s new added : PSet α} (h1 : ∀ x ∈ added, x ∉ s)
    (h2 : ∀ x, x ∈ new ↔ x ∈ s ∨ x ∈ added) :
    (notifyAdded new added).items = new ∧ (notifyAdded new added).ret = none ∧
    (∀ e, (notifyAdded new added).event = some e → Delta s new e) ∧
    ((notifyAdded new added).event = none → Equiv new s) := by
  unfold notifyAdded
  split
  · rename_i hlen
    refine ⟨rfl, rfl, ?_, by simp⟩
    intro e he; cases he
    refine ⟨by simp, h1, ?_, .inr (by intro h; have h' : added = [] := h; simp [h'] at hlen)⟩
    intro x; simp [h2 x]
  · rename_i hlen
    refine ⟨rfl, rfl, by simp, ?_⟩
    have hnil : added = [] := by
      cases added with
      | nil => rfl
      | cons y t => simp at hlen
    subst hnil
    intro _ x; simp [h2 x]

/-- What `symParts` returns. -/
theorem symParts_ok {v : Callback α α} {s : PSet α} {xs : List α} {removed added : PSet α}
    (h : symParts v s xs = .ok (removed, added)) :
    ∃ ws, valAll v 0 (symRaw s xs) = .ok ws ∧ removed = inter s (ofList xs) ∧
      added = diff (ofList ws) s := by
  unfold symParts at h
  simp only [] at h
  split at h <;> cases h
  rename_i ws hws
  exact ⟨ws, hws, rfl, rfl⟩

theorem sym_spec {s removed added new : PSet α} (hr : ∀ x ∈ removed, x ∈ s) (ha : ∀ x ∈ added, x ∉ s)
    (hnew : ∀ x, x ∈ new ↔ (x ∈ s ∧ x ∉ removed) ∨ x ∈ added) :
    ∀ o : SOut α, (o = (if (removed.isEmpty && added.isEmpty) = true then { items := new }
        else { items := new, event := some ⟨removed, added⟩ })) →
      o.items = new ∧ o.ret = none ∧ (∀ e, o.event = some e → Delta s new e) ∧
      (o.event = none → Equiv new s) := by
  intro o ho
  split at ho
  · rename_i hc
    subst ho
    simp only [Bool.and_eq_true, List.isEmpty_iff] at hc
    refine ⟨rfl, rfl, by simp, ?_⟩
    intro _ x; rw [hnew x, hc.1, hc.2]; simp
  · rename_i hc
    subst ho
    refine ⟨rfl, rfl, ?_, by simp⟩
    intro e he; cases he
    refine ⟨hr, ha, hnew, ?_⟩
    simp only [Bool.and_eq_true, List.isEmpty_iff, not_and] at hc
    by_cases h : removed = []
    · exact .inr (hc h)
    · exact .inl h

/-- Everything about one successful step: representation invariant, the delta
law for the notification, and no silent change. -/
theorem set_step_event {v : Callback α α} {s : PSet α} (hwf : WF s) {op : Op α} {o : SOut α}
    (h : TraitSet.step v s op = .ok o) :
    WF o.items ∧ (∀ e, o.event = some e → Delta s o.items e) ∧ (o.event = none → Equiv o.items s) := by
  cases op with
  | add x =>
    simp only [TraitSet.step] at h
    split at h <;> try cases h
    rename_i y _
    split at h <;> cases h
    · rename_i hy
      refine ⟨wf_insert hwf y, by simp, ?_⟩
      intro _ z; simp only [mem_insert]; constructor
      · rintro (h | h); exact h; exact h ▸ hy
      · exact .inl
    · rename_i hy
      refine ⟨wf_insert hwf y, ?_, by simp⟩
      intro e he; cases he
      exact ⟨by simp, by simpa using hy, fun z => by simp [mem_insert], .inr (by simp)⟩
  | discard x =>
    simp only [TraitSet.step] at h
    split at h <;> cases h
    · rename_i hx
      refine ⟨wf_erase hwf x, ?_, by simp⟩
      intro e he; cases he
      refine ⟨by simpa using hx, by simp, fun z => ?_, .inl (by simp)⟩
      simp [mem_erase]
    · rename_i hx
      refine ⟨wf_erase hwf x, by simp, ?_⟩
      intro _ z; simp only [mem_erase]; constructor
      · exact fun h => h.1
      · exact fun h => ⟨h, fun e => hx (e ▸ h)⟩
  | remove x =>
    simp only [TraitSet.step] at h
    split at h <;> cases h
    rename_i hx
    refine ⟨wf_erase hwf x, ?_, by simp⟩
    intro e he; cases he
    refine ⟨by simpa using hx, by simp, fun z => ?_, .inl (by simp)⟩
    simp [mem_erase]
  | pop hint =>
    simp only [TraitSet.step] at h
    split at h <;> cases h
    rename_i x hx
    have hm := popChoice_mem hx
    refine ⟨wf_erase hwf x, ?_, by simp⟩
    intro e he; cases he
    refine ⟨by simpa using hm, by simp, fun z => ?_, .inl (by simp)⟩
    simp [mem_erase]
  | clear =>
    simp only [TraitSet.step] at h
    split at h <;> cases h
    · rename_i he
      have hnil : ofList s = [] := List.isEmpty_iff.mp he
      have : s = [] := by
        cases s with
        | nil => rfl
        | cons y t =>
          have : y ∈ ofList (y :: t) := mem_ofList.mpr (by simp)
          rw [hnil] at this; cases this
      subst this
      exact ⟨wf_nil, by simp, fun _ => Equiv.refl _⟩
    · rename_i he
      refine ⟨wf_nil, ?_, by simp⟩
      intro e hev; cases hev
      refine ⟨fun x hx => mem_ofList.mp hx, by simp, fun z => by simp [mem_ofList],
        .inl (fun e => he (List.isEmpty_iff.mpr e))⟩
  | update args =>
    simp only [TraitSet.step] at h
    split at h <;> cases h
    rename_i ys _
    have := notifyAdded_spec (s := s) (new := union s (diff (ofList ys) s)) (added := diff (ofList ys) s)
      (fun x hx => (mem_diff.mp hx).2) (fun x => by simp [mem_union])
    obtain ⟨hi, _, hd, hn⟩ := this
    exact ⟨by rw [hi]; exact wf_union hwf _, by rw [hi]; exact hd, by rw [hi]; exact hn⟩
  | differenceUpdate args =>
    simp only [TraitSet.step] at h
    cases h
    obtain ⟨hi, _, hd, hn⟩ := notifyRemoved_spec (s := s) (new := args.foldl diff s)
      (fun x hx => (mem_foldl_diff.mp hx).1)
    exact ⟨by rw [hi]; exact wf_foldl_diff hwf _, by rw [hi]; exact hd, by rw [hi]; exact hn⟩
  | intersectionUpdate args =>
    simp only [TraitSet.step] at h
    cases h
    obtain ⟨hi, _, hd, hn⟩ := notifyRemoved_spec (s := s) (new := args.foldl inter s)
      (fun x hx => (mem_foldl_inter.mp hx).1)
    exact ⟨by rw [hi]; exact wf_foldl_inter hwf _, by rw [hi]; exact hd, by rw [hi]; exact hn⟩
  | symmetricDifferenceUpdate xs =>
    simp only [TraitSet.step] at h
    split at h <;> try cases h
    rename_i removed added hp
    obtain ⟨ws, _, hr, ha⟩ := symParts_ok hp
    have := sym_spec (s := s) (removed := removed) (added := added)
      (new := symm s (union removed added))
      (by subst hr; exact fun x hx => (mem_inter.mp hx).1)
      (by subst ha; exact fun x hx => (mem_diff.mp hx).2)
      (by subst hr ha; intro x; simp only [mem_symm, mem_union, mem_inter, mem_diff, mem_ofList]; grind)
      o (by split at h <;> cases h <;> simp_all)
    obtain ⟨hi, _, hd, hn⟩ := this
    exact ⟨by rw [hi]; exact wf_symm hwf _, by rw [hi]; exact hd, by rw [hi]; exact hn⟩
  | ior isSet xs =>
    simp only [TraitSet.step] at h
    split at h <;> try cases h
    split at h <;> cases h
    rename_i ys _
    have := notifyAdded_spec (s := s) (new := union s (ofList ys)) (added := diff (union s (ofList ys)) s)
      (fun x hx => (mem_diff.mp hx).2) (fun x => by simp only [mem_union, mem_diff, mem_ofList]; grind)
    obtain ⟨hi, _, hd, hn⟩ := this
    exact ⟨by rw [hi]; exact wf_union hwf _, by rw [hi]; exact hd, by rw [hi]; exact hn⟩
  | iand isSet xs =>
    simp only [TraitSet.step] at h
    split at h <;> cases h
    obtain ⟨hi, _, hd, hn⟩ := notifyRemoved_spec (s := s) (new := inter s xs)
      (fun x hx => (mem_inter.mp hx).1)
    exact ⟨by rw [hi]; exact wf_inter hwf _, by rw [hi]; exact hd, by rw [hi]; exact hn⟩
  | isub isSet xs =>
    simp only [TraitSet.step] at h
    split at h <;> cases h
    obtain ⟨hi, _, hd, hn⟩ := notifyRemoved_spec (s := s) (new := diff s xs)
      (fun x hx => (mem_diff.mp hx).1)
    exact ⟨by rw [hi]; exact wf_diff hwf _, by rw [hi]; exact hd, by rw [hi]; exact hn⟩
  | ixor isSet xs =>
    simp only [TraitSet.step] at h
    split at h <;> try cases h
    split at h <;> try cases h
    rename_i removed added hp
    obtain ⟨ws, _, hr, ha⟩ := symParts_ok hp
    have := sym_spec (s := s) (removed := removed) (added := added)
      (new := symm s (union added removed))
      (by subst hr; exact fun x hx => (mem_inter.mp hx).1)
      (by subst ha; exact fun x hx => (mem_diff.mp hx).2)
      (by subst hr ha; intro x; simp only [mem_symm, mem_union, mem_inter, mem_diff, mem_ofList]; grind)
      o (by split at h <;> cases h <;> simp_all)
    obtain ⟨hi, _, hd, hn⟩ := this
    exact ⟨by rw [hi]; exact wf_symm hwf _, by rw [hi]; exact hd, by rw [hi]; exact hn⟩

/-- A notification means the contents really changed. -/
theorem delta_not_equiv {pre post : PSet α} {e : SEvent α} (h : Delta pre post e) : ¬ Equiv post pre := by
  intro heq
  rcases h.nonempty with hne | hne
  · obtain ⟨x, hx⟩ := List.exists_mem_of_ne_nil _ hne
    have hpre := h.removed_sub x hx
    have := (heq x).mpr hpre
    rcases (h.post_eq x).mp this with ⟨_, h2⟩ | h2
    · exact h2 hx
    · exact h.added_new x h2 hpre
  · obtain ⟨x, hx⟩ := List.exists_mem_of_ne_nil _ hne
    have := (h.post_eq x).mpr (.inr hx)
    exact h.added_new x hx ((heq x).mp this)

/-! #### refinement -/

theorem ResEquiv.trans {a b c : Except Exc (PSet α × Option α)} (h1 : ResEquiv a b) (h2 : ResEquiv b c) :
    ResEquiv a c := by
  cases a with
  | error e =>
    cases b with
    | error e' => cases c with
      | error e'' => exact Eq.trans h1 h2
      | ok r => cases h2
    | ok r => cases h1
  | ok r =>
    cases b with
    | error e' => cases h1
    | ok r' => cases c with
      | error e'' => cases h2
      | ok r'' => exact ⟨h1.1.trans h2.1, h1.2.trans h2.2⟩

theorem ResEquiv.refl (a : Except Exc (PSet α × Option α)) : ResEquiv a a := by
  cases a with
  | error e => rfl
  | ok r => exact ⟨Equiv.refl _, rfl⟩

theorem resEquiv_of_congr {a b : PSet α} (h : Equiv a b) (op : Op α)
    (hint : match op with | .pop hint => a = [] ∨ ∃ x, hint = some x ∧ x ∈ a | _ => True) :
    ResEquiv (PSet.step a op) (PSet.step b op) := by
  have := step_congr h op hint
  cases h1 : PSet.step a op <;> cases h2 : PSet.step b op <;> simp only [h1, h2] at this <;>
    first | exact this | cases this

/-- Refinement of one step (property C07, first clause). -/
theorem set_step_refines (v : Callback α α) (s : PSet α) (op : Op α) (hyp : SymHyp v s op) :
    SetRefines v s op := by
  unfold SetRefines setReference setReferenceOn
  cases op with
  | add x =>
    simp only [TraitSet.step, validateSetOp]
    cases v 0 x with
    | error e => exact rfl
    | ok y => simp only []; split <;> exact ⟨Equiv.refl _, rfl⟩
  | discard x => simp only [TraitSet.step, validateSetOp, PSet.step]; split <;> exact ⟨Equiv.refl _, rfl⟩
  | remove x => simp only [TraitSet.step, validateSetOp, PSet.step]; split <;> first | exact ⟨Equiv.refl _, rfl⟩ | exact rfl
  | pop hint =>
    simp only [TraitSet.step, validateSetOp, PSet.step]
    cases popChoice s hint with
    | none => exact rfl
    | some x => exact ⟨Equiv.refl _, rfl⟩
  | clear => simp only [TraitSet.step, validateSetOp, PSet.step]; split <;> exact ⟨Equiv.refl _, rfl⟩
  | update args =>
    simp only [TraitSet.step, validateSetOp]
    cases valAll v 0 args.flatten with
    | error e => exact rfl
    | ok ys =>
      simp only [PSet.step, Except.map, SOut.proj]
      have := notifyAdded_spec (s := s) (new := union s (diff (ofList ys) s)) (added := diff (ofList ys) s)
        (fun x hx => (mem_diff.mp hx).2) (fun x => by simp [mem_union])
      rw [this.1, this.2.1]
      refine ⟨fun x => ?_, rfl⟩
      simp only [mem_union, mem_diff, mem_ofList, List.flatten_cons, List.flatten_nil, List.append_nil]
      grind
  | differenceUpdate args =>
    simp only [TraitSet.step, validateSetOp, PSet.step, Except.map, SOut.proj]
    have := notifyRemoved_spec (s := s) (new := args.foldl diff s) (fun x hx => (mem_foldl_diff.mp hx).1)
    rw [this.1, this.2.1]; exact ⟨Equiv.refl _, rfl⟩
  | intersectionUpdate args =>
    simp only [TraitSet.step, validateSetOp, PSet.step, Except.map, SOut.proj]
    have := notifyRemoved_spec (s := s) (new := args.foldl inter s) (fun x hx => (mem_foldl_inter.mp hx).1)
    rw [this.1, this.2.1]; exact ⟨Equiv.refl _, rfl⟩
  | symmetricDifferenceUpdate xs =>
    simp only [TraitSet.step, validateSetOp, symParts]
    simp only [SymHyp, symRaw] at hyp
    cases hws : valAll v 0 (diff (ofList xs) (inter s (ofList xs))) with
    | error e => exact rfl
    | ok ws =>
      have hy := hyp ws hws
      simp only [PSet.step]
      cases hc : ((inter s (ofList xs)).isEmpty && (diff (ofList ws) s).isEmpty) <;>
        simp only [Bool.false_eq_true, if_false, if_true, Except.map, SOut.proj] <;>
        refine ⟨fun x => ?_, rfl⟩ <;>
        simp only [mem_symm, mem_union, mem_inter, mem_diff, mem_ofList, List.mem_append] <;> grind
  | ior isSet xs =>
    cases isSet with
    | false => simp only [TraitSet.step, validateSetOp, PSet.step]; exact rfl
    | true =>
      simp only [TraitSet.step, validateSetOp, if_true]
      cases valAll v 0 xs with
      | error e => exact rfl
      | ok ys =>
        simp only [PSet.step, Except.map, SOut.proj, if_true]
        have := notifyAdded_spec (s := s) (new := union s (ofList ys)) (added := diff (union s (ofList ys)) s)
          (fun x hx => (mem_diff.mp hx).2) (fun x => by simp only [mem_union, mem_diff, mem_ofList]; grind)
        rw [this.1, this.2.1]
        exact ⟨fun x => by simp [mem_union, mem_ofList], rfl⟩
  | iand isSet xs =>
    cases isSet with
    | false => simp only [TraitSet.step, validateSetOp, PSet.step]; exact rfl
    | true =>
      simp only [TraitSet.step, validateSetOp, PSet.step, Except.map, SOut.proj, if_true]
      have := notifyRemoved_spec (s := s) (new := inter s xs) (fun x hx => (mem_inter.mp hx).1)
      rw [this.1, this.2.1]; exact ⟨Equiv.refl _, rfl⟩
  | isub isSet xs =>
    cases isSet with
    | false => simp only [TraitSet.step, validateSetOp, PSet.step]; exact rfl
    | true =>
      simp only [TraitSet.step, validateSetOp, PSet.step, Except.map, SOut.proj, if_true]
      have := notifyRemoved_spec (s := s) (new := diff s xs) (fun x hx => (mem_diff.mp hx).1)
      rw [this.1, this.2.1]; exact ⟨Equiv.refl _, rfl⟩
  | ixor isSet xs =>
    cases isSet with
    | false => simp only [TraitSet.step, validateSetOp, PSet.step]; exact rfl
    | true =>
      simp only [TraitSet.step, validateSetOp, symParts, if_true]
      simp only [SymHyp, symRaw] at hyp
      cases hws : valAll v 0 (diff (ofList xs) (inter s (ofList xs))) with
      | error e => exact rfl
      | ok ws =>
        have hy := hyp ws hws
        simp only [PSet.step, if_true]
        cases hc : ((inter s (ofList xs)).isEmpty && (diff (ofList ws) s).isEmpty) <;>
          simp only [Bool.false_eq_true, if_false, if_true, Except.map, SOut.proj] <;>
          refine ⟨fun x => ?_, rfl⟩ <;>
          simp only [mem_symm, mem_union, mem_inter, mem_diff, mem_ofList, List.mem_append] <;> grind

/-- Invariant of property C04 for sets: members are validator outputs. -/
theorem set_step_valid_preserved (v : Callback α α) (s : PSet α) (op : Op α) (o : SOut α)
    (h : TraitSet.step v s op = .ok o) (hv : ∀ x ∈ s, TraitSet.ValidOut v x) :
    ∀ x ∈ o.items, TraitSet.ValidOut v x := by
  cases op with
  | add x =>
    simp only [TraitSet.step] at h
    split at h <;> try cases h
    rename_i y hy
    have : ∀ z ∈ insert s y, TraitSet.ValidOut v z := by
      intro z hz; rcases mem_insert.mp hz with hz | hz
      · exact hv z hz
      · subst hz; exact ⟨0, x, hy⟩
    split at h <;> cases h <;> exact this
  | discard x =>
    simp only [TraitSet.step] at h
    split at h <;> cases h <;> exact fun z hz => hv z (mem_erase.mp hz).1
  | remove x =>
    simp only [TraitSet.step] at h
    split at h <;> cases h; exact fun z hz => hv z (mem_erase.mp hz).1
  | pop hint =>
    simp only [TraitSet.step] at h
    split at h <;> cases h; exact fun z hz => hv z (mem_erase.mp hz).1
  | clear =>
    simp only [TraitSet.step] at h
    split at h <;> cases h <;> simp
  | update args =>
    simp only [TraitSet.step] at h
    split at h <;> cases h
    rename_i ys hys
    have hval := valAll_valid hys
    have := notifyAdded_spec (s := s) (new := union s (diff (ofList ys) s)) (added := diff (ofList ys) s)
      (fun x hx => (mem_diff.mp hx).2) (fun x => by simp [mem_union])
    rw [this.1]
    intro z hz
    rcases mem_union.mp hz with hz | hz
    · exact hv z hz
    · exact hval z (mem_ofList.mp (mem_diff.mp hz).1)
  | differenceUpdate args =>
    simp only [TraitSet.step] at h; cases h
    have := notifyRemoved_spec (s := s) (new := args.foldl diff s) (fun x hx => (mem_foldl_diff.mp hx).1)
    rw [this.1]; exact fun z hz => hv z (mem_foldl_diff.mp hz).1
  | intersectionUpdate args =>
    simp only [TraitSet.step] at h; cases h
    have := notifyRemoved_spec (s := s) (new := args.foldl inter s) (fun x hx => (mem_foldl_inter.mp hx).1)
    rw [this.1]; exact fun z hz => hv z (mem_foldl_inter.mp hz).1
  | symmetricDifferenceUpdate xs =>
    simp only [TraitSet.step] at h
    split at h <;> try cases h
    rename_i removed added hp
    obtain ⟨ws, hws, hr, ha⟩ := symParts_ok hp
    have hval := valAll_valid hws
    have hitems : o.items = symm s (union removed added) := by split at h <;> cases h <;> rfl
    rw [hitems]; subst hr ha
    intro z hz
    simp only [mem_symm, mem_union, mem_inter, mem_diff, mem_ofList] at hz
    rcases hz with hz | hz
    · exact hv z hz.1
    · rcases hz.1 with h1 | h1
      · exact hv z h1.1
      · exact hval z h1.1
  | ior isSet xs =>
    simp only [TraitSet.step] at h
    split at h <;> try cases h
    split at h <;> cases h
    rename_i ys hys
    have hval := valAll_valid hys
    have := notifyAdded_spec (s := s) (new := union s (ofList ys)) (added := diff (union s (ofList ys)) s)
      (fun x hx => (mem_diff.mp hx).2) (fun x => by simp only [mem_union, mem_diff, mem_ofList]; grind)
    rw [this.1]
    intro z hz
    rcases mem_union.mp hz with hz | hz
    · exact hv z hz
    · exact hval z (mem_ofList.mp hz)
  | iand isSet xs =>
    simp only [TraitSet.step] at h
    split at h <;> cases h
    have := notifyRemoved_spec (s := s) (new := inter s xs) (fun x hx => (mem_inter.mp hx).1)
    rw [this.1]; exact fun z hz => hv z (mem_inter.mp hz).1
  | isub isSet xs =>
    simp only [TraitSet.step] at h
    split at h <;> cases h
    have := notifyRemoved_spec (s := s) (new := diff s xs) (fun x hx => (mem_diff.mp hx).1)
    rw [this.1]; exact fun z hz => hv z (mem_diff.mp hz).1
  | ixor isSet xs =>
    simp only [TraitSet.step] at h
    split at h <;> try cases h
    split at h <;> try cases h
    rename_i removed added hp
    obtain ⟨ws, hws, hr, ha⟩ := symParts_ok hp
    have hval := valAll_valid hws
    have hitems : o.items = symm s (union added removed) := by split at h <;> cases h <;> rfl
    rw [hitems]; subst hr ha
    intro z hz
    simp only [mem_symm, mem_union, mem_inter, mem_diff, mem_ofList] at hz
    rcases hz with hz | hz
    · exact hv z hz.1
    · rcases hz.1 with h1 | h1
      · exact hval z h1.1
      · exact hv z h1.1

end TraitsVerif.Model.SetM
