/-
`…_src` lemmas, part 3: `get_prefix_trait` and the entry points
(`has_traits_setattro`, `has_traits_getattro`, `get_trait`, `add_trait`,
`remove_trait`, `trait`, `base_trait`).
-/
import TraitsVerif.Lemmas.ResolveSource2
namespace TraitsVerif.Model.ResL
open TraitsVerif TraitsVerif.Model.Resolve TraitsVerif.Generated

/-- The invariant tying the ghost NULL flags to the maps. -/
def St.Wf (st : St) : Prop :=
  (st.nullI = true → st.o.itraits = []) ∧ (st.nullO = true → st.o.dict = [])

/-- What `get_prefix_trait(obj, name, is_set)` does in the interpreter. -/
def getPrefixTraitV (st : St) (name : Name) (b : Bool) : St × V :=
  match prefixTrait st.c st.o name b with
  | .error e => ({ st with err := some e }, .null)
  | .ok t =>
    ((st.putCTraits (st.c.ctraits.set name t)).fire name,
     match (fireTraitAdded st.o name).itraits.get name with
     | some it => .trait it
     | none => .trait t)

theorem user5_get_trait (E : Env) (a : List V) (st : St) : user5 E .get_trait a st = user4 E .get_trait a st := rfl

set_option maxHeartbeats 4000000 in
theorem get_prefix_trait_src (E : Env) (st : St) (name : Name) (b : Bool)
    (hI : st.nullI = true → st.o.itraits = []) (hstar : NoStar st.c) :
    user6 E .get_prefix_trait [.obj, .name name, .int (if b then 1 else 0)] st = getPrefixTraitV st name b := by
  obtain ⟨w, oi, o, c, nI, nO, fr, er, env⟩ := st
  have hp := fun env' => prefix_trait_src E (St.mk w oi o c nI nO fr er env') name b hI hstar
  cases hpt : prefixTrait c o name b with
  | error e =>
    simp only [prefixTraitV, hpt] at hp
    resl_eval [user6, ResolveC.get_prefix_trait, hp]
    simp [getPrefixTraitV, hpt]
  | ok t =>
    simp only [prefixTraitV, hpt] at hp
    have hg := fun env' => (get_trait0_src E
      (St.mk { classes := w.classes.set o.cls { c with ctraits := c.ctraits.set name t },
               objs := w.objs.set oi (fireTraitAdded o name) }
        oi (fireTraitAdded o name) { c with ctraits := c.ctraits.set name t }
        (nI && (fireTraitAdded o name).itraits.isEmpty) nO fr er env') name
      (by simp only [Bool.and_eq_true, List.isEmpty_iff]; exact fun h => h.2)).1
    resl_eval [user6, user5_get_trait, ResolveC.get_prefix_trait, hp, hg, trait0V]
    cases hi : (fireTraitAdded o name).itraits.get name <;>
      simp [getPrefixTraitV, hpt, hi, St.fire, St.putCTraits, St.putObj]

theorem fireTraitAdded_dict (o : Obj) (name : Name) :
    (fireTraitAdded o name).dict = o.dict ∧ (fireTraitAdded o name).cls = o.cls := by
  unfold fireTraitAdded
  generalize o.hooks = l
  induction l generalizing o with
  | nil => exact ⟨rfl, rfl⟩
  | cons h l ih =>
    simp only [List.foldl_cons]
    split
    · exact ih _
    · exact ih _

theorem user7_get_prefix_trait (E : Env) (a : List V) (st : St) :
    user7 E .get_prefix_trait a st = user6 E .get_prefix_trait a st := rfl

set_option maxHeartbeats 8000000 in
theorem setattro_src (E : Env) (w : World) (oi : Nat) (o : Obj) (c : Cls) (name : Name) (value : Option Val)
    (nI nO : Bool) (hI : nI = true → o.itraits = []) (hstar : NoStar c) :
    asSet (user7 E .has_traits_setattro [.obj, .name name, vOpt value] (St.init w oi o c nI nO))
      = some (setattro E w oi o c name value) := by
  have hd := fireTraitAdded_dict o name
  have hgp := fun env' => get_prefix_trait_src E (St.mk w oi o c nI nO none none env') name true hI hstar
  simp only [↓reduceIte] at hgp
  cases value with
  | none =>
    cases nI with
    | true =>
      have hi : o.itraits.get name = none := by rw [hI rfl]; rfl
      cases hc : c.ctraits.get name with
      | some t =>
        cases hs : setattrKind E t o.dict name none <;>
          resl_eval [user7, ResolveC.has_traits_setattro, hi, hc,hs] <;>
          simp [asSet, setattro, resolveSet, hi, hc,hs]
      | none =>
        simp only [getPrefixTraitV] at hgp
        cases hpt : prefixTrait c o name true with
        | error e =>
          simp only [hpt] at hgp
          resl_eval [user7, user7_get_prefix_trait, ResolveC.has_traits_setattro, hi, hc, hgp]
          simp [asSet, setattro, resolveSet, hi, hc, getPrefixTrait, hpt]
        | ok t =>
          simp only [hpt] at hgp
          cases hfi : (fireTraitAdded o name).itraits.get name with
          | none =>
            cases hs : setattrKind E t o.dict name none <;>
            resl_eval [user7, user7_get_prefix_trait, ResolveC.has_traits_setattro, hi, hc, hgp, hfi, hd.1, hs,
              St.fire, St.putCTraits, St.putObj] <;>
            simp [asSet, setattro, resolveSet, hi, hc, getPrefixTrait, hpt, hfi, hs, setDict]
          | some it =>
            cases hs : setattrKind E it o.dict name none <;>
            resl_eval [user7, user7_get_prefix_trait, ResolveC.has_traits_setattro, hi, hc, hgp, hfi, hd.1, hs,
              St.fire, St.putCTraits, St.putObj] <;>
            simp [asSet, setattro, resolveSet, hi, hc, getPrefixTrait, hpt, hfi, hs, setDict]
    | false =>
      cases hi : o.itraits.get name with
      | some t =>
        cases hs : setattrKind E t o.dict name none <;>
          resl_eval [user7, ResolveC.has_traits_setattro, hi, hs] <;>
          simp [asSet, setattro, resolveSet, hi, hs]
      | none =>
        cases hc : c.ctraits.get name with
        | some t =>
          cases hs : setattrKind E t o.dict name none <;>
            resl_eval [user7, ResolveC.has_traits_setattro, hi, hc,hs] <;>
            simp [asSet, setattro, resolveSet, hi, hc,hs]
        | none =>
          simp only [getPrefixTraitV] at hgp
          cases hpt : prefixTrait c o name true with
          | error e =>
            simp only [hpt] at hgp
            resl_eval [user7, user7_get_prefix_trait, ResolveC.has_traits_setattro, hi, hc, hgp]
            simp [asSet, setattro, resolveSet, hi, hc, getPrefixTrait, hpt]
          | ok t =>
            simp only [hpt] at hgp
            cases hfi : (fireTraitAdded o name).itraits.get name with
            | none =>
              cases hs : setattrKind E t o.dict name none <;>
              resl_eval [user7, user7_get_prefix_trait, ResolveC.has_traits_setattro, hi, hc, hgp, hfi, hd.1, hs,
                St.fire, St.putCTraits, St.putObj] <;>
              simp [asSet, setattro, resolveSet, hi, hc, getPrefixTrait, hpt, hfi, hs, setDict]
            | some it =>
              cases hs : setattrKind E it o.dict name none <;>
              resl_eval [user7, user7_get_prefix_trait, ResolveC.has_traits_setattro, hi, hc, hgp, hfi, hd.1, hs,
                St.fire, St.putCTraits, St.putObj] <;>
              simp [asSet, setattro, resolveSet, hi, hc, getPrefixTrait, hpt, hfi, hs, setDict]
  | some v =>
    cases nI with
    | true =>
      have hi : o.itraits.get name = none := by rw [hI rfl]; rfl
      cases hc : c.ctraits.get name with
      | some t =>
        cases hs : setattrKind E t o.dict name (some v) <;>
          resl_eval [user7, ResolveC.has_traits_setattro, hi, hc,hs] <;>
          simp [asSet, setattro, resolveSet, hi, hc,hs]
      | none =>
        simp only [getPrefixTraitV] at hgp
        cases hpt : prefixTrait c o name true with
        | error e =>
          simp only [hpt] at hgp
          resl_eval [user7, user7_get_prefix_trait, ResolveC.has_traits_setattro, hi, hc, hgp]
          simp [asSet, setattro, resolveSet, hi, hc, getPrefixTrait, hpt]
        | ok t =>
          simp only [hpt] at hgp
          cases hfi : (fireTraitAdded o name).itraits.get name with
          | none =>
            cases hs : setattrKind E t o.dict name (some v) <;>
            resl_eval [user7, user7_get_prefix_trait, ResolveC.has_traits_setattro, hi, hc, hgp, hfi, hd.1, hs,
              St.fire, St.putCTraits, St.putObj] <;>
            simp [asSet, setattro, resolveSet, hi, hc, getPrefixTrait, hpt, hfi, hs, setDict]
          | some it =>
            cases hs : setattrKind E it o.dict name (some v) <;>
            resl_eval [user7, user7_get_prefix_trait, ResolveC.has_traits_setattro, hi, hc, hgp, hfi, hd.1, hs,
              St.fire, St.putCTraits, St.putObj] <;>
            simp [asSet, setattro, resolveSet, hi, hc, getPrefixTrait, hpt, hfi, hs, setDict]
    | false =>
      cases hi : o.itraits.get name with
      | some t =>
        cases hs : setattrKind E t o.dict name (some v) <;>
          resl_eval [user7, ResolveC.has_traits_setattro, hi, hs] <;>
          simp [asSet, setattro, resolveSet, hi, hs]
      | none =>
        cases hc : c.ctraits.get name with
        | some t =>
          cases hs : setattrKind E t o.dict name (some v) <;>
            resl_eval [user7, ResolveC.has_traits_setattro, hi, hc,hs] <;>
            simp [asSet, setattro, resolveSet, hi, hc,hs]
        | none =>
          simp only [getPrefixTraitV] at hgp
          cases hpt : prefixTrait c o name true with
          | error e =>
            simp only [hpt] at hgp
            resl_eval [user7, user7_get_prefix_trait, ResolveC.has_traits_setattro, hi, hc, hgp]
            simp [asSet, setattro, resolveSet, hi, hc, getPrefixTrait, hpt]
          | ok t =>
            simp only [hpt] at hgp
            cases hfi : (fireTraitAdded o name).itraits.get name with
            | none =>
              cases hs : setattrKind E t o.dict name (some v) <;>
              resl_eval [user7, user7_get_prefix_trait, ResolveC.has_traits_setattro, hi, hc, hgp, hfi, hd.1, hs,
                St.fire, St.putCTraits, St.putObj] <;>
              simp [asSet, setattro, resolveSet, hi, hc, getPrefixTrait, hpt, hfi, hs, setDict]
            | some it =>
              cases hs : setattrKind E it o.dict name (some v) <;>
              resl_eval [user7, user7_get_prefix_trait, ResolveC.has_traits_setattro, hi, hc, hgp, hfi, hd.1, hs,
                St.fire, St.putCTraits, St.putObj] <;>
              simp [asSet, setattro, resolveSet, hi, hc, getPrefixTrait, hpt, hfi, hs, setDict]

set_option maxHeartbeats 16000000 in
theorem getattro_src (E : Env) (w : World) (oi : Nat) (o : Obj) (c : Cls) (name : Name)
    (nI nO : Bool) (hI : nI = true → o.itraits = []) (hO : nO = true → o.dict = []) (hstar : NoStar c) :
    asGet (user7 E .has_traits_getattro [.obj, .name name] (St.init w oi o c nI nO))
      = some (getattro E w oi o c name) := by
  have hd := fireTraitAdded_dict o name
  have hgp := fun env' nO' => get_prefix_trait_src E (St.mk w oi o c nI nO' none none env') name false hI hstar
  simp only [Bool.false_eq_true, ↓reduceIte] at hgp
  cases nO with
  | true =>
    have hdg : o.dict.get name = none := by rw [hO rfl]; rfl
    cases nI with
    | true =>
      have hi : o.itraits.get name = none := by rw [hI rfl]; rfl
      cases hc : c.ctraits.get name with
      | some t =>
        cases hg : getattrKind E t o.dict name with
        | error e =>
          resl_eval [user7, ResolveC.has_traits_getattro, hdg, hi, hc,hg]
          simp [asGet, getattro, trait0, hdg, hi, hc,hg]
        | ok p =>
          obtain ⟨v, d⟩ := p
          resl_eval [user7, ResolveC.has_traits_getattro, hdg, hi, hc,hg]
          simp [asGet, getattro, trait0, hdg, hi, hc,hg]
      | none =>
        cases hca : E.classAttr name with
        | some cv =>
          resl_eval [user7, ResolveC.has_traits_getattro, hdg, hi, hc, genericGet, hca]
          simp [asGet, getattro, trait0, hdg, hi, hc, hca]
        | none =>
          simp only [getPrefixTraitV] at hgp
          cases hpt : prefixTrait c o name false with
          | error e =>
            simp only [hpt] at hgp
            resl_eval [user7, user7_get_prefix_trait, ResolveC.has_traits_getattro, hdg, hi, hc, genericGet, hca, hgp]
            simp [asGet, getattro, trait0, hdg, hi, hc, hca, getPrefixTrait, hpt]
          | ok t =>
            simp only [hpt] at hgp
            cases hfi : (fireTraitAdded o name).itraits.get name with
            | none =>
              cases hg : getattrKind E t o.dict name with
              | error e =>
                resl_eval [user7, user7_get_prefix_trait, ResolveC.has_traits_getattro, hdg, hi, hc, genericGet, hca, hgp, hfi,
                  hd.1, hg, St.fire, St.putCTraits, St.putObj]
                simp [asGet, getattro, trait0, hdg, hi, hc, hca, getPrefixTrait, hpt, hfi, hg]
              | ok p =>
                obtain ⟨v, d⟩ := p
                resl_eval [user7, user7_get_prefix_trait, ResolveC.has_traits_getattro, hdg, hi, hc, genericGet, hca, hgp, hfi,
                  hd.1, hg, St.fire, St.putCTraits, St.putObj]
                simp [asGet, getattro, trait0, hdg, hi, hc, hca, getPrefixTrait, hpt, hfi, hg, setDict]
            | some it =>
              cases hg : getattrKind E it o.dict name with
              | error e =>
                resl_eval [user7, user7_get_prefix_trait, ResolveC.has_traits_getattro, hdg, hi, hc, genericGet, hca, hgp, hfi,
                  hd.1, hg, St.fire, St.putCTraits, St.putObj]
                simp [asGet, getattro, trait0, hdg, hi, hc, hca, getPrefixTrait, hpt, hfi, hg]
              | ok p =>
                obtain ⟨v, d⟩ := p
                resl_eval [user7, user7_get_prefix_trait, ResolveC.has_traits_getattro, hdg, hi, hc, genericGet, hca, hgp, hfi,
                  hd.1, hg, St.fire, St.putCTraits, St.putObj]
                simp [asGet, getattro, trait0, hdg, hi, hc, hca, getPrefixTrait, hpt, hfi, hg, setDict]
    | false =>
      cases hi : o.itraits.get name with
      | some t =>
        cases hg : getattrKind E t o.dict name with
        | error e =>
          resl_eval [user7, ResolveC.has_traits_getattro, hdg, hi,hg]
          simp [asGet, getattro, trait0, hdg, hi,hg]
        | ok p =>
          obtain ⟨v, d⟩ := p
          resl_eval [user7, ResolveC.has_traits_getattro, hdg, hi,hg]
          simp [asGet, getattro, trait0, hdg, hi,hg]
      | none =>
        cases hc : c.ctraits.get name with
        | some t =>
          cases hg : getattrKind E t o.dict name with
          | error e =>
            resl_eval [user7, ResolveC.has_traits_getattro, hdg, hi, hc,hg]
            simp [asGet, getattro, trait0, hdg, hi, hc,hg]
          | ok p =>
            obtain ⟨v, d⟩ := p
            resl_eval [user7, ResolveC.has_traits_getattro, hdg, hi, hc,hg]
            simp [asGet, getattro, trait0, hdg, hi, hc,hg]
        | none =>
          cases hca : E.classAttr name with
          | some cv =>
            resl_eval [user7, ResolveC.has_traits_getattro, hdg, hi, hc, genericGet, hca]
            simp [asGet, getattro, trait0, hdg, hi, hc, hca]
          | none =>
            simp only [getPrefixTraitV] at hgp
            cases hpt : prefixTrait c o name false with
            | error e =>
              simp only [hpt] at hgp
              resl_eval [user7, user7_get_prefix_trait, ResolveC.has_traits_getattro, hdg, hi, hc, genericGet, hca, hgp]
              simp [asGet, getattro, trait0, hdg, hi, hc, hca, getPrefixTrait, hpt]
            | ok t =>
              simp only [hpt] at hgp
              cases hfi : (fireTraitAdded o name).itraits.get name with
              | none =>
                cases hg : getattrKind E t o.dict name with
                | error e =>
                  resl_eval [user7, user7_get_prefix_trait, ResolveC.has_traits_getattro, hdg, hi, hc, genericGet, hca, hgp, hfi,
                    hd.1, hg, St.fire, St.putCTraits, St.putObj]
                  simp [asGet, getattro, trait0, hdg, hi, hc, hca, getPrefixTrait, hpt, hfi, hg]
                | ok p =>
                  obtain ⟨v, d⟩ := p
                  resl_eval [user7, user7_get_prefix_trait, ResolveC.has_traits_getattro, hdg, hi, hc, genericGet, hca, hgp, hfi,
                    hd.1, hg, St.fire, St.putCTraits, St.putObj]
                  simp [asGet, getattro, trait0, hdg, hi, hc, hca, getPrefixTrait, hpt, hfi, hg, setDict]
              | some it =>
                cases hg : getattrKind E it o.dict name with
                | error e =>
                  resl_eval [user7, user7_get_prefix_trait, ResolveC.has_traits_getattro, hdg, hi, hc, genericGet, hca, hgp, hfi,
                    hd.1, hg, St.fire, St.putCTraits, St.putObj]
                  simp [asGet, getattro, trait0, hdg, hi, hc, hca, getPrefixTrait, hpt, hfi, hg]
                | ok p =>
                  obtain ⟨v, d⟩ := p
                  resl_eval [user7, user7_get_prefix_trait, ResolveC.has_traits_getattro, hdg, hi, hc, genericGet, hca, hgp, hfi,
                    hd.1, hg, St.fire, St.putCTraits, St.putObj]
                  simp [asGet, getattro, trait0, hdg, hi, hc, hca, getPrefixTrait, hpt, hfi, hg, setDict]
  | false =>
    cases hdg : o.dict.get name with
    | some dv =>
      resl_eval [user7, ResolveC.has_traits_getattro, hdg]
      simp [asGet, getattro, hdg]
    | none =>
      cases nI with
      | true =>
        have hi : o.itraits.get name = none := by rw [hI rfl]; rfl
        cases hc : c.ctraits.get name with
        | some t =>
          cases hg : getattrKind E t o.dict name with
          | error e =>
            resl_eval [user7, ResolveC.has_traits_getattro, hdg, hi, hc,hg]
            simp [asGet, getattro, trait0, hdg, hi, hc,hg]
          | ok p =>
            obtain ⟨v, d⟩ := p
            resl_eval [user7, ResolveC.has_traits_getattro, hdg, hi, hc,hg]
            simp [asGet, getattro, trait0, hdg, hi, hc,hg]
        | none =>
          cases hca : E.classAttr name with
          | some cv =>
            resl_eval [user7, ResolveC.has_traits_getattro, hdg, hi, hc, genericGet, hca]
            simp [asGet, getattro, trait0, hdg, hi, hc, hca]
          | none =>
            simp only [getPrefixTraitV] at hgp
            cases hpt : prefixTrait c o name false with
            | error e =>
              simp only [hpt] at hgp
              resl_eval [user7, user7_get_prefix_trait, ResolveC.has_traits_getattro, hdg, hi, hc, genericGet, hca, hgp]
              simp [asGet, getattro, trait0, hdg, hi, hc, hca, getPrefixTrait, hpt]
            | ok t =>
              simp only [hpt] at hgp
              cases hfi : (fireTraitAdded o name).itraits.get name with
              | none =>
                cases hg : getattrKind E t o.dict name with
                | error e =>
                  resl_eval [user7, user7_get_prefix_trait, ResolveC.has_traits_getattro, hdg, hi, hc, genericGet, hca, hgp, hfi,
                    hd.1, hg, St.fire, St.putCTraits, St.putObj]
                  simp [asGet, getattro, trait0, hdg, hi, hc, hca, getPrefixTrait, hpt, hfi, hg]
                | ok p =>
                  obtain ⟨v, d⟩ := p
                  resl_eval [user7, user7_get_prefix_trait, ResolveC.has_traits_getattro, hdg, hi, hc, genericGet, hca, hgp, hfi,
                    hd.1, hg, St.fire, St.putCTraits, St.putObj]
                  simp [asGet, getattro, trait0, hdg, hi, hc, hca, getPrefixTrait, hpt, hfi, hg, setDict]
              | some it =>
                cases hg : getattrKind E it o.dict name with
                | error e =>
                  resl_eval [user7, user7_get_prefix_trait, ResolveC.has_traits_getattro, hdg, hi, hc, genericGet, hca, hgp, hfi,
                    hd.1, hg, St.fire, St.putCTraits, St.putObj]
                  simp [asGet, getattro, trait0, hdg, hi, hc, hca, getPrefixTrait, hpt, hfi, hg]
                | ok p =>
                  obtain ⟨v, d⟩ := p
                  resl_eval [user7, user7_get_prefix_trait, ResolveC.has_traits_getattro, hdg, hi, hc, genericGet, hca, hgp, hfi,
                    hd.1, hg, St.fire, St.putCTraits, St.putObj]
                  simp [asGet, getattro, trait0, hdg, hi, hc, hca, getPrefixTrait, hpt, hfi, hg, setDict]
      | false =>
        cases hi : o.itraits.get name with
        | some t =>
          cases hg : getattrKind E t o.dict name with
          | error e =>
            resl_eval [user7, ResolveC.has_traits_getattro, hdg, hi,hg]
            simp [asGet, getattro, trait0, hdg, hi,hg]
          | ok p =>
            obtain ⟨v, d⟩ := p
            resl_eval [user7, ResolveC.has_traits_getattro, hdg, hi,hg]
            simp [asGet, getattro, trait0, hdg, hi,hg]
        | none =>
          cases hc : c.ctraits.get name with
          | some t =>
            cases hg : getattrKind E t o.dict name with
            | error e =>
              resl_eval [user7, ResolveC.has_traits_getattro, hdg, hi, hc,hg]
              simp [asGet, getattro, trait0, hdg, hi, hc,hg]
            | ok p =>
              obtain ⟨v, d⟩ := p
              resl_eval [user7, ResolveC.has_traits_getattro, hdg, hi, hc,hg]
              simp [asGet, getattro, trait0, hdg, hi, hc,hg]
          | none =>
            cases hca : E.classAttr name with
            | some cv =>
              resl_eval [user7, ResolveC.has_traits_getattro, hdg, hi, hc, genericGet, hca]
              simp [asGet, getattro, trait0, hdg, hi, hc, hca]
            | none =>
              simp only [getPrefixTraitV] at hgp
              cases hpt : prefixTrait c o name false with
              | error e =>
                simp only [hpt] at hgp
                resl_eval [user7, user7_get_prefix_trait, ResolveC.has_traits_getattro, hdg, hi, hc, genericGet, hca, hgp]
                simp [asGet, getattro, trait0, hdg, hi, hc, hca, getPrefixTrait, hpt]
              | ok t =>
                simp only [hpt] at hgp
                cases hfi : (fireTraitAdded o name).itraits.get name with
                | none =>
                  cases hg : getattrKind E t o.dict name with
                  | error e =>
                    resl_eval [user7, user7_get_prefix_trait, ResolveC.has_traits_getattro, hdg, hi, hc, genericGet, hca, hgp, hfi,
                      hd.1, hg, St.fire, St.putCTraits, St.putObj]
                    simp [asGet, getattro, trait0, hdg, hi, hc, hca, getPrefixTrait, hpt, hfi, hg]
                  | ok p =>
                    obtain ⟨v, d⟩ := p
                    resl_eval [user7, user7_get_prefix_trait, ResolveC.has_traits_getattro, hdg, hi, hc, genericGet, hca, hgp, hfi,
                      hd.1, hg, St.fire, St.putCTraits, St.putObj]
                    simp [asGet, getattro, trait0, hdg, hi, hc, hca, getPrefixTrait, hpt, hfi, hg, setDict]
                | some it =>
                  cases hg : getattrKind E it o.dict name with
                  | error e =>
                    resl_eval [user7, user7_get_prefix_trait, ResolveC.has_traits_getattro, hdg, hi, hc, genericGet, hca, hgp, hfi,
                      hd.1, hg, St.fire, St.putCTraits, St.putObj]
                    simp [asGet, getattro, trait0, hdg, hi, hc, hca, getPrefixTrait, hpt, hfi, hg]
                  | ok p =>
                    obtain ⟨v, d⟩ := p
                    resl_eval [user7, user7_get_prefix_trait, ResolveC.has_traits_getattro, hdg, hi, hc, genericGet, hca, hgp, hfi,
                      hd.1, hg, St.fire, St.putCTraits, St.putObj]
                    simp [asGet, getattro, trait0, hdg, hi, hc, hca, getPrefixTrait, hpt, hfi, hg, setDict]

end TraitsVerif.Model.ResL
