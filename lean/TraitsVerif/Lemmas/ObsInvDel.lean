/-
Cluster `obs`: `del obj.trait` (`Mutation.delField`, the delete branch of `setattr_trait`,
ctraits.c:2441-2489) and the refinement invariant `HooksEqReach`.

The branch reads the attribute back through `traito->getattr` (`getattr_trait`), which stores the
default AND announces `Uninitialized -> default` (:2009-2030), and then announces `old -> default`
itself (:2470-2484).  Both announcements run the maintainers on the new value:

* NEGATION WITNESS (`DelWitness`, finding F99): with a default that is an object, the default is
  hooked twice; the invariant fails after the `del`, and after a later reassignment the detached
  default still calls the handler.
* POSITIVE FRAGMENT: the invariant is preserved when nothing is in `__dict__` (`return 0`, :2451-2454),
  when the trait carries no notifier, and when the default holds no object (None / Undefined):
  the first announcement then hooks nothing and the second one is an ordinary assignment of the default.
-/
import TraitsVerif.Lemmas.ObsInvSet
namespace TraitsVerif.Model.Obs
open TraitsVerif

/-! ### storing twice -/

theorem setFieldVal_twice (fs : List Field) (n : Name) (a b : Val) :
    setFieldVal (setFieldVal fs n a) n b = setFieldVal fs n b := by
  unfold setFieldVal
  rw [List.map_map]
  apply List.map_congr_left
  intro f _
  simp only [Function.comp]
  by_cases e : (f.name == n) = true
  · simp [e]
  · simp [e]

theorem Heap.upd_upd (h : Heap) (i : Id) (x y : Obj) : (h.upd i x).upd i y = h.upd i y := by
  simp [Heap.upd, List.filter_filter]

theorem storeField_twice {h : Heap} {o : Id} {n : Name} {fs : List Field} (a b : Val) (ho : h.get o = .inst fs) :
    storeField (storeField h o n a) o n b = storeField h o n b := by
  have h1 : (storeField h o n a).get o = .inst (setFieldVal fs n a) := by
    rw [store_get a ho]; simp
  rw [storeField_eq b h1, storeField_eq a ho, storeField_eq b ho, Heap.upd_upd, setFieldVal_twice]

/-! ### an announcement between two values that hold no object touches no hook -/

theorem callTrait_inert (E : Env) (h : Heap) (o : Id) (n : Name) (old new : Val)
    (hold : valObjects old = []) (hnew : valObjects new = []) :
    ∀ (ns : List Notifier) (H : Hooks) (ds : List Delivered),
      (∀ mk g k, Notifier.maint mk g k ∈ ns → mk = .trait ∨ mk = .added) →
      (callTrait E h o n old new ns H ds).1 = H ∧ (callTrait E h o n old new ns H ds).2.2 = none := by
  have hnn : ∀ m, new ≠ .name m := by
    intro m e; rw [e] at hnew; simp [valObjects] at hnew
  intro ns
  induction ns with
  | nil => intro H ds _; exact ⟨rfl, rfl⟩
  | cons nt ns ih =>
    intro H ds hk
    have hk' : ∀ mk g k, Notifier.maint mk g k ∈ ns → mk = .trait ∨ mk = .added :=
      fun mk g k hm => hk mk g k (List.mem_cons_of_mem _ hm)
    cases nt with
    | user k rc =>
      simp only [callTrait]
      split
      · exact ih H ds hk'
      · exact ih H _ hk'
    | maint mk g k =>
      simp only [callTrait]
      split
      · exact ih H ds hk'
      · have hm : maintTrait h mk g k o old new H = ⟨H, none⟩ := by
          rcases hk mk g k (List.mem_cons_self ..) with rfl | rfl
          · simp [maintTrait, removeOld, addNew, hold, hnew]
          · simp only [maintTrait]
            split
            · cases new with
              | name m => exact absurd rfl (hnn m)
              | _ => rfl
            · rfl
        rw [hm]
        exact ih H ds hk'

theorem fire_inert (E : Env) (H : Hooks) (h' : Heap) (o : Id) (n : Name) (old new : Val)
    (hold : valObjects old = []) (hnew : valObjects new = [])
    (hk : ∀ mk g k, Notifier.maint mk g k ∈ H.get (.trait o n) → mk = .trait ∨ mk = .added) :
    (fire E H h' o n old new).st = ⟨h', H⟩ ∧ (fire E H h' o n old new).err = none := by
  obtain ⟨a, b⟩ := callTrait_inert E h' o n old new hold hnew _ H [] hk
  simp only [fire]
  exact ⟨by rw [a], b⟩

/-- By the invariant, a maintainer on an instance trait is a trait / trait_added maintainer. -/
theorem kinds_of_inv {h : Heap} {H : Hooks} {regs : List Reg} (hinv : HooksEqReach h H regs) (o : Id) (n : Name) :
    ∀ mk g k, Notifier.maint mk g k ∈ H.get (.trait o n) → mk = .trait ∨ mk = .added := by
  obtain ⟨_, hcnt⟩ := hinv
  intro mk g k hnt
  have pos : 0 < cnt H (.trait o n) (.maint mk g k) := by
    unfold cnt; exact cntList_pos_of_mem _ _ _ _ hnt
  cases mk with
  | trait => exact Or.inl rfl
  | added => exact Or.inr rfl
  | list =>
    exfalso
    rw [hcnt, specCnt_kind_trait h regs o n (.maint .list g k) ⟨.list, g, k, rfl, by simp, by simp⟩] at pos; omega
  | dict =>
    exfalso
    rw [hcnt, specCnt_kind_trait h regs o n (.maint .dict g k) ⟨.dict, g, k, rfl, by simp, by simp⟩] at pos; omega
  | set =>
    exfalso
    rw [hcnt, specCnt_kind_trait h regs o n (.maint .set g k) ⟨.set, g, k, rfl, by simp, by simp⟩] at pos; omega

/-! ### the positive fragment -/

/-- `del o.n` while `n` is not in `__dict__` (ctraits.c:2451-2454, `return 0`): nothing happens. -/
theorem delField_unset_noop (E : Env) (st : St) (o : Id) (n : Name) (fresh : Id) (fs : List Field) (f : Field)
    (ho : st.h.get o = .inst fs) (hf : findField fs n = some f) (hunset : f.val = .unset) :
    mutate E st (.delField o n fresh) = ⟨st, [], none⟩ := by
  have hu : (f.val == Val.unset) = true := by rw [hunset]; rfl
  simp only [mutate, ho, hf, hu, if_true]

/-- `del o.n` on a trait whose default `d` holds no object (None, Undefined): the announcement
`Uninitialized -> d` of `getattr_trait` hooks nothing, and `old -> d` is the ordinary assignment of
`d`, so the invariant is preserved and nothing is raised — under the hypotheses of the assignment
fragment for the value `d`. -/
theorem delField_preserves_scalar_default (E : Env) (st : St) (regs : List Reg) (o : Id) (n : Name) (d : Val)
    (fresh : Id) (fs : List Field) (f : Field) (hinv : HooksEqReach st.h st.H regs)
    (fr : SetFrag E st regs o n d fs f) (hdflt : f.dflt = .val d) (hnone : valObjects d = []) :
    HooksEqReach (mutate E st (.delField o n fresh)).st.h (mutate E st (.delField o n fresh)).st.H regs ∧
    (mutate E st (.delField o n fresh)).err = none := by
  by_cases hu : (f.val == Val.unset) = true
  · have hv : f.val = .unset := by simpa using hu
    rw [delField_unset_noop E st o n fresh fs f fr.ho fr.hf hv]
    exact ⟨hinv, rfl⟩
  · obtain ⟨hfire, hsame, _⟩ := fire_preserves E st regs o n d fs f hinv fr
    have hkinds := kinds_of_inv hinv o n
    simp only [mutate, fr.ho, fr.hf, hu, Bool.false_eq_true, if_false, materialise, hdflt]
    rw [storeField_twice .unset d fr.ho]
    obtain ⟨e1, e2⟩ := fire_inert E st.H (storeField st.h o n d) o n .unset d rfl hnone hkinds
    have eH : (fire E st.H (storeField st.h o n d) o n .unset d).st.H = st.H := by rw [e1]
    have eh : (fire E st.H (storeField st.h o n d) o n .unset d).st.h = storeField st.h o n d := by rw [e1]
    simp only [refire, e2]
    by_cases hc : (f.cmp == Cmp.none || f.val != d) = true
    · simp only [hc, if_true, eH, eh]
      exact hfire
    · simp only [hc, Bool.false_eq_true, if_false, eH, eh]
      have hv : f.val = d := by
        simp only [Bool.or_eq_true, not_or, Bool.not_eq_true] at hc
        simpa using hc.2
      exact ⟨hsame hv, e2⟩

/-- `del o.n` on a trait that carries no notifier (the list exists and is empty): the attribute
falls back to its default `d`, silently; the invariant is preserved. -/
theorem delField_preserves_unhooked (E : Env) (st : St) (regs : List Reg) (o : Id) (n : Name) (d : Val)
    (fresh : Id) (fs : List Field) (f : Field) (hinv : HooksEqReach st.h st.H regs)
    (fr : SetFrag E st regs o n d fs f) (hdflt : f.dflt = .val d) (hempty : st.H.get (.trait o n) = []) :
    HooksEqReach (mutate E st (.delField o n fresh)).st.h (mutate E st (.delField o n fresh)).st.H regs ∧
    (mutate E st (.delField o n fresh)).err = none ∧ (mutate E st (.delField o n fresh)).delivered = [] := by
  by_cases hu : (f.val == Val.unset) = true
  · have hv : f.val = .unset := by simpa using hu
    rw [delField_unset_noop E st o n fresh fs f fr.ho fr.hf hv]
    exact ⟨hinv, rfl, rfl⟩
  · obtain ⟨_, _, hnil⟩ := fire_preserves E st regs o n d fs f hinv fr
    have hf0 : ∀ old : Val, fire E st.H (storeField st.h o n d) o n old d = ⟨⟨storeField st.h o n d, st.H⟩, [], none⟩ := by
      intro old; simp [fire, hempty, callTrait]
    simp only [mutate, fr.ho, fr.hf, hu, Bool.false_eq_true, if_false, materialise, hdflt]
    rw [storeField_twice .unset d fr.ho]
    simp only [refire, hf0]
    split
    · exact ⟨hnil hempty, rfl, rfl⟩
    · exact ⟨hnil hempty, rfl, rfl⟩

/-! ### the negation witness (finding F99)

`class A: child = Instance(Leaf)` with `_child_default` returning the existing object `d` (1);
`a.child` has been read (`d` is in `__dict__`), `a.observe(handler, "child.value")`. -/
namespace DelWitness

def ta : Field := ⟨nTraitAdded, false, .val .undef, .unset, .equality⟩
def val (v : Int) : Field := ⟨nValue, false, .val (.int 0), .int v, .equality⟩
def childF : Field := ⟨nChild, false, .val (.ref 1), .ref 1, .equality⟩

def wKey : HKey := ⟨0, 0⟩
def wHeap : Heap := [(0, .inst [childF, ta]), (1, .inst [val 3, ta]), (2, .inst [val 5, ta])]
def wGraph : Graph := .node (.named nChild true false) [.node (.named nValue true false) []]
def wSt : St := ⟨wHeap, (addRemove wHeap wKey false true wGraph (some 0) Hooks.empty).H⟩
def wRegs : List Reg := [⟨wKey, wGraph, 0⟩]

/-- the state after `del a.child` -/
def wDel : St := (mutate {} wSt (.delField 0 nChild 100)).st

theorem wInv : HooksEqReach wSt.h wSt.H wRegs := by
  have hok : (addRemove wHeap wKey false true wGraph (some 0) Hooks.empty).err = none := by decide
  obtain ⟨_, hc, hw⟩ := addRemove_add wHeap wKey wGraph true (some 0) Hooks.empty hok
  refine ⟨hw WF_empty, ?_⟩
  intro o q
  show cnt (addRemove wHeap wKey false true wGraph (some 0) Hooks.empty).H o q = _
  rw [hc]
  simp [specCnt, cnt, Hooks.empty, cntList, wRegs, wSt]

/-- `del a.child`: the value is the default `d` again (unchanged), nothing is delivered, nothing
raised — but `d.value` now carries the user notifier with reference count 2 where one path reaches it. -/
theorem wDel_facts :
    fieldVal wDel.h (some 0) nChild = .ref 1 ∧
    (mutate {} wSt (.delField 0 nChild 100)).delivered = [] ∧
    (mutate {} wSt (.delField 0 nChild 100)).err = none ∧
    cnt wSt.H (.trait 1 nValue) (.user wKey) = 1 ∧
    cnt wDel.H (.trait 1 nValue) (.user wKey) = 2 ∧
    specCnt wDel.h wRegs (.trait 1 nValue) (.user wKey) = 1 := by
  decide

/-- The invariant holds before `del a.child` and FAILS after it. -/
theorem del_breaks_invariant : HooksEqReach wSt.h wSt.H wRegs ∧ ¬ HooksEqReach wDel.h wDel.H wRegs := by
  refine ⟨wInv, ?_⟩
  intro ⟨_, h⟩
  have h1 := h (.trait 1 nValue) (.user wKey)
  rw [wDel_facts.2.2.2.2.1, wDel_facts.2.2.2.2.2] at h1
  omega

/-- The user-visible consequence: after `a.child = other` (object 2) the default `d` is detached
(no path reaches `d.value`), yet `d.value = 4` still calls the handler. -/
theorem detached_default_still_notifies :
    let s1 := (mutate {} wDel (.setField 0 nChild (.ref 2) 0)).st
    specCnt s1.h wRegs (.trait 1 nValue) (.user wKey) = 0 ∧
    (mutate {} s1 (.setField 1 nValue (.int 4) 0)).delivered = [.trait wKey 1 nValue (.int 3) (.int 4)] := by
  decide

/-- Without the `del` the same reassignment detaches `d` properly. -/
example :
    let s1 := (mutate {} wSt (.setField 0 nChild (.ref 2) 0)).st
    (mutate {} s1 (.setField 1 nValue (.int 4) 0)).delivered = [] := by
  decide

/-- the positive fragment is not vacuous: `del` of a trait whose default is None -/
def noneF : Field := ⟨nMate, false, .val .none, .ref 1, .equality⟩
def pHeap : Heap := [(0, .inst [noneF, ta]), (1, .inst [val 3, ta])]
def pGraph : Graph := .node (.named nMate true false) [.node (.named nValue true false) []]
def pSt : St := ⟨pHeap, (addRemove pHeap wKey false true pGraph (some 0) Hooks.empty).H⟩
def pRegs : List Reg := [⟨wKey, pGraph, 0⟩]

example :
    cnt pSt.H (.trait 1 nValue) (.user wKey) = 1 ∧
    cnt (mutate {} pSt (.delField 0 nMate 100)).st.H (.trait 1 nValue) (.user wKey) = 0 ∧
    specCnt (mutate {} pSt (.delField 0 nMate 100)).st.h pRegs (.trait 1 nValue) (.user wKey) = 0 ∧
    (mutate {} pSt (.delField 0 nMate 100)).delivered = [.trait wKey 0 nMate (.ref 1) .none] := by
  decide

end DelWitness

end TraitsVerif.Model.Obs
