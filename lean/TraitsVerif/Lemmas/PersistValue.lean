/-
Value-level lemmas for the `persist` cluster: what `validate` (assignment),
`pickleV`, `deepcopyV` do to the identities, bindings and contents of a nested
container value.  Statements are for values of every size and nesting depth
(mutual structural recursion over `CVal` / `List CVal`, or induction over the
`Valid` / `Live` derivations).
-/
import TraitsVerif.Model.Persist
namespace TraitsVerif.Lemmas.Persist
open TraitsVerif TraitsVerif.Model.Persist

/-! ## Hypotheses on the leaf validators -/

/-- A validated leaf is a fixed point of its validator (`Int`, `Str`, `CInt`,
`Range`, `Enum`, … all are: validating an already validated value returns it). -/
def Idem (E : Env) : Prop := ∀ t a b, E.lv t a = .ok b → E.lv t b = .ok b

/-- Validity of a leaf does not depend on *which copy* of a referenced object it is. -/
def CopyStable (E : Env) : Prop := ∀ t a n, E.lv t a = .ok a → E.lv t (a.copiedAt n) = .ok (a.copiedAt n)

/-! ## Predicates -/

/-- `v` is a fixed point of assignment to a trait of shape `sh`: what C01/C04
establish for every value a trait holds. -/
inductive Valid (E : Env) : Shape → CVal → Prop where
  | any (v : CVal) : Valid E .any v
  | leaf {t a} : E.lv t a = .ok a → Valid E (.leafT t) (.leaf a)
  | node {k kT iT lo hi i b keys kids} :
      (k = .lst → lo ≤ kids.length ∧ kids.length ≤ hi) →
      (∀ key ∈ keys, E.lv kT key = .ok key) →
      (∀ kid ∈ kids, Valid E iT kid) →
      Valid E (.cont k kT iT lo hi) (.node k i b keys kids)

/-- `v` is valid for `sh` AND every container node at a declared position is a
`Trait*Object` bound to object `o` with the trait of that position - at every
nesting depth.  This is the invariant of the live container model (C04). -/
inductive Live (E : Env) (o : Nat) : Shape → CVal → Prop where
  | any (v : CVal) : Live E o .any v
  | leaf {t a} : E.lv t a = .ok a → Live E o (.leafT t) (.leaf a)
  | node {k kT iT lo hi i keys kids} :
      (k = .lst → lo ≤ kids.length ∧ kids.length ≤ hi) →
      (∀ key ∈ keys, E.lv kT key = .ok key) →
      (∀ kid ∈ kids, Live E o iT kid) →
      Live E o (.cont k kT iT lo hi) (.node k i (.bound o (.cont k kT iT lo hi)) keys kids)

theorem Live.valid {E : Env} {o : Nat} {sh : Shape} {v : CVal} (h : Live E o sh v) : Valid E sh v := by
  induction h with
  | any v => exact .any v
  | leaf h => exact .leaf h
  | node h1 h2 _ ih => exact .node h1 h2 ih

/-- Value equality (`==`): identities, bindings and copy generations forgotten. -/
def Leaf.norm : Leaf → Leaf
  | .ref o _ => .ref o 0
  | a => a

mutual
def norm : CVal → CVal
  | .leaf a => .leaf (Leaf.norm a)
  | .node k _ _ keys kids => .node k 0 .plain (keys.map Leaf.norm) (normL kids)
def normL : List CVal → List CVal
  | [] => []
  | v :: vs => norm v :: normL vs
end

theorem normL_eq_map : ∀ l : List CVal, normL l = l.map norm
  | [] => rfl
  | v :: vs => by simp [normL, normL_eq_map vs]

@[simp] theorem Leaf.norm_copiedAt (a : Leaf) (n : Nat) : Leaf.norm (a.copiedAt n) = Leaf.norm a := by
  cases a <;> rfl

/-! ## `valLeaves` -/

theorem valLeaves_ok_of_fixed {E : Env} {t : LeafTy} :
    ∀ {keys : List Leaf}, (∀ key ∈ keys, E.lv t key = .ok key) → valLeaves E t keys = .ok keys
  | [], _ => rfl
  | a :: as, h => by
    have h1 := h a (by simp)
    have h2 := valLeaves_ok_of_fixed (keys := as) (fun k hk => h k (by simp [hk]))
    simp [valLeaves, h1, h2]

theorem valLeaves_fixed {E : Env} (hI : Idem E) {t : LeafTy} :
    ∀ {keys keys' : List Leaf}, valLeaves E t keys = .ok keys' → ∀ key ∈ keys', E.lv t key = .ok key
  | [], keys', h => by
    simp [valLeaves] at h; cases h; intro k hk; cases hk
  | a :: as, keys', h => by
    unfold valLeaves at h
    split at h
    · cases h
    · rename_i a' ha
      split at h
      · cases h
      · rename_i as' has
        cases h
        intro k hk
        rcases List.mem_cons.mp hk with rfl | hk
        · exact hI _ _ _ ha
        · exact valLeaves_fixed hI has k hk

theorem valLeaves_length {E : Env} {t : LeafTy} :
    ∀ {keys keys' : List Leaf}, valLeaves E t keys = .ok keys' → keys'.length = keys.length
  | [], keys', h => by simp [valLeaves] at h; cases h; rfl
  | a :: as, keys', h => by
    unfold valLeaves at h
    split at h
    · cases h
    · split at h
      · cases h
      · rename_i as' has
        cases h
        simp [valLeaves_length has]

/-! ## `validate`: what assignment builds -/

mutual
/-- Whatever assignment accepts, it stores a value that is live for the
assigning object: valid, and with every declared container (at every depth) a
NEW object bound to `o`. -/
theorem validate_live {E : Env} (hI : Idem E) (o : Nat) :
    ∀ (v : CVal) (sh : Shape) (n : Nat) (v' : CVal) (n' : Nat),
      validate E o sh n v = .ok (v', n') → Live E o sh v'
  | .leaf a, sh, n, v', n', h => by
    unfold validate at h
    cases sh with
    | any => simp only at h; cases h; exact .any _
    | leafT t =>
      simp only at h
      split at h
      · cases h
      · rename_i a' ha
        cases h
        exact .leaf (hI _ _ _ ha)
    | cont => simp at h
  | .node k i b keys kids, sh, n, v', n', h => by
    unfold validate at h
    cases sh with
    | any => simp only at h; cases h; exact .any _
    | leafT t => simp at h
    | cont k' kT iT lo hi =>
      simp only at h
      split at h
      · cases h
      · rename_i hk
        split at h
        · cases h
        · rename_i hlen
          split at h
          · cases h
          · rename_i keys' hkeys
            split at h
            · cases h
            · rename_i kids' n2 hkids
              cases h
              have hk' : k = k' := Decidable.of_not_not hk
              subst hk'
              have hl := validateL_live hI o kids iT (n + 1) _ _ hkids
              refine .node ?_ (valLeaves_fixed hI hkeys) hl.1
              intro hlst
              rw [hl.2]
              exact Decidable.of_not_not (fun hc => hlen ⟨hlst, hc⟩)
theorem validateL_live {E : Env} (hI : Idem E) (o : Nat) :
    ∀ (l : List CVal) (sh : Shape) (n : Nat) (l' : List CVal) (n' : Nat),
      validateL E o sh n l = .ok (l', n') → (∀ kid ∈ l', Live E o sh kid) ∧ l'.length = l.length
  | [], sh, n, l', n', h => by
    unfold validateL at h
    cases h
    exact ⟨fun k hk => (by cases hk), rfl⟩
  | v :: vs, sh, n, l', n', h => by
    unfold validateL at h
    split at h
    · cases h
    · rename_i v' n1 hv
      split at h
      · cases h
      · rename_i vs' n2 hvs
        cases h
        have h1 := validate_live hI o v sh n v' n1 hv
        have h2 := validateL_live hI o vs sh n1 _ _ hvs
        refine ⟨?_, by simp [h2.2]⟩
        intro k hk
        rcases List.mem_cons.mp hk with rfl | hk
        · exact h1
        · exact h2.1 k hk
end

/-- On a valid value assignment succeeds and stores an equal value. -/
theorem validateL_of_forall {E : Env} (o : Nat) (sh : Shape) :
    ∀ (l : List CVal),
      (∀ kid ∈ l, ∀ n, ∃ v' n', validate E o sh n kid = .ok (v', n') ∧ norm v' = norm kid) →
      ∀ n, ∃ l' n', validateL E o sh n l = .ok (l', n') ∧ normL l' = normL l
  | [], _, n => ⟨[], n, rfl, rfl⟩
  | v :: vs, h, n => by
    obtain ⟨v', n1, h1, e1⟩ := h v (by simp) n
    obtain ⟨vs', n2, h2, e2⟩ := validateL_of_forall o sh vs (fun k hk => h k (by simp [hk])) n1
    exact ⟨v' :: vs', n2, by simp [validateL, h1, h2], by simp [normL, e1, e2]⟩

theorem validate_of_valid {E : Env} {sh : Shape} {v : CVal} (h : Valid E sh v) (o : Nat) :
    ∀ n, ∃ v' n', validate E o sh n v = .ok (v', n') ∧ norm v' = norm v := by
  induction h with
  | any v =>
    intro n
    cases v <;> exact ⟨_, n, by simp [validate], rfl⟩
  | leaf ha =>
    intro n
    exact ⟨_, n, by simp [validate, ha], rfl⟩
  | node hlen hkeys _ ih =>
    intro n
    rename_i k kT iT lo hi i b keys kids _
    obtain ⟨kids', n', hk, ek⟩ := validateL_of_forall o iT kids ih (n + 1)
    refine ⟨.node k n (.bound o (.cont k kT iT lo hi)) keys kids', n', ?_, ?_⟩
    · unfold validate
      simp only [ne_eq, not_true_eq_false, ↓reduceIte, valLeaves_ok_of_fixed hkeys, hk]
      split
      · rename_i hc
        exact absurd (hlen hc.1) hc.2
      · rfl
    · simp [norm, ek]

/-! ## Identities -/

mutual
/-- Assignment never invents a shared identity: every node of the stored value
is either new (its identity is in `[n, n')`) or a node of the value handed in. -/
theorem validate_ids {E : Env} (o : Nat) :
    ∀ (v : CVal) (sh : Shape) (n : Nat) (v' : CVal) (n' : Nat),
      validate E o sh n v = .ok (v', n') →
      n ≤ n' ∧ ∀ i ∈ ids v', (n ≤ i ∧ i < n') ∨ i ∈ ids v
  | .leaf a, sh, n, v', n', h => by
    unfold validate at h
    cases sh with
    | any => simp only at h; cases h; exact ⟨Nat.le_refl _, fun i hi => Or.inr hi⟩
    | leafT t =>
      simp only at h
      split at h
      · cases h
      · cases h; exact ⟨Nat.le_refl _, fun i hi => by simp [ids] at hi⟩
    | cont => simp at h
  | .node k i b keys kids, sh, n, v', n', h => by
    unfold validate at h
    cases sh with
    | any => simp only at h; cases h; exact ⟨Nat.le_refl _, fun i hi => Or.inr hi⟩
    | leafT t => simp at h
    | cont k' kT iT lo hi =>
      simp only at h
      split at h
      · cases h
      · split at h
        · cases h
        · split at h
          · cases h
          · split at h
            · cases h
            · rename_i hkids
              cases h
              have hl := validateL_ids o kids iT (n + 1) _ _ hkids
              refine ⟨by omega, ?_⟩
              intro j hj
              simp only [ids, List.mem_cons] at hj ⊢
              rcases hj with rfl | hj
              · exact Or.inl ⟨Nat.le_refl _, by omega⟩
              · rcases hl.2 j hj with h1 | h1
                · exact Or.inl ⟨by omega, h1.2⟩
                · exact Or.inr (Or.inr h1)
theorem validateL_ids {E : Env} (o : Nat) :
    ∀ (l : List CVal) (sh : Shape) (n : Nat) (l' : List CVal) (n' : Nat),
      validateL E o sh n l = .ok (l', n') →
      n ≤ n' ∧ ∀ i ∈ idsL l', (n ≤ i ∧ i < n') ∨ i ∈ idsL l
  | [], sh, n, l', n', h => by
    unfold validateL at h
    cases h
    exact ⟨Nat.le_refl _, fun i hi => by simp [idsL] at hi⟩
  | v :: vs, sh, n, l', n', h => by
    unfold validateL at h
    split at h
    · cases h
    · rename_i v' n1 hv
      split at h
      · cases h
      · rename_i hvs
        cases h
        have h1 := validate_ids o v sh n v' n1 hv
        have h2 := validateL_ids o vs sh n1 _ _ hvs
        refine ⟨by omega, ?_⟩
        intro j hj
        simp only [idsL, List.mem_append] at hj ⊢
        rcases hj with hj | hj
        · rcases h1.2 j hj with h | h
          · exact Or.inl ⟨h.1, by omega⟩
          · exact Or.inr (Or.inl h)
        · rcases h2.2 j hj with h | h
          · exact Or.inl ⟨by omega, h.2⟩
          · exact Or.inr (Or.inr h)
end

mutual
/-- Identities of the container nodes at DECLARED positions (those the trait
type-checks: the value of a `List`/`Dict`/`Set` trait and, recursively, the
items of a container-typed inner trait). -/
def declIds : Shape → CVal → List Nat
  | sh, .node _ i _ _ kids =>
    match sh with
    | .cont _ _ iT _ _ => i :: declIdsL iT kids
    | _ => []
  | _, .leaf _ => []
def declIdsL : Shape → List CVal → List Nat
  | _, [] => []
  | sh, v :: vs => declIds sh v ++ declIdsL sh vs
end

mutual
/-- Declared containers are always re-built: after ANY assignment (whatever the
copy mode that produced the value) every container at a declared position is a
new object. -/
theorem validate_declIds_fresh {E : Env} (o : Nat) :
    ∀ (v : CVal) (sh : Shape) (n : Nat) (v' : CVal) (n' : Nat),
      validate E o sh n v = .ok (v', n') → ∀ i ∈ declIds sh v', n ≤ i ∧ i < n'
  | .leaf a, sh, n, v', n', h => by
    unfold validate at h
    cases sh with
    | any => simp only at h; cases h; intro i hi; simp [declIds] at hi
    | leafT t =>
      simp only at h
      split at h
      · cases h
      · cases h; intro i hi; simp [declIds] at hi
    | cont => simp at h
  | .node k i b keys kids, sh, n, v', n', h => by
    unfold validate at h
    cases sh with
    | any => simp only at h; cases h; intro i hi; simp [declIds] at hi
    | leafT t => simp at h
    | cont k' kT iT lo hi =>
      simp only at h
      split at h
      · cases h
      · split at h
        · cases h
        · split at h
          · cases h
          · split at h
            · cases h
            · rename_i hkids
              cases h
              have hm := (validateL_ids o kids iT (n + 1) _ _ hkids).1
              have hl := validateL_declIds_fresh o kids iT (n + 1) _ _ hkids
              intro j hj
              simp only [declIds, List.mem_cons] at hj
              rcases hj with rfl | hj
              · exact ⟨Nat.le_refl _, by omega⟩
              · have := hl j hj; omega
theorem validateL_declIds_fresh {E : Env} (o : Nat) :
    ∀ (l : List CVal) (sh : Shape) (n : Nat) (l' : List CVal) (n' : Nat),
      validateL E o sh n l = .ok (l', n') → ∀ i ∈ declIdsL sh l', n ≤ i ∧ i < n'
  | [], sh, n, l', n', h => by
    unfold validateL at h
    cases h
    intro i hi; simp [declIdsL] at hi
  | v :: vs, sh, n, l', n', h => by
    unfold validateL at h
    split at h
    · cases h
    · rename_i v' n1 hv
      split at h
      · cases h
      · rename_i hvs
        cases h
        have m1 := (validate_ids o v sh n v' n1 hv).1
        have m2 := (validateL_ids o vs sh n1 _ _ hvs).1
        have h1 := validate_declIds_fresh o v sh n v' n1 hv
        have h2 := validateL_declIds_fresh o vs sh n1 _ _ hvs
        intro j hj
        simp only [declIdsL, List.mem_append] at hj
        rcases hj with hj | hj
        · have := h1 j hj; omega
        · have := h2 j hj; omega
end

/-! ## `pickleV` -/

mutual
theorem pickleV_mono : ∀ (v : CVal) (n : Nat), n ≤ (pickleV n v).2
  | .leaf a, n => by simp [pickleV]
  | .node k i b keys kids, n => by
    simp only [pickleV]
    have := pickleL_mono kids (n + 1)
    omega
theorem pickleL_mono : ∀ (l : List CVal) (n : Nat), n ≤ (pickleL n l).2
  | [], n => by simp [pickleL]
  | v :: vs, n => by
    simp only [pickleL]
    have h1 := pickleV_mono v n
    have h2 := pickleL_mono vs (pickleV n v).2
    omega
end

mutual
/-- Unpickling builds only new container objects. -/
theorem pickleV_fresh : ∀ (v : CVal) (n : Nat), ∀ i ∈ ids (pickleV n v).1, n ≤ i ∧ i < (pickleV n v).2
  | .leaf a, n => by simp [pickleV, ids]
  | .node k i b keys kids, n => by
    intro j hj
    simp only [pickleV, ids, List.mem_cons] at hj ⊢
    rcases hj with rfl | hj
    · have := pickleL_mono kids (j + 1); omega
    · have := pickleL_fresh kids (n + 1) j hj; omega
theorem pickleL_fresh : ∀ (l : List CVal) (n : Nat), ∀ i ∈ idsL (pickleL n l).1, n ≤ i ∧ i < (pickleL n l).2
  | [], n => by simp [pickleL, idsL]
  | v :: vs, n => by
    intro j hj
    simp only [pickleL, idsL, List.mem_append] at hj ⊢
    rcases hj with hj | hj
    · have := pickleV_fresh v n j hj; have := pickleL_mono vs (pickleV n v).2; omega
    · have := pickleL_fresh vs (pickleV n v).2 j hj; have := pickleV_mono v n; omega
end

mutual
/-- … equal to the pickled ones. -/
theorem pickleV_norm : ∀ (v : CVal) (n : Nat), norm (pickleV n v).1 = norm v
  | .leaf a, n => by simp [pickleV, norm]
  | .node k i b keys kids, n => by
    simp only [pickleV, norm, pickleL_norm kids (n + 1), List.map_map]
    congr 1
    apply List.map_congr_left
    intro a _
    simp
theorem pickleL_norm : ∀ (l : List CVal) (n : Nat), normL (pickleL n l).1 = normL l
  | [], n => by simp [pickleL, normL]
  | v :: vs, n => by
    simp only [pickleL, normL, pickleV_norm v n, pickleL_norm vs]
end

theorem pickleL_length : ∀ (l : List CVal) (n : Nat), (pickleL n l).1.length = l.length
  | [], n => by simp [pickleL]
  | v :: vs, n => by simp [pickleL, pickleL_length vs]

/-- … and still valid for the trait they came from. -/
theorem pickleL_valid_of_forall {E : Env} (sh : Shape) :
    ∀ (l : List CVal), (∀ kid ∈ l, ∀ n, Valid E sh (pickleV n kid).1) →
      ∀ n, ∀ kid ∈ (pickleL n l).1, Valid E sh kid
  | [], _, n => by simp [pickleL]
  | v :: vs, h, n => by
    intro kid hk
    simp only [pickleL, List.mem_cons] at hk
    rcases hk with rfl | hk
    · exact h v (by simp) n
    · exact pickleL_valid_of_forall sh vs (fun k hk' => h k (by simp [hk'])) _ kid hk

theorem pickleV_valid {E : Env} (hC : CopyStable E) {sh : Shape} {v : CVal} (h : Valid E sh v) :
    ∀ n, Valid E sh (pickleV n v).1 := by
  induction h with
  | any v => intro n; exact .any _
  | leaf ha => intro n; exact .leaf (hC _ _ n ha)
  | node hlen hkeys _ ih =>
    intro n
    simp only [pickleV]
    refine .node ?_ ?_ ?_
    · intro hk; rw [pickleL_length]; exact hlen hk
    · intro key hk
      obtain ⟨a, ha, rfl⟩ := List.mem_map.mp hk
      exact hC _ _ n (hkeys a ha)
    · exact pickleL_valid_of_forall _ _ ih _

end TraitsVerif.Lemmas.Persist
