/-
Lemmas for `Model/SyncLive.lean`:
* the hand-written handlers are the interpretation (`PyLSync.interp`) of the
  programs generated from the source text (`Generated/SyncProg.lean`),
* on states without armed triggers and without table entries for collected
  objects, `cascadeK` is `Sync.cascade`.
-/
import TraitsVerif.Model.SyncLive
import TraitsVerif.Generated.SyncProg
import TraitsVerif.Lemmas.SyncFrame
import TraitsVerif.Lemmas.SyncOps
namespace TraitsVerif.Model.SyncLive
open TraitsVerif TraitsVerif.Py TraitsVerif.Model TraitsVerif.Model.Sync TraitsVerif.Model.PyLSync

variable {α : Type}

/-! ### The source tie -/

/-- The snapshot loop of the interpreter is a fold when the bodies agree and the
body never returns or raises (`emb`: how the model's loop state sits in the
interpreter's state). -/
theorem snapLoop_eq {σ : Type} (emb : σ → St α) (bodyI : St α → Pair → St α × Sig) (bodyK : σ → Pair → σ)
    (h : ∀ s q, ∃ sg, (sg = Sig.norm ∨ sg = Sig.cont) ∧ bodyI (emb s) q = (emb (bodyK s q), sg)) :
    ∀ (qs : List Pair) (s : σ), snapLoop bodyI qs (emb s) = (emb (qs.foldl bodyK s), .norm) := by
  intro qs
  induction qs with
  | nil => intro s; rfl
  | cons q qs ih =>
    intro s
    obtain ⟨sg, hsg, hb⟩ := h s q
    unfold snapLoop
    rw [hb]
    rcases hsg with rfl | rfl <;> simp only [List.foldl_cons] <;> exact ih _

/-- Loop body of `_sync_trait_modified`. -/
theorem body_modified (rec : Rec α) (p : Pair) (v : AVal α) (ix : Idx) (k : KWorld α) (q : Pair) :
    ∃ sg, (sg = Sig.norm ∨ sg = Sig.cont) ∧
    interp rec p (.new v)
      (.seq (.ite .partnerDead .cont .skip)
        (.ite (.not (.lockedAtPartner true)) (.tryPass true (.act .setPartner)) .skip))
      (some q) { k := k, idx := ix } = ({ k := visitK rec (.assign v) k q, idx := ix }, sg) := by
  unfold visitK
  by_cases hd : q.1 ∈ k.dead
  · exact ⟨.cont, Or.inr rfl, by simp [interp, evalCond, hd]⟩
  · refine ⟨.norm, Or.inl rfl, ?_⟩
    by_cases hl : q ∈ k.w.locked
    · simp [interp, evalCond, hd, hl]
    · cases hr : rec k q (.assign v) with
      | error e => simp [interp, evalCond, doAct, callRec, hd, hl, hr]
      | ok x => obtain ⟨k', r⟩ := x; simp [interp, evalCond, doAct, callRec, hd, hl, hr]

/-- `index` after the normalisation at the head of `_sync_trait_items_modified`. -/
def normIdx (e : Event α) : Slice :=
  match e.index with
  | .idx n => ⟨some n, some (n + e.removed.length), none⟩
  | .slc a b c => ⟨some a, some b, some c⟩

/-- Loop body of `_sync_trait_items_modified`. -/
theorem body_items (rec : Rec α) (p : Pair) (e : Event α) (s : KWorld α × List Pair) (q : Pair) :
    ∃ sg, (sg = Sig.norm ∨ sg = Sig.cont) ∧
    interp rec p (.event e)
      (.seq (.ite .partnerDead .cont .skip)
        (.ite (.not (.lockedAtPartner true))
          (.tryPass true (.seq (.ite .partnerListUpdated .cont .skip) (.seq (.act .markUpdated)
            (.ite (.or .eventAdded .stepIsNone) (.act .partnerSetSlice) (.act .partnerDelSlice))))) .skip))
      (some q) { k := s.1, idx := .slice (normIdx e), upd := s.2 } =
    ({ k := (visitU rec (.mutate (eventOp e)) s q).1, idx := .slice (normIdx e),
       upd := (visitU rec (.mutate (eventOp e)) s q).2 }, sg) := by
  obtain ⟨k, U⟩ := s
  unfold visitU
  by_cases hd : q.1 ∈ k.dead
  · exact ⟨.cont, Or.inr rfl, by simp [interp, evalCond, hd]⟩
  · by_cases hl : q ∈ k.w.locked
    · exact ⟨.norm, Or.inl rfl, by simp [interp, evalCond, hd, hl]⟩
    · by_cases hu : q ∈ U
      · exact ⟨.cont, Or.inr rfl, by simp [interp, evalCond, hd, hl, hu]⟩
      · refine ⟨.norm, Or.inl rfl, ?_⟩
        have hop : (if (!e.added.isEmpty || (normIdx e).step.isNone) = true
            then Op.setSlice (normIdx e) e.added else Op.delSlice (normIdx e)) = eventOp e := by
          unfold eventOp normIdx
          cases e.index with
          | idx n => simp
          | slc a b c => cases e.added <;> simp
        cases ha : e.added.isEmpty <;> cases hs : (normIdx e).step.isNone <;>
          simp only [ha, hs, Bool.not_true, Bool.not_false, Bool.or_true, Bool.or_false, Bool.false_eq_true,
            if_true, if_false] at hop <;>
          (cases hr : rec k q (.mutate (eventOp e)) with
            | error x => simp [interp, evalCond, doAct, callRec, hd, hl, hu, ha, hs, hop, hr]
            | ok x => obtain ⟨k', r⟩ := x; simp [interp, evalCond, doAct, callRec, hd, hl, hu, ha, hs, hop, hr])

theorem partners_lock (w : World α) (p r : Pair) : (w.lock p).partners r = w.partners r := rfl

/-- `_sync_trait_modified` (hand-written) is the interpretation of its source text. -/
theorem handlerModified_is_source (rec : Rec α) (k : KWorld α) (p : Pair) (v : AVal α) :
    handlerModified rec k p v = runHandler rec Generated.SyncProg.syncTraitModified k p (.new v) := by
  unfold handlerModified handlerK runHandler Generated.SyncProg.syncTraitModified
  by_cases he : (k.w.partners p).isEmpty = true
  · simp [interp, evalCond, he]
  · simp only [Bool.not_eq_true] at he
    simp only [interp, evalCond, he, doAct, St.setW, partners_lock, Bool.not_false, Bool.not_true, if_true,
      Bool.false_eq_true, if_false]
    rw [snapLoop_eq (fun k => ({ k := k, idx := initIdx (.new v) } : St α)) _ (visitK rec (.assign v))
      (body_modified rec p v _)]
    simp only []
    by_cases hp : p ∈ (List.foldl (visitK rec (.assign v)) { k with w := k.w.lock p } (k.w.partners p)).w.locked <;>
      simp [hp]

theorem norm_index (rec : Rec α) (p : Pair) (e : Event α) (k : KWorld α) :
    interp rec p (.event e) (.ite (.not .indexIsSlice) (.act .indexToSlice) .skip) none
      { k := k, idx := initIdx (.event e) } = ({ k := k, idx := .slice (normIdx e) }, .norm) := by
  unfold initIdx normIdx
  cases h : e.index <;> simp [interp, evalCond, doAct, h]

/-- `_sync_trait_items_modified` (hand-written) is the interpretation of its source text. -/
theorem handlerItems_is_source (rec : Rec α) (k : KWorld α) (p : Pair) (e : Event α) :
    handlerItems rec k p e = runHandler rec Generated.SyncProg.syncTraitItemsModified k p (.event e) := by
  unfold handlerItems handlerU runHandler Generated.SyncProg.syncTraitItemsModified
  rw [interp, norm_index]
  by_cases he : (k.w.partners p).isEmpty = true
  · simp [interp, evalCond, he]
  · simp only [Bool.not_eq_true] at he
    simp only [interp, evalCond, he, doAct, St.setW, partners_lock, Bool.not_false, Bool.not_true, if_true,
      Bool.false_eq_true, if_false]
    rw [snapLoop_eq (fun s : KWorld α × List Pair => ({ k := s.1, idx := .slice (normIdx e), upd := s.2 } : St α))
      _ (visitU rec (.mutate (eventOp e))) (body_items rec p e) (k.w.partners p) ({ k with w := k.w.lock p }, [p])]
    simp only []
    by_cases hp : p ∈ (List.foldl (visitU rec (.mutate (eventOp e))) ({ k with w := k.w.lock p }, [p])
        (k.w.partners p)).1.w.locked <;> simp [hp]

/-! ### Conservativity: without armed triggers `cascadeK` is `Sync.cascade` -/

/-- A result of `Model.Sync` seen in `KWorld` `k`. -/
def lift (k : KWorld α) : Except Exc (World α × Option α) → Except Exc (KWorld α × Option α)
  | .ok (w', r) => .ok ({ k with w := w' }, r)
  | .error e => .error e

/-- No armed trigger, no table lists a collected object, and no table lists a
partner twice (a dict holds a key once; every history of `stepK` without `arm`
keeps this). -/
def Quiet (k : KWorld α) : Prop :=
  k.doom = [] ∧ (∀ e ∈ k.w.edges, e.dst.1 ∉ k.dead) ∧ k.w.edges.Nodup

theorem Quiet.of_edges {k : KWorld α} (h : Quiet k) (w' : World α) (he : w'.edges = k.w.edges) :
    Quiet { k with w := w' } :=
  ⟨h.1, by intro e hm; rw [he] at hm; exact h.2.1 e hm, by show w'.edges.Nodup; rw [he]; exact h.2.2⟩

theorem mem_partners {w : World α} {p q : Pair} (h : q ∈ w.partners p) : (⟨p, q⟩ : Edge) ∈ w.edges := by
  unfold World.partners at h
  obtain ⟨e, he, rfl⟩ := List.mem_map.mp h
  obtain ⟨hm, hs⟩ := List.mem_filter.mp he
  have : e.src = p := by simpa using hs
  cases e; simp_all

theorem foldK_quiet {π : Type} (rec : Rec α) (rec' : World α → Pair → π → Except Exc (World α × Option α))
    (req : Req α) (y : π)
    (hrec : ∀ k q, Quiet k → rec k q req = lift k (rec' k.w q y))
    (hframe : ∀ w q w' r, q ∉ w.locked → rec' w q y = .ok (w', r) → SameTabs w w')
    (E0 : List Edge) :
    ∀ (P : List Pair) (k : KWorld α), Quiet k → k.w.edges = E0 → (∀ q ∈ P, q.1 ∉ k.dead) →
      P.foldl (visitK rec req) k = { k with w := P.foldl (visitPartner rec' y) k.w } := by
  intro P
  induction P with
  | nil => intro k _ _ _; rfl
  | cons q qs ih =>
    intro k hq hE hnd
    have hd : q.1 ∉ k.dead := hnd q (List.mem_cons_self ..)
    simp only [List.foldl_cons]
    have hstep : ∃ w', visitK rec req k q = { k with w := w' } ∧ visitPartner rec' y k.w q = w' ∧
        w'.edges = k.w.edges := by
      unfold visitK visitPartner
      simp only [hd, if_false]
      by_cases hl : q ∈ k.w.locked
      · exact ⟨k.w, by simp [hl], by simp [hl], rfl⟩
      · simp only [hl, if_false]
        rw [hrec k q hq]
        cases hr : rec' k.w q y with
        | error e => exact ⟨k.w, rfl, rfl, rfl⟩
        | ok x =>
          obtain ⟨w', r⟩ := x
          exact ⟨w', rfl, rfl, (hframe k.w q w' r hl hr).1⟩
    obtain ⟨w', h1, h2, h3⟩ := hstep
    rw [h1, h2]
    exact ih { k with w := w' } (hq.of_edges w' h3) (by show w'.edges = E0; rw [h3, hE])
      (fun q' hq' => hnd q' (List.mem_cons_of_mem _ hq'))

theorem handlerK_quiet {π : Type} (rec : Rec α) (rec' : World α → Pair → π → Except Exc (World α × Option α))
    (req : Req α) (y : π)
    (hrec : ∀ k q, Quiet k → rec k q req = lift k (rec' k.w q y))
    (hframe : ∀ w q w' r, q ∉ w.locked → rec' w q y = .ok (w', r) → SameTabs w w')
    (k : KWorld α) (p : Pair) (hq : Quiet k) (hne : (k.w.partners p).isEmpty = false) :
    handlerK rec req k p =
      ({ k with w := ((k.w.partners p).foldl (visitPartner rec' y) (k.w.lock p)).unlock p }, none) := by
  unfold handlerK
  rw [if_neg (by simp [hne])]
  have hfold := foldK_quiet rec rec' req y hrec hframe k.w.edges (k.w.partners p) { k with w := k.w.lock p }
    (hq.of_edges _ rfl) rfl (fun q hq' => hq.2.1 ⟨p, q⟩ (mem_partners hq'))
  simp only []
  rw [hfold]
  have hst := foldl_sameTabs (rec := rec') (y := y) hframe (k.w.partners p) (k.w.lock p)
  have hp : p ∈ ((k.w.partners p).foldl (visitPartner rec' y) (k.w.lock p)).locked := by
    rw [hst.2.1]; simp [World.lock]
  simp [hp]

theorem partners_nodup {w : World α} (h : w.edges.Nodup) (p : Pair) : (w.partners p).Nodup := by
  unfold World.partners
  generalize w.edges = es at h
  induction es with
  | nil => exact List.nodup_nil
  | cons e es ih =>
    obtain ⟨hne, hnd⟩ := List.nodup_cons.mp h
    by_cases hs : e.src = p
    · have : List.filter (fun e => decide (e.src = p)) (e :: es) = e :: List.filter (fun e => decide (e.src = p)) es := by
        simp [hs]
      rw [this, List.map_cons]
      refine List.nodup_cons.mpr ⟨?_, ih hnd⟩
      intro hm
      obtain ⟨e', he', hd⟩ := List.mem_map.mp hm
      obtain ⟨hm', hs'⟩ := List.mem_filter.mp he'
      have hs'' : e'.src = p := by simpa using hs'
      have : e' = e := by cases e; cases e'; simp_all
      exact hne (this ▸ hm')
    · have : List.filter (fun e => decide (e.src = p)) (e :: es) = List.filter (fun e => decide (e.src = p)) es := by
        simp [hs]
      rw [this]
      exact ih hnd

theorem foldU_quiet {π : Type} (rec : Rec α) (rec' : World α → Pair → π → Except Exc (World α × Option α))
    (req : Req α) (y : π)
    (hrec : ∀ k q, Quiet k → rec k q req = lift k (rec' k.w q y))
    (hframe : ∀ w q w' r, q ∉ w.locked → rec' w q y = .ok (w', r) → SameTabs w w')
    (E0 : List Edge) :
    ∀ (P : List Pair) (k : KWorld α) (U : List Pair), Quiet k → k.w.edges = E0 → (∀ q ∈ P, q.1 ∉ k.dead) →
      P.Nodup → (∀ q ∈ P, q ∈ U → q ∈ k.w.locked) →
      (P.foldl (visitU rec req) (k, U)).1 = { k with w := P.foldl (visitPartner rec' y) k.w } := by
  intro P
  induction P with
  | nil => intro k U _ _ _ _ _; rfl
  | cons q qs ih =>
    intro k U hq hE hnd hnodup hU
    have hd : q.1 ∉ k.dead := hnd q (List.mem_cons_self ..)
    obtain ⟨hqn, hqs⟩ := List.nodup_cons.mp hnodup
    simp only [List.foldl_cons]
    have hstep : ∃ w' U', visitU rec req (k, U) q = ({ k with w := w' }, U') ∧ visitPartner rec' y k.w q = w' ∧
        w'.edges = k.w.edges ∧ w'.locked = k.w.locked ∧ (∀ t, t ∈ U' → t ∈ U ∨ t = q) := by
      unfold visitU visitPartner
      simp only [hd, if_false]
      by_cases hl : q ∈ k.w.locked
      · exact ⟨k.w, U, by simp [hl], by simp [hl], rfl, rfl, fun t h => Or.inl h⟩
      · have hu : q ∉ U := fun h => hl (hU q (List.mem_cons_self ..) h)
        simp only [hl, hu, if_false]
        rw [hrec k q hq]
        cases hr : rec' k.w q y with
        | error e => exact ⟨k.w, q :: U, rfl, rfl, rfl, rfl, fun t h => by
            rcases List.mem_cons.mp h with h | h
            · exact Or.inr h
            · exact Or.inl h⟩
        | ok x =>
          obtain ⟨w', r⟩ := x
          have hst := hframe k.w q w' r hl hr
          exact ⟨w', q :: U, rfl, rfl, hst.1, hst.2.1, fun t h => by
            rcases List.mem_cons.mp h with h | h
            · exact Or.inr h
            · exact Or.inl h⟩
    obtain ⟨w', U', h1, h2, h3, h4, h5⟩ := hstep
    rw [h1, h2]
    exact ih { k with w := w' } U' (hq.of_edges w' h3) (by show w'.edges = E0; rw [h3, hE])
      (fun q' hq' => hnd q' (List.mem_cons_of_mem _ hq')) hqs
      (fun t ht htU => by
        show t ∈ w'.locked
        rw [h4]
        rcases h5 t htU with h | h
        · exact hU t (List.mem_cons_of_mem _ ht) h
        · exact absurd (h ▸ ht) hqn)

theorem handlerU_quiet {π : Type} (rec : Rec α) (rec' : World α → Pair → π → Except Exc (World α × Option α))
    (req : Req α) (y : π)
    (hrec : ∀ k q, Quiet k → rec k q req = lift k (rec' k.w q y))
    (hframe : ∀ w q w' r, q ∉ w.locked → rec' w q y = .ok (w', r) → SameTabs w w')
    (k : KWorld α) (p : Pair) (hq : Quiet k) (hne : (k.w.partners p).isEmpty = false) :
    handlerU rec req k p =
      ({ k with w := ((k.w.partners p).foldl (visitPartner rec' y) (k.w.lock p)).unlock p }, none) := by
  unfold handlerU
  rw [if_neg (by simp [hne])]
  have hfold := foldU_quiet rec rec' req y hrec hframe k.w.edges (k.w.partners p) { k with w := k.w.lock p } [p]
    (hq.of_edges _ rfl) rfl (fun q hq' => hq.2.1 ⟨p, q⟩ (mem_partners hq')) (partners_nodup hq.2.2 p)
    (fun t _ ht => by
      have : t = p := by simpa using ht
      subst this
      simp [World.lock])
  simp only []
  rw [hfold]
  have hst := foldl_sameTabs (rec := rec') (y := y) hframe (k.w.partners p) (k.w.lock p)
  have hp : p ∈ ((k.w.partners p).foldl (visitPartner rec' y) (k.w.lock p)).locked := by
    rw [hst.2.1]; simp [World.lock]
  simp [hp]

theorem fire_quiet (k : KWorld α) (p : Pair) (h : k.doom = []) : fire k p = k := by
  simp [fire, h]

theorem applyMutate_eq (E : Sync.Env α) (w : World α) (p : Pair) (op : Op α) :
    applyMutate E w p op =
      match applyMutateE E w p op with
      | .error e => .error e
      | .ok (w1, r, y) => .ok (w1, r, y.map eventOp) := by
  unfold applyMutate applyMutateE
  by_cases hl : E.isList p = true
  · simp only [hl, if_true]
    cases listStep (E.tl p) (w.list p) op with
    | error e => rfl
    | ok o =>
      simp only []
      cases o.event with
      | none => rfl
      | some e => by_cases hh : p ∈ w.hooked <;> simp [hh]
  · simp only [hl]; rfl

/-- The step after `apply`, shared by the two conservativity theorems. -/
theorem after_apply_quiet [DecidableEq α] (E : Sync.Env α) {π : Type} (d : Nat)
    (rec' : World α → Pair → π → Except Exc (World α × Option α)) (req : Req α) (y : π)
    (hrec : ∀ k q, Quiet k → cascadeK E d k q req = lift k (rec' k.w q y))
    (hframe : ∀ w q w' r, q ∉ w.locked → rec' w q y = .ok (w', r) → SameTabs w w')
    (k : KWorld α) (p : Pair) (w1 : World α) (hq : Quiet k) (he : w1.edges = k.w.edges) (upd : Bool) :
    swallow ((if upd then handlerU else handlerK) (cascadeK E d) req
        (if notified k.w w1 p then fire { k with w := w1 } p else { k with w := w1 }) p) =
      { k with w := if (w1.partners p).isEmpty then w1
                    else ((w1.partners p).foldl (visitPartner rec' y) (w1.lock p)).unlock p } := by
  have hk1 : (if notified k.w w1 p then fire { k with w := w1 } p else { k with w := w1 }) = { k with w := w1 } := by
    split
    · exact fire_quiet _ p hq.1
    · rfl
  rw [hk1]
  have hq1 : Quiet { k with w := w1 } := hq.of_edges w1 he
  by_cases hne : (w1.partners p).isEmpty = true
  · cases upd <;> simp [handlerK, handlerU, hne, swallow]
  · simp only [Bool.not_eq_true] at hne
    cases upd
    · simp only [Bool.false_eq_true, if_false]
      rw [handlerK_quiet (cascadeK E d) rec' req y hrec hframe _ p hq1 hne]
      simp [swallow, hne]
    · simp only [if_true]
      rw [handlerU_quiet (cascadeK E d) rec' req y hrec hframe _ p hq1 hne]
      simp [swallow, hne]

theorem cascadeK_assign [DecidableEq α] (E : Sync.Env α) (d : Nat) :
    ∀ (k : KWorld α) (p : Pair) (v : AVal α), Quiet k →
      cascadeK E d k p (.assign v) = lift k (cascade (applyAssign E) d k.w p v) := by
  induction d with
  | zero => intro k p v _; rfl
  | succ d ih =>
    intro k p v hq
    unfold cascadeK
    rw [cascade_succ]
    simp only [applyK]
    cases ha : applyAssign E k.w p v with
    | error e => rfl
    | ok x =>
      obtain ⟨w1, r, y⟩ := x
      have he : w1.edges = k.w.edges := (local_assign E).edges ha
      cases y with
      | none =>
        simp only [Option.map_none, lift]
        congr 2
        split
        · exact fire_quiet _ p hq.1
        · rfl
      | some new =>
        simp only [Option.map_some, runHandlerK, handlerModified]
        have hA := after_apply_quiet E d (cascade (applyAssign E) d) (.assign new) new
          (fun k q hk => ih k q new hk) (fun w q w' r => cascade_frame (local_assign E) d w q new w' r) k p w1 hq he false
        simp only [Bool.false_eq_true, if_false] at hA
        rw [hA]
        by_cases hne : (w1.partners p).isEmpty = true <;> simp [hne, lift]

theorem cascadeK_mutate [DecidableEq α] (E : Sync.Env α) (d : Nat) :
    ∀ (k : KWorld α) (p : Pair) (op : Op α), Quiet k →
      cascadeK E d k p (.mutate op) = lift k (cascade (applyMutate E) d k.w p op) := by
  induction d with
  | zero => intro k p v _; rfl
  | succ d ih =>
    intro k p op hq
    unfold cascadeK
    rw [cascade_succ, applyMutate_eq]
    simp only [applyK]
    cases ha : applyMutateE E k.w p op with
    | error e => rfl
    | ok x =>
      obtain ⟨w1, r, y⟩ := x
      have ha' : applyMutate E k.w p op = .ok (w1, r, y.map eventOp) := by rw [applyMutate_eq, ha]
      have he : w1.edges = k.w.edges := (local_mutate E).edges ha'
      cases y with
      | none =>
        simp only [Option.map_none, lift]
        congr 2
        split
        · exact fire_quiet _ p hq.1
        · rfl
      | some e =>
        simp only [Option.map_some, runHandlerK, handlerItems]
        have hA := after_apply_quiet E d (cascade (applyMutate E) d) (.mutate (eventOp e)) (eventOp e)
          (fun k q hk => ih k q (eventOp e) hk)
          (fun w q w' r => cascade_frame (local_mutate E) d w q (eventOp e) w' r) k p w1 hq he true
        simp only [if_true] at hA
        rw [hA]
        by_cases hne : (w1.partners p).isEmpty = true <;> simp [hne, lift]

/-! ### The lock protocol with partner death during the propagation (repaired F97) -/

/-- Same lock tables, nothing swallowed. -/
def Calm (k k' : KWorld α) : Prop := k'.w.locked = k.w.locked ∧ k'.swallowed = k.swallowed

theorem Calm.refl (k : KWorld α) : Calm k k := ⟨rfl, rfl⟩

theorem Calm.trans {a b c : KWorld α} (h1 : Calm a b) (h2 : Calm b c) : Calm a c :=
  ⟨h2.1.trans h1.1, h2.2.trans h1.2⟩

theorem kill_locked (w : World α) (o : Nat) (h : w.locked.any (fun l => decide (l.1 = o)) = false) :
    (w.kill o).locked = w.locked := by
  unfold World.kill
  simp only
  apply List.filter_eq_self.mpr
  intro a ha
  simp only [List.any_eq_false, decide_eq_true_eq] at h
  simpa using h a ha

/-- Only objects without a lock are collected. -/
theorem fire_calm (k : KWorld α) (p : Pair) : Calm k (fire k p) := by
  unfold fire
  generalize k.doom = L
  induction L generalizing k with
  | nil => exact Calm.refl k
  | cons t ts ih =>
    simp only [List.foldl_cons]
    refine Calm.trans ?_ (ih _)
    split
    · rename_i h
      have hb := h.2
      simp only [isBusy, Bool.or_eq_false_iff] at hb
      exact ⟨kill_locked k.w t.2 hb.2, rfl⟩
    · exact Calm.refl k

theorem applyK_locked [DecidableEq α] (E : Sync.Env α) {w w1 : World α} {p : Pair} {req : Req α} {r : Option α}
    {pay : Option (Payload α)} (h : applyK E w p req = .ok (w1, r, pay)) : w1.locked = w.locked := by
  cases req with
  | assign v =>
    simp only [applyK] at h
    cases ha : applyAssign E w p v with
    | error e => rw [ha] at h; cases h
    | ok x =>
      obtain ⟨w1', r', y⟩ := x
      rw [ha] at h
      cases h
      exact (local_assign E).locked ha
  | mutate op =>
    simp only [applyK] at h
    cases ha : applyMutateE E w p op with
    | error e => rw [ha] at h; cases h
    | ok x =>
      obtain ⟨w1', r', y⟩ := x
      rw [ha] at h
      cases h
      have : applyMutate E w p op = .ok (w1, r, y.map eventOp) := by rw [applyMutate_eq, ha]
      exact (local_mutate E).locked this

theorem foldK_calm (rec : Rec α) (req : Req α)
    (hrec : ∀ k q k' r, q ∉ k.w.locked → rec k q req = .ok (k', r) → Calm k k') :
    ∀ (P : List Pair) (k : KWorld α), Calm k (P.foldl (visitK rec req) k) := by
  intro P
  induction P with
  | nil => intro k; exact Calm.refl k
  | cons q qs ih =>
    intro k
    simp only [List.foldl_cons]
    refine Calm.trans ?_ (ih _)
    unfold visitK
    split
    · exact Calm.refl k
    · split
      · exact Calm.refl k
      · rename_i hl
        split
        · rename_i k' r hr
          exact hrec k q k' r hl hr
        · exact Calm.refl k

/-- A handler started on an unlocked trait returns with the lock tables it
found, and nothing escapes it — whatever dies meanwhile. -/
theorem handlerK_calm (rec : Rec α) (req : Req α)
    (hrec : ∀ k q k' r, q ∉ k.w.locked → rec k q req = .ok (k', r) → Calm k k')
    (k : KWorld α) (p : Pair) (hp : p ∉ k.w.locked) :
    Calm k (handlerK rec req k p).1 ∧ (handlerK rec req k p).2 = none := by
  unfold handlerK
  split
  · exact ⟨Calm.refl k, rfl⟩
  · have hc := foldK_calm rec req hrec (k.w.partners p) { k with w := k.w.lock p }
    have hin : p ∈ (List.foldl (visitK rec req) { k with w := k.w.lock p } (k.w.partners p)).w.locked := by
      rw [hc.1]; simp [World.lock]
    simp only [hin, if_true]
    refine ⟨⟨?_, hc.2⟩, trivial⟩
    show (World.unlock _ p).locked = k.w.locked
    unfold World.unlock
    simp only
    rw [hc.1]
    show List.filter (fun x => decide (x ≠ p)) (p :: k.w.locked) = k.w.locked
    rw [List.filter_cons_of_neg (by simp)]
    exact filter_ne_self_of_not_mem hp

theorem foldU_calm (rec : Rec α) (req : Req α)
    (hrec : ∀ k q k' r, q ∉ k.w.locked → rec k q req = .ok (k', r) → Calm k k') :
    ∀ (P : List Pair) (s : KWorld α × List Pair), Calm s.1 (P.foldl (visitU rec req) s).1 := by
  intro P
  induction P with
  | nil => intro s; exact Calm.refl s.1
  | cons q qs ih =>
    intro s
    simp only [List.foldl_cons]
    refine Calm.trans ?_ (ih _)
    unfold visitU
    split
    · exact Calm.refl _
    · split
      · exact Calm.refl _
      · rename_i hl
        split
        · exact Calm.refl _
        · split
          · rename_i k' r hr
            exact hrec s.1 q k' r hl hr
          · exact Calm.refl _

theorem handlerU_calm (rec : Rec α) (req : Req α)
    (hrec : ∀ k q k' r, q ∉ k.w.locked → rec k q req = .ok (k', r) → Calm k k')
    (k : KWorld α) (p : Pair) (hp : p ∉ k.w.locked) :
    Calm k (handlerU rec req k p).1 ∧ (handlerU rec req k p).2 = none := by
  unfold handlerU
  split
  · exact ⟨Calm.refl k, rfl⟩
  · have hc := foldU_calm rec req hrec (k.w.partners p) ({ k with w := k.w.lock p }, [p])
    have hin : p ∈ (List.foldl (visitU rec req) ({ k with w := k.w.lock p }, [p]) (k.w.partners p)).1.w.locked := by
      rw [hc.1]; simp [World.lock]
    simp only [hin, if_true]
    refine ⟨⟨?_, hc.2⟩, trivial⟩
    show (World.unlock _ p).locked = k.w.locked
    unfold World.unlock
    simp only
    rw [hc.1]
    show List.filter (fun x => decide (x ≠ p)) (p :: k.w.locked) = k.w.locked
    rw [List.filter_cons_of_neg (by simp)]
    exact filter_ne_self_of_not_mem hp

theorem cascadeK_calm [DecidableEq α] (E : Sync.Env α) (d : Nat) :
    ∀ (k : KWorld α) (p : Pair) (req : Req α) (k' : KWorld α) (r : Option α),
      p ∉ k.w.locked → cascadeK E d k p req = .ok (k', r) → Calm k k' := by
  induction d with
  | zero => intro k p req k' r _ h; simp [cascadeK] at h
  | succ d ih =>
    intro k p req k' r hp h
    unfold cascadeK at h
    cases ha : applyK E k.w p req with
    | error e => rw [ha] at h; cases h
    | ok x =>
      obtain ⟨w1, r1, pay⟩ := x
      rw [ha] at h
      have hl1 : w1.locked = k.w.locked := applyK_locked E ha
      have hk1 : Calm k (if notified k.w w1 p then fire { k with w := w1 } p else { k with w := w1 }) := by
        split
        · exact Calm.trans (b := { k with w := w1 }) ⟨hl1, rfl⟩ (fire_calm _ p)
        · exact ⟨hl1, rfl⟩
      cases pay with
      | none =>
        simp only at h
        cases h
        exact hk1
      | some pl =>
        simp only at h
        cases h
        refine Calm.trans hk1 ?_
        have hp1 : p ∉ (if notified k.w w1 p then fire { k with w := w1 } p else { k with w := w1 }).w.locked := by
          rw [hk1.1]; exact hp
        cases pl with
        | new v =>
          obtain ⟨hc, hn⟩ := handlerK_calm (cascadeK E d) (.assign v) (fun k q k' r => ih k q (.assign v) k' r) _ p hp1
          simp only [runHandlerK, handlerModified]
          revert hc hn
          generalize handlerK (cascadeK E d) (.assign v) _ p = res
          obtain ⟨k2, ex⟩ := res
          intro hc hn
          simp only at hn
          subst hn
          exact hc
        | event e =>
          obtain ⟨hc, hn⟩ := handlerU_calm (cascadeK E d) (.mutate (eventOp e))
            (fun k q k' r => ih k q (.mutate (eventOp e)) k' r) _ p hp1
          simp only [runHandlerK, handlerItems]
          revert hc hn
          generalize handlerU (cascadeK E d) (.mutate (eventOp e)) _ p = res
          obtain ⟨k2, ex⟩ := res
          intro hc hn
          simp only at hn
          subst hn
          exact hc

/-- Unlocked and nothing swallowed so far. -/
def Rest (n : Nat) (k : KWorld α) : Prop := k.w.locked = [] ∧ k.swallowed = n

theorem finishK_rest [DecidableEq α] (E : Sync.Env α) {n : Nat} (k : KWorld α) (p : Pair) (req : Req α) (d : Nat)
    (h : Rest n k) : Rest n (finishK k (cascadeK E d k p req)).world := by
  cases hc : cascadeK E d k p req with
  | error e => exact h
  | ok x =>
    obtain ⟨k', r⟩ := x
    have := cascadeK_calm E d k p req k' r (by rw [h.1]; simp) hc
    exact ⟨this.1.trans h.1, this.2.trans h.2⟩

theorem linkOneS_rest [DecidableEq α] (E : Sync.Env α) {n : Nat} (k : KWorld α) (p q : Pair) (h : Rest n k) :
    Rest n (linkOneS E k p q).1 := by
  unfold linkOneS
  split
  · exact h
  · simp only []
    generalize hk3 : PyLLink.setEdges _ _ = k3
    have h3 : Rest n k3 := by
      subst hk3
      unfold PyLLink.setEdges hookI hookM PyLLink.setHooked
      refine ⟨?_, ?_⟩
      · show (ite _ _ _ : KWorld α).w.locked = []
        split <;> (try split) <;> (try split) <;> (try split) <;> exact h.1
      · show (ite _ _ _ : KWorld α).swallowed = n
        split <;> (try split) <;> (try split) <;> (try split) <;> exact h.2
    cases hc : recB E k3 q (.assign (k3.w.val p)) with
    | error e => exact h3
    | ok x =>
      obtain ⟨k4, r⟩ := x
      have := cascadeK_calm E _ k3 q _ k4 r (by rw [h3.1]; simp) hc
      exact ⟨this.1.trans h3.1, this.2.trans h3.2⟩

theorem linkS_rest [DecidableEq α] (E : Sync.Env α) {n : Nat} (k : KWorld α) (p q : Pair) (b : Bool) (h : Rest n k) :
    Rest n (linkS E k p q b).1 := by
  unfold linkS
  have h1 := linkOneS_rest E k p q h
  cases hl : linkOneS E k p q with
  | mk k1 ex =>
    rw [hl] at h1
    cases ex with
    | some e => exact h1
    | none =>
      cases b
      · exact h1
      · exact linkOneS_rest E k1 q p h1

theorem unlinkOneS_rest (E : Sync.Env α) {n : Nat} (k : KWorld α) (p q : Pair) (h : Rest n k) :
    Rest n (unlinkOneS E k p q) := by
  unfold unlinkOneS PyLLink.setEdges PyLLink.setHooked
  split
  · exact h
  · split
    · simp only []
      split <;> split <;> exact h
    · exact h

theorem stepK_rest [DecidableEq α] (E : Sync.Env α) {n : Nat} (k : KWorld α) (c : CmdK α) (h : Rest n k) :
    Rest n (stepK E k c).world := by
  cases c with
  | arm p o => exact h
  | cmd c =>
    have h0 : Rest n { k with busy := cmdObjs c } := h
    cases c with
    | assign p v => exact finishK_rest E _ p _ _ h0
    | mutate p op => exact finishK_rest E _ p _ _ h0
    | link p q m =>
      simp only [stepK]
      exact linkS_rest E _ p q m h0
    | unlink p q m =>
      simp only [stepK, unlinkS]
      split
      · exact unlinkOneS_rest E _ q p (unlinkOneS_rest E _ p q h0)
      · exact unlinkOneS_rest E _ p q h0
    | kill o => exact ⟨by simp [stepK, killK, World.kill, h.1], h.2⟩

theorem runK_rest [DecidableEq α] (E : Sync.Env α) {n : Nat} (cs : List (CmdK α)) :
    ∀ k : KWorld α, Rest n k → Rest n (runK E k cs) := by
  induction cs with
  | nil => intro k h; exact h
  | cons c cs ih => intro k h; exact ih _ (stepK_rest E k c h)

/-! ### Survivors are updated (hub with partners that have no partner but the hub) -/

/-- No table lists a collected object. -/
def Tidy (k : KWorld α) : Prop := ∀ e ∈ k.w.edges, e.dst.1 ∉ k.dead

/-- What a step may do to the tables: locks stay, links only go, `Tidy` stays. -/
structure Shrink (k k' : KWorld α) : Prop where
  locked : k'.w.locked = k.w.locked
  edges : ∀ e ∈ k'.w.edges, e ∈ k.w.edges
  tidy : Tidy k → Tidy k'

theorem Shrink.refl (k : KWorld α) : Shrink k k := ⟨rfl, fun _ h => h, id⟩

theorem Shrink.trans {a b c : KWorld α} (h1 : Shrink a b) (h2 : Shrink b c) : Shrink a c :=
  ⟨h2.locked.trans h1.locked, fun e h => h1.edges e (h2.edges e h), fun h => h2.tidy (h1.tidy h)⟩

theorem killK_shrink (k : KWorld α) (o : Nat) (h : k.w.locked.any (fun l => decide (l.1 = o)) = false) :
    Shrink k (killK k o) ∧ (killK k o).w.val = k.w.val := by
  refine ⟨⟨kill_locked k.w o h, ?_, ?_⟩, rfl⟩
  · intro e he
    simp only [killK, World.kill] at he
    exact (List.mem_filter.mp he).1
  · intro ht e he
    simp only [killK, World.kill] at he ⊢
    obtain ⟨hm, hc⟩ := List.mem_filter.mp he
    simp only [ne_eq, decide_eq_true_eq] at hc
    split
    · exact ht e hm
    · intro hd
      rcases List.mem_cons.mp hd with h' | h'
      · exact hc.2 h'
      · exact ht e hm h'

theorem fire_shrink (k : KWorld α) (p : Pair) : Shrink k (fire k p) ∧ (fire k p).w.val = k.w.val := by
  unfold fire
  generalize k.doom = L
  induction L generalizing k with
  | nil => exact ⟨Shrink.refl k, rfl⟩
  | cons t ts ih =>
    simp only [List.foldl_cons]
    split
    · rename_i h
      have hb := h.2
      simp only [isBusy, Bool.or_eq_false_iff] at hb
      obtain ⟨h1, h2⟩ := killK_shrink k t.2 hb.2
      obtain ⟨h3, h4⟩ := ih (killK k t.2)
      exact ⟨h1.trans h3, h4.trans h2⟩
    · exact ih k

theorem foldK_all_locked (rec : Rec α) (req : Req α) :
    ∀ (P : List Pair) (k : KWorld α), (∀ t ∈ P, t ∈ k.w.locked) → P.foldl (visitK rec req) k = k := by
  intro P
  induction P with
  | nil => intro k _; rfl
  | cons t ts ih =>
    intro k h
    have ht : t ∈ k.w.locked := h t (List.mem_cons_self ..)
    have : visitK rec req k t = k := by
      unfold visitK
      split
      · rfl
      · simp
    simp only [List.foldl_cons, this]
    exact ih k (fun t' h' => h t' (List.mem_cons_of_mem _ h'))

/-- A handler all of whose partners are locked changes nothing. -/
theorem handlerK_leaf (rec : Rec α) (req : Req α) (k : KWorld α) (q : Pair) (hq : q ∉ k.w.locked)
    (hleaf : ∀ t ∈ k.w.partners q, t ∈ k.w.locked) :
    Shrink k (swallow (handlerK rec req k q)) ∧ (swallow (handlerK rec req k q)).w.val = k.w.val ∧
      (swallow (handlerK rec req k q)).dead = k.dead := by
  by_cases he : (k.w.partners q).isEmpty = true
  · have : handlerK rec req k q = (k, none) := by unfold handlerK; simp [he]
    rw [this]
    exact ⟨Shrink.refl k, rfl, rfl⟩
  · have hin : q ∈ (k.w.lock q).locked := by simp [World.lock]
    have : handlerK rec req k q = ({ k with w := (k.w.lock q).unlock q }, none) := by
      unfold handlerK
      rw [if_neg he]
      simp only []
      rw [foldK_all_locked rec req (k.w.partners q) { k with w := k.w.lock q }
        (fun t ht => List.mem_cons_of_mem _ (hleaf t ht))]
      simp only [hin, if_true]
    rw [this]
    have hl : ((k.w.lock q).unlock q).locked = k.w.locked := by
      show List.filter (fun x => decide (x ≠ q)) (q :: k.w.locked) = k.w.locked
      rw [List.filter_cons_of_neg (by simp)]
      exact filter_ne_self_of_not_mem hq
    exact ⟨⟨hl, fun _ h => h, fun h => h⟩, rfl, rfl⟩

theorem mem_partners_iff {w : World α} {p q : Pair} : q ∈ w.partners p ↔ (⟨p, q⟩ : Edge) ∈ w.edges := by
  constructor
  · exact mem_partners
  · intro h
    unfold World.partners
    exact List.mem_map.mpr ⟨⟨p, q⟩, List.mem_filter.mpr ⟨h, by simp⟩, rfl⟩

/-- A `setattr` on a trait all of whose partners are locked: only its own value
may change; if it accepts `y` unchanged, it holds `y`. -/
theorem cascadeK_leaf [DecidableEq α] (E : Sync.Env α) (d : Nat) (k : KWorld α) (q : Pair) (y : AVal α)
    (hl : q ∉ k.w.locked) (hleaf : ∀ t ∈ k.w.partners q, t ∈ k.w.locked)
    (k' : KWorld α) (r : Option α) (h : cascadeK E (d + 1) k q (.assign y) = .ok (k', r)) :
    Shrink k k' ∧ (∀ t, t ≠ q → k'.w.val t = k.w.val t) ∧ (validate E q y = .ok y → k'.w.val q = y) := by
  unfold cascadeK at h
  simp only [applyK] at h
  cases ha : applyAssign E k.w q y with
  | error e => rw [ha] at h; cases h
  | ok x =>
    obtain ⟨w1, r1, pay⟩ := x
    rw [ha] at h
    obtain ⟨new, hv, _, hcase⟩ := applyAssign_ok ha
    rcases hcase with ⟨hsame, hw, hpay⟩ | ⟨hne, hpay, hw⟩
    · subst hw hpay
      have hn : notified k.w k.w q = false := by simp [notified]
      simp only [hn, Option.map_none] at h
      cases h
      exact ⟨Shrink.refl k, fun _ _ => rfl, fun h2 => by rw [hv] at h2; cases h2; exact hsame.symm⟩
    · subst hpay
      have hn : notified k.w w1 q = true := by subst hw; simp [notified, upd]
      simp only [hn, if_true, Option.map_some, runHandlerK, handlerModified] at h
      cases h
      have hw1 : Shrink k { k with w := w1 } := by subst hw; exact ⟨rfl, fun _ h => h, fun h => h⟩
      obtain ⟨hf, hfv⟩ := fire_shrink { k with w := w1 } q
      have hlk : (fire { k with w := w1 } q).w.locked = k.w.locked := by rw [hf.locked]; exact hw1.locked
      have hql : q ∉ (fire { k with w := w1 } q).w.locked := by rw [hlk]; exact hl
      have hleaf' : ∀ t ∈ (fire { k with w := w1 } q).w.partners q, t ∈ (fire { k with w := w1 } q).w.locked := by
        intro t ht
        rw [hlk]
        exact hleaf t (mem_partners_iff.mpr (hw1.edges _ (hf.edges _ (mem_partners_iff.mp ht))))
      obtain ⟨hh, hhv, _⟩ := handlerK_leaf (cascadeK E d) (.assign new) _ q hql hleaf'
      have hval : (swallow (handlerK (cascadeK E d) (.assign new) (fire { k with w := w1 } q) q)).w.val
          = upd k.w.val q new := by rw [hhv, hfv]; subst hw; rfl
      refine ⟨hw1.trans (hf.trans hh), ?_, ?_⟩
      · intro t ht; rw [hval]; simp [upd, ht]
      · intro h2; rw [hv] at h2; cases h2; rw [hval]; simp [upd]

/-- Visiting a partner all of whose partners are locked. -/
theorem visitK_leaf [DecidableEq α] (E : Sync.Env α) (d : Nat) (k : KWorld α) (q : Pair) (y : AVal α)
    (hleaf : ∀ t ∈ k.w.partners q, t ∈ k.w.locked) :
    Shrink k (visitK (cascadeK E (d + 1)) (.assign y) k q) ∧
    (∀ t, t ≠ q → (visitK (cascadeK E (d + 1)) (.assign y) k q).w.val t = k.w.val t) ∧
    (q.1 ∉ k.dead → q ∉ k.w.locked → validate E q y = .ok y →
      (visitK (cascadeK E (d + 1)) (.assign y) k q).w.val q = y) := by
  by_cases hd : q.1 ∈ k.dead
  · have : visitK (cascadeK E (d + 1)) (.assign y) k q = k := by unfold visitK; simp [hd]
    rw [this]
    exact ⟨Shrink.refl k, fun _ _ => rfl, fun h => absurd hd h⟩
  · by_cases hl : q ∈ k.w.locked
    · have : visitK (cascadeK E (d + 1)) (.assign y) k q = k := by unfold visitK; simp [hd, hl]
      rw [this]
      exact ⟨Shrink.refl k, fun _ _ => rfl, fun _ h => absurd hl h⟩
    · cases hc : cascadeK E (d + 1) k q (.assign y) with
      | error e =>
        have : visitK (cascadeK E (d + 1)) (.assign y) k q = k := by unfold visitK; simp [hd, hl, hc]
        rw [this]
        refine ⟨Shrink.refl k, fun _ _ => rfl, fun _ _ hv => ?_⟩
        -- `validate` accepted, so `cascadeK` cannot have failed
        exfalso
        unfold cascadeK at hc
        simp only [applyK, applyAssign, hv] at hc
        by_cases hs : y = k.w.val q <;> simp [hs] at hc
      | ok x =>
        obtain ⟨k', r⟩ := x
        have : visitK (cascadeK E (d + 1)) (.assign y) k q = k' := by unfold visitK; simp [hd, hl, hc]
        rw [this]
        obtain ⟨h1, h2, h3⟩ := cascadeK_leaf E d k q y hl hleaf k' r hc
        exact ⟨h1, h2, fun _ _ hv => h3 hv⟩

/-- The hub's loop: every partner still in the table at the end holds `y`. -/
theorem foldK_survivor [DecidableEq α] (E : Sync.Env α) (d : Nat) (y : AVal α) (p t0 : Pair)
    (hv0 : validate E t0 y = .ok y) (E0 : List Edge)
    (hback : ∀ e ∈ E0, e.src ≠ p → e.dst = p) :
    ∀ (P : List Pair) (k : KWorld α), (∀ l, l ∈ k.w.locked ↔ l = p) → (∀ e ∈ k.w.edges, e ∈ E0) → Tidy k → p ∉ P →
      Shrink k (P.foldl (visitK (cascadeK E (d + 1)) (.assign y)) k) ∧
      (∀ t, t ∉ P → (P.foldl (visitK (cascadeK E (d + 1)) (.assign y)) k).w.val t = k.w.val t) ∧
      ((⟨p, t0⟩ : Edge) ∈ (P.foldl (visitK (cascadeK E (d + 1)) (.assign y)) k).w.edges →
        (t0 ∈ P ∨ k.w.val t0 = y) → (P.foldl (visitK (cascadeK E (d + 1)) (.assign y)) k).w.val t0 = y) := by
  intro P
  induction P with
  | nil => intro k _ _ _ _; exact ⟨Shrink.refl k, fun _ _ => rfl, fun _ h => h.resolve_left (by simp)⟩
  | cons q qs ih =>
    intro k hL hE ht hp
    have hqp : q ≠ p := fun h => hp (h ▸ List.mem_cons_self ..)
    have hleaf : ∀ t ∈ k.w.partners q, t ∈ k.w.locked := by
      intro t hm
      have he := hE _ (mem_partners_iff.mp hm)
      have : t = p := hback _ he hqp
      exact (hL t).mpr this
    obtain ⟨hs, hfr, hset⟩ := visitK_leaf E d k q y hleaf
    simp only [List.foldl_cons]
    obtain ⟨hs2, hfr2, hfin⟩ := ih (visitK (cascadeK E (d + 1)) (.assign y) k q)
      (fun l => by rw [hs.locked]; exact hL l) (fun e he => hE e (hs.edges e he)) (hs.tidy ht)
      (fun h => hp (List.mem_cons_of_mem _ h))
    refine ⟨hs.trans hs2, ?_, ?_⟩
    · intro t htn
      rw [hfr2 t (fun h => htn (List.mem_cons_of_mem _ h))]
      exact hfr t (fun h => htn (h ▸ List.mem_cons_self ..))
    intro hedge hor
    apply hfin hedge
    rcases hor with hmem | hval
    · rcases List.mem_cons.mp hmem with rfl | h
      · right
        have he0 : (⟨p, t0⟩ : Edge) ∈ k.w.edges := hs.edges _ (hs2.edges _ hedge)
        exact hset (ht _ he0) (fun h => hqp ((hL t0).mp h)) hv0
      · exact Or.inl h
    · by_cases h : t0 = q
      · subst h
        right
        have he0 : (⟨p, t0⟩ : Edge) ∈ k.w.edges := hs.edges _ (hs2.edges _ hedge)
        exact hset (ht _ he0) (fun h => hqp ((hL t0).mp h)) hv0
      · right; rw [hfr t0 h]; exact hval

end TraitsVerif.Model.SyncLive
