/-
Lemmas for `Model/SyncLive.lean`:
* the hand-written handlers are the interpretation (`PyLSync.interp`) of the
  programs generated from the source text (`Generated/SyncProg.lean`),
* on states without armed triggers and without table entries for collected
  objects, `cascadeK` is `Sync.cascade`.
-/
import TraitsVerif.Model.SyncLive
import TraitsVerif.Generated.SyncProg
import TraitsVerif.Lemmas.SyncFrame
import TraitsVerif.Lemmas.SyncOps
namespace TraitsVerif.Model.SyncLive
open TraitsVerif TraitsVerif.Py TraitsVerif.Model TraitsVerif.Model.Sync TraitsVerif.Model.PyLSync

variable {α : Type}

/-! ### The source tie -/

def sigOf : Option Exc → Sig
  | none => .norm
  | some e => .exc e

/-- The loop of the interpreter is the loop of the model when the bodies agree. -/
theorem liveLoop_eq (bodyI : St α → Pair → St α × Sig) (bodyK : KWorld α → Pair → KWorld α × Option Exc)
    (ix : Idx) (p : Pair) (n0 : Nat)
    (h : ∀ k q, bodyI ⟨k, ix⟩ q = (⟨(bodyK k q).1, ix⟩, sigOf (bodyK k q).2)) :
    ∀ fuel i k, liveLoop bodyI p n0 fuel i ⟨k, ix⟩ =
      (⟨(liveK bodyK p n0 fuel i k).1, ix⟩, sigOf (liveK bodyK p n0 fuel i k).2) := by
  intro fuel
  induction fuel with
  | zero => intro i k; rfl
  | succ f ih =>
    intro i k
    unfold liveLoop liveK
    by_cases hl : (k.w.partners p).length ≠ n0
    · rw [if_pos hl, if_pos hl]; rfl
    · rw [if_neg hl, if_neg hl]
      cases hq : (k.w.partners p)[i]? with
      | none => rfl
      | some q =>
        simp only []
        rw [h k q]
        cases hb : bodyK k q with
        | mk k1 e =>
          cases e with
          | none => simp only [sigOf]; exact ih (i + 1) k1
          | some e => simp only [sigOf]

/-- Loop body of `_sync_trait_modified`. -/
theorem body_modified (rec : Rec α) (p : Pair) (v : AVal α) (ix : Idx) (k : KWorld α) (q : Pair) :
    interp rec p (.new v) (.ite (.not (.lockedAtPartner true)) (.tryPass true (.act .setPartner)) .skip)
      (some q) ⟨k, ix⟩ =
    (⟨(visitK rec (.assign v) k q).1, ix⟩, sigOf (visitK rec (.assign v) k q).2) := by
  unfold visitK
  by_cases hd : q.1 ∈ k.dead
  · simp [interp, evalCond, hd, sigOf]
  · by_cases hl : q ∈ k.w.locked
    · simp [interp, evalCond, hd, hl, sigOf]
    · cases hr : rec k q (.assign v) with
      | error e => simp [interp, evalCond, doAct, callRec, hd, hl, hr, sigOf]
      | ok x => obtain ⟨k', r⟩ := x; simp [interp, evalCond, doAct, callRec, hd, hl, hr, sigOf]

/-- `index` after the normalisation at the head of `_sync_trait_items_modified`. -/
def normIdx (e : Event α) : Slice :=
  match e.index with
  | .idx n => ⟨some n, some (n + e.removed.length), none⟩
  | .slc a b c => ⟨some a, some b, some c⟩

/-- Loop body of `_sync_trait_items_modified`. -/
theorem body_items (rec : Rec α) (p : Pair) (e : Event α) (k : KWorld α) (q : Pair) :
    interp rec p (.event e)
      (.ite (.not (.lockedAtPartner true))
        (.tryPass true (.seq (.ite .sameListObject .cont .skip)
          (.ite (.or .eventAdded .stepIsNone) (.act .partnerSetSlice) (.act .partnerDelSlice)))) .skip)
      (some q) ⟨k, .slice (normIdx e)⟩ =
    (⟨(visitK rec (.mutate (eventOp e)) k q).1, .slice (normIdx e)⟩,
      sigOf (visitK rec (.mutate (eventOp e)) k q).2) := by
  unfold visitK
  by_cases hd : q.1 ∈ k.dead
  · simp [interp, evalCond, hd, sigOf]
  · by_cases hl : q ∈ k.w.locked
    · simp [interp, evalCond, hd, hl, sigOf]
    · have hop : (if (!e.added.isEmpty || (normIdx e).step.isNone) = true
          then Op.setSlice (normIdx e) e.added else Op.delSlice (normIdx e)) = eventOp e := by
        unfold eventOp normIdx
        cases e.index with
        | idx n => simp
        | slc a b c => cases e.added <;> simp
      cases ha : e.added.isEmpty <;> cases hs : (normIdx e).step.isNone <;>
        simp only [ha, hs, Bool.not_true, Bool.not_false, Bool.or_true, Bool.or_false, Bool.false_eq_true,
          if_true, if_false] at hop <;>
        (cases hr : rec k q (.mutate (eventOp e)) with
          | error x => simp [interp, evalCond, doAct, callRec, hd, hl, ha, hs, hop, hr, sigOf]
          | ok x => obtain ⟨k', r⟩ := x; simp [interp, evalCond, doAct, callRec, hd, hl, ha, hs, hop, hr, sigOf])

theorem partners_lock (w : World α) (p r : Pair) : (w.lock p).partners r = w.partners r := rfl

/-- `_sync_trait_modified` (hand-written) is the interpretation of its source text. -/
theorem handlerModified_is_source (rec : Rec α) (k : KWorld α) (p : Pair) (v : AVal α) :
    handlerModified rec k p v = runHandler rec Generated.SyncProg.syncTraitModified k p (.new v) := by
  unfold handlerModified handlerK runHandler Generated.SyncProg.syncTraitModified
  by_cases he : (k.w.partners p).isEmpty = true
  · simp [interp, evalCond, he]
  · simp only [Bool.not_eq_true] at he
    simp only [interp, evalCond, he, doAct, St.setW, partners_lock, Bool.not_false, Bool.not_true, if_true,
      Bool.false_eq_true, if_false]
    rw [liveLoop_eq _ (visitK rec (.assign v)) (initIdx (.new v)) p _ (body_modified rec p v _)]
    cases hL : liveK (visitK rec (.assign v)) p (k.w.partners p).length ((k.w.partners p).length + 1) 0
        { k with w := k.w.lock p } with
    | mk k2 ex =>
      cases ex with
      | some x => simp [sigOf]
      | none =>
        by_cases hp : p ∈ k2.w.locked <;> simp [sigOf, hp]

theorem norm_index (rec : Rec α) (p : Pair) (e : Event α) (k : KWorld α) :
    interp rec p (.event e) (.ite (.not .indexIsSlice) (.act .indexToSlice) .skip) none
      ⟨k, initIdx (.event e)⟩ = (⟨k, .slice (normIdx e)⟩, .norm) := by
  unfold initIdx normIdx
  cases h : e.index <;> simp [interp, evalCond, doAct, h]

/-- `_sync_trait_items_modified` (hand-written) is the interpretation of its source text. -/
theorem handlerItems_is_source (rec : Rec α) (k : KWorld α) (p : Pair) (e : Event α) :
    handlerItems rec k p e = runHandler rec Generated.SyncProg.syncTraitItemsModified k p (.event e) := by
  unfold handlerItems handlerK runHandler Generated.SyncProg.syncTraitItemsModified
  rw [interp, norm_index]
  by_cases he : (k.w.partners p).isEmpty = true
  · simp [interp, evalCond, he]
  · simp only [Bool.not_eq_true] at he
    simp only [interp, evalCond, he, doAct, St.setW, partners_lock, Bool.not_false, Bool.not_true, if_true,
      Bool.false_eq_true, if_false]
    rw [liveLoop_eq _ (visitK rec (.mutate (eventOp e))) (.slice (normIdx e)) p _ (body_items rec p e)]
    cases hL : liveK (visitK rec (.mutate (eventOp e))) p (k.w.partners p).length ((k.w.partners p).length + 1) 0
        { k with w := k.w.lock p } with
    | mk k2 ex =>
      cases ex with
      | some x => simp [sigOf]
      | none =>
        by_cases hp : p ∈ k2.w.locked <;> simp [sigOf, hp]

/-! ### Conservativity: without armed triggers `cascadeK` is `Sync.cascade` -/

/-- A result of `Model.Sync` seen in `KWorld` `k`. -/
def lift (k : KWorld α) : Except Exc (World α × Option α) → Except Exc (KWorld α × Option α)
  | .ok (w', r) => .ok ({ k with w := w' }, r)
  | .error e => .error e

/-- No armed trigger, and no table lists a collected object (every history of
`stepK` without `arm` keeps this). -/
def Quiet (k : KWorld α) : Prop := k.doom = [] ∧ ∀ e ∈ k.w.edges, e.dst.1 ∉ k.dead

theorem Quiet.of_edges {k : KWorld α} (h : Quiet k) (w' : World α) (he : w'.edges = k.w.edges) :
    Quiet { k with w := w' } := ⟨h.1, by intro e hm; rw [he] at hm; exact h.2 e hm⟩

theorem mem_partners {w : World α} {p q : Pair} (h : q ∈ w.partners p) : (⟨p, q⟩ : Edge) ∈ w.edges := by
  unfold World.partners at h
  obtain ⟨e, he, rfl⟩ := List.mem_map.mp h
  obtain ⟨hm, hs⟩ := List.mem_filter.mp he
  have : e.src = p := by simpa using hs
  cases e; simp_all

theorem liveK_quiet {π : Type} (rec : Rec α) (rec' : World α → Pair → π → Except Exc (World α × Option α))
    (req : Req α) (y : π)
    (hrec : ∀ k q, Quiet k → rec k q req = lift k (rec' k.w q y))
    (hframe : ∀ w q w' r, q ∉ w.locked → rec' w q y = .ok (w', r) → SameTabs w w')
    (p : Pair) (P : List Pair) :
    ∀ fuel i (k : KWorld α), Quiet k → k.w.partners p = P → fuel + i = P.length + 1 →
      liveK (visitK rec req) p P.length fuel i k =
        ({ k with w := (P.drop i).foldl (visitPartner rec' y) k.w }, none) := by
  intro fuel
  induction fuel with
  | zero =>
    intro i k _ _ hi
    have : P.drop i = [] := List.drop_eq_nil_iff.mpr (by omega)
    simp [liveK, this]
  | succ f ih =>
    intro i k hq hP hi
    unfold liveK
    rw [if_neg (by rw [hP]; simp)]
    rw [hP]
    cases hg : P[i]? with
    | none =>
      have : P.drop i = [] := List.drop_eq_nil_iff.mpr (by
        rcases List.getElem?_eq_none_iff.mp hg with h; exact h)
      simp [this]
    | some q =>
      have hlt : i < P.length := by
        rcases List.getElem?_eq_some_iff.mp hg with ⟨h, _⟩; exact h
      have hdrop : P.drop i = q :: P.drop (i + 1) := by
        rw [List.drop_eq_getElem_cons hlt]
        congr 1
        rcases List.getElem?_eq_some_iff.mp hg with ⟨_, h⟩; exact h
      have hqP : q ∈ k.w.partners p := by rw [hP]; exact List.mem_of_getElem? hg
      have hnd : q.1 ∉ k.dead := hq.2 _ (mem_partners hqP)
      rw [hdrop, List.foldl_cons]
      simp only [visitK, hnd, if_false]
      unfold visitPartner
      by_cases hl : q ∈ k.w.locked
      · simp only [hl, if_true]
        exact ih (i + 1) k hq hP (by omega)
      · simp only [hl, if_false]
        rw [hrec k q hq]
        cases hr : rec' k.w q y with
        | error e =>
          simp only [lift]
          exact ih (i + 1) k hq hP (by omega)
        | ok x =>
          obtain ⟨w', r⟩ := x
          simp only [lift]
          have hst := hframe k.w q w' r hl hr
          have := ih (i + 1) { k with w := w' } (hq.of_edges w' hst.1)
            (by show w'.partners p = P; rw [partners_congr hst.1, hP]) (by omega)
          rw [this]; rfl

theorem handlerK_quiet {π : Type} (rec : Rec α) (rec' : World α → Pair → π → Except Exc (World α × Option α))
    (req : Req α) (y : π)
    (hrec : ∀ k q, Quiet k → rec k q req = lift k (rec' k.w q y))
    (hframe : ∀ w q w' r, q ∉ w.locked → rec' w q y = .ok (w', r) → SameTabs w w')
    (k : KWorld α) (p : Pair) (hq : Quiet k) (hne : (k.w.partners p).isEmpty = false) :
    handlerK rec req k p =
      ({ k with w := ((k.w.partners p).foldl (visitPartner rec' y) (k.w.lock p)).unlock p }, none) := by
  unfold handlerK
  rw [if_neg (by simp [hne])]
  have hloop := liveK_quiet rec rec' req y hrec hframe p (k.w.partners p) ((k.w.partners p).length + 1) 0
    { k with w := k.w.lock p } (hq.of_edges _ rfl) rfl (by omega)
  simp only [partners_lock] at hloop ⊢
  rw [hloop]
  have hst := foldl_sameTabs (rec := rec') (y := y) hframe (k.w.partners p) (k.w.lock p)
  have hp : p ∈ ((k.w.partners p).foldl (visitPartner rec' y) (k.w.lock p)).locked := by
    rw [hst.2.1]; simp [World.lock]
  simp [hp]

theorem fire_quiet (k : KWorld α) (p : Pair) (h : k.doom = []) : fire k p = k := by
  simp [fire, h]

theorem applyMutate_eq (E : Sync.Env α) (w : World α) (p : Pair) (op : Op α) :
    applyMutate E w p op =
      match applyMutateE E w p op with
      | .error e => .error e
      | .ok (w1, r, y) => .ok (w1, r, y.map eventOp) := by
  unfold applyMutate applyMutateE
  by_cases hl : E.isList p = true
  · simp only [hl, if_true]
    cases listStep (E.tl p) (w.list p) op with
    | error e => rfl
    | ok o =>
      simp only []
      cases o.event with
      | none => rfl
      | some e => by_cases hh : p ∈ w.hooked <;> simp [hh]
  · simp only [hl]; rfl

/-- The step after `apply`, shared by the two conservativity theorems. -/
theorem after_apply_quiet [DecidableEq α] (E : Sync.Env α) {π : Type} (d : Nat)
    (rec' : World α → Pair → π → Except Exc (World α × Option α)) (req : Req α) (y : π)
    (hrec : ∀ k q, Quiet k → cascadeK E d k q req = lift k (rec' k.w q y))
    (hframe : ∀ w q w' r, q ∉ w.locked → rec' w q y = .ok (w', r) → SameTabs w w')
    (k : KWorld α) (p : Pair) (w1 : World α) (hq : Quiet k) (he : w1.edges = k.w.edges) :
    swallow (handlerK (cascadeK E d) req
        (if notified k.w w1 p then fire { k with w := w1 } p else { k with w := w1 }) p) =
      { k with w := if (w1.partners p).isEmpty then w1
                    else ((w1.partners p).foldl (visitPartner rec' y) (w1.lock p)).unlock p } := by
  have hk1 : (if notified k.w w1 p then fire { k with w := w1 } p else { k with w := w1 }) = { k with w := w1 } := by
    split
    · exact fire_quiet _ p hq.1
    · rfl
  rw [hk1]
  have hq1 : Quiet { k with w := w1 } := hq.of_edges w1 he
  by_cases hne : (w1.partners p).isEmpty = true
  · simp [handlerK, hne, swallow]
  · simp only [Bool.not_eq_true] at hne
    rw [handlerK_quiet (cascadeK E d) rec' req y hrec hframe _ p hq1 hne]
    simp [swallow, hne]

theorem cascadeK_assign [DecidableEq α] (E : Sync.Env α) (d : Nat) :
    ∀ (k : KWorld α) (p : Pair) (v : AVal α), Quiet k →
      cascadeK E d k p (.assign v) = lift k (cascade (applyAssign E) d k.w p v) := by
  induction d with
  | zero => intro k p v _; rfl
  | succ d ih =>
    intro k p v hq
    unfold cascadeK
    rw [cascade_succ]
    simp only [applyK]
    cases ha : applyAssign E k.w p v with
    | error e => rfl
    | ok x =>
      obtain ⟨w1, r, y⟩ := x
      have he : w1.edges = k.w.edges := (local_assign E).edges ha
      cases y with
      | none =>
        simp only [Option.map_none, lift]
        congr 2
        split
        · exact fire_quiet _ p hq.1
        · rfl
      | some new =>
        simp only [Option.map_some, runHandlerK, handlerModified]
        rw [after_apply_quiet E d (cascade (applyAssign E) d) (.assign new) new
          (fun k q hk => ih k q new hk) (fun w q w' r => cascade_frame (local_assign E) d w q new w' r) k p w1 hq he]
        by_cases hne : (w1.partners p).isEmpty = true <;> simp [hne, lift]

theorem cascadeK_mutate [DecidableEq α] (E : Sync.Env α) (d : Nat) :
    ∀ (k : KWorld α) (p : Pair) (op : Op α), Quiet k →
      cascadeK E d k p (.mutate op) = lift k (cascade (applyMutate E) d k.w p op) := by
  induction d with
  | zero => intro k p v _; rfl
  | succ d ih =>
    intro k p op hq
    unfold cascadeK
    rw [cascade_succ, applyMutate_eq]
    simp only [applyK]
    cases ha : applyMutateE E k.w p op with
    | error e => rfl
    | ok x =>
      obtain ⟨w1, r, y⟩ := x
      have ha' : applyMutate E k.w p op = .ok (w1, r, y.map eventOp) := by rw [applyMutate_eq, ha]
      have he : w1.edges = k.w.edges := (local_mutate E).edges ha'
      cases y with
      | none =>
        simp only [Option.map_none, lift]
        congr 2
        split
        · exact fire_quiet _ p hq.1
        · rfl
      | some e =>
        simp only [Option.map_some, runHandlerK, handlerItems]
        rw [after_apply_quiet E d (cascade (applyMutate E) d) (.mutate (eventOp e)) (eventOp e)
          (fun k q hk => ih k q (eventOp e) hk)
          (fun w q w' r => cascade_frame (local_mutate E) d w q (eventOp e) w' r) k p w1 hq he]
        by_cases hne : (w1.partners p).isEmpty = true <;> simp [hne, lift]

end TraitsVerif.Model.SyncLive
