/-
Concrete fixtures for the non-vacuity examples of `Props/C12.lean`.
-/
import TraitsVerif.Lemmas.PropertyCount
namespace TraitsVerif.Model.Property
open TraitsVerif

/-- `Property(observe="kids.items.value")` with the getter `sum(k.value for k in self.kids)`. -/
def exKids : Env Int :=
  { E := [⟨[.kids], .scalar .value⟩], root := 0,
    G := fun _ h => .ok (((h 0).kids.map (fun k => (h k).value)).foldl (· + ·) 0),
    fires := firesSpec [⟨[.kids], .scalar .value⟩] 0, staticL := true }

def exKidsG : Heap → Int := fun h => ((h 0).kids.map (fun k => (h k).value)).foldl (· + ·) 0

/-- A history with a shared, repeated item: `kids = [1, 2, 1]` (values 3, 5), read,
one occurrence of node 1 removed in place, node 1 bumped to 4. -/
def exKidsFinal : St Int :=
  run exKids { heap := fun i => if i = 1 then { value := 3 } else if i = 2 then { value := 5 } else {} }
    [.change ⟨0, .kids [1, 2, 1], false⟩, .read, .change ⟨0, .kids [2, 1], true⟩,
     .change ⟨1, .scalar .value 4, false⟩]

end TraitsVerif.Model.Property
