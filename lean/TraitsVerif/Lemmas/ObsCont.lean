/-
Cluster `obs`: container notification, operational half.  `callCont` is
`notifyCont` over a COPY of the notifier list; they coincide when no maintainer's
walk comes back to the container (`notifyCont_eq_callCont`).  `callCont_effect`:
every item maintainer removes below the removed items and adds below the added ones.
-/
import TraitsVerif.Lemmas.ObsFrame
namespace TraitsVerif.Model.Obs
open TraitsVerif

def callCont (E : Env) (h : Heap) (c : Id) (ev : CEvent) :
    List Notifier → Hooks → List Delivered → Hooks × List Delivered × Option Exc
  | [], H, ds => (H, ds, none)
  | .user k _ :: ns, H, ds =>
    if E.dead k then callCont E h c ev ns H ds else callCont E h c ev ns H (ds ++ [deliverCont k c ev])
  | .maint _ g k :: ns, H, ds =>
    if E.dead k then callCont E h c ev ns H ds
    else
      let r := maintCont h g k ev H
      match r.err with
      | some e => (r.H, ds, some e)
      | none => callCont E h c ev ns r.H ds

theorem maintCont_frame (h : Heap) (g : Graph) (k : HKey) (ev : CEvent) (o : Observable) (H : Hooks)
    (hno : ∀ y ∈ ev.removed ++ ev.added, ∀ it ∈ hookList h k true g (some y), it.1 ≠ o) :
    (maintCont h g k ev H).H.get o = H.get o := by
  unfold maintCont walkAll
  have r1 : (foldRes (addRemove h k true true g) (ev.removed.map some) H).H.get o = H.get o := by
    apply foldRes_frame
    intro y hy H'
    simp only [List.mem_map] at hy
    obtain ⟨y', hy', rfl⟩ := hy
    exact addRemove_frame h k o g true true (some y') H' (hno y' (List.mem_append.2 (Or.inl hy')))
  simp only []
  split
  · exact r1
  · rw [← r1]
    apply foldRes_frame
    intro y hy H'
    simp only [List.mem_map] at hy
    obtain ⟨y', hy', rfl⟩ := hy
    exact addRemove_frame h k o g false true (some y') H' (hno y' (List.mem_append.2 (Or.inr hy')))

/-- live iteration = iteration over the copy, when the list is not touched meanwhile -/
theorem notifyCont_eq_callCont (E : Env) (h : Heap) (c : Id) (ev : CEvent) (ns0 : List Notifier)
    (hfr : ∀ mk g k, Notifier.maint mk g k ∈ ns0 → ∀ H', (maintCont h g k ev H').H.get (.cont c) = H'.get (.cont c)) :
    ∀ (fuel i : Nat) (H : Hooks) (ds : List Delivered), H.get (.cont c) = ns0 → ns0.length - i < fuel →
      notifyCont E h c ev fuel i H ds = callCont E h c ev (ns0.drop i) H ds := by
  intro fuel
  induction fuel with
  | zero => intro i H ds _ hlt; omega
  | succ fuel ih =>
    intro i H ds hH hlt
    simp only [notifyCont, hH]
    cases hg : ns0[i]? with
    | none =>
      have : ns0.length ≤ i := by
        rcases Nat.lt_or_ge i ns0.length with h1 | h1
        · rw [List.getElem?_eq_getElem h1] at hg; cases hg
        · exact h1
      rw [List.drop_eq_nil_of_le this]
      rfl
    | some nt =>
      have hi : i < ns0.length := by
        rcases Nat.lt_or_ge i ns0.length with h1 | h1
        · exact h1
        · rw [List.getElem?_eq_none h1] at hg; cases hg
      have hdrop : ns0.drop i = nt :: ns0.drop (i + 1) := by
        rw [List.drop_eq_getElem_cons hi]
        congr 1
        rw [List.getElem?_eq_getElem hi] at hg
        exact Option.some.inj hg
      have hm : nt ∈ ns0 := List.mem_of_getElem? hg
      rw [hdrop]
      cases nt with
      | user k rc =>
        simp only [callCont]
        split
        · exact ih (i + 1) H ds hH (by omega)
        · exact ih (i + 1) H _ hH (by omega)
      | maint mk g k =>
        simp only [callCont]
        split
        · exact ih (i + 1) H ds hH (by omega)
        · cases he : (maintCont h g k ev H).err with
          | some e => rfl
          | none => exact ih (i + 1) _ ds (by rw [hfr mk g k hm H, hH]) (by omega)

/-! ### effect of the copied list -/

def effectC (F : Graph → HKey → Nat) : Notifier → Nat
  | .maint _ c k => F c k
  | _ => 0

def effectSumC (F : Graph → HKey → Nat) (ns : List Notifier) : Nat := (ns.map (effectC F)).sum

/-- items below a list of objects, in heap `h'`, for sub-graph `g` and key `k` -/
def blockOf (h' : Heap) (ys : List Id) (o' : Observable) (q : NKey) (g : Graph) (k : HKey) : Nat :=
  cntItems ((ys.map some).flatMap (fun w => hookList h' k true g w)) o' q

structure LoopOkC (E : Env) (h' : Heap) (ev : CEvent) (ns : List Notifier) : Prop where
  alive : ∀ k, E.dead k = false
  okRem : ∀ mk g k, Notifier.maint mk g k ∈ ns → ∀ y ∈ ev.removed, walkOk h' true g (some y) = true
  okAdd : ∀ mk g k, Notifier.maint mk g k ∈ ns → ∀ y ∈ ev.added, walkOk h' true g (some y) = true

theorem walkAll_rm (h' : Heap) (g : Graph) (k : HKey) (ys : List Id) (H : Hooks) (hw : WF H)
    (hok : ∀ y ∈ ys, walkOk h' true g (some y) = true)
    (hle : ∀ o' q, blockOf h' ys o' q g k ≤ cnt H o' q) :
    (walkAll h' k true g ys H).err = none ∧ WF (walkAll h' k true g ys H).H ∧
    ∀ o' q, cnt (walkAll h' k true g ys H).H o' q + blockOf h' ys o' q g k = cnt H o' q := by
  unfold walkAll
  obtain ⟨e, c, w⟩ := foldRes_rm (addRemove h' k true true g) (fun y => hookList h' k true g y)
    (fun y => walkOk h' true g y = true)
    (fun y H' hg hw' hl => addRemove_remove h' k g true y H' hw' hg hl)
    (ys.map some) H
    (by intro y hy; simp only [List.mem_map] at hy; obtain ⟨y', hy', rfl⟩ := hy; exact hok y' hy')
    hw hle
  exact ⟨e, w, c⟩

theorem walkAll_add (h' : Heap) (g : Graph) (k : HKey) (ys : List Id) (H : Hooks) (hw : WF H)
    (hok : ∀ y ∈ ys, walkOk h' true g (some y) = true) :
    (walkAll h' k false g ys H).err = none ∧ WF (walkAll h' k false g ys H).H ∧
    ∀ o' q, cnt (walkAll h' k false g ys H).H o' q = cnt H o' q + blockOf h' ys o' q g k := by
  unfold walkAll
  have he : (foldRes (addRemove h' k false true g) (ys.map some) H).err = none := by
    apply foldRes_ok
    intro y hy H'
    simp only [List.mem_map] at hy
    obtain ⟨y', hy', rfl⟩ := hy
    exact addRemove_add_ok h' k g true (some y') H' (hok y' hy')
  obtain ⟨c, w, _⟩ := foldRes_spec (addRemove h' k false true g) (fun y => hookList h' k true g y)
    (fun H' => WF H') (fun _ => True) (fun _ => True)
    (fun y H' _ hP he' => by
      obtain ⟨_, b, d⟩ := addRemove_add h' k g true y H' he'
      exact ⟨b, d hP, trivial⟩)
    (ys.map some) H (fun _ _ => trivial) hw he
  exact ⟨he, w, c⟩

theorem maintCont_step (h' : Heap) (g : Graph) (k : HKey) (ev : CEvent) (H : Hooks) (hw : WF H)
    (hokR : ∀ y ∈ ev.removed, walkOk h' true g (some y) = true)
    (hokA : ∀ y ∈ ev.added, walkOk h' true g (some y) = true)
    (hle : ∀ o' q, blockOf h' ev.removed o' q g k ≤ cnt H o' q) :
    (maintCont h' g k ev H).err = none ∧ WF (maintCont h' g k ev H).H ∧
    ∀ o' q, cnt (maintCont h' g k ev H).H o' q + blockOf h' ev.removed o' q g k =
      cnt H o' q + blockOf h' ev.added o' q g k := by
  obtain ⟨e1, w1, c1⟩ := walkAll_rm h' g k ev.removed H hw hokR hle
  obtain ⟨e2, w2, c2⟩ := walkAll_add h' g k ev.added _ w1 hokA
  simp only [maintCont, e1]
  refine ⟨e2, w2, ?_⟩
  intro o' q
  have := c1 o' q
  rw [c2]; omega

theorem callCont_effect (E : Env) (h' : Heap) (c : Id) (ev : CEvent) :
    ∀ (ns : List Notifier) (H : Hooks) (ds : List Delivered), LoopOkC E h' ev ns → WF H →
      (∀ o' q, effectSumC (blockOf h' ev.removed o' q) ns ≤ cnt H o' q) →
      (callCont E h' c ev ns H ds).2.2 = none ∧ WF (callCont E h' c ev ns H ds).1 ∧
      ∀ o' q, cnt (callCont E h' c ev ns H ds).1 o' q + effectSumC (blockOf h' ev.removed o' q) ns =
        cnt H o' q + effectSumC (blockOf h' ev.added o' q) ns := by
  intro ns
  induction ns with
  | nil => intro H ds _ hw _; exact ⟨rfl, hw, by simp [callCont, effectSumC]⟩
  | cons nt ns ih =>
    intro H ds hl hw hle
    have hl' : LoopOkC E h' ev ns :=
      { alive := hl.alive
        okRem := fun mk g k hm => hl.okRem mk g k (List.mem_cons_of_mem _ hm)
        okAdd := fun mk g k hm => hl.okAdd mk g k (List.mem_cons_of_mem _ hm) }
    have hsplit : ∀ F, effectSumC F (nt :: ns) = effectC F nt + effectSumC F ns := by
      intro F; simp [effectSumC]
    cases nt with
    | user k rc =>
      have hle' : ∀ o' q, effectSumC (blockOf h' ev.removed o' q) ns ≤ cnt H o' q := by
        intro o' q; have := hle o' q; rw [hsplit] at this; simpa [effectC] using this
      simp only [callCont]
      split
      · obtain ⟨a, b, cc⟩ := ih H ds hl' hw hle'
        exact ⟨a, b, by intro o' q; rw [hsplit, hsplit]; simpa [effectC] using cc o' q⟩
      · obtain ⟨a, b, cc⟩ := ih H (ds ++ [deliverCont k c ev]) hl' hw hle'
        exact ⟨a, b, by intro o' q; rw [hsplit, hsplit]; simpa [effectC] using cc o' q⟩
    | maint mk g k =>
      simp only [callCont, hl.alive k, Bool.false_eq_true, if_false]
      have hle1 : ∀ o' q, blockOf h' ev.removed o' q g k ≤ cnt H o' q := by
        intro o' q; have := hle o' q; rw [hsplit] at this; simp only [effectC] at this; omega
      obtain ⟨e1, w1, c1⟩ := maintCont_step h' g k ev H hw
        (hl.okRem mk g k (List.mem_cons_self ..)) (hl.okAdd mk g k (List.mem_cons_self ..)) hle1
      simp only [e1]
      have hle' : ∀ o' q, effectSumC (blockOf h' ev.removed o' q) ns ≤ cnt (maintCont h' g k ev H).H o' q := by
        intro o' q
        have := hle o' q
        rw [hsplit] at this
        simp only [effectC] at this
        have := c1 o' q
        omega
      obtain ⟨a, b, cc⟩ := ih _ ds hl' w1 hle'
      refine ⟨a, b, ?_⟩
      intro o' q
      rw [hsplit, hsplit]
      simp only [effectC]
      have := cc o' q
      have := c1 o' q
      omega

end TraitsVerif.Model.Obs
