/-
Helper lemmas for C10, part 3: several instances of several classes.  What an
operation on instance `i` can change in the world — for EVERY environment.
-/
import TraitsVerif.Lemmas.AttrCtx
namespace TraitsVerif.Model.Attr
open TraitsVerif

/-! ### Association lists -/

theorem assocGet_assocSet_self {β : Type} (l : List (Name × β)) (n : Name) (b : β) :
    assocGet (assocSet l n b) n = some b := by
  unfold assocGet assocSet
  split
  · rename_i h
    induction l with
    | nil => simp at h
    | cons p l ih =>
      simp only [List.map_cons, List.find?_cons]
      by_cases hp : (p.1 == n) = true
      · simp [hp]
      · simp only [hp, Bool.false_eq_true, if_false]
        have : l.any (fun e => e.1 == n) = true := by
          simp only [List.any_cons, hp, Bool.false_or] at h; simpa using h
        simpa [hp] using ih this
  · rename_i h
    rw [List.find?_append]
    have : l.find? (fun e => e.1 == n) = none := by
      rw [List.find?_eq_none]
      intro x hx hxn
      exact h (List.any_eq_true.mpr ⟨x, hx, hxn⟩)
    simp [this, List.find?]

/-! ### Reachability -/

/-- Elements of the container `x` (nothing for an object that is not a container). -/
def World.kids (w : World) (x : Id) : List Id := (heapGet w.ctx.heap x).getD []

/-- `x` is a value stored on instance number `i`, or an element of such a value. -/
def World.ReachIdx (w : World) (i : Nat) (x : Id) : Prop :=
  ∃ o, w.insts[i]? = some o ∧ ∃ n v, assocGet o.dict n = some v ∧ (x = v ∨ x ∈ w.kids v)

/-- `x` is a mutable object (a container). -/
def World.Mut (w : World) (x : Id) : Prop := (heapGet w.ctx.heap x).isSome = true

/-- The instance an operation acts on. -/
def WOp.target : WOp → Option Nat
  | .new _ => none
  | .get i _ | .set i _ _ | .mutate i _ _ | .mutateInner i _ _ | .regDyn i _ _ | .regObs i _ _ | .regAny i _
  | .addTrait i _ _ | .del i _ | .query i => some i

/-! ### What one operation can change -/

/-- Frame of an operation on instance `i`: class records, every other instance
record (values, instance traits with their definitions and notifier lists,
anytrait notifiers), the handler calls and factory calls concerning other
objects are untouched; a container that existed before keeps its contents
unless it is reachable from instance `i` afterwards. -/
structure WFrame (i : Nat) (w w' : World) : Prop where
  classes : w'.classes = w.classes
  others : ∀ j, j ≠ i → w'.insts[j]? = w.insts[j]?
  len : w.insts.length ≤ w'.insts.length
  ident : ∀ o, w.insts[i]? = some o → ∃ o', w'.insts[i]? = some o' ∧ o'.oid = o.oid ∧ o'.cls = o.cls
  le : w.ctx.alloc ≤ w'.ctx.alloc
  heap : ∀ x, x < w.ctx.alloc → heapGet w'.ctx.heap x = heapGet w.ctx.heap x ∨ w'.ReachIdx i x
  /-- a container stays a container, a non-container does not become one -/
  kept : ∀ x, x < w.ctx.alloc → (heapGet w'.ctx.heap x).isSome = (heapGet w.ctx.heap x).isSome
  log : ∃ l, w'.ctx.log = w.ctx.log ++ l ∧ ∀ c ∈ l, ∃ o, w.insts[i]? = some o ∧ c.obj = o.oid
  fcalls : ∃ l, w'.ctx.fcalls = w.ctx.fcalls ++ l ∧ ∀ f ∈ l, ∃ o, w.insts[i]? = some o ∧ f.2.1 = o.oid

theorem WFrame.refl (i : Nat) (w : World) : WFrame i w w :=
  ⟨rfl, fun _ _ => rfl, Nat.le_refl _, fun o h => ⟨o, h, rfl, rfl⟩, Nat.le_refl _, fun _ _ => Or.inl rfl,
   fun _ _ => rfl, ⟨[], by simp, by simp⟩, [], by simp, by simp⟩

theorem setInst_get_self (w : World) (i : Nat) (o o' : Inst) (c : Ctx) (h : w.insts[i]? = some o) :
    (w.setInst i o' c).insts[i]? = some o' := by
  unfold World.setInst
  have hi : i < w.insts.length := by
    rcases Nat.lt_or_ge i w.insts.length with h' | h'
    · exact h'
    · rw [List.getElem?_eq_none h'] at h; cases h
  simp [hi]

theorem setInst_get_other (w : World) (i j : Nat) (o' : Inst) (c : Ctx) (h : j ≠ i) :
    (w.setInst i o' c).insts[j]? = w.insts[j]? := by
  unfold World.setInst
  simp [Ne.symm h]

/-- A focused computation that respects `SFrame` respects `WFrame`. -/
theorem onAttr_frame (w : World) (i : Nat) (n : Name) (f : TraitCore → OSt → Res × OSt)
    (hf : ∀ t s, SFrame s (f t s).2) : WFrame i w (w.onAttr i n f).2 := by
  unfold World.onAttr
  cases hi : w.insts[i]? with
  | none => exact WFrame.refl i w
  | some o =>
    simp only []
    cases ht : w.traitOf o n with
    | none => exact WFrame.refl i w
    | some td =>
      simp only []
      have hs := hf td.core (w.focus o n)
      cases hr : f td.core (w.focus o n) with
      | mk r s =>
        rw [hr] at hs
        simp only []
        have hself : (w.focus o n).self = o.oid := rfl
        have hctx : (w.focus o n).ctx = w.ctx := rfl
        obtain ⟨l, hl, hm⟩ := hs.log
        obtain ⟨k, hk, hn⟩ := hs.fcalls
        refine ⟨rfl, fun j hj => setInst_get_other w i j _ _ hj, ?_, ?_, ?_, ?_, ?_, ⟨l, ?_, ?_⟩, k, ?_, ?_⟩
        · simp [World.setInst]
        · intro o2 h2
          rw [hi] at h2
          injection h2 with h2
          subst h2
          exact ⟨_, setInst_get_self w i o _ _ hi, rfl, rfl⟩
        · have := hs.le; rw [hctx] at this; exact this
        · intro x hx
          left
          have := hs.heap x (by rw [hctx]; exact hx)
          rw [hctx] at this
          exact this
        · intro x hx
          have := hs.heap x (by rw [hctx]; exact hx)
          rw [hctx] at this
          show (heapGet s.ctx.heap x).isSome = _
          rw [this]
        · rw [← hctx]; exact hl
        · intro c hc; exact ⟨o, hi, by rw [hm c hc, hself]⟩
        · rw [← hctx]; exact hk
        · intro g hg; exact ⟨o, hi, by rw [hn g hg]; rfl⟩

/-! ### Reading returns what is stored afterwards -/

theorem postSetattr_slot (E : Env) (t : TraitCore) (v : Id) (s : OSt) : (postSetattr E t v s).2.slot = s.slot := by
  unfold postSetattr
  cases t.post with
  | none => rfl
  | some p => simp only []; split <;> rfl

theorem getattro_ok_slot (E : Env) (t : TraitCore) (s : OSt) (v : Id) (h : (getattro E t s).1 = .ok v) :
    (getattro E t s).2.slot = some v := by
  unfold getattro at h ⊢
  cases hs : s.slot with
  | some x => simp only [hs] at h ⊢; injection h with h; rw [h]
  | none =>
    simp only [hs] at h ⊢
    unfold traitGetattr at h ⊢
    cases hk : t.kind with
    | event => simp [hk] at h
    | trait =>
      simp only [hk] at h ⊢
      unfold getattrTrait at h ⊢
      cases hd : s.defaultValueFor E t with
      | mk r s1 =>
        simp only [hd] at h ⊢
        cases r with
        | error e => simp at h
        | ok d =>
          simp only [] at h ⊢
          have hp := postSetattr_slot E t d { s1 with slot := some d }
          cases hq : postSetattr E t d { s1 with slot := some d } with
          | mk r2 s3 =>
            rw [hq] at hp
            simp only [hq] at h ⊢
            cases r2 with
            | some e => simp at h
            | none =>
              simp only [callNotifiers_uninit'] at h ⊢
              split at h <;> (injection h with h; subst h; split <;> exact hp)

/-! ### Container mutation -/

theorem find?_map_other (rest : List (Id × List Id)) (k x : Id) (v : List Id) (h : x ≠ k) :
    List.find? (fun e => e.1 == x) (rest.map (fun e => if (e.1 == k) = true then (k, v) else e)) =
      List.find? (fun e => e.1 == x) rest := by
  induction rest with
  | nil => rfl
  | cons p rest ih =>
    simp only [List.map_cons, List.find?_cons]
    by_cases hp : (p.1 == k) = true
    · have hpk : p.1 = k := by simpa using hp
      have h1 : (p.1 == x) = false := by simp [hpk]; exact fun e => h e.symm
      have h2 : ((k, v).1 == x) = false := by simp; exact fun e => h e.symm
      simp only [hp, if_true, h1, h2]
      exact ih
    · simp only [hp, Bool.false_eq_true, if_false]
      cases hx : (p.1 == x)
      · exact ih
      · rfl

theorem heapGet_heapSet_ne (heap : List (Id × List Id)) (k x : Id) (v : List Id) (h : x ≠ k) :
    heapGet (heapSet heap k v) x = heapGet heap x := by
  unfold heapSet
  split
  · unfold heapGet
    rw [find?_map_other heap k x v h]
  · exact heapGet_append_ne heap k x v h

theorem find?_map_self (rest : List (Id × List Id)) (k : Id) (v : List Id)
    (hany : rest.any (fun e => e.1 == k) = true) :
    List.find? (fun e => e.1 == k) (rest.map (fun e => if (e.1 == k) = true then (k, v) else e)) = some (k, v) := by
  induction rest with
  | nil => simp at hany
  | cons p rest ih =>
    simp only [List.map_cons, List.find?_cons]
    by_cases hp : (p.1 == k) = true
    · simp [hp]
    · simp only [hp, Bool.false_eq_true, if_false]
      have : rest.any (fun e => e.1 == k) = true := by
        simp only [List.any_cons, hp, Bool.false_or] at hany; simpa using hany
      exact ih this

theorem any_of_heapGet (heap : List (Id × List Id)) (k : Id) (h : (heapGet heap k).isSome = true) :
    heap.any (fun e => e.1 == k) = true := by
  unfold heapGet at h
  cases hf : heap.find? (fun e => e.1 == k) with
  | none => simp [hf] at h
  | some p =>
    have hp : (p.1 == k) = true := by simpa using List.find?_some hf
    exact List.any_eq_true.mpr ⟨p, List.mem_of_find?_eq_some hf, hp⟩

theorem heapGet_heapSet_self (heap : List (Id × List Id)) (k : Id) (v : List Id)
    (hk : (heapGet heap k).isSome = true) : heapGet (heapSet heap k v) k = some v := by
  unfold heapSet
  simp only [any_of_heapGet heap k hk, if_true]
  unfold heapGet
  rw [find?_map_self heap k v (any_of_heapGet heap k hk)]
  rfl

theorem heapSet_isSome (heap : List (Id × List Id)) (k x : Id) (v : List Id)
    (hk : (heapGet heap k).isSome = true) :
    (heapGet (heapSet heap k v) x).isSome = (heapGet heap x).isSome := by
  by_cases h : x = k
  · subst h
    rw [hk, heapGet_heapSet_self heap x v hk]
    rfl
  · rw [heapGet_heapSet_ne _ _ _ _ h]

theorem mutate_frame (c : Ctx) (cid x : Id) :
    (c.mutate cid x).2.alloc = c.alloc ∧ (c.mutate cid x).2.log = c.log ∧ (c.mutate cid x).2.fcalls = c.fcalls ∧
    (∀ y, y ≠ cid → heapGet (c.mutate cid x).2.heap y = heapGet c.heap y) ∧
    (∀ y, (heapGet (c.mutate cid x).2.heap y).isSome = (heapGet c.heap y).isSome) := by
  unfold Ctx.mutate
  cases hg : heapGet c.heap cid with
  | none => exact ⟨rfl, rfl, rfl, fun _ _ => rfl, fun _ => rfl⟩
  | some xs =>
    simp only []
    split
    · exact ⟨rfl, rfl, rfl, fun _ _ => rfl, fun _ => rfl⟩
    · exact ⟨rfl, rfl, rfl, fun y hy => heapGet_heapSet_ne _ _ _ _ hy,
        fun y => heapSet_isSome _ _ _ _ (by rw [hg]; rfl)⟩

/-! ### Every operation respects the frame -/

/-- The read part of an operation on `(i, n)`: what it returns is stored on
instance `i` under `n` afterwards. -/
theorem onAttr_get_stored (E : Env) (w : World) (i : Nat) (n : Name) (v : Id)
    (h : (w.onAttr i n (fun t s => Attr.step E t s .get)).1.val = some v) :
    ∃ o, (w.onAttr i n (fun t s => Attr.step E t s .get)).2.insts[i]? = some o ∧ assocGet o.dict n = some v := by
  unfold World.onAttr at h ⊢
  cases hi : w.insts[i]? with
  | none => simp [hi] at h
  | some o =>
    simp only [hi] at h ⊢
    cases ht : w.traitOf o n with
    | none => simp [ht] at h
    | some td =>
      simp only [ht] at h ⊢
      have hs : ∀ (s : OSt), (Attr.step E td.core s .get).1.val = some v →
          (Attr.step E td.core s .get).2.slot = some v := by
        intro s hv
        have key := getattro_ok_slot E td.core s v
        unfold Attr.step at hv ⊢
        cases hg : getattro E td.core s with
        | mk r s' =>
          rw [hg] at key
          simp only [hg] at hv ⊢
          cases r with
          | error e => simp at hv
          | ok u =>
            simp only [] at hv ⊢
            injection hv with hv
            exact key (by rw [hv])
      cases hr : Attr.step E td.core (w.focus o n) .get with
      | mk r s =>
        have h2 := hs (w.focus o n)
        rw [hr] at h2
        simp only [hr] at h ⊢
        refine ⟨_, setInst_get_self w i o _ _ hi, ?_⟩
        have hsl : s.slot = some v := h2 h
        unfold Inst.absorb
        simp only [hsl]
        exact assocGet_assocSet_self _ _ _

theorem onAttr_old_heap (w : World) (i : Nat) (n : Name) (f : TraitCore → OSt → Res × OSt)
    (hf : ∀ t s, SFrame s (f t s).2) (x : Id) (hx : x < w.ctx.alloc) :
    heapGet (w.onAttr i n f).2.ctx.heap x = heapGet w.ctx.heap x := by
  unfold World.onAttr
  cases hi : w.insts[i]? with
  | none => rfl
  | some o =>
    simp only []
    cases ht : w.traitOf o n with
    | none => rfl
    | some td =>
      simp only []
      have hs := hf td.core (w.focus o n)
      cases hr : f td.core (w.focus o n) with
      | mk r s =>
        rw [hr] at hs
        exact hs.heap x hx

theorem reach_of_stored (w : World) (i : Nat) (o : Inst) (n : Name) (v : Id) (hi : w.insts[i]? = some o)
    (hv : assocGet o.dict n = some v) : w.ReachIdx i v :=
  ⟨o, hi, n, v, hv, Or.inl rfl⟩

/-- An operation on instance `i` respects `WFrame i`. -/
theorem step_frame (E : Env) (w : World) (op : WOp) (i : Nat) (ht : op.target = some i) :
    WFrame i w (World.step E w op).2 := by
  cases op with
  | new k => simp [WOp.target] at ht
  | get j n =>
    simp only [WOp.target, Option.some.injEq] at ht; subst ht
    exact onAttr_frame w j n _ (fun t s => step_sframe E t s .get)
  | set j n v =>
    simp only [WOp.target, Option.some.injEq] at ht; subst ht
    exact onAttr_frame w j n _ (fun t s => step_sframe E t s (.set v))
  | regDyn j n h =>
    simp only [WOp.target, Option.some.injEq] at ht; subst ht
    exact onAttr_frame w j n _ (fun t s => step_sframe E t s (.regDyn h false))
  | regObs j n h =>
    simp only [WOp.target, Option.some.injEq] at ht; subst ht
    exact onAttr_frame w j n _ (fun t s => step_sframe E t s (.regObs h))
  | regAny j h =>
    simp only [WOp.target, Option.some.injEq] at ht; subst ht
    simp only [World.step]
    cases hi : w.insts[j]? with
    | none => exact WFrame.refl j w
    | some o =>
      simp only []
      refine ⟨rfl, fun k hk => setInst_get_other w j k _ _ hk, by simp [World.setInst], ?_, Nat.le_refl _,
        fun _ _ => Or.inl rfl, fun _ _ => rfl, ⟨[], by simp [World.setInst], by simp⟩, [], by simp [World.setInst],
        by simp⟩
      intro o2 h2
      rw [hi] at h2
      injection h2 with h2
      subst h2
      exact ⟨_, setInst_get_self w j o _ _ hi, rfl, rfl⟩
  | del j n =>
    simp only [WOp.target, Option.some.injEq] at ht; subst ht
    exact onAttr_frame w j n _ (fun t s => step_sframe E t s .del)
  | query j =>
    simp only [WOp.target, Option.some.injEq] at ht; subst ht
    simp only [World.step]
    cases w.insts[j]? <;> exact WFrame.refl j w
  | addTrait j n t =>
    simp only [WOp.target, Option.some.injEq] at ht; subst ht
    simp only [World.step, World.addTrait]
    cases hi : w.insts[j]? with
    | none => exact WFrame.refl j w
    | some o =>
      simp only []
      refine ⟨rfl, fun k hk => setInst_get_other w j k _ _ hk, by simp [World.setInst], ?_, Nat.le_refl _,
        fun _ _ => Or.inl rfl, fun _ _ => rfl, ⟨[], by simp [World.setInst], by simp⟩, [], by simp [World.setInst],
        by simp⟩
      intro o2 h2
      rw [hi] at h2
      injection h2 with h2
      subst h2
      exact ⟨_, setInst_get_self w j o _ _ hi, rfl, rfl⟩
  | mutate j n x =>
    simp only [WOp.target, Option.some.injEq] at ht; subst ht
    have hf := onAttr_frame w j n (fun t s => Attr.step E t s .get) (fun t s => step_sframe E t s .get)
    have hold := onAttr_old_heap w j n (fun t s => Attr.step E t s .get) (fun t s => step_sframe E t s .get)
    have hst := onAttr_get_stored E w j n
    simp only [World.step]
    cases hr : w.onAttr j n (fun t s => Attr.step E t s .get) with
    | mk r w1 =>
      rw [hr] at hf hold hst
      simp only []
      cases hv : r.val with
      | none => exact hf
      | some cid =>
        simp only []
        obtain ⟨o1, ho1, hd1⟩ := hst cid hv
        have hm := mutate_frame w1.ctx cid x
        have hw' : ∀ (e : Option Exc) (c : Ctx), (e, c) = w1.ctx.mutate cid x →
            WFrame j w ({ w1 with ctx := c } : World) := by
          intro e c hc
          have hc2 : c = (w1.ctx.mutate cid x).2 := by rw [← hc]
          subst hc2
          obtain ⟨l, hl, hlm⟩ := hf.log
          obtain ⟨k, hk, hkm⟩ := hf.fcalls
          refine ⟨hf.classes, hf.others, hf.len, hf.ident, by rw [show ({ w1 with ctx := _ } : World).ctx.alloc
              = (w1.ctx.mutate cid x).2.alloc from rfl, hm.1]; exact hf.le, ?_, ?kept, ⟨l, ?_, hlm⟩, k, ?_, hkm⟩
          case kept =>
            intro y hy
            show (heapGet (w1.ctx.mutate cid x).2.heap y).isSome = _
            rw [hm.2.2.2.2 y, hold y hy]
          · intro y hy
            by_cases hyc : y = cid
            · right
              subst hyc
              exact ⟨o1, ho1, n, y, hd1, Or.inl rfl⟩
            · left
              show heapGet (w1.ctx.mutate cid x).2.heap y = heapGet w.ctx.heap y
              rw [hm.2.2.2.1 y hyc]
              exact hold y hy
          · show (w1.ctx.mutate cid x).2.log = w.ctx.log ++ l
            rw [hm.2.1]; exact hl
          · show (w1.ctx.mutate cid x).2.fcalls = w.ctx.fcalls ++ k
            rw [hm.2.2.1]; exact hk
        cases hmu : w1.ctx.mutate cid x with
        | mk e c =>
          cases e <;> exact hw' _ c hmu.symm
  | mutateInner j n x =>
    simp only [WOp.target, Option.some.injEq] at ht; subst ht
    have hf := onAttr_frame w j n (fun t s => Attr.step E t s .get) (fun t s => step_sframe E t s .get)
    have hold := onAttr_old_heap w j n (fun t s => Attr.step E t s .get) (fun t s => step_sframe E t s .get)
    have hst := onAttr_get_stored E w j n
    simp only [World.step]
    cases hr : w.onAttr j n (fun t s => Attr.step E t s .get) with
    | mk r w1 =>
      rw [hr] at hf hold hst
      simp only []
      cases hv : r.val with
      | none => exact hf
      | some cid =>
        simp only []
        obtain ⟨o1, ho1, hd1⟩ := hst cid hv
        cases hin : (heapGet w1.ctx.heap cid).bind (·.head?) with
        | none => exact hf
        | some inner =>
          simp only []
          have hm := mutate_frame w1.ctx inner x
          -- `inner` is the first element of the value stored under `n`
          have hkid : ∃ ys, heapGet w1.ctx.heap cid = some ys ∧ inner ∈ ys := by
            cases hg : heapGet w1.ctx.heap cid with
            | none => simp [hg] at hin
            | some ys =>
              refine ⟨ys, rfl, ?_⟩
              simp only [hg, Option.bind_some] at hin
              exact List.mem_of_head? hin
          have hw' : ∀ (e : Option Exc) (c : Ctx), (e, c) = w1.ctx.mutate inner x →
              WFrame j w ({ w1 with ctx := c } : World) := by
            intro e c hc
            have hc2 : c = (w1.ctx.mutate inner x).2 := by rw [← hc]
            subst hc2
            obtain ⟨l, hl, hlm⟩ := hf.log
            obtain ⟨k, hk, hkm⟩ := hf.fcalls
            refine ⟨hf.classes, hf.others, hf.len, hf.ident, by rw [show ({ w1 with ctx := _ } : World).ctx.alloc
                = (w1.ctx.mutate inner x).2.alloc from rfl, hm.1]; exact hf.le, ?_, ?kept, ⟨l, ?_, hlm⟩, k, ?_, hkm⟩
            case kept =>
              intro y hy
              show (heapGet (w1.ctx.mutate inner x).2.heap y).isSome = _
              rw [hm.2.2.2.2 y, hold y hy]
            · intro y hy
              by_cases hyc : y = inner
              · right
                subst hyc
                obtain ⟨ys, hys, hmem⟩ := hkid
                refine ⟨o1, ho1, n, cid, hd1, Or.inr ?_⟩
                show y ∈ (heapGet (w1.ctx.mutate y x).2.heap cid).getD []
                by_cases hcy : cid = y
                · -- a container that is its own first element: its new contents still contain it
                  subst hcy
                  unfold Ctx.mutate
                  simp only [hys]
                  split
                  · simp [hys, hmem]
                  · have : heapGet (heapSet w1.ctx.heap cid (ys ++ [x])) cid = some (ys ++ [x]) :=
                      heapGet_heapSet_self _ _ _ (by rw [hys]; rfl)
                    simp [this, hmem]
                · rw [hm.2.2.2.1 cid hcy, hys]
                  exact hmem
              · left
                show heapGet (w1.ctx.mutate inner x).2.heap y = heapGet w.ctx.heap y
                rw [hm.2.2.2.1 y hyc]
                exact hold y hy
            · show (w1.ctx.mutate inner x).2.log = w.ctx.log ++ l
              rw [hm.2.1]; exact hl
            · show (w1.ctx.mutate inner x).2.fcalls = w.ctx.fcalls ++ k
              rw [hm.2.2.1]; exact hk
          cases hmu : w1.ctx.mutate inner x with
          | mk e c =>
            cases e <;> exact hw' _ c hmu.symm

end TraitsVerif.Model.Attr
