/-
Cluster `obs`: removal.

`addRemove_add_ok`    : a walk without failing `iter_*` registers without raising;
L2 `addRemove_remove` : when everything the walk owes is held, removal does not
                        raise and takes exactly that away;
`addRemove_rm_nokey`  : with nothing of the handler held, removal leaves the hooks
                        untouched and raises NotifierNotFound (unless it owes nothing).
(each first for `walk` with any incoming undo log, then for the outermost call)
-/
import TraitsVerif.Lemmas.ObsRegister
namespace TraitsVerif.Model.Obs
open TraitsVerif

theorem foldRes_ok (f : W → Hooks → Res) (ys : List W) (H : Hooks)
    (hf : ∀ y ∈ ys, ∀ H', (f y H').err = none) : (foldRes f ys H).err = none := by
  induction ys generalizing H with
  | nil => rfl
  | cons y ys ih =>
    simp only [foldRes]
    rw [hf y (List.mem_cons_self ..) H]
    exact ih _ (fun y' hy' => hf y' (List.mem_cons_of_mem _ hy'))

theorem walkOk_node (h : Heap) (extra : Bool) (ob : Observer) (cs : List Graph) (x : W) :
    walkOk h extra (.node ob cs) x = true ↔
      isOk (observables h ob x) = true ∧ walkOkCs h ob x cs = true ∧
      (extra = true → isOk (extraObservables h ob x) = true) := by
  cases extra <;> simp [walkOk, and_assoc]

theorem walkOkCs_cons (h : Heap) (ob : Observer) (x : W) (c : Graph) (cs : List Graph) :
    walkOkCs h ob x (c :: cs) = true ↔
      (∃ ys, objects h ob x = .ok ys ∧ ∀ y ∈ ys, walkOk h true c y = true) ∧ walkOkCs h ob x cs = true := by
  simp only [walkOkCs, Bool.and_eq_true]
  cases objects h ob x with
  | error e => simp
  | ok ys => simp

theorem isOk_iff {α} (e : Except Exc α) : isOk e = true ↔ ∃ a, e = .ok a := by
  cases e <;> simp [isOk]

/-! ### registration succeeds on a walk that meets no failing `iter_*` -/

theorem foldW_ok (f : W → Hooks → List Item → Tr) (ys : List W) (H : Hooks) (log : List Item)
    (hf : ∀ y ∈ ys, ∀ H' log', (f y H' log').2.2 = none) : (foldW f ys H log).2.2 = none := by
  induction ys generalizing H log with
  | nil => rfl
  | cons y ys ih =>
    simp only [foldW]
    rw [hf y (List.mem_cons_self ..) H log]
    exact ih _ _ (fun y' hy' => hf y' (List.mem_cons_of_mem _ hy'))

theorem walkCs_add_ok (h : Heap) (k : HKey) (ob : Observer) (x : W) (cs : List Graph)
    (ih : ∀ c ∈ cs, ∀ (extra : Bool) (y : W) (H : Hooks) (log : List Item), walkOk h extra c y = true →
      (walk h k false extra c y H log).2.2 = none)
    (H : Hooks) (log : List Item) (hw : walkOkCs h ob x cs = true) : (walkCs h k false ob x cs H log).2.2 = none := by
  induction cs generalizing H log with
  | nil => rfl
  | cons c cs ihcs =>
    obtain ⟨⟨ys, hys, hall⟩, hrest⟩ := (walkOkCs_cons h ob x c cs).1 hw
    simp only [walkCs, hys]
    have := foldW_ok (walk h k false true c) ys H log
      (fun y hy H' log' => ih c (List.mem_cons_self ..) true y H' log' (hall y hy))
    simp only [this]
    exact ihcs (fun c' hc' => ih c' (List.mem_cons_of_mem _ hc')) _ _ hrest

theorem walk_add_ok (h : Heap) (k : HKey) : ∀ (g : Graph) (extra : Bool) (x : W) (H : Hooks) (log : List Item),
    walkOk h extra g x = true → (walk h k false extra g x H log).2.2 = none := by
  apply Graph.ind
  intro ob cs ih extra x H log hw
  obtain ⟨hobs, hcs, hex⟩ := (walkOk_node h extra ob cs x).1 hw
  obtain ⟨os, hos⟩ := (isOk_iff _).1 hobs
  rw [walk_add_unfold]
  obtain ⟨H1, d1, hs1⟩ : ∃ H1 d1, notifStep h k false ob x H log = (H1, d1, none) := by
    unfold notifStep
    by_cases hn : ob.notify = true
    · obtain ⟨H1, ha, _, _⟩ := applyOwn_add (userItems k os) H log
      exact ⟨H1, _, by simp [hn, hos]; exact ha⟩
    · exact ⟨H, log, by simp [hn]⟩
  simp only [hs1]
  obtain ⟨H2, ha2, _, _⟩ := applyOwn_add (maintItems ob cs k os) H1 d1
  have hs2 : maintStep h k false ob cs x H1 d1 = (H2, (maintItems ob cs k os).reverse ++ d1, none) := by
    simp [maintStep, hos]; exact ha2
  simp only [hs2]
  have h3 := walkCs_add_ok h k ob x cs ih H2 ((maintItems ob cs k os).reverse ++ d1) hcs
  simp only [h3]
  cases extra with
  | false => simpa using h3
  | true =>
    obtain ⟨os', hos'⟩ := (isOk_iff _).1 (hex rfl)
    obtain ⟨H4, ha4, _, _⟩ := applyOwn_add (os'.map (fun o => (o, NKey.maint .added (.node ob cs) k)))
      (walkCs h k false ob x cs H2 ((maintItems ob cs k os).reverse ++ d1)).1
      (walkCs h k false ob x cs H2 ((maintItems ob cs k os).reverse ++ d1)).2.1
    simp [extraStepW, Graph.ob, hos', ha4]

theorem addRemove_add_ok (h : Heap) (k : HKey) (g : Graph) (extra : Bool) (x : W) (H : Hooks)
    (hw : walkOk h extra g x = true) : (addRemove h k false extra g x H).err = none := by
  unfold addRemove
  rw [finish_err]
  exact walk_add_ok h k g extra x H [] hw

/-! ### L2: removal -/

theorem foldRes_rm (f : W → Hooks → Res) (items : W → List Item) (good : W → Prop)
    (hf : ∀ y H, good y → WF H → (∀ o q, cntItems (items y) o q ≤ cnt H o q) →
      (f y H).err = none ∧ (∀ o q, cnt (f y H).H o q + cntItems (items y) o q = cnt H o q) ∧ WF (f y H).H)
    (ys : List W) (H : Hooks) (hg : ∀ y ∈ ys, good y) (hw : WF H)
    (hle : ∀ o q, cntItems (ys.flatMap items) o q ≤ cnt H o q) :
    (foldRes f ys H).err = none ∧
      (∀ o q, cnt (foldRes f ys H).H o q + cntItems (ys.flatMap items) o q = cnt H o q) ∧
      WF (foldRes f ys H).H := by
  induction ys generalizing H with
  | nil => exact ⟨rfl, by simp [foldRes, cntItems_nil], hw⟩
  | cons y ys ih =>
    have hle1 : ∀ o q, cntItems (items y) o q ≤ cnt H o q := by
      intro o q
      have := hle o q
      rw [List.flatMap_cons, cntItems_append] at this
      omega
    obtain ⟨he, hc, hw'⟩ := hf y H (hg y (List.mem_cons_self ..)) hw hle1
    have hle2 : ∀ o q, cntItems (ys.flatMap items) o q ≤ cnt (f y H).H o q := by
      intro o q
      have := hle o q
      rw [List.flatMap_cons, cntItems_append] at this
      have := hc o q
      omega
    obtain ⟨he2, hc2, hw2⟩ := ih (f y H).H (fun y' hy' => hg y' (List.mem_cons_of_mem _ hy')) hw' hle2
    simp only [foldRes, he]
    refine ⟨he2, ?_, hw2⟩
    intro o q
    have := hc2 o q
    have := hc o q
    rw [List.flatMap_cons, cntItems_append]
    omega

theorem foldW_rm (f : W → Hooks → List Item → Tr) (items : W → List Item) (good : W → Prop)
    (hf : ∀ y H log, good y → WF H → (∀ o q, cntItems (items y) o q ≤ cnt H o q) →
      (f y H log).2.2 = none ∧ (∀ o q, cnt (f y H log).1 o q + cntItems (items y) o q = cnt H o q) ∧ WF (f y H log).1)
    (ys : List W) (H : Hooks) (log : List Item) (hg : ∀ y ∈ ys, good y) (hw : WF H)
    (hle : ∀ o q, cntItems (ys.flatMap items) o q ≤ cnt H o q) :
    (foldW f ys H log).2.2 = none ∧
      (∀ o q, cnt (foldW f ys H log).1 o q + cntItems (ys.flatMap items) o q = cnt H o q) ∧
      WF (foldW f ys H log).1 := by
  induction ys generalizing H log with
  | nil => exact ⟨rfl, by simp [foldW, cntItems_nil], hw⟩
  | cons y ys ih =>
    have hle1 : ∀ o q, cntItems (items y) o q ≤ cnt H o q := by
      intro o q
      have := hle o q
      rw [List.flatMap_cons, cntItems_append] at this
      omega
    obtain ⟨he, hc, hw'⟩ := hf y H log (hg y (List.mem_cons_self ..)) hw hle1
    have hle2 : ∀ o q, cntItems (ys.flatMap items) o q ≤ cnt (f y H log).1 o q := by
      intro o q
      have := hle o q
      rw [List.flatMap_cons, cntItems_append] at this
      have := hc o q
      omega
    obtain ⟨he2, hc2, hw2⟩ := ih _ (f y H log).2.1 (fun y' hy' => hg y' (List.mem_cons_of_mem _ hy')) hw' hle2
    simp only [foldW, he]
    refine ⟨he2, ?_, hw2⟩
    intro o q
    have := hc2 o q
    have := hc o q
    rw [List.flatMap_cons, cntItems_append]
    omega

def RemoveSpec (h : Heap) (k : HKey) (g : Graph) : Prop :=
  ∀ (extra : Bool) (x : W) (H : Hooks) (log : List Item), WF H → walkOk h extra g x = true →
    (∀ o q, cntItems (hookList h k extra g x) o q ≤ cnt H o q) →
    (walk h k true extra g x H log).2.2 = none ∧
    (∀ o q, cnt (walk h k true extra g x H log).1 o q + cntItems (hookList h k extra g x) o q = cnt H o q) ∧
    WF (walk h k true extra g x H log).1

theorem walkCs_rm (h : Heap) (k : HKey) (ob : Observer) (x : W) (cs : List Graph)
    (ih : ∀ c ∈ cs, RemoveSpec h k c) (H : Hooks) (log : List Item) (hw : WF H) (hok : walkOkCs h ob x cs = true)
    (hle : ∀ o q, cntItems (hookListCs h k ob x cs) o q ≤ cnt H o q) :
    (walkCs h k true ob x cs H log).2.2 = none ∧
    (∀ o q, cnt (walkCs h k true ob x cs H log).1 o q + cntItems (hookListCs h k ob x cs) o q = cnt H o q) ∧
    WF (walkCs h k true ob x cs H log).1 := by
  induction cs generalizing H log with
  | nil => exact ⟨rfl, by simp [walkCs, hookListCs, cntItems_nil], hw⟩
  | cons c cs ihcs =>
    obtain ⟨⟨ys, hys, hall⟩, hrest⟩ := (walkOkCs_cons h ob x c cs).1 hok
    have hle' : ∀ o q, cntItems (ys.flatMap (fun y => hookList h k true c y)) o q +
        cntItems (hookListCs h k ob x cs) o q ≤ cnt H o q := by
      intro o q
      have := hle o q
      rw [hookListCs_cons, cntItems_append, hys] at this
      simpa [okOr] using this
    obtain ⟨e1, c1, w1⟩ := foldW_rm (walk h k true true c) (fun y => hookList h k true c y)
      (fun y => walkOk h true c y = true)
      (fun y H' log' hg hw' hl => ih c (List.mem_cons_self ..) true y H' log' hw' hg hl)
      ys H log hall hw (fun o q => by have := hle' o q; omega)
    have hle2 : ∀ o q, cntItems (hookListCs h k ob x cs) o q ≤ cnt (foldW (walk h k true true c) ys H log).1 o q := by
      intro o q
      have := hle' o q
      have := c1 o q
      omega
    obtain ⟨e2, c2, w2⟩ := ihcs (fun c' hc' => ih c' (List.mem_cons_of_mem _ hc')) _
      (foldW (walk h k true true c) ys H log).2.1 w1 hrest hle2
    simp only [walkCs, hys, e1]
    refine ⟨e2, ?_, w2⟩
    intro o q
    have := c2 o q
    have := c1 o q
    rw [hookListCs_cons, cntItems_append, hys]
    simp only [okOr]
    omega

theorem walk_remove (h : Heap) (k : HKey) : ∀ g : Graph, RemoveSpec h k g := by
  apply Graph.ind
  intro ob cs ih extra x H log hw hok hle
  obtain ⟨hobs, hcs, hex⟩ := (walkOk_node h extra ob cs x).1 hok
  obtain ⟨os, hos⟩ := (isOk_iff _).1 hobs
  have hsplit : ∀ o q, cntItems (hookList h k extra (.node ob cs) x) o q =
      cntItems (if ob.notify then userItems k os else []) o q + cntItems (maintItems ob cs k os) o q +
      cntItems (hookListCs h k ob x cs) o q +
      cntItems (if extra then extraItems (.node ob cs) k (okOr [] (extraObservables h ob x)) else []) o q := by
    intro o q
    rw [hookList_node, ownItems_eq h k ob cs x os hos]
    simp only [cntItems_append]
  rw [walk_rm_unfold]
  -- step 1: extra graph
  obtain ⟨H1, l1, hr1, hc1, hw1⟩ : ∃ H1 l1, (if extra then extraStepW h k true (.node ob cs) x H log else (H, log, none) : Tr)
        = (H1, l1, none) ∧
      (∀ o q, cnt H1 o q + cntItems (if extra then extraItems (.node ob cs) k (okOr [] (extraObservables h ob x)) else []) o q
        = cnt H o q) ∧ WF H1 := by
    cases extra with
    | false => exact ⟨H, log, rfl, by simp [cntItems_nil], hw⟩
    | true =>
      obtain ⟨os', hos'⟩ := (isOk_iff _).1 (hex rfl)
      have hle4 : ∀ o q, cntItems (extraItems (.node ob cs) k os') o q ≤ cnt H o q := by
        intro o q
        have := hle o q
        rw [hsplit, hos'] at this
        simp only [if_true, okOr] at this
        omega
      obtain ⟨H1, ha, hc, hw'⟩ := applyOwn_rm_ok (extraItems (.node ob cs) k os') H log hw hle4
      refine ⟨H1, (extraItems (.node ob cs) k os').reverse ++ log, ?_, ?_, hw'⟩
      · simp only [if_true, extraStepW, Graph.ob, hos']
        exact ha
      · simpa [hos', okOr] using hc
  simp only [hr1]
  -- step 2: children
  have hle2 : ∀ o q, cntItems (hookListCs h k ob x cs) o q ≤ cnt H1 o q := by
    intro o q
    have := hle o q
    rw [hsplit] at this
    have := hc1 o q
    omega
  obtain ⟨e2, c2, w2⟩ := walkCs_rm h k ob x cs ih H1 l1 hw1 hcs hle2
  simp only [e2]
  -- step 3: maintainers
  have hle3 : ∀ o q, cntItems (maintItems ob cs k os) o q ≤ cnt (walkCs h k true ob x cs H1 l1).1 o q := by
    intro o q
    have := hle o q
    rw [hsplit] at this
    have := hc1 o q
    have := c2 o q
    omega
  obtain ⟨H3, ha3, c3, w3⟩ := applyOwn_rm_ok (maintItems ob cs k os) _ (walkCs h k true ob x cs H1 l1).2.1 w2 hle3
  have hs3 : maintStep h k true ob cs x (walkCs h k true ob x cs H1 l1).1 (walkCs h k true ob x cs H1 l1).2.1 =
      (H3, (maintItems ob cs k os).reverse ++ (walkCs h k true ob x cs H1 l1).2.1, none) := by
    simp only [maintStep, hos]; exact ha3
  simp only [hs3]
  -- step 4: user notifiers
  by_cases hn : ob.notify = true
  · have hle4 : ∀ o q, cntItems (userItems k os) o q ≤ cnt H3 o q := by
      intro o q
      have := hle o q
      rw [hsplit] at this
      simp only [hn, if_true] at this
      have := hc1 o q
      have := c2 o q
      have := c3 o q
      omega
    obtain ⟨H4, ha4, c4, w4⟩ := applyOwn_rm_ok (userItems k os) H3
      ((maintItems ob cs k os).reverse ++ (walkCs h k true ob x cs H1 l1).2.1) w3 hle4
    have hs4 : notifStep h k true ob x H3 ((maintItems ob cs k os).reverse ++ (walkCs h k true ob x cs H1 l1).2.1) =
        (H4, (userItems k os).reverse ++ ((maintItems ob cs k os).reverse ++ (walkCs h k true ob x cs H1 l1).2.1), none) := by
      simp only [notifStep, hn, if_true, hos]; exact ha4
    simp only [hs4]
    refine ⟨trivial, ?_, w4⟩
    intro o q
    have := hc1 o q
    have := c2 o q
    have := c3 o q
    have := c4 o q
    rw [hsplit]
    simp only [hn, if_true]
    omega
  · have hs4 : notifStep h k true ob x H3 ((maintItems ob cs k os).reverse ++ (walkCs h k true ob x cs H1 l1).2.1) =
        (H3, (maintItems ob cs k os).reverse ++ (walkCs h k true ob x cs H1 l1).2.1, none) := by
      simp [notifStep, hn]
    simp only [hs4]
    refine ⟨trivial, ?_, w3⟩
    intro o q
    have := hc1 o q
    have := c2 o q
    have := c3 o q
    rw [hsplit]
    simp only [hn, Bool.false_eq_true, if_false, cntItems_nil]
    omega

/-- L2 for an outermost call. -/
theorem addRemove_remove (h : Heap) (k : HKey) (g : Graph) (extra : Bool) (x : W) (H : Hooks) (hw : WF H)
    (hok : walkOk h extra g x = true) (hle : ∀ o q, cntItems (hookList h k extra g x) o q ≤ cnt H o q) :
    (addRemove h k true extra g x H).err = none ∧
    (∀ o q, cnt (addRemove h k true extra g x H).H o q + cntItems (hookList h k extra g x) o q = cnt H o q) ∧
    WF (addRemove h k true extra g x H).H := by
  obtain ⟨e, c, w⟩ := walk_remove h k g extra x H [] hw hok hle
  unfold addRemove
  rw [finish_err, finish_ok _ _ e]
  exact ⟨e, c, w⟩

end TraitsVerif.Model.Obs

namespace TraitsVerif.Model.Obs
open TraitsVerif

/-! ### nothing of the handler is held: removal raises NotifierNotFound, hooks untouched -/

def NKey.hkey : NKey → HKey
  | .user k => k
  | .maint _ _ k => k

/-- No registration of handler key `k` is held anywhere. -/
def NoKey (H : Hooks) (k : HKey) : Prop := ∀ o q, NKey.hkey q = k → cnt H o q = 0

def nnfUnless (b : Bool) : Option Exc := if b then none else some .notifierNotFound

theorem isEmpty_append' {α} (a b : List α) : (a ++ b).isEmpty = (a.isEmpty && b.isEmpty) := by
  cases a <;> simp [List.isEmpty]

theorem applyOwn_rm_none' (its : List Item) (H : Hooks) (done : List Item) (hw : WF H)
    (h0 : ∀ it ∈ its, cnt H it.1 it.2 = 0) :
    applyOwn true its H done = (H, done, nnfUnless its.isEmpty) := by
  rw [applyOwn_rm_none its H done hw h0]
  cases its <;> simp [nnfUnless]

theorem foldW_unchanged (f : W → Hooks → List Item → Tr) (items : W → List Item) (H : Hooks) (log : List Item)
    (ys : List W) (hf : ∀ y ∈ ys, f y H log = (H, log, nnfUnless (items y).isEmpty)) :
    foldW f ys H log = (H, log, nnfUnless (ys.flatMap items).isEmpty) := by
  induction ys with
  | nil => rfl
  | cons y ys ih =>
    have h1 := hf y (List.mem_cons_self ..)
    simp only [foldW, h1, List.flatMap_cons, isEmpty_append']
    cases hb : (items y).isEmpty with
    | false => simp [nnfUnless]
    | true =>
      simp only [nnfUnless, if_true, Bool.true_and]
      exact ih (fun y' hy' => hf y' (List.mem_cons_of_mem _ hy'))

def NoKeySpec (h : Heap) (k : HKey) (g : Graph) : Prop :=
  ∀ (extra : Bool) (x : W) (H : Hooks) (log : List Item), WF H → NoKey H k → walkOk h extra g x = true →
    walk h k true extra g x H log = (H, log, nnfUnless (hookList h k extra g x).isEmpty)

theorem walkCs_nokey (h : Heap) (k : HKey) (ob : Observer) (x : W) (cs : List Graph)
    (ih : ∀ c ∈ cs, NoKeySpec h k c) (H : Hooks) (log : List Item) (hw : WF H) (hn : NoKey H k)
    (hok : walkOkCs h ob x cs = true) :
    walkCs h k true ob x cs H log = (H, log, nnfUnless (hookListCs h k ob x cs).isEmpty) := by
  induction cs with
  | nil => rfl
  | cons c cs ihcs =>
    obtain ⟨⟨ys, hys, hall⟩, hrest⟩ := (walkOkCs_cons h ob x c cs).1 hok
    have h1 := foldW_unchanged (walk h k true true c) (fun y => hookList h k true c y) H log ys
      (fun y hy => ih c (List.mem_cons_self ..) true y H log hw hn (hall y hy))
    have g1 := ihcs (fun c' hc' => ih c' (List.mem_cons_of_mem _ hc')) hrest
    simp only [walkCs, hys, h1, hookListCs_cons, okOr, isEmpty_append']
    cases hb : (ys.flatMap (fun y => hookList h k true c y)).isEmpty with
    | false => simp [nnfUnless]
    | true => simp only [nnfUnless, if_true, Bool.true_and]; exact g1

theorem walk_rm_nokey (h : Heap) (k : HKey) : ∀ g : Graph, NoKeySpec h k g := by
  apply Graph.ind
  intro ob cs ih extra x H log hw hn hok
  obtain ⟨hobs, hcs, hex⟩ := (walkOk_node h extra ob cs x).1 hok
  obtain ⟨os, hos⟩ := (isOk_iff _).1 hobs
  rw [walk_rm_unfold, hookList_node, ownItems_eq h k ob cs x os hos]
  simp only [isEmpty_append']
  have hzU : ∀ it ∈ userItems k os, cnt H it.1 it.2 = 0 := by
    intro it hit
    simp only [userItems, List.mem_map] at hit
    obtain ⟨o, _, rfl⟩ := hit
    exact hn _ _ rfl
  have hzM : ∀ it ∈ maintItems ob cs k os, cnt H it.1 it.2 = 0 := by
    intro it hit
    simp only [maintItems, List.mem_flatMap, List.mem_map] at hit
    obtain ⟨o, _, c, _, rfl⟩ := hit
    exact hn _ _ rfl
  have hr1 : (if extra then extraStepW h k true (.node ob cs) x H log else (H, log, none) : Tr) =
      (H, log, nnfUnless (if extra then extraItems (.node ob cs) k (okOr [] (extraObservables h ob x)) else []).isEmpty) := by
    cases extra with
    | false => simp [nnfUnless]
    | true =>
      obtain ⟨os', hos'⟩ := (isOk_iff _).1 (hex rfl)
      have hzE : ∀ it ∈ extraItems (.node ob cs) k os', cnt H it.1 it.2 = 0 := by
        intro it hit
        simp only [extraItems, List.mem_map] at hit
        obtain ⟨o, _, rfl⟩ := hit
        exact hn _ _ rfl
      simp only [if_true, extraStepW, Graph.ob, hos', okOr]
      exact applyOwn_rm_none' (extraItems (.node ob cs) k os') H log hw hzE
  simp only [hr1]
  cases hbE : (if extra then extraItems (.node ob cs) k (okOr [] (extraObservables h ob x)) else []).isEmpty with
  | false => simp [nnfUnless]
  | true =>
    simp only [nnfUnless, if_true, Bool.and_true]
    have g1 := walkCs_nokey h k ob x cs ih H log hw hn hcs
    simp only [g1]
    cases hbC : (hookListCs h k ob x cs).isEmpty with
    | false => simp [nnfUnless]
    | true =>
      simp only [nnfUnless, if_true, Bool.and_true]
      have hs3 : maintStep h k true ob cs x H log = (H, log, nnfUnless (maintItems ob cs k os).isEmpty) := by
        simp only [maintStep, hos]; exact applyOwn_rm_none' _ H log hw hzM
      simp only [hs3]
      cases hbM : (maintItems ob cs k os).isEmpty with
      | false => cases ob.notify <;> simp [nnfUnless]
      | true =>
        simp only [nnfUnless, if_true, Bool.and_true]
        by_cases hnf : ob.notify = true
        · have hs4 : notifStep h k true ob x H log = (H, log, nnfUnless (userItems k os).isEmpty) := by
            simp only [notifStep, hnf, if_true, hos]; exact applyOwn_rm_none' _ H log hw hzU
          simp only [hs4, hnf, if_true]
          cases (userItems k os).isEmpty <;> simp [nnfUnless]
        · have hs4 : notifStep h k true ob x H log = (H, log, none) := by simp [notifStep, hnf]
          simp [hs4, hnf]

theorem addRemove_rm_nokey (h : Heap) (k : HKey) (g : Graph) (extra : Bool) (x : W) (H : Hooks) (hw : WF H)
    (hn : NoKey H k) (hok : walkOk h extra g x = true) :
    (addRemove h k true extra g x H).H = H ∧
    (addRemove h k true extra g x H).err = nnfUnless (hookList h k extra g x).isEmpty := by
  unfold addRemove
  rw [walk_rm_nokey h k g extra x H [] hw hn hok]
  unfold finish
  cases (hookList h k extra g x).isEmpty <;> simp [nnfUnless, undo]

end TraitsVerif.Model.Obs
