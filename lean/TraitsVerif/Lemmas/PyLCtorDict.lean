/-
The hand-written dict constructor models of `Model/PyLCtorDict.lean` are the
interpretation of the translated `__init__` bodies (`Generated/CtorProgDict.lean`).
-/
import TraitsVerif.Generated.CtorProgDict
set_option linter.unusedSimpArgs false
set_option linter.unusedVariables false
namespace TraitsVerif.Lemmas.PyLCtorDict
open TraitsVerif TraitsVerif.Model.PyLC TraitsVerif.Model.PyLCD TraitsVerif.Model.Map
variable {K V : Type} [DecidableEq K]

macro "pylcd_exec" "[" ts:Lean.Parser.Tactic.simpLemma,* "]" : tactic =>
  `(tactic| simp [runDictInit, runDictObjectInit, Generated.CtorD.traitDictInit, Generated.CtorD.traitDictObjectInit,
      Model.PyLCD.exec, Model.PyLCD.eval, Model.PyLCD.getVar, Model.PyLCD.truthy, Model.PyLCD.setAttrObj, Model.PyLCD.finish, Model.PyLCD.optVal, dictInit,
      dictObjectInit, Arg.val, Arg.items, $ts,*])

theorem dict_init_is_source (C : Model.PyLCD.Ctx K V) (a : Arg K V) (kv vv : Option VSrc) (ns : Option NSrc) :
    runDictInit Generated.CtorD.traitDictInit C a kv vv ns = dictInit C a kv vv ns := by
  cases hv : valPairs (C.kOf (kv.getD .everything)) (C.vOf (vv.getD .everything)) 0 a.items with
  | error e =>
    rcases kv with _ | k <;> rcases vv with _ | v <;> rcases ns with _ | n <;> rcases a with _ | ps | ps <;>
      simp [Arg.items] at hv <;> pylcd_exec [hv]
  | ok ps' =>
    rcases kv with _ | k <;> rcases vv with _ | v <;> rcases ns with _ | n <;> rcases a with _ | ps | ps <;>
      simp [Arg.items] at hv <;> pylcd_exec [hv]

/-- The translated `TraitDict.__init__` body run as `super().__init__(value, key_validator=self._key_validator,
value_validator=self._value_validator, notifiers=[self.notifier])` on an object `o` under construction. -/
theorem base_run (C : Model.PyLCD.Ctx K V) (a : Arg K V) (o : Obj K V) :
    (let r := Model.PyLCD.exec C Option.none Generated.CtorD.traitDictInit.body
        ([some a.val, some (.vfn .own), some (.vfn .own), some (.nlist .ownAlias)]
          ++ List.replicate (Generated.CtorD.traitDictInit.nslots - 4) Option.none, o)
     (r.1.2, r.2))
    = match valPairs C.ownK C.ownV 0 a.items with
      | .error e => ({ o with keyValidator := .own, valueValidator := .own, notifiers := .ownAlias }, .raised e)
      | .ok ps => ({ o with items := Py.Dict.ofPairs ps, keyValidator := .own, valueValidator := .own,
                            notifiers := .ownAlias }, .next) := by
  rcases a with _ | ps | ps
  · simp [Generated.CtorD.traitDictInit, Model.PyLCD.exec, Model.PyLCD.eval, Model.PyLCD.getVar, Model.PyLCD.truthy,
      Model.PyLCD.setAttrObj, Arg.val, Arg.items, Model.PyLCD.Ctx.kOf, Model.PyLCD.Ctx.vOf, valPairs]
  · cases hv : valPairs C.ownK C.ownV 0 ps <;>
    simp [Generated.CtorD.traitDictInit, Model.PyLCD.exec, Model.PyLCD.eval, Model.PyLCD.getVar, Model.PyLCD.truthy,
      Model.PyLCD.setAttrObj, Arg.val, Arg.items, Model.PyLCD.Ctx.kOf, Model.PyLCD.Ctx.vOf, hv]
  · cases hv : valPairs C.ownK C.ownV 0 ps <;>
    simp [Generated.CtorD.traitDictInit, Model.PyLCD.exec, Model.PyLCD.eval, Model.PyLCD.getVar, Model.PyLCD.truthy,
      Model.PyLCD.setAttrObj, Arg.val, Arg.items, Model.PyLCD.Ctx.kOf, Model.PyLCD.Ctx.vOf, hv]

theorem dict_object_init_is_source (C : Model.PyLCD.Ctx K V) (t : Option Bool) (owner : Bool) (a : Arg K V) :
    runDictObjectInit Generated.CtorD.traitDictObjectInit Generated.CtorD.traitDictInit C t owner a
      = dictObjectInit C t owner a := by
  have hb := fun o => base_run C a o
  unfold runDictObjectInit
  have hc : ¬ (Generated.CtorD.traitDictObjectInit.nparams ≠ 4 ∨ Generated.CtorD.traitDictObjectInit.nslots < 4 ∨
      Generated.CtorD.traitDictInit.nparams ≠ 4 ∨ Generated.CtorD.traitDictInit.nslots < 4) := by decide
  rw [if_neg hc]
  cases hv : valPairs C.ownK C.ownV 0 a.items with
  | error e =>
    simp only [List.cons_append, List.nil_append, hv, Prod.mk.injEq] at hb
    have hb1 := fun o => (hb o).1
    have hb2 := fun o => (hb o).2
    rcases t with _ | _ | _ <;> cases owner <;>
      simp [Generated.CtorD.traitDictObjectInit, Model.PyLCD.exec, Model.PyLCD.eval, Model.PyLCD.getVar,
        Model.PyLCD.truthy, Model.PyLCD.setAttrObj, Model.PyLCD.optVal, hb1, hb2, dictObjectInit,
        Model.PyLCD.finish, hv]
  | ok ps =>
    simp only [List.cons_append, List.nil_append, hv, Prod.mk.injEq] at hb
    have hb1 := fun o => (hb o).1
    have hb2 := fun o => (hb o).2
    rcases t with _ | _ | _ <;> cases owner <;>
      simp [Generated.CtorD.traitDictObjectInit, Model.PyLCD.exec, Model.PyLCD.eval, Model.PyLCD.getVar,
        Model.PyLCD.truthy, Model.PyLCD.setAttrObj, Model.PyLCD.optVal, hb1, hb2, dictObjectInit,
        Model.PyLCD.finish, hv]

end TraitsVerif.Lemmas.PyLCtorDict
