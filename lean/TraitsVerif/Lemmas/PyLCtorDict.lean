/-
The hand-written dict constructor models of `Model/PyLCtorDict.lean` are the
interpretation of the translated `__init__` bodies (`Generated/CtorProgDict.lean`).
-/
import TraitsVerif.Generated.CtorProgDict
set_option linter.unusedSimpArgs false
set_option linter.unusedVariables false
namespace TraitsVerif.Lemmas.PyLCtorDict
open TraitsVerif TraitsVerif.Model.PyLC TraitsVerif.Model.PyLCD TraitsVerif.Model.Map
variable {K V : Type} [DecidableEq K]

macro "pylcd_exec" "[" ts:Lean.Parser.Tactic.simpLemma,* "]" : tactic =>
  `(tactic| simp [runDictInit, runDictObjectInit, Generated.CtorD.traitDictInit, Generated.CtorD.traitDictObjectInit,
      Model.PyLCD.exec, Model.PyLCD.eval, Model.PyLCD.getVar, Model.PyLCD.truthy, Model.PyLCD.setAttrObj, Model.PyLCD.finish, Model.PyLCD.optVal, dictInit,
      dictObjectInit, Arg.val, Arg.items, $ts,*])

theorem dict_init_is_source (C : Model.PyLCD.Ctx K V) (a : Arg K V) (kv vv : Option VSrc) (ns : Option NSrc) :
    runDictInit Generated.CtorD.traitDictInit C a kv vv ns = dictInit C a kv vv ns := by
  cases hv : valPairs (C.kOf (kv.getD .everything)) (C.vOf (vv.getD .everything)) 0 a.items with
  | error e =>
    rcases kv with _ | k <;> rcases vv with _ | v <;> rcases ns with _ | n <;> rcases a with _ | ps | ps <;>
      simp [Arg.items] at hv <;> pylcd_exec [hv]
  | ok ps' =>
    rcases kv with _ | k <;> rcases vv with _ | v <;> rcases ns with _ | n <;> rcases a with _ | ps | ps <;>
      simp [Arg.items] at hv <;> pylcd_exec [hv]

end TraitsVerif.Lemmas.PyLCtorDict
