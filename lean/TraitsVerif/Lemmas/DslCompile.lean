/-
C15 — lemmas about `create` / `createU` / `Forest.paths` / `toExpr` / `lin`
(helper lemmas for Props/C15.lean).  Core Lean only.
-/
import TraitsVerif.Model.DslDenote
namespace TraitsVerif.Model.Dsl
open TraitsVerif

deriving instance DecidableEq for Except

/-! ### forests -/

namespace Forest

@[simp] theorem nil_append (g : Forest) : (Forest.nil ++ g) = g := rfl
@[simp] theorem cons_append (o k r g) : (Forest.cons o k r ++ g) = Forest.cons o k (r ++ g) := rfl

theorem append_assoc (a b c : Forest) : (a ++ b) ++ c = a ++ (b ++ c) := by
  induction a with
  | nil => rfl
  | cons o k r _ ih => simp [ih]

/-- continuations below a node: its children's paths, or the empty path for a leaf -/
def tails : Forest → List (List Observer)
  | .nil => [[]]
  | f => f.paths

theorem paths_cons (o k r) : (Forest.cons o k r).paths = (tails k).map (o :: ·) ++ r.paths := by
  cases k <;> simp [Forest.paths, tails]

theorem paths_append (a b : Forest) : (a ++ b).paths = a.paths ++ b.paths := by
  induction a with
  | nil => simp [Forest.paths]
  | cons o k r _ ih => simp [paths_cons, ih]

theorem wf_append (a b : Forest) : (a ++ b).wf = (a.wf && b.wf) := by
  induction a with
  | nil => simp [Forest.wf]
  | cons o k r _ ih => simp [Forest.wf, ih, Bool.and_assoc]

end Forest

/-! ### filtering and de-duplication -/

namespace Forest

theorem any_filter_not (p : Observer → Forest → Bool) (x : Forest) :
    (x.filter (fun o k => !p o k)).any p = false := by
  induction x with
  | nil => rfl
  | cons o k r _ ihr =>
    simp only [filter]
    by_cases h : p o k = true
    · simp [h, ihr]
    · have h' : p o k = false := by simpa using h
      simp [h', any, ihr]

theorem any_filter_imp (p q : Observer → Forest → Bool) (x : Forest)
    (h : (x.filter q).any p = true) : x.any p = true := by
  induction x with
  | nil => simpa [filter] using h
  | cons o k r _ ihr =>
    simp only [filter] at h
    split at h
    · simp only [any, Bool.or_eq_true] at h ⊢
      exact h.imp id ihr
    · simp [any, ihr h]

theorem unique_filter (q : Observer → Forest → Bool) (x : Forest) (h : x.unique = true) :
    (x.filter q).unique = true := by
  induction x with
  | nil => rfl
  | cons o k r _ ihr =>
    simp only [unique, Bool.and_eq_true, Bool.not_eq_true'] at h
    simp only [filter]
    split
    · simp only [unique, Bool.and_eq_true, Bool.not_eq_true']
      refine ⟨?_, ihr h.2⟩
      cases hh : (r.filter q).any (fun o' k' => graphEq o k o' k') with
      | false => rfl
      | true => rw [any_filter_imp _ _ _ hh] at h; exact absurd h.1 (by simp)
    · exact ihr h.2

/-- the branches handed to `ObserverGraph` are always pairwise different -/
theorem unique_dedupe (x : Forest) : x.dedupe.unique = true := by
  induction x with
  | nil => rfl
  | cons o k r _ ihr =>
    simp only [dedupe, unique, Bool.and_eq_true, Bool.not_eq_true']
    exact ⟨any_filter_not (fun o' k' => graphEq o k o' k') _, unique_filter _ _ ihr⟩

theorem wf_filter (q : Observer → Forest → Bool) (x : Forest) (h : x.wf = true) :
    (x.filter q).wf = true := by
  induction x with
  | nil => rfl
  | cons o k r _ ihr =>
    simp only [wf, Bool.and_eq_true] at h
    simp only [filter]
    split
    · simp [wf, h.1.1, h.1.2, ihr h.2]
    · exact ihr h.2

theorem wf_dedupe (x : Forest) (h : x.wf = true) : x.dedupe.wf = true := by
  induction x with
  | nil => rfl
  | cons o k r _ ihr =>
    simp only [wf, Bool.and_eq_true] at h
    simp [dedupe, wf, h.1.1, h.1.2, wf_filter _ _ (ihr h.2)]

theorem filter_not_eq_self (p : Observer → Forest → Bool) (x : Forest) (h : x.any p = false) :
    x.filter (fun o k => !p o k) = x := by
  induction x with
  | nil => rfl
  | cons o k r _ ihr =>
    simp only [any, Bool.or_eq_false_iff] at h
    simp [filter, h.1, ihr h.2]

/-- nothing to drop when the branches are already pairwise different -/
theorem dedupe_of_unique (x : Forest) (h : x.unique = true) : x.dedupe = x := by
  induction x with
  | nil => rfl
  | cons o k r _ ihr =>
    simp only [unique, Bool.and_eq_true, Bool.not_eq_true'] at h
    simp [dedupe, ihr h.2, filter_not_eq_self _ _ h.1]

end Forest

/-! ### `create` never fails; it returns `createD` -/

/-- **`_create_graphs` is total** (after fix 4a0994c): the uniqueness check of
`ObserverGraph.__init__` always passes. -/
theorem create_total (e : Expr) : ∀ br, create e br = .ok (createD e br) := by
  induction e with
  | single o => intro br; simp [create, createD, Forest.unique_dedupe]
  | series a b iha ihb => intro br; simp [create, createD, ihb br, iha]
  | parallel a b iha ihb => intro br; simp [create, createD, iha br, ihb br]

/-- every node of every compiled graph has pairwise different children
(the invariant `ObserverGraph` asks for) -/
theorem wf_createD (e : Expr) : ∀ br, br.wf = true → (createD e br).wf = true := by
  induction e with
  | single o =>
    intro br h
    simp [createD, Forest.wf, Forest.unique_dedupe, Forest.wf_dedupe br h]
  | series a b iha ihb => intro br h; exact iha _ (ihb br h)
  | parallel a b iha ihb => intro br h; simp [createD, Forest.wf_append, iha br h, ihb br h]

theorem createU_ne_nil (e : Expr) (br : Forest) : ∃ o k r, createU e br = .cons o k r := by
  induction e generalizing br with
  | single o => exact ⟨o, br, .nil, rfl⟩
  | series a b iha _ => exact iha _
  | parallel a b iha _ =>
    obtain ⟨o, k, r, h⟩ := iha br
    exact ⟨o, k, r ++ createU b br, by simp [createU, h]⟩

theorem tails_createU (e : Expr) (br : Forest) : (createU e br).tails = (createU e br).paths := by
  obtain ⟨o, k, r, h⟩ := createU_ne_nil e br
  rw [h]; rfl

theorem createD_ne_nil (e : Expr) (br : Forest) : ∃ o k r, createD e br = .cons o k r := by
  induction e generalizing br with
  | single o => exact ⟨o, br.dedupe, .nil, rfl⟩
  | series a b iha _ => exact iha _
  | parallel a b iha _ =>
    obtain ⟨o, k, r, h⟩ := iha br
    exact ⟨o, k, r ++ createD b br, by simp [createD, h]⟩

theorem tails_createD (e : Expr) (br : Forest) : (createD e br).tails = (createD e br).paths := by
  obtain ⟨o, k, r, h⟩ := createD_ne_nil e br
  rw [h]; rfl

/-- every expression hangs `br` below at least one node -/
theorem wf_createU_imp (e : Expr) : ∀ br, (createU e br).wf = true → br.unique = true ∧ br.wf = true := by
  induction e with
  | single o =>
    intro br h
    simpa [createU, Forest.wf] using h
  | series a b iha ihb =>
    intro br h
    have := iha _ h
    exact ihb _ this.2
  | parallel a b iha _ =>
    intro br h
    simp only [createU, Forest.wf_append, Bool.and_eq_true] at h
    exact iha _ h.1

/-- when the graphs as written have no node with two equal children, nothing is
dropped: the result is the graphs as written -/
theorem createD_eq_createU (e : Expr) : ∀ br, (createU e br).wf = true → createD e br = createU e br := by
  induction e with
  | single o =>
    intro br h
    have := wf_createU_imp (.single o) br h
    simp [createD, createU, Forest.dedupe_of_unique br this.1]
  | series a b iha ihb =>
    intro br h
    have hb := (wf_createU_imp a _ h).2
    simp only [createD, createU]
    rw [ihb br hb]
    exact iha _ h
  | parallel a b iha ihb =>
    intro br h
    simp only [createU, Forest.wf_append, Bool.and_eq_true] at h
    simp [createD, createU, iha br h.1, ihb br h.2]

/-! ### paths of the compiled graphs -/

/-- all concatenations -/
def crossO (ps qs : List (List Observer)) : List (List Observer) :=
  ps.flatMap (fun p => qs.map (fun q => p ++ q))

/-- the node sequences an expression stands for -/
def exprWords : Expr → List (List Observer)
  | .single o => [[o]]
  | .series a b => crossO (exprWords a) (exprWords b)
  | .parallel a b => exprWords a ++ exprWords b

theorem crossO_assoc (a b c : List (List Observer)) :
    crossO (crossO a b) c = crossO a (crossO b c) := by
  simp only [crossO, List.flatMap_assoc, List.map_flatMap, List.flatMap_map, List.map_map]
  congr 1; funext p
  congr 1; funext q
  simp [Function.comp_def, List.append_assoc]

theorem crossO_append_left (a b c : List (List Observer)) :
    crossO (a ++ b) c = crossO a c ++ crossO b c := by
  simp [crossO, List.flatMap_append]

theorem crossO_nilpath (a : List (List Observer)) : crossO a [[]] = a := by
  simp [crossO]

theorem paths_createU (e : Expr) : ∀ br, (createU e br).paths = crossO (exprWords e) br.tails := by
  induction e with
  | single o =>
    intro br
    simp [createU, Forest.paths_cons, exprWords, crossO, Forest.paths]
  | series a b iha ihb =>
    intro br
    simp only [createU, exprWords]
    rw [iha, tails_createU, ihb, crossO_assoc]
  | parallel a b iha ihb =>
    intro br
    simp only [createU, exprWords, Forest.paths_append, iha, ihb, crossO_append_left]

/-! ### equal graphs have the same paths; de-duplication keeps the path set -/

namespace Forest

/-- the graphs of a list, as (node, children) pairs -/
def elems : Forest → List (Observer × Forest)
  | nil => []
  | cons o k r => (o, k) :: elems r

theorem any_eq_elems (p : Observer → Forest → Bool) (f : Forest) :
    f.any p = f.elems.any (fun x => p x.1 x.2) := by
  induction f with
  | nil => rfl
  | cons o k r _ ihr => simp [any, elems, ihr]

theorem all_eq_elems (p : Observer → Forest → Bool) (f : Forest) :
    f.all p = f.elems.all (fun x => p x.1 x.2) := by
  induction f with
  | nil => rfl
  | cons o k r _ ihr => simp [all, elems, ihr]

theorem elems_filter (q : Observer → Forest → Bool) (f : Forest) :
    (f.filter q).elems = f.elems.filter (fun x => q x.1 x.2) := by
  induction f with
  | nil => rfl
  | cons o k r _ ihr =>
    simp only [filter, elems]
    by_cases h : q o k = true
    · simp [h, elems, ihr]
    · have h' : q o k = false := by simpa using h
      simp [h', ihr]

theorem mem_paths {f : Forest} {p : List Observer} :
    p ∈ f.paths ↔ ∃ x ∈ f.elems, ∃ q ∈ tails x.2, p = x.1 :: q := by
  induction f with
  | nil => simp [paths, elems]
  | cons o k r _ ihr =>
    rw [paths_cons, List.mem_append, ihr]
    simp only [elems, List.mem_cons, List.mem_map]
    constructor
    · rintro (⟨q, hq, rfl⟩ | ⟨x, hx, q, hq, rfl⟩)
      · exact ⟨(o, k), .inl rfl, q, hq, rfl⟩
      · exact ⟨x, .inr hx, q, hq, rfl⟩
    · rintro ⟨x, (rfl | hx), q, hq, rfl⟩
      · exact .inl ⟨q, hq, rfl⟩
      · exact .inr ⟨x, hx, q, hq, rfl⟩

theorem depth_elem {f : Forest} {x : Observer × Forest} (h : x ∈ f.elems) :
    x.2.depth + 1 ≤ f.depth := by
  induction f with
  | nil => simp [elems] at h
  | cons o k r _ ihr =>
    simp only [elems, List.mem_cons] at h
    simp only [depth]
    rcases h with rfl | h
    · exact Nat.le_max_left _ _
    · exact Nat.le_trans (ihr h) (Nat.le_max_right _ _)

theorem tails_ne_nil (f : Forest) : f.tails ≠ [] := by
  induction f with
  | nil => simp [tails]
  | cons o k r ihk _ =>
    have : (cons o k r).tails = (cons o k r).paths := rfl
    rw [this, paths_cons]
    cases h : k.tails with
    | nil => exact absurd h ihk
    | cons a l => simp

theorem depth_le_zero {f : Forest} (h : f.depth ≤ 0) : f = nil := by
  cases f with
  | nil => rfl
  | cons o k r => simp only [depth] at h; omega

/-- `set(f1) == set(f2)` (enough fuel) ⇒ the same continuations below -/
theorem setEq_tails : ∀ (d : Nat) (f1 f2 : Forest), f1.depth ≤ d → f2.depth ≤ d →
    setEq d f1 f2 = true → ∀ p, p ∈ f1.tails ↔ p ∈ f2.tails := by
  intro d
  induction d with
  | zero =>
    intro f1 f2 h1 h2 _ p
    rw [depth_le_zero h1, depth_le_zero h2]
  | succ d ih =>
    intro f1 f2 h1 h2 h p
    simp only [setEq, Bool.and_eq_true, all_eq_elems, any_eq_elems, List.all_eq_true,
      List.any_eq_true, beq_iff_eq] at h
    obtain ⟨hA, hB⟩ := h
    -- the same paths
    have hp : ∀ p, p ∈ f1.paths ↔ p ∈ f2.paths := by
      intro p
      rw [mem_paths, mem_paths]
      constructor
      · rintro ⟨x, hx, q, hq, rfl⟩
        obtain ⟨y, hy, hxy, he⟩ := hA x hx
        have dx := depth_elem hx
        have dy := depth_elem hy
        exact ⟨y, hy, q, (ih x.2 y.2 (by omega) (by omega) he q).mp hq, by rw [hxy]⟩
      · rintro ⟨y, hy, q, hq, rfl⟩
        obtain ⟨x, hx, hxy, he⟩ := hB y hy
        have dx := depth_elem hx
        have dy := depth_elem hy
        exact ⟨x, hx, q, (ih x.2 y.2 (by omega) (by omega) he q).mpr hq, by rw [hxy]⟩
    cases f1 with
    | nil =>
      cases f2 with
      | nil => rfl
      | cons o k r =>
        exfalso
        have hne := tails_ne_nil (cons o k r)
        cases hh : (cons o k r).tails with
        | nil => exact hne hh
        | cons a l =>
          have : a ∈ (cons o k r).paths := by
            have : (cons o k r).tails = (cons o k r).paths := rfl
            rw [← this, hh]; simp
          have := (hp a).mpr this
          simp [paths] at this
    | cons o k r =>
      cases f2 with
      | nil =>
        exfalso
        have hne := tails_ne_nil (cons o k r)
        cases hh : (cons o k r).tails with
        | nil => exact hne hh
        | cons a l =>
          have : a ∈ (cons o k r).paths := by
            have : (cons o k r).tails = (cons o k r).paths := rfl
            rw [← this, hh]; simp
          have := (hp a).mp this
          simp [paths] at this
      | cons o' k' r' => exact hp p

/-- `ObserverGraph.__eq__` ⇒ same node and same continuations -/
theorem graphEq_tails {o o' : Observer} {k k' : Forest} (h : graphEq o k o' k' = true) :
    o = o' ∧ ∀ q, q ∈ k.tails ↔ q ∈ k'.tails := by
  simp only [graphEq, Bool.and_eq_true, beq_iff_eq] at h
  exact ⟨h.1, setEq_tails _ k k' (by omega) (by omega) h.2⟩

theorem mem_paths_filter {q : Observer → Forest → Bool} {f : Forest} {p : List Observer}
    (h : p ∈ (f.filter q).paths) : p ∈ f.paths := by
  rw [mem_paths] at h ⊢
  obtain ⟨x, hx, t, ht, rfl⟩ := h
  rw [elems_filter, List.mem_filter] at hx
  exact ⟨x, hx.1, t, ht, rfl⟩

/-- dropping graphs equal to an earlier one does not change the set of paths -/
theorem mem_paths_dedupe (f : Forest) : ∀ p, p ∈ f.dedupe.paths ↔ p ∈ f.paths := by
  induction f with
  | nil => intro p; rfl
  | cons o k r _ ihr =>
    intro p
    simp only [dedupe]
    rw [paths_cons, paths_cons, List.mem_append, List.mem_append]
    constructor
    · rintro (h | h)
      · exact .inl h
      · exact .inr ((ihr p).mp (mem_paths_filter h))
    · rintro (h | h)
      · exact .inl h
      · have := (ihr p).mpr h
        rw [mem_paths] at this
        obtain ⟨x, hx, t, ht, rfl⟩ := this
        by_cases hg : graphEq o k x.1 x.2 = true
        · obtain ⟨e, hq⟩ := graphEq_tails hg
          left
          rw [List.mem_map]
          exact ⟨t, (hq t).mpr ht, by rw [e]⟩
        · right
          rw [mem_paths]
          refine ⟨x, ?_, t, ht, rfl⟩
          rw [elems_filter, List.mem_filter]
          exact ⟨hx, by simpa using hg⟩

theorem mem_tails_dedupe (f : Forest) : ∀ p, p ∈ f.dedupe.tails ↔ p ∈ f.tails := by
  cases f with
  | nil => intro p; rfl
  | cons o k r => exact mem_paths_dedupe (cons o k r)

end Forest

theorem mem_crossO {a t : List (List Observer)} {p : List Observer} :
    p ∈ crossO a t ↔ ∃ w ∈ a, ∃ q ∈ t, p = w ++ q := by
  simp only [crossO, List.mem_flatMap, List.mem_map]
  constructor
  · rintro ⟨w, hw, q, hq, rfl⟩; exact ⟨w, hw, q, hq, rfl⟩
  · rintro ⟨w, hw, q, hq, rfl⟩; exact ⟨w, hw, q, hq, rfl⟩

/-- the paths of the compiled graphs, as a set: every word of the expression
followed by every continuation below -/
theorem mem_paths_createD (e : Expr) : ∀ br p,
    p ∈ (createD e br).paths ↔ p ∈ crossO (exprWords e) br.tails := by
  induction e with
  | single o =>
    intro br p
    simp only [createD, Forest.paths_cons, Forest.paths, List.append_nil, List.mem_map, exprWords,
      mem_crossO, List.mem_singleton]
    constructor
    · rintro ⟨q, hq, rfl⟩
      exact ⟨[o], rfl, q, (Forest.mem_tails_dedupe br q).mp hq, rfl⟩
    · rintro ⟨w, rfl, q, hq, rfl⟩
      exact ⟨q, (Forest.mem_tails_dedupe br q).mpr hq, rfl⟩
  | series a b iha ihb =>
    intro br p
    simp only [createD, exprWords]
    rw [iha, tails_createD, crossO_assoc, mem_crossO, mem_crossO]
    constructor
    · rintro ⟨w, hw, q, hq, rfl⟩; exact ⟨w, hw, q, (ihb br q).mp hq, rfl⟩
    · rintro ⟨w, hw, q, hq, rfl⟩; exact ⟨w, hw, q, (ihb br q).mpr hq, rfl⟩
  | parallel a b iha ihb =>
    intro br p
    simp only [createD, exprWords, Forest.paths_append, List.mem_append, crossO_append_left,
      iha br p, ihb br p]

/-! ### the list form: item by item -/

theorem compileItem_error (uw : Char → Bool) (it : Item) (e : Exc)
    (h : compileItem uw it = .error e) : e = .valueError ∧ ∃ s, it = .text s ∧ parseChars uw s = none := by
  cases it with
  | text s =>
    simp only [compileItem, compileChars] at h
    cases hp : parseChars uw s with
    | none => rw [hp] at h; cases h; exact ⟨rfl, s, rfl, hp⟩
    | some c =>
      rw [hp] at h
      simp only [compileExpr, create_total] at h
      cases h
  | expr x =>
    simp only [compileItem, compileExpr, create_total] at h
    cases h

/-- a list is rejected iff one of its items is -/
theorem compileItems_error (uw : Char → Bool) (items : List Item) :
    (∃ e, compileItems uw items = .error e) ↔ ∃ it ∈ items, ∃ e, compileItem uw it = .error e := by
  induction items with
  | nil => simp [compileItems]
  | cons it rest ih =>
    simp only [compileItems, List.mem_cons, exists_eq_or_imp]
    cases hi : compileItem uw it with
    | error e => simp
    | ok g =>
      cases hr : compileItems uw rest with
      | error e =>
        have := ih.mp ⟨e, hr⟩
        simp [this]
      | ok gs =>
        have : ¬ ∃ it ∈ rest, ∃ e, compileItem uw it = .error e := fun h => by
          obtain ⟨e, he⟩ := ih.mpr h
          rw [hr] at he; cases he
        simp [this]

/-- … and otherwise denotes the union of what its items denote -/
theorem compileItems_paths (uw : Char → Bool) (items : List Item) (gs : Forest)
    (h : compileItems uw items = .ok gs) :
    ∀ p, p ∈ gs.paths ↔ ∃ it ∈ items, ∃ g, compileItem uw it = .ok g ∧ p ∈ g.paths := by
  induction items generalizing gs with
  | nil =>
    simp only [compileItems] at h
    cases h
    intro p; simp [Forest.paths]
  | cons it rest ih =>
    simp only [compileItems] at h
    cases hi : compileItem uw it with
    | error e => rw [hi] at h; cases h
    | ok g =>
      rw [hi] at h
      cases hr : compileItems uw rest with
      | error e => rw [hr] at h; cases h
      | ok gr =>
        rw [hr] at h
        cases h
        intro p
        rw [Forest.paths_append, List.mem_append, ih gr hr p]
        simp only [List.mem_cons, exists_eq_or_imp, hi, Except.ok.injEq, exists_eq_left']

/-! ### the code's notify propagation is the documented notify law -/

theorem notifies_some (c : Conn) : notifies (some c) = (c == .notify) := by
  cases c <;> rfl

theorem map_cross (ps qs : List Word) :
    (cross ps qs).map (·.map flag) = crossO (ps.map (·.map flag)) (qs.map (·.map flag)) := by
  simp [cross, crossO, List.map_flatMap, List.flatMap_map, Function.comp_def]

/-- `_handle_tree(tree, notify)` denotes the words of the tree flagged by the
following connector, when `notify` is what the law says for that follower. -/
theorem exprWords_toExpr (c : Cst) : ∀ (f : Option Conn),
    exprWords (toExpr c (notifies f)) = (lin c f).map (·.map flag) := by
  induction c with
  | trait n => intro f; simp [toExpr, exprWords, lin, flag]
  | items => intro f; simp [toExpr, itemsExpr, exprWords, lin, flag]
  | metadata n => intro f; simp [toExpr, exprWords, lin, flag]
  | any => intro f; simp [toExpr, exprWords, lin, flag]
  | group p ih => intro f; simpa [toExpr, lin] using ih f
  | ser l c r ihl ihr =>
    intro f
    simp only [toExpr, exprWords, lin, map_cross]
    rw [← notifies_some, ihl, ihr]
  | par l r ihl ihr =>
    intro f
    simp only [toExpr, exprWords, lin, List.map_append]
    rw [ihl, ihr]


/-! ### shape of the words: the last atom carries the follower of the whole
expression, every other atom is followed by a connector -/

def Observer.notifyFlag : Observer → Bool
  | .named _ n _ => n
  | .listItems n _ => n
  | .dictItems n _ => n
  | .setItems n _ => n
  | .filtered n _ => n

def Observer.optionalFlag : Observer → Bool
  | .named _ _ o => o
  | .listItems _ o => o
  | .dictItems _ o => o
  | .setItems _ o => o
  | .filtered _ _ => false

/-- `w = init ++ [(a, f)]` with every atom of `init` followed by a connector -/
def WordOk (f : Option Conn) (w : Word) : Prop :=
  ∃ (init : Word) (a : Atom), w = init ++ [(a, f)] ∧ ∀ x ∈ init, ∃ cn, x.2 = some cn

theorem lin_wordOk (c : Cst) : ∀ f, ∀ w ∈ lin c f, WordOk f w := by
  induction c with
  | trait n => intro f w hw; simp [lin] at hw; subst hw; exact ⟨[], _, rfl, by simp⟩
  | items =>
    intro f w hw
    simp [lin] at hw
    rcases hw with rfl | rfl | rfl | rfl <;> exact ⟨[], _, rfl, by simp⟩
  | metadata n => intro f w hw; simp [lin] at hw; subst hw; exact ⟨[], _, rfl, by simp⟩
  | any => intro f w hw; simp [lin] at hw; subst hw; exact ⟨[], _, rfl, by simp⟩
  | group p ih => intro f w hw; exact ih f w (by simpa [lin] using hw)
  | ser l cn r ihl ihr =>
    intro f w hw
    simp only [lin, cross, List.mem_flatMap, List.mem_map] at hw
    obtain ⟨p, hp, q, hq, rfl⟩ := hw
    obtain ⟨ip, ap, rfl, hip⟩ := ihl _ p hp
    obtain ⟨iq, aq, rfl, hiq⟩ := ihr _ q hq
    refine ⟨ip ++ [(ap, some cn)] ++ iq, aq, by simp, ?_⟩
    intro x hx
    simp only [List.append_assoc, List.mem_append, List.mem_cons, List.not_mem_nil, or_false] at hx
    rcases hx with hx | rfl | hx
    · exact hip x hx
    · exact ⟨cn, rfl⟩
    · exact hiq x hx
  | par l r ihl ihr =>
    intro f w hw
    simp only [lin, List.mem_append] at hw
    rcases hw with hw | hw
    · exact ihl f w hw
    · exact ihr f w hw

/-- the flag the documentation gives: notify iff not followed by `:` -/
theorem flag_notify (a : Atom) (f : Option Conn) :
    (flag (a, f)).notifyFlag = decide (f ≠ some .quiet) := by
  cases a <;> cases f with
  | none => rfl
  | some c => cases c <;> rfl

/-- optional exactly for the four alternatives of `items` -/
theorem flag_optional (a : Atom) (f : Option Conn) :
    (flag (a, f)).optionalFlag =
      (a == .itemsTrait || a == .dictItems || a == .listItems || a == .setItems) := by
  cases a <;> rfl

/-! ### spellings -/

/-- Same expression up to redundant brackets and re-association of `.`/`:`
chains and of `,` lists (whitespace is not part of a tree). -/
inductive Cst.Equiv : Cst → Cst → Prop
  | refl (c) : Cst.Equiv c c
  | symm {a b} : Cst.Equiv a b → Cst.Equiv b a
  | trans {a b c} : Cst.Equiv a b → Cst.Equiv b c → Cst.Equiv a c
  | unbracket (p) : Cst.Equiv (.group p) p
  | serAssoc (a c1 b c2 c) : Cst.Equiv (.ser (.ser a c1 b) c2 c) (.ser a c1 (.ser b c2 c))
  | parAssoc (a b c) : Cst.Equiv (.par (.par a b) c) (.par a (.par b c))
  | group {p q} : Cst.Equiv p q → Cst.Equiv (.group p) (.group q)
  | ser {l l' r r'} (c) : Cst.Equiv l l' → Cst.Equiv r r' → Cst.Equiv (.ser l c r) (.ser l' c r')
  | par {l l' r r'} : Cst.Equiv l l' → Cst.Equiv r r' → Cst.Equiv (.par l r) (.par l' r')

theorem create_equiv {a b : Cst} (h : Cst.Equiv a b) :
    ∀ (n : Bool) (br : Forest), create (toExpr a n) br = create (toExpr b n) br := by
  induction h with
  | refl c => intros; rfl
  | symm _ ih => intro n br; exact (ih n br).symm
  | trans _ _ ih1 ih2 => intro n br; exact (ih1 n br).trans (ih2 n br)
  | unbracket p => intros; rfl
  | serAssoc a c1 b c2 c =>
    intro n br
    simp only [toExpr, create]
    cases create (toExpr c n) br with
    | error e => rfl
    | ok x =>
      cases create (toExpr b (c2 == .notify)) x <;> rfl
  | parAssoc a b c =>
    intro n br
    simp only [toExpr, create]
    cases create (toExpr a n) br with
    | error e => rfl
    | ok x =>
      cases create (toExpr b n) br with
      | error e => rfl
      | ok y =>
        cases create (toExpr c n) br with
        | error e => rfl
        | ok z => simp [Forest.append_assoc]
  | group _ ih => intro n br; simpa [toExpr] using ih n br
  | ser c _ _ ihl ihr =>
    intro n br
    simp only [toExpr, create]
    rw [ihr n br]
    cases create (toExpr _ n) br with
    | error e => rfl
    | ok x => exact ihl _ x
  | par _ _ ihl ihr =>
    intro n br
    simp only [toExpr, create]
    rw [ihl n br, ihr n br]

end TraitsVerif.Model.Dsl
