/-
Histories on one mutual link between two traits `p` and `q` (the "two-sided
histories" of property C20): with compatible validators, every reachable state
has empty lock tables, and while the link exists both sides hold the same
value — the same list, after every in-place mutation of either list.
-/
import TraitsVerif.Lemmas.SyncShapes
import TraitsVerif.Lemmas.SyncItems
namespace TraitsVerif.Model.Sync
open TraitsVerif TraitsVerif.Py TraitsVerif.Model
variable {α : Type}

/-- The validators of the two traits agree on what they store: what one of
them returns, both store unchanged (e.g. the same idempotent validator). -/
structure Compat (E : Env α) (p q : Pair) : Prop where
  ne : p ≠ q
  kind : E.isList p = E.isList q
  spq : ∀ x y, E.sv p 0 x = .ok y → E.sv q 0 y = .ok y ∧ E.sv p 0 y = .ok y
  sqp : ∀ x y, E.sv q 0 x = .ok y → E.sv p 0 y = .ok y ∧ E.sv q 0 y = .ok y
  ipq : ∀ k x y, E.iv p k x = .ok y → ∀ k', E.iv q k' y = .ok y ∧ E.iv p k' y = .ok y
  iqp : ∀ k x y, E.iv q k x = .ok y → ∀ k', E.iv p k' y = .ok y ∧ E.iv q k' y = .ok y
  sort : ∀ sp l, (E.sort sp l).Perm l

theorem Compat.symm {E : Env α} {p q : Pair} (h : Compat E p q) : Compat E q p :=
  ⟨h.ne.symm, h.kind.symm, h.sqp, h.spq, h.iqp, h.ipq, h.sort⟩

/-- A value of the right shape that both traits store unchanged. -/
def GoodVal (E : Env α) (p q : Pair) : AVal α → Prop
  | .s x => E.isList p = false ∧ E.sv p 0 x = .ok x ∧ E.sv q 0 x = .ok x
  | .l xs => E.isList p = true ∧ ∀ x ∈ xs, ∀ k, E.iv p k x = .ok x ∧ E.iv q k x = .ok x

theorem GoodVal.symm {E : Env α} {p q : Pair} (hc : Compat E p q) {v : AVal α} (h : GoodVal E p q v) :
    GoodVal E q p v := by
  cases v with
  | s x => exact ⟨by rw [← hc.kind]; exact h.1, h.2.2, h.2.1⟩
  | l xs => exact ⟨by rw [← hc.kind]; exact h.1, fun x hx k => ⟨(h.2 x hx k).2, (h.2 x hx k).1⟩⟩

theorem GoodVal.validate_p {E : Env α} {p q : Pair} {v : AVal α} (h : GoodVal E p q v) :
    validate E p v = .ok v := by
  cases v with
  | s x => simp [validate, h.1, h.2.1]
  | l xs => simp [validate, h.1, valAll_fix xs 0 (fun x hx k => (h.2 x hx k).1)]

theorem GoodVal.validate_q {E : Env α} {p q : Pair} (hc : Compat E p q) {v : AVal α} (h : GoodVal E p q v) :
    validate E q v = .ok v := (h.symm hc).validate_p

/-- What `p`'s trait makes of any value is good. -/
theorem good_of_validate {E : Env α} {p q : Pair} (hc : Compat E p q) {v y : AVal α}
    (h : validate E p v = .ok y) : GoodVal E p q y := by
  cases v with
  | s x =>
    simp only [validate] at h
    split at h
    · cases h
    · rename_i hl
      split at h
      · cases h
      · rename_i y' hy'
        cases h
        have := hc.spq x y' hy'
        exact ⟨by simpa using hl, this.2, this.1⟩
  | l xs =>
    simp only [validate] at h
    split at h
    · rename_i hl
      split at h
      · cases h
      · rename_i ys hys
        cases h
        refine ⟨hl, fun x hx k => ?_⟩
        obtain ⟨k0, a, ha⟩ := valAll_mem hys x hx
        have := hc.ipq k0 a x ha k
        exact ⟨this.2, this.1⟩
    · cases h

/-- The list inside a good value of a list trait. -/
theorem GoodVal.list {E : Env α} {p q : Pair} {w : World α} {r : Pair} (h : GoodVal E p q (w.val r))
    (hl : E.isList p = true) : w.val r = .l (w.list r) := by
  unfold World.list
  cases hv : w.val r with
  | s x => rw [hv] at h; rw [h.1] at hl; cases hl
  | l xs => rfl

/-! ### Propagation from a trait without partners -/

variable {π : Type}

theorem cascade_no_partners {apply : World α → Pair → π → Except Exc (World α × Option α × Option π)}
    (hl : Local apply) {d : Nat} {w w1 : World α} {p : Pair} {x : π} {r : Option α} {y : Option π}
    (hp : w.partners p = []) (happ : apply w p x = .ok (w1, r, y)) :
    cascade apply (d + 1) w p x = .ok (w1, r) := by
  rw [cascade_succ, happ]
  cases y with
  | none => rfl
  | some y =>
    simp only
    rw [partners_congr (hl.edges happ) p, hp]
    rfl

/-! ### The invariant -/

/-- State of a world whose only links are the two halves of one mutual link
between `p` and `q` (or none). -/
structure TwoSided (E : Env α) (p q : Pair) (w : World α) : Prop where
  locked : w.locked = []
  edges : ∀ e ∈ w.edges, e = ⟨p, q⟩ ∨ e = ⟨q, p⟩
  nodup : w.edges.Nodup
  both : (⟨p, q⟩ : Edge) ∈ w.edges ↔ (⟨q, p⟩ : Edge) ∈ w.edges
  hookp : E.isList p = true → (⟨p, q⟩ : Edge) ∈ w.edges → p ∈ w.hooked
  hookq : E.isList q = true → (⟨q, p⟩ : Edge) ∈ w.edges → q ∈ w.hooked
  conv : (⟨p, q⟩ : Edge) ∈ w.edges → w.val p = w.val q
  goodp : GoodVal E p q (w.val p)
  goodq : GoodVal E p q (w.val q)

theorem TwoSided.symm {E : Env α} {p q : Pair} {w : World α} (hc : Compat E p q) (h : TwoSided E p q w) :
    TwoSided E q p w :=
  { locked := h.locked
    edges := fun e he => (h.edges e he).symm
    nodup := h.nodup
    both := h.both.symm
    hookp := h.hookq
    hookq := h.hookp
    conv := fun he => (h.conv (h.both.mpr he)).symm
    goodp := h.goodq.symm hc
    goodq := h.goodp.symm hc }

theorem nodup_all_eq {β : Type} (l : List β) (a : β) (hnd : l.Nodup) (hall : ∀ x ∈ l, x = a) :
    l = [] ∨ l = [a] := by
  cases l with
  | nil => exact Or.inl rfl
  | cons x xs =>
    right
    have hx : x = a := hall x (by simp)
    cases xs with
    | nil => rw [hx]
    | cons y ys =>
      have hy : y = a := hall y (by simp)
      rw [List.nodup_cons] at hnd
      exact absurd (by rw [hx, hy]; simp) hnd.1

theorem TwoSided.partners_p {E : Env α} {p q : Pair} {w : World α} (hc : Compat E p q) (h : TwoSided E p q w) :
    ((⟨p, q⟩ : Edge) ∈ w.edges → w.partners p = [q]) ∧ ((⟨p, q⟩ : Edge) ∉ w.edges → w.partners p = []) := by
  have hF : ∀ x ∈ w.edges.filter (fun e => e.src = p), x = (⟨p, q⟩ : Edge) := by
    intro x hx
    obtain ⟨hx1, hx2⟩ := List.mem_filter.mp hx
    rcases h.edges x hx1 with rfl | rfl
    · rfl
    · simp only [decide_eq_true_eq] at hx2; exact absurd hx2 hc.ne.symm
  have hnd : (w.edges.filter (fun e => e.src = p)).Nodup := h.nodup.sublist (List.filter_sublist)
  rcases nodup_all_eq _ _ hnd hF with h0 | h1
  · refine ⟨fun he => ?_, fun _ => by simp [World.partners, h0]⟩
    have : (⟨p, q⟩ : Edge) ∈ w.edges.filter (fun e => e.src = p) := List.mem_filter.mpr ⟨he, by simp⟩
    rw [h0] at this; cases this
  · refine ⟨fun _ => by simp [World.partners, h1], fun hne => ?_⟩
    have : (⟨p, q⟩ : Edge) ∈ w.edges.filter (fun e => e.src = p) := by rw [h1]; simp
    exact absurd (List.mem_filter.mp this).1 hne

theorem TwoSided.partners_q {E : Env α} {p q : Pair} {w : World α} (hc : Compat E p q) (h : TwoSided E p q w) :
    ((⟨q, p⟩ : Edge) ∈ w.edges → w.partners q = [p]) ∧ ((⟨q, p⟩ : Edge) ∉ w.edges → w.partners q = []) :=
  (h.symm hc).partners_p hc.symm

theorem TwoSided.partners_other {E : Env α} {p q : Pair} {w : World α} (h : TwoSided E p q w) (r : Pair)
    (hrp : r ≠ p) (hrq : r ≠ q) : w.partners r = [] := by
  have : w.edges.filter (fun e => e.src = r) = [] := by
    apply List.filter_eq_nil_iff.mpr
    intro x hx
    simp only [decide_eq_true_eq]
    rcases h.edges x hx with rfl | rfl
    · exact fun e => hrp e.symm
    · exact fun e => hrq e.symm
  simp [World.partners, this]

/-- The propagation from `p` reaches `p` and (if linked) `q`, each once. -/
theorem TwoSided.noRevisit {E : Env α} {p q : Pair} {w : World α} (hc : Compat E p q) (h : TwoSided E p q w)
    (he : (⟨p, q⟩ : Edge) ∈ w.edges) : (visit w.edges w.budget [] p).Nodup := by
  have hp := (h.partners_p hc).1 he
  have hq := (h.partners_q hc).1 (h.both.mp he)
  have hpos : 0 < w.edges.length := List.length_pos_of_mem he
  obtain ⟨d, hd⟩ : ∃ d, w.budget = d + 2 := ⟨w.edges.length - 1, by simp only [World.budget]; omega⟩
  rw [hd]
  unfold World.partners at hp hq
  apply visit_hub_nodup
  · rw [hp]; simp
  · rw [hp]; simpa using hc.ne
  · intro t ht u hu
    rw [hp] at ht
    simp only [List.mem_singleton] at ht
    subst ht
    rw [hq] at hu
    simpa using hu

/-- Every link leads to `p` or `q`, which both store a good value unchanged. -/
theorem TwoSided.fix {E : Env α} {p q : Pair} {w : World α} (hc : Compat E p q) (h : TwoSided E p q w)
    {y : AVal α} (hy : GoodVal E p q y) : Fix E w.edges y := by
  intro e he
  rcases h.edges e he with rfl | rfl
  · exact Or.inl (hy.validate_q hc)
  · exact Or.inl hy.validate_p

/-! ### Preservation, command by command -/

theorem TwoSided.transfer {E : Env α} {p q : Pair} {w w' : World α} (h : TwoSided E p q w)
    (ht : SameTabs w w') (hconv : (⟨p, q⟩ : Edge) ∈ w.edges → w'.val p = w'.val q)
    (hgp : GoodVal E p q (w'.val p)) (hgq : GoodVal E p q (w'.val q)) : TwoSided E p q w' :=
  { locked := by rw [ht.2.1]; exact h.locked
    edges := by rw [ht.1]; exact h.edges
    nodup := by rw [ht.1]; exact h.nodup
    both := by rw [ht.1]; exact h.both
    hookp := by rw [ht.1, ht.2.2]; exact h.hookp
    hookq := by rw [ht.1, ht.2.2]; exact h.hookq
    conv := by rw [ht.1]; exact hconv
    goodp := hgp
    goodq := hgq }

/-- A command on a trait without partners touches that trait only. -/
theorem finish_no_partners {π : Type}
    {apply : World α → Pair → π → Except Exc (World α × Option α × Option π)} (hl : Local apply)
    (w : World α) (r : Pair) (x : π) (d : Nat) (hr : w.partners r = []) :
    SameTabs w (finish w (cascade apply (d + 1) w r x)).world ∧
      ∀ t, t ≠ r → (finish w (cascade apply (d + 1) w r x)).world.val t = w.val t := by
  cases happ : apply w r x with
  | error e =>
    rw [cascade_succ_error.mpr happ]
    exact ⟨SameTabs.refl _, fun _ _ => rfl⟩
  | ok res =>
    obtain ⟨w1, ret, y⟩ := res
    rw [cascade_no_partners hl hr happ]
    exact ⟨⟨hl.edges happ, hl.locked happ, hl.hooked happ⟩, fun t ht => hl.val happ t ht⟩

theorem TwoSided.assign_other [DecidableEq α] {E : Env α} {p q : Pair} {w : World α}
    (h : TwoSided E p q w) (r : Pair) (v : AVal α) (hrp : r ≠ p) (hrq : r ≠ q) :
    TwoSided E p q (w.assign E r v).world := by
  have := finish_no_partners (local_assign E) w r v w.edges.length (h.partners_other r hrp hrq)
  have hp := this.2 p hrp.symm
  have hq := this.2 q hrq.symm
  unfold World.assign World.budget
  exact h.transfer this.1 (fun he => by rw [hp, hq]; exact h.conv he) (by rw [hp]; exact h.goodp)
    (by rw [hq]; exact h.goodq)

theorem TwoSided.mutate_other {E : Env α} {p q : Pair} {w : World α}
    (h : TwoSided E p q w) (r : Pair) (op : Op α) (hrp : r ≠ p) (hrq : r ≠ q) :
    TwoSided E p q (w.mutate E r op).world := by
  have := finish_no_partners (local_mutate E) w r op w.edges.length (h.partners_other r hrp hrq)
  have hp := this.2 p hrp.symm
  have hq := this.2 q hrq.symm
  unfold World.mutate World.budget
  exact h.transfer this.1 (fun he => by rw [hp, hq]; exact h.conv he) (by rw [hp]; exact h.goodp)
    (by rw [hq]; exact h.goodq)

/-- Assignment to one side. -/
theorem TwoSided.assign_p [DecidableEq α] {E : Env α} {p q : Pair} {w : World α} (hc : Compat E p q)
    (h : TwoSided E p q w) (v : AVal α) : TwoSided E p q (w.assign E p v).world := by
  cases hv : validate E p v with
  | error e =>
    have hexc : (w.assign E p v).exc = some e := by rw [assign_exc, hv]
    rw [assign_error_world E w p v e hexc]; exact h
  | ok y =>
    have hy : GoodVal E p q y := good_of_validate hc hv
    have hfix := h.fix hc hy
    have htabs := assign_sameTabs E w p v (by simp [h.locked])
    by_cases he : (⟨p, q⟩ : Edge) ∈ w.edges
    · obtain ⟨_, hp', hq', _⟩ := assign_converges E w p q v y h.locked he hv hfix (hy.validate_q hc)
        (Or.inr (h.conv he).symm)
      exact h.transfer htabs (fun _ => by rw [hp', hq']) (by rw [hp']; exact hy) (by rw [hq']; exact hy)
    · have hnp := (h.partners_p hc).2 he
      have hfin := finish_no_partners (local_assign E) w p v w.edges.length hnp
      obtain ⟨w', ret, hcas, hw'⟩ := assign_sets w.edges.length w p v hfix hv
      have hq' : (w.assign E p v).world.val q = w.val q := by
        unfold World.assign World.budget; exact hfin.2 q hc.ne.symm
      have hp' : (w.assign E p v).world.val p = y := by
        unfold World.assign World.budget; rw [hcas]; exact hw'
      exact h.transfer htabs (fun he' => absurd he' he) (by rw [hp']; exact hy) (by rw [hq']; exact h.goodq)

theorem mutate_error_world (E : Env α) (w : World α) (p : Pair) (op : Op α)
    (h : ∃ e, cascade (applyMutate E) w.budget w p op = .error e) : (w.mutate E p op).world = w := by
  obtain ⟨e, he⟩ := h
  unfold World.mutate; rw [he]; rfl

/-- In-place mutation of one side. -/
theorem TwoSided.mutate_p {E : Env α} {p q : Pair} {w : World α} (hc : Compat E p q)
    (h : TwoSided E p q w) (op : Op α) : TwoSided E p q (w.mutate E p op).world := by
  by_cases hl : E.isList p = true
  swap
  · rw [mutate_error_world E w p op ⟨.typeError, by
      unfold World.budget; rw [cascade_succ_error]; simp [applyMutate, hl]⟩]
    exact h
  cases hs : listStep (E.tl p) (w.list p) op with
  | error e =>
    rw [mutate_error_world E w p op ⟨e, by
      unfold World.budget; rw [cascade_succ_error]; simp [applyMutate, hl, hs]⟩]
    exact h
  | ok o =>
    have hvalp : w.val p = .l (w.list p) := h.goodp.list hl
    have hstep := listStep_ok hs
    have hsrc := step_src (E.tl p) hc.sort (w.list p) op o hstep
    have hgood_old : ∀ x ∈ w.list p, ∀ k, E.iv p k x = .ok x ∧ E.iv q k x = .ok x := by
      have := h.goodp; rw [hvalp] at this; exact this.2
    have hgood_src : ∀ x, Src (E.tl p).v (w.list p) x → ∀ k, E.iv p k x = .ok x ∧ E.iv q k x = .ok x := by
      intro x hx k
      rcases hx with hx | ⟨k0, a, ha⟩
      · exact hgood_old x hx k
      · have := hc.ipq k0 a x ha k; exact ⟨this.2, this.1⟩
    have hy : GoodVal E p q (.l o.items) := ⟨hl, fun x hx k => hgood_src x (hsrc.1 x hx) k⟩
    cases hev : o.event with
    | none =>
      have happ : applyMutate E w p op = .ok ({ w with val := upd w.val p (.l o.items) }, o.ret, none) := by
        simp [applyMutate, hl, hs, hev]
      have hw : w.mutate E p op = { world := { w with val := upd w.val p (.l o.items) }, ret := o.ret } := by
        unfold World.mutate World.budget; rw [cascade_succ, happ]; rfl
      have hitems : o.items = w.list p := step_silent (E.tl p) hc.sort (w.list p) op o hstep hev
      rw [hw]
      refine h.transfer ⟨rfl, rfl, rfl⟩ (fun he => ?_) ?_ ?_
      · simp only [upd, if_true, if_neg hc.ne.symm, hitems, ← hvalp]; exact h.conv he
      · simp only [upd, if_true]; exact hy
      · simp only [upd, if_neg hc.ne.symm]; exact h.goodq
    | some e =>
      have htabs := mutate_sameTabs E w p op (by simp [h.locked])
      by_cases he : (⟨p, q⟩ : Edge) ∈ w.edges
      · have heq : w.list q = w.list p := by simp [World.list, (h.conv he).symm]
        have hfixv : valAll (E.iv q) 0 e.added = .ok e.added :=
          valAll_fix e.added 0 (fun x hx k => (hgood_src x (hsrc.2 e hev x hx) k).2)
        obtain ⟨_, _, hp', hq'⟩ := mutate_converges E w p q op o e h.locked he hl (by rw [← hc.kind]; exact hl)
          (h.hookp hl he) hs hev heq hfixv (h.noRevisit hc he)
        exact h.transfer htabs (fun _ => by rw [hp', hq']) (by rw [hp']; exact hy) (by rw [hq']; exact hy)
      · have hnp := (h.partners_p hc).2 he
        have happ : ∃ pay, applyMutate E w p op =
            .ok ({ w with val := upd w.val p (.l o.items), nItems := upd w.nItems p (w.nItems p + 1) },
                 o.ret, pay) := by
          simp [applyMutate, hl, hs, hev]
        obtain ⟨pay, happ⟩ := happ
        have hw : w.mutate E p op =
            { world := { w with val := upd w.val p (.l o.items), nItems := upd w.nItems p (w.nItems p + 1) },
              ret := o.ret } := by
          unfold World.mutate World.budget; rw [cascade_no_partners (local_mutate E) hnp happ]; rfl
        rw [hw]
        refine h.transfer ⟨rfl, rfl, rfl⟩ (fun he' => absurd he' he) ?_ ?_
        · simp only [upd, if_true]; exact hy
        · simp only [upd, if_neg hc.ne.symm]; exact h.goodq

/-- Assigning the value a trait already holds is not a change. -/
theorem assign_same_value [DecidableEq α] (E : Env α) (w : World α) (p : Pair) (v : AVal α)
    (hv : validate E p v = .ok (w.val p)) : (w.assign E p v).world = w ∧ (w.assign E p v).exc = none := by
  have happ : applyAssign E w p v = .ok (w, none, none) := by simp [applyAssign, hv]
  have : cascade (applyAssign E) w.budget w p v = .ok (w, none) := by
    unfold World.budget; rw [cascade_succ, happ]
  unfold World.assign; rw [this]; exact ⟨rfl, rfl⟩

theorem register_hooked_mono (E : Env α) (w : World α) (p q t : Pair) (h : t ∈ w.hooked) :
    t ∈ (w.register E p q).hooked := by
  unfold World.register; simp only; split
  · exact List.mem_cons_of_mem _ h
  · exact h

theorem register_hooked_mem (E : Env α) (w : World α) (p q : Pair) (hp : w.partners p = [])
    (hlp : E.isList p = true) (hlq : E.isList q = true) : p ∈ (w.register E p q).hooked := by
  unfold World.register
  by_cases hm : p ∈ w.hooked
  · simp [hm]
  · simp [hp, hlp, hlq, hm]

theorem register_partners_other (E : Env α) (w : World α) (p q r : Pair) (hr : r ≠ p) :
    (w.register E p q).partners r = w.partners r := by
  unfold World.partners World.register
  simp only [List.filter_append, List.map_append]
  have : ¬ (p = r) := fun e => hr e.symm
  simp [this]

/-- One half of a fresh mutual link: the entry is appended, the handler
registered, the partner assigned the own value. -/
theorem linkOne_fresh [DecidableEq α] {E : Env α} {p q : Pair} (hc : Compat E p q) (w : World α)
    (hL : w.locked = []) (hpq : (⟨p, q⟩ : Edge) ∉ w.edges) (hq : w.partners q = [])
    (hes : ∀ e ∈ w.edges, e = ⟨p, q⟩ ∨ e = ⟨q, p⟩) (hg : GoodVal E p q (w.val p)) :
    (w.linkOne E p q).exc = none ∧
    (w.linkOne E p q).world.edges = w.edges ++ [⟨p, q⟩] ∧
    (w.linkOne E p q).world.locked = [] ∧
    (w.linkOne E p q).world.hooked = (w.register E p q).hooked ∧
    (w.linkOne E p q).world.val q = w.val p ∧ (w.linkOne E p q).world.val p = w.val p := by
  unfold World.linkOne
  rw [if_neg hpq]
  have hw1e : (w.register E p q).edges = w.edges ++ [⟨p, q⟩] := rfl
  have hw1l : (w.register E p q).locked = [] := hL
  have hw1v : (w.register E p q).val = w.val := rfl
  have hw1q : (w.register E p q).partners q = [] := by
    rw [register_partners_other E w p q q hc.ne.symm]; exact hq
  have hval : validate E q (w.val p) = .ok (w.val p) := hg.validate_q hc
  have hfix : Fix E (w.register E p q).edges (w.val p) := by
    intro e he
    rw [hw1e] at he
    have : e = ⟨p, q⟩ ∨ e = ⟨q, p⟩ := by
      rcases List.mem_append.mp he with h | h
      · exact hes e h
      · simp only [List.mem_singleton] at h; exact Or.inl h
    rcases this with rfl | rfl
    · exact Or.inl hval
    · exact Or.inl hg.validate_p
  generalize w.register E p q = w1 at hw1e hw1l hw1v hw1q hfix
  have hfin := finish_no_partners (local_assign E) w1 q (w.val p) w1.edges.length hw1q
  obtain ⟨w', ret, hcas, hw'⟩ := assign_sets w1.edges.length w1 q (w.val p) hfix hval
  have hexc : (w1.assign E q (w.val p)).exc = none := by rw [assign_exc, hval]
  have hworld : (w1.assign E q (w.val p)).world =
      (finish w1 (cascade (applyAssign E) (w1.edges.length + 1) w1 q (w.val p))).world := rfl
  refine ⟨hexc, ?_, ?_, ?_, ?_, ?_⟩
  · rw [hworld, hfin.1.1]; exact hw1e
  · rw [hworld, hfin.1.2.1]; exact hw1l
  · rw [hworld, hfin.1.2.2]
  · rw [hworld, hcas]; exact hw'
  · rw [hworld, hfin.2 p hc.ne, hw1v]

/-- `p.sync_trait(q)` (mutual). -/
theorem TwoSided.link_pq [DecidableEq α] {E : Env α} {p q : Pair} {w : World α} (hc : Compat E p q)
    (h : TwoSided E p q w) : TwoSided E p q (w.link E p q true).world := by
  by_cases he : (⟨p, q⟩ : Edge) ∈ w.edges
  · have he' := h.both.mp he
    have h1 : w.linkOne E p q = { world := w } := by simp [World.linkOne, he]
    have h2 : w.linkOne E q p = { world := w } := by simp [World.linkOne, he']
    have : (w.link E p q true).world = w := by
      simp [World.link, h1, h2]
    rw [this]; exact h
  · have he' : (⟨q, p⟩ : Edge) ∉ w.edges := fun h' => he (h.both.mpr h')
    -- first half
    obtain ⟨x1, e1, l1, k1, vq1, vp1⟩ := linkOne_fresh hc w h.locked he ((h.partners_q hc).2 he') h.edges h.goodp
    generalize hw2 : (w.linkOne E p q).world = w2 at e1 l1 k1 vq1 vp1
    have hes2 : ∀ e ∈ w2.edges, e = ⟨p, q⟩ ∨ e = ⟨q, p⟩ := by
      intro e hm
      rw [e1] at hm
      rcases List.mem_append.mp hm with hm | hm
      · exact h.edges e hm
      · simp only [List.mem_singleton] at hm; exact Or.inl hm
    have hqp2 : (⟨q, p⟩ : Edge) ∉ w2.edges := by
      rw [e1]
      intro hm
      rcases List.mem_append.mp hm with hm | hm
      · exact he' hm
      · simp only [List.mem_singleton, Edge.mk.injEq] at hm; exact hc.ne hm.1.symm
    have hw2q : w2.partners q = [] := by
      unfold World.partners
      rw [e1, List.filter_append, List.map_append]
      have := (h.partners_q hc).2 he'
      unfold World.partners at this
      rw [this]
      have : ¬ (p = q) := hc.ne
      simp [this]
    -- the second `setattr` assigns the value `p` already holds
    have hsame : validate E p (w2.val q) = .ok ((w2.register E q p).val p) := by
      show validate E p (w2.val q) = .ok (w2.val p)
      rw [vq1, vp1]; exact h.goodp.validate_p
    have hlink2 : w2.linkOne E q p = (w2.register E q p).assign E p (w2.val q) := by
      unfold World.linkOne
      rw [if_neg hqp2]
    have hres := assign_same_value E (w2.register E q p) p (w2.val q) hsame
    have hfinal : (w.link E p q true).world = w2.register E q p := by
      unfold World.link
      simp only [x1, if_true]
      rw [hw2, hlink2]; exact hres.1
    rw [hfinal]
    have hedges3 : (w2.register E q p).edges = w2.edges ++ [(⟨q, p⟩ : Edge)] := rfl
    have hpin : (⟨p, q⟩ : Edge) ∈ (w2.register E q p).edges := by rw [hedges3, e1]; simp
    have hqin : (⟨q, p⟩ : Edge) ∈ (w2.register E q p).edges := by rw [hedges3]; simp
    exact
      { locked := l1
        edges := by
          intro e hm
          rw [hedges3] at hm
          rcases List.mem_append.mp hm with hm | hm
          · exact hes2 e hm
          · simp only [List.mem_singleton] at hm; exact Or.inr hm
        nodup := by
          rw [hedges3, e1]
          refine List.nodup_append.mpr ⟨List.nodup_append.mpr ⟨h.nodup, by simp, ?_⟩, by simp, ?_⟩
          · intro a ha b hb
            simp only [List.mem_singleton] at hb
            rintro rfl; rw [hb] at ha; exact he ha
          · intro a ha b hb
            simp only [List.mem_singleton] at hb
            rintro rfl
            rw [hb, ← e1] at ha; exact hqp2 ha
        both := ⟨fun _ => hqin, fun _ => hpin⟩
        hookp := by
          intro hl _
          apply register_hooked_mono
          rw [k1]
          exact register_hooked_mem E w p q ((h.partners_p hc).2 he) hl (by rw [← hc.kind]; exact hl)
        hookq := by
          intro hl _
          exact register_hooked_mem E w2 q p hw2q hl (by rw [hc.kind]; exact hl)
        conv := fun _ => by
          show w2.val p = w2.val q
          rw [vp1, vq1]
        goodp := by
          show GoodVal E p q (w2.val p)
          rw [vp1]; exact h.goodp
        goodq := by
          show GoodVal E p q (w2.val q)
          rw [vq1]; exact h.goodp }

/-- A world without links satisfies the invariant as soon as the two values are good. -/
theorem TwoSided.of_no_edges {E : Env α} {p q : Pair} {w : World α} (hL : w.locked = [])
    (he : ∀ e ∈ w.edges, False) (hgp : GoodVal E p q (w.val p)) (hgq : GoodVal E p q (w.val q)) :
    TwoSided E p q w :=
  have hnil : w.edges = [] := List.eq_nil_iff_forall_not_mem.mpr (fun e h => he e h)
  { locked := hL
    edges := fun e h => (he e h).elim
    nodup := by rw [hnil]; exact List.nodup_nil
    both := ⟨fun h => (he _ h).elim, fun h => (he _ h).elim⟩
    hookp := fun _ h => (he _ h).elim
    hookq := fun _ h => (he _ h).elim
    conv := fun h => (he _ h).elim
    goodp := hgp
    goodq := hgq }

theorem unlinkOne_not_mem (E : Env α) (w : World α) (a b : Pair) (h : (⟨a, b⟩ : Edge) ∉ w.edges) :
    w.unlinkOne E a b = w := by
  unfold World.unlinkOne; rw [if_neg h]

/-- `a.sync_trait(b, remove=True)` (mutual), for any two traits. -/
theorem TwoSided.unlink {E : Env α} {p q : Pair} {w : World α} (h : TwoSided E p q w) (a b : Pair) :
    TwoSided E p q (w.unlink E a b true) := by
  by_cases hab : (⟨a, b⟩ : Edge) ∈ w.edges ∨ (⟨b, a⟩ : Edge) ∈ w.edges
  · -- one of the two entries is ours, so both are, and both go
    have hval : (w.unlink E a b true).val = w.val := by
      simp only [World.unlink, if_true]
      rw [(unlinkOne_val E _ b a).1, (unlinkOne_val E w a b).1]
    apply TwoSided.of_no_edges
    · rw [unlink_locked]; exact h.locked
    · intro e he
      obtain ⟨h1, h2, h3⟩ := (mem_unlink_edges E w a b e).mp he
      have hpq : (a = p ∧ b = q) ∨ (a = q ∧ b = p) := by
        rcases hab with hab | hab
        · rcases h.edges _ hab with h' | h' <;> simp only [Edge.mk.injEq] at h'
          · exact Or.inl h'
          · exact Or.inr h'
        · rcases h.edges _ hab with h' | h' <;> simp only [Edge.mk.injEq] at h'
          · exact Or.inr ⟨h'.2, h'.1⟩
          · exact Or.inl ⟨h'.2, h'.1⟩
      rcases hpq with ⟨rfl, rfl⟩ | ⟨rfl, rfl⟩ <;> rcases h.edges e h1 with rfl | rfl
      · exact h2 rfl
      · exact h3 rfl
      · exact h3 rfl
      · exact h2 rfl
    · rw [hval]; exact h.goodp
    · rw [hval]; exact h.goodq
  · have h1 : (⟨a, b⟩ : Edge) ∉ w.edges := fun h' => hab (Or.inl h')
    have h2 : (⟨b, a⟩ : Edge) ∉ w.edges := fun h' => hab (Or.inr h')
    have : w.unlink E a b true = w := by
      simp only [World.unlink, if_true]
      rw [unlinkOne_not_mem E w a b h1, unlinkOne_not_mem E w b a h2]
    rw [this]; exact h

/-- An object is garbage-collected. -/
theorem TwoSided.kill {E : Env α} {p q : Pair} {w : World α} (h : TwoSided E p q w) (o : Nat) :
    TwoSided E p q (w.kill o) := by
  by_cases ho : p.1 = o ∨ q.1 = o
  · apply TwoSided.of_no_edges
    · simp [World.kill, h.locked]
    · intro e he
      obtain ⟨h1, h2, h3⟩ := (mem_kill_edges w o e).mp he
      rcases h.edges e h1 with rfl | rfl <;> rcases ho with ho | ho
      · exact h2 ho
      · exact h3 ho
      · exact h3 ho
      · exact h2 ho
    · exact h.goodp
    · exact h.goodq
  · have hp : p.1 ≠ o := fun e => ho (Or.inl e)
    have hq : q.1 ≠ o := fun e => ho (Or.inr e)
    have hedges : (w.kill o).edges = w.edges := by
      simp only [World.kill]
      apply List.filter_eq_self.mpr
      intro e he
      rcases h.edges e he with rfl | rfl <;> simp [hp, hq]
    exact
      { locked := by simp [World.kill, h.locked]
        edges := by rw [hedges]; exact h.edges
        nodup := by rw [hedges]; exact h.nodup
        both := by rw [hedges]; exact h.both
        hookp := by
          rw [hedges]
          intro hl he
          simp only [World.kill, List.mem_filter]
          exact ⟨h.hookp hl he, by simpa using hp⟩
        hookq := by
          rw [hedges]
          intro hl he
          simp only [World.kill, List.mem_filter]
          exact ⟨h.hookq hl he, by simpa using hq⟩
        conv := by rw [hedges]; exact h.conv
        goodp := h.goodp
        goodq := h.goodq }

/-- The commands of a two-sided history: assignments to and in-place mutations
of any trait of any object, (re-)linking the two traits mutually from either
side, mutual removal of any link, death of any object. -/
inductive Allowed (p q : Pair) : Cmd α → Prop where
  | assign (r : Pair) (v : AVal α) : Allowed p q (.assign r v)
  | mutate (r : Pair) (op : Op α) : Allowed p q (.mutate r op)
  | linkpq : Allowed p q (.link p q true)
  | linkqp : Allowed p q (.link q p true)
  | unlink (a b : Pair) : Allowed p q (.unlink a b true)
  | kill (o : Nat) : Allowed p q (.kill o)

theorem TwoSided.step [DecidableEq α] {E : Env α} {p q : Pair} {w : World α} (hc : Compat E p q)
    (h : TwoSided E p q w) {c : Cmd α} (ha : Allowed p q c) : TwoSided E p q (w.step E c).world := by
  cases ha with
  | assign r v =>
    simp only [World.step]
    by_cases hrp : r = p
    · subst hrp; exact h.assign_p hc v
    · by_cases hrq : r = q
      · subst hrq; exact ((h.symm hc).assign_p hc.symm v).symm hc.symm
      · exact h.assign_other r v hrp hrq
  | mutate r op =>
    simp only [World.step]
    by_cases hrp : r = p
    · subst hrp; exact h.mutate_p hc op
    · by_cases hrq : r = q
      · subst hrq; exact ((h.symm hc).mutate_p hc.symm op).symm hc.symm
      · exact h.mutate_other r op hrp hrq
  | linkpq => exact h.link_pq hc
  | linkqp => exact ((h.symm hc).link_pq hc.symm).symm hc.symm
  | unlink a b => exact h.unlink a b
  | kill o => exact h.kill o

/-- **Two-sided histories.** The invariant holds after every history. -/
theorem TwoSided.run [DecidableEq α] {E : Env α} {p q : Pair} (hc : Compat E p q) :
    ∀ (cs : List (Cmd α)) (w : World α), TwoSided E p q w → (∀ c ∈ cs, Allowed p q c) →
      TwoSided E p q (World.run E w cs) := by
  intro cs
  induction cs with
  | nil => intro w h _; exact h
  | cons c cs ih =>
    intro w h hall
    exact ih _ (h.step hc (hall c (by simp))) (fun c' hc' => hall c' (by simp [hc']))

end TraitsVerif.Model.Sync
