/-
Propagation of an assignment (`_sync_trait_modified`): in any network of links,
when every trait either stores the assigned value `y` unchanged or rejects it,
each trait changes at most once (to `y`, with one notification), the assigned
trait and each of its partners that accepts `y` hold `y` afterwards.
-/
import TraitsVerif.Lemmas.SyncOps
namespace TraitsVerif.Model.Sync
open TraitsVerif TraitsVerif.Py TraitsVerif.Model
variable {α : Type}

/-- Every trait some link leads to either stores `y` unchanged or rejects it. -/
def Fix (E : Env α) (es : List Edge) (y : AVal α) : Prop :=
  ∀ e ∈ es, validate E e.dst y = .ok y ∨ ∃ err, validate E e.dst y = .error err

theorem mem_partners {w : World α} {p q : Pair} : q ∈ w.partners p ↔ (⟨p, q⟩ : Edge) ∈ w.edges := by
  simp only [World.partners, List.mem_map, List.mem_filter]
  constructor
  · rintro ⟨e, ⟨he, hs⟩, hd⟩
    have hs' : e.src = p := by simpa using hs
    have : e = ⟨p, q⟩ := by cases e; simp_all
    rw [← this]; exact he
  · intro he; exact ⟨⟨p, q⟩, ⟨he, by simp⟩, rfl⟩

/-- What `Fix` gives for a partner. -/
theorem Fix.partner {E : Env α} {w : World α} {y : AVal α} (hfix : Fix E w.edges y) {p q : Pair}
    (hq : q ∈ w.partners p) : ∀ new, validate E q y = .ok new → new = y := by
  intro new hv
  rcases hfix ⟨p, q⟩ (mem_partners.mp hq) with h | ⟨e, h⟩
  · simp only at h; rw [h] at hv; cases hv; rfl
  · simp only at h; rw [h] at hv; cases hv

/-- Trait `r` kept its value and was not notified, or changed to `y` and was
notified exactly once. -/
def Stay (y : AVal α) (w w' : World α) (r : Pair) : Prop :=
  (w'.val r = w.val r ∧ w'.nChg r = w.nChg r) ∨
  (w.val r ≠ y ∧ w'.val r = y ∧ w'.nChg r = w.nChg r + 1)

/-- `Stay` everywhere; items handlers are not involved. -/
def Once (y : AVal α) (w w' : World α) : Prop :=
  (∀ r, Stay y w w' r) ∧ ∀ r, w'.nItems r = w.nItems r

theorem Once.refl (y : AVal α) (w : World α) : Once y w w :=
  ⟨fun _ => Or.inl ⟨rfl, rfl⟩, fun _ => rfl⟩

theorem Once.trans {y : AVal α} {a b c : World α} (h1 : Once y a b) (h2 : Once y b c) : Once y a c := by
  refine ⟨fun r => ?_, fun r => (h2.2 r).trans (h1.2 r)⟩
  rcases h1.1 r with ⟨e1, n1⟩ | ⟨ne1, e1, n1⟩ <;> rcases h2.1 r with ⟨e2, n2⟩ | ⟨ne2, e2, n2⟩
  · exact Or.inl ⟨e2.trans e1, n2.trans n1⟩
  · exact Or.inr ⟨by rw [← e1]; exact ne2, e2, by rw [n2, n1]⟩
  · exact Or.inr ⟨ne1, e2.trans e1, by rw [n2, n1]⟩
  · exact absurd e1 ne2

/-- A value that is `y` stays `y`. -/
theorem Once.keeps {y : AVal α} {a b : World α} (h : Once y a b) {r : Pair} (hr : a.val r = y) :
    b.val r = y := by
  rcases h.1 r with ⟨e, _⟩ | ⟨ne, _, _⟩
  · rw [e, hr]
  · exact absurd hr ne

theorem Once.unlock {y : AVal α} {a b : World α} (p : Pair) (h : Once y a b) : Once y a (b.unlock p) := h

theorem Once.lock {y : AVal α} {a b : World α} (p : Pair) (h : Once y (a.lock p) b) : Once y a b := h

/-- The relation the loop keeps: `Once`, and the tables stay. -/
def OnceT (y : AVal α) (w w' : World α) : Prop := Once y w w' ∧ SameTabs w w'

theorem OnceT.refl (y : AVal α) (w : World α) : OnceT y w w := ⟨Once.refl _ _, SameTabs.refl _⟩

theorem OnceT.trans {y : AVal α} {a b c : World α} (h1 : OnceT y a b) (h2 : OnceT y b c) : OnceT y a c :=
  ⟨h1.1.trans h2.1, h1.2.trans h2.2⟩

/-- **Each trait changes at most once.** The whole propagation of an
assignment whose validated value is `y`. -/
theorem assign_once [DecidableEq α] {E : Env α} {y : AVal α} (d : Nat) :
    ∀ (w : World α) (p : Pair) (v : AVal α) (w' : World α) (ret : Option α),
      Fix E w.edges y → (∀ new, validate E p v = .ok new → new = y) →
      cascade (applyAssign E) d w p v = .ok (w', ret) → Once y w w' := by
  induction d with
  | zero => intro w p v w' ret _ _ h; simp [cascade] at h
  | succ d ih =>
    intro w p v w' ret hfix hv h
    obtain ⟨w1, pay, happ, hshape⟩ := cascade_succ_ok h
    obtain ⟨new, hval, _, hcase⟩ := applyAssign_ok happ
    have hnew := hv new hval
    subst hnew
    have hstore : ∀ {w1 : World α}, new ≠ w.val p →
        w1 = { w with val := upd w.val p new, nChg := upd w.nChg p (w.nChg p + 1) } → Once new w w1 := by
      intro w1 hne hw1
      subst hw1
      refine ⟨fun r => ?_, fun r => rfl⟩
      by_cases hr : r = p
      · subst hr
        exact Or.inr ⟨fun e => hne e.symm, by simp [upd], by simp [upd]⟩
      · exact Or.inl ⟨by simp [upd, hr], by simp [upd, hr]⟩
    rcases hcase with ⟨_, hw1, hpay⟩ | ⟨hne, hpay, hw1⟩
    · -- nothing changed
      rcases hshape with ⟨_, h'⟩ | ⟨y', hy', _⟩ | ⟨y', hy', _⟩
      · rw [h', hw1]; exact Once.refl _ _
      · rw [hpay] at hy'; cases hy'
      · rw [hpay] at hy'; cases hy'
    · have h1 := hstore hne hw1
      have hw1e : w1.edges = w.edges := by rw [hw1]
      rcases hshape with ⟨hy', _⟩ | ⟨y', _, _, rfl⟩ | ⟨y', hy', _, rfl⟩
      · rw [hpay] at hy'; cases hy'
      · exact h1
      · rw [hpay] at hy'
        cases hy'
        refine Once.trans h1 (Once.unlock p (Once.lock p ?_))
        have := foldl_rel_inv (rec := cascade (applyAssign E) d) (y := new)
          (fun acc => acc.edges = w.edges) (OnceT new) (OnceT.refl new) (fun _ _ _ => OnceT.trans)
          (w1.partners p) ?_ (w1.lock p) (by simp [World.lock, hw1e])
        · exact this.1.1
        · intro acc q acc' r hacc hq hql hc
          have hq' : q ∈ acc.partners p := by
            rw [partners_congr (w := w1) (w' := acc) (by rw [hacc, hw1e]) p]; exact hq
          have hfr := cascade_frame (local_assign E) d acc q new acc' r hql hc
          refine ⟨⟨ih acc q new acc' r (by rw [hacc]; exact hfix) ?_ hc, hfr⟩, by rw [hfr.1]; exact hacc⟩
          exact Fix.partner (w := acc) (by rw [hacc]; exact hfix) hq'

/-- The assigned trait holds the validated value afterwards (any budget ≥ 1). -/
theorem assign_sets [DecidableEq α] {E : Env α} {y : AVal α} (d : Nat)
    (w : World α) (p : Pair) (v : AVal α) (hfix : Fix E w.edges y) (hv : validate E p v = .ok y) :
    ∃ w' ret, cascade (applyAssign E) (d + 1) w p v = .ok (w', ret) ∧ w'.val p = y := by
  have happ : ∃ w1 pay, applyAssign E w p v = .ok (w1, none, pay) ∧ w1.val p = y ∧ w1.edges = w.edges := by
    unfold applyAssign
    rw [hv]
    simp only
    split
    · rename_i h; exact ⟨_, _, rfl, h.symm, rfl⟩
    · exact ⟨_, _, rfl, by simp [upd], rfl⟩
  obtain ⟨w1, pay, happ, hw1, hw1e⟩ := happ
  obtain ⟨w', hc⟩ := cascade_succ_of_apply (d := d) happ
  refine ⟨w', none, hc, ?_⟩
  obtain ⟨w1', pay', happ', hshape⟩ := cascade_succ_ok hc
  rw [happ] at happ'
  simp only [Except.ok.injEq, Prod.mk.injEq] at happ'
  obtain ⟨rfl, _, rfl⟩ := happ'
  rcases hshape with ⟨_, rfl⟩ | ⟨y', _, _, rfl⟩ | ⟨y', hy', _, rfl⟩
  · exact hw1
  · exact hw1
  · -- the loop keeps a value that is already `y`
    obtain ⟨new, hval, _, hcase⟩ := applyAssign_ok happ
    rw [hv] at hval; cases hval
    have hy : y' = y := by
      rcases hcase with ⟨_, _, hp⟩ | ⟨_, hp, _⟩
      · rw [hp] at hy'; cases hy'
      · rw [hp] at hy'; cases hy'; rfl
    subst hy
    have := foldl_rel_inv (rec := cascade (applyAssign E) d) (y := y')
      (fun acc => acc.edges = w.edges) (OnceT y') (OnceT.refl y') (fun _ _ _ => OnceT.trans)
      (w1.partners p) ?_ (w1.lock p) (by simp [World.lock, hw1e])
    · exact this.1.1.keeps (r := p) hw1
    · intro acc q acc' r hacc hq hql hc'
      have hq' : q ∈ acc.partners p := by
        rw [partners_congr (w := w1) (w' := acc) (by rw [hacc, hw1e]) p]; exact hq
      have hfr := cascade_frame (local_assign E) d acc q y' acc' r hql hc'
      refine ⟨⟨assign_once d acc q y' acc' r (by rw [hacc]; exact hfix) ?_ hc', hfr⟩, by rw [hfr.1]; exact hacc⟩
      exact Fix.partner (w := acc) (by rw [hacc]; exact hfix) hq'

/-- In the handler's loop, a partner that accepts `y` ends up holding `y`. -/
theorem foldl_sets [DecidableEq α] {E : Env α} {y : AVal α} (d : Nat) (es : List Edge) (hfix : Fix E es y)
    (q : Pair) (hq : validate E q y = .ok y) (ps : List Pair) (hmem : q ∈ ps)
    (hps : ∀ t ∈ ps, ∀ new, validate E t y = .ok new → new = y) :
    ∀ acc : World α, acc.edges = es → (q ∈ acc.locked → acc.val q = y) →
      (ps.foldl (visitPartner (cascade (applyAssign E) (d + 1)) y) acc).val q = y := by
  have hrec : ∀ acc t acc' r, acc.edges = es → t ∈ ps → t ∉ acc.locked →
      cascade (applyAssign E) (d + 1) acc t y = .ok (acc', r) → OnceT y acc acc' ∧ acc'.edges = es := by
    intro acc t acc' r hacc ht hl hc
    have hfr := cascade_frame (local_assign E) _ acc t y acc' r hl hc
    exact ⟨⟨assign_once (d + 1) acc t y acc' r (by rw [hacc]; exact hfix) (hps t ht) hc, hfr⟩,
      by rw [hfr.1]; exact hacc⟩
  induction ps with
  | nil => cases hmem
  | cons t ts ih =>
    intro acc hacce hacc
    simp only [List.foldl_cons]
    have hstepT : OnceT y acc (visitPartner (cascade (applyAssign E) (d + 1)) y acc t)
        ∧ (visitPartner (cascade (applyAssign E) (d + 1)) y acc t).edges = es := by
      unfold visitPartner
      split
      · exact ⟨OnceT.refl _ _, hacce⟩
      · rename_i hnl
        split
        · rename_i acc' r hc
          exact hrec acc t acc' r hacce (by simp) hnl hc
        · exact ⟨OnceT.refl _ _, hacce⟩
    by_cases htq : t = q
    · subst htq
      -- after this step `t` holds `y`; the rest of the loop keeps it
      have hstep : (visitPartner (cascade (applyAssign E) (d + 1)) y acc t).val t = y := by
        unfold visitPartner
        split
        · rename_i hl; exact hacc hl
        · obtain ⟨w', ret, hc, hw'⟩ := assign_sets d acc t y (by rw [hacce]; exact hfix) hq
          rw [hc]; exact hw'
      have := foldl_rel_inv (rec := cascade (applyAssign E) (d + 1)) (y := y)
        (fun acc => acc.edges = es) (OnceT y) (OnceT.refl y) (fun _ _ _ => OnceT.trans) ts
        (fun acc t' acc' r hi hm hl hc => hrec acc t' acc' r hi (by simp [hm]) hl hc)
        (visitPartner (cascade (applyAssign E) (d + 1)) y acc t) hstepT.2
      exact this.1.1.keeps hstep
    · have hmem' : q ∈ ts := by
        rcases List.mem_cons.mp hmem with h | h
        · exact absurd h.symm htq
        · exact h
      apply ih hmem' (fun t' ht' => hps t' (by simp [ht']))
        (fun acc t' acc' r hi hm hl hc => hrec acc t' acc' r hi (by simp [hm]) hl hc) _ hstepT.2
      intro hl
      rw [hstepT.1.2.2.1] at hl
      exact hstepT.1.1.keeps (hacc hl)

/-- **Convergence of an assignment, one command.** From a state with an empty
lock table: the command fails only if the trait's own validator rejects, the
assigned trait holds the validated value `y`, so does every partner that
accepts `y` (if the assignment changed the trait, or the partner was equal
before), and every trait of the world changed at most once, to `y`, with one
notification. -/
theorem assign_converges [DecidableEq α] (E : Env α) (w : World α) (p q : Pair) (v y : AVal α)
    (hL : w.locked = []) (he : (⟨p, q⟩ : Edge) ∈ w.edges)
    (hv : validate E p v = .ok y) (hfix : Fix E w.edges y) (hq : validate E q y = .ok y)
    (hpre : w.val p ≠ y ∨ w.val q = w.val p) :
    (w.assign E p v).exc = none ∧ (w.assign E p v).world.val p = y ∧ (w.assign E p v).world.val q = y
      ∧ Once y w (w.assign E p v).world := by
  have hbud : w.budget = (w.edges.length - 1 + 1) + 1 := by
    have : 0 < w.edges.length := List.length_pos_of_mem he
    simp only [World.budget]; omega
  obtain ⟨w', ret, hc, hp'⟩ := assign_sets (w.edges.length - 1 + 1) w p v hfix hv
  have honce := assign_once _ w p v w' ret hfix (fun new h => by rw [hv] at h; cases h; rfl) hc
  have hres : w.assign E p v = { world := w', ret := ret } := by
    unfold World.assign; rw [hbud, hc]; rfl
  rw [hres]
  refine ⟨rfl, hp', ?_, honce⟩
  simp only
  -- the partner
  obtain ⟨w1, pay, happ, hshape⟩ := cascade_succ_ok hc
  obtain ⟨new, hval, _, hcase⟩ := applyAssign_ok happ
  rw [hv] at hval; cases hval
  have hqp : q ∈ w.partners p := mem_partners.mpr he
  rcases hcase with ⟨hsame, hw1, hpay⟩ | ⟨hne, hpay, hw1⟩
  · -- the trait did not change: nothing happened at all
    have hw' : w' = w := by
      rcases hshape with ⟨_, h'⟩ | ⟨y', hy', _⟩ | ⟨y', hy', _⟩
      · rw [h', hw1]
      · rw [hpay] at hy'; cases hy'
      · rw [hpay] at hy'; cases hy'
    rw [hw']
    rcases hpre with h | h
    · exact absurd hsame.symm h
    · rw [h, ← hsame]
  · have hparts : w1.partners p = w.partners p := partners_congr (by rw [hw1]) p
    have hw1p : w1.val p = y := by rw [hw1]; simp [upd]
    rcases hshape with ⟨hy', _⟩ | ⟨y', _, hemp, _⟩ | ⟨y', hy', _, rfl⟩
    · rw [hpay] at hy'; cases hy'
    · rw [hparts] at hemp
      have : w.partners p = [] := by simpa using hemp
      rw [this] at hqp; cases hqp
    · rw [hpay] at hy'; cases hy'
      simp only [World.unlock]
      rw [hparts]
      apply foldl_sets _ w.edges hfix q hq _ hqp (fun t ht => Fix.partner hfix ht) _ (by rw [hw1]; rfl)
      intro hl
      have : q = p := by
        have hlk : (w1.lock p).locked = [p] := by rw [hw1]; simp [World.lock, hL]
        rw [hlk] at hl; simpa using hl
      rw [this]; exact hw1p

end TraitsVerif.Model.Sync
