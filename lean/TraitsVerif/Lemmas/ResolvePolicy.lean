/-
Per-kind facts about the setters / getters and histories (`run`).
-/
import TraitsVerif.Lemmas.ResolveHier
namespace TraitsVerif.Model.Resolve
open TraitsVerif

theorem setattrKind_disallow {E : Env} {t : Trait} (h : t.kind = .disallow) (d : Map Val) (n : Name)
    (v : Option Val) : setattrKind E t d n v = .error .traitError := by
  unfold setattrKind; rw [h]

theorem getattrKind_disallow {E : Env} {t : Trait} (h : t.kind = .disallow) (d : Map Val) (n : Name) :
    getattrKind E t d n = .error .attributeError := by
  unfold getattrKind; rw [h]

theorem setattrKind_constant {E : Env} {t : Trait} (h : t.kind = .constant) (d : Map Val) (n : Name)
    (v : Option Val) : setattrKind E t d n v = .error .traitError := by
  unfold setattrKind; rw [h]

theorem getattrKind_constant {E : Env} {t : Trait} (h : t.kind = .constant) (d : Map Val) (n : Name) :
    getattrKind E t d n = .ok (t.dflt, d) := by
  unfold getattrKind; rw [h]

theorem getattrKind_event {E : Env} {t : Trait} (h : t.kind = .event) (d : Map Val) (n : Name) :
    getattrKind E t d n = .error .attributeError := by
  unfold getattrKind; rw [h]

theorem setattrKind_event {E : Env} {t : Trait} (h : t.kind = .event) (d : Map Val) (n : Name)
    (v : Option Val) :
    setattrKind E t d n v = match v, t.validator with
      | some v, some i => (E.validate i 0 v).map (fun _ => d)
      | _, _ => .ok d := by
  unfold setattrKind; rw [h]
  cases v with
  | none => rfl
  | some v => cases t.validator <;> rfl

theorem setattrKind_event_dict {E : Env} {t : Trait} (h : t.kind = .event) {d d' : Map Val} {n : Name}
    {v : Option Val} (hk : setattrKind E t d n v = .ok d') : d' = d := by
  rw [setattrKind_event h] at hk
  cases v with
  | none => cases hk; rfl
  | some v =>
    cases hv : t.validator with
    | none => rw [hv] at hk; cases hk; rfl
    | some i =>
      rw [hv] at hk
      simp only at hk
      cases hval : E.validate i 0 v with
      | error e => rw [hval] at hk; cases hk
      | ok v' => rw [hval] at hk; cases hk; rfl

theorem setattrKind_readonly_del {E : Env} {t : Trait} (h : t.kind = .readonly) (d : Map Val) (n : Name) :
    setattrKind E t d n none = .error .traitError := by
  unfold setattrKind; rw [h]

/-- `setattr_readonly` with `default_value is Undefined`: accepted iff the slot
is empty or holds `Undefined`. -/
theorem setattrKind_readonly_set {E : Env} {t : Trait} (h : t.kind = .readonly) (hd : t.dflt = .undef)
    (d : Map Val) (n : Name) (v : Val) :
    setattrKind E t d n (some v) =
      if d.get n = none ∨ d.get n = some .undef then .ok (d.set n v) else .error .traitError := by
  unfold setattrKind; rw [h]
  simp only [hd, ne_eq, not_true_eq_false, ↓reduceIte]
  cases hg : d.get n with
  | none => simp [setattrPython]
  | some cur =>
    by_cases hc : cur = .undef
    · subst hc; simp [setattrPython]
    · simp [hc]

/-- `setattr_readonly` with any other default: never accepted. -/
theorem setattrKind_readonly_default {E : Env} {t : Trait} (h : t.kind = .readonly) (hd : t.dflt ≠ .undef)
    (d : Map Val) (n : Name) (v : Option Val) : setattrKind E t d n v = .error .traitError := by
  unfold setattrKind; rw [h]
  cases v with
  | none => rfl
  | some v => simp [hd]

theorem getattrKind_readonly {E : Env} {t : Trait} (h : t.kind = .readonly) (d : Map Val) (n : Name) :
    getattrKind E t d n = .ok (t.dflt, d.set n t.dflt) := by
  unfold getattrKind; rw [h]

theorem getattrKind_trait {E : Env} {t : Trait} (h : t.kind = .trait) (d : Map Val) (n : Name) :
    getattrKind E t d n = .ok (t.dflt, d.set n t.dflt) := by
  unfold getattrKind; rw [h]

theorem setattrKind_trait_untyped {E : Env} {t : Trait} (h : t.kind = .trait) (hv : t.validator = none)
    (d : Map Val) (n : Name) (v : Val) : setattrKind E t d n (some v) = .ok (d.set n v) := by
  unfold setattrKind; rw [h]; simp only [hv]

/-- `remove_trait(name)` on an existing object. -/
theorem step_removeTrait_spec (E : Env) {w : World} {oi : Nat} {o : Obj} {c : Cls} (ho : w.objs[oi]? = some o)
    (hc : w.classes[o.cls]? = some c) (name : Name) :
    ∃ o', (step E w (.removeTrait oi name)).1.objs[oi]? = some o' ∧ o'.itraits.get name = none ∧
      o'.cls = o.cls ∧ (step E w (.removeTrait oi name)).1.classes = w.classes ∧
      (step E w (.removeTrait oi name)).2 = .ok (.bool (o.itraits.get name).isSome) ∧
      (∀ k, k ≠ name → o'.itraits.get k = o.itraits.get k ∧ o'.dict.get k = o.dict.get k) := by
  simp only [step]
  rw [withObj_eq ho hc]
  unfold removeTrait
  cases h0 : trait0 c o name with
  | none =>
    obtain ⟨hi, _⟩ := trait0_none h0
    exact ⟨o, ho, hi, rfl, rfl, by rw [hi]; rfl, fun _ _ => ⟨rfl, rfl⟩⟩
  | some t0 =>
    simp only
    cases hi : o.itraits.get name with
    | some t =>
      refine ⟨_, getElem?_set_self' ho, Map.get_erase_same _ _, rfl, rfl, rfl, ?_⟩
      intro k hk
      exact ⟨Map.get_erase_ne _ (Ne.symm hk), Map.get_erase_ne _ (Ne.symm hk)⟩
    | none =>
      refine ⟨_, getElem?_set_self' ho, hi, rfl, rfl, rfl, ?_⟩
      intro k hk
      exact ⟨rfl, Map.get_erase_ne _ (Ne.symm hk)⟩

/-! ### histories -/

theorem run_append (E : Env) (w : World) (a b : List Op) :
    (run E w (a ++ b)).1 = (run E (run E w a).1 b).1 := by
  induction a generalizing w with
  | nil => rfl
  | cons op a ih => simp only [List.cons_append, run]; exact ih _

theorem run_snoc (E : Env) (w : World) (a : List Op) (op : Op) :
    (run E w (a ++ [op])).1 = (step E (run E w a).1 op).1 := by
  rw [run_append]; rfl

/-- The governing rule and the `__dict__` entry of (object, name) along a history. -/
theorem GovDict_run (E : Env) {P : Trait → Prop} {w : World} (hw : NoDeleg w) {oi : Nat} {name : Name}
    {r : Option Val} (hg : GovAt P w oi name) (hd : DictAt w oi name r)
    (hset : ∀ t d value d', P t → d.get name = r → setattrKind E t d name value = .ok d' → d'.get name = r)
    (hget : ∀ t d v d', P t → d.get name = r → d.get name = none →
      getattrKind E t d name = .ok (v, d') → d'.get name = r)
    {ops : List Op} (hplain : ∀ op ∈ ops, op.Plain)
    (hadd : ∀ op ∈ ops, ∀ t, op = .addTrait oi name t → P t)
    (hrem : ∀ op ∈ ops, op = .removeTrait oi name → r = none) :
    NoDeleg (run E w ops).1 ∧ GovAt P (run E w ops).1 oi name ∧ DictAt (run E w ops).1 oi name r := by
  induction ops generalizing w with
  | nil => exact ⟨hw, hg, hd⟩
  | cons op ops ih =>
    simp only [run]
    exact ih (NoDeleg_step E hw (hplain op List.mem_cons_self))
      (GovAt_step E hw hg (hadd op List.mem_cons_self))
      (DictAt_step E hw hg hd hset hget (hrem op List.mem_cons_self))
      (fun op' h => hplain op' (List.mem_cons_of_mem _ h))
      (fun op' h => hadd op' (List.mem_cons_of_mem _ h))
      (fun op' h => hrem op' (List.mem_cons_of_mem _ h))

end TraitsVerif.Model.Resolve
