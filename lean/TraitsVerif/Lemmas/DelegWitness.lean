/-
Concrete pools and histories used as witnesses by `Props/C11.lean` (negations of the full-strength
clauses: findings F18-F20; non-vacuity examples).  Each is replayed on the implementation by the corpus
of harness/props/c11.py.
-/
import TraitsVerif.Lemmas.DelegRun
import TraitsVerif.Lemmas.DelegNotify
namespace TraitsVerif.Model.Deleg.Witness
open TraitsVerif TraitsVerif.Model.Deleg

def idEnv : Env := { validate := fun _ _ v => .ok v }
def nx : Name := ['x']

def clsD : Cls := ⟨none, [(nx, .defer (mkDelegate [] true))]⟩
def clsP : Cls := ⟨none, [(nx, .defer (mkDelegate [] false))]⟩
def clsT : Cls := ⟨none, [(nx, .plain 0 3 .equality)]⟩

/-- F20: `o0.x = DelegatesTo` → `o1.x = PrototypedFrom` → `o2.x` typed; o1 holds the local value 7.
Corpus case `D-P-T … sw 1 2;sw 0 1;st 1 x 7;st 0 x 9;rd 0 x`. -/
def protoPool : Pool :=
  runPool idEnv 0 (mkPool [clsD, clsP, clsT]) [.swap 1 (some 2), .swap 0 (some 1), .set 1 nx 7]

theorem protoPool_inv : Inv protoPool :=
  runPool_inv idEnv _ 0 _ (mkPool_inv _ (by
    intro c hc
    simp only [List.mem_cons, List.not_mem_nil, or_false] at hc
    rcases hc with rfl | rfl | rfl <;> (unfold ClsWF; decide)))

/-- F19: `'*'` at two levels with different class prefixes: A(`a_`).x → B(`b_`).a_x → C.
Corpus case `star2-diff … sw 1 2;sw 0 1;st 0 x 5;rd 0 x`. -/
def starPool : Pool :=
  runPool idEnv 0
    (mkPool [⟨some ['a', '_'], [(nx, .defer (mkDelegate ['*'] true))]⟩,
             ⟨some ['b', '_'], [(['a', '_', 'x'], .defer (mkDelegate ['*'] true))]⟩,
             ⟨none, [(['a', '_', 'a', '_', 'x'], .plain 0 1 .equality), (['b', '_', 'a', '_', 'x'], .plain 0 2 .equality)]⟩])
    [.swap 1 (some 2), .swap 0 (some 1)]

theorem clsD_ok : ClsOK clsD :=
  clsOK_of_forall (by unfold ClsWF; decide) (by
    intro ntd h d hd
    simp only [clsD, List.mem_singleton] at h
    subst h
    cases hd
    exact ⟨⟨by decide, by decide⟩, [], true, rfl⟩)

theorem clsT_ok : ClsOK clsT :=
  clsOK_of_forall (by unfold ClsWF; decide) (by
    intro ntd h d hd
    simp only [clsT, List.mem_singleton] at h
    subst h
    cases hd)

/-- F18 (fixed by bead785): the chain `o0.x → o1.x → o2.x` wired top-down; regression witness.
Corpus case `same-D … sw 0 1;sw 1 2;st 2 x 5`. -/
def topDown : List Op := [.swap 0 (some 1), .swap 1 (some 2)]

/-- The same chain wired bottom-up: no hook fails. -/
def bottomUp : List Op := [.swap 1 (some 2), .swap 0 (some 1)]

/-- F19, notification side: `'*'` chain A(`a_`).x → B(`b_`).a_x → C → D where the write walk ends on
`c.a_a_x` while reads and listeners go on through `c.b_a_x → d.b_a_x`.  Corpus case
`star2-deep … sw 2 3;sw 1 2;sw 0 1;st 0 x 5;sw 2 N;dl 0 x;rd 0 x`: the `del` deletes, its read-back raises,
and the link is left without forwarder. -/
def nax : Name := ['a', '_', 'x']
def naax : Name := ['a', '_', 'a', '_', 'x']
def nbax : Name := ['b', '_', 'a', '_', 'x']
def clsA : Cls := ⟨some ['a', '_'], [(nx, .defer (mkDelegate ['*'] false))]⟩
def clsB : Cls := ⟨some ['b', '_'], [(nax, .defer (mkDelegate ['*'] false))]⟩
def clsC : Cls := ⟨none, [(naax, .plain 0 1 .equality), (nbax, .defer (mkDelegate [] false))]⟩
def clsE : Cls := ⟨none, [(nbax, .plain 1 2 .equality)]⟩

def deepClasses : List Cls := [clsA, clsB, clsC, clsE]

def brokenDel : List Op :=
  [.swap 2 (some 3), .swap 1 (some 2), .swap 0 (some 1), .set 0 nx 5, .swap 2 none, .del 0 nx]

theorem deepClasses_ok : ∀ c ∈ deepClasses, ClsOK c := by
  intro c hc
  simp only [deepClasses, List.mem_cons, List.not_mem_nil, or_false] at hc
  rcases hc with rfl | rfl | rfl | rfl
  · refine clsOK_of_forall (by unfold ClsWF; decide) ?_
    intro ntd h d hd
    simp only [clsA, List.mem_singleton] at h
    subst h; cases hd
    exact ⟨⟨by decide, by decide⟩, ['*'], false, rfl⟩
  · refine clsOK_of_forall (by unfold ClsWF; decide) ?_
    intro ntd h d hd
    simp only [clsB, List.mem_singleton] at h
    subst h; cases hd
    exact ⟨⟨by decide, by decide⟩, ['*'], false, rfl⟩
  · refine clsOK_of_forall (by unfold ClsWF; decide) ?_
    intro ntd h d hd
    simp only [clsC, List.mem_cons, List.not_mem_nil, or_false] at h
    rcases h with rfl | rfl
    · cases hd
    · cases hd
      exact ⟨⟨by decide, by decide⟩, [], false, rfl⟩
  · refine clsOK_of_forall (by unfold ClsWF; decide) ?_
    intro ntd h d hd
    simp only [clsE, List.mem_singleton] at h
    subst h; cases hd

end TraitsVerif.Model.Deleg.Witness
