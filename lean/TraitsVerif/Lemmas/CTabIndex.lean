/-
Helper lemmas for the `ctab` cluster: `func_index` as a first-occurrence
search, and the finite facts about the TRANSLATED tables that the theorems of
Props/C18 and Props/C14 (`C14_ctrait_roundtrip`) are assembled from.  Every
`decide` below ranges over a translated table / guard list, never over a sample.
-/
import TraitsVerif.Model.FuncIndex
namespace TraitsVerif.Lemmas.CTab
open TraitsVerif.Generated TraitsVerif.Model.FuncIndex

/-! ### `func_index` -/

theorem funcIndexFrom_spec (fn : String) :
    ∀ (l : List String) (k i : Nat), funcIndexFrom fn l k = some i →
      k ≤ i ∧ i - k < l.length ∧ l[i - k]? = some fn
  | [], k, i, h => by simp [funcIndexFrom] at h
  | e :: es, k, i, h => by
    unfold funcIndexFrom at h
    split at h
    · rename_i he
      cases h
      simp [he]
    · have := funcIndexFrom_spec fn es (k + 1) i h
      obtain ⟨h1, h2, h3⟩ := this
      refine ⟨by omega, by simp; omega, ?_⟩
      have : i - k = (i - (k + 1)) + 1 := by omega
      rw [this, List.getElem?_cons_succ]
      exact h3

/-- The index `func_index` returns is inside the table and names the function. -/
theorem funcIndex_spec {fn : String} {tbl : List String} {i : Nat} (h : funcIndex fn tbl = some i) :
    i < tbl.length ∧ tbl[i]? = some fn := by
  have := funcIndexFrom_spec fn tbl 0 i h
  simpa using this.2

theorem funcIndexFrom_of_mem (fn : String) :
    ∀ (l : List String) (k : Nat), fn ∈ l → ∃ i, funcIndexFrom fn l k = some i
  | [], _, h => by simp at h
  | e :: es, k, h => by
    unfold funcIndexFrom
    split
    · exact ⟨k, rfl⟩
    · rename_i hne
      have : fn ∈ es := by
        rcases List.mem_cons.mp h with h | h
        · exact absurd h hne
        · exact h
      exact funcIndexFrom_of_mem fn es (k + 1) this

/-- `func_index` terminates inside the array exactly when the function is an entry. -/
theorem funcIndex_isSome_iff {fn : String} {tbl : List String} :
    (funcIndex fn tbl).isSome ↔ fn ∈ tbl := by
  constructor
  · intro h
    obtain ⟨i, hi⟩ := Option.isSome_iff_exists.mp h
    exact List.mem_of_getElem? (funcIndex_spec hi).2
  · intro h
    obtain ⟨i, hi⟩ := funcIndexFrom_of_mem fn tbl 0 h
    simp [funcIndex, hi]

/-! ### Finite facts about the translated tables -/

/-- `__setstate__` subscripts the very table `__getstate__` searched. -/
theorem restore_table_eq : ∀ f ∈ Field.all, restoreTableName f = stateTableName f := by decide

/-- Coverage: every assignable function is an entry of the table `__getstate__` searches. -/
theorem assignable_covered : ∀ f ∈ Field.all, ∀ fn ∈ assignable f, (funcIndex fn (stateTable f)).isSome := by
  decide

theorem field_mem_all (f : Field) : f ∈ Field.all := by cases f <;> decide

/-- Guard ⇒ membership in the translated list of admitted values. -/
theorem admitted_mem {fn var : String} {k : Int} (h : admitted fn var k = true) :
    ∃ ks, guardOf fn var = some ks ∧ k.toNat ∈ ks ∧ 0 ≤ k := by
  unfold admitted at h
  split at h
  · rename_i ks hk
    simp only [Bool.and_eq_true, decide_eq_true_eq, List.contains_iff_mem] at h
    exact ⟨ks, hk, h.2, h.1⟩
  · cases h

/-- The admitted values of a guarded index variable (`[]` when there is no guard). -/
def guardList (fn var : String) : List Nat := (guardOf fn var).getD []

theorem admitted_guardList {fn var : String} {k : Int} (h : admitted fn var k = true) :
    k.toNat ∈ guardList fn var ∧ 0 ≤ k := by
  obtain ⟨ks, h1, h2, h3⟩ := admitted_mem h
  simp [guardList, h1, h2, h3]

/-- Entry `k` of table `c` as the model reads it (`OOB` outside the initialiser). -/
abbrev ent (c : String) (k : Nat) : String := (tableAt c k).getD OOB

/-- `trait_new`: every admitted `kind` subscripts both tables inside their
initialisers, at a non-NULL entry that is not a property handler and is the
handler pair of that `TraitKind`; the entries are assignable. -/
theorem new_facts : ∀ k ∈ guardList "trait_new" "kind",
    k < (tableNamed "getattr_handlers").length ∧ k < (tableNamed "setattr_handlers").length ∧
    ent "getattr_handlers" k ≠ NULL ∧ ent "setattr_handlers" k ≠ NULL ∧
    requiresProperty (ent "getattr_handlers" k) = false ∧ requiresProperty (ent "setattr_handlers" k) = false ∧
    kindHandlers[k]? = some (ent "getattr_handlers" k, ent "setattr_handlers" k) ∧
    ent "getattr_handlers" k ∈ assignable .getattr ∧ ent "setattr_handlers" k ∈ assignable .setattr := by
  decide

theorem setValidate_facts : ∀ k ∈ guardList "_trait_set_validate" "kind",
    k < (tableNamed "validate_handlers").length ∧ ent "validate_handlers" k ≠ NULL ∧
    ent "validate_handlers" k ∈ assignable .validate := by
  decide

theorem delegate_facts : (∀ k ∈ guardList "_trait_delegate" "prefix_type",
    k < (tableNamed "delegate_attr_name_handlers").length ∧ ent "delegate_attr_name_handlers" k ≠ NULL ∧
    ent "delegate_attr_name_handlers" k ∈ assignable .delegateAttrName) ∧
    0 ∈ guardList "_trait_delegate" "prefix_type" := by
  decide

theorem setProperty_facts :
    (∀ k ∈ guardList "_trait_set_property" "get_n",
      k < (tableNamed "getattr_property_handlers").length ∧ ent "getattr_property_handlers" k ≠ NULL ∧
      ent "getattr_property_handlers" k ∈ assignable .getattr) ∧
    (∀ k ∈ guardList "_trait_set_property" "set_n",
      k < (tableNamed "setattr_property_handlers").length ∧ ent "setattr_property_handlers" k ≠ NULL ∧
      ent "setattr_property_handlers" k ≠ "setattr_validate_property" ∧
      ent "setattr_property_handlers" k ∈ assignable .setattr ∧
      ent "setattr_property_handlers" k ∈ assignable .postSetattr) ∧
    (∀ k ∈ guardList "_trait_set_property" "validate_n",
      k < (tableNamed "setattr_validate_handlers").length ∧ ent "setattr_validate_handlers" k ≠ NULL ∧
      ent "setattr_validate_handlers" k ∈ assignable .validate) ∧
    "setattr_validate_property" ∈ assignable .setattr := by
  decide

theorem misc_facts :
    "post_setattr_trait_python" ∈ assignable .postSetattr ∧ NULL ∈ assignable .postSetattr ∧
    NULL ∈ assignable .validate ∧ NULL ∈ assignable .delegateAttrName ∧
    "setattr_validate_property" ≠ NULL ∧ "post_setattr_trait_python" ≠ NULL := by
  decide

/-! ### Round trip of the index slots -/

theorem tableAt_restore {f : Field} {fn : String} {i : Nat} (h : funcIndex fn (stateTable f) = some i) :
    tableAt (restoreTableName f) i = some fn := by
  rw [restore_table_eq f (field_mem_all f)]
  exact (funcIndex_spec h).2

/-- `__setstate__` of the indices `__getstate__` produced restores the same five pointers. -/
theorem roundtrip_eq {s t : Fns} {i : Idx} (hg : getstateIdx s = some i) (hs : setstateIdx i = some t) :
    t = s := by
  unfold getstateIdx at hg
  split at hg
  · rename_i a b c d e ha hb hc hd he
    cases hg
    unfold setstateIdx at hs
    simp only [tableAt_restore ha, tableAt_restore hb, tableAt_restore hc, tableAt_restore hd,
      tableAt_restore he] at hs
    cases hs
    rfl
  · cases hg

/-! ### Invariant of constructible traits -/

/-- Invariant of constructible traits. -/
def Good (t : Fns) : Prop :=
  (∀ f, t.get f ∈ assignable f) ∧ t.getattr ≠ NULL ∧ t.setattr ≠ NULL

theorem good_new {k : Int} {t : Fns} (h : traitNew k = some t) : Good t := by
  unfold traitNew at h
  split at h
  · rename_i hk
    cases h
    have hm := (admitted_guardList hk).1
    obtain ⟨-, -, h3, h4, -, -, -, h8, h9⟩ := new_facts _ hm
    refine ⟨?_, h3, h4⟩
    intro f
    cases f
    · exact h8
    · exact h9
    · exact misc_facts.2.1
    · exact misc_facts.2.2.1
    · exact misc_facts.2.2.2.1
  · cases h

theorem good_step {t t' : Fns} (op : Op) (hg : Good t) (h : apply t op = some t') : Good t' := by
  obtain ⟨ha, hga, hsa⟩ := hg
  cases op with
  | setValidate kind =>
    simp only [apply] at h
    split at h
    · rename_i hk
      cases h
      have hm := (admitted_guardList hk).1
      refine ⟨?_, hga, hsa⟩
      intro f
      cases f <;> first | exact (setValidate_facts _ hm).2.2 | exact ha _
    · cases h
  | delegate p =>
    simp only [apply] at h
    cases h
    refine ⟨?_, hga, hsa⟩
    intro f
    cases f
    case delegateAttrName =>
      show ent "delegate_attr_name_handlers" _ ∈ _
      split
      · rename_i hk
        exact (delegate_facts.1 _ (admitted_guardList hk).1).2.2
      · exact (delegate_facts.1 _ delegate_facts.2).2.2
    all_goals exact ha _
  | setProperty g s v hasV =>
    simp only [apply] at h
    split at h
    · rename_i hk
      simp only [Bool.and_eq_true] at hk
      obtain ⟨⟨hg', hs'⟩, hv'⟩ := hk
      have fg := setProperty_facts.1 _ (admitted_guardList hg').1
      have fs := setProperty_facts.2.1 _ (admitted_guardList hs').1
      have fv := setProperty_facts.2.2.1 _ (admitted_guardList hv').1
      cases hasV
      · simp only [Bool.false_eq_true, ↓reduceIte] at h
        cases h
        refine ⟨?_, fg.2.1, fs.2.1⟩
        intro f
        cases f
        · exact fg.2.2
        · exact fs.2.2.2.1
        all_goals exact ha _
      · simp only [↓reduceIte] at h
        cases h
        refine ⟨?_, fg.2.1, misc_facts.2.2.2.2.1⟩
        intro f
        cases f
        · exact fg.2.2
        · exact setProperty_facts.2.2.2
        · exact fs.2.2.2.2
        · exact fv.2.2
        · exact ha _
    · cases h
  | setPostSetattr b =>
    simp only [apply] at h
    split at h
    · cases h
      exact ⟨ha, hga, hsa⟩
    · cases h
      refine ⟨?_, hga, hsa⟩
      intro f
      cases f
      case postSetattr =>
        show (if b = true then _ else _) ∈ _
        split
        · exact misc_facts.1
        · exact misc_facts.2.1
      all_goals exact ha _

theorem good_of_constructible {t : Fns} (h : Constructible t) : Good t := by
  induction h with
  | new h => exact good_new h
  | step op _ h ih => exact good_step op ih h
  | restore _ hg hs ih => rw [roundtrip_eq hg hs]; exact ih


end TraitsVerif.Lemmas.CTab
