/-
Helper lemmas for the `ctab` cluster: `func_index` as a first-occurrence
search, and the finite facts about the TRANSLATED tables that the theorems of
Props/C18 and Props/C14 (`C14_ctrait_roundtrip`) are assembled from.  Every
`decide` below ranges over a translated table / guard list, never over a sample.
-/
import TraitsVerif.Model.FuncIndex
namespace TraitsVerif.Lemmas.CTab
open TraitsVerif.Generated TraitsVerif.Model.FuncIndex

/-! ### `func_index` -/

theorem funcIndexFrom_spec (fn : String) :
    ∀ (l : List String) (k i : Nat), funcIndexFrom fn l k = some i →
      k ≤ i ∧ i - k < l.length ∧ l[i - k]? = some fn
  | [], k, i, h => by simp [funcIndexFrom] at h
  | e :: es, k, i, h => by
    unfold funcIndexFrom at h
    split at h
    · rename_i he
      cases h
      simp [he]
    · have := funcIndexFrom_spec fn es (k + 1) i h
      obtain ⟨h1, h2, h3⟩ := this
      refine ⟨by omega, by simp; omega, ?_⟩
      have : i - k = (i - (k + 1)) + 1 := by omega
      rw [this, List.getElem?_cons_succ]
      exact h3

/-- The index `func_index` returns is inside the table and names the function. -/
theorem funcIndex_spec {fn : String} {tbl : List String} {i : Nat} (h : funcIndex fn tbl = some i) :
    i < tbl.length ∧ tbl[i]? = some fn := by
  have := funcIndexFrom_spec fn tbl 0 i h
  simpa using this.2

theorem funcIndexFrom_of_mem (fn : String) :
    ∀ (l : List String) (k : Nat), fn ∈ l → ∃ i, funcIndexFrom fn l k = some i
  | [], _, h => by simp at h
  | e :: es, k, h => by
    unfold funcIndexFrom
    split
    · exact ⟨k, rfl⟩
    · rename_i hne
      have : fn ∈ es := by
        rcases List.mem_cons.mp h with h | h
        · exact absurd h hne
        · exact h
      exact funcIndexFrom_of_mem fn es (k + 1) this

/-- `func_index` terminates inside the array exactly when the function is an entry. -/
theorem funcIndex_isSome_iff {fn : String} {tbl : List String} :
    (funcIndex fn tbl).isSome ↔ fn ∈ tbl := by
  constructor
  · intro h
    obtain ⟨i, hi⟩ := Option.isSome_iff_exists.mp h
    exact List.mem_of_getElem? (funcIndex_spec hi).2
  · intro h
    obtain ⟨i, hi⟩ := funcIndexFrom_of_mem fn tbl 0 h
    simp [funcIndex, hi]

/-! ### Finite facts about the translated tables -/

/-- `__setstate__` subscripts the very table `__getstate__` searched. -/
theorem restore_table_eq : ∀ f ∈ Field.all, restoreTableName f = stateTableName f := by decide

/-- Coverage: every assignable function is an entry of the table `__getstate__` searches. -/
theorem assignable_covered : ∀ f ∈ Field.all, ∀ fn ∈ assignable f, (funcIndex fn (stateTable f)).isSome := by
  decide

theorem field_mem_all (f : Field) : f ∈ Field.all := by cases f <;> decide

/-- Guard ⇒ membership in the translated list of admitted values. -/
theorem admitted_mem {fn var : String} {k : Int} (h : admitted fn var k = true) :
    ∃ ks, guardOf fn var = some ks ∧ k.toNat ∈ ks ∧ 0 ≤ k := by
  unfold admitted at h
  split at h
  · rename_i ks hk
    simp only [Bool.and_eq_true, decide_eq_true_eq, List.contains_iff_mem] at h
    exact ⟨ks, hk, h.2, h.1⟩
  · cases h

end TraitsVerif.Lemmas.CTab
