/-
Helper lemmas for C02, part 3: invariants over histories.
-/
import TraitsVerif.Lemmas.AttrStep
namespace TraitsVerif.Model.Attr
open TraitsVerif

/-! ### `callsOf`, `UniqueIn`, `fired` -/

@[simp] theorem callsOf_append (k : Nat) (a b : List Call) : callsOf k (a ++ b) = callsOf k a ++ callsOf k b := by
  simp [callsOf]

@[simp] theorem callsOf_nil (k : Nat) : callsOf k [] = [] := rfl

theorem hasNotifiers_eq (tn on : Option (List Notifier)) :
    hasNotifiers tn on = !(snapshot tn on).isEmpty := by
  unfold hasNotifiers snapshot
  cases tn with
  | none => cases on with
    | none => rfl
    | some b => cases b <;> simp
  | some a => cases a with
    | nil => cases on with
      | none => rfl
      | some b => cases b <;> simp
    | cons x xs => simp

theorem UniqueIn.ne_nil {k : Nat} {kind : NKind} {ns : List (Notifier × Loc)} (u : UniqueIn k kind ns) :
    ns ≠ [] := by
  intro h
  subst h
  simp [UniqueIn] at u

theorem UniqueIn.hasNotifiers {k : Nat} {kind : NKind} {tn on : Option (List Notifier)}
    (u : UniqueIn k kind (snapshot tn on)) : hasNotifiers tn on = true := by
  rw [hasNotifiers_eq]
  have := u.ne_nil
  cases h : snapshot tn on with
  | nil => exact absurd h this
  | cons a l => rfl

theorem UniqueIn.exists {k : Nat} {kind : NKind} {tn on : Option (List Notifier)}
    (u : UniqueIn k kind (snapshot tn on)) : (tn.isSome || on.isSome) = true := by
  have := u.ne_nil
  unfold snapshot at this
  cases tn <;> cases on <;> simp_all

/-- Handler `k`'s share of one round of notifications. -/
theorem callsOf_fired {k : Nat} {kind : NKind} {ns : List (Notifier × Loc)} (u : UniqueIn k kind ns)
    (c : Cmp) (t : TraitCore) (self old new : Id) :
    callsOf k (fired c t self old new ns) =
      if wrapperFires c t.kind t.flags kind old new then [(old, new)] else [] := by
  unfold callsOf fired
  rw [List.filter_map, List.filter_filter]
  have e : (ns.filter fun p => ((fun c : Call => c.h == k) ∘ fun p : Notifier × Loc =>
        (⟨self, p.1.h, old, new⟩ : Call)) p && wrapperFires c t.kind t.flags p.1.kind old new)
      = (ns.filter (fun p => p.1.h == k)).filter (fun p => wrapperFires c t.kind t.flags p.1.kind old new) := by
    rw [List.filter_filter]
    congr 1
    funext p
    simp [Bool.and_comm]
  rw [e]
  unfold UniqueIn at u
  cases hf : ns.filter (fun p => p.1.h == k) with
  | nil => simp [hf] at u
  | cons p rest =>
    cases rest with
    | cons _ _ => simp [hf] at u
    | nil =>
      simp [hf] at u
      subst u
      by_cases hw : wrapperFires c t.kind t.flags p.1.kind old new = true <;> simp [List.filter, hw]

/-! ### The C pre-filter and the wrapper filter together are the property's `counts` -/

theorem fires_counts_observe (c : Cmp) (m : CMode) (o p : Bool) (old new : Id) (ho : old ≠ uninit) :
    ((m == .none || old != new) && wrapperFires c .trait (mkFlags m o p) .observe old new) = counts c m old new := by
  unfold wrapperFires preventEvent counts
  rw [eqMode_mkFlags]
  cases m <;> simp [ho]
  cases c.eqv old new <;> cases hb : (old != new) <;> simp_all <;> decide

theorem fires_counts_legacy (c : Cmp) (m : CMode) (o p : Bool) (old new : Id) (ho : old ≠ uninit)
    (k : NKind) (hk : k ≠ .observe) (hc : m = .equality → Consistent c) :
    ((m == .none || old != new) && wrapperFires c .trait (mkFlags m o p) k old new) = counts c m old new := by
  have hw : wrapperFires c .trait (mkFlags m o p) k old new = changeAccepted c .trait (mkFlags m o p) old new := by
    cases k <;> simp_all [wrapperFires]
  rw [hw]
  unfold changeAccepted changeAcceptedCmp counts
  rw [eqMode_mkFlags]
  cases m <;> simp [ho]
  have hcc := hc rfl old new
  cases h1 : c.neq old new <;> cases h2 : c.eqv old new <;> cases hb : (old != new) <;> simp_all <;> decide

theorem fires_counts (c : Cmp) (m : CMode) (o p : Bool) (old new : Id) (ho : old ≠ uninit)
    (k : NKind) (hc : k ≠ .observe → m = .equality → Consistent c) :
    ((m == .none || old != new) && wrapperFires c .trait (mkFlags m o p) k old new) = counts c m old new := by
  by_cases hk : k = .observe
  · subst hk; exact fires_counts_observe c m o p old new ho
  · exact fires_counts_legacy c m o p old new ho k hk (hc hk)

/-! ### Projections of the normal forms when somebody listens -/

section proj
variable {E : Env} {t : TraitCore} {m : CMode} {orig po : Bool} {d : Id}

theorem setNF_proj (s : OSt) (v w : Id) (nv : Nat) (hn : hasNotifiers s.tn s.on = true) (hnn : s.noNotify = false) :
    let s' := setNF E t m orig po d s v w nv
    s'.slot = some (if orig then v else w) ∧ s'.tn = s.tn ∧ s'.on = s.on ∧ s'.noNotify = false ∧
    s'.self = s.self ∧ s'.ctx.nval = nv ∧
    s'.ctx.log = s.ctx.log ++
      (if m == .none || s.slot.getD d != w then
        fired E.cmp t s.self (s.slot.getD d) (if orig then v else w) (snapshot s.tn s.on) else []) := by
  unfold setNF
  simp only [hn, hnn, Bool.or_true, if_true, Bool.false_eq_true, if_false]
  cases hslot : s.slot with
  | none => by_cases hc : (m == CMode.none || d != w) = true <;> simp [hc, hnn]
  | some old => by_cases hc : (m == CMode.none || old != w) = true <;> simp [hc, hnn]

theorem setNF_quiet_proj (s : OSt) (v w : Id) (nv : Nat) (hnn : s.noNotify = true) :
    let s' := setNF E t m orig po d s v w nv
    s'.slot = some (if orig then v else w) ∧ s'.tn = s.tn ∧ s'.on = s.on ∧
    s'.self = s.self ∧ s'.ctx.nval = nv ∧ s'.ctx.log = s.ctx.log := by
  unfold setNF
  simp only [hnn, if_true]
  cases hslot : s.slot <;> (repeat' split) <;> simp

theorem delNF_proj (s : OSt) (old : Id) (hs : s.slot = some old) (hn : hasNotifiers s.tn s.on = true)
    (hex : (s.tn.isSome || s.on.isSome) = true) (hnn : s.noNotify = false) :
    let s' := delNF E t m d s
    s'.slot = some d ∧ s'.tn = s.tn ∧ s'.on = s.on ∧ s'.noNotify = false ∧
    s'.self = s.self ∧ s'.ctx.nval = s.ctx.nval ∧
    s'.ctx.log = s.ctx.log ++
      (if m == .none || old != d then fired E.cmp t s.self old d (snapshot s.tn s.on) else []) := by
  unfold delNF
  simp only [hs, hnn, hex, hn, if_true, Bool.false_eq_true, if_false]
  by_cases hc : (m == CMode.none || old != d) = true <;> simp [hc]

theorem getNF_proj (s : OSt) :
    let s' := getNF t d s
    s'.slot = some (s.slot.getD d) ∧ s'.tn = s.tn ∧ s'.on = s.on ∧ s'.noNotify = s.noNotify ∧
    s'.self = s.self ∧ s'.ctx.nval = s.ctx.nval ∧ s'.ctx.log = s.ctx.log := by
  unfold getNF
  cases hs : s.slot <;> simp [hs]

theorem eventNF_proj (s : OSt) (w : Id) (nv : Nat) (hn : hasNotifiers s.tn s.on = true)
    (hnn : s.noNotify = false) :
    let s' := eventNF E t s w nv
    s'.slot = s.slot ∧ s'.tn = s.tn ∧ s'.on = s.on ∧ s'.noNotify = false ∧
    s'.self = s.self ∧ s'.ctx.nval = nv ∧
    s'.ctx.log = s.ctx.log ++ fired E.cmp t s.self undef w (snapshot s.tn s.on) := by
  unfold eventNF
  simp [hn, hnn]

theorem eventNF_quiet_proj (s : OSt) (w : Id) (nv : Nat) (hnn : s.noNotify = true) :
    let s' := eventNF E t s w nv
    s'.slot = s.slot ∧ s'.tn = s.tn ∧ s'.on = s.on ∧
    s'.self = s.self ∧ s'.ctx.nval = nv ∧ s'.ctx.log = s.ctx.log := by
  unfold eventNF
  cases hn : hasNotifiers s.tn s.on <;> simp [hnn]

end proj

/-! ### Histories -/

/-- The histories property C02 speaks about: assignments, deletes, reads,
`trait_setq`; `Uninitialized` is never assigned. -/
def HistOk (h : List Op) : Prop :=
  ∀ op ∈ h, op.isValue = true ∧ op ≠ .set uninit ∧ op ≠ .setq uninit

instance (h : List Op) : Decidable (HistOk h) := by
  unfold HistOk; infer_instance

/-- `Uninitialized` is neither the declared default nor produced by a validator. -/
structure Clean (E : Env) (d : Id) : Prop where
  dflt : d ≠ uninit
  val : ∀ k n v w, E.validate k n v = .ok w → w ≠ uninit

theorem HistOk.tail {op : Op} {h : List Op} (H : HistOk (op :: h)) : HistOk h :=
  fun o ho => H o (List.mem_cons_of_mem _ ho)

theorem specValidate_clean {E : Env} {d : Id} (cl : Clean E d) (t : TraitCore) (b : Bool) (n : Nat) (v w : Id)
    (nv : Nat) (hv : v ≠ uninit) (h : specValidate E t b n v = (.ok w, nv)) : w ≠ uninit := by
  unfold specValidate at h
  cases ht : t.validate with
  | none => simp [ht] at h; exact h.1 ▸ hv
  | some k =>
    simp only [ht] at h
    split at h
    · simp at h; exact h.1 ▸ hv
    · simp at h; exact cl.val k n v w h.1

theorem getD_clean {d : Id} {o : Option Id} (hd : d ≠ uninit) (ho : o ≠ some uninit) : o.getD d ≠ uninit := by
  cases o with
  | none => exact hd
  | some x => intro h; exact ho (by simp at h; rw [h])

/-- Invariant of the exactly-once argument. -/
structure Inv (k : Nat) (kind : NKind) (s : OSt) : Prop where
  nn : s.noNotify = false
  uniq : UniqueIn k kind (snapshot s.tn s.on)
  clean : s.slot ≠ some uninit

section runs
variable {E : Env} {t : TraitCore} {m : CMode} {po : Bool} {d : Id}

/-- Standard traits that store the validated value: every handler's call log is
the specification filter of the history. -/
theorem exactly_once_run (st : StdTrait t m false po d) (q : Quiet E) (pq : PostQuiet E) (cl : Clean E d)
    {k : Nat} {kind : NKind} (hc : kind ≠ .observe → m = .equality → Consistent E.cmp) :
    ∀ (h : List Op) (s : OSt), HistOk h → Inv k kind s →
      callsOf k (run E t s h).ctx.log =
        callsOf k s.ctx.log ++ realChanges E t m false d ⟨s.slot, s.ctx.nval⟩ h
  | [], s, _, _ => by simp [run, realChanges]
  | op :: h, s, H, I => by
    have Hop := H op (List.mem_cons_self)
    have hn := I.uniq.hasNotifiers
    have hex := I.uniq.exists
    have hold : s.slot.getD d ≠ uninit := getD_clean cl.dflt I.clean
    cases op with
    | set v =>
      have hv : v ≠ uninit := fun e => Hop.2.1 (by rw [e])
      rw [run, step_set_nf st q pq, realChanges]
      cases hsv : specValidate E t true s.ctx.nval v with
      | mk r nv =>
        cases r with
        | error e =>
          have I' : Inv k kind (s.withNval nv) := ⟨I.nn, I.uniq, I.clean⟩
          simpa using exactly_once_run st q pq cl hc h (s.withNval nv) H.tail I'
        | ok w =>
          have hw := specValidate_clean cl t true _ v w nv hv hsv
          obtain ⟨p1, p2, p3, p4, -, p6, p7⟩ := setNF_proj (E := E) (t := t) (m := m) (orig := false) (po := po)
            (d := d) s v w nv hn I.nn
          simp only [Bool.false_eq_true, if_false] at p1 p7
          have I' : Inv k kind (setNF E t m false po d s v w nv) :=
            ⟨p4, by rw [p2, p3]; exact I.uniq, by rw [p1]; intro e; exact hw (by simpa using e)⟩
          have ih := exactly_once_run st q pq cl hc h _ H.tail I'
          simp only [] at ih ⊢
          rw [ih, p1, p6, p7]
          have hf := fires_counts E.cmp m false po (s.slot.getD d) w hold kind hc
          rw [← st.flags, ← st.kind] at hf
          simp only [callsOf_append, List.append_assoc, Bool.false_eq_true, if_false]
          congr 1
          congr 1
          rw [← hf]
          by_cases hcc : (m == CMode.none || s.slot.getD d != w) = true
          · simp [hcc, callsOf_fired I.uniq]
          · simp [hcc]
    | setq v =>
      have hv : v ≠ uninit := fun e => Hop.2.2 (by rw [e])
      rw [run, step_setq_nf st q pq, realChanges]
      cases hsv : specValidate E t true s.ctx.nval v with
      | mk r nv =>
        cases r with
        | error e =>
          have I' : Inv k kind { (s.withNval nv) with noNotify := false } := ⟨rfl, I.uniq, I.clean⟩
          simpa using exactly_once_run st q pq cl hc h _ H.tail I'
        | ok w =>
          have hw := specValidate_clean cl t true _ v w nv hv hsv
          obtain ⟨p1, p2, p3, -, p6, p7⟩ := setNF_quiet_proj (E := E) (t := t) (m := m) (orig := false) (po := po)
            (d := d) { s with noNotify := true } v w nv rfl
          simp only [Bool.false_eq_true, if_false] at p1
          have I' : Inv k kind { (setNF E t m false po d { s with noNotify := true } v w nv) with noNotify := false } :=
            ⟨rfl, by
              show UniqueIn k kind (snapshot (setNF E t m false po d { s with noNotify := true } v w nv).tn
                (setNF E t m false po d { s with noNotify := true } v w nv).on)
              rw [p2, p3]; exact I.uniq,
             by intro e; exact hw (by simpa [p1] using e)⟩
          have ih := exactly_once_run st q pq cl hc h _ H.tail I'
          simp only [] at ih ⊢
          rw [ih]
          simp [p1, p6, p7]
    | del =>
      rw [run, step_del_nf st q pq, realChanges]
      cases hs : s.slot with
      | none =>
        have e : delNF E t m d s = s := by simp [delNF, hs]
        simp only [e]
        have ih := exactly_once_run st q pq cl hc h s H.tail I
        rw [ih, hs]
      | some old =>
        have ho : old ≠ uninit := fun e => I.clean (by rw [hs, e])
        obtain ⟨p1, p2, p3, p4, -, p6, p7⟩ := delNF_proj (E := E) (t := t) (m := m) (d := d) s old hs hn hex I.nn
        have I' : Inv k kind (delNF E t m d s) :=
          ⟨p4, by rw [p2, p3]; exact I.uniq, by rw [p1]; intro e; exact cl.dflt (by simpa using e)⟩
        have ih := exactly_once_run st q pq cl hc h _ H.tail I'
        simp only [] at ih ⊢
        rw [ih, p1, p6, p7]
        have hf := fires_counts E.cmp m false po old d ho kind hc
        rw [← st.flags, ← st.kind] at hf
        simp only [callsOf_append, List.append_assoc]
        congr 1
        congr 1
        rw [← hf]
        by_cases hcc : (m == CMode.none || old != d) = true
        · simp [hcc, callsOf_fired I.uniq]
        · simp [hcc]
    | get =>
      rw [run, step_get_nf st q pq, realChanges]
      obtain ⟨p1, p2, p3, p4, -, p6, p7⟩ := getNF_proj (t := t) (d := d) s
      have I' : Inv k kind (getNF t d s) :=
        ⟨p4 ▸ I.nn, by rw [p2, p3]; exact I.uniq, by rw [p1]; intro e; exact hold (by simpa using e)⟩
      have ih := exactly_once_run st q pq cl hc h _ H.tail I'
      simp only [] at ih ⊢
      rw [ih, p1, p6, p7]
    | regDyn _ _ => exact absurd Hop.1 (by simp [Op.isValue])
    | unregDyn _ => exact absurd Hop.1 (by simp [Op.isValue])
    | regAny _ _ => exact absurd Hop.1 (by simp [Op.isValue])
    | unregAny _ => exact absurd Hop.1 (by simp [Op.isValue])
    | regObs _ => exact absurd Hop.1 (by simp [Op.isValue])
    | unregObs _ => exact absurd Hop.1 (by simp [Op.isValue])

end runs

end TraitsVerif.Model.Attr
