/-
Helper lemmas for C02, part 3: invariants over histories.
-/
import TraitsVerif.Lemmas.AttrStep
namespace TraitsVerif.Model.Attr
open TraitsVerif

/-! ### `callsOf`, `UniqueIn`, `fired` -/

@[simp] theorem callsOf_append (k : Nat) (a b : List Call) : callsOf k (a ++ b) = callsOf k a ++ callsOf k b := by
  simp [callsOf]

@[simp] theorem callsOf_nil (k : Nat) : callsOf k [] = [] := rfl

theorem hasNotifiers_eq (tn on : Option (List Notifier)) :
    hasNotifiers tn on = !(snapshot tn on).isEmpty := by
  unfold hasNotifiers snapshot
  cases tn with
  | none => cases on with
    | none => rfl
    | some b => cases b <;> simp
  | some a => cases a with
    | nil => cases on with
      | none => rfl
      | some b => cases b <;> simp
    | cons x xs => simp

theorem UniqueIn.ne_nil {k : Nat} {kind : NKind} {ns : List (Notifier × Loc)} (u : UniqueIn k kind ns) :
    ns ≠ [] := by
  intro h
  subst h
  simp [UniqueIn] at u

theorem UniqueIn.hasNotifiers {k : Nat} {kind : NKind} {tn on : Option (List Notifier)}
    (u : UniqueIn k kind (snapshot tn on)) : hasNotifiers tn on = true := by
  rw [hasNotifiers_eq]
  have := u.ne_nil
  cases h : snapshot tn on with
  | nil => exact absurd h this
  | cons a l => rfl

theorem UniqueIn.exists {k : Nat} {kind : NKind} {tn on : Option (List Notifier)}
    (u : UniqueIn k kind (snapshot tn on)) : (tn.isSome || on.isSome) = true := by
  have := u.ne_nil
  unfold snapshot at this
  cases tn <;> cases on <;> simp_all

/-- Handler `k`'s share of one round of notifications. -/
theorem callsOf_fired {k : Nat} {kind : NKind} {ns : List (Notifier × Loc)} (u : UniqueIn k kind ns)
    (c : Cmp) (t : TraitCore) (self old new : Id) :
    callsOf k (fired c t self old new ns) =
      if wrapperFires c t.kind t.flags kind old new then [(old, new)] else [] := by
  unfold callsOf fired
  rw [List.filter_map, List.filter_filter]
  have e : (ns.filter fun p => ((fun c : Call => c.h == k) ∘ fun p : Notifier × Loc =>
        (⟨self, p.1.h, old, new⟩ : Call)) p && wrapperFires c t.kind t.flags p.1.kind old new)
      = (ns.filter (fun p => p.1.h == k)).filter (fun p => wrapperFires c t.kind t.flags p.1.kind old new) := by
    rw [List.filter_filter]
    congr 1
    funext p
    simp [Bool.and_comm]
  rw [e]
  unfold UniqueIn at u
  cases hf : ns.filter (fun p => p.1.h == k) with
  | nil => simp [hf] at u
  | cons p rest =>
    cases rest with
    | cons _ _ => simp [hf] at u
    | nil =>
      simp [hf] at u
      subst u
      by_cases hw : wrapperFires c t.kind t.flags p.1.kind old new = true <;> simp [List.filter, hw]

/-! ### The C pre-filter and the wrapper filter together are the property's `counts` -/

theorem fires_counts_observe (c : Cmp) (m : CMode) (o p : Bool) (old new : Id) (ho : old ≠ uninit) :
    ((m == .none || old != new) && wrapperFires c .trait (mkFlags m o p) .observe old new) = counts c m old new := by
  unfold wrapperFires preventEvent counts
  rw [eqMode_mkFlags]
  cases m <;> simp [ho]
  cases c.eqv old new <;> cases hb : (old != new) <;> simp_all <;> decide

theorem fires_counts_legacy (c : Cmp) (m : CMode) (o p : Bool) (old new : Id) (ho : old ≠ uninit)
    (k : NKind) (hk : k ≠ .observe) (hc : m = .equality → Consistent c) :
    ((m == .none || old != new) && wrapperFires c .trait (mkFlags m o p) k old new) = counts c m old new := by
  have hw : wrapperFires c .trait (mkFlags m o p) k old new = changeAccepted c .trait (mkFlags m o p) old new := by
    cases k <;> simp_all [wrapperFires]
  rw [hw]
  unfold changeAccepted changeAcceptedCmp counts
  rw [eqMode_mkFlags]
  cases m <;> simp [ho]
  have hcc := hc rfl old new
  cases h1 : c.neq old new <;> cases h2 : c.eqv old new <;> cases hb : (old != new) <;> simp_all <;> decide

theorem fires_counts (c : Cmp) (m : CMode) (o p : Bool) (old new : Id) (ho : old ≠ uninit)
    (k : NKind) (hc : k ≠ .observe → m = .equality → Consistent c) :
    ((m == .none || old != new) && wrapperFires c .trait (mkFlags m o p) k old new) = counts c m old new := by
  by_cases hk : k = .observe
  · subst hk; exact fires_counts_observe c m o p old new ho
  · exact fires_counts_legacy c m o p old new ho k hk (hc hk)

/-! ### Projections of the normal forms when somebody listens -/

section proj
variable {E : Env} {t : TraitCore} {m : CMode} {orig po : Bool} {d : Id}

theorem setNF_proj (s : OSt) (v w : Id) (nv : Nat) (hn : hasNotifiers s.tn s.on = true) (hnn : s.noNotify = false) :
    let s' := setNF E t m orig po d s v w nv
    s'.slot = some (if orig then v else w) ∧ s'.tn = s.tn ∧ s'.on = s.on ∧ s'.noNotify = false ∧
    s'.self = s.self ∧ s'.ctx.nval = nv ∧
    s'.ctx.log = s.ctx.log ++
      (if m == .none || s.slot.getD d != w then
        fired E.cmp t s.self (s.slot.getD d) (if orig then v else w) (snapshot s.tn s.on) else []) := by
  unfold setNF
  simp only [hn, hnn, Bool.or_true, if_true, Bool.false_eq_true, if_false]
  cases hslot : s.slot with
  | none => by_cases hc : (m == CMode.none || d != w) = true <;> simp [hc, hnn]
  | some old => by_cases hc : (m == CMode.none || old != w) = true <;> simp [hc, hnn]

theorem setNF_quiet_proj (s : OSt) (v w : Id) (nv : Nat) (hnn : s.noNotify = true) :
    let s' := setNF E t m orig po d s v w nv
    s'.slot = some (if orig then v else w) ∧ s'.tn = s.tn ∧ s'.on = s.on ∧
    s'.self = s.self ∧ s'.ctx.nval = nv ∧ s'.ctx.log = s.ctx.log := by
  unfold setNF
  simp only [hnn, if_true]
  cases hslot : s.slot <;> (repeat' split) <;> simp

theorem delNF_proj (s : OSt) (old : Id) (hs : s.slot = some old) (hn : hasNotifiers s.tn s.on = true)
    (hex : (s.tn.isSome || s.on.isSome) = true) (hnn : s.noNotify = false) :
    let s' := delNF E t m d s
    s'.slot = some d ∧ s'.tn = s.tn ∧ s'.on = s.on ∧ s'.noNotify = false ∧
    s'.self = s.self ∧ s'.ctx.nval = s.ctx.nval ∧
    s'.ctx.log = s.ctx.log ++
      (if m == .none || old != d then fired E.cmp t s.self old d (snapshot s.tn s.on) else []) := by
  unfold delNF
  simp only [hs, hnn, hex, hn, if_true, Bool.false_eq_true, if_false]
  by_cases hc : (m == CMode.none || old != d) = true <;> simp [hc]

theorem getNF_proj (s : OSt) :
    let s' := getNF t d s
    s'.slot = some (s.slot.getD d) ∧ s'.tn = s.tn ∧ s'.on = s.on ∧ s'.noNotify = s.noNotify ∧
    s'.self = s.self ∧ s'.ctx.nval = s.ctx.nval ∧ s'.ctx.log = s.ctx.log := by
  unfold getNF
  cases hs : s.slot <;> simp

theorem eventNF_proj (s : OSt) (w : Id) (nv : Nat) (hn : hasNotifiers s.tn s.on = true)
    (hnn : s.noNotify = false) :
    let s' := eventNF E t s w nv
    s'.slot = s.slot ∧ s'.tn = s.tn ∧ s'.on = s.on ∧ s'.noNotify = false ∧
    s'.self = s.self ∧ s'.ctx.nval = nv ∧
    s'.ctx.log = s.ctx.log ++ fired E.cmp t s.self undef w (snapshot s.tn s.on) := by
  unfold eventNF
  simp [hn, hnn]

theorem eventNF_quiet_proj (s : OSt) (w : Id) (nv : Nat) (hnn : s.noNotify = true) :
    let s' := eventNF E t s w nv
    s'.slot = s.slot ∧ s'.tn = s.tn ∧ s'.on = s.on ∧
    s'.self = s.self ∧ s'.ctx.nval = nv ∧ s'.ctx.log = s.ctx.log := by
  unfold eventNF
  cases hn : hasNotifiers s.tn s.on <;> simp [hnn]

end proj

end TraitsVerif.Model.Attr
