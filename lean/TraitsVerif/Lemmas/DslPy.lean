/-
C15 — the hand-written compiler model (Model/DslCompile.lean: `toExpr`, `create`,
`compileChars`) is the interpretation (Model/DslPy.lean) of the program that
`harness/translate/dslprog.py` read from the working tree's parsing.py /
expression.py / observer classes (Generated/DslProg.lean).

Every handler / method body is a closed program: its run on symbolic data
(any name, any notify flag, any operand expressions, any list of branches) is
ONE definitional unfolding, checked by the kernel (`kernel_rfl` = the proof term
`Eq.refl _`; the elaborator's own, much slower, unifier is not asked).  The
recursion over the tree / the expression is ordinary structural induction.
-/
import Lean
import TraitsVerif.Generated.DslProg
import TraitsVerif.Lemmas.DslCompile
namespace TraitsVerif.Model.DslPy
open TraitsVerif TraitsVerif.Model.Dsl TraitsVerif.Generated

open Lean Elab Tactic Meta in
/-- Close a goal `a = b` with the term `Eq.refl b`; that `a` and `b` are
definitionally equal is checked by the kernel when the theorem is added (no
axiom, no `native_decide`: a failing check is a kernel type error). -/
elab "kernel_rfl" : tactic => do
  let g ← getMainGoal
  let t ← instantiateMVars (← g.getType)
  let some (_, _, rhs) := t.eq? | throwError "kernel_rfl: the goal is not an equality"
  g.assign (← mkEqRefl rhs)

theorem bool_fun (f : Bool → Expr) : f = fun b => cond b (f true) (f false) := by
  funext b; cases b <;> rfl

/-! ## parsing.py: the handlers -/

theorem leaf_trait (x : Name) (t n : Bool) :
    interpTree dslProg t (.trait x) n = .ok (.expr (toExpr (.trait x) n)) := by kernel_rfl
theorem leaf_metadata (x : Name) (t n : Bool) :
    interpTree dslProg t (.metadata x) n = .ok (.expr (toExpr (.metadata x) n)) := by kernel_rfl
theorem leaf_items (t n : Bool) :
    interpTree dslProg t .items n = .ok (.expr (toExpr .items n)) := by kernel_rfl
theorem leaf_any (t n : Bool) :
    interpTree dslProg t .any n = .ok (.expr (toExpr .any n)) := by kernel_rfl

/-- `_handle_tree` on a `series` / `series_terminal` node, whatever the handling
of the two operand trees returns (`fl`, `fr` : notify flag -> expression). -/
theorem series_handler (fl fr : Bool → Expr) (t n : Bool) (c : Conn) :
    (runFunc dslProg ⟨treeHook (fun i b => match i with
        | 0 => .ok (.expr (fl b))
        | 2 => .ok (.expr (fr b))
        | _ => stuckE), noLark⟩ "parsing._handle_tree"
      [.node (if t then "series_terminal" else "series") [.sub 0, .node (connName c) [], .sub 2],
       .bool n]).collapse
    = .ok (.expr (.series (fl (c == .notify)) (fr n))) := by
  rw [bool_fun fl]
  generalize fl true = x
  generalize fl false = y
  cases t <;> cases c
  · cases x <;> kernel_rfl
  · cases y <;> kernel_rfl
  · cases x <;> kernel_rfl
  · cases y <;> kernel_rfl

theorem parallel_handler (fl fr : Bool → Expr) (t n : Bool) :
    (runFunc dslProg ⟨treeHook (fun i b => match i with
        | 0 => .ok (.expr (fl b))
        | 1 => .ok (.expr (fr b))
        | _ => stuckE), noLark⟩ "parsing._handle_tree"
      [.node (if t then "parallel_terminal" else "parallel") [.sub 0, .sub 1], .bool n]).collapse
    = .ok (.expr (.parallel (fl n) (fr n))) := by
  rw [bool_fun fl]
  generalize fl true = x
  generalize fl false = y
  cases t <;> cases n
  · cases y <;> kernel_rfl
  · cases x <;> kernel_rfl
  · cases y <;> kernel_rfl
  · cases x <;> kernel_rfl

theorem interpTree_eq (c : Cst) :
    ∀ (t n : Bool), interpTree dslProg t c n = .ok (.expr (toExpr c n)) := by
  induction c with
  | trait x => exact leaf_trait x
  | items => exact leaf_items
  | metadata x => exact leaf_metadata x
  | any => exact leaf_any
  | group p ih => intro t n; simp only [interpTree, toExpr]; exact ih false n
  | ser l c r ihl ihr =>
    intro t n
    simp only [interpTree, ihl, ihr, toExpr, ruleName]
    exact series_handler (toExpr l) (toExpr r) t n c
  | par l r ihl ihr =>
    intro t n
    simp only [interpTree, ihl, ihr, toExpr, ruleName]
    exact parallel_handler (toExpr l) (toExpr r) t n

/-! ## expression.py: `_create_graphs` -/

/-- `SingleObserverExpression._create_graphs` + `ObserverGraph.__init__` on any
observer and any branches: the de-duplication, then the uniqueness test as an
unevaluated branch. -/
theorem single_raw (o : Observer) (br : Forest) (rec : Nat → Forest → Res) :
    interpCreateR dslProg rec (.single o) br =
      .ite (!(br.dedupe.dedupe.length == br.dedupe.length)) (.error (.exc "ValueError"))
        (.ok (.forest (.cons o br.dedupe .nil))) := by
  kernel_rfl

theorem single_create (o : Observer) (br : Forest) :
    interpCreate dslProg (.single o) br = liftRes .forest (create (.single o) br) := by
  have h1 := Forest.unique_dedupe br
  have h2 := Forest.dedupe_of_unique _ h1
  simp only [interpCreate, single_raw, R.collapse, h2, create, h1, if_true, liftRes]
  simp

/-- `SeriesObserverExpression._create_graphs`, whatever (total) functions the
operands' `_create_graphs` are: second first, its graphs are the branches of the first. -/
theorem series_raw (a b : Expr) (da db : Forest → Forest) (br : Forest) :
    (interpCreateR dslProg (fun i f => match i with
        | 0 => .ok (.forest (da f))
        | 1 => .ok (.forest (db f))
        | _ => stuckE) (.series a b) br).collapse = .ok (.forest (da (db br))) := by
  cases a <;> cases b <;> kernel_rfl

/-- `ParallelObserverExpression._create_graphs`: both operands on the same branches, left graphs first. -/
theorem parallel_raw (a b : Expr) (da db : Forest → Forest) (br : Forest) :
    (interpCreateR dslProg (fun i f => match i with
        | 0 => .ok (.forest (da f))
        | 1 => .ok (.forest (db f))
        | _ => stuckE) (.parallel a b) br).collapse = .ok (.forest (da br ++ db br)) := by
  cases a <;> cases b <;> kernel_rfl

theorem interpCreate_eqD (e : Expr) :
    ∀ br, interpCreate dslProg e br = .ok (.forest (createD e br)) := by
  induction e with
  | single o =>
    intro br
    rw [single_create, create_total]
    rfl
  | series a b iha ihb =>
    intro br
    simp only [interpCreate, iha, ihb, createD]
    exact series_raw a b (createD a) (createD b) br
  | parallel a b iha ihb =>
    intro br
    simp only [interpCreate, iha, ihb, createD]
    exact parallel_raw a b (createD a) (createD b) br

theorem interpCreate_eq (e : Expr) (br : Forest) :
    interpCreate dslProg e br = liftRes .forest (create e br) := by
  rw [interpCreate_eqD, create_total]
  rfl

/-! ## the whole path: compile_str -> parse -> _handle_tree; compile_expr -> _as_graphs -> _create_graphs -/

theorem parse_raw (te : Cst → Bool → Expr) (tree : Option Cst) :
    (interpParseR dslProg (fun c b => .ok (.expr (te c b))) tree).collapse =
      match tree with
      | none => .error (.exc "ValueError")
      | some c => .ok (.expr (te c true)) := by
  cases tree <;> kernel_rfl

theorem compileExpr_raw (cd : Expr → Forest → Forest) (e : Expr) :
    (interpCompileExprR dslProg (fun e f => .ok (.forest (cd e f))) e).collapse =
      .ok (.forest (cd e .nil)) := by
  cases e <;> kernel_rfl

theorem compileStr_raw_ok (g : Expr → Forest) (e : Expr) :
    (interpCompileStrR dslProg (.ok (.expr e)) (fun e => .ok (.forest (g e)))).collapse =
      .ok (.forest (g e)) := by
  kernel_rfl

theorem compileStr_raw_err (x : Err) (rec : Expr → Res) :
    (interpCompileStrR dslProg (.error x) rec).collapse = .error x := by
  kernel_rfl

theorem interpParse_eq (uw : Char → Bool) (s : List Char) :
    interpParse dslProg uw s =
      match parseChars uw s with
      | none => .error (.exc "ValueError")
      | some c => .ok (.expr (toExpr c true)) := by
  have h : interpTree dslProg true = fun c b => .ok (.expr (toExpr c b)) := by
    funext c b; exact interpTree_eq c true b
  simp only [interpParse, h]
  exact parse_raw toExpr _

theorem interpCompileExpr_eq (e : Expr) :
    interpCompileExpr dslProg e = liftRes .forest (compileExpr e) := by
  have h : interpCreate dslProg = fun e f => .ok (.forest (createD e f)) := by
    funext e f; exact interpCreate_eqD e f
  simp only [interpCompileExpr, h, compileExpr, create_total, liftRes]
  exact compileExpr_raw createD e

theorem interpCompileStr_eq (uw : Char → Bool) (s : List Char) :
    interpCompileStr dslProg uw s = liftRes .forest (compileChars uw s) := by
  have h : interpCompileExpr dslProg = fun e => .ok (.forest (createD e .nil)) := by
    funext e; rw [interpCompileExpr_eq, compileExpr, create_total]; rfl
  simp only [interpCompileStr, interpParse_eq, h, compileChars]
  cases parseChars uw s with
  | none => exact compileStr_raw_err _ _
  | some c =>
    simp only [compileExpr, create_total, liftRes]
    exact compileStr_raw_ok (fun e => createD e .nil) (toExpr c true)

/-! ## expression.join: `functools.reduce(lambda e1, e2: e1.then(e2), expressions)` -/

theorem collapse_bind {α β : Type} (r : R α) (k : α → R β) :
    (r.bind k).collapse = match r.collapse with
      | .ok a => (k a).collapse
      | .error e => .error e := by
  induction r with
  | ok a => rfl
  | error e => rfl
  | ite b t e iht ihe => cases b <;> simp [R.bind, R.collapse, iht, ihe]

/-- the evaluator under which the lambda of `join` runs -/
abbrev joinEv : Env → DExpr → RV := eval dslProg ⟨noHook, noLark⟩ (FUEL - 1)

/-- `join(a, …)` is the reduction with the lambda read from the source, started at `a`. -/
theorem join_unfold (a : DVal) (rest : List DVal) :
    interpJoinL dslProg (a :: rest) =
      (((reduceR joinEv (joinLam dslProg).1 (joinLam dslProg).2.1 (joinLam dslProg).2.2 a rest).bind
          (fun v => .ok (some v, [("expressions", .list (a :: rest))]))).bind retVal).collapse := by
  kernel_rfl

theorem join_none : interpJoinL dslProg [] = .error (.exc "TypeError") := by kernel_rfl

/-- one step of the reduction: `e1.then(e2)` -/
theorem join_step (e v : Expr) (rest : List DVal) :
    reduceR joinEv (joinLam dslProg).1 (joinLam dslProg).2.1 (joinLam dslProg).2.2 (.expr e) (.expr v :: rest) =
      reduceR joinEv (joinLam dslProg).1 (joinLam dslProg).2.1 (joinLam dslProg).2.2 (.expr (.series e v)) rest := by
  cases e <;> kernel_rfl

theorem join_reduce (es : List Expr) : ∀ e,
    reduceR joinEv (joinLam dslProg).1 (joinLam dslProg).2.1 (joinLam dslProg).2.2 (.expr e) (es.map .expr) =
      .ok (.expr (es.foldl .series e)) := by
  induction es with
  | nil => intro e; rfl
  | cons v vs ih => intro e; rw [List.map_cons, join_step, ih]; rfl

theorem interpJoin_eq (e : Expr) (es : List Expr) :
    interpJoin dslProg e es = .ok (.expr (es.foldl .series e)) := by
  rw [interpJoin, join_unfold, join_reduce]
  rfl

end TraitsVerif.Model.DslPy
