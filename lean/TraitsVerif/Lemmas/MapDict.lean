/-
Facts about the builtin-dict model `Py.Dict` (association lists): lookups after
`set` / `erase` / `update`, preservation of the no-duplicate-keys invariant, and
`d.update(dict(pairs)) = d.update(pairs)` including insertion order.
-/
import TraitsVerif.Py.Dict
set_option linter.unusedSectionVars false
namespace TraitsVerif.Py.Dict
variable {K V : Type} [DecidableEq K]

@[simp] theorem get?_nil (k : K) : get? ([] : Dict K V) k = none := rfl

theorem get?_cons (k' : K) (v : V) (d : Dict K V) (k : K) :
    get? ((k', v) :: d) k = if k' = k then some v else get? d k := rfl

theorem contains_eq (d : Dict K V) (k : K) : contains d k = (get? d k).isSome := rfl

theorem get?_eq_none_iff {d : Dict K V} {k : K} : get? d k = none ↔ k ∉ keys d := by
  induction d with
  | nil => simp [keys]
  | cons p d ih =>
    obtain ⟨k', v⟩ := p
    simp only [get?_cons, keys, List.map_cons, List.mem_cons, not_or] at *
    by_cases h : k' = k
    · simp [h]
    · simp only [h, if_false, ih]; constructor
      · intro h2; exact ⟨fun e => h e.symm, h2⟩
      · intro h2; exact h2.2

theorem contains_iff {d : Dict K V} {k : K} : contains d k = true ↔ k ∈ keys d := by
  rw [contains_eq]
  cases h : get? d k with
  | none => simp [get?_eq_none_iff.mp h]
  | some v =>
    simp only [Option.isSome_some, true_iff]
    apply Classical.byContradiction; intro hn
    rw [get?_eq_none_iff.mpr hn] at h; cases h

theorem contains_false_iff {d : Dict K V} {k : K} : contains d k = false ↔ get? d k = none := by
  rw [contains_eq]; cases get? d k <;> simp

theorem mem_of_get? {d : Dict K V} {k : K} {v : V} (h : get? d k = some v) : (k, v) ∈ d := by
  induction d with
  | nil => cases h
  | cons p d ih =>
    obtain ⟨k', v'⟩ := p
    rw [get?_cons] at h
    by_cases hk : k' = k
    · simp only [hk, if_true, Option.some.injEq] at h; subst hk; subst h; exact List.mem_cons_self
    · simp only [hk, if_false] at h; exact List.mem_cons_of_mem _ (ih h)

theorem get?_of_mem {d : Dict K V} (hwf : WF d) {k : K} {v : V} (h : (k, v) ∈ d) : get? d k = some v := by
  induction d with
  | nil => cases h
  | cons p d ih =>
    obtain ⟨k', v'⟩ := p
    simp only [WF, keys, List.map_cons, List.nodup_cons] at hwf
    rw [get?_cons]
    rcases List.mem_cons.mp h with h | h
    · cases h; simp
    · have : k ∈ keys d := List.mem_map.mpr ⟨(k, v), h, rfl⟩
      have hne : k' ≠ k := fun e => hwf.1 (e ▸ this)
      simp only [hne, if_false]; exact ih hwf.2 h

theorem get?_append (a b : Dict K V) (k : K) :
    get? (a ++ b) k = match get? a k with | some v => some v | none => get? b k := by
  induction a with
  | nil => rfl
  | cons p a ih =>
    obtain ⟨k', v⟩ := p
    simp only [List.cons_append, get?_cons]
    by_cases h : k' = k <;> simp [h, ih]

/-! #### set -/

theorem get?_set (d : Dict K V) (k : K) (v : V) (k2 : K) :
    get? (set d k v) k2 = if k = k2 then some v else get? d k2 := by
  induction d with
  | nil => simp [set, get?_cons]
  | cons p d ih =>
    obtain ⟨k', v'⟩ := p
    simp only [set]
    split <;> grind [get?_cons]

theorem keys_set (d : Dict K V) (k : K) (v : V) :
    keys (set d k v) = if contains d k then keys d else keys d ++ [k] := by
  induction d with
  | nil => simp [set, keys, contains_eq]
  | cons p d ih =>
    obtain ⟨k', v'⟩ := p
    simp only [set, contains, get?_cons, keys, List.map_cons] at *
    split <;> grind

theorem wf_set {d : Dict K V} (h : WF d) (k : K) (v : V) : WF (set d k v) := by
  unfold WF at *
  rw [keys_set]
  split
  · exact h
  · rename_i hc
    rw [List.nodup_append]
    refine ⟨h, by simp, ?_⟩
    intro a ha b hb
    simp only [List.mem_singleton] at hb
    subst hb
    intro e; subst e
    exact hc (contains_iff.mpr ha)

theorem set_ne_nil (d : Dict K V) (k : K) (v : V) : set d k v ≠ [] := by
  cases d with
  | nil => simp [set]
  | cons p d => obtain ⟨k', v'⟩ := p; simp only [set]; split <;> simp

theorem set_set (d : Dict K V) (k : K) (v w : V) : set (set d k v) k w = set d k w := by
  induction d with
  | nil => simp [set]
  | cons p d ih =>
    obtain ⟨k', v'⟩ := p
    simp only [set]
    by_cases h : k' = k
    · simp [h, set]
    · simp [h, set, ih]

theorem set_comm_of_contains (d : Dict K V) (k k2 : K) (v v2 : V)
    (hc : contains d k = true) (hne : k ≠ k2) :
    set (set d k2 v2) k v = set (set d k v) k2 v2 := by
  induction d with
  | nil => simp [contains_eq] at hc
  | cons p d ih =>
    obtain ⟨k', v'⟩ := p
    simp only [set]
    by_cases h1 : k' = k
    · subst h1
      simp [hne, set]
    · have hc' : contains d k = true := by
        simpa [contains_eq, get?_cons, h1] using hc
      by_cases h2 : k' = k2
      · subst h2; simp [h1, set]
      · simp [h1, h2, set, ih hc']

/-! #### erase -/

theorem get?_erase (d : Dict K V) (k k2 : K) :
    get? (erase d k) k2 = if k2 = k then none else get? d k2 := by
  induction d with
  | nil => simp [erase]
  | cons p d ih =>
    obtain ⟨k', v'⟩ := p
    simp only [erase, List.filter_cons] at *
    by_cases h : k' = k
    · subst h
      simp only [ne_eq, not_true_eq_false, decide_false, Bool.false_eq_true, if_false, ih, get?_cons]
      by_cases h2 : k2 = k'
      · simp [h2]
      · simp [h2, Ne.symm h2]
    · simp only [ne_eq, h, not_false_eq_true, decide_true, if_true, get?_cons, ih]
      by_cases h2 : k' = k2
      · subst h2; simp [h]
      · simp [h2]

theorem keys_erase_sublist (d : Dict K V) (k : K) : (keys (erase d k)).Sublist (keys d) := by
  unfold keys erase
  exact List.Sublist.map _ List.filter_sublist

theorem wf_erase {d : Dict K V} (h : WF d) (k : K) : WF (erase d k) :=
  List.Nodup.sublist (keys_erase_sublist d k) h

theorem mem_erase {d : Dict K V} {k : K} {p : K × V} (h : p ∈ erase d k) : p ∈ d :=
  (List.mem_filter.mp h).1

/-! #### dropLast / getLast? (popitem) -/

theorem eq_dropLast_append {d : Dict K V} {p : K × V} (h : d.getLast? = some p) : d = d.dropLast ++ [p] := by
  have hne : d ≠ [] := by intro e; subst e; cases h
  have := List.dropLast_concat_getLast hne
  rw [List.getLast?_eq_some_getLast hne] at h
  cases h
  exact this.symm

theorem wf_dropLast {d : Dict K V} (h : WF d) : WF d.dropLast :=
  List.Nodup.sublist (List.Sublist.map _ (List.dropLast_sublist d)) h

theorem popitem_facts {d : Dict K V} (hwf : WF d) {k : K} {v : V} (h : d.getLast? = some (k, v)) :
    get? d.dropLast k = none ∧ get? d k = some v ∧ ∀ k2, k2 ≠ k → get? d k2 = get? d.dropLast k2 := by
  have hd := eq_dropLast_append h
  have hwf' : WF (d.dropLast ++ [(k, v)]) := hd ▸ hwf
  have hnot : get? d.dropLast k = none := by
    rw [get?_eq_none_iff]
    simp only [WF, keys, List.map_append, List.map_cons, List.map_nil] at hwf'
    rw [List.nodup_append] at hwf'
    intro hm
    exact hwf'.2.2 k hm k (by simp) rfl
  refine ⟨hnot, ?_, ?_⟩
  · rw [hd, get?_append, hnot]; simp [get?_cons]
  · intro k2 hne
    rw [hd, get?_append]
    simp only [List.dropLast_concat]
    cases get? d.dropLast k2 with
    | some x => rfl
    | none => simp [get?_cons, Ne.symm hne]

/-! #### update -/

/-- The value the last pair with key `k` carries. -/
def lastVal : List (K × V) → K → Option V
  | [], _ => none
  | (k', v) :: ps, k =>
    match lastVal ps k with
    | some x => some x
    | none => if k' = k then some v else none

theorem get?_update (d : Dict K V) (ps : List (K × V)) (k : K) :
    get? (update d ps) k = match lastVal ps k with | some x => some x | none => get? d k := by
  induction ps generalizing d with
  | nil => rfl
  | cons p ps ih =>
    obtain ⟨k', v⟩ := p
    simp only [update, ih, get?_set, lastVal]
    cases lastVal ps k with
    | some x => rfl
    | none => by_cases h : k' = k <;> simp [h]

theorem lastVal_eq_none_iff {ps : List (K × V)} {k : K} : lastVal ps k = none ↔ k ∉ ps.map Prod.fst := by
  induction ps with
  | nil => simp [lastVal]
  | cons p ps ih =>
    obtain ⟨k', v⟩ := p
    simp only [lastVal, List.map_cons, List.mem_cons, not_or]
    cases h : lastVal ps k with
    | some x =>
      have : ¬ (k ∉ ps.map Prod.fst) := fun hn => by rw [ih.mpr hn] at h; cases h
      simp only [false_iff, reduceCtorEq]
      intro hh; exact this hh.2
    | none =>
      have := ih.mp h
      by_cases h2 : k' = k
      · simp [h2]
      · simp only [h2, if_false, true_iff]; exact ⟨fun e => h2 e.symm, this⟩

theorem wf_update {d : Dict K V} (h : WF d) (ps : List (K × V)) : WF (update d ps) := by
  induction ps generalizing d with
  | nil => exact h
  | cons p ps ih => exact ih (wf_set h _ _)

theorem wf_nil : WF ([] : Dict K V) := by simp [WF, keys]

theorem wf_ofPairs (ps : List (K × V)) : WF (ofPairs ps) := wf_update wf_nil ps

theorem contains_set_self (d : Dict K V) (k : K) (v : V) : contains (set d k v) k = true := by
  simp [contains_eq, get?_set]

theorem contains_set_of_contains {d : Dict K V} {k : K} (h : contains d k = true) (k2 : K) (v : V) :
    contains (set d k2 v) k = true := by
  simp only [contains_eq, get?_set] at *
  split <;> simp [h]

/-- Lemma A: a key already present keeps its slot, so overwriting it commutes
with an update that does not mention it. -/
theorem set_update_comm (a : Dict K V) (e : List (K × V)) (k : K) (v : V)
    (hk : k ∉ e.map Prod.fst) (hc : contains a k = true) :
    set (update a e) k v = update (set a k v) e := by
  induction e generalizing a with
  | nil => rfl
  | cons p r ih =>
    obtain ⟨k2, v2⟩ := p
    simp only [List.map_cons, List.mem_cons, not_or] at hk
    simp only [update]
    rw [ih (set a k2 v2) hk.2 (contains_set_of_contains hc _ _)]
    rw [set_comm_of_contains a k k2 v v2 hc hk.1]

/-- Lemma B. -/
theorem update_set (d : Dict K V) (e : Dict K V) (hwf : WF e) (k : K) (v : V) :
    update d (set e k v) = set (update d e) k v := by
  induction e generalizing d with
  | nil => rfl
  | cons p e ih =>
    obtain ⟨k1, v1⟩ := p
    have hwf' : k1 ∉ keys e ∧ WF e := by simpa [WF, keys] using hwf
    simp only [set]
    by_cases h : k1 = k
    · subst h
      simp only [if_true, update]
      rw [set_update_comm (set d k1 v1) e k1 v hwf'.1 (contains_set_self _ _ _), set_set]
    · simp only [h, if_false, update]
      exact ih (set d k1 v1) hwf'.2

theorem update_update (d e : Dict K V) (hwf : WF e) (ps : List (K × V)) :
    update d (update e ps) = update (update d e) ps := by
  induction ps generalizing e with
  | nil => rfl
  | cons p ps ih =>
    simp only [update]
    rw [ih (set e p.1 p.2) (wf_set hwf _ _), update_set d e hwf]

/-- `d.update(dict(pairs))` is `d.update(pairs)`, insertion order included. -/
theorem update_ofPairs (d : Dict K V) (ps : List (K × V)) : update d (ofPairs ps) = update d ps := by
  unfold ofPairs
  rw [update_update d [] wf_nil ps]; rfl

theorem mem_set {d : Dict K V} {k : K} {v : V} {p : K × V} (h : p ∈ set d k v) :
    p ∈ d ∨ p.2 = v ∧ (p.1 = k ∨ ∃ w, (p.1, w) ∈ d) := by
  induction d with
  | nil => simp only [set, List.mem_singleton] at h; subst h; exact .inr ⟨rfl, .inl rfl⟩
  | cons q d ih =>
    obtain ⟨k', v'⟩ := q
    simp only [set] at h
    by_cases hk : k' = k
    · simp only [hk, if_true, List.mem_cons] at h
      rcases h with h | h
      · subst h; exact .inr ⟨rfl, .inl rfl⟩
      · exact .inl (List.mem_cons_of_mem _ h)
    · simp only [hk, if_false, List.mem_cons] at h
      rcases h with h | h
      · exact .inl (h ▸ List.mem_cons_self)
      · rcases ih h with h | ⟨h1, h2⟩
        · exact .inl (List.mem_cons_of_mem _ h)
        · refine .inr ⟨h1, ?_⟩
          rcases h2 with h2 | ⟨w, hw⟩
          · exact .inl h2
          · exact .inr ⟨w, List.mem_cons_of_mem _ hw⟩

end TraitsVerif.Py.Dict
