/-
Helper lemmas for the reference ledger (`Model/RefLedger`): how `PyDict_SetItem`
and `PyDict_DelItem` move the references `obj.__dict__` holds.
-/
import TraitsVerif.Model.RefLedger
set_option linter.unusedSimpArgs false
namespace TraitsVerif.Lemmas.Ledger
open TraitsVerif TraitsVerif.Model.RefLedger

theorem lookup_cons (e : Slot) (es : List Slot) (m : String) :
    lookup (e :: es) m = if e.name = m then some e.val else lookup es m := by
  by_cases h : e.name = m <;> simp [lookup, List.find?_cons, h]

/-- `[p]` as a number. -/
def b2n (p : Prop) [Decidable p] : Nat := if p then 1 else 0

/-- The key object the dict keeps for `name`. -/
def keyOf (d : List Slot) (name : String) : Option Id :=
  match d.find? (fun e => e.name = name) with
  | some e => some e.key
  | none => none

theorem heldBy_cons (e : Slot) (d : List Slot) (id : Id) :
    heldBy (e :: d) id = b2n (e.val = id) + b2n (e.key = id) + heldBy d id := by
  unfold heldBy b2n
  simp only [List.filter_cons]
  by_cases h1 : e.val = id <;> by_cases h2 : e.key = id <;> simp [h1, h2] <;> omega

/-- `PyDict_SetItem`: the value reference of the slot moves from the old value
to the new one; the key object gains a reference only when the entry is new. -/
theorem heldBy_dictSet (name : String) (key v id : Id) :
    ∀ d : List Slot,
      heldBy (dictSet d name key v) id + b2n (lookup d name = some id)
        = heldBy d id + b2n (v = id) + b2n (lookup d name = none ∧ key = id)
  | [] => by
    simp only [dictSet, heldBy_cons, lookup, List.find?_nil]
    unfold b2n heldBy
    by_cases h1 : v = id <;> by_cases h2 : key = id <;> simp [h1, h2]
  | e :: es => by
    have ih := heldBy_dictSet name key v id es
    unfold dictSet
    by_cases hn : e.name = name
    · simp only [hn, ↓reduceIte, heldBy_cons, lookup, List.find?_cons, decide_true]
      unfold b2n
      by_cases h1 : v = id <;> by_cases h2 : e.val = id <;> by_cases h3 : e.key = id <;>
        simp [h1, h2, h3] <;> omega
    · have hl : lookup (e :: es) name = lookup es name := by
        simp [lookup, List.find?_cons, hn]
      simp only [hn, ↓reduceIte, heldBy_cons, hl]
      omega

theorem lookup_dictSet_same (name : String) (key v : Id) :
    ∀ d : List Slot, lookup (dictSet d name key v) name = some v
  | [] => by simp [dictSet, lookup]
  | e :: es => by
    unfold dictSet
    by_cases hn : e.name = name
    · simp [hn, lookup]
    · have := lookup_dictSet_same name key v es
      simp only [hn, ↓reduceIte]
      simpa [lookup, List.find?_cons, hn] using this

theorem lookup_dictSet_other (name m : String) (key v : Id) (h : m ≠ name) :
    ∀ d : List Slot, lookup (dictSet d name key v) m = lookup d m
  | [] => by
    have : ¬ name = m := fun h' => h h'.symm
    simp [dictSet, lookup, this]
  | e :: es => by
    unfold dictSet
    by_cases hn : e.name = name
    · have : ¬ e.name = m := by rw [hn]; exact fun h' => h h'.symm
      simp [hn, lookup, List.find?_cons, this]
      have h2 : ¬ name = m := fun h' => h h'.symm
      simp [h2]
    · have ih := lookup_dictSet_other name m key v h es
      simp only [hn, ↓reduceIte]
      by_cases hm : e.name = m
      · simp [lookup, List.find?_cons, hm]
      · simpa [lookup, List.find?_cons, hm] using ih

/-- `PyDict_DelItem`: the slot's two references are released. -/
theorem heldBy_dictDel (name : String) (id : Id) :
    ∀ d : List Slot,
      heldBy (dictDel d name) id + b2n (lookup d name = some id) + b2n (keyOf d name = some id)
        = heldBy d id
  | [] => by simp [dictDel, lookup, keyOf, b2n, heldBy]
  | e :: es => by
    have ih := heldBy_dictDel name id es
    unfold dictDel
    by_cases hn : e.name = name
    · simp only [hn, ↓reduceIte, heldBy_cons, lookup, keyOf, List.find?_cons, decide_true]
      unfold b2n
      by_cases h2 : e.val = id <;> by_cases h3 : e.key = id <;> simp [h2, h3] <;> omega
    · have hl : lookup (e :: es) name = lookup es name := by simp [lookup, List.find?_cons, hn]
      have hk : keyOf (e :: es) name = keyOf es name := by simp [keyOf, List.find?_cons, hn]
      simp only [hn, ↓reduceIte, heldBy_cons, hl, hk]
      omega

theorem lookup_dictDel_other (name m : String) (h : m ≠ name) :
    ∀ d : List Slot, lookup (dictDel d name) m = lookup d m
  | [] => by simp [dictDel]
  | e :: es => by
    unfold dictDel
    by_cases hn : e.name = name
    · have : ¬ e.name = m := by rw [hn]; exact fun h' => h h'.symm
      simp [hn, lookup_cons, this]
      intro h'; exact absurd h'.symm h
    · have ih := lookup_dictDel_other name m h es
      simp only [hn, ↓reduceIte, lookup_cons, ih]

/-! ### The operations -/

theorem setFinish_ok {E : Env} {c : TraitCfg} {s s' : St} {name : String} {key v value : Id}
    {old : Option Id} {d p : Nat}
    (h : setFinish E c s name key v value old d p = (none, s')) :
    s' = { s with dict := dictSet s.dict name key (storedOf c v value) } := by
  unfold setFinish at h
  split at h
  · cases h
  · exact (Prod.mk.inj h).2.symm

theorem setFinish_stray (E : Env) (c : TraitCfg) (s : St) (name : String)
    (key v value : Id) (old : Option Id) (d p : Nat) :
    (setFinish E c s name key v value old d p).2.stray = s.stray := by
  unfold setFinish
  split <;> rfl

theorem getattrTrait_stray (E : Env) (c : TraitCfg) (s : St) (name : String) (key : Id) (d p n : Nat) :
    (getattrTrait E c s name key d p n).2.2.stray = s.stray := by
  unfold getattrTrait
  split
  · rfl
  · split <;> rfl

theorem setattrTrait_stray (E : Env) (c : TraitCfg) (s : St) (name : String)
    (key v : Id) : (setattrTrait E c s name key v).2.stray = s.stray := by
  unfold setattrTrait
  split
  · rfl
  · split
    · split
      · exact setFinish_stray ..
      · split
        · rfl
        · split
          · rfl
          · split
            · rfl
            · rw [setFinish_stray]
    · exact setFinish_stray ..

theorem delattrTrait_stray (E : Env) (c : TraitCfg) (s : St) (name : String) (key : Id) :
    (delattrTrait E c s name key).2.stray = s.stray := by
  unfold delattrTrait
  split
  · rfl
  · split
    · simp only
      have := getattrTrait_stray E c { s with dict := dictDel s.dict name } name key 0 0 0
      rcases hg : getattrTrait E c { s with dict := dictDel s.dict name } name key 0 0 0 with ⟨e, r, s2⟩
      rw [hg] at this
      cases e <;> cases r <;> simp_all
    · rfl

theorem getattr_stray (E : Env) (c : TraitCfg) (s : St) (name : String) (key : Id) :
    (getattr E c s name key).2.stray = s.stray := by
  unfold getattr
  split
  · rfl
  · exact getattrTrait_stray ..


/-- Shape of the dict after a successful assignment: one `PyDict_SetItem` on the
slot, preceded - when the old value had to be produced - by one that
materialises the default in the same slot. -/
theorem setattrTrait_ok {E : Env} {c : TraitCfg} {s s' : St} {name : String} {key v : Id}
    (h : setattrTrait E c s name key v = (none, s')) :
    ∃ value, (if c.hasValidate then E.validate 0 v else .ok v) = .ok value ∧ s'.stray = s.stray ∧
      (s'.dict = dictSet s.dict name key (storedOf c v value) ∨
        ∃ old, E.dflt 0 () = .ok old ∧
          s'.dict = dictSet (dictSet s.dict name key old) name key (storedOf c v value)) := by
  unfold setattrTrait at h
  split at h
  · cases h
  · rename_i value hv
    refine ⟨value, hv, ?_⟩
    split at h
    · split at h
      · have := setFinish_ok h
        subst this
        exact ⟨rfl, Or.inl rfl⟩
      · split at h
        · cases h
        · rename_i old hd
          split at h
          · cases h
          · split at h
            · cases h
            · have := setFinish_ok h
              subst this
              exact ⟨rfl, Or.inr ⟨old, hd, rfl⟩⟩
    · have := setFinish_ok h
      subst this
      exact ⟨rfl, Or.inl rfl⟩

/-- Reference delta of a successful assignment, for every object `id`. -/
theorem setattrTrait_held {E : Env} {c : TraitCfg} {s s' : St} {name : String} {key v : Id}
    (h : setattrTrait E c s name key v = (none, s')) :
    ∃ value, (if c.hasValidate then E.validate 0 v else .ok v) = .ok value ∧
      lookup s'.dict name = some (storedOf c v value) ∧
      (∀ m, m ≠ name → lookup s'.dict m = lookup s.dict m) ∧
      ∀ id, held s' id + b2n (lookup s.dict name = some id)
        = held s id + b2n (storedOf c v value = id) + b2n (lookup s.dict name = none ∧ key = id) := by
  obtain ⟨value, hv, -, hd⟩ := setattrTrait_ok h
  refine ⟨value, hv, ?_⟩
  rcases hd with hd | ⟨old, -, hd⟩
  · refine ⟨by rw [hd]; exact lookup_dictSet_same .., ?_, ?_⟩
    · intro m hm; rw [hd]; exact lookup_dictSet_other _ _ _ _ hm _
    · intro id
      unfold held
      rw [hd]
      exact heldBy_dictSet name key _ id s.dict
  · refine ⟨by rw [hd]; exact lookup_dictSet_same .., ?_, ?_⟩
    · intro m hm
      rw [hd, lookup_dictSet_other _ _ _ _ hm, lookup_dictSet_other _ _ _ _ hm]
    · intro id
      unfold held
      rw [hd]
      have h1 := heldBy_dictSet name key old id s.dict
      have h2 := heldBy_dictSet name key (storedOf c v value) id (dictSet s.dict name key old)
      rw [lookup_dictSet_same] at h2
      have h3 : b2n (some old = (none : Option Id) ∧ key = id) = 0 := by simp [b2n]
      have h4 : b2n (some old = some id) = b2n (old = id) := by simp [b2n]
      rw [h3, h4] at h2
      omega

/-! ### The tuple validator -/

theorem net_append (a b : List Ev) (id : Id) : net (a ++ b) id = net a id + net b id := by
  simp only [net, List.filter_append, List.length_append]
  omega

theorem net_nil (id : Id) : net [] id = 0 := by simp [net]

theorem net_inc (a id : Id) : net [.inc a] id = if a = id then 1 else 0 := by
  by_cases h : a = id <;> simp [net, List.filter_cons, h]

theorem net_dec (a id : Id) : net [.dec a] id = if a = id then -1 else 0 := by
  by_cases h : a = id <;> simp [net, List.filter_cons, h]

theorem net_map_inc (l : List Id) (id : Id) : net (l.map .inc) id = (l.count id : Int) := by
  induction l with
  | nil => simp [net]
  | cons a as ih =>
    have : (a :: as).map Ev.inc = [Ev.inc a] ++ as.map Ev.inc := rfl
    rw [this, net_append, ih, net_inc, List.count_cons]
    by_cases h : a = id <;> simp [h] <;> omega

theorem net_map_dec (l : List Id) (id : Id) : net (l.map .dec) id = -(l.count id : Int) := by
  induction l with
  | nil => simp [net]
  | cons a as ih =>
    have : (a :: as).map Ev.dec = [Ev.dec a] ++ as.map Ev.dec := rfl
    rw [this, net_append, ih, net_dec, List.count_cons]
    by_cases h : a = id <;> simp [h] <;> omega

/-- Loop invariant: the events so far amount, for every object, to the slots of
the tuple under construction (nothing when none has been started). -/
theorem tupleLoop_exact (ev : Nat → Id → Except Exc Id) (value : List Id) (id : Id) :
    ∀ (bs : List Id) (i : Nat) (t : Option (List Id)) (evs : List Ev),
      net evs id = ((t.getD []).count id : Int) →
      match (tupleLoop ev value i bs t evs).result with
      | some (some l) => net (tupleLoop ev value i bs t evs).evs id = (l.count id : Int)
      | _ => net (tupleLoop ev value i bs t evs).evs id = 0
  | [], i, t, evs, h => by
    cases t with
    | none => simpa [tupleLoop] using h
    | some l => simpa [tupleLoop] using h
  | b :: bs, i, t, evs, h => by
    unfold tupleLoop
    cases hv : ev i b with
    | error e =>
      simp only
      rw [net_append, net_map_dec, h]
      omega
    | ok a =>
      simp only
      cases t with
      | some l =>
        simp only
        apply tupleLoop_exact ev value id bs
        simp only [Option.getD_some] at h ⊢
        rw [net_append, net_inc, h, List.count_append, List.count_cons, List.count_nil]
        by_cases ha : a = id <;> simp [ha]
      | none =>
        simp only
        simp only [Option.getD_none, List.count_nil] at h
        by_cases hab : a = b
        · simp only [hab, ne_eq, not_true_eq_false, ↓reduceIte]
          apply tupleLoop_exact ev value id bs
          simp only [Option.getD_none, List.count_nil]
          rw [net_append, net_append, net_inc, net_dec, h]
          by_cases ha : b = id <;> simp [ha]
        · simp only [ne_eq, hab, not_false_eq_true, ↓reduceIte]
          apply tupleLoop_exact ev value id bs
          simp only [Option.getD_some]
          rw [net_append, net_append, net_inc, net_map_inc, h, List.count_append, List.count_cons,
            List.count_nil]
          by_cases ha : a = id <;> simp [ha] <;> omega

/-! ### Dispatch -/

theorem dispatchLoop_calls (act : Id → HAct) : ∀ (snap : List Id) (l : Lists), (dispatchLoop act snap l).1 = snap
  | [], _ => rfl
  | h :: rest, l => by simp [dispatchLoop, dispatchLoop_calls act rest]

end TraitsVerif.Lemmas.Ledger
