/-
`…_src` lemmas, part 5: `get_trait` with `instance ≥ 2` (clone the class trait
into the instance-trait dictionary).
-/
import TraitsVerif.Lemmas.ResolveSource4
namespace TraitsVerif.Model.ResL
open TraitsVerif TraitsVerif.Model.Resolve TraitsVerif.Generated

set_option maxHeartbeats 16000000 in
theorem get_trait_clone_src (E : Env) (w : World) (oi : Nat) (o : Obj) (c : Cls) (name : Name) (inst : Int)
    (nI nO : Bool) (hI : nI = true → o.itraits = []) (hstar : NoStar c)
    (ho : w.objs[oi]? = some o) (hinst : 2 ≤ inst) :
    asGetTrait (user7 E .get_trait [.obj, .name name, .int inst] (St.init w oi o c nI nO))
      = some (getTrait w oi o c name inst) := by
  have hle : ¬ inst ≤ 0 := by omega
  have hn0 : ¬ inst = 0 := by omega
  have hn1 : ¬ inst = 1 := by omega
  have hlt : oi < w.objs.length := by
    rcases Nat.lt_or_ge oi w.objs.length with h | h
    · exact h
    · rw [List.getElem?_eq_none h] at ho; cases ho
  have hgp := fun env' => get_prefix_trait_src E (St.mk w oi o c nI nO none none env') name false hI hstar
  simp only [Bool.false_eq_true, ↓reduceIte] at hgp
  cases nI with
  | true =>
    have hi : o.itraits.get name = none := by rw [hI rfl]; rfl
    have hit : o.itraits = [] := hI rfl
    have hoeq : ({ o with itraits := [] } : Obj) = o := by cases o; simp_all
    cases hc : c.ctraits.get name with
    | some t =>
      resl_eval [user7, ResolveC.get_trait, hi, hc, hle, hn0, hn1]
      simp [asGetTrait, getTrait, hi, hc, hle, hn0, hn1, modify_eq_set _ ho, hit, Map.set]
    | none =>
      simp only [getPrefixTraitV] at hgp
      cases hpt : prefixTrait c o name false with
      | error e =>
        simp only [hpt] at hgp
        resl_eval [user7, user7_get_prefix_trait, ResolveC.get_trait, hi, hc, hgp, hle, hn0, hn1]
        simp [asGetTrait, getTrait, hi, hc, getPrefixTrait, hpt, hle, hn0, hn1]
      | ok t =>
        simp only [hpt] at hgp
        cases hemp : (fireTraitAdded o name).itraits.isEmpty with
        | true =>
          have hfe : (fireTraitAdded o name).itraits = [] := List.isEmpty_iff.mp hemp
          have hfi : (fireTraitAdded o name).itraits.get name = none := by rw [hfe]; rfl
          resl_eval [user7, user7_get_prefix_trait, ResolveC.get_trait, hi, hc, hgp, hfi, hemp, hle, hn0, hn1,
            St.fire, St.putCTraits, St.putObj]
          simp [asGetTrait, getTrait, hi, hc, getPrefixTrait, hpt, hfi, hfe, hle, hn0, hn1, Map.set,
            modify_eq_set _ (getElem?_set_self' ho)]
        | false =>
          cases hfi : (fireTraitAdded o name).itraits.get name <;>
          resl_eval [user7, user7_get_prefix_trait, ResolveC.get_trait, hi, hc, hgp, hfi, hemp, hle, hn0, hn1,
            St.fire, St.putCTraits, St.putObj] <;>
          simp [asGetTrait, getTrait, hi, hc, getPrefixTrait, hpt, hfi, hle, hn0, hn1,
            modify_eq_set _ (getElem?_set_self' ho)]
  | false =>
    cases hi : o.itraits.get name with
    | some t =>
      resl_eval [user7, ResolveC.get_trait, hi]
      simp [asGetTrait, getTrait, hi]
    | none =>
      cases hc : c.ctraits.get name with
      | some t =>
        resl_eval [user7, ResolveC.get_trait, hi, hc, hle, hn0, hn1]
        simp [asGetTrait, getTrait, hi, hc, hle, hn0, hn1, modify_eq_set _ ho]
      | none =>
        simp only [getPrefixTraitV] at hgp
        cases hpt : prefixTrait c o name false with
        | error e =>
          simp only [hpt] at hgp
          resl_eval [user7, user7_get_prefix_trait, ResolveC.get_trait, hi, hc, hgp, hle, hn0, hn1]
          simp [asGetTrait, getTrait, hi, hc, getPrefixTrait, hpt, hle, hn0, hn1]
        | ok t =>
          simp only [hpt] at hgp
          cases hfi : (fireTraitAdded o name).itraits.get name <;>
          resl_eval [user7, user7_get_prefix_trait, ResolveC.get_trait, hi, hc, hgp, hfi, hle, hn0, hn1,
            St.fire, St.putCTraits, St.putObj] <;>
          simp [asGetTrait, getTrait, hi, hc, getPrefixTrait, hpt, hfi, hle, hn0, hn1,
            modify_eq_set _ (getElem?_set_self' ho)]

end TraitsVerif.Model.ResL
