/-
Arithmetic of `slice.indices`, `sliceLen` and `_normalize_slice_or_index`.
-/
import TraitsVerif.Model.TraitList
import TraitsVerif.Lemmas.SeqList
namespace TraitsVerif.Py
open TraitsVerif.Model

/-! ### bounds produced by slice.indices -/

theorem adjustStart_pos (n : Nat) (k : Int) (s : Option Int) (hk : 0 < k) :
    0 ≤ adjustStart n k s ∧ adjustStart n k s ≤ n := by
  unfold adjustStart; split <;> (repeat' split) <;> omega

theorem adjustStop_pos (n : Nat) (k : Int) (s : Option Int) (hk : 0 < k) :
    0 ≤ adjustStop n k s ∧ adjustStop n k s ≤ n := by
  unfold adjustStop; split <;> (repeat' split) <;> omega

theorem adjustStart_neg (n : Nat) (k : Int) (s : Option Int) (hk : k < 0) :
    -1 ≤ adjustStart n k s ∧ adjustStart n k s ≤ (n : Int) - 1 := by
  unfold adjustStart; split <;> (repeat' split) <;> omega

theorem adjustStop_neg (n : Nat) (k : Int) (s : Option Int) (hk : k < 0) :
    -1 ≤ adjustStop n k s ∧ adjustStop n k s ≤ (n : Int) - 1 := by
  unfold adjustStop; split <;> (repeat' split) <;> omega

/-- `slice(a, b, k).indices(n)` is the identity on already-adjusted bounds (k > 0). -/
theorem indices_of_adjusted_pos (n : Nat) (a b k : Int) (hk : 0 < k)
    (ha : 0 ≤ a ∧ a ≤ n) (hb : 0 ≤ b ∧ b ≤ n) :
    (Slice.mk (some a) (some b) (some k)).indices n = some (a, b, k) := by
  have hk' : k ≠ 0 := by omega
  simp only [Slice.indices, Option.getD_some, hk', if_false, adjustStart, adjustStop]
  have h1 : ¬ a < 0 := by omega
  have h2 : ¬ b < 0 := by omega
  have h3 : ¬ k < 0 := by omega
  simp only [h1, h2, h3, if_false]
  congr 2
  · split <;> omega
  · congr 1; split <;> omega

/-! ### sliceLen -/

theorem sliceLen_pos {a b k : Int} (hk : 0 < k) (h : a < b) :
    ∃ q : Nat, sliceLen a b k = q + 1 ∧ a + q * k < b ∧ b ≤ a + (q + 1) * k := by
  have hq0 : 0 ≤ (b - a - 1) / k := Int.ediv_nonneg (by omega) (by omega)
  refine ⟨((b - a - 1) / k).toNat, ?_, ?_, ?_⟩
  · unfold sliceLen
    rw [if_neg (by omega), if_pos h]
    omega
  · have := Int.mul_ediv_add_emod (b - a - 1) k
    have := Int.emod_nonneg (b - a - 1) (by omega : k ≠ 0)
    rw [Int.toNat_of_nonneg hq0]
    nlinarith
  · have := Int.mul_ediv_add_emod (b - a - 1) k
    have := Int.emod_lt_of_pos (b - a - 1) hk
    rw [Int.toNat_of_nonneg hq0]
    nlinarith

theorem sliceLen_pos_empty {a b k : Int} (hk : 0 < k) (h : b ≤ a) : sliceLen a b k = 0 := by
  unfold sliceLen; rw [if_neg (by omega), if_neg (by omega)]

theorem sliceLen_neg {a b k : Int} (hk : k < 0) (h : b < a) :
    ∃ q : Nat, sliceLen a b k = q + 1 ∧ b < a + q * k ∧ a + (q + 1) * k ≤ b := by
  have hs : 0 < -k := by omega
  have hq0 : 0 ≤ (a - b - 1) / (-k) := Int.ediv_nonneg (by omega) (by omega)
  refine ⟨((a - b - 1) / (-k)).toNat, ?_, ?_, ?_⟩
  · unfold sliceLen
    rw [if_pos hk, if_pos h]
    omega
  · have := Int.mul_ediv_add_emod (a - b - 1) (-k)
    have := Int.emod_nonneg (a - b - 1) (by omega : -k ≠ 0)
    rw [Int.toNat_of_nonneg hq0]
    nlinarith
  · have := Int.mul_ediv_add_emod (a - b - 1) (-k)
    have := Int.emod_lt_of_pos (a - b - 1) hs
    rw [Int.toNat_of_nonneg hq0]
    nlinarith

theorem sliceLen_neg_empty {a b k : Int} (hk : k < 0) (h : a ≤ b) : sliceLen a b k = 0 := by
  unfold sliceLen; rw [if_pos hk, if_neg (by omega)]

/-- The quotient is determined by the two inequalities. -/
theorem sliceLen_of_bounds_pos {a b k : Int} {q : Nat} (hk : 0 < k)
    (h1 : a + q * k < b) (h2 : b ≤ a + (q + 1) * k) : sliceLen a b k = q + 1 := by
  have hab : a < b := by nlinarith
  obtain ⟨q', e, g1, g2⟩ := sliceLen_pos hk hab
  rw [e]
  have : (q' : Int) = q := by
    by_contra hne
    rcases Int.lt_or_gt_of_ne hne with hlt | hgt
    · have : (q' : Int) + 1 ≤ q := by omega
      nlinarith
    · have : (q : Int) + 1 ≤ q' := by omega
      nlinarith
  omega

/-! ### Python modulo -/

theorem pymod_pos (x k : Int) (hk : 0 < k) : pymod x k = x % k := by
  unfold pymod
  rw [Int.fmod_eq_emod, if_pos (Or.inl (by omega))]
  omega

theorem pymod_one (x : Int) : pymod x 1 = 0 := by
  rw [pymod_pos _ _ (by omega)]; omega

/-- `x % k` when `x = q*k + r` with `0 ≤ r < k`. -/
theorem emod_of_decomp {x k q r : Int} (hx : x = q * k + r) (h0 : 0 ≤ r) (h1 : r < k) :
    x % k = r := by
  have hk : 0 < k := by omega
  have := (Int.ediv_emod_unique (a := x) (b := k) (r := r) (q := q) hk).mpr
    ⟨by rw [hx]; ring, h0, h1⟩
  exact this.2

/-- Python's `x % k` for a negative divisor `k = -s`, `x = q*s + t` with `1 ≤ t ≤ s`. -/
theorem pymod_neg_of_decomp {x k q t : Int} (hk : k < 0) (hx : x = q * (-k) + t)
    (h0 : 1 ≤ t) (h1 : t ≤ -k) : pymod x k = t + k := by
  unfold pymod
  rw [Int.fmod_eq_emod]
  have hs : 0 < -k := by omega
  have e : x % k = x % (-k) := by
    simp
  by_cases ht : t = -k
  · -- divisible
    have hx' : x = (q + 1) * (-k) := by rw [hx, ht]; ring
    have hdvd : k ∣ x := by
      rw [hx']; exact Dvd.dvd.mul_left (by simp) _
    rw [if_pos (Or.inr hdvd), e, hx', Int.mul_emod_left]
    omega
  · have hm : x % (-k) = t := emod_of_decomp hx (by omega) (by omega)
    have hnd : ¬ k ∣ x := by
      intro hd
      have : (-k) ∣ x := Int.neg_dvd.mpr hd
      have := Int.emod_eq_zero_of_dvd this
      omega
    rw [if_neg (by rintro (h | h); omega; exact hnd h), e, hm]

/-! ### the normalised index -/

/-- Forward slices (k > 0) selecting `q+1 ≥ 1` positions `a, a+k, …, a+q*k`. -/
theorem normalizeCore_pos {n : Nat} {a b k : Int} {q : Nat} (hk : 0 < k)
    (h1 : a + q * k < b) (h2 : b ≤ a + (q + 1) * k) :
    normalizeCore n a b k =
      (false, if k = 1 ∨ q = 0 then .idx a else .slc a (a + q * k + 1) k) := by
  unfold normalizeCore
  have hrev : decide (k < 0) = false := by simp; omega
  simp only [hrev, Bool.false_eq_true, if_false]
  have hm : pymod (b - a - 1) k = b - a - 1 - q * k := by
    rw [pymod_pos _ _ hk]
    exact emod_of_decomp (q := q) (by ring) (by linarith) (by linarith)
  rw [hm]
  have e : b - (b - a - 1 - q * k) = a + q * k + 1 := by ring
  rw [e]
  by_cases hq : q = 0
  · subst hq; simp; intro _; omega
  · have hq1 : (1 : Int) ≤ q := by omega
    by_cases hk1 : k = 1
    · simp [hk1]
    · have : ¬ (a + q * k + 1 - a ≤ k) := by nlinarith
      simp [hq, hk1, this]

/-- An empty forward slice with step 1 normalises to its start. -/
theorem normalizeCore_one (n : Nat) (a b : Int) : normalizeCore n a b 1 = (false, .idx a) := by
  unfold normalizeCore
  simp

/-- Backward slices (k < 0) selecting `q+1 ≥ 1` positions `a, a+k, …, a+q*k =: lo`. -/
theorem normalizeCore_neg {n : Nat} {a b k : Int} {q : Nat} (hk : k < 0) (han : a < n)
    (h1 : b < a + q * k) (h2 : a + (q + 1) * k ≤ b) :
    normalizeCore n a b k =
      (true, if k = -1 ∨ q = 0 then .idx (a + q * k) else .slc (a + q * k) (a + 1) (-k)) := by
  unfold normalizeCore
  have hrev : decide (k < 0) = true := by simp; omega
  simp only [hrev, if_true]
  have hq0 : (0 : Int) ≤ q := by omega
  -- a - b = q * (-k) + t with t = a + q*k - b, 1 ≤ t ≤ -k
  have hm : pymod (a - b) k = (a + q * k - b) + k :=
    pymod_neg_of_decomp (q := q) hk (by ring) (by linarith) (by linarith)
  rw [hm]
  have e : b - k + (a + q * k - b + k) = a + q * k := by ring
  rw [e]
  have hlo : a + q * k ≤ a := by nlinarith
  rw [Int.min_eq_left (by omega)]
  have hm2 : pymod (a + 1 - (a + q * k) - 1) (-k) = 0 := by
    rw [pymod_pos _ _ (by omega)]
    have : a + 1 - (a + q * k) - 1 = q * (-k) := by ring
    rw [this, Int.mul_emod_left]
  rw [hm2]
  by_cases hq : q = 0
  · subst hq; simp; intro _; omega
  · have hq1 : (1 : Int) ≤ q := by omega
    by_cases hk1 : k = -1
    · simp [hk1]
    · have h3 : ¬ (-k = 1) := by omega
      simp [hq, hk1, h3]
      nlinarith

end TraitsVerif.Py
