/-
Helper lemmas for C10, part 6: a default is computed at most once per
(instance, attribute).
-/
import TraitsVerif.Lemmas.AttrSep
namespace TraitsVerif.Model.Attr
open TraitsVerif

/-- The default computation of `t` does not fail (no raising factory, no
default rejected by its own trait, not a `disallow` trait). -/
def TotalDefault (E : Env) (t : TraitCore) : Prop :=
  ∀ obj name c, ∃ v, (defaultValueFor E t obj name c).1 = .ok v

/-- Effect of one statement on the factory-call log and on "a value is stored". -/
structure Once (s s' : OSt) : Prop where
  ex : ∃ l, s'.ctx.fcalls = s.ctx.fcalls ++ l ∧ (∀ f ∈ l, f.2 = (s.self, s.name)) ∧ l.length ≤ 1 ∧
    (s.slot.isSome = true → l = []) ∧ (l ≠ [] → s'.slot.isSome = true)
  keep : s.slot.isSome = true → s'.slot.isSome = true
  self : s'.self = s.self
  name : s'.name = s.name

/-- No factory call, stored-ness preserved. -/
structure Calm (s s' : OSt) : Prop where
  fcalls : s'.ctx.fcalls = s.ctx.fcalls
  keep : s.slot.isSome = true → s'.slot.isSome = true
  self : s'.self = s.self
  name : s'.name = s.name

theorem Calm.refl (s : OSt) : Calm s s := ⟨rfl, id, rfl, rfl⟩

theorem Calm.trans {a b c : OSt} (h1 : Calm a b) (h2 : Calm b c) : Calm a c :=
  ⟨h2.fcalls.trans h1.fcalls, fun h => h2.keep (h1.keep h), h2.self.trans h1.self, h2.name.trans h1.name⟩

theorem Calm.toOnce {s s' : OSt} (h : Calm s s') : Once s s' :=
  ⟨⟨[], by simp [h.fcalls], by simp, by simp, fun _ => rfl, fun h => absurd rfl h⟩, h.keep, h.self, h.name⟩

theorem Once.thenCalm {a b c : OSt} (h1 : Once a b) (h2 : Calm b c) : Once a c := by
  obtain ⟨l, e, m, len, hs, hn⟩ := h1.ex
  exact ⟨⟨l, by rw [h2.fcalls, e], m, len, hs, fun h => h2.keep (hn h)⟩, fun h => h2.keep (h1.keep h),
    h2.self.trans h1.self, h2.name.trans h1.name⟩

theorem Calm.thenOnce {a b c : OSt} (h1 : Calm a b) (h2 : Once b c) : Once a c := by
  obtain ⟨l, e, m, len, hs, hn⟩ := h2.ex
  exact ⟨⟨l, by rw [e, h1.fcalls], fun f hf => by rw [m f hf, h1.self, h1.name], len,
    fun h => hs (h1.keep h), hn⟩, fun h => h2.keep (h1.keep h), h2.self.trans h1.self, h2.name.trans h1.name⟩

theorem NFrame.calm {s s' : OSt} (h : NFrame s s') : Calm s s' :=
  ⟨h.fcalls, fun hs => by rw [h.slot]; exact hs, h.self, h.name⟩

theorem postSetattr_calm (E : Env) (t : TraitCore) (v : Id) (s : OSt) : Calm s (postSetattr E t v s).2 := by
  unfold postSetattr
  cases t.post with
  | none => exact Calm.refl s
  | some p => simp only []; split <;> exact ⟨rfl, id, rfl, rfl⟩

theorem calm_it (s : OSt) (x : Option (Option (List Notifier))) : Calm s { s with it := x } :=
  ⟨rfl, id, rfl, rfl⟩

theorem store_calm (s : OSt) (v : Id) : Calm s { s with slot := some v } := ⟨rfl, fun _ => rfl, rfl, rfl⟩

/-- "compute the default, store it" from an empty slot. -/
theorem default_store_once {E : Env} {t : TraitCore} (tot : TotalDefault E t) (s : OSt) (hs : s.slot = none) :
    ∃ v s1, s.defaultValueFor E t = (.ok v, s1) ∧ Once s { s1 with slot := some v } := by
  obtain ⟨v, hv⟩ := tot s.self s.name s.ctx
  obtain ⟨-, l, hl, hlen, hm⟩ := defaultValueFor_frame E t s.self s.name s.ctx
  unfold OSt.defaultValueFor
  cases hd : defaultValueFor E t s.self s.name s.ctx with
  | mk r c =>
    rw [hd] at hv hl
    simp only [] at hv hl
    subst hv
    have hno : s.slot.isSome = true → l = [] := fun h => by rw [hs] at h; cases h
    exact ⟨v, { s with ctx := c }, rfl, ⟨⟨l, hl, hm, hlen, hno, fun _ => rfl⟩, fun _ => rfl, rfl, rfl⟩⟩

theorem getattro_once {E : Env} {t : TraitCore} (tot : TotalDefault E t) (s : OSt) :
    Once s (getattro E t s).2 := by
  unfold getattro
  cases hs : s.slot with
  | some v => exact (Calm.refl s).toOnce
  | none =>
    simp only [traitGetattr]
    cases t.kind with
    | event => exact (Calm.refl s).toOnce
    | trait =>
      simp only []
      unfold getattrTrait
      obtain ⟨v, s1, hd, ho⟩ := default_store_once tot s hs
      rw [hd]
      simp only []
      have h3 := postSetattr_calm E t v { s1 with slot := some v }
      cases hp : postSetattr E t v { s1 with slot := some v } with
      | mk r2 s3 =>
        rw [hp] at h3
        cases r2 with
        | some e => exact ho.thenCalm h3
        | none =>
          simp only []
          split
          · rw [callNotifiers_uninit']
            exact ho.thenCalm h3
          · exact ho.thenCalm h3

theorem validateAssigned_calm (E : Env) (t : TraitCore) (v : Id) (s : OSt) :
    Calm s (s.validateAssigned E t v).2 := by
  unfold OSt.validateAssigned
  split
  · unfold runValidate
    cases t.validate <;> exact ⟨rfl, id, rfl, rfl⟩
  · exact Calm.refl s

theorem fetchOld_once {E : Env} {t : TraitCore} (tot : TotalDefault E t) (c0 dn : Bool) (w : Id) (s : OSt) :
    Once s (s.fetchOld E t c0 dn w).2 := by
  unfold OSt.fetchOld
  split
  · cases hs : s.slot with
    | some old => exact (Calm.refl s).toOnce
    | none =>
      simp only []
      obtain ⟨v, s1, hd, ho⟩ := default_store_once tot s hs
      rw [hd]
      simp only []
      have h3 := postSetattr_calm E t v { s1 with slot := some v }
      cases hp : postSetattr E t v { s1 with slot := some v } with
      | mk r2 s4 =>
        rw [hp] at h3
        cases r2 <;> exact ho.thenCalm h3
  · exact (Calm.refl s).toOnce

theorem Once.thenStore {a b : OSt} (h : Once a b) (v : Id) : Once a { b with slot := some v } :=
  h.thenCalm (store_calm b v)

theorem setattrTrait_once {E : Env} {t : TraitCore} (tot : TotalDefault E t) (v : Id) (s : OSt) :
    Once s (setattrTrait E t (some v) s).2 := by
  unfold setattrTrait
  simp only []
  have h1 := validateAssigned_calm E t v s
  cases hva : s.validateAssigned E t v with
  | mk r s1 =>
    rw [hva] at h1
    cases r with
    | error e => exact h1.toOnce
    | ok value =>
      simp only []
      have h2 := fetchOld_once tot (testFlag t.flags Generated.TRAIT_COMPARISON_MODE_NONE)
        (hasNotifiers s1.tn s1.on) value s1
      cases hf : s1.fetchOld E t (testFlag t.flags Generated.TRAIT_COMPARISON_MODE_NONE)
          (hasNotifiers s1.tn s1.on) value with
      | mk r2 s2 =>
        rw [hf] at h2
        cases r2 with
        | error e => exact h1.thenOnce h2
        | ok p =>
          obtain ⟨oldOpt, changed⟩ := p
          simp only []
          have h3 : ∀ nv : Id, Once s { s2 with slot := some nv } := fun nv => (h1.thenOnce h2).thenStore nv
          split
          · have h4 := postSetattr_calm E t
              (if testFlag t.flags Generated.TRAIT_POST_SETATTR_ORIGINAL_VALUE = true then v else value)
              { s2 with slot := some (if testFlag t.flags Generated.TRAIT_SETATTR_ORIGINAL_VALUE = true
                then v else value) }
            cases hp : postSetattr E t
              (if testFlag t.flags Generated.TRAIT_POST_SETATTR_ORIGINAL_VALUE = true then v else value)
              { s2 with slot := some (if testFlag t.flags Generated.TRAIT_SETATTR_ORIGINAL_VALUE = true
                then v else value) } with
            | mk r3 s4 =>
              rw [hp] at h4
              cases r3 with
              | some e => exact (h3 _).thenCalm h4
              | none =>
                simp only []
                split
                · exact ((h3 _).thenCalm h4).thenCalm (callNotifiers_frame E t _ _ _ _ s4).calm
                · exact (h3 _).thenCalm h4
          · exact h3 _

theorem setattrEvent_calm (E : Env) (t : TraitCore) (v : Id) (s : OSt) :
    Calm s (setattrEvent E t (some v) s).2 := by
  unfold setattrEvent
  simp only []
  cases hv : t.validate with
  | none =>
    simp only []
    split
    · exact (callNotifiers_frame E t _ _ _ _ s).calm
    · exact Calm.refl s
  | some k =>
    simp only [runValidate, hv]
    cases E.validate k s.ctx.nval v with
    | error e => exact ⟨rfl, id, rfl, rfl⟩
    | ok w =>
      simp only []
      have h1 : Calm s { s with ctx := { s.ctx with nval := s.ctx.nval + 1 } } := ⟨rfl, id, rfl, rfl⟩
      split
      · exact h1.trans (callNotifiers_frame E t _ _ _ _ _).calm
      · exact h1

/-- The operations the world model performs on one attribute. -/
theorem step_once {E : Env} {t : TraitCore} (tot : TotalDefault E t) (s : OSt) (op : Op)
    (hop : op = .get ∨ (∃ v, op = .set v) ∨ (∃ k p, op = .regDyn k p) ∨ (∃ k, op = .regObs k)) :
    Once s (step E t s op).2 := by
  rcases hop with rfl | ⟨v, rfl⟩ | ⟨k, p, rfl⟩ | ⟨k, rfl⟩
  · have h1 := getattro_once tot s
    show Once s (match getattro E t s with
      | (.ok v, s') => (({ val := some v } : Res), s')
      | (.error e, s') => ({ exc := some e }, s')).2
    cases hg : getattro E t s with
    | mk r s' => rw [hg] at h1; cases r <;> exact h1
  · show Once s (traitSetattr E t (some v) s).2
    unfold traitSetattr
    cases t.kind
    · exact setattrTrait_once tot v s
    · exact (setattrEvent_calm E t v s).toOnce
  · show Once s (s.regDynamic k p)
    unfold OSt.regDynamic
    have h0 : Calm s s.ensureItrait := (NFrame.ensureItrait s).calm
    simp only []
    split <;> exact (h0.trans (calm_it _ _)).toOnce
  · show Once s (s.regObserve k)
    unfold OSt.regObserve
    have h0 : Calm s s.ensureItrait := (NFrame.ensureItrait s).calm
    simp only []
    split <;> exact (h0.trans (calm_it _ _)).toOnce

end TraitsVerif.Model.Attr
