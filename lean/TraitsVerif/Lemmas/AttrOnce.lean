/-
Helper lemmas for C10, part 6: a default is computed at most once per
(instance, attribute).
-/
import TraitsVerif.Lemmas.AttrSep
namespace TraitsVerif.Model.Attr
open TraitsVerif

/-- The default computation of `t` does not fail (no raising factory, no
default rejected by its own trait, not a `disallow` trait). -/
def TotalDefault (E : Env) (t : TraitCore) : Prop :=
  ∀ obj name c, ∃ v, (defaultValueFor E t obj name c).1 = .ok v

/-- Effect of one statement on the factory-call log and on "a value is stored". -/
structure Once (s s' : OSt) : Prop where
  ex : ∃ l, s'.ctx.fcalls = s.ctx.fcalls ++ l ∧ (∀ f ∈ l, f.2 = (s.self, s.name)) ∧ l.length ≤ 1 ∧
    (s.slot.isSome = true → l = []) ∧ (l ≠ [] → s'.slot.isSome = true)
  keep : s.slot.isSome = true → s'.slot.isSome = true
  self : s'.self = s.self
  name : s'.name = s.name

/-- No factory call, stored-ness preserved. -/
structure Calm (s s' : OSt) : Prop where
  fcalls : s'.ctx.fcalls = s.ctx.fcalls
  keep : s.slot.isSome = true → s'.slot.isSome = true
  self : s'.self = s.self
  name : s'.name = s.name

theorem Calm.refl (s : OSt) : Calm s s := ⟨rfl, id, rfl, rfl⟩

theorem Calm.trans {a b c : OSt} (h1 : Calm a b) (h2 : Calm b c) : Calm a c :=
  ⟨h2.fcalls.trans h1.fcalls, fun h => h2.keep (h1.keep h), h2.self.trans h1.self, h2.name.trans h1.name⟩

theorem Calm.toOnce {s s' : OSt} (h : Calm s s') : Once s s' :=
  ⟨⟨[], by simp [h.fcalls], by simp, by simp, fun _ => rfl, fun h => absurd rfl h⟩, h.keep, h.self, h.name⟩

theorem Once.thenCalm {a b c : OSt} (h1 : Once a b) (h2 : Calm b c) : Once a c := by
  obtain ⟨l, e, m, len, hs, hn⟩ := h1.ex
  exact ⟨⟨l, by rw [h2.fcalls, e], m, len, hs, fun h => h2.keep (hn h)⟩, fun h => h2.keep (h1.keep h),
    h2.self.trans h1.self, h2.name.trans h1.name⟩

theorem Calm.thenOnce {a b c : OSt} (h1 : Calm a b) (h2 : Once b c) : Once a c := by
  obtain ⟨l, e, m, len, hs, hn⟩ := h2.ex
  exact ⟨⟨l, by rw [e, h1.fcalls], fun f hf => by rw [m f hf, h1.self, h1.name], len,
    fun h => hs (h1.keep h), hn⟩, fun h => h2.keep (h1.keep h), h2.self.trans h1.self, h2.name.trans h1.name⟩

theorem NFrame.calm {s s' : OSt} (h : NFrame s s') : Calm s s' :=
  ⟨h.fcalls, fun hs => by rw [h.slot]; exact hs, h.self, h.name⟩

theorem postSetattr_calm (E : Env) (t : TraitCore) (v : Id) (s : OSt) : Calm s (postSetattr E t v s).2 := by
  unfold postSetattr
  cases t.post with
  | none => exact Calm.refl s
  | some p => simp only []; split <;> exact ⟨rfl, id, rfl, rfl⟩

theorem calm_it (s : OSt) (x : Option (Option (List Notifier))) : Calm s { s with it := x } :=
  ⟨rfl, id, rfl, rfl⟩

theorem store_calm (s : OSt) (v : Id) : Calm s { s with slot := some v } := ⟨rfl, fun _ => rfl, rfl, rfl⟩

/-- "compute the default, store it" from an empty slot. -/
theorem default_store_once {E : Env} {t : TraitCore} (tot : TotalDefault E t) (s : OSt) (hs : s.slot = none) :
    ∃ v s1, s.defaultValueFor E t = (.ok v, s1) ∧ Once s { s1 with slot := some v } := by
  obtain ⟨v, hv⟩ := tot s.self s.name s.ctx
  obtain ⟨-, l, hl, hlen, hm⟩ := defaultValueFor_frame E t s.self s.name s.ctx
  unfold OSt.defaultValueFor
  cases hd : defaultValueFor E t s.self s.name s.ctx with
  | mk r c =>
    rw [hd] at hv hl
    simp only [] at hv hl
    subst hv
    have hno : s.slot.isSome = true → l = [] := fun h => by rw [hs] at h; cases h
    exact ⟨v, { s with ctx := c }, rfl, ⟨⟨l, hl, hm, hlen, hno, fun _ => rfl⟩, fun _ => rfl, rfl, rfl⟩⟩

theorem getattro_once {E : Env} {t : TraitCore} (tot : TotalDefault E t) (s : OSt) :
    Once s (getattro E t s).2 := by
  unfold getattro
  cases hs : s.slot with
  | some v => exact (Calm.refl s).toOnce
  | none =>
    simp only [traitGetattr]
    cases t.kind with
    | event => exact (Calm.refl s).toOnce
    | trait =>
      simp only []
      unfold getattrTrait
      obtain ⟨v, s1, hd, ho⟩ := default_store_once tot s hs
      rw [hd]
      simp only []
      have h3 := postSetattr_calm E t v { s1 with slot := some v }
      cases hp : postSetattr E t v { s1 with slot := some v } with
      | mk r2 s3 =>
        rw [hp] at h3
        cases r2 with
        | some e => exact ho.thenCalm h3
        | none =>
          simp only []
          split
          · rw [callNotifiers_uninit']
            exact ho.thenCalm h3
          · exact ho.thenCalm h3

theorem validateAssigned_calm (E : Env) (t : TraitCore) (v : Id) (s : OSt) :
    Calm s (s.validateAssigned E t v).2 := by
  unfold OSt.validateAssigned
  split
  · unfold runValidate
    cases t.validate <;> exact ⟨rfl, id, rfl, rfl⟩
  · exact Calm.refl s

theorem fetchOld_once {E : Env} {t : TraitCore} (tot : TotalDefault E t) (c0 dn : Bool) (w : Id) (s : OSt) :
    Once s (s.fetchOld E t c0 dn w).2 := by
  unfold OSt.fetchOld
  split
  · cases hs : s.slot with
    | some old => exact (Calm.refl s).toOnce
    | none =>
      simp only []
      obtain ⟨v, s1, hd, ho⟩ := default_store_once tot s hs
      rw [hd]
      simp only []
      have h3 := postSetattr_calm E t v { s1 with slot := some v }
      cases hp : postSetattr E t v { s1 with slot := some v } with
      | mk r2 s4 =>
        rw [hp] at h3
        cases r2 <;> exact ho.thenCalm h3
  · exact (Calm.refl s).toOnce

theorem Once.thenStore {a b : OSt} (h : Once a b) (v : Id) : Once a { b with slot := some v } :=
  h.thenCalm (store_calm b v)

theorem setattrTrait_once {E : Env} {t : TraitCore} (tot : TotalDefault E t) (v : Id) (s : OSt) :
    Once s (setattrTrait E t (some v) s).2 := by
  unfold setattrTrait
  simp only []
  have h1 := validateAssigned_calm E t v s
  cases hva : s.validateAssigned E t v with
  | mk r s1 =>
    rw [hva] at h1
    cases r with
    | error e => exact h1.toOnce
    | ok value =>
      simp only []
      have h2 := fetchOld_once tot (testFlag t.flags Generated.TRAIT_COMPARISON_MODE_NONE)
        (hasNotifiers s1.tn s1.on) value s1
      cases hf : s1.fetchOld E t (testFlag t.flags Generated.TRAIT_COMPARISON_MODE_NONE)
          (hasNotifiers s1.tn s1.on) value with
      | mk r2 s2 =>
        rw [hf] at h2
        cases r2 with
        | error e => exact h1.thenOnce h2
        | ok p =>
          obtain ⟨oldOpt, changed⟩ := p
          simp only []
          have h3 : ∀ nv : Id, Once s { s2 with slot := some nv } := fun nv => (h1.thenOnce h2).thenStore nv
          split
          · have h4 := postSetattr_calm E t
              (if testFlag t.flags Generated.TRAIT_POST_SETATTR_ORIGINAL_VALUE = true then v else value)
              { s2 with slot := some (if testFlag t.flags Generated.TRAIT_SETATTR_ORIGINAL_VALUE = true
                then v else value) }
            cases hp : postSetattr E t
              (if testFlag t.flags Generated.TRAIT_POST_SETATTR_ORIGINAL_VALUE = true then v else value)
              { s2 with slot := some (if testFlag t.flags Generated.TRAIT_SETATTR_ORIGINAL_VALUE = true
                then v else value) } with
            | mk r3 s4 =>
              rw [hp] at h4
              cases r3 with
              | some e => exact (h3 _).thenCalm h4
              | none =>
                simp only []
                split
                · exact ((h3 _).thenCalm h4).thenCalm (callNotifiers_frame E t _ _ _ _ s4).calm
                · exact (h3 _).thenCalm h4
          · exact h3 _

theorem setattrEvent_calm (E : Env) (t : TraitCore) (v : Id) (s : OSt) :
    Calm s (setattrEvent E t (some v) s).2 := by
  unfold setattrEvent
  simp only []
  cases hv : t.validate with
  | none =>
    simp only []
    split
    · exact (callNotifiers_frame E t _ _ _ _ s).calm
    · exact Calm.refl s
  | some k =>
    simp only [runValidate, hv]
    cases E.validate k s.ctx.nval v with
    | error e => exact ⟨rfl, id, rfl, rfl⟩
    | ok w =>
      simp only []
      have h1 : Calm s { s with ctx := { s.ctx with nval := s.ctx.nval + 1 } } := ⟨rfl, id, rfl, rfl⟩
      split
      · exact h1.trans (callNotifiers_frame E t _ _ _ _ _).calm
      · exact h1

/-- The operations the world model performs on one attribute. -/
theorem step_once {E : Env} {t : TraitCore} (tot : TotalDefault E t) (s : OSt) (op : Op)
    (hop : op = .get ∨ (∃ v, op = .set v) ∨ (∃ k p, op = .regDyn k p) ∨ (∃ k, op = .regObs k)) :
    Once s (step E t s op).2 := by
  rcases hop with rfl | ⟨v, rfl⟩ | ⟨k, p, rfl⟩ | ⟨k, rfl⟩
  · have h1 := getattro_once tot s
    show Once s (match getattro E t s with
      | (.ok v, s') => (({ val := some v } : Res), s')
      | (.error e, s') => ({ exc := some e }, s')).2
    cases hg : getattro E t s with
    | mk r s' => rw [hg] at h1; cases r <;> exact h1
  · show Once s (traitSetattr E t (some v) s).2
    unfold traitSetattr
    cases t.kind
    · exact setattrTrait_once tot v s
    · exact (setattrEvent_calm E t v s).toOnce
  · show Once s (s.regDynamic k p)
    unfold OSt.regDynamic
    have h0 : Calm s s.ensureItrait := (NFrame.ensureItrait s).calm
    simp only []
    split <;> exact (h0.trans (calm_it _ _)).toOnce
  · show Once s (s.regObserve k)
    unfold OSt.regObserve
    have h0 : Calm s s.ensureItrait := (NFrame.ensureItrait s).calm
    simp only []
    split <;> exact (h0.trans (calm_it _ _)).toOnce

/-! ### The world -/

/-- Number of default-factory invocations made for object `oid`, attribute `n`. -/
def World.fcount (w : World) (oid : Id) (n : Name) : Nat :=
  (w.ctx.fcalls.filter (fun f => f.2.1 == oid && f.2.2 == n)).length

structure OnceInv (E : Env) (w : World) : Prop where
  lt : ∀ (i : Nat) (o : Inst), w.insts[i]? = some o → o.oid < w.ctx.alloc
  distinct : ∀ (a b : Nat) (oa ob : Inst), w.insts[a]? = some oa → w.insts[b]? = some ob → oa.oid = ob.oid → a = b
  once : ∀ (i : Nat) (o : Inst), w.insts[i]? = some o → ∀ n,
    w.fcount o.oid n ≤ 1 ∧ (w.fcount o.oid n = 1 → (assocGet o.dict n).isSome = true)
  foreign : ∀ f ∈ w.ctx.fcalls, ∃ (i : Nat) (o : Inst), w.insts[i]? = some o ∧ f.2.1 = o.oid
  total : ∀ t, w.Cores t → TotalDefault E t

theorem filter_all_of {α : Type} (p : α → Bool) (l : List α) (h : ∀ x ∈ l, p x = true) : l.filter p = l :=
  List.filter_eq_self.mpr h

theorem filter_none_of {α : Type} (p : α → Bool) (l : List α) (h : ∀ x ∈ l, p x = false) : l.filter p = [] :=
  List.filter_eq_nil_iff.mpr (fun x hx => by simp [h x hx])

/-- A focused statement satisfying `Once` keeps the invariant. -/
theorem onAttr_once {E : Env} {w : World} (g : OnceInv E w) (i : Nat) (n : Name)
    (f : TraitCore → OSt → Res × OSt)
    (hf : ∀ t s, TotalDefault E t → Once s (f t s).2 ∧ SFrame s (f t s).2) :
    OnceInv E (w.onAttr i n f).2 := by
  unfold World.onAttr
  cases hi : w.insts[i]? with
  | none => exact g
  | some o =>
    simp only []
    cases ht : w.traitOf o n with
    | none => exact g
    | some td =>
      simp only []
      have hcore := w.traitOf_cores i o n td hi ht
      obtain ⟨ho, hsf⟩ := hf td.core (w.focus o n) (g.total td.core hcore)
      cases hr : f td.core (w.focus o n) with
      | mk r s =>
        rw [hr] at ho hsf
        simp only []
        obtain ⟨l, hl, hm, hlen, hsome, hne⟩ := ho.ex
        have hself : (w.focus o n).self = o.oid := rfl
        have hname : (w.focus o n).name = n := rfl
        have hfc : (w.focus o n).ctx.fcalls = w.ctx.fcalls := rfl
        have hslot0 : (w.focus o n).slot = assocGet o.dict n := rfl
        rw [hself, hname] at hm
        have hget : ∀ (j : Nat) (oj : Inst), (w.setInst i (o.absorb n td.core s) s.ctx).insts[j]? = some oj →
            (j = i ∧ oj = o.absorb n td.core s) ∨ (j ≠ i ∧ w.insts[j]? = some oj) := by
          intro j oj hj
          by_cases hji : j = i
          · subst hji
            rw [setInst_get_self w j o _ _ hi] at hj
            injection hj with hj
            exact Or.inl ⟨rfl, hj.symm⟩
          · rw [setInst_get_other w i j _ _ hji] at hj
            exact Or.inr ⟨hji, hj⟩
        have hoid : (o.absorb n td.core s).oid = o.oid := rfl
        have hdict : ∀ m, assocGet (o.absorb n td.core s).dict m = if m = n then s.slot else assocGet o.dict m := by
          intro m
          unfold Inst.absorb
          simp only []
          by_cases hmn : m = n
          · subst hmn
            cases hs : s.slot with
            | none => simp [assocGet_assocErase]
            | some v => simp [assocGet_assocSet_self]
          · cases hs : s.slot with
            | none => simp [assocGet_assocErase, hmn]
            | some v => simp [assocGet_assocSet_ne _ _ _ _ hmn, hmn]
        -- counts
        have hcount : ∀ oid m, World.fcount (w.setInst i (o.absorb n td.core s) s.ctx) oid m =
            w.fcount oid m + (if oid = o.oid ∧ m = n then l.length else 0) := by
          intro oid m
          unfold World.fcount
          show (List.filter _ s.ctx.fcalls).length = _
          rw [show s.ctx.fcalls = w.ctx.fcalls ++ l from hl, List.filter_append, List.length_append]
          congr 1
          by_cases hc : oid = o.oid ∧ m = n
          · obtain ⟨rfl, rfl⟩ := hc
            simp only [and_self, if_true]
            rw [filter_all_of _ l (fun x hx => by rw [hm x hx]; simp)]
          · simp only [hc, if_false]
            rw [filter_none_of _ l (fun x hx => by
              rw [hm x hx]
              simp only [Bool.and_eq_false_iff, beq_eq_false_iff_ne, ne_eq]
              by_cases h1 : o.oid = oid
              · right; intro h2; exact hc ⟨h1.symm, h2.symm⟩
              · left; exact h1)]
            rfl
        refine ⟨?_, ?_, ?_, ?_, ?_⟩
        · intro j oj hj
          have hle : w.ctx.alloc ≤ s.ctx.alloc := hsf.le
          rcases hget j oj hj with ⟨-, rfl⟩ | ⟨-, h⟩
          · exact Nat.lt_of_lt_of_le (g.lt i o hi) hle
          · exact Nat.lt_of_lt_of_le (g.lt j oj h) hle
        · intro a b oa ob ha hb hab
          rcases hget a oa ha with ⟨rfl, rfl⟩ | ⟨hai, ha'⟩
          · rcases hget b ob hb with ⟨rfl, rfl⟩ | ⟨hbi, hb'⟩
            · rfl
            · exact g.distinct a b o ob hi hb' hab
          · rcases hget b ob hb with ⟨rfl, rfl⟩ | ⟨hbi, hb'⟩
            · exact g.distinct a b oa o ha' hi hab
            · exact g.distinct a b oa ob ha' hb' hab
        · intro j oj hj m
          rw [hcount]
          rcases hget j oj hj with ⟨rfl, rfl⟩ | ⟨hji, hj'⟩
          · rw [hoid, hdict]
            by_cases hmn : m = n
            · subst hmn
              simp only [and_self, if_true]
              have hold := g.once j o hi m
              cases hs0 : (assocGet o.dict m).isSome with
              | true =>
                have : l = [] := hsome (by rw [hslot0]; exact hs0)
                subst this
                simp only [List.length_nil, Nat.add_zero]
                exact ⟨hold.1, fun _ => ho.keep (by rw [hslot0]; exact hs0)⟩
              | false =>
                have h0 : w.fcount o.oid m = 0 := by
                  rcases Nat.lt_or_ge (w.fcount o.oid m) 1 with h | h
                  · exact Nat.lt_one_iff.mp h
                  · have := hold.2 (Nat.le_antisymm hold.1 h)
                    rw [hs0] at this; cases this
                rw [h0, Nat.zero_add]
                refine ⟨hlen, fun h1 => hne ?_⟩
                intro hnil; rw [hnil] at h1; cases h1
            · simp only [hmn, and_false, if_false, Nat.add_zero]
              exact g.once j o hi m
          · have hne' : ¬ (oj.oid = o.oid ∧ m = n) := fun h => hji (g.distinct j i oj o hj' hi h.1)
            simp only [hne', if_false, Nat.add_zero]
            exact g.once j oj hj' m
        · intro fc hfcm
          show ∃ (j : Nat) (oj : Inst), (w.setInst i (o.absorb n td.core s) s.ctx).insts[j]? = some oj ∧ fc.2.1 = oj.oid
          have hfcm' : fc ∈ w.ctx.fcalls ++ l := by
            have : s.ctx.fcalls = w.ctx.fcalls ++ l := hl
            rw [← this]; exact hfcm
          rcases List.mem_append.mp hfcm' with h | h
          · obtain ⟨j, oj, hj, he⟩ := g.foreign fc h
            by_cases hji : j = i
            · subst hji
              rw [hi] at hj; injection hj with hj; subst hj
              exact ⟨j, _, setInst_get_self w j o _ _ hi, he⟩
            · exact ⟨j, oj, by rw [setInst_get_other w i j _ _ hji]; exact hj, he⟩
          · exact ⟨i, _, setInst_get_self w i o _ _ hi, by rw [hm fc h]; rfl⟩
        · intro t hc
          rcases hc with ⟨k, hk, p, hp, rfl⟩ | ⟨oj, hoj, p, hp, rfl⟩
          · exact g.total _ (Or.inl ⟨k, hk, p, hp, rfl⟩)
          · obtain ⟨j, hj⟩ := List.getElem?_of_mem hoj
            rcases hget j oj hj with ⟨rfl, rfl⟩ | ⟨-, hj'⟩
            · unfold Inst.absorb at hp
              simp only [] at hp
              cases hit : s.it with
              | none =>
                simp only [hit] at hp
                exact g.total _ (Or.inr ⟨o, List.mem_of_getElem? hi, p, hp, rfl⟩)
              | some l2 =>
                simp only [hit] at hp
                rcases mem_assocSet _ _ _ _ hp with h | h
                · exact g.total _ (Or.inr ⟨o, List.mem_of_getElem? hi, p, h, rfl⟩)
                · subst h
                  simp only []
                  cases hcur : assocGet o.itraits n with
                  | none => simpa [hcur] using g.total _ hcore
                  | some t0 =>
                    obtain ⟨q, hq, hq2⟩ := assocGet_mem _ _ _ hcur
                    simp only [Option.map_some, Option.getD_some]
                    exact g.total _ (Or.inr ⟨o, List.mem_of_getElem? hi, q, hq, by rw [hq2]⟩)
            · exact g.total _ (Or.inr ⟨oj, List.mem_of_getElem? hj', p, hp, rfl⟩)

/-- Replacing the record of instance `i` by one with the same identity and
values, without touching the context. -/
theorem setInst_once {E : Env} {w : World} (g : OnceInv E w) (i : Nat) (o o' : Inst) (hi : w.insts[i]? = some o)
    (h1 : o'.oid = o.oid) (h2 : o'.dict = o.dict) (h3 : ∀ p ∈ o'.itraits, TotalDefault E p.2.core) :
    OnceInv E (w.setInst i o' w.ctx) := by
  have hget : ∀ (j : Nat) (oj : Inst), (w.setInst i o' w.ctx).insts[j]? = some oj →
      (j = i ∧ oj = o') ∨ (j ≠ i ∧ w.insts[j]? = some oj) := by
    intro j oj hj
    by_cases hji : j = i
    · subst hji
      rw [setInst_get_self w j o _ _ hi] at hj
      injection hj with hj
      exact Or.inl ⟨rfl, hj.symm⟩
    · rw [setInst_get_other w i j _ _ hji] at hj
      exact Or.inr ⟨hji, hj⟩
  have hold : ∀ (j : Nat) (oj : Inst), (w.setInst i o' w.ctx).insts[j]? = some oj →
      ∃ oj0, w.insts[j]? = some oj0 ∧ oj.oid = oj0.oid ∧ oj.dict = oj0.dict := by
    intro j oj hj
    rcases hget j oj hj with ⟨rfl, rfl⟩ | ⟨-, h⟩
    · exact ⟨o, hi, h1, h2⟩
    · exact ⟨oj, h, rfl, rfl⟩
  refine ⟨?_, ?_, ?_, ?_, ?_⟩
  · intro j oj hj
    obtain ⟨oj0, h0, e1, -⟩ := hold j oj hj
    rw [e1]; exact g.lt j oj0 h0
  · intro a b oa ob ha hb hab
    obtain ⟨oa0, h0a, e1a, -⟩ := hold a oa ha
    obtain ⟨ob0, h0b, e1b, -⟩ := hold b ob hb
    exact g.distinct a b oa0 ob0 h0a h0b (by rw [← e1a, ← e1b]; exact hab)
  · intro j oj hj n
    obtain ⟨oj0, h0, e1, e2⟩ := hold j oj hj
    rw [e1, e2]
    exact g.once j oj0 h0 n
  · intro fc hfc
    obtain ⟨j, oj, hj, he⟩ := g.foreign fc hfc
    by_cases hji : j = i
    · subst hji
      rw [hi] at hj; injection hj with hj; subst hj
      exact ⟨j, o', setInst_get_self w j o _ _ hi, by rw [he, h1]⟩
    · exact ⟨j, oj, by rw [setInst_get_other w i j _ _ hji]; exact hj, he⟩
  · intro t hc
    rcases hc with ⟨k, hk, p, hp, rfl⟩ | ⟨oj, hoj, p, hp, rfl⟩
    · exact g.total _ (Or.inl ⟨k, hk, p, hp, rfl⟩)
    · obtain ⟨j, hj⟩ := List.getElem?_of_mem hoj
      rcases hget j oj hj with ⟨rfl, rfl⟩ | ⟨-, hj'⟩
      · exact h3 p hp
      · exact g.total _ (Or.inr ⟨oj, List.mem_of_getElem? hj', p, hp, rfl⟩)

/-- Changing the heap only keeps the invariant. -/
theorem ctx_once {E : Env} {w : World} (g : OnceInv E w) (c : Ctx) (h1 : c.fcalls = w.ctx.fcalls)
    (h2 : c.alloc = w.ctx.alloc) : OnceInv E { w with ctx := c } :=
  ⟨fun i o h => by show o.oid < c.alloc; rw [h2]; exact g.lt i o h, g.distinct,
   fun i o h n => by
     have : World.fcount { w with ctx := c } o.oid n = w.fcount o.oid n := by unfold World.fcount; simp only [h1]
     rw [this]; exact g.once i o h n,
   fun f hf => g.foreign f (by rw [← h1]; exact hf), g.total⟩

/-- Side condition: traits added at run time have a total default. -/
def OpTotal (E : Env) : WOp → Prop
  | .addTrait _ _ t => TotalDefault E t
  | .del _ _ => False        -- a reset legitimately makes the next read compute the default again
  | _ => True

theorem step_onceInv {E : Env} {w : World} (g : OnceInv E w) (op : WOp) (hop : OpTotal E op) :
    OnceInv E (World.step E w op).2 := by
  have hget : ∀ i n, OnceInv E (w.onAttr i n (fun t s => Attr.step E t s .get)).2 := fun i n =>
    onAttr_once g i n _ (fun t s tot => ⟨step_once tot s .get (Or.inl rfl), step_sframe E t s .get⟩)
  cases op with
  | new k =>
    simp only [World.step]
    split
    · have hgetn : ∀ (j : Nat) (o : Inst),
          (w.insts ++ [({ oid := w.ctx.alloc, cls := k } : Inst)])[j]? = some o →
          w.insts[j]? = some o ∨ (j = w.insts.length ∧ o = { oid := w.ctx.alloc, cls := k }) := by
        intro j o ho
        rcases Nat.lt_or_ge j w.insts.length with h | h
        · rw [List.getElem?_append_left h] at ho; exact Or.inl ho
        · rw [List.getElem?_append_right h] at ho
          right
          cases hj : j - w.insts.length with
          | zero =>
            rw [hj] at ho; simp at ho
            exact ⟨by omega, ho.symm⟩
          | succ m => rw [hj] at ho; simp at ho
      have hzero : ∀ n, (w.ctx.fcalls.filter (fun f => f.2.1 == w.ctx.alloc && f.2.2 == n)).length = 0 := by
        intro n
        rw [filter_none_of]
        · rfl
        · intro f hf
          obtain ⟨j, oj, hj, he⟩ := g.foreign f hf
          have := g.lt j oj hj
          simp only [Bool.and_eq_false_iff, beq_eq_false_iff_ne, ne_eq]
          left
          rw [he]
          exact Nat.ne_of_lt this
      refine ⟨?_, ?_, ?_, ?_, ?_⟩
      · intro j o ho
        show o.oid < w.ctx.alloc + 1
        rcases hgetn j o ho with h | ⟨-, rfl⟩
        · exact Nat.lt_succ_of_lt (g.lt j o h)
        · exact Nat.lt_succ_self _
      · intro a b oa ob ha hb hab
        rcases hgetn a oa ha with h1 | ⟨h1, rfl⟩
        · rcases hgetn b ob hb with h2 | ⟨h2, rfl⟩
          · exact g.distinct a b oa ob h1 h2 hab
          · exact absurd hab (Nat.ne_of_lt (g.lt a oa h1))
        · rcases hgetn b ob hb with h2 | ⟨h2, rfl⟩
          · exact absurd hab.symm (Nat.ne_of_lt (g.lt b ob h2))
          · rw [h1, h2]
      · intro j o ho n
        show (w.ctx.fcalls.filter _).length ≤ 1 ∧ ((w.ctx.fcalls.filter _).length = 1 → _)
        rcases hgetn j o ho with h | ⟨-, rfl⟩
        · exact g.once j o h n
        · simp only []
          rw [hzero n]
          exact ⟨Nat.zero_le _, fun h => by cases h⟩
      · intro f hf
        obtain ⟨j, oj, hj, he⟩ := g.foreign f hf
        have hjl : j < w.insts.length := by
          rcases Nat.lt_or_ge j w.insts.length with h | h
          · exact h
          · rw [List.getElem?_eq_none h] at hj; cases hj
        exact ⟨j, oj, by show (w.insts ++ _)[j]? = some oj; rw [List.getElem?_append_left hjl]; exact hj, he⟩
      · intro t hc
        rcases hc with ⟨c, hc, p, hp, rfl⟩ | ⟨o, ho, p, hp, rfl⟩
        · exact g.total _ (Or.inl ⟨c, hc, p, hp, rfl⟩)
        · simp only [List.mem_append, List.mem_singleton] at ho
          rcases ho with ho | ho
          · exact g.total _ (Or.inr ⟨o, ho, p, hp, rfl⟩)
          · subst ho; simp at hp
    · exact g
  | get i n => exact hget i n
  | set i n v =>
    exact onAttr_once g i n _ (fun t s tot =>
      ⟨step_once tot s (.set v) (Or.inr (Or.inl ⟨v, rfl⟩)), step_sframe E t s (.set v)⟩)
  | regDyn i n k =>
    exact onAttr_once g i n _ (fun t s tot =>
      ⟨step_once tot s (.regDyn k false) (Or.inr (Or.inr (Or.inl ⟨k, false, rfl⟩))), step_sframe E t s _⟩)
  | regObs i n k =>
    exact onAttr_once g i n _ (fun t s tot =>
      ⟨step_once tot s (.regObs k) (Or.inr (Or.inr (Or.inr ⟨k, rfl⟩))), step_sframe E t s _⟩)
  | regAny i k =>
    simp only [World.step]
    cases hi : w.insts[i]? with
    | none => exact g
    | some o =>
      simp only []
      exact setInst_once g i o { o with on := (({ on := o.on } : OSt).regAny k false).on } hi rfl rfl
        (fun p hp => g.total _ (Or.inr ⟨o, List.mem_of_getElem? hi, p, hp, rfl⟩))
  | del i n => exact hop.elim
  | query i =>
    simp only [World.step]
    cases w.insts[i]? <;> exact g
  | addTrait i n t =>
    simp only [World.step, World.addTrait]
    cases hi : w.insts[i]? with
    | none => exact g
    | some o =>
      simp only []
      refine setInst_once g i o { o with itraits := assocSet o.itraits n { core := t, notifiers := match w.traitOf o n with
            | some td => td.notifiers.map (fun l => l)
            | none => none } } hi rfl rfl ?_
      intro p hp
      rcases mem_assocSet _ _ _ _ hp with h | h
      · exact g.total _ (Or.inr ⟨o, List.mem_of_getElem? hi, p, h, rfl⟩)
      · subst h; exact hop
  | mutate i n x =>
    have g1 := hget i n
    simp only [World.step]
    cases hr : w.onAttr i n (fun t s => Attr.step E t s .get) with
    | mk r w1 =>
      rw [hr] at g1
      simp only []
      cases hv : r.val with
      | none => exact g1
      | some cid =>
        simp only []
        have hm := mutate_frame w1.ctx cid x
        have := ctx_once g1 (w1.ctx.mutate cid x).2 hm.2.2.1 hm.1
        cases hmu : w1.ctx.mutate cid x with
        | mk e c =>
          rw [hmu] at this
          cases e <;> exact this
  | mutateInner i n x =>
    have g1 := hget i n
    simp only [World.step]
    cases hr : w.onAttr i n (fun t s => Attr.step E t s .get) with
    | mk r w1 =>
      rw [hr] at g1
      simp only []
      cases hv : r.val with
      | none => exact g1
      | some cid =>
        simp only []
        cases hin : (heapGet w1.ctx.heap cid).bind (·.head?) with
        | none => exact g1
        | some inner =>
          simp only []
          have hm := mutate_frame w1.ctx inner x
          have := ctx_once g1 (w1.ctx.mutate inner x).2 hm.2.2.1 hm.1
          cases hmu : w1.ctx.mutate inner x with
          | mk e c =>
            rw [hmu] at this
            cases e <;> exact this

theorem run_onceInv {E : Env} : ∀ (h : List WOp) (w : World), OnceInv E w → (∀ op ∈ h, OpTotal E op) →
    OnceInv E (World.run E w h)
  | [], _, g, _ => g
  | op :: h, w, g, H => by
    rw [World.run]
    exact run_onceInv h _ (step_onceInv g op (H op List.mem_cons_self))
      (fun o ho => H o (List.mem_cons_of_mem _ ho))

end TraitsVerif.Model.Attr
