/-
Source tie of the Python-level validate methods, part 3: BaseRange.int_validate (int Range,
all bound / exclusivity combinations) and the assembly over all covered trait types.
-/
import TraitsVerif.Lemmas.ValPySrc2
namespace TraitsVerif.Model.PyVSrc
open TraitsVerif TraitsVerif.Py.Value TraitsVerif.Model.Val TraitsVerif.Generated.PyValidators
set_option maxHeartbeats 800000
variable (E : Env)

theorem pyValidateInt_exact (v w : Val) (h : pyValidateInt v = .ok w) : ∃ n, w = .atom (.int false n) := by
  unfold pyValidateInt at h
  split at h
  · rename_i n; exact ⟨n, by cases h; rfl⟩
  · cases hd : index v with
    | error e => simp [hd] at h
    | ok n => simp [hd] at h; exact ⟨n, h.symm⟩

theorem py_int_validate (cfg : String → PV) (n : Nat) (lo hi : Option Int) (exLo exHi : Bool) (v : Val)
    (h1 : cfg "_low" = optInt lo) (h2 : cfg "_high" = optInt hi)
    (h3 : cfg "_exclude_low" = .bool exLo) (h4 : cfg "_exclude_high" = .bool exHi) :
    runL E cfg (n + 1 + 1) "BaseRange.int_validate" [.self_, .hobj, .name, .val v] =
      resToM (pyValidate E (.rangeI lo hi exLo exHi) v) := by
  have hl : table.lookup "BaseRange.int_validate" = some m_BaseRange_int_validate := by rfl
  rw [runL_succ]
  simp only [hl, m_BaseRange_int_validate]
  pyv_eval
  simp only [callOut, py_validate_int, h1, h2, h3, h4, pyValidate]
  cases hv : pyValidateInt v with
  | error e => cases e <;> simp [resToM, excMatches, Exc.name, specMatches, handle, exec, evalE, evalArgs]
  | ok w =>
    obtain ⟨m, rfl⟩ := pyValidateInt_exact v w hv
    cases lo <;> cases hi <;> cases exLo <;> cases exHi <;>
      simp [optInt, pyInRangeI, intOf, pvIs, pvLt, pvLe, specMatches, excMatches, handle, exec, evalE, evalArgs, PV.truthy]
    all_goals (try (repeat' split) <;> simp_all)
    all_goals (first | done | omega | grind)

theorem py_rangeI (lo hi : Option Int) (exLo exHi : Bool) (v : Val) :
    srcPy E (.rangeI lo hi exLo exHi) v = some (pyValidate E (.rangeI lo hi exLo exHi) v) := by
  py_start m_BaseRange_validate "BaseRange.validate"
  pyv_eval
  simp only [callOut]
  rw [py_int_validate E _ 0 lo hi exLo exHi v rfl rfl rfl rfl]
  cases pyValidate E (.rangeI lo hi exLo exHi) v <;> simp [resToM, toRes]

/-! ## Assembly, third part -/

def pyCovered3 : TraitType → Bool
  | .noFast t => pyCovered3 t
  | .rangeI .. => true
  | t => pyCovered2 t

theorem srcPy_eq3 (hE : CastIdem E) (hA : ∀ v cls r, E.adapt v cls = .ok (some r) → r ≠ Val.none) :
    ∀ (t : TraitType) (v : Val), pyCovered3 t = true → srcPy E t v = some (pyValidate E t v)
  | .noFast t, v, h => by
    rw [srcPy_noFast, srcPy_eq3 hE hA t v (by simpa [pyCovered3] using h)]; simp [pyValidate]
  | .rangeI lo hi a b, v, _ => py_rangeI E lo hi a b v
  | .int, v, h | .float, v, h | .complex, v, h | .str, v, h | .bytes, v, h | .bool, v, h
  | .cint, v, h | .cfloat, v, h | .ccomplex, v, h | .cstr, v, h | .cbytes, v, h | .cbool, v, h
  | .enum _, v, h | .map .., v, h | .noneTrait, v, h | .this _, v, h
  | .rangeF .., v, h | .type_ .., v, h | .instance .., v, h
  | .any, v, h | .tuple _, v, h | .baseTuple _, v, h
  | .validatedTuple .., v, h | .tupleAny, v, h | .callable _, v, h
  | .module, v, h | .either .., v, h | .union _, v, h | .string .., v, h | .prefixList _, v, h
  | .prefixMap .., v, h | .array .., v, h | .coerceH _, v, h | .castH _, v, h | .instanceH .., v, h
  | .functionH _, v, h | .enumH _, v, h | .mapH .., v, h | .compoundH _, v, h =>
    srcPy_eq2 E hE hA _ v (by simpa [pyCovered3] using h)

end TraitsVerif.Model.PyVSrc
