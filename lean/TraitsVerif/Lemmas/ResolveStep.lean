/-
What one `step` can do to the world (cluster `resolve`): unfolding lemmas for
each operation and a single `Effect` relation from which the invariants of
Lemmas/ResolveInv are proved.
-/
import TraitsVerif.Lemmas.ResolvePrefix
namespace TraitsVerif.Model.Resolve
open TraitsVerif

/-! ### resolution that does not look at the object: `resolve₀` -/

def Trait.Plain (t : Trait) : Prop := t.kind ≠ .delegate

instance (t : Trait) : Decidable t.Plain := by unfold Trait.Plain; exact inferInstance

/-- `__prefix_trait__` without the delegate-shadow branch: depends on the
class's wildcard table only. -/
def resolve₀ (ps : List (Name × Trait)) (name : Name) (isSet : Bool) : Except Exc Trait :=
  if isDunder name then
    if name = classDunder then .ok genericTrait
    else if isSet then .ok anyTrait
    else .error .attributeError
  else
    match firstMatch ps name with
    | some e => .ok e.2
    | none => .error .other

theorem prefixTrait_eq_resolve₀ {c : Cls} {o : Obj} {name : Name} (b : Bool)
    (h : ∀ t, trait0 c o (stem name) = some t → t.Plain) :
    prefixTrait c o name b = resolve₀ c.prefixes name b := by
  unfold prefixTrait resolve₀
  split
  · rfl
  · dsimp only
    by_cases hu : endsUnderscore name = true
    · simp only [hu, ↓reduceIte]
      cases ht : trait0 c o (stem name) with
      | none => rfl
      | some t =>
        have := h t ht
        unfold Trait.Plain at this
        simp only [this, ↓reduceIte]
        cases firstMatch c.prefixes name <;> rfl
    · simp only [hu]
      cases firstMatch c.prefixes name <;> rfl

theorem resolve₀_not_dunder {ps : List (Name × Trait)} {name : Name} (h : isDunder name = false) (b b' : Bool) :
    resolve₀ ps name b = resolve₀ ps name b' := by
  unfold resolve₀; simp [h]

theorem resolve₀_plain {ps : List (Name × Trait)} (hp : ∀ e ∈ ps, e.2.Plain) {name : Name} {b : Bool} {t : Trait}
    (h : resolve₀ ps name b = .ok t) : t.Plain := by
  unfold resolve₀ at h
  split at h
  · split at h
    · cases h; decide
    · split at h
      · cases h; decide
      · cases h
  · split at h
    · rename_i e he
      cases h
      exact hp e (firstMatch_some he).1
    · cases h

/-! ### plainness (no delegate traits anywhere) -/

structure ClsPlain (c : Cls) : Prop where
  ct : ∀ e ∈ c.ctraits, e.2.Plain
  pf : ∀ e ∈ c.prefixes, e.2.Plain

def ObjPlain (o : Obj) : Prop := ∀ e ∈ o.itraits, e.2.Plain

/-- No delegate trait anywhere, and no `trait_added` listener that adds traits
(`Obj.hooks`) on any object. -/
structure NoDeleg (w : World) : Prop where
  cls : ∀ c ∈ w.classes, ClsPlain c
  obj : ∀ o ∈ w.objs, ObjPlain o
  hooks : ∀ o ∈ w.objs, o.hooks = []

def Op.Plain : Op → Prop
  | .mkClass _ decls => ∀ d ∈ decls, d.2.Plain
  | .addTrait _ _ t => t.Plain
  | .hook _ _ _ => False
  | _ => True

instance (op : Op) : Decidable op.Plain := by
  cases op <;> unfold Op.Plain <;> exact inferInstance

deriving instance DecidableEq for Except

theorem trait0_plain {c : Cls} {o : Obj} (hc : ClsPlain c) (ho : ObjPlain o) {n : Name} {t : Trait}
    (h : trait0 c o n = some t) : t.Plain := by
  unfold trait0 at h
  split at h
  · rename_i t' ht'
    cases h
    exact ho _ (Map.mem_of_get ht')
  · exact hc.ct _ (Map.mem_of_get h)

theorem prefixTrait_plain_eq {c : Cls} {o : Obj} (hc : ClsPlain c) (ho : ObjPlain o) (name : Name) (b : Bool) :
    prefixTrait c o name b = resolve₀ c.prefixes name b :=
  prefixTrait_eq_resolve₀ b (fun _ ht => trait0_plain hc ho ht)

theorem prefixTrait_plain {c : Cls} {o : Obj} (hc : ClsPlain c) (ho : ObjPlain o) {name : Name} {b : Bool}
    {t : Trait} (h : prefixTrait c o name b = .ok t) : t.Plain := by
  rw [prefixTrait_plain_eq hc ho] at h
  exact resolve₀_plain hc.pf h

/-! ### the world after a resolution -/

theorem fireTraitAdded_nil {o : Obj} (h : o.hooks = []) (name : Name) : fireTraitAdded o name = o := by
  unfold fireTraitAdded; rw [h]; rfl

theorem set_getElem?_self {α : Type} {l : List α} {i : Nat} {a : α} (h : l[i]? = some a) : l.set i a = l := by
  apply List.ext_getElem?
  intro j
  rw [List.getElem?_set]
  by_cases hij : i = j
  · subst hij
    have : i < l.length := by
      rcases Nat.lt_or_ge i l.length with h' | h'
      · exact h'
      · rw [List.getElem?_eq_none h'] at h; cases h
    have hv : l[i] = a := by
      rw [List.getElem?_eq_getElem this] at h; exact Option.some.inj h
    simp [this, hv]
  · simp [hij]

theorem modify_eq_set {α : Type} {l : List α} {i : Nat} {a : α} (f : α → α) (h : l[i]? = some a) :
    l.modify i f = l.set i (f a) := by
  apply List.ext_getElem?
  intro j
  rw [List.getElem?_modify, List.getElem?_set]
  by_cases hij : i = j
  · subst hij
    have : i < l.length := by
      rcases Nat.lt_or_ge i l.length with h' | h'
      · exact h'
      · rw [List.getElem?_eq_none h'] at h; cases h
    have hv : l[i] = a := by
      rw [List.getElem?_eq_getElem this] at h; exact Option.some.inj h
    simp [this, hv]
  · simp [hij]

theorem setDict_eq {w : World} {oi : Nat} {o : Obj} (d : Map Val) (h : w.objs[oi]? = some o) :
    setDict w oi d = { w with objs := w.objs.set oi { o with dict := d } } := by
  unfold setDict; rw [modify_eq_set _ h]

/-- The only thing a resolution can do to the world: store the prefix trait it
found in the class dictionary of the object's class — and it does so only when
neither an instance trait nor a class trait of that name exists. -/
inductive Resolved (w : World) (o : Obj) (c : Cls) (name : Name) : World → Prop
  | same : Resolved w o c name w
  | cached (b : Bool) (t : Trait) (hi : o.itraits.get name = none) (hct : c.ctraits.get name = none)
      (hp : prefixTrait c o name b = .ok t) :
      Resolved w o c name { w with classes := w.classes.set o.cls { c with ctraits := c.ctraits.set name t } }

theorem Resolved.objs {w w' : World} {o : Obj} {c : Cls} {name : Name} (h : Resolved w o c name w') :
    w'.objs = w.objs := by
  cases h <;> rfl

theorem getPrefixTrait_error {w : World} {oi : Nat} {o : Obj} {c : Cls} {name : Name} {b : Bool} {e : Exc}
    (h : prefixTrait c o name b = .error e) : getPrefixTrait w oi o c name b = (w, .error e) := by
  simp [getPrefixTrait, h]

/-- Without `trait_added` listeners on the object. -/
theorem getPrefixTrait_ok {w : World} {oi : Nat} {o : Obj} {c : Cls} {name : Name} {b : Bool} {t : Trait}
    (h : prefixTrait c o name b = .ok t) (hi : o.itraits.get name = none)
    (hh : o.hooks = []) (ho : w.objs[oi]? = some o) :
    getPrefixTrait w oi o c name b =
      ({ w with classes := w.classes.set o.cls { c with ctraits := c.ctraits.set name t } }, .ok t) := by
  simp [getPrefixTrait, h, hi, fireTraitAdded_nil hh, set_getElem?_self ho]

theorem getPrefixTrait_resolved (w : World) {oi : Nat} {o : Obj} {c : Cls} {name : Name} (b : Bool)
    (hi : o.itraits.get name = none) (hct : c.ctraits.get name = none)
    (hh : o.hooks = []) (ho : w.objs[oi]? = some o) :
    Resolved w o c name (getPrefixTrait w oi o c name b).1 := by
  cases h : prefixTrait c o name b with
  | error e => rw [getPrefixTrait_error h]; exact .same
  | ok t => rw [getPrefixTrait_ok h hi hh ho]; exact .cached b t hi hct h

/-- What `getPrefixTrait` returns when it succeeds. -/
theorem getPrefixTrait_result {w : World} {oi : Nat} {o : Obj} {c : Cls} {name : Name} {b : Bool} {w' : World}
    {t : Trait} (hi : o.itraits.get name = none) (hh : o.hooks = []) (ho : w.objs[oi]? = some o)
    (h : getPrefixTrait w oi o c name b = (w', .ok t)) :
    prefixTrait c o name b = .ok t := by
  cases hp : prefixTrait c o name b with
  | error e => rw [getPrefixTrait_error hp] at h; cases h
  | ok t' => rw [getPrefixTrait_ok hp hi hh ho] at h; cases h; rfl

/-- The trait `has_traits_setattro` dispatches to (as a relation): instance
trait, else class-dictionary entry, else a fresh prefix resolution. -/
inductive Dispatch (c : Cls) (o : Obj) (name : Name) (b : Bool) : Except Exc Trait → Prop
  | inst {t : Trait} (h : o.itraits.get name = some t) : Dispatch c o name b (.ok t)
  | cls {t : Trait} (hi : o.itraits.get name = none) (h : c.ctraits.get name = some t) : Dispatch c o name b (.ok t)
  | pref {r : Except Exc Trait} (hi : o.itraits.get name = none) (hct : c.ctraits.get name = none)
      (h : prefixTrait c o name b = r) : Dispatch c o name b r

theorem resolveSet_spec (w : World) {oi : Nat} {o : Obj} (c : Cls) (name : Name)
    (hh : o.hooks = []) (ho : w.objs[oi]? = some o) :
    Resolved w o c name (resolveSet w oi o c name).1 ∧ Dispatch c o name true (resolveSet w oi o c name).2 := by
  unfold resolveSet
  cases hi : o.itraits.get name with
  | some t => exact ⟨.same, .inst hi⟩
  | none =>
    cases hct : c.ctraits.get name with
    | some t => exact ⟨.same, .cls hi hct⟩
    | none =>
      refine ⟨getPrefixTrait_resolved w true hi hct hh ho, ?_⟩
      cases hp : prefixTrait c o name true with
      | error e => simp only [getPrefixTrait_error hp]; exact .pref hi hct hp
      | ok t => simp only [getPrefixTrait_ok hp hi hh ho]; exact .pref hi hct hp

/-! ### what the per-kind functions do to `__dict__` -/

theorem setattrPython_frame {d d' : Map Val} {name : Name} {value : Option Val}
    (h : setattrPython d name value = .ok d') : ∀ k, k ≠ name → d'.get k = d.get k := by
  intro k hk
  unfold setattrPython at h
  split at h
  · cases h; exact Map.get_set_ne _ _ (Ne.symm hk)
  · split at h
    · cases h; exact Map.get_erase_ne _ (Ne.symm hk)
    · cases h

theorem setattrKind_frame {E : Env} {t : Trait} {d d' : Map Val} {name : Name} {value : Option Val}
    (h : setattrKind E t d name value = .ok d') : ∀ k, k ≠ name → d'.get k = d.get k := by
  intro k hk
  have hs : ∀ v, (d.set name v).get k = d.get k := fun v => Map.get_set_ne _ _ (Ne.symm hk)
  have he : (d.erase name).get k = d.get k := Map.get_erase_ne _ (Ne.symm hk)
  unfold setattrKind at h
  split at h
  · -- trait
    split at h
    · cases h; exact he
    · split at h
      · split at h
        · cases h; exact hs _
        · cases hv : E.validate _ 0 _ with
          | error e => rw [hv] at h; cases h
          | ok v' => rw [hv] at h; cases h; exact hs _
      · cases h; exact hs _
  · exact setattrPython_frame h k hk
  · exact setattrPython_frame h k hk
  · -- event
    split at h
    · cases h; rfl
    · split at h
      · cases hv : E.validate _ 0 _ with
        | error e => rw [hv] at h; cases h
        | ok v' => rw [hv] at h; cases h; rfl
      · cases h; rfl
  · cases h
  · -- readonly
    split at h
    · cases h
    · split at h
      · cases h
      · split at h
        · exact setattrPython_frame h k hk
        · split at h
          · exact setattrPython_frame h k hk
          · cases h
  · cases h
  · cases hv : E.delegSet 0 (name, value) with
    | error e => rw [hv] at h; cases h
    | ok u => rw [hv] at h; cases h; rfl

theorem getattrKind_frame {E : Env} {t : Trait} {d d' : Map Val} {name : Name} {v : Val}
    (h : getattrKind E t d name = .ok (v, d')) : ∀ k, k ≠ name → d'.get k = d.get k := by
  intro k hk
  unfold getattrKind at h
  cases hkind : t.kind <;> rw [hkind] at h <;> simp only at h
  · cases h; exact Map.get_set_ne _ _ (Ne.symm hk)
  · cases hg : genericGet E d name with
    | error e => rw [hg] at h; cases h
    | ok v' => rw [hg] at h; cases h; rfl
  · cases h
  · cases hg : E.delegGet 0 name with
    | error e => rw [hg] at h; cases h
    | ok v' => rw [hg] at h; cases h; rfl
  · cases h
  · cases h; exact Map.get_set_ne _ _ (Ne.symm hk)
  · cases h; rfl
  · cases hg : genericGet E d name with
    | error e => rw [hg] at h; cases h
    | ok v' => rw [hg] at h; cases h; rfl

/-! ### unfolding `step` on an existing object -/

theorem withObj_eq {w : World} {oi : Nat} {o : Obj} {c : Cls} (ho : w.objs[oi]? = some o)
    (hc : w.classes[o.cls]? = some c) (f : Obj → Cls → World × Except Exc Out) : withObj w oi f = f o c := by
  simp [withObj, ho, hc]

theorem withObj_bad {w : World} {oi : Nat} (f : Obj → Cls → World × Except Exc Out)
    (h : w.objs[oi]? = none ∨ ∃ o, w.objs[oi]? = some o ∧ w.classes[o.cls]? = none) :
    withObj w oi f = (w, .error .indexError) := by
  rcases h with h | ⟨o, ho, hc⟩
  · simp [withObj, h]
  · simp [withObj, ho, hc]

/-- The (object, name) an operation addresses. -/
def Op.target : Op → Option (Nat × Name)
  | .mkClass _ _ => none
  | .new _ => none
  | .get o n => some (o, n)
  | .set o n _ => some (o, n)
  | .del o n => some (o, n)
  | .addTrait o n _ => some (o, n)
  | .removeTrait o n => some (o, n)
  | .getTrait o n _ => some (o, n)
  | .hook o p _ => some (o, p)

/-- How the addressed object can change.  Other names are untouched.  For the
addressed name: the instance-trait entry stays, is removed by `remove_trait`,
or becomes the `add_trait` argument / a copy of the class-level trait that
governs; the `__dict__` entry stays, is removed by `remove_trait`, or is what
the setter / getter of a trait the lookup dispatches to made of it. -/
structure ObjChange (E : Env) (op : Op) (oi : Nat) (name : Name) (c : Cls) (o o' : Obj) : Prop where
  cls : o'.cls = o.cls
  hooksEq : (∃ p t, op = .hook oi p t) ∨ o'.hooks = o.hooks
  dict : ∀ k, k ≠ name → o'.dict.get k = o.dict.get k
  itr : ∀ k, k ≠ name → o'.itraits.get k = o.itraits.get k
  itrMem : ∀ e ∈ o'.itraits, e ∈ o.itraits ∨ (op = .addTrait oi name e.2) ∨
    c.ctraits.get name = some e.2 ∨ ∃ b, prefixTrait c o name b = .ok e.2
  itrT : o'.itraits.get name = o.itraits.get name ∨
    (op = .removeTrait oi name ∧ o'.itraits.get name = none) ∨
    ∃ t, o'.itraits.get name = some t ∧ (op = .addTrait oi name t ∨
      (o.itraits.get name = none ∧ (c.ctraits.get name = some t ∨
        (c.ctraits.get name = none ∧ ∃ b, prefixTrait c o name b = .ok t))))
  dictT : o'.dict.get name = o.dict.get name ∨
    (op = .removeTrait oi name ∧ o'.dict.get name = none) ∨
    (∃ t value, Dispatch c o name true (.ok t) ∧ setattrKind E t o.dict name value = .ok o'.dict) ∨
    (∃ t v, o.dict.get name = none ∧ Dispatch c o name false (.ok t) ∧
      getattrKind E t o.dict name = .ok (v, o'.dict))

/-- Everything one step can do. -/
inductive Effect (E : Env) (w : World) : Op → World → Prop
  | noop (op : Op) : Effect E w op w
  | mkClass (bases : List Nat) (decls : List (Name × Trait)) (bs : List Cls)
      (h : bases.mapM (fun b => w.classes[b]?) = some bs) :
      Effect E w (.mkClass bases decls) { w with classes := w.classes ++ [mkClass bs decls] }
  | new (ci : Nat) (c : Cls) (h : w.classes[ci]? = some c) :
      Effect E w (.new ci) { w with objs := w.objs ++ [{ cls := ci }] }
  | obj (op : Op) (oi : Nat) (name : Name) (o : Obj) (c : Cls) (w' : World) (o' : Obj)
      (ht : op.target = some (oi, name)) (ho : w.objs[oi]? = some o) (hc : w.classes[o.cls]? = some c)
      (hres : Resolved w o c name w') (hch : ObjChange E op oi name c o o') :
      Effect E w op { w' with objs := w'.objs.set oi o' }
  | res (op : Op) (oi : Nat) (name : Name) (o : Obj) (c : Cls) (w' : World)
      (ht : op.target = some (oi, name)) (ho : w.objs[oi]? = some o) (hc : w.classes[o.cls]? = some c)
      (hres : Resolved w o c name w') : Effect E w op w'

theorem setattro_effect (E : Env) {w : World} {op : Op} {oi : Nat} {name : Name} {o : Obj} {c : Cls}
    (value : Option Val) (ht : op.target = some (oi, name)) (ho : w.objs[oi]? = some o)
    (hc : w.classes[o.cls]? = some c) (hh : o.hooks = []) :
    Effect E w op (setattro E w oi o c name value).1 := by
  unfold setattro
  obtain ⟨hr, hd⟩ := resolveSet_spec w c name hh ho
  generalize resolveSet w oi o c name = r at hr hd
  obtain ⟨w', res⟩ := r
  cases res with
  | error e => exact .res op oi name o c w' ht ho hc hr
  | ok t =>
    simp only
    cases hk : setattrKind E t o.dict name value with
    | error e => exact .res op oi name o c w' ht ho hc hr
    | ok d =>
      simp only
      rw [setDict_eq d (by rw [hr.objs]; exact ho)]
      exact .obj op oi name o c w' { o with dict := d } ht ho hc hr
        ⟨rfl, Or.inr rfl, setattrKind_frame hk, fun _ _ => rfl, fun _ he => Or.inl he, Or.inl rfl,
         Or.inr (Or.inr (Or.inl ⟨t, value, hd, hk⟩))⟩

theorem trait0_dispatch {c : Cls} {o : Obj} {name : Name} {t : Trait} (b : Bool)
    (h : trait0 c o name = some t) : Dispatch c o name b (.ok t) := by
  unfold trait0 at h
  cases hi : o.itraits.get name with
  | some t' => rw [hi] at h; cases h; exact .inst hi
  | none => rw [hi] at h; exact .cls hi h

theorem trait0_none {c : Cls} {o : Obj} {name : Name} (h : trait0 c o name = none) :
    o.itraits.get name = none ∧ c.ctraits.get name = none := by
  unfold trait0 at h
  cases hi : o.itraits.get name with
  | some t' => rw [hi] at h; cases h
  | none => rw [hi] at h; exact ⟨rfl, h⟩

theorem getattro_effect (E : Env) {w : World} {op : Op} {oi : Nat} {name : Name} {o : Obj} {c : Cls}
    (ht : op.target = some (oi, name)) (ho : w.objs[oi]? = some o)
    (hc : w.classes[o.cls]? = some c) (hh : o.hooks = []) :
    Effect E w op (getattro E w oi o c name).1 := by
  unfold getattro
  cases hdict : o.dict.get name with
  | some v => exact .noop op
  | none =>
    simp only
    have fin : ∀ (w' : World) (t : Trait) (v : Val) (d : Map Val), Resolved w o c name w' →
        Dispatch c o name false (.ok t) → getattrKind E t o.dict name = .ok (v, d) →
        Effect E w op (setDict w' oi d) := by
      intro w' t v d hres hd hk
      rw [setDict_eq d (by rw [hres.objs]; exact ho)]
      exact .obj op oi name o c w' { o with dict := d } ht ho hc hres
        ⟨rfl, Or.inr rfl, getattrKind_frame hk, fun _ _ => rfl, fun _ he => Or.inl he, Or.inl rfl,
         Or.inr (Or.inr (Or.inr ⟨t, v, hdict, hd, hk⟩))⟩
    cases h0 : trait0 c o name with
    | some t =>
      simp only
      cases hk : getattrKind E t o.dict name with
      | error e => exact .noop op
      | ok r =>
        obtain ⟨v, d⟩ := r
        exact fin w t v d .same (trait0_dispatch false h0) hk
    | none =>
      simp only
      cases E.classAttr name with
      | some v => exact .noop op
      | none =>
        simp only
        obtain ⟨hi, hct⟩ := trait0_none h0
        have hr := getPrefixTrait_resolved w false hi hct hh ho
        cases hg : getPrefixTrait w oi o c name false with
        | mk w' res =>
          rw [hg] at hr
          cases res with
          | error e => exact .res op oi name o c w' ht ho hc hr
          | ok t =>
            simp only
            cases hk : getattrKind E t o.dict name with
            | error e => exact .res op oi name o c w' ht ho hc hr
            | ok r =>
              obtain ⟨v, d⟩ := r
              exact fin w' t v d hr (.pref hi hct (getPrefixTrait_result hi hh ho hg)) hk

theorem getTrait_effect (E : Env) {w : World} {op : Op} {oi : Nat} {name : Name} {o : Obj} {c : Cls} (inst : Int)
    (ht : op.target = some (oi, name)) (ho : w.objs[oi]? = some o)
    (hc : w.classes[o.cls]? = some c) (hh : o.hooks = []) :
    Effect E w op (getTrait w oi o c name inst).1 := by
  unfold getTrait
  cases hi : o.itraits.get name with
  | some t => exact .noop op
  | none =>
    have clone : ∀ (w' : World) (t : Trait), Resolved w o c name w' →
        (c.ctraits.get name = some t ∨ (c.ctraits.get name = none ∧ ∃ b, prefixTrait c o name b = .ok t)) →
        Effect E w op { w' with objs := w'.objs.modify oi (fun o => { o with itraits := o.itraits.set name t }) } := by
      intro w' t hres hsrc
      rw [modify_eq_set _ (by rw [hres.objs]; exact ho)]
      refine .obj op oi name o c w' _ ht ho hc hres ⟨rfl, Or.inr rfl, fun _ _ => rfl, ?_, ?_, ?_, Or.inl rfl⟩
      · intro k hk; exact Map.get_set_ne _ _ (Ne.symm hk)
      · intro e he
        rcases List.mem_cons.mp he with he | he
        · subst he
          rcases hsrc with h | h
          · exact Or.inr (Or.inr (Or.inl h))
          · exact Or.inr (Or.inr (Or.inr h.2))
        · exact Or.inl he
      · exact Or.inr (Or.inr ⟨t, Map.get_set_same _ _ _, Or.inr ⟨hi, hsrc⟩⟩)
    by_cases h1 : inst = 1
    · simp only [h1, ↓reduceIte]; exact .noop op
    · simp only [h1, ↓reduceIte]
      cases hct : c.ctraits.get name with
      | some t =>
        simp only
        by_cases hle : inst ≤ 0
        · simp only [hle, ↓reduceIte]; exact .noop op
        · simp only [hle, ↓reduceIte]; exact clone w t .same (Or.inl hct)
      | none =>
        by_cases h0 : inst = 0
        · simp only [h0, ↓reduceIte]; exact .noop op
        · have hr := getPrefixTrait_resolved w false hi hct hh ho
          cases hg : getPrefixTrait w oi o c name false with
          | mk w' res =>
            rw [hg] at hr
            cases res with
            | error e => simp only [h0, ↓reduceIte]; exact .res op oi name o c w' ht ho hc hr
            | ok t =>
              simp only [h0, ↓reduceIte]
              by_cases hle : inst ≤ 0
              · simp only [hle, ↓reduceIte]; exact .res op oi name o c w' ht ho hc hr
              · simp only [hle, ↓reduceIte]
                exact clone w' t hr (Or.inr ⟨hct, false, getPrefixTrait_result hi hh ho hg⟩)

theorem removeTrait_effect (E : Env) {w : World} {oi : Nat} {name : Name} {o : Obj} {c : Cls}
    (ho : w.objs[oi]? = some o) (hc : w.classes[o.cls]? = some c) :
    Effect E w (.removeTrait oi name) (removeTrait w oi o c name).1 := by
  unfold removeTrait
  split
  · exact .noop _
  · split
    · refine .obj _ oi name o c w _ rfl ho hc .same ⟨rfl, Or.inr rfl, ?_, ?_, ?_, ?_, ?_⟩
      · intro k hk; exact Map.get_erase_ne _ (Ne.symm hk)
      · intro k hk; exact Map.get_erase_ne _ (Ne.symm hk)
      · intro e he; exact Or.inl (Map.mem_erase he)
      · exact Or.inr (Or.inl ⟨rfl, Map.get_erase_same _ _⟩)
      · exact Or.inr (Or.inl ⟨rfl, Map.get_erase_same _ _⟩)
    · refine .obj _ oi name o c w _ rfl ho hc .same
        ⟨rfl, Or.inr rfl, ?_, fun _ _ => rfl, fun _ he => Or.inl he, Or.inl rfl, ?_⟩
      · intro k hk; exact Map.get_erase_ne _ (Ne.symm hk)
      · exact Or.inr (Or.inl ⟨rfl, Map.get_erase_same _ _⟩)

theorem addTrait_eq {w : World} {oi : Nat} {o : Obj} {c : Cls} (n : Name) (t : Trait) (hh : o.hooks = []) :
    addTrait w oi o c n t =
      ({ w with objs := w.objs.set oi { o with itraits := o.itraits.set n t } }, .ok .done) := by
  unfold addTrait
  cases trait0 c o n with
  | some _ => rfl
  | none =>
    simp only
    rw [fireTraitAdded_nil (o := { o with itraits := o.itraits.set n t }) hh n]

/-- Everything a step can do in a world without `trait_added` listeners. -/
theorem step_effect (E : Env) (w : World) (hw : ∀ o ∈ w.objs, o.hooks = []) (op : Op) :
    Effect E w op (step E w op).1 := by
  cases op with
  | mkClass bases decls =>
    simp only [step]
    cases h : bases.mapM (fun b => w.classes[b]?) with
    | none => exact .noop _
    | some bs => exact .mkClass bases decls bs h
  | new ci =>
    simp only [step]
    cases h : w.classes[ci]? with
    | none => exact .noop _
    | some c => exact .new ci c h
  | get oi n =>
    simp only [step]
    cases ho : w.objs[oi]? with
    | none => rw [withObj_bad _ (Or.inl ho)]; exact .noop _
    | some o =>
      cases hc : w.classes[o.cls]? with
      | none => rw [withObj_bad _ (Or.inr ⟨o, ho, hc⟩)]; exact .noop _
      | some c => rw [withObj_eq ho hc]; exact getattro_effect E rfl ho hc (hw o (List.mem_of_getElem? ho))
  | set oi n v =>
    simp only [step]
    cases ho : w.objs[oi]? with
    | none => rw [withObj_bad _ (Or.inl ho)]; exact .noop _
    | some o =>
      cases hc : w.classes[o.cls]? with
      | none => rw [withObj_bad _ (Or.inr ⟨o, ho, hc⟩)]; exact .noop _
      | some c => rw [withObj_eq ho hc]; exact setattro_effect E _ rfl ho hc (hw o (List.mem_of_getElem? ho))
  | del oi n =>
    simp only [step]
    cases ho : w.objs[oi]? with
    | none => rw [withObj_bad _ (Or.inl ho)]; exact .noop _
    | some o =>
      cases hc : w.classes[o.cls]? with
      | none => rw [withObj_bad _ (Or.inr ⟨o, ho, hc⟩)]; exact .noop _
      | some c => rw [withObj_eq ho hc]; exact setattro_effect E _ rfl ho hc (hw o (List.mem_of_getElem? ho))
  | addTrait oi n t =>
    simp only [step]
    cases ho : w.objs[oi]? with
    | none => rw [withObj_bad _ (Or.inl ho)]; exact .noop _
    | some o =>
      cases hc : w.classes[o.cls]? with
      | none => rw [withObj_bad _ (Or.inr ⟨o, ho, hc⟩)]; exact .noop _
      | some c =>
        rw [withObj_eq ho hc]
        rw [addTrait_eq n t (hw o (List.mem_of_getElem? ho))]
        refine .obj _ oi n o c w _ rfl ho hc .same ⟨rfl, Or.inr rfl, fun _ _ => rfl, ?_, ?_, ?_, Or.inl rfl⟩
        · intro k hk; exact Map.get_set_ne _ _ (Ne.symm hk)
        · intro e he
          rcases List.mem_cons.mp he with he | he
          · subst he; exact Or.inr (Or.inl rfl)
          · exact Or.inl he
        · exact Or.inr (Or.inr ⟨t, Map.get_set_same _ _ _, Or.inl rfl⟩)
  | removeTrait oi n =>
    simp only [step]
    cases ho : w.objs[oi]? with
    | none => rw [withObj_bad _ (Or.inl ho)]; exact .noop _
    | some o =>
      cases hc : w.classes[o.cls]? with
      | none => rw [withObj_bad _ (Or.inr ⟨o, ho, hc⟩)]; exact .noop _
      | some c => rw [withObj_eq ho hc]; exact removeTrait_effect E ho hc
  | getTrait oi n inst =>
    simp only [step]
    cases ho : w.objs[oi]? with
    | none => rw [withObj_bad _ (Or.inl ho)]; exact .noop _
    | some o =>
      cases hc : w.classes[o.cls]? with
      | none => rw [withObj_bad _ (Or.inr ⟨o, ho, hc⟩)]; exact .noop _
      | some c => rw [withObj_eq ho hc]; exact getTrait_effect E inst rfl ho hc (hw o (List.mem_of_getElem? ho))
  | hook oi p t =>
    simp only [step]
    cases ho : w.objs[oi]? with
    | none => rw [withObj_bad _ (Or.inl ho)]; exact .noop _
    | some o =>
      cases hc : w.classes[o.cls]? with
      | none => rw [withObj_bad _ (Or.inr ⟨o, ho, hc⟩)]; exact .noop _
      | some c =>
        rw [withObj_eq ho hc]
        exact .obj _ oi p o c w _ rfl ho hc .same
          ⟨rfl, Or.inl ⟨p, t, rfl⟩, fun _ _ => rfl, fun _ _ => rfl, fun _ he => Or.inl he, Or.inl rfl, Or.inl rfl⟩

end TraitsVerif.Model.Resolve
