/-
Helper lemmas for `Model/RefPaths`: the executable checker `valueOk` (a ledger
run that must end at `held = 0, owed = 0`) implies the order-free statement
`balance = 0` and the prefix statement `neverNegative`.
-/
import TraitsVerif.Model.RefPaths
namespace TraitsVerif.Lemmas.RefPaths
open TraitsVerif.Model.RefPaths

/-- Net effect of one event on the number of references the function owns. -/
def delta : Ev → Int
  | .new | .inc | .take => 1
  | .dec | .xdec | .steal | .ret | .store => -1
  | .bad => 0

/-- `balance`, by structural recursion. -/
def bal (v : Nat) : List (Nat × Ev) → Int
  | [] => 0
  | x :: r => (if x.1 = v then delta x.2 else 0) + bal v r

theorem foldl_bal (v : Nat) (evs : List (Nat × Ev)) (a : Int) :
    evs.foldl (balStep v) a = a + bal v evs := by
  induction evs generalizing a with
  | nil => simp [bal]
  | cons x r ih =>
    simp only [List.foldl_cons, bal]
    rw [ih]
    by_cases h : x.1 = v
    · simp only [balStep, h, if_true]
      cases x.2 <;> simp only [delta] <;> omega
    · simp only [balStep, h, if_false]
      omega

theorem balance_eq_bal (evs : List (Nat × Ev)) (v : Nat) : balance evs v = bal v evs := by
  unfold balance
  rw [foldl_bal]
  omega

theorem stepEv_net {l l' : Led} {e : Ev} (h : stepEv l e = some l') : l'.net = l.net + delta e := by
  cases e <;> simp only [stepEv] at h
  all_goals first
    | (split at h
       · cases h; simp only [Led.net, delta]; omega
       · cases h; simp only [Led.net, delta]; omega)
    | (split at h
       · cases h; simp only [Led.net, delta]; omega
       · cases h)
    | cases h

theorem run_net (v : Nat) (evs : List (Nat × Ev)) (l l' : Led) (h : run v evs l = some l') :
    l'.net = l.net + bal v evs := by
  induction evs generalizing l with
  | nil => simp only [run] at h; cases h; simp [bal]
  | cons x r ih =>
    obtain ⟨w, e⟩ := x
    simp only [run] at h
    by_cases hw : w = v
    · simp only [hw, if_true] at h
      cases hs : stepEv l e with
      | none => simp [hs] at h
      | some l1 =>
        simp only [hs] at h
        have := ih l1 h
        have h1 := stepEv_net hs
        simp only [bal, hw, if_true]
        omega
    · simp only [hw, if_false] at h
      have := ih l h
      simp only [bal, hw, if_false]
      omega

/-- What the checker's `true` means: the value's events sum to zero and no prefix is illegal. -/
theorem valueOk_sound (evs : List (Nat × Ev)) (v : Nat) (h : valueOk evs v = true) :
    balance evs v = 0 ∧ neverNegative evs v = true := by
  unfold valueOk at h
  have h' : run v evs {} = some {} := by simpa using h
  refine ⟨?_, by simp [neverNegative, h']⟩
  rw [balance_eq_bal]
  have := run_net v evs {} {} h'
  simp only [Led.net] at this
  omega

end TraitsVerif.Lemmas.RefPaths
