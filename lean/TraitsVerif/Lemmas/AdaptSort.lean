/-
Lemmas about the two CPython pieces of the `adapt` model:
 * `pySort` (count_run + binarysort) is a permutation for *every* comparison, and
   orders its output by any negatively transitive relation `S` the comparison is
   compatible with — even when the comparison itself is not a weak order;
 * the sorted-list queue: `qInsert` keeps the list sorted and is a permutation, and
   popping the head of the sorted list is what any min-heap with the same contents
   pops when keys are unique (`heap_is_sorted_list`).
-/
import TraitsVerif.Model.Adapt
namespace TraitsVerif.Lemmas.Adapt
open TraitsVerif TraitsVerif.Model.Adapt
variable {α : Type}

/-! ### `pySort` is a permutation -/

theorem binInsert_perm (lt : α → α → Bool) (xs : List α) (x : α) :
    (binInsert lt xs x).Perm (x :: xs) := by
  unfold binInsert
  have h := List.perm_middle (a := x) (l₁ := xs.take (bisect lt x xs 0 xs.length))
    (l₂ := xs.drop (bisect lt x xs 0 xs.length))
  rwa [List.take_append_drop] at h

theorem foldl_binInsert_perm (lt : α → α → Bool) :
    ∀ (tl acc : List α), (tl.foldl (binInsert lt) acc).Perm (acc ++ tl)
  | [], acc => by simp
  | x :: tl, acc => by
    simp only [List.foldl_cons]
    refine (foldl_binInsert_perm lt tl _).trans ?_
    refine ((binInsert_perm lt acc x).append_right tl).trans ?_
    simpa using (List.perm_middle (a := x) (l₁ := acc) (l₂ := tl)).symm

theorem runAsc_append (lt : α → α → Bool) :
    ∀ (l : List α) (prev : α), (runAsc lt prev l).1 ++ (runAsc lt prev l).2 = l
  | [], _ => rfl
  | x :: xs, prev => by
    unfold runAsc
    split
    · rfl
    · simp [runAsc_append lt xs x]

theorem runDesc_append (lt : α → α → Bool) :
    ∀ (l : List α) (prev : α), (runDesc lt prev l).1 ++ (runDesc lt prev l).2 = l
  | [], _ => rfl
  | x :: xs, prev => by
    unfold runDesc
    split
    · simp [runDesc_append lt xs x]
    · rfl

theorem pySort_perm (lt : α → α → Bool) : ∀ l : List α, (pySort lt l).Perm l
  | [] => by simp [pySort]
  | [a] => by simp [pySort]
  | a :: b :: rest => by
    simp only [pySort]
    split
    · refine (foldl_binInsert_perm lt _ _).trans ?_
      have h := runDesc_append lt rest b
      have h2 : ((a :: b :: (runDesc lt b rest).1).reverse ++ (runDesc lt b rest).2).Perm
          ((a :: b :: (runDesc lt b rest).1) ++ (runDesc lt b rest).2) :=
        (List.reverse_perm _).append_right _
      refine h2.trans ?_
      simp only [List.cons_append, h]
      exact List.Perm.refl _
    · refine (foldl_binInsert_perm lt _ _).trans ?_
      have h := runAsc_append lt rest b
      simp only [List.cons_append, h]
      exact List.Perm.refl _

theorem mem_pySort {lt : α → α → Bool} {l : List α} {x : α} : x ∈ pySort lt l ↔ x ∈ l :=
  (pySort_perm lt l).mem_iff

/-! ### what order `pySort` guarantees -/

/-- `S` is a relation the sort is able to respect on the elements satisfying `P`:
negatively transitive, never contradicted by a `true` answer of `lt`, never
missed by a `false` answer. -/
structure Compat (lt : α → α → Bool) (S : α → α → Prop) (P : α → Prop) : Prop where
  nt : ∀ a b c, P a → P b → P c → S a b → S a c ∨ S c b
  c1 : ∀ a b, P a → P b → lt a b = true → ¬ S b a
  c2 : ∀ a b, P a → P b → lt a b = false → ¬ S a b

/-- Sorted w.r.t. `S`: nothing later is `S`-before something earlier. -/
def SortedS (S : α → α → Prop) (l : List α) : Prop := l.Pairwise (fun a b => ¬ S b a)

theorem bisectGo_spec {lt : α → α → Bool} {S : α → α → Prop} {P : α → Prop} (H : Compat lt S P)
    (pivot : α) (xs : List α) (hP : P pivot) (hxs : ∀ x ∈ xs, P x) (hs : SortedS S xs) :
    ∀ fuel l r, r - l ≤ fuel → r ≤ xs.length →
      (∀ x ∈ xs.take l, ¬ S pivot x) → (∀ x ∈ xs.drop r, ¬ S x pivot) →
      (∀ x ∈ xs.take (bisectGo lt pivot xs fuel l r), ¬ S pivot x) ∧
      (∀ x ∈ xs.drop (bisectGo lt pivot xs fuel l r), ¬ S x pivot) := by
  intro fuel
  induction fuel with
  | zero =>
    intro l r hf _ hl hr
    have hrl : r ≤ l := by omega
    refine ⟨hl, fun x hx => hr x ((List.drop_sublist_drop_left xs hrl).subset hx)⟩
  | succ fuel ih =>
    intro l r hf hlen hl hr
    unfold bisectGo
    by_cases hlr : l < r
    · simp only [hlr, if_true]
      have hp : l + (r - l) / 2 < xs.length := by omega
      rw [List.getElem?_eq_getElem hp]
      simp only
      have hs' : (xs.take (l + (r - l) / 2) ++
          xs[l + (r - l) / 2] :: xs.drop (l + (r - l) / 2 + 1)).Pairwise (fun a b => ¬ S b a) := by
        rw [← List.drop_eq_getElem_cons hp, List.take_append_drop]; exact hs
      have hPp : P xs[l + (r - l) / 2] := hxs _ (List.getElem_mem hp)
      rw [List.pairwise_append] at hs'
      obtain ⟨_, hs2, hs3⟩ := hs'
      rw [List.pairwise_cons] at hs2
      by_cases hlt : lt pivot xs[l + (r - l) / 2] = true
      · simp only [hlt, if_true]
        refine ih l (l + (r - l) / 2) (by omega) (by omega) hl ?_
        intro x hx
        rw [List.drop_eq_getElem_cons hp] at hx
        rcases List.mem_cons.1 hx with rfl | hx
        · exact H.c1 _ _ hP hPp hlt
        · intro hS
          have hPx : P x := hxs _ ((List.drop_sublist _ _).subset hx)
          rcases H.nt _ _ _ hPx hP hPp hS with h | h
          · exact hs2.1 x hx h
          · exact H.c1 _ _ hP hPp hlt h
      · have hlt' : lt pivot xs[l + (r - l) / 2] = false := by simpa using hlt
        simp only [hlt', Bool.false_eq_true, if_false]
        refine ih (l + (r - l) / 2 + 1) r (by omega) hlen ?_ hr
        intro x hx
        rw [List.take_succ_eq_append_getElem hp] at hx
        rcases List.mem_append.1 hx with hx | hx
        · intro hS
          have hPx : P x := hxs _ ((List.take_sublist _ _).subset hx)
          rcases H.nt _ _ _ hP hPx hPp hS with h | h
          · exact H.c2 _ _ hP hPp hlt' h
          · exact hs3 x hx _ (List.mem_cons_self) h
        · rw [List.mem_singleton] at hx
          subst hx
          exact H.c2 _ _ hP hPp hlt'
    · simp only [hlr, if_false]
      have hrl : r ≤ l := by omega
      exact ⟨hl, fun x hx => hr x ((List.drop_sublist_drop_left xs hrl).subset hx)⟩

theorem binInsert_sorted {lt : α → α → Bool} {S : α → α → Prop} {P : α → Prop} (H : Compat lt S P)
    (pivot : α) (xs : List α) (hP : P pivot) (hxs : ∀ x ∈ xs, P x) (hs : SortedS S xs) :
    SortedS S (binInsert lt xs pivot) := by
  unfold binInsert bisect
  obtain ⟨h1, h2⟩ := bisectGo_spec H pivot xs hP hxs hs (xs.length - 0) 0 xs.length (Nat.le_refl _)
    (Nat.le_refl _) (by simp) (by simp)
  generalize bisectGo lt pivot xs (xs.length - 0) 0 xs.length = k at h1 h2
  have hs' : (xs.take k ++ xs.drop k).Pairwise (fun a b => ¬ S b a) := by
    rw [List.take_append_drop]; exact hs
  rw [List.pairwise_append] at hs'
  unfold SortedS
  rw [List.pairwise_append]
  refine ⟨hs'.1, List.pairwise_cons.2 ⟨fun b hb => h2 b hb, hs'.2.1⟩, ?_⟩
  intro a ha b hb
  rcases List.mem_cons.1 hb with rfl | hb
  · exact h1 a ha
  · exact hs'.2.2 a ha b hb

theorem foldl_binInsert_sorted {lt : α → α → Bool} {S : α → α → Prop} {P : α → Prop}
    (H : Compat lt S P) :
    ∀ (tl acc : List α), (∀ x ∈ tl, P x) → (∀ x ∈ acc, P x) → SortedS S acc →
      SortedS S (tl.foldl (binInsert lt) acc)
  | [], _, _, _, hs => hs
  | x :: tl, acc, htl, hacc, hs => by
    simp only [List.foldl_cons]
    refine foldl_binInsert_sorted H tl _ (fun y hy => htl y (List.mem_cons_of_mem _ hy)) ?_
      (binInsert_sorted H x acc (htl x List.mem_cons_self) hacc hs)
    intro y hy
    rcases List.mem_cons.1 ((binInsert_perm lt acc x).mem_iff.1 hy) with rfl | hy
    · exact htl _ List.mem_cons_self
    · exact hacc y hy

theorem runAsc_sorted {lt : α → α → Bool} {S : α → α → Prop} {P : α → Prop} (H : Compat lt S P) :
    ∀ (l : List α) (prev : α), P prev → (∀ x ∈ l, P x) →
      SortedS S (prev :: (runAsc lt prev l).1)
  | [], prev, _, _ => by simp [runAsc, SortedS]
  | x :: xs, prev, hp, hl => by
    unfold runAsc
    by_cases hlt : lt x prev = true
    · simp [hlt, SortedS]
    · have hlt' : lt x prev = false := by simpa using hlt
      simp only [hlt', Bool.false_eq_true, if_false]
      have hPx : P x := hl x List.mem_cons_self
      have hxs : ∀ y ∈ xs, P y := fun y hy => hl y (List.mem_cons_of_mem _ hy)
      have ih := runAsc_sorted H xs x hPx hxs
      unfold SortedS at ih ⊢
      refine List.pairwise_cons.2 ⟨?_, ih⟩
      intro y hy
      rcases List.mem_cons.1 hy with rfl | hy
      · exact H.c2 _ _ hPx hp hlt'
      · intro hS
        have hPy : P y := by
          have : y ∈ (runAsc lt x xs).1 ++ (runAsc lt x xs).2 := List.mem_append_left _ hy
          rw [runAsc_append] at this
          exact hxs y this
        rcases H.nt _ _ _ hPy hp hPx hS with h | h
        · exact (List.pairwise_cons.1 ih).1 y hy h
        · exact H.c2 _ _ hPx hp hlt' h

theorem runDesc_sorted {lt : α → α → Bool} {S : α → α → Prop} {P : α → Prop} (H : Compat lt S P) :
    ∀ (l : List α) (prev : α), P prev → (∀ x ∈ l, P x) →
      (prev :: (runDesc lt prev l).1).Pairwise (fun a b => ¬ S a b)
  | [], prev, _, _ => by simp [runDesc]
  | x :: xs, prev, hp, hl => by
    unfold runDesc
    by_cases hlt : lt x prev = true
    · simp only [hlt, if_true]
      have hPx : P x := hl x List.mem_cons_self
      have hxs : ∀ y ∈ xs, P y := fun y hy => hl y (List.mem_cons_of_mem _ hy)
      have ih := runDesc_sorted H xs x hPx hxs
      refine List.pairwise_cons.2 ⟨?_, ih⟩
      intro y hy
      rcases List.mem_cons.1 hy with rfl | hy
      · exact H.c1 _ _ hPx hp hlt
      · intro hS
        have hPy : P y := by
          have : y ∈ (runDesc lt x xs).1 ++ (runDesc lt x xs).2 := List.mem_append_left _ hy
          rw [runDesc_append] at this
          exact hxs y this
        rcases H.nt _ _ _ hp hPy hPx hS with h | h
        · exact H.c1 _ _ hPx hp hlt h
        · exact (List.pairwise_cons.1 ih).1 y hy h
    · simp [hlt]

/-- The order `list.sort` guarantees with a comparison that is not a weak order:
every negatively transitive relation compatible with the comparison is respected. -/
theorem pySort_sorted {lt : α → α → Bool} {S : α → α → Prop} {P : α → Prop} (H : Compat lt S P) :
    ∀ l : List α, (∀ x ∈ l, P x) → SortedS S (pySort lt l)
  | [], _ => by simp [pySort, SortedS]
  | [a], _ => by simp [pySort, SortedS]
  | a :: b :: rest, hl => by
    have hPa : P a := hl a List.mem_cons_self
    have hPb : P b := hl b (List.mem_cons_of_mem _ List.mem_cons_self)
    have hrest : ∀ x ∈ rest, P x := fun x hx => hl x (List.mem_cons_of_mem _ (List.mem_cons_of_mem _ hx))
    simp only [pySort]
    by_cases hlt : lt b a = true
    · simp only [hlt, if_true]
      have hrun : ∀ x ∈ (runDesc lt b rest).1, P x := fun x hx => hrest x (by
        have : x ∈ (runDesc lt b rest).1 ++ (runDesc lt b rest).2 := List.mem_append_left _ hx
        rwa [runDesc_append] at this)
      have htl : ∀ x ∈ (runDesc lt b rest).2, P x := fun x hx => hrest x (by
        have : x ∈ (runDesc lt b rest).1 ++ (runDesc lt b rest).2 := List.mem_append_right _ hx
        rwa [runDesc_append] at this)
      refine foldl_binInsert_sorted H _ _ htl ?_ ?_
      · intro x hx
        rw [List.mem_reverse] at hx
        rcases List.mem_cons.1 hx with rfl | hx
        · exact hPa
        · rcases List.mem_cons.1 hx with rfl | hx
          · exact hPb
          · exact hrun x hx
      · unfold SortedS
        rw [List.pairwise_reverse]
        have h := runDesc_sorted H (b :: rest) a hPa (fun x hx => hl x (List.mem_cons_of_mem _ hx))
        unfold runDesc at h
        simpa only [hlt, if_true] using h
    · have hlt' : lt b a = false := by simpa using hlt
      simp only [hlt', Bool.false_eq_true, if_false]
      have hrun : ∀ x ∈ (runAsc lt b rest).1, P x := fun x hx => hrest x (by
        have : x ∈ (runAsc lt b rest).1 ++ (runAsc lt b rest).2 := List.mem_append_left _ hx
        rwa [runAsc_append] at this)
      have htl : ∀ x ∈ (runAsc lt b rest).2, P x := fun x hx => hrest x (by
        have : x ∈ (runAsc lt b rest).1 ++ (runAsc lt b rest).2 := List.mem_append_right _ hx
        rwa [runAsc_append] at this)
      refine foldl_binInsert_sorted H _ _ htl ?_ ?_
      · intro x hx
        rcases List.mem_cons.1 hx with rfl | hx
        · exact hPa
        · rcases List.mem_cons.1 hx with rfl | hx
          · exact hPb
          · exact hrun x hx
      · have h := runAsc_sorted H (b :: rest) a hPa (fun x hx => hl x (List.mem_cons_of_mem _ hx))
        unfold runAsc at h
        simpa only [hlt', Bool.false_eq_true, if_false] using h

/-! ### the queue -/

/-- Tuple `≤` on the weights. -/
def KeyLe (a b : Entry) : Prop :=
  a.nAd < b.nAd ∨ (a.nAd = b.nAd ∧ (a.mroSum < b.mroSum ∨ (a.mroSum = b.mroSum ∧ a.cnt ≤ b.cnt)))

theorem keyLt_true {a b : Entry} (h : keyLt a b = true) : KeyLe a b := by
  simp only [keyLt, Bool.or_eq_true, Bool.and_eq_true, decide_eq_true_eq, beq_iff_eq] at h
  unfold KeyLe; omega

theorem keyLt_false {a b : Entry} (h : keyLt a b = false) : KeyLe b a := by
  have h' : ¬ (keyLt a b = true) := by simp [h]
  simp only [keyLt, Bool.or_eq_true, Bool.and_eq_true, decide_eq_true_eq, beq_iff_eq] at h'
  unfold KeyLe; omega

theorem KeyLe.trans {a b c : Entry} (h1 : KeyLe a b) (h2 : KeyLe b c) : KeyLe a c := by
  unfold KeyLe at *; omega

theorem KeyLe.nAd_le {a b : Entry} (h : KeyLe a b) : a.nAd ≤ b.nAd := by
  unfold KeyLe at h; omega

def QSorted (q : List Entry) : Prop := q.Pairwise KeyLe

theorem qInsert_perm (e : Entry) : ∀ q : List Entry, (qInsert e q).Perm (e :: q)
  | [] => by simp [qInsert]
  | x :: xs => by
    unfold qInsert
    split
    · exact List.Perm.refl _
    · exact ((qInsert_perm e xs).cons x).trans (List.Perm.swap e x xs)

theorem mem_qInsert {e x : Entry} {q : List Entry} : x ∈ qInsert e q ↔ x = e ∨ x ∈ q := by
  rw [(qInsert_perm e q).mem_iff, List.mem_cons]

theorem qInsert_sorted (e : Entry) : ∀ q : List Entry, QSorted q → QSorted (qInsert e q)
  | [], _ => by simp [qInsert, QSorted]
  | x :: xs, hs => by
    unfold qInsert
    unfold QSorted at hs ⊢
    rw [List.pairwise_cons] at hs
    by_cases h : keyLt e x = true
    · simp only [h, if_true]
      refine List.pairwise_cons.2 ⟨?_, List.pairwise_cons.2 hs⟩
      intro y hy
      rcases List.mem_cons.1 hy with rfl | hy
      · exact keyLt_true h
      · exact (keyLt_true h).trans (hs.1 y hy)
    · have h' : keyLt e x = false := by simpa using h
      simp only [h', Bool.false_eq_true, if_false]
      refine List.pairwise_cons.2 ⟨?_, qInsert_sorted e xs hs.2⟩
      intro y hy
      rcases mem_qInsert.1 hy with rfl | hy
      · exact keyLt_false h'
      · exact hs.1 y hy

/-- **Popping the sorted list is popping the heap.**  Let `q` be the model's queue
(sorted, counters pairwise distinct) and `h` any arrangement of the same entries
(e.g. the array of a binary heap).  Whatever entry `m` a pop of `h` returns, as long
as it is minimal among the contents (the contract of `heapq.heappop`), is the head
of `q`, and what remains in the heap is again an arrangement of the tail of `q`. -/
theorem heap_is_sorted_list (q h : List Entry) (hperm : h.Perm q) (hs : QSorted q)
    (huniq : q.Pairwise (fun a b => a.cnt ≠ b.cnt))
    (m : Entry) (rest : List Entry) (hpop : h.Perm (m :: rest))
    (hmin : ∀ e ∈ rest, keyLt e m = false) :
    ∃ q', q = m :: q' ∧ rest.Perm q' := by
  cases q with
  | nil =>
    have := (hpop.symm.trans hperm).length_eq
    simp at this
  | cons x q' =>
    have hmq : m ∈ x :: q' := (hpop.symm.trans hperm).mem_iff.1 List.mem_cons_self
    have hxm : x = m := by
      rcases List.mem_cons.1 hmq with h | h
      · exact h.symm
      · -- m is further down the sorted list: x ≤ m; x is in the heap, so not below m: equal keys
        have hle : KeyLe x m := (List.pairwise_cons.1 hs).1 m h
        have hne : x.cnt ≠ m.cnt := (List.pairwise_cons.1 huniq).1 m h
        have hx : x ∈ m :: rest := (hperm.symm.trans hpop).mem_iff.1 List.mem_cons_self
        rcases List.mem_cons.1 hx with hx | hx
        · exact hx
        · have hge := keyLt_false (hmin x hx)
          unfold KeyLe at hle hge
          omega
    subst hxm
    exact ⟨q', rfl, (hpop.symm.trans hperm).cons_inv⟩

end TraitsVerif.Lemmas.Adapt
