/-
Agreement of the compiled validators with the Python validators
(C03_agree): per trait type, then through compounds.
-/
import TraitsVerif.Lemmas.ValFast
import TraitsVerif.Lemmas.ValInduct
namespace TraitsVerif.Model.Val
open TraitsVerif TraitsVerif.Py.Value

/-- The statement's relation between the fast result and the Python result:
accepted values coincide (same exact type, same payload), a Python TraitError is
a fast TraitError, and where Python raises something else the fast path does
not accept. -/
def Agree (fast py : Res) : Prop :=
  match py with
  | .ok b => fast = .ok b
  | .traitError => fast = .traitError
  | .raised _ => ∀ w, fast ≠ .ok w

/-- `T(v)` of an exact instance of `T` is `v` (int(5) is 5, str('a') is 'a', …). -/
def CastIdem (E : Env) : Prop := ∀ t v, Val.exactTy t v = true → E.cast t v = .ok v

/-- Everything that is not a compound (proved directly; compounds by induction). -/
def TraitType.isLeaf : TraitType → Bool
  | .either .. | .compoundH .. => false
  | _ => true

/-- Leaves on which the two paths are NOT known to differ (see findings):
TraitCoerceType.validate compares exact types / always converts (F41, F42).
(Callable(allow_none=False), F40, and Instance of a class None is an instance
of, F47, were repaired in 58d344c / 0abe830.) -/
def TraitType.leafClean : TraitType → Bool
  | .coerceH _ => false
  | _ => true

/-- Not an instance of a tuple subclass (F11). -/
def _root_.TraitsVerif.Py.Value.Val.notTupleSub : Val → Bool
  | .tuple true _ => false
  | _ => true

variable (E : Env)

theorem optValidate_ctrait (t : TraitType) (b : Val) :
    optValidate E (match descOf E t with
      | some d => some d
      | none => if hasPy t then some (.python (fun v => pyValidate E t v)) else none) b
    = ctraitValidateWith E (descOf E t) (hasPy t) (fun x => pyValidate E t x) b := by
  cases descOf E t <;> cases hasPy t <;> simp [optValidate, ctraitValidateWith, fastAlone]

theorem tupleItems_ctrait (items : List TraitType) (vs : List Val) :
    tupleItems E (ctraitDescL E items) vs = ctraitValidateL E items vs := by
  induction items generalizing vs with
  | nil => simp [ctraitDescL, tupleItems, ctraitValidateL]
  | cons t ts ih =>
    cases vs with
    | nil => simp [ctraitDescL, tupleItems, ctraitValidateL]
    | cons b bs =>
      simp only [ctraitDescL, tupleItems, ctraitValidateL, ih]
      have h := optValidate_ctrait E t b
      generalize optValidate E _ b = l at h ⊢
      generalize ctraitValidateWith E (descOf E t) (hasPy t) (fun x => pyValidate E t x) b = r at h ⊢
      subst h
      cases l <;> simp
      cases ctraitValidateL E ts bs <;> rfl

theorem ctraitDescL_length (items : List TraitType) : (ctraitDescL E items).length = items.length := by
  induction items with
  | nil => simp [ctraitDescL]
  | cons t ts ih => simp [ctraitDescL, ih]


/-- The C range test (after e60e19b) and the Python range test are the same predicate. -/
theorem inFloatRange_eq_py (lo hi : Option F) (exLo exHi : Bool) (x : F) :
    inFloatRange x lo hi ((if exLo then 1 else 0) + (if exHi then 2 else 0)) = pyInRangeF lo hi exLo exHi x := by
  cases exLo <;> cases exHi <;> cases lo <;> cases hi <;>
    simp [inFloatRange, pyInRangeF, F.gt, F.ge]

theorem Val.eq_none_of_isNone (v : Val) (h : v.isNone = true) : v = Val.none := by
  rcases v with a | _ | _
  · cases a <;> simp [Val.isNone] at h ⊢
  · simp [Val.isNone] at h
  · simp [Val.isNone] at h

/-- None is not an instance of any of `TypeTypes` (str, int, float, complex, list, tuple, dict, bool). -/
theorem isInst_typeType_none (cls : Ty) (h : cls.isTypeType = true) : Val.isInst cls Val.none = false := by
  cases cls <;> simp [Ty.isTypeType] at h <;> rfl

theorem asInteger_eq_py (v : Val) : asInteger v = pyValidateInt v := by
  unfold asInteger pyValidateInt; rfl

theorem agree_leaf (hE : CastIdem E) (t : TraitType) (d : Desc) (v : Val)
    (hl : t.isLeaf = true) (hc : t.leafClean = true) (hd : descOf E t = some d)
    (hp : hasPy t = true) (hv : (∃ items, t = .tuple items) → v.notTupleSub = true) :
    Agree (fastAlone E d v) (pyValidate E t v) := by
  cases t <;> simp [TraitType.isLeaf, TraitType.leafClean, hasPy] at hl hc hp <;>
    simp [descOf] at hd <;> (try subst hd)
  case int =>
    simp only [fastAlone, pyValidate, asInteger_eq_py]
    generalize pyValidateInt v = r
    cases r with
    | ok w => simp [Agree]
    | error e => cases e <;> simp [Agree]
  case float =>
    simp only [fastAlone, pyValidate]
    generalize validateFloat v = r
    cases r with
    | ok w => simp [Agree]
    | error e => cases e <;> simp [Agree]
  case complex =>
    simp only [fastAlone, pyValidate]
    generalize validateComplexNumber v = r
    cases r with
    | ok w => simp [Agree]
    | error e => cases e <;> simp [Agree]
  case str =>
    simp only [fastAlone, pyValidate, coerceScan, coerceAny]
    repeat' split
    all_goals simp_all [Agree]
  case bytes =>
    simp only [fastAlone, pyValidate, coerceScan, coerceAny]
    repeat' split
    all_goals simp_all [Agree]
  case bool =>
    rcases v with a | ⟨sub, vs⟩ | vs
    · cases a <;> simp [fastAlone, pyValidate, coerceScan, coerceAny, Val.isInst, Agree]
      case npBool b =>
        cases E.cast Ty.bool (Val.atom (Atom.npBool b)) <;> simp
    · simp [fastAlone, pyValidate, coerceScan, coerceAny, Val.isInst, Agree]
    · simp [fastAlone, pyValidate, coerceScan, coerceAny, Val.isInst, Agree]
  case cint =>
    simp only [fastAlone, pyValidate, pyCastNumeric]
    by_cases hx : Val.exactTy .int v = true
    · simp [hx, hE _ _ hx, Agree]
    · simp [hx]; repeat' split
      all_goals simp_all [Agree]
  case cfloat =>
    simp only [fastAlone, pyValidate, pyCastNumeric]
    by_cases hx : Val.exactTy .float v = true
    · simp [hx, hE _ _ hx, Agree]
    · simp [hx]; repeat' split
      all_goals simp_all [Agree]
  case ccomplex =>
    simp only [fastAlone, pyValidate, pyCastNumeric]
    by_cases hx : Val.exactTy .complex v = true
    · simp [hx, hE _ _ hx, Agree]
    · simp [hx]; repeat' split
      all_goals simp_all [Agree]
  case cstr =>
    simp only [fastAlone, pyValidate, pyCastAny]
    by_cases hx : Val.exactTy .str v = true
    · simp [hx, hE _ _ hx, Agree]
    · simp [hx]; repeat' split
      all_goals simp_all [Agree]
  case cbytes =>
    simp only [fastAlone, pyValidate, pyCastAny]
    by_cases hx : Val.exactTy .bytes v = true
    · simp [hx, hE _ _ hx, Agree]
    · simp [hx]; repeat' split
      all_goals simp_all [Agree]
  case cbool =>
    simp only [fastAlone, pyValidate, pyCastAny]
    by_cases hx : Val.exactTy .bool v = true
    · simp [hx, hE _ _ hx, Agree]
    · simp [hx]; repeat' split
      all_goals simp_all [Agree]
  case rangeF lo hi exLo exHi =>
    simp only [fastAlone, pyValidate, inFloatRange_eq_py]
    generalize validateFloat v = r
    cases r with
    | ok w => by_cases h : pyInRangeF lo hi exLo exHi (floatOf w) = true <;> simp [h, Agree]
    | error e => cases e <;> simp [Agree]
  case enum vals =>
    simp only [fastAlone, pyValidate, pySafeEnumValidate]
    cases seqContains vals v <;> simp [Agree]
  case map keys vals =>
    simp only [fastAlone, pyValidate, pyMapValidate]
    repeat' split
    all_goals simp_all [Agree]
  case tuple items =>
    simp only [fastAlone, pyValidate]
    cases v with
    | atom a => simp [tupleCheckWith, Agree]
    | list vs => simp [tupleCheckWith, Agree]
    | tuple sub vs =>
      cases sub with
      | true => simp [Val.notTupleSub] at hv
      | false =>
        simp only [tupleCheckWith, ctraitDescL_length, tupleItems_ctrait]
        by_cases hlen : items.length = vs.length
        · simp only [hlen, if_true]
          cases hr : ctraitValidateL E items vs with
          | error x => cases x <;> simp [Agree]
          | ok ws =>
            by_cases hb : Val.beqL ws vs = true
            · have := (Val.beqL_iff ws vs).mp hb
              simp [hb, this, Agree]
            · simp [hb, Agree]
        · have : ¬ vs.length = items.length := fun h => hlen h.symm
          simp [hlen, this, Agree]
  case «instance» cls an mode dflt =>
    simp only [pyValidate, pyInstanceValidate]
    by_cases hm : mode = 0
    · subst hm
      by_cases ht : cls.isTypeType = true
      · simp [ht] at hd; subst hd
        simp only [fastAlone]
        by_cases hn : v.isNone = true
        · have := Val.eq_none_of_isNone v hn; subst this
          have := isInst_typeType_none cls ht
          cases an <;> simp_all [Agree, Val.isNone]
        · simp [hn]; split <;> simp_all [Agree]
      · simp [ht] at hd; subst hd
        simp only [fastAlone]
        by_cases hn : v.isNone = true
        · have := Val.eq_none_of_isNone v hn; subst this
          cases an <;> simp_all [Agree, Val.isNone]
        · simp [hn]; split <;> simp_all [Agree]
    · simp [hm] at hd; subst hd
      simp only [fastAlone]
      repeat' split
      all_goals simp_all [Agree]
  case this an =>
    simp only [fastAlone, pyValidate]
    repeat' split
    all_goals simp_all [Agree, Bool.or_comm]
  case callable an =>
    simp only [fastAlone, pyValidate, validateCallable]
    by_cases hn : v.isNone = true <;> cases an <;> by_cases hcl : v.callable = true <;> simp [hn, hcl, Agree]
  case castH ty =>
    simp only [fastAlone, pyValidate, pyCastAny]
    repeat' split
    all_goals simp_all [Agree]
  case instanceH cls an =>
    simp only [pyValidate]
    by_cases ht : cls.isTypeType = true
    · simp [ht] at hd; subst hd
      simp only [fastAlone]
      by_cases hn : v.isNone = true
      · have := Val.eq_none_of_isNone v hn; subst this
        have := isInst_typeType_none cls ht
        cases an <;> simp_all [Agree, Val.isNone]
      · simp [hn]; split <;> simp_all [Agree]
    · simp [ht] at hd; subst hd
      simp only [fastAlone]
      by_cases hn : v.isNone = true
      · have := Val.eq_none_of_isNone v hn; subst this
        cases an <;> simp_all [Agree, Val.isNone]
      · simp [hn]; split <;> simp_all [Agree]
  case functionH f =>
    simp only [fastAlone, pyValidate]
    repeat' split
    all_goals simp_all [Agree]
  case enumH vals =>
    simp only [fastAlone, pyValidate, pyEnumValidate]
    repeat' split
    all_goals simp_all [Agree]
  case mapH keys vals =>
    simp only [fastAlone, pyValidate]
    repeat' split
    all_goals simp_all [Agree]


/-! ## Through compounds -/

mutual
/-- No alternative, at any depth of Either / TraitCompound nesting, is one of the
leaves on which the paths are known to differ.  (Members of Tuple and Union do
not matter: both paths validate them with the same CTrait.) -/
def TraitType.clean : TraitType → Bool
  | .either alts _ => cleanL alts
  | .compoundH hs => cleanL hs
  | t => t.leafClean
def cleanL : List TraitType → Bool
  | [] => true
  | t :: ts => t.clean && cleanL ts
end

/-- What `descOf` can return: a stand-alone alternative, or a compound made of entries. -/
def Desc.Shape (d : Desc) : Prop :=
  d.isAlt = true ∨ ∃ ds, d = .complex ds ∧ (∀ x ∈ ds, x.isEntry = true) ∧ ds ≠ []

theorem Desc.isEntry_of_isAlt (d : Desc) (h : d.isAlt = true) : d.isEntry = true := by
  cases d <;> simp_all [Desc.isAlt, Desc.isEntry]

theorem descOf_leaf_shape (t : TraitType) (d : Desc) (hs : t.subs = none)
    (hd : descOf E t = some d) : d.isAlt = true := by
  cases t <;> simp [TraitType.subs] at hs <;> simp [descOf] at hd <;> (try subst hd) <;>
    (try simp [Desc.isAlt])
  case «instance» cls an mode dflt =>
    by_cases hm : mode = 0
    · by_cases ht : cls.isTypeType = true <;> simp [hm, ht] at hd <;> subst hd <;> simp [Desc.isAlt]
    · simp [hm] at hd; subst hd; simp [Desc.isAlt]
  case instanceH cls an =>
    by_cases ht : cls.isTypeType = true <;> simp [ht] at hd <;> subst hd <;> simp [Desc.isAlt]

theorem pySel_false_of_not_anySlow (ts : List TraitType) (v : Val) (h : anySlow E ts = false) :
    pySel E false ts v = .traitError := by
  induction ts with
  | nil => simp [pySel]
  | cons t ts ih =>
    simp only [anySlow, Bool.or_eq_false_iff, Bool.not_eq_false'] at h
    simp [pySel, h.1, ih h.2]

theorem hasPy_false_desc (t : TraitType) (d : Desc) (v : Val) (hp : hasPy t = false)
    (hd : descOf E t = some d) : pyValidate E t v = .raised .typeError := by
  cases t <;> simp [hasPy] at hp <;> simp [descOf] at hd <;> simp [pyValidate]


/-- Per trait type: the shape of its descriptor and, where the Python path does
not let a foreign exception out, equality of the two results. -/
def AgreeP (t : TraitType) : Prop :=
  (∀ d, descOf E t = some d → d.Shape) ∧
  (∀ d v, descOf E t = some d → t.clean = true → v.notTupleSub = true →
    (∀ e, pyValidate E t v ≠ .raised e) → fastAlone E d v = pyValidate E t v)

/-- Per list of alternatives: the spliced fast entries behave like the first
pass of TraitCompound.validate. -/
def AgreeQ (ts : List TraitType) : Prop :=
  (∀ x ∈ flatFast E ts, x.isEntry = true) ∧
  (∀ v rest, cleanL ts = true → v.notTupleSub = true →
    (∀ e, pySel E true ts v ≠ .raised e) → (∀ d ∈ rest, d.isEntry = true) →
    fastComplex E (flatFast E ts ++ rest) v =
      match pySel E true ts v with
      | .traitError => fastComplex E rest v
      | r => r)

theorem fast_eq_of_agree {fast py : Res} (h : Agree fast py) (hr : ∀ e, py ≠ .raised e) : fast = py := by
  cases py with
  | ok b => exact h
  | traitError => exact h
  | raised e => exact absurd rfl (hr e)

theorem agreeP_atomic (hE : CastIdem E) (t : TraitType) (hs : t.subs = none) : AgreeP E t := by
  refine ⟨fun d hd => Or.inl (descOf_leaf_shape E t d hs hd), ?_⟩
  intro d v hd hc hv hr
  have hl : t.isLeaf = true := by cases t <;> simp [TraitType.subs] at hs <;> rfl
  have hlc : t.leafClean = true := by
    cases t <;> simp [TraitType.subs] at hs <;> simpa [TraitType.clean] using hc
  by_cases hp : hasPy t = true
  · exact fast_eq_of_agree (agree_leaf E hE t d v hl hlc hd hp (fun _ => hv)) hr
  · have := hasPy_false_desc E t d v (by simpa using hp) hd
    exact absurd this (hr _)

theorem agreeQ_nil : AgreeQ E [] := by
  refine ⟨by simp [flatFast], ?_⟩
  intro v rest _ _ _ _
  simp [flatFast, pySel]

theorem agreeQ_cons (t : TraitType) (ts : List TraitType) (hP : AgreeP E t) (hQ : AgreeQ E ts) :
    AgreeQ E (t :: ts) := by
  obtain ⟨hshape, hagree⟩ := hP
  obtain ⟨hent, hmain⟩ := hQ
  constructor
  · intro x hx
    simp only [flatFast, List.mem_append] at hx
    rcases hx with hx | hx
    · cases hd : descOf E t with
      | none => simp [hd] at hx
      | some d =>
        rcases hshape d hd with ha | ⟨ds, rfl, hds, _⟩
        · have : x = d := by
            cases d <;> simp [Desc.isAlt] at ha <;> simpa [hd] using hx
          exact this ▸ Desc.isEntry_of_isAlt d ha
        · simp [hd] at hx; exact hds x hx
    · exact hent x hx
  · intro v rest hc hv hr hrest
    simp only [cleanL, Bool.and_eq_true] at hc
    have hrest' : ∀ d ∈ flatFast E ts ++ rest, d.isEntry = true := by
      intro d hd; rcases List.mem_append.mp hd with h | h
      · exact hent d h
      · exact hrest d h
    cases hd : descOf E t with
    | none =>
      have : pySel E true (t :: ts) v = pySel E true ts v := by simp [pySel, hd]
      rw [this] at hr ⊢
      simpa [flatFast, hd] using hmain v rest hc.2 hv hr hrest
    | some d =>
      have hsel : pySel E true (t :: ts) v =
          match pyValidate E t v with
          | .traitError => pySel E true ts v
          | r => r := by
        simp [pySel, hd]
        cases pyValidate E t v <;> rfl
      have hhead : ∀ e, pyValidate E t v ≠ .raised e := by
        intro e he; exact hr e (by rw [hsel, he])
      have hfa := hagree d v hd hc.1 hv hhead
      rcases hshape d hd with ha | ⟨ds, rfl, hds, _⟩
      · have hflat : flatFast E (t :: ts) = d :: flatFast E ts := by
          cases d <;> simp [Desc.isAlt] at ha <;> simp [flatFast, hd]
        rw [hflat, hsel, List.cons_append]
        simp only [fastComplex, complexCase_eq_lift E d v ha, hfa]
        cases hpy : pyValidate E t v with
        | ok b => simp [Res.lift]
        | raised e => exact absurd hpy (hhead e)
        | traitError =>
          simp only [Res.lift]
          have hr' : ∀ e, pySel E true ts v ≠ .raised e := by
            intro e he; exact hr e (by rw [hsel, hpy]; exact he)
          exact hmain v rest hc.2 hv hr' hrest
      · have hflat : flatFast E (t :: ts) = ds ++ flatFast E ts := by simp [flatFast, hd]
        rw [hflat, hsel, List.append_assoc, fastComplex_append E ds _ v hds hrest']
        have : fastComplex E ds v = pyValidate E t v := by simpa [fastAlone] using hfa
        rw [this]
        cases hpy : pyValidate E t v with
        | ok b => simp
        | raised e => exact absurd hpy (hhead e)
        | traitError =>
          simp only
          have hr' : ∀ e, pySel E true ts v ≠ .raised e := by
            intro e he; exact hr e (by rw [hsel, hpy]; exact he)
          exact hmain v rest hc.2 hv hr' hrest


theorem fastComplex_slow1 (h : Val → Res) (v : Val) : fastComplex E [Desc.slow h] v = h v := by
  simp only [fastComplex, complexCase]
  cases h v <;> simp [fastComplex]

/-- The tail of a compound descriptor after the spliced fast entries: the
`(enum, (None,))` entry of Either(…, None) and the `(slow, self)` entry. -/
theorem fastComplex_tail (alts : List TraitType) (wn : Bool) (v : Val)
    (hr : ∀ e, (match (if wn then pyEnumValidate [Val.none] v else Res.traitError) with
                | .traitError => pySel E false alts v
                | r => r) ≠ .raised e) :
    fastComplex E ((if wn then [Desc.enum [Val.none]] else []) ++
        (if anySlow E alts then [Desc.slow (fun v => pySel E false alts v)] else [])) v =
      match (if wn then pyEnumValidate [Val.none] v else Res.traitError) with
      | .traitError => pySel E false alts v
      | r => r := by
  have hslow : fastComplex E (if anySlow E alts then [Desc.slow (fun v => pySel E false alts v)] else []) v
      = pySel E false alts v := by
    by_cases ha : anySlow E alts = true
    · simp [ha, fastComplex_slow1]
    · have ha' : anySlow E alts = false := by simpa using ha
      simp [ha', fastComplex, pySel_false_of_not_anySlow E alts v ha']
  cases wn with
  | false => simpa using hslow
  | true =>
    simp only [if_true, List.singleton_append, fastComplex, complexCase, pyEnumValidate] at hr ⊢
    cases hs : seqContains [Val.none] v with
    | yes => simp
    | no => simpa using hslow
    | raises e => simp [hs] at hr

theorem agreeP_either (alts : List TraitType) (wn : Bool) (hQ : AgreeQ E alts) :
    AgreeP E (.either alts wn) := by
  obtain ⟨hent, hmain⟩ := hQ
  have hdesc : ∀ d, descOf E (.either alts wn) = some d →
      (flatFast E alts ++ (if wn then [Desc.enum [Val.none]] else []) ≠ []) ∧
      d = .complex (flatFast E alts ++ ((if wn then [Desc.enum [Val.none]] else []) ++
        (if anySlow E alts then [Desc.slow (fun v => pySel E false alts v)] else []))) := by
    intro d hd
    simp only [descOf] at hd
    cases hf : flatFast E alts ++ (if wn then [Desc.enum [Val.none]] else []) with
    | nil => simp [hf] at hd
    | cons x xs =>
      simp only [hf] at hd
      refine ⟨by simp, ?_⟩
      simp only [Option.some.injEq] at hd
      rw [← hd, ← hf, List.append_assoc]
  have hentry : ∀ x ∈ (if wn then [Desc.enum [Val.none]] else []) ++
      (if anySlow E alts then [Desc.slow (fun v => pySel E false alts v)] else []), x.isEntry = true := by
    intro x hx
    rcases List.mem_append.mp hx with h | h
    · cases wn <;> simp at h; subst h; rfl
    · by_cases ha : anySlow E alts = true <;> simp [ha] at h; subst h; rfl
  constructor
  · intro d hd
    obtain ⟨hne, rfl⟩ := hdesc d hd
    refine Or.inr ⟨_, rfl, ?_, ?_⟩
    · intro x hx
      rcases List.mem_append.mp hx with h | h
      · exact hent x h
      · exact hentry x h
    · intro h0
      apply hne
      rw [← List.append_assoc] at h0
      exact (List.append_eq_nil_iff.mp h0).1
  · intro d v hd hc hv hr
    obtain ⟨_, rfl⟩ := hdesc d hd
    simp only [TraitType.clean] at hc
    simp only [pyValidate] at hr ⊢
    have hr1 : ∀ e, pySel E true alts v ≠ .raised e := by
      intro e he; exact hr e (by simp [he])
    simp only [fastAlone]
    rw [hmain v _ hc hv hr1 hentry]
    cases hp : pySel E true alts v with
    | ok b => simp
    | raised e => exact absurd hp (hr1 e)
    | traitError =>
      simp only [hp] at hr ⊢
      exact fastComplex_tail E alts wn v hr

theorem agreeP_compoundH (hs : List TraitType) (hQ : AgreeQ E hs) : AgreeP E (.compoundH hs) := by
  obtain ⟨hent, hmain⟩ := hQ
  have hdesc : ∀ d, descOf E (.compoundH hs) = some d →
      flatFast E hs ≠ [] ∧ d = .complex (flatFast E hs ++
        (if anySlow E hs then [Desc.slow (fun v => pySel E false hs v)] else [])) := by
    intro d hd
    simp only [descOf] at hd
    cases hf : flatFast E hs with
    | nil => simp [hf] at hd
    | cons x xs =>
      simp only [hf] at hd
      simp only [Option.some.injEq] at hd
      exact ⟨by simp, by rw [← hd]⟩
  have hentry : ∀ x ∈ (if anySlow E hs then [Desc.slow (fun v => pySel E false hs v)] else []),
      x.isEntry = true := by
    intro x h
    by_cases ha : anySlow E hs = true <;> simp [ha] at h; subst h; rfl
  constructor
  · intro d hd
    rw [(hdesc d hd).2]
    refine Or.inr ⟨_, rfl, ?_, ?_⟩
    · intro x hx
      rcases List.mem_append.mp hx with h | h
      · exact hent x h
      · exact hentry x h
    · intro h0
      exact (hdesc d hd).1 (List.append_eq_nil_iff.mp h0).1
  · intro d v hd hc hv hr
    rw [(hdesc d hd).2]
    simp only [TraitType.clean] at hc
    simp only [pyValidate] at hr ⊢
    have hr1 : ∀ e, pySel E true hs v ≠ .raised e := by
      intro e he; exact hr e (by simp [he])
    simp only [fastAlone]
    rw [hmain v _ hc hv hr1 hentry]
    cases hp : pySel E true hs v with
    | ok b => simp
    | raised e => exact absurd hp (hr1 e)
    | traitError =>
      simp only [hp] at hr ⊢
      have := fastComplex_tail E hs false v (by simpa using hr)
      simpa using this


theorem agreeP_tuple (hE : CastIdem E) (items : List TraitType) : AgreeP E (.tuple items) := by
  constructor
  · intro d hd; simp [descOf] at hd; subst hd; exact Or.inl rfl
  · intro d v hd _ hv hr
    exact fast_eq_of_agree (agree_leaf E hE _ d v rfl rfl hd rfl (fun _ => hv)) hr

theorem agreeP_none (t : TraitType) (h : descOf E t = none) : AgreeP E t :=
  ⟨fun d hd => by simp [h] at hd, fun d v hd => by simp [h] at hd⟩

/-- Every trait type: descriptor shape, and equality of the two paths wherever
the Python path does not let a foreign exception out. -/
theorem agreeP_all (hE : CastIdem E) : ∀ t, AgreeP E t :=
  TraitType.induct' (P := AgreeP E) (Q := AgreeQ E)
    (fun t hs _ => agreeP_atomic E hE t hs)
    (fun t _ => agreeP_none E _ (by simp [descOf]))
    (fun t ts hs hQ => by
      cases t <;> simp [TraitType.subs] at hs
      case tuple items => exact agreeP_tuple E hE items
      case baseTuple items => exact agreeP_none E _ (by simp [descOf])
      case validatedTuple items fv => exact agreeP_none E _ (by simp [descOf])
      case either alts wn => subst hs; exact agreeP_either E alts wn hQ
      case union alts => exact agreeP_none E _ (by simp [descOf])
      case compoundH hs' => subst hs; exact agreeP_compoundH E hs' hQ)
    (agreeQ_nil E) (agreeQ_cons E)

end TraitsVerif.Model.Val
