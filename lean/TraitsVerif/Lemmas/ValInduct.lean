/-
An induction principle for `TraitType` (a nested inductive: sub-traits sit in
lists), written once so that the property proofs need no boilerplate.
-/
import TraitsVerif.Model.PyValidate
namespace TraitsVerif.Model.Val
open TraitsVerif TraitsVerif.Py.Value

/-- The sub-traits of a trait type that holds a list of them. -/
def TraitType.subs : TraitType → Option (List TraitType)
  | .tuple items => some items
  | .baseTuple items => some items
  | .validatedTuple items _ => some items
  | .either alts _ => some alts
  | .union alts => some alts
  | .compoundH hs => some hs
  | _ => none

def TraitType.isNoFast : TraitType → Bool
  | .noFast _ => true
  | _ => false

mutual
theorem TraitType.induct' {P : TraitType → Prop} {Q : List TraitType → Prop}
    (atomic : ∀ t, t.subs = none → t.isNoFast = false → P t)
    (noFast : ∀ t, P t → P (.noFast t))
    (node : ∀ t ts, t.subs = some ts → Q ts → P t)
    (nil : Q []) (cons : ∀ t ts, P t → Q ts → Q (t :: ts)) : ∀ t, P t
  | .tuple items => node _ items rfl (TraitType.inductL' atomic noFast node nil cons items)
  | .baseTuple items => node _ items rfl (TraitType.inductL' atomic noFast node nil cons items)
  | .validatedTuple items _ => node _ items rfl (TraitType.inductL' atomic noFast node nil cons items)
  | .either alts _ => node _ alts rfl (TraitType.inductL' atomic noFast node nil cons alts)
  | .union alts => node _ alts rfl (TraitType.inductL' atomic noFast node nil cons alts)
  | .compoundH hs => node _ hs rfl (TraitType.inductL' atomic noFast node nil cons hs)
  | .noFast t => noFast t (TraitType.induct' atomic noFast node nil cons t)
  | .any => atomic _ rfl rfl | .int => atomic _ rfl rfl | .float => atomic _ rfl rfl
  | .complex => atomic _ rfl rfl | .str => atomic _ rfl rfl | .bytes => atomic _ rfl rfl
  | .bool => atomic _ rfl rfl | .cint => atomic _ rfl rfl | .cfloat => atomic _ rfl rfl
  | .ccomplex => atomic _ rfl rfl | .cstr => atomic _ rfl rfl | .cbytes => atomic _ rfl rfl
  | .cbool => atomic _ rfl rfl | .rangeF .. => atomic _ rfl rfl | .rangeI .. => atomic _ rfl rfl
  | .enum _ => atomic _ rfl rfl | .map .. => atomic _ rfl rfl | .tupleAny => atomic _ rfl rfl
  | .instance .. => atomic _ rfl rfl | .type_ .. => atomic _ rfl rfl | .this _ => atomic _ rfl rfl
  | .callable _ => atomic _ rfl rfl | .module => atomic _ rfl rfl | .noneTrait => atomic _ rfl rfl
  | .string .. => atomic _ rfl rfl | .prefixList _ => atomic _ rfl rfl | .prefixMap .. => atomic _ rfl rfl
  | .array .. => atomic _ rfl rfl
  | .coerceH _ => atomic _ rfl rfl | .castH _ => atomic _ rfl rfl | .instanceH .. => atomic _ rfl rfl
  | .functionH _ => atomic _ rfl rfl | .enumH _ => atomic _ rfl rfl | .mapH .. => atomic _ rfl rfl
theorem TraitType.inductL' {P : TraitType → Prop} {Q : List TraitType → Prop}
    (atomic : ∀ t, t.subs = none → t.isNoFast = false → P t)
    (noFast : ∀ t, P t → P (.noFast t))
    (node : ∀ t ts, t.subs = some ts → Q ts → P t)
    (nil : Q []) (cons : ∀ t ts, P t → Q ts → Q (t :: ts)) : ∀ ts, Q ts
  | [] => nil
  | t :: ts => cons t ts (TraitType.induct' atomic noFast node nil cons t)
      (TraitType.inductL' atomic noFast node nil cons ts)
end

end TraitsVerif.Model.Val
