/-
Counting lemmas for the C12 model: how often the getter runs (`calls`) and
which notifications are delivered (`notes`).

The "at most once" argument is a potential-function argument:
`phi s = calls + (0 if the cache holds a usable entry else 1)` never increases
along reads, listener changes and non-relevant mutations, and is at most
`calls + 1` right after an invalidation.
-/
import TraitsVerif.Lemmas.PropertyInv
namespace TraitsVerif.Model.Property
open TraitsVerif

variable {Val : Type}

/-- The cache holds an entry the wrapper will return (`result is not Undefined`). -/
def settled (P : Env Val) (s : St Val) : Bool :=
  match s.cache with
  | some v => !P.isUndef v
  | none => false

def phi (P : Env Val) (s : St Val) : Nat :=
  s.calls + (if settled P s then 0 else 1)

theorem calls_le_phi (P : Env Val) (s : St Val) : s.calls ≤ phi P s := by
  unfold phi; omega

theorem phi_le (P : Env Val) (s : St Val) : phi P s ≤ s.calls + 1 := by
  unfold phi; split <;> omega

/-! ## more field facts -/

@[simp] theorem sib_heap (P : Env Val) (b : Bool) (s : St Val) : (sib P b s).heap = s.heap := by
  unfold sib; split <;> simp
@[simp] theorem sib_dyn (P : Env Val) (b : Bool) (s : St Val) : (sib P b s).dyn = s.dyn := by
  unfold sib; split <;> simp
@[simp] theorem sib_dynObj (P : Env Val) (b : Bool) (s : St Val) : (sib P b s).dynObj = s.dynObj := by
  unfold sib; split <;> simp
@[simp] theorem listening_sib (P : Env Val) (b : Bool) (s : St Val) : listening P (sib P b s) = listening P s := by
  simp [listening]
@[simp] theorem listening_popCache (P : Env Val) (s : St Val) : listening P (popCache P s) = listening P s := by
  simp [listening]
@[simp] theorem mkNote_sib (P : Env Val) (b : Bool) (s : St Val) (o : Old Val) (v : Val) :
    mkNote P (sib P b s) o v = mkNote P s o v := by
  simp [mkNote]
@[simp] theorem mkNote_popCache (P : Env Val) (s : St Val) (o : Old Val) (v : Val) :
    mkNote P (popCache P s) o v = mkNote P s o v := by
  simp [mkNote]
@[simp] theorem sib_notes (P : Env Val) (b : Bool) (s : St Val) : (sib P b s).notes = s.notes := by
  unfold sib; split <;> simp
@[simp] theorem sib_false (P : Env Val) (s : St Val) : sib P false s = s := by
  simp [sib]

theorem popOld_heap_irrel (P : Env Val) (s : St Val) (h : Heap) :
    popOld P { s with heap := h } = popOld P s := rfl

/-! ## reads under a pure getter -/

theorem compute_ok (P : Env Val) (g : Heap → Val) (hp : PureGetter P.G g) (s : St Val) :
    compute P s = (.ok (g s.heap),
      { s with calls := s.calls + 1, cache := if P.cached then some (g s.heap) else s.cache }) := by
  unfold compute
  rw [hp s.calls s.heap]

theorem readProp_ok (P : Env Val) (g : Heap → Val) (hp : PureGetter P.G g) (s : St Val)
    (hi : Inv P g s) : (readProp P s).1 = .ok (g s.heap) := by
  unfold readProp
  by_cases hc : P.cached = true
  · simp only [hc, if_true]
    cases hcv : s.cache with
    | none => simp only; rw [compute_ok P g hp]
    | some v =>
      simp only
      by_cases hu : P.isUndef v = true
      · simp only [hu, if_true]; rw [compute_ok P g hp]
      · simp only [hu]
        cases hi with
        | inl h => rw [h] at hcv; cases hcv
        | inr h => rw [h.2] at hcv; cases hcv; rfl
  · simp only [Bool.not_eq_true] at hc
    simp only [hc]
    rw [compute_ok P g hp]
    simp

theorem phi_congr (P : Env Val) (s t : St Val) (h1 : s.cache = t.cache) (h2 : s.calls = t.calls) :
    phi P s = phi P t := by
  unfold phi settled
  rw [h1, h2]

theorem readProp_phi (P : Env Val) (g : Heap → Val) (hp : PureGetter P.G g) (hc : P.cached = true)
    (hu : ∀ h, P.isUndef (g h) = false) (s : St Val) : phi P (readProp P s).2 ≤ phi P s := by
  unfold readProp
  simp only [hc, if_true]
  split
  · rename_i v hcv
    split
    · rename_i hv
      rw [compute_ok P g hp]
      simp [phi, settled, hc, hu, hcv, hv]
    · exact Nat.le_refl _
  · rename_i hcv
    rw [compute_ok P g hp]
    simp [phi, settled, hc, hu, hcv]

theorem nestedRead_phi (P : Env Val) (g : Heap → Val) (hp : PureGetter P.G g) (hc : P.cached = true)
    (hu : ∀ h, P.isUndef (g h) = false) (s : St Val) : phi P (nestedRead P s) ≤ phi P s := by
  rw [phi_congr P (nestedRead P s) (readProp P s).2 (by simp) (by simp)]
  exact readProp_phi P g hp hc hu s

theorem sib_phi (P : Env Val) (g : Heap → Val) (hp : PureGetter P.G g) (hc : P.cached = true)
    (hu : ∀ h, P.isUndef (g h) = false) (b : Bool) (s : St Val) : phi P (sib P b s) ≤ phi P s := by
  unfold sib
  split
  · exact nestedRead_phi P g hp hc hu s
  · exact Nat.le_refl _

theorem popCache_phi (P : Env Val) (s : St Val) (hc : P.cached = true) :
    phi P (popCache P s) = s.calls + 1 := by
  simp [phi, settled, popCache, hc]

theorem tpc_phi (P : Env Val) (g : Heap → Val) (hp : PureGetter P.G g) (hc : P.cached = true)
    (hu : ∀ h, P.isUndef (g h) = false) (s : St Val) (old : Old Val) :
    phi P (tpc P s old) ≤ phi P s := by
  have hr := readProp_phi P g hp hc hu s
  unfold tpc
  repeat' split
  · exact hr
  · exact Nat.le_trans (Nat.le_of_eq (phi_congr P _ (readProp P s).2 rfl rfl)) hr
  · exact Nat.le_refl _

theorem legacyNotify_phi (P : Env Val) (g : Heap → Val) (hp : PureGetter P.G g) (hc : P.cached = true)
    (hu : ∀ h, P.isUndef (g h) = false) (s : St Val) (old : Old Val) :
    phi P (legacyNotify P s old) ≤ phi P s := by
  unfold legacyNotify
  repeat' split
  all_goals first | exact Nat.le_refl _ | exact tpc_phi P g hp hc hu s _

theorem dispatchQuiet_phi (P : Env Val) (g : Heap → Val) (hp : PureGetter P.G g) (hc : P.cached = true)
    (hu : ∀ h, P.isUndef (g h) = false) (s0 : St Val) (m : Mutation) :
    phi P (dispatchQuiet P s0 m) ≤ phi P s0 :=
  Nat.le_trans (sib_phi P g hp hc hu _ _) (sib_phi P g hp hc hu _ _)

/-- After an invalidation the getter has run at most once more, and if it has,
the cache is filled again. -/
theorem dispatchFire_phi (P : Env Val) (g : Heap → Val) (hp : PureGetter P.G g) (hc : P.cached = true)
    (hu : ∀ h, P.isUndef (g h) = false) (s0 : St Val) (m : Mutation)
    (hpre : P.legacy = true ∨ P.sibPre m = false) :
    phi P (dispatchFire P s0 m) ≤ s0.calls + 1 := by
  unfold dispatchFire
  split
  · refine Nat.le_trans (sib_phi P g hp hc hu _ _) ?_
    refine Nat.le_trans (legacyNotify_phi P g hp hc hu _ _) ?_
    refine Nat.le_trans (sib_phi P g hp hc hu _ _) ?_
    exact Nat.le_of_eq (popCache_phi P s0 hc)
  · rename_i hl
    have hs : P.sibPre m = false := by
      cases hpre with
      | inl h => exact absurd h hl
      | inr h => exact h
    rw [hs, sib_false]
    refine Nat.le_trans (sib_phi P g hp hc hu _ _) ?_
    unfold handlerObserve
    refine Nat.le_trans (tpc_phi P g hp hc hu _ _) ?_
    exact Nat.le_of_eq (popCache_phi P s0 hc)

theorem mutate_fire_phi (P : Env Val) (g : Heap → Val) (hp : PureGetter P.G g) (hc : P.cached = true)
    (hu : ∀ h, P.isUndef (g h) = false) (s : St Val) (m : Mutation)
    (hpre : P.legacy = true ∨ P.sibPre m = false) :
    phi P (mutate P s m) ≤ s.calls + 1 := by
  unfold mutate
  simp only
  split
  · split
    · exact dispatchFire_phi P g hp hc hu _ m hpre
    · exact Nat.le_trans (dispatchQuiet_phi P g hp hc hu _ m) (phi_le P _)
  · exact phi_le P _

theorem mutate_quiet_phi (P : Env Val) (g : Heap → Val) (hp : PureGetter P.G g) (hc : P.cached = true)
    (hu : ∀ h, P.isUndef (g h) = false) (hT : ObserveTight P) (s : St Val) (m : Mutation)
    (hr : relevant P.E P.root s.heap m = false) :
    phi P (mutate P s m) ≤ phi P s := by
  unfold mutate
  simp only
  split
  · rename_i hch
    split
    · rename_i hf
      have := hT _ _ hch hf
      rw [hr] at this
      cases this
    · exact dispatchQuiet_phi P g hp hc hu _ m
  · exact Nat.le_refl _

/-- A step that is not a relevant change (and not a construction / copy). -/
def QuietStep (P : Env Val) (s : St Val) : Step → Prop
  | .change m => relevant P.E P.root s.heap m = false
  | .read => True
  | .attach => True
  | .detach => True
  | .attachObj => True
  | .detachObj => True
  | .set _ => False
  | .construct _ => False
  | .copy => False

/-- A history without relevant change. -/
def Quiet (P : Env Val) : St Val → List Step → Prop
  | _, [] => True
  | s, st :: rest => QuietStep P s st ∧ Quiet P (step P s st) rest

theorem step_quiet_phi (P : Env Val) (g : Heap → Val) (hp : PureGetter P.G g) (hc : P.cached = true)
    (hu : ∀ h, P.isUndef (g h) = false) (hT : ObserveTight P) (s : St Val) (st : Step)
    (hq : QuietStep P s st) : phi P (step P s st) ≤ phi P s := by
  cases st with
  | change m => exact mutate_quiet_phi P g hp hc hu hT s m hq
  | read => exact readProp_phi P g hp hc hu s
  | attach => exact Nat.le_refl _
  | detach => exact Nat.le_refl _
  | attachObj => exact Nat.le_refl _
  | detachObj => exact Nat.le_refl _
  | set a => exact absurd hq (by simp [QuietStep])
  | construct ws => exact absurd hq (by simp [QuietStep])
  | copy => exact absurd hq (by simp [QuietStep])

theorem run_quiet_phi (P : Env Val) (g : Heap → Val) (hp : PureGetter P.G g) (hc : P.cached = true)
    (hu : ∀ h, P.isUndef (g h) = false) (hT : ObserveTight P) :
    ∀ (steps : List Step) (s : St Val), Quiet P s steps → phi P (run P s steps) ≤ phi P s
  | [], _, _ => Nat.le_refl _
  | st :: rest, s, hq => by
    simp only [run, List.foldl_cons]
    exact Nat.le_trans (run_quiet_phi P g hp hc hu hT rest _ hq.2)
      (step_quiet_phi P g hp hc hu hT s st hq.1)

/-! ## decidability (for the concrete witnesses in `Props/C12.lean`) -/

deriving instance DecidableEq for Except

instance [DecidableEq Val] (P : Env Val) (g : Heap → Val) (s : St Val) : Decidable (Inv P g s) := by
  unfold Inv; infer_instance

instance (P : Env Val) (s : St Val) : (st : Step) → Decidable (QuietStep P s st)
  | .change _ => by unfold QuietStep; infer_instance
  | .read => isTrue trivial
  | .attach => isTrue trivial
  | .detach => isTrue trivial
  | .attachObj => isTrue trivial
  | .detachObj => isTrue trivial
  | .set _ => isFalse (fun h => h)
  | .construct _ => isFalse (fun h => h)
  | .copy => isFalse (fun h => h)

def Quiet.dec (P : Env Val) : (s : St Val) → (steps : List Step) → Decidable (Quiet P s steps)
  | _, [] => isTrue trivial
  | s, st :: rest =>
    match (inferInstance : Decidable (QuietStep P s st)), Quiet.dec P (step P s st) rest with
    | isTrue h1, isTrue h2 => isTrue ⟨h1, h2⟩
    | isFalse h1, _ => isFalse (fun h => h1 h.1)
    | _, isFalse h2 => isFalse (fun h => h2 h.2)

instance (P : Env Val) (s : St Val) (steps : List Step) : Decidable (Quiet P s steps) := Quiet.dec P s steps

/-! ## notifications -/

theorem tpc_notes (P : Env Val) (g : Heap → Val) (hp : PureGetter P.G g) (s : St Val) (old : Old Val)
    (hi : Inv P g s) (hL : listening P s = true) :
    (tpc P s old).notes = s.notes ++ [mkNote P s old (g s.heap)] := by
  unfold tpc
  rw [if_pos hL, readProp_ok P g hp s hi]
  simp

/-- The legacy `notify` delivers unless the dropped entry held `Undefined`. -/
theorem legacyNotify_eq_tpc (P : Env Val) (s s0 : St Val)
    (hn : ∀ v, s0.cache = some v → P.isUndef v = false) :
    legacyNotify P s (popOld P s0) = tpc P s (popOld P s0) := by
  unfold legacyNotify
  split
  · rename_i v hv
    have : s0.cache = some v := by
      unfold popOld at hv
      split at hv
      · split at hv
        · rename_i w hw
          cases hv
          exact hw
        · split at hv <;> cases hv
      · split at hv <;> cases hv
    simp [hn v this]
  · rfl

theorem dispatchFire_notes (P : Env Val) (g : Heap → Val) (hp : PureGetter P.G g) (s0 : St Val)
    (m : Mutation) (hw : NoEntryIfUncached P s0) (hL : listening P s0 = true)
    (hn : P.legacy = true → ∀ v, s0.cache = some v → P.isUndef v = false) :
    (dispatchFire P s0 m).notes =
      s0.notes ++ [mkNote P s0 (if P.legacy then popOld P s0 else popOld P (sib P (P.sibPre m) s0))
                    (g s0.heap)] := by
  unfold dispatchFire
  split
  · rename_i hl
    have hi : Inv P g (sib P (P.sibPre m) (popCache P s0)) :=
      sib_inv P g hp.partial _ _ (popCache_inv P g s0 hw)
    rw [sib_notes, legacyNotify_eq_tpc P _ s0 (hn hl), tpc_notes P g hp _ _ hi (by simpa using hL)]
    simp
  · have hi : Inv P g (popCache P (sib P (P.sibPre m) s0)) :=
      popCache_inv P g _ (sib_weak P _ _ hw)
    unfold handlerObserve
    rw [sib_notes, tpc_notes P g hp _ _ hi (by simpa using hL)]
    simp

end TraitsVerif.Model.Property
