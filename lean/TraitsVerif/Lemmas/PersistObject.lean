/-
Object-level lemmas for the `persist` cluster: `__getstate__`, the pickle of the
state, `__setstate__`, composed slot by slot.
-/
import TraitsVerif.Lemmas.PersistValue
set_option linter.unusedSimpArgs false
namespace TraitsVerif.Lemmas.Persist
open TraitsVerif TraitsVerif.Model.Persist

/-! ## Well-formed objects -/

def slotIds (sl : Slot) : List Nat :=
  match sl.val with
  | some v => ids v
  | none => []

def objIds (s : Obj) : List Nat := s.slots.flatMap slotIds

/-- What the live models guarantee of every slot of a reachable object: the
stored value and the default are fixed points of the trait's validation. -/
structure WFSlot (E : Env) (sl : Slot) : Prop where
  /-- whatever the default factory hands out is valid for the trait -/
  dflt : ∀ n, Valid E sl.decl.shape (defaultOf sl n).1
  val : ∀ v, sl.val = some v → Valid E sl.decl.shape v

theorem defaultOf_le (sl : Slot) (n : Nat) : n ≤ (defaultOf sl n).2 := by
  unfold defaultOf; split <;> simp

theorem defaultOf_ids (sl : Slot) (n : Nat) : ∀ i ∈ ids (defaultOf sl n).1, i ∈ ids sl.decl.dflt := by
  unfold defaultOf
  split
  · intro i hi; simp [ids] at hi
  · intro i hi; exact hi

def WFObj (E : Env) (s : Obj) : Prop := ∀ sl ∈ s.slots, WFSlot E sl

/-- All identities in use are below `n` (the allocator never hands one out twice). -/
def BelowSlots (n : Nat) (l : List Slot) : Prop := ∀ sl ∈ l, ∀ i ∈ slotIds sl, i < n

/-- Pointwise relation of two lists of the same length. -/
inductive Forall2 {α β : Type} (R : α → β → Prop) : List α → List β → Prop where
  | nil : Forall2 R [] []
  | cons {a b as bs} : R a b → Forall2 R as bs → Forall2 R (a :: as) (b :: bs)

theorem Forall2.comp {α β γ : Type} {R : α → β → Prop} {S : β → γ → Prop} {T : α → γ → Prop}
    (h : ∀ a b c, R a b → S b c → T a c) :
    ∀ {l1 : List α} {l2 : List β} {l3 : List γ}, Forall2 R l1 l2 → Forall2 S l2 l3 → Forall2 T l1 l3
  | [], _, _, .nil, .nil => .nil
  | _ :: _, _, _, .cons r rs, .cons s ss => .cons (h _ _ _ r s) (Forall2.comp h rs ss)

theorem Forall2.imp {α β : Type} {R S : α → β → Prop} (h : ∀ a b, R a b → S a b) :
    ∀ {l1 : List α} {l2 : List β}, Forall2 R l1 l2 → Forall2 S l1 l2
  | [], _, .nil => .nil
  | _ :: _, _, .cons r rs => .cons (h _ _ r) (Forall2.imp h rs)

theorem Forall2.length {α β : Type} {R : α → β → Prop} :
    ∀ {l1 : List α} {l2 : List β}, Forall2 R l1 l2 → l1.length = l2.length
  | [], _, .nil => rfl
  | _ :: _, _, .cons _ rs => by simp [Forall2.length rs]

/-- Pointwise relation of three lists of the same length. -/
inductive Forall3 {α β γ : Type} (R : α → β → γ → Prop) : List α → List β → List γ → Prop where
  | nil : Forall3 R [] [] []
  | cons {a b c as bs cs} : R a b c → Forall3 R as bs cs → Forall3 R (a :: as) (b :: bs) (c :: cs)

/-! ## Reading -/

theorem readSlot_spec {E : Env} (hI : Idem E) {sl : Slot} (hw : WFSlot E sl) (o n : Nat) :
    Valid E sl.decl.shape (readSlot E o n sl).1 ∧ (readSlot E o n sl).2.1.decl = sl.decl ∧
      (readSlot E o n sl).2.1.val = some (readSlot E o n sl).1 ∧ n ≤ (readSlot E o n sl).2.2 := by
  cases hv : sl.val with
  | some v =>
    have : readSlot E o n sl = (v, sl, n) := by simp [readSlot, hv]
    rw [this]
    exact ⟨hw.val v hv, rfl, hv, Nat.le_refl _⟩
  | none =>
    obtain ⟨v', n', hval, -⟩ := validate_of_valid (hw.dflt n) o (defaultOf sl n).2
    have : readSlot E o n sl = (v', { sl with val := some v' }, n') := by simp [readSlot, hv, hval]
    rw [this]
    exact ⟨(validate_live hI o _ _ _ _ _ hval).valid, rfl, rfl,
      Nat.le_trans (defaultOf_le sl n) (validate_ids o _ _ _ _ _ hval).1⟩

theorem readSlot_some {E : Env} {sl : Slot} {v : CVal} (hv : sl.val = some v) (o n : Nat) :
    readSlot E o n sl = (v, sl, n) := by
  simp [readSlot, hv]

theorem readSlot_wf {E : Env} (hI : Idem E) {sl : Slot} (hw : WFSlot E sl) (o n : Nat) :
    WFSlot E (readSlot E o n sl).2.1 := by
  obtain ⟨h1, h2, h3, -⟩ := readSlot_spec hI hw o n
  refine ⟨fun m => by
    have e : defaultOf (readSlot E o n sl).2.1 m = defaultOf sl m := by simp [defaultOf, h2]
    rw [e, h2]; exact hw.dflt m, ?_⟩
  intro v hv
  rw [h3] at hv
  cases hv
  rw [h2]
  exact h1

/-! ## Assignment to a fresh slot -/

theorem assignSlot_fresh {E : Env} (d : Decl) (hk : d.kind ≠ .event) (o n : Nat) (v : CVal) :
    assignSlot E o n ⟨d, none⟩ v =
      match validate E o d.shape n v with
      | .error e => .error e
      | .ok (v', n') => .ok (⟨d, some v'⟩, n') := by
  unfold assignSlot
  cases hd : d.kind with
  | event => exact absurd hd hk
  | readonly =>
    simp only [hd]
    generalize validate E o d.shape n v = r
    cases r with | error e => rfl | ok p => cases p; rfl
  | value =>
    simp only [hd]
    generalize validate E o d.shape n v = r
    cases r with | error e => rfl | ok p => cases p; rfl
  | property =>
    simp only [hd]
    generalize validate E o d.shape n v = r
    cases r with | error e => rfl | ok p => cases p; rfl

/-- Identities in use, defaults' templates included, are below `n`. -/
def BelowAll (n : Nat) (l : List Slot) : Prop :=
  ∀ sl ∈ l, (∀ i ∈ slotIds sl, i < n) ∧ (∀ i ∈ ids sl.decl.dflt, i < n)

theorem readSlot_below {E : Env} {sl : Slot} {n m : Nat} (hb : (∀ i ∈ slotIds sl, i < m) ∧ (∀ i ∈ ids sl.decl.dflt, i < m))
    (hm : m ≤ n) (o : Nat) :
    (∀ i ∈ slotIds (readSlot E o n sl).2.1, i < (readSlot E o n sl).2.2) ∧
      (∀ i ∈ ids (readSlot E o n sl).1, i < (readSlot E o n sl).2.2) ∧ n ≤ (readSlot E o n sl).2.2 := by
  cases hv : sl.val with
  | some v =>
    have : readSlot E o n sl = (v, sl, n) := by simp [readSlot, hv]
    rw [this]
    have h1 : ∀ i ∈ ids v, i < n := fun i hi => Nat.lt_of_lt_of_le (hb.1 i (by simp [slotIds, hv, hi])) hm
    exact ⟨fun i hi => by simp [slotIds, hv] at hi; exact h1 i hi, h1, Nat.le_refl _⟩
  | none =>
    have hd := defaultOf_le sl n
    have hdi := defaultOf_ids sl n
    cases hval : validate E o sl.decl.shape (defaultOf sl n).2 (defaultOf sl n).1 with
    | error e =>
      have : readSlot E o n sl = ((defaultOf sl n).1, { sl with val := some (defaultOf sl n).1 }, (defaultOf sl n).2) := by
        simp [readSlot, hv, hval]
      rw [this]
      have h1 : ∀ i ∈ ids (defaultOf sl n).1, i < (defaultOf sl n).2 :=
        fun i hi => Nat.lt_of_lt_of_le (Nat.lt_of_lt_of_le (hb.2 i (hdi i hi)) hm) hd
      exact ⟨fun i hi => by simp [slotIds] at hi; exact h1 i hi, h1, hd⟩
    | ok r =>
      obtain ⟨v', n'⟩ := r
      have : readSlot E o n sl = (v', { sl with val := some v' }, n') := by simp [readSlot, hv, hval]
      rw [this]
      have hl := validate_ids o _ _ _ _ _ hval
      have h1 : ∀ i ∈ ids v', i < n' := by
        intro i hi
        rcases hl.2 i hi with h | h
        · exact h.2
        · exact Nat.lt_of_lt_of_le (Nat.lt_of_lt_of_le (Nat.lt_of_lt_of_le (hb.2 i (hdi i h)) hm) hd) hl.1
      exact ⟨fun i hi => by simp [slotIds] at hi; exact h1 i hi, h1, Nat.le_trans hd hl.1⟩

/-! ## Phase A: `__getstate__` -/

/-- One slot through `__getstate__`: original slot, state entry, slot afterwards. -/
structure GS (E : Env) (sl : Slot) (x : Option CVal) (sl' : Slot) : Prop where
  decl : sl'.decl = sl.decl
  wf : WFSlot E sl'
  pers : sl.decl.persisted = true →
    ∃ v, x = some v ∧ sl'.val = some v ∧ Valid E sl.decl.shape v ∧ (∀ w, sl.val = some w → v = w)
  npers : sl.decl.persisted = false → x = none ∧ sl' = sl

theorem getstateL_spec {E : Env} (hI : Idem E) (o : Nat) :
    ∀ (slots : List Slot) (n : Nat), (∀ sl ∈ slots, WFSlot E sl) →
      Forall3 (GS E) slots (getstateL E o n slots).1 (getstateL E o n slots).2.1 ∧
        n ≤ (getstateL E o n slots).2.2
  | [], n, _ => ⟨.nil, Nat.le_refl _⟩
  | sl :: sls, n, hw => by
    have hsl := hw sl (by simp)
    have htl : ∀ s ∈ sls, WFSlot E s := fun s hs => hw s (by simp [hs])
    unfold getstateL
    by_cases hp : sl.decl.persisted = true
    · simp only [hp, ↓reduceIte]
      obtain ⟨h1, h2, h3, h4⟩ := readSlot_spec hI hsl o n
      have ih := getstateL_spec hI o sls (readSlot E o n sl).2.2 htl
      refine ⟨.cons ⟨h2, readSlot_wf hI hsl o n, ?_, ?_⟩ ih.1, Nat.le_trans h4 ih.2⟩
      · intro _
        refine ⟨_, rfl, h3, h1, ?_⟩
        intro w hw'
        rw [readSlot_some hw']
      · intro hc; rw [hp] at hc; cases hc
    · have hp' : sl.decl.persisted = false := by simpa using hp
      simp only [hp', Bool.false_eq_true, ↓reduceIte]
      have ih := getstateL_spec hI o sls n htl
      exact ⟨.cons ⟨rfl, hsl, fun hc => (by rw [hp'] at hc; cases hc), fun _ => ⟨rfl, rfl⟩⟩ ih.1, ih.2⟩

theorem getstateL_below {E : Env} (o : Nat) :
    ∀ (slots : List Slot) (n m : Nat), BelowAll m slots → m ≤ n →
      (∀ sl ∈ (getstateL E o n slots).2.1, ∀ i ∈ slotIds sl, i < (getstateL E o n slots).2.2) ∧
      (∀ x ∈ (getstateL E o n slots).1, ∀ v, x = some v → ∀ i ∈ ids v, i < (getstateL E o n slots).2.2) ∧
      n ≤ (getstateL E o n slots).2.2
  | [], n, m, _, _ => ⟨fun _ h => (by cases h), fun _ h => (by cases h), Nat.le_refl _⟩
  | sl :: sls, n, m, hb, hm => by
    have hsl := hb sl (by simp)
    have htl : BelowAll m sls := fun s hs => hb s (by simp [hs])
    unfold getstateL
    by_cases hp : sl.decl.persisted = true
    · simp only [hp, ↓reduceIte]
      obtain ⟨r1, r2, r3⟩ := readSlot_below (E := E) hsl hm o
      have ih := getstateL_below (E := E) o sls (readSlot E o n sl).2.2 m htl (Nat.le_trans hm r3)
      refine ⟨?_, ?_, Nat.le_trans r3 ih.2.2⟩
      · intro s hs i hi
        rcases List.mem_cons.mp hs with rfl | hs
        · exact Nat.lt_of_lt_of_le (r1 i hi) ih.2.2
        · exact ih.1 s hs i hi
      · intro x hx v hv i hi
        rcases List.mem_cons.mp hx with rfl | hx
        · cases hv
          exact Nat.lt_of_lt_of_le (r2 i hi) ih.2.2
        · exact ih.2.1 x hx v hv i hi
    · have hp' : sl.decl.persisted = false := by simpa using hp
      simp only [hp', Bool.false_eq_true, ↓reduceIte]
      have ih := getstateL_below (E := E) o sls n m htl hm
      refine ⟨?_, ?_, ih.2.2⟩
      · intro s hs i hi
        rcases List.mem_cons.mp hs with rfl | hs
        · exact Nat.lt_of_lt_of_le (Nat.lt_of_lt_of_le (hsl.1 i hi) hm) ih.2.2
        · exact ih.1 s hs i hi
      · intro x hx v hv i hi
        rcases List.mem_cons.mp hx with rfl | hx
        · cases hv
        · exact ih.2.1 x hx v hv i hi

/-! ## Phase B: pickling the state -/

/-- A state entry and its unpickled twin. -/
def PS (n : Nat) (x x' : Option CVal) : Prop :=
  (x = none → x' = none) ∧ ∀ v, x = some v → ∃ m, n ≤ m ∧ x' = some (pickleV m v).1

theorem pickleState_spec :
    ∀ (st : List (Option CVal)) (n : Nat),
      Forall2 (PS n) st (pickleState n st).1 ∧ n ≤ (pickleState n st).2
  | [], n => ⟨.nil, Nat.le_refl _⟩
  | none :: xs, n => by
    have ih := pickleState_spec xs n
    simp only [pickleState]
    exact ⟨.cons ⟨fun _ => rfl, fun v hv => (by cases hv)⟩ ih.1, ih.2⟩
  | some v :: xs, n => by
    have ih := pickleState_spec xs (pickleV n v).2
    have hm := pickleV_mono v n
    simp only [pickleState]
    refine ⟨.cons ⟨fun h => (by cases h), fun w hw => (by cases hw; exact ⟨n, Nat.le_refl _, rfl⟩)⟩ ?_,
      Nat.le_trans hm ih.2⟩
    exact Forall2.imp (fun a b h => ⟨h.1, fun w hw => by
      obtain ⟨m, h1, h2⟩ := h.2 w hw
      exact ⟨m, Nat.le_trans hm h1, h2⟩⟩) ih.1

/-! ## Phase C: `__setstate__` on a fresh instance -/

/-- A declaration, the state entry for it, the restored slot. -/
structure SS (E : Env) (o' n : Nat) (d : Decl) (x : Option CVal) (sl' : Slot) : Prop where
  decl : sl'.decl = d
  none : x = none → sl'.val = none
  some : ∀ u, x = some u → ∃ w, sl'.val = some w ∧ norm w = norm u ∧ Live E o' d.shape w ∧
    (∀ i ∈ ids w, n ≤ i ∨ i ∈ ids u) ∧ (∀ i ∈ declIds d.shape w, n ≤ i)

theorem setstateL_spec {E : Env} (hI : Idem E) (o' : Nat) :
    ∀ (decls : List Decl) (st : List (Option CVal)) (n : Nat),
      Forall2 (fun d x => ∀ u, x = some u → d.kind ≠ .event ∧ Valid E d.shape u) decls st →
      ∃ copy n', setstateL E o' n (decls.map (fun d => ⟨d, none⟩)) st = .ok (copy, n') ∧ n ≤ n' ∧
        Forall3 (SS E o' n) decls st copy
  | [], [], n, .nil => ⟨[], n, rfl, Nat.le_refl _, .nil⟩
  | d :: ds, none :: xs, n, .cons _ hs => by
    obtain ⟨copy, n', h1, h2, h3⟩ := setstateL_spec hI o' ds xs n hs
    refine ⟨⟨d, none⟩ :: copy, n', ?_, h2, .cons ⟨rfl, fun _ => rfl, fun u hu => (by cases hu)⟩ h3⟩
    simp [setstateL, h1]
  | d :: ds, some u :: xs, n, .cons hd hs => by
    obtain ⟨hk, hv⟩ := hd u rfl
    obtain ⟨w, n1, hval, hnorm⟩ := validate_of_valid hv o' n
    have hl := validate_ids o' _ _ _ _ _ hval
    obtain ⟨copy, n', h1, h2, h3⟩ := setstateL_spec hI o' ds xs n1 hs
    refine ⟨⟨d, some w⟩ :: copy, n', ?_, Nat.le_trans hl.1 h2, .cons ⟨rfl, fun h => (by cases h), ?_⟩ ?_⟩
    · simp [setstateL, assignSlot_fresh d hk, hval, h1]
    · intro u' hu'
      cases hu'
      refine ⟨w, rfl, hnorm, validate_live hI o' _ _ _ _ _ hval, ?_, ?_⟩
      · intro i hi
        rcases hl.2 i hi with h | h
        · exact Or.inl h.1
        · exact Or.inr h
      · intro i hi
        exact (validate_declIds_fresh o' _ _ _ _ _ hval i hi).1
    · -- the tail was restored from a later counter: weaken its lower bound
      have : ∀ (dl : List Decl) (sl : List (Option CVal)) (cl : List Slot),
          Forall3 (SS E o' n1) dl sl cl → Forall3 (SS E o' n) dl sl cl := by
        intro dl sl cl h
        induction h with
        | nil => exact .nil
        | cons r _ ih =>
          refine .cons ⟨r.decl, r.none, ?_⟩ ih
          intro u hu
          obtain ⟨w, a, b, c, d', e⟩ := r.some u hu
          refine ⟨w, a, b, c, ?_, ?_⟩
          · intro i hi
            rcases d' i hi with h | h
            · exact Or.inl (Nat.le_trans hl.1 h)
            · exact Or.inr h
          · intro i hi
            exact Nat.le_trans hl.1 (e i hi)
      exact this _ _ _ h3

/-! ## Generic list plumbing -/

theorem Forall2.map1 {α α' β : Type} {R : α → β → Prop} (f : α' → α) :
    ∀ {l1 : List α'} {l2 : List β}, Forall2 (fun a b => R (f a) b) l1 l2 → Forall2 R (l1.map f) l2
  | [], _, .nil => .nil
  | _ :: _, _, .cons r rs => .cons r (Forall2.map1 f rs)

theorem Forall3.of_map1 {α α' β γ : Type} {R : α → β → γ → Prop} (f : α' → α) :
    ∀ {l1 : List α'} {l2 : List β} {l3 : List γ}, Forall3 R (l1.map f) l2 l3 →
      Forall3 (fun a b c => R (f a) b c) l1 l2 l3
  | [], _, _, h => by cases h; exact .nil
  | _ :: _, _, _, h => by
    cases h with
    | cons r rs => exact .cons r (Forall3.of_map1 f rs)

/-! ## The round trip, slot by slot -/

/-- Original slot (after the reads of `__getstate__`) versus restored slot. -/
structure Restored (E : Env) (o' : Nat) (a b : Slot) : Prop where
  decl : b.decl = a.decl
  /-- a persisted trait: equal value, live for the new owner -/
  pers : a.decl.persisted = true →
    ∃ v w, a.val = some v ∧ b.val = some w ∧ norm w = norm v ∧ Live E o' a.decl.shape w
  /-- a transient trait (or an event): not in the copy's `__dict__`, i.e. at its default -/
  trans : a.decl.persisted = false → b.val = none

/-- Original slot before versus after `__getstate__` (reads may store a default). -/
structure ReadOnlyChange (E : Env) (a a' : Slot) : Prop where
  decl : a'.decl = a.decl
  wf : WFSlot E a'
  kept : ∀ v, a.val = some v → a'.val = some v
  untouched : a.decl.persisted = false → a' = a

theorem compose_pickle {E : Env} (hC : CopyStable E) {o' n1 n2 : Nat} :
    ∀ {slots : List Slot} {st : List (Option CVal)} {slots' : List Slot} {st' : List (Option CVal)}
      {copy : List Slot},
      Forall3 (GS E) slots st slots' → Forall2 (PS n1) st st' →
      Forall3 (fun sl x c => SS E o' n2 sl.decl x c) slots st' copy →
      Forall2 (Restored E o') slots' copy ∧ Forall2 (ReadOnlyChange E) slots slots'
  | _, _, _, _, _, .nil, .nil, .nil => ⟨.nil, .nil⟩
  | _, _, _, _, _, .cons (a := sl) g gs, .cons p ps, .cons r rs => by
    obtain ⟨ih1, ih2⟩ := compose_pickle hC gs ps rs
    refine ⟨.cons ⟨by rw [r.decl, g.decl], ?_, ?_⟩ ih1, .cons ⟨g.decl, g.wf, ?_, fun h => (g.npers h).2⟩ ih2⟩
    · intro hp
      rw [g.decl] at hp
      obtain ⟨v, hx, hv', _, _⟩ := g.pers hp
      obtain ⟨m, _, hx'⟩ := p.2 v hx
      obtain ⟨w, hw, hn, hl, _, _⟩ := r.some _ hx'
      refine ⟨v, w, hv', hw, ?_, by rw [g.decl]; exact hl⟩
      rw [hn, pickleV_norm]
    · intro hp
      rw [g.decl] at hp
      exact r.none (p.1 (g.npers hp).1)
    · intro v hv
      by_cases hp : sl.decl.persisted = true
      · obtain ⟨v', _, hv', _, he⟩ := g.pers hp
        rw [hv', he v hv]
      · have hp' := (g.npers (by simpa using hp)).2
        rw [hp']; exact hv

/-- Validity of what `__setstate__` receives. -/
theorem state_valid {E : Env} (hC : CopyStable E) {n1 : Nat} :
    ∀ {slots : List Slot} {st : List (Option CVal)} {slots' : List Slot} {st' : List (Option CVal)},
      Forall3 (GS E) slots st slots' → Forall2 (PS n1) st st' →
      Forall2 (fun (sl : Slot) x => ∀ u, x = some u → sl.decl.kind ≠ .event ∧ Valid E sl.decl.shape u) slots st'
  | _, _, _, _, .nil, .nil => .nil
  | _, _, _, _, .cons g gs, .cons p ps => by
    refine .cons ?_ (state_valid hC gs ps)
    intro u hu
    rename_i sl x sl' _ _ _ x' _
    by_cases hp : sl.decl.persisted = true
    · obtain ⟨v, hx, _, hv, _⟩ := g.pers hp
      obtain ⟨m, _, hx'⟩ := p.2 v hx
      rw [hx'] at hu
      cases hu
      refine ⟨?_, pickleV_valid hC hv m⟩
      intro hk
      simp [Decl.persisted, hk] at hp
    · have := p.1 (g.npers (by simpa using hp)).1
      rw [this] at hu; cases hu

theorem pickleRoundTrip_spec {E : Env} (hI : Idem E) (hC : CopyStable E) {s : Obj} (hw : WFObj E s)
    (o' n : Nat) :
    ∃ c, pickleRoundTrip E s o' n = .ok c ∧ c.copy.oid = o' ∧ c.orig.oid = s.oid ∧
      Forall2 (ReadOnlyChange E) s.slots c.orig.slots ∧ Forall2 (Restored E o') c.orig.slots c.copy.slots := by
  obtain ⟨hA, _⟩ := getstateL_spec hI s.oid s.slots n hw
  have hB := (pickleState_spec (getstateL E s.oid n s.slots).1 (getstateL E s.oid n s.slots).2.2).1
  have hV := state_valid hC hA hB
  obtain ⟨copy, n', h1, _, h3⟩ := setstateL_spec hI o' (s.slots.map (·.decl)) _
    (pickleState (getstateL E s.oid n s.slots).2.2 (getstateL E s.oid n s.slots).1).2 (Forall2.map1 _ hV)
  have h3' := Forall3.of_map1 _ h3
  obtain ⟨r1, r2⟩ := compose_pickle hC hA hB h3'
  refine ⟨⟨⟨o', copy⟩, ⟨s.oid, (getstateL E s.oid n s.slots).2.1⟩, n'⟩, ?_, rfl, rfl, r2, r1⟩
  unfold pickleRoundTrip
  simp only [List.map_map] at h1
  have : (s.slots.map fun sl => (⟨sl.decl, none⟩ : Slot)) =
      List.map ((fun d => (⟨d, none⟩ : Slot)) ∘ fun x => x.decl) s.slots := rfl
  simp only [this, h1]

/-! ## No sharing after a pickle round trip -/

theorem copy_ids_pickle {E : Env} {o' n1 n2 : Nat} (h12 : n1 ≤ n2) :
    ∀ {slots : List Slot} {st st' : List (Option CVal)} {copy : List Slot},
      Forall2 (PS n1) st st' →
      Forall3 (fun sl x c => SS E o' n2 sl.decl x c) slots st' copy →
      ∀ c ∈ copy, ∀ i ∈ slotIds c, n1 ≤ i
  | _, _, _, _, .nil, .nil => fun c hc => by cases hc
  | _, _, _, _, .cons (a := x) p ps, .cons r rs => by
    intro c hc i hi
    rcases List.mem_cons.mp hc with rfl | hc
    · cases hx : x with
      | none =>
        have := r.none (p.1 hx)
        simp [slotIds, this] at hi
      | some v =>
        obtain ⟨m, hm, hx'⟩ := p.2 v hx
        obtain ⟨w, hw, _, _, hids, _⟩ := r.some _ hx'
        simp only [slotIds, hw] at hi
        rcases hids i hi with h | h
        · exact Nat.le_trans h12 h
        · exact Nat.le_trans hm (pickleV_fresh v m i h).1
    · exact copy_ids_pickle h12 ps rs c hc i hi

theorem Forall3.length12 {α β γ : Type} {R : α → β → γ → Prop} :
    ∀ {l1 : List α} {l2 : List β} {l3 : List γ}, Forall3 R l1 l2 l3 → l2.length = l1.length
  | _, _, _, .nil => rfl
  | _, _, _, .cons _ rs => by simp [Forall3.length12 rs]

/-- After `pickle.loads(pickle.dumps(obj))` there is a boundary `g` with every
container of the original (defaults that the pickling materialised included)
below it and every container of the copy at or above it. -/
theorem pickle_no_sharing {E : Env} (hI : Idem E) (hC : CopyStable E) {s : Obj} (hw : WFObj E s)
    {o' n m : Nat} (hb : BelowAll m s.slots) (hm : m ≤ n) {c : Copied}
    (h : pickleRoundTrip E s o' n = .ok c) :
    ∃ g, (∀ sl ∈ c.orig.slots, ∀ i ∈ slotIds sl, i < g) ∧ (∀ sl ∈ c.copy.slots, ∀ i ∈ slotIds sl, g ≤ i) := by
  obtain ⟨hA, _⟩ := getstateL_spec hI s.oid s.slots n hw
  have hBs := pickleState_spec (getstateL E s.oid n s.slots).1 (getstateL E s.oid n s.slots).2.2
  have hV := state_valid hC hA hBs.1
  obtain ⟨copy, n', h1, _, h3⟩ := setstateL_spec hI o' (s.slots.map (·.decl)) _
    (pickleState (getstateL E s.oid n s.slots).2.2 (getstateL E s.oid n s.slots).1).2 (Forall2.map1 _ hV)
  have h3' := Forall3.of_map1 _ h3
  have hbelow := getstateL_below (E := E) s.oid s.slots n m hb hm
  unfold pickleRoundTrip at h
  simp only [List.map_map] at h1
  have e : (s.slots.map fun sl => (⟨sl.decl, none⟩ : Slot)) =
      List.map ((fun d => (⟨d, none⟩ : Slot)) ∘ fun x => x.decl) s.slots := rfl
  simp only [e, h1] at h
  cases h
  refine ⟨(getstateL E s.oid n s.slots).2.2, hbelow.1, ?_⟩
  exact copy_ids_pickle hBs.2 hBs.1 h3'

/-! ## Write-once traits -/

theorem norm_undefined {v : CVal} (h : norm v = .leaf .undefined) : v = .leaf .undefined := by
  cases v with
  | leaf a => cases a <;> simp [norm, Leaf.norm] at h ⊢
  | node => simp [norm] at h

/-- `setattr_readonly` on a slot that holds anything but `Undefined`. -/
theorem assignSlot_readonly_written {E : Env} {sl : Slot} {w : CVal} (hk : sl.decl.kind = .readonly)
    (hv : sl.val = some w) (hw : w ≠ .leaf .undefined) (o n : Nat) (x : CVal) :
    assignSlot E o n sl x = .error .traitError := by
  unfold assignSlot
  simp only [hk, hv]

end TraitsVerif.Lemmas.Persist
