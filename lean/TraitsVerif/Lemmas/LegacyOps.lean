/-
Every operation of a history is a `Change` (helper lemmas for C16): list and
association-list facts, then `mutate_spec`.
-/
import TraitsVerif.Lemmas.LegacyChange
namespace TraitsVerif.Model.Legacy
open List

/-! ### scripts -/

@[simp] theorem scUnregs_append (a b : List Act) : scUnregs (a ++ b) = scUnregs a ++ scUnregs b := by
  induction a with
  | nil => rfl
  | cons x a ih => cases x <;> simp [scUnregs, ih]

@[simp] theorem scRegs_append (a b : List Act) : scRegs (a ++ b) = scRegs a ++ scRegs b := by
  induction a with
  | nil => rfl
  | cons x a ih => cases x <;> simp [scRegs, ih]

@[simp] theorem scUnregs_unregAll (xs : List Nat) : scUnregs (unregAll xs) = xs := by
  induction xs with
  | nil => rfl
  | cons x xs ih => simp [unregAll, scUnregs] at *; exact ih

@[simp] theorem scRegs_unregAll (xs : List Nat) : scRegs (unregAll xs) = [] := by
  induction xs with
  | nil => rfl
  | cons x xs ih => simp [unregAll, scRegs] at *; exact ih

@[simp] theorem scUnregs_regAll (xs : List Nat) : scUnregs (regAll xs) = [] := by
  induction xs with
  | nil => rfl
  | cons x xs ih => simp [regAll, scUnregs] at *; exact ih

@[simp] theorem scRegs_regAll (xs : List Nat) : scRegs (regAll xs) = xs := by
  induction xs with
  | nil => rfl
  | cons x xs ih => simp [regAll, scRegs] at *; exact ih

/-! ### fresh identifiers -/

theorem mem_freshIds {h : Heap} {n c : Nat} : c ∈ freshIds h n ↔ h.next ≤ c ∧ c < h.next + n := by
  simp only [freshIds, mem_map, mem_range]
  constructor
  · rintro ⟨i, hi, rfl⟩; omega
  · rintro ⟨h1, h2⟩; exact ⟨c - h.next, by omega, by omega⟩

theorem freshIds_nodup (h : Heap) (n : Nat) : (freshIds h n).Nodup := by
  unfold freshIds Nodup
  rw [pairwise_map]
  exact (nodup_range (n := n)).imp (fun hab => by omega)

theorem freshIds_length (h : Heap) (n : Nat) : (freshIds h n).length = n := by
  simp [freshIds]

/-! ### objects -/

def Obj.targets (x : Obj) : Attr → List Nat
  | .child => x.child.toList
  | .kids => x.kids
  | .byname => x.byname.map (·.2)
  | .group => x.group

theorem targets_eq (h : Heap) (a : Attr) (o : Nat) : targets h a o = (h.obj o).targets a := by
  cases a <;> rfl

theorem targets_set_self (h : Heap) (o : Nat) (x : Obj) (n : Nat) (a : Attr) :
    targets ((h.setObj o x).bump n) a o = x.targets a := by
  cases a <;> simp [targets, Heap.setObj, Heap.bump, Obj.targets]

theorem targets_set_ne (h : Heap) (o : Nat) (x : Obj) (n : Nat) (a : Attr) {p : Nat} (hp : p ≠ o) :
    targets ((h.setObj o x).bump n) a p = targets h a p := by
  cases a <;> simp [targets, Heap.setObj, Heap.bump, hp]

/-- Building a `Change` from an update of one attribute of one object. -/
theorem Change.ofSet' {h : Heap} (ht : TreeShaped h) {o : Nat} (ho : o < h.next) (x : Obj) (n : Nat)
    (a : Attr) (olds news : List Nat)
    (hother : ∀ a', a' ≠ a → x.targets a' = (h.obj o).targets a')
    (hmem : ∀ c, c ∈ x.targets a ↔ (c ∈ (h.obj o).targets a ∧ c ∉ olds) ∨ c ∈ news)
    (holds : ∀ c ∈ olds, c ∈ (h.obj o).targets a)
    (hnews : ∀ c ∈ news, (h.next ≤ c ∧ c < h.next + n) ∨ c ∈ olds)
    (hnd : (x.targets a).Nodup) (hond : olds.Nodup) (hnnd : news.Nodup)
    (hkeys : (x.byname.map (·.1)).Nodup) :
    Change h ((h.setObj o x).bump n) o a olds news := by
  refine ⟨ho, by simp [Heap.bump, Heap.setObj], ?_, ?_, ?_, hnews, ?_, hond, hnnd, ?_⟩
  · intro p a' hpa
    by_cases hp : p = o
    · subst hp
      have ha : a' ≠ a := by rcases hpa with h1 | h1; exact absurd rfl h1; exact h1
      rw [targets_set_self, targets_eq, hother a' ha]
    · exact targets_set_ne _ _ _ _ _ hp
  · intro c; rw [targets_set_self, targets_eq]; exact hmem c
  · intro c hc; rw [targets_eq]; exact holds c hc
  · rw [targets_set_self]; exact hnd
  · intro p
    by_cases hp : p = o
    · subst hp; simpa [Heap.setObj, Heap.bump] using hkeys
    · simpa [Heap.setObj, Heap.bump, hp] using ht.keys p

/-- … when every gained object is fresh. -/
theorem Change.ofSet {h : Heap} (ht : TreeShaped h) {o : Nat} (ho : o < h.next) (x : Obj) (n : Nat)
    (a : Attr) (olds news : List Nat)
    (hother : ∀ a', a' ≠ a → x.targets a' = (h.obj o).targets a')
    (hmem : ∀ c, c ∈ x.targets a ↔ (c ∈ (h.obj o).targets a ∧ c ∉ olds) ∨ c ∈ news)
    (holds : ∀ c ∈ olds, c ∈ (h.obj o).targets a)
    (hnews : ∀ c ∈ news, h.next ≤ c ∧ c < h.next + n)
    (hnd : (x.targets a).Nodup) (hond : olds.Nodup) (hnnd : news.Nodup)
    (hkeys : (x.byname.map (·.1)).Nodup) :
    Change h ((h.setObj o x).bump n) o a olds news :=
  Change.ofSet' ht ho x n a olds news hother hmem holds (fun c hc => Or.inl (hnews c hc)) hnd hond hnnd hkeys

/-! ### association lists -/

theorem assoc_snd_inj {d : List (Nat × Nat)} (hnd : (d.map (·.2)).Nodup) {e₁ e₂ : Nat × Nat}
    (h1 : e₁ ∈ d) (h2 : e₂ ∈ d) (he : e₁.2 = e₂.2) : e₁ = e₂ := by
  induction d with
  | nil => cases h1
  | cons e d ih =>
    simp only [map_cons, nodup_cons, mem_map, not_exists, not_and] at hnd
    rcases mem_cons.mp h1 with h1' | h1' <;> rcases mem_cons.mp h2 with h2' | h2'
    · rw [h1', h2']
    · subst h1'; exact (hnd.1 e₂ h2' he.symm).elim
    · subst h2'; exact (hnd.1 e₁ h1' he).elim
    · exact ih hnd.2 h1' h2'

theorem assoc_fst_inj {d : List (Nat × Nat)} (hnd : (d.map (·.1)).Nodup) {e₁ e₂ : Nat × Nat}
    (h1 : e₁ ∈ d) (h2 : e₂ ∈ d) (he : e₁.1 = e₂.1) : e₁ = e₂ := by
  induction d with
  | nil => cases h1
  | cons e d ih =>
    simp only [map_cons, nodup_cons, mem_map, not_exists, not_and] at hnd
    rcases mem_cons.mp h1 with h1' | h1' <;> rcases mem_cons.mp h2 with h2' | h2'
    · rw [h1', h2']
    · subst h1'; exact (hnd.1 e₂ h2' he.symm).elim
    · subst h2'; exact (hnd.1 e₁ h1' he).elim
    · exact ih hnd.2 h1' h2'

/-- `del d[key]` -/
theorem assoc_del {d : List (Nat × Nat)} (hk : (d.map (·.1)).Nodup) (hv : (d.map (·.2)).Nodup)
    {key k' old : Nat} (hf : d.find? (·.1 = key) = some (k', old)) :
    (∀ c, c ∈ (d.filter (·.1 ≠ key)).map (·.2) ↔ c ∈ d.map (·.2) ∧ c ∉ [old]) ∧
    old ∈ d.map (·.2) ∧
    ((d.filter (·.1 ≠ key)).map (·.2)).Nodup ∧ ((d.filter (·.1 ≠ key)).map (·.1)).Nodup := by
  have hmem : (k', old) ∈ d := mem_of_find?_eq_some hf
  have hkey : k' = key := by simpa using find?_some hf
  subst hkey
  refine ⟨?_, mem_map.mpr ⟨_, hmem, rfl⟩, ?_, ?_⟩
  · intro c
    simp only [mem_map, mem_filter, mem_singleton, decide_eq_true_eq]
    constructor
    · rintro ⟨e, ⟨he, hne⟩, rfl⟩
      refine ⟨⟨e, he, rfl⟩, ?_⟩
      intro heq
      have := assoc_snd_inj hv he hmem heq
      subst this; exact hne rfl
    · rintro ⟨⟨e, he, rfl⟩, hne⟩
      refine ⟨e, ⟨he, ?_⟩, rfl⟩
      intro heq
      have := assoc_fst_inj hk he hmem heq
      subst this; exact hne rfl
  · exact (filter_sublist.map _).nodup hv
  · exact (filter_sublist.map _).nodup hk

/-- `d[key] = new` for an existing key -/
theorem assoc_replace {d : List (Nat × Nat)} (hk : (d.map (·.1)).Nodup) (hv : (d.map (·.2)).Nodup)
    {key old new : Nat} (hmem : (key, old) ∈ d) (hnew : new ∉ d.map (·.2)) :
    (d.map (fun e => if e.1 = key then (key, new) else e)).map (·.1) = d.map (·.1) ∧
    ((d.map (fun e => if e.1 = key then (key, new) else e)).map (·.2)).Nodup ∧
    ∀ c, c ∈ (d.map (fun e => if e.1 = key then (key, new) else e)).map (·.2) ↔
      (c ∈ d.map (·.2) ∧ c ≠ old) ∨ c = new := by
  induction d with
  | nil => cases hmem
  | cons e d ih =>
    simp only [map_cons, nodup_cons] at hk hv
    simp only [map_cons, mem_cons, not_or] at hnew
    by_cases hek : e.1 = key
    · -- the head is the entry; the tail is untouched
      have he : e = (key, old) := by
        rcases mem_cons.mp hmem with h1 | h1
        · exact h1.symm
        · exact (hk.1 (mem_map.mpr ⟨_, h1, hek.symm⟩)).elim
      subst he
      have htail : d.map (fun e => if e.1 = key then (key, new) else e) = d := by
        conv => rhs; rw [← map_id d]
        apply map_congr_left
        intro e' he'
        have : e'.1 ≠ key := fun h => hk.1 (mem_map.mpr ⟨_, he', h⟩)
        simp [this]
      simp only [map_cons, if_pos, htail]
      refine ⟨by simp, ?_, ?_⟩
      · simp only [nodup_cons]; exact ⟨hnew.2, hv.2⟩
      · intro c
        simp only [mem_cons]
        constructor
        · rintro (rfl | hc)
          · exact Or.inr rfl
          · refine Or.inl ⟨Or.inr hc, ?_⟩
            rintro rfl; exact hv.1 hc
        · rintro (⟨h1 | h1, h2⟩ | rfl)
          · exact (h2 h1).elim
          · exact Or.inr h1
          · exact Or.inl rfl
    · have hmem' : (key, old) ∈ d := by
        rcases mem_cons.mp hmem with h1 | h1
        · exact (hek (by rw [← h1])).elim
        · exact h1
      obtain ⟨ih1, ih2, ih3⟩ := ih hk.2 hv.2 hmem' hnew.2
      simp only [map_cons, if_neg hek]
      refine ⟨by rw [ih1], ?_, ?_⟩
      · simp only [nodup_cons]
        refine ⟨?_, ih2⟩
        rw [ih3]
        rintro (⟨h1, _⟩ | h1)
        · exact hv.1 h1
        · exact hnew.1 h1.symm
      · intro c
        simp only [mem_cons, ih3]
        constructor
        · rintro (rfl | ⟨h1, h2⟩ | rfl)
          · refine Or.inl ⟨Or.inl rfl, ?_⟩
            intro heq
            exact hv.1 (mem_map.mpr ⟨_, hmem', heq.symm⟩)
          · exact Or.inl ⟨Or.inr h1, h2⟩
          · exact Or.inr rfl
        · rintro (⟨h1 | h1, h2⟩ | rfl)
          · exact Or.inl h1
          · exact Or.inr (Or.inl ⟨h1, h2⟩)
          · exact Or.inr (Or.inr rfl)

theorem dedupKeys_nodup (ks : List Nat) : (dedupKeys ks).Nodup := by
  induction ks with
  | nil => simp [dedupKeys]
  | cons k ks ih =>
    simp only [dedupKeys, nodup_cons, mem_filter, decide_eq_true_eq, ne_eq, not_true_eq_false,
      and_false, not_false_eq_true, true_and]
    exact (filter_sublist).nodup ih

/-! ### `dict.update` with several keys -/

theorem assoc_replace_other {d : List (Nat × Nat)} {key new : Nat} {e : Nat × Nat} (hne : e.1 ≠ key) :
    e ∈ d.map (fun e => if e.1 = key then (key, new) else e) ↔ e ∈ d := by
  simp only [mem_map]
  constructor
  · rintro ⟨e', he', rfl⟩
    by_cases h : e'.1 = key
    · simp [h] at hne
    · simpa [h] using he'
  · intro he; exact ⟨e, he, by simp [hne]⟩

@[simp] theorem scUnregs_changed (ch : List (Nat × Nat)) :
    scUnregs (ch.flatMap (fun c => [Act.unreg c.1, Act.reg c.2])) = ch.map (·.1) := by
  induction ch with
  | nil => rfl
  | cons c ch ih => simp [scUnregs, ih]

@[simp] theorem scRegs_changed (ch : List (Nat × Nat)) :
    scRegs (ch.flatMap (fun c => [Act.unreg c.1, Act.reg c.2])) = ch.map (·.2) := by
  induction ch with
  | nil => rfl
  | cons c ch ih => simp [scRegs, ih]

theorem dictUpd_spec : ∀ (kvs d : List (Nat × Nat)),
    (d.map (·.1)).Nodup → (d.map (·.2)).Nodup → (kvs.map (·.1)).Nodup → (kvs.map (·.2)).Nodup →
    (∀ v ∈ kvs.map (·.2), v ∉ d.map (·.2)) →
    ((dictUpd d kvs).1.map (·.1)).Nodup ∧ ((dictUpd d kvs).1.map (·.2)).Nodup ∧
    (∀ c, c ∈ (dictUpd d kvs).1.map (·.2) ↔
      (c ∈ d.map (·.2) ∧ c ∉ (dictUpd d kvs).2.2.map (·.1)) ∨ c ∈ (dictUpd d kvs).2.1 ∨
        c ∈ (dictUpd d kvs).2.2.map (·.2)) ∧
    (∀ c ∈ (dictUpd d kvs).2.2.map (·.1), ∃ key ∈ kvs.map (·.1), (key, c) ∈ d) ∧
    ((dictUpd d kvs).2.2.map (·.1)).Nodup ∧
    (∀ c, (c ∈ (dictUpd d kvs).2.1 ∨ c ∈ (dictUpd d kvs).2.2.map (·.2)) ↔ c ∈ kvs.map (·.2)) ∧
    ((dictUpd d kvs).2.1 ++ (dictUpd d kvs).2.2.map (·.2)).Nodup := by
  intro kvs
  induction kvs with
  | nil => intro d hk hv _ _ _; simp [dictUpd, hk, hv]
  | cons kv kvs ih =>
    obtain ⟨k, v⟩ := kv
    intro d hk hv hkk hvv hfresh
    simp only [map_cons, nodup_cons] at hkk hvv
    have hvd : v ∉ d.map (·.2) := hfresh v (by simp)
    have hfresh' : ∀ v' ∈ kvs.map (·.2), v' ∉ d.map (·.2) := fun v' hv' => hfresh v' (by simp [hv'])
    cases hf : d.find? (·.1 = k) with
    | some e =>
      have hed : e ∈ d := mem_of_find?_eq_some hf
      have hek : e.1 = k := by simpa using find?_some hf
      have hmem : (k, e.2) ∈ d := by rw [← hek]; exact hed
      obtain ⟨r1, r2, r3⟩ := assoc_replace hk hv hmem hvd
      have hold : e.2 ∈ d.map (·.2) := mem_map.mpr ⟨_, hed, rfl⟩
      obtain ⟨i1, i2, i3, i4, i5, i6, i7⟩ := ih (d.map (fun e => if e.1 = k then (k, v) else e))
        (by rw [r1]; exact hk) r2 hkk.2 hvv.2 (by
          intro v' hv' hin
          rcases (r3 v').mp hin with ⟨h1, _⟩ | h1
          · exact hfresh' v' hv' h1
          · exact hvv.1 (h1 ▸ hv'))
      have hstep : dictUpd d ((k, v) :: kvs) =
          ((dictUpd (d.map (fun e => if e.1 = k then (k, v) else e)) kvs).1,
           (dictUpd (d.map (fun e => if e.1 = k then (k, v) else e)) kvs).2.1,
           (e.2, v) :: (dictUpd (d.map (fun e => if e.1 = k then (k, v) else e)) kvs).2.2) := by
        simp [dictUpd, hf]
      rw [hstep]
      generalize dictUpd (d.map (fun e => if e.1 = k then (k, v) else e)) kvs = r at i1 i2 i3 i4 i5 i6 i7
      have hvch : v ∉ r.2.2.map (·.1) := by
        intro hin
        obtain ⟨key, hkey, hkv⟩ := i4 v hin
        have hne : key ≠ k := fun e' => hkk.1 (e' ▸ hkey)
        have := (assoc_replace_other (e := (key, v)) hne).mp hkv
        exact hvd (mem_map.mpr ⟨_, this, rfl⟩)
      refine ⟨i1, i2, ?_, ?_, ?_, ?_, ?_⟩
      · intro c
        simp only [map_cons, mem_cons, not_or]
        rw [i3, r3]
        constructor
        · rintro (⟨⟨h1, h2⟩ | rfl, h3⟩ | h4 | h5)
          · exact Or.inl ⟨h1, h2, h3⟩
          · exact Or.inr (Or.inr (Or.inl rfl))
          · exact Or.inr (Or.inl h4)
          · exact Or.inr (Or.inr (Or.inr h5))
        · rintro (⟨h1, h2, h3⟩ | h4 | rfl | h5)
          · exact Or.inl ⟨Or.inl ⟨h1, h2⟩, h3⟩
          · exact Or.inr (Or.inl h4)
          · exact Or.inl ⟨Or.inr rfl, hvch⟩
          · exact Or.inr (Or.inr h5)
      · intro c hc
        simp only [map_cons, mem_cons] at hc ⊢
        rcases hc with rfl | hc
        · exact ⟨k, Or.inl rfl, hmem⟩
        · obtain ⟨key, hkey, hkc⟩ := i4 c hc
          have hne : key ≠ k := fun e' => hkk.1 (e' ▸ hkey)
          exact ⟨key, Or.inr hkey, (assoc_replace_other (e := (key, c)) hne).mp hkc⟩
      · simp only [map_cons, nodup_cons]
        refine ⟨?_, i5⟩
        intro hin
        obtain ⟨key, _, hkc⟩ := i4 _ hin
        have : e.2 ∈ (d.map (fun e => if e.1 = k then (k, v) else e)).map (·.2) :=
          mem_map.mpr ⟨_, hkc, rfl⟩
        rcases (r3 _).mp this with ⟨_, h2⟩ | h2
        · exact h2 rfl
        · exact hvd (h2 ▸ hold)
      · intro c
        simp only [map_cons, mem_cons]
        rw [← i6]
        constructor
        · rintro (h1 | rfl | h3)
          · exact Or.inr (Or.inl h1)
          · exact Or.inl rfl
          · exact Or.inr (Or.inr h3)
        · rintro (rfl | h1 | h3)
          · exact Or.inr (Or.inl rfl)
          · exact Or.inl h1
          · exact Or.inr (Or.inr h3)
      · simp only [map_cons]
        rw [perm_middle.nodup_iff, nodup_cons]
        refine ⟨?_, i7⟩
        intro hin
        exact hvv.1 ((i6 v).mp (mem_append.mp hin))
    | none =>
      have hnone := find?_eq_none.mp hf
      have hkd : k ∉ d.map (·.1) := by
        intro hin
        obtain ⟨e, he, rfl⟩ := mem_map.mp hin
        exact hnone e he (by simp)
      obtain ⟨i1, i2, i3, i4, i5, i6, i7⟩ := ih (d ++ [(k, v)])
        (by
          rw [map_append, nodup_append]
          refine ⟨hk, by simp, ?_⟩
          intro x hx y hy hxy
          simp at hy; subst hy; subst hxy; exact hkd hx)
        (by
          rw [map_append, nodup_append]
          refine ⟨hv, by simp, ?_⟩
          intro x hx y hy hxy
          simp at hy; subst hy; subst hxy; exact hvd hx)
        hkk.2 hvv.2 (by
          intro v' hv' hin
          rw [map_append, mem_append] at hin
          rcases hin with h1 | h1
          · exact hfresh' v' hv' h1
          · simp at h1; exact hvv.1 (h1 ▸ hv'))
      have hstep : dictUpd d ((k, v) :: kvs) =
          ((dictUpd (d ++ [(k, v)]) kvs).1, v :: (dictUpd (d ++ [(k, v)]) kvs).2.1,
           (dictUpd (d ++ [(k, v)]) kvs).2.2) := by
        simp [dictUpd, hf]
      rw [hstep]
      generalize dictUpd (d ++ [(k, v)]) kvs = r at i1 i2 i3 i4 i5 i6 i7
      have hin_d : ∀ key c, key ∈ kvs.map (·.1) → (key, c) ∈ d ++ [(k, v)] → (key, c) ∈ d := by
        intro key c hkey hkc
        rcases mem_append.mp hkc with h1 | h1
        · exact h1
        · simp at h1
          exact (hkk.1 (h1.1 ▸ hkey)).elim
      have hvch : v ∉ r.2.2.map (·.1) := by
        intro hin
        obtain ⟨key, hkey, hkv⟩ := i4 v hin
        exact hvd (mem_map.mpr ⟨_, hin_d key v hkey hkv, rfl⟩)
      refine ⟨i1, i2, ?_, ?_, i5, ?_, ?_⟩
      · intro c
        rw [i3]
        simp only [map_append, mem_append, map_cons, map_nil, mem_cons, not_mem_nil, or_false]
        constructor
        · rintro (⟨h1 | rfl, h3⟩ | h4 | h5)
          · exact Or.inl ⟨h1, h3⟩
          · exact Or.inr (Or.inl (Or.inl rfl))
          · exact Or.inr (Or.inl (Or.inr h4))
          · exact Or.inr (Or.inr h5)
        · rintro (⟨h1, h3⟩ | (rfl | h4) | h5)
          · exact Or.inl ⟨Or.inl h1, h3⟩
          · exact Or.inl ⟨Or.inr rfl, hvch⟩
          · exact Or.inr (Or.inl h4)
          · exact Or.inr (Or.inr h5)
      · intro c hc
        obtain ⟨key, hkey, hkc⟩ := i4 c hc
        exact ⟨key, by simp [hkey], hin_d key c hkey hkc⟩
      · intro c
        simp only [map_cons, mem_cons]
        rw [← i6]
        constructor
        · rintro ((rfl | h1) | h3)
          · exact Or.inl rfl
          · exact Or.inr (Or.inl h1)
          · exact Or.inr (Or.inr h3)
        · rintro (rfl | h1 | h3)
          · exact Or.inl (Or.inl rfl)
          · exact Or.inl (Or.inr h1)
          · exact Or.inr h3
      · rw [cons_append, nodup_cons]
        refine ⟨?_, i7⟩
        intro hin
        exact hvv.1 ((i6 v).mp (mem_append.mp hin))

/-! ### slices -/

theorem splice_facts {kids news : List Nat} {i j : Nat} (hnd : kids.Nodup) (hij : i ≤ j)
    (hnews : news.Nodup) (hdisj : ∀ c ∈ news, c ∉ kids) :
    (∀ c, c ∈ kids.take i ++ news ++ kids.drop j ↔
        (c ∈ kids ∧ c ∉ (kids.drop i).take (j - i)) ∨ c ∈ news) ∧
    (∀ c ∈ (kids.drop i).take (j - i), c ∈ kids) ∧
    (kids.take i ++ news ++ kids.drop j).Nodup ∧ ((kids.drop i).take (j - i)).Nodup := by
  have hdec : kids = kids.take i ++ ((kids.drop i).take (j - i) ++ kids.drop j) := by
    have h1 : kids.drop j = (kids.drop i).drop (j - i) := by
      rw [drop_drop]; congr 1; omega
    rw [h1, take_append_drop, take_append_drop]
  have hnd' := hnd
  rw [hdec] at hnd'
  rw [nodup_append, nodup_append] at hnd'
  obtain ⟨hA, ⟨hB, hC, hBC⟩, hABC⟩ := hnd'
  have memk : ∀ c, c ∈ kids ↔ c ∈ kids.take i ∨ c ∈ (kids.drop i).take (j - i) ∨ c ∈ kids.drop j := by
    intro c
    conv => lhs; rw [hdec]
    simp [mem_append]
  refine ⟨?_, ?_, ?_, hB⟩
  · intro c
    simp only [mem_append, memk]
    constructor
    · rintro ((h1 | h1) | h1)
      · exact Or.inl ⟨Or.inl h1, fun h2 => hABC c h1 c (mem_append.mpr (Or.inl h2)) rfl⟩
      · exact Or.inr h1
      · exact Or.inl ⟨Or.inr (Or.inr h1), fun h2 => hBC c h2 c h1 rfl⟩
    · rintro (⟨h1 | h1 | h1, h2⟩ | h1)
      · exact Or.inl (Or.inl h1)
      · exact (h2 h1).elim
      · exact Or.inr h1
      · exact Or.inl (Or.inr h1)
  · intro c hc; exact (memk c).mpr (Or.inr (Or.inl hc))
  · rw [nodup_append, nodup_append]
    refine ⟨⟨hA, hnews, ?_⟩, hC, ?_⟩
    · intro x hx y hy hxy
      subst hxy
      exact hdisj x hy ((memk x).mpr (Or.inl hx))
    · intro x hx y hy hxy
      subst hxy
      rcases mem_append.mp hx with h1 | h1
      · exact hABC x h1 x (mem_append.mpr (Or.inr hy)) rfl
      · exact hdisj x h1 ((memk x).mpr (Or.inr (Or.inr hy)))

/-! ### every operation is a `Change` -/

theorem bump_zero (h : Heap) : h.bump 0 = h := rfl

/-- Replacing the whole value of an attribute by fresh objects. -/
theorem Change.replaceAll {h : Heap} (ht : TreeShaped h) {o : Nat} (ho : o < h.next) (x : Obj) (n : Nat)
    (a : Attr) (news : List Nat)
    (hother : ∀ a', a' ≠ a → x.targets a' = (h.obj o).targets a')
    (hx : x.targets a = news)
    (hnews : ∀ c ∈ news, h.next ≤ c ∧ c < h.next + n) (hnnd : news.Nodup)
    (hkeys : (x.byname.map (·.1)).Nodup) :
    Change h ((h.setObj o x).bump n) o a ((h.obj o).targets a) news := by
  refine Change.ofSet ht ho x n a _ news hother ?_ (fun _ hc => hc) hnews (hx ▸ hnnd) ?_ hnnd hkeys
  · intro c; rw [hx]
    constructor
    · exact Or.inr
    · rintro (⟨h1, h2⟩ | h1); exact (h2 h1).elim; exact h1
  · rw [← targets_eq]; exact ht.nodup _ _

/-- What `mutate` returns. -/
inductive MutKind (h : Heap) (m : Mut) : Prop
  | final (f : Final) (ho : m.o < h.next) (hh : m.h' = h) (htr : m.trait = .final f)
      (hs : m.script = []) (hf : m.fires = true)
  | change (a : Attr) (htr : m.trait = .link a ∨ (m.trait = .items a ∧ isContainer a = true))
      (hc : Change h m.h' m.o a (scUnregs m.script) (scRegs m.script))
      -- no notification ⇒ nothing the name can see has changed
      (hquiet : m.fires = false → ∀ p a' c, c ∈ targets m.h' a' p ↔ c ∈ targets h a' p)
      -- the handler either registers fresh objects only, or unregisters everything removed
      -- before it registers anything
      (hshape : (∀ c ∈ scRegs m.script, h.next ≤ c) ∨
        m.script = unregAll (scUnregs m.script) ++ regAll (scRegs m.script))

theorem MutKind.mk_change {h : Heap} {m : Mut} (ht : TreeShaped h) (a : Attr)
    (htr : m.trait = .link a ∨ (m.trait = .items a ∧ isContainer a = true))
    (hc : Change h m.h' m.o a (scUnregs m.script) (scRegs m.script))
    (hquiet : m.fires = false → scUnregs m.script = [] ∧ scRegs m.script = [])
    (hshape : (∀ c ∈ scRegs m.script, h.next ≤ c) ∨
        m.script = unregAll (scUnregs m.script) ++ regAll (scRegs m.script)) : MutKind h m := by
  refine .change a htr hc ?_ hshape
  intro hf p a' c
  obtain ⟨e1, e2⟩ := hquiet hf
  have hc' := hc
  rw [e1, e2] at hc'
  rw [hc'.mem_targets ht]; simp

theorem mem_permute {p : Nat} {l : List Nat} {c : Nat} : c ∈ permute p l ↔ c ∈ l := by
  unfold permute
  split
  · rfl
  · simp
  · conv => rhs; rw [← take_append_drop 1 l]
    simp only [mem_append]; exact Or.comm

theorem nodup_permute {p : Nat} {l : List Nat} (hl : l.Nodup) : (permute p l).Nodup := by
  unfold permute
  split
  · exact hl
  · exact (reverse_perm l).nodup_iff.mpr hl
  · rw [perm_append_comm.nodup_iff, take_append_drop]; exact hl

theorem isEmpty_and_false {α β} {l₁ : List α} {l₂ : List β}
    (hf : (!(l₁.isEmpty && l₂.isEmpty)) = false) : l₁ = [] ∧ l₂ = [] := by
  cases l₁ <;> cases l₂ <;> simp_all

theorem mutate_spec {h : Heap} (ht : TreeShaped h) {op : Op} {m : Mut}
    (hm : mutate h op = some m) : MutKind h m := by
  cases op with
  | setChild o fresh =>
    simp only [mutate] at hm
    split at hm
    · rename_i ho
      cases hm
      refine MutKind.mk_change ht .child (Or.inl rfl) ?_ ?_ (Or.inr (by simp))
      · simp only [scUnregs_append, scUnregs_unregAll, scUnregs_regAll, append_nil, scRegs_append,
          scRegs_unregAll, scRegs_regAll, nil_append]
        rw [targets_eq]
        refine Change.replaceAll ht ho _ _ .child _ ?_ ?_ ?_ ?_ (ht.keys o)
        · intro a' ha'; cases a' <;> first | exact absurd rfl ha' | rfl
        · cases fresh <;> simp [Obj.targets]
        · cases fresh <;> simp
        · cases fresh <;> simp
      · intro hf
        simpa using isEmpty_and_false hf
    · cases hm
  | setKids o n =>
    simp only [mutate] at hm
    split at hm
    · rename_i ho
      cases hm
      refine MutKind.mk_change ht .kids (Or.inl rfl) ?_ ?_ (Or.inr (by simp))
      · simp only [scUnregs_append, scUnregs_unregAll, scUnregs_regAll, append_nil, scRegs_append,
          scRegs_unregAll, scRegs_regAll, nil_append]
        rw [targets_eq]
        refine Change.replaceAll ht ho _ _ .kids _ ?_ rfl ?_ (freshIds_nodup _ _) (ht.keys o)
        · intro a' ha'; cases a' <;> first | exact absurd rfl ha' | rfl
        · intro c hc; exact mem_freshIds.mp hc
      · intro hf
        simpa using isEmpty_and_false hf
    · cases hm
  | splice o i j n =>
    simp only [mutate] at hm
    split at hm
    · rename_i hg
      obtain ⟨ho, hij, hj⟩ := hg
      cases hm
      have hkn : (h.obj o).kids.Nodup := ht.nodup o .kids
      have hdisj : ∀ c ∈ freshIds h n, c ∉ (h.obj o).kids := by
        intro c hc hck
        have := ht.bound o .kids c hck
        have := (mem_freshIds.mp hc).1
        omega
      obtain ⟨f1, f2, f3, f4⟩ := splice_facts hkn hij (freshIds_nodup h n) hdisj
      refine MutKind.mk_change ht .kids (Or.inr ⟨rfl, rfl⟩) ?_ ?_ (Or.inr (by simp))
      · simp only [scUnregs_append, scUnregs_unregAll, scUnregs_regAll, append_nil, scRegs_append,
          scRegs_unregAll, scRegs_regAll, nil_append]
        refine Change.ofSet ht ho _ n .kids _ _ ?_ f1 f2 (fun c hc => mem_freshIds.mp hc) f3 f4
          (freshIds_nodup _ _) (ht.keys o)
        intro a' ha'; cases a' <;> first | exact absurd rfl ha' | rfl
      · intro hf
        simpa using isEmpty_and_false hf
    · cases hm
  | setDict o keys =>
    simp only [mutate] at hm
    split at hm
    · rename_i ho
      cases hm
      have hlen : (dedupKeys keys).length = (freshIds h (dedupKeys keys).length).length := by
        rw [freshIds_length]
      refine MutKind.mk_change ht .byname (Or.inl rfl) ?_ ?_ (Or.inr (by simp))
      · simp only [scUnregs_append, scUnregs_unregAll, scUnregs_regAll, append_nil, scRegs_append,
          scRegs_unregAll, scRegs_regAll, nil_append]
        rw [targets_eq]
        refine Change.replaceAll ht ho _ _ .byname _ ?_ ?_ ?_ (freshIds_nodup _ _) ?_
        · intro a' ha'; cases a' <;> first | exact absurd rfl ha' | rfl
        · show map (·.2) ((dedupKeys keys).zip _) = _
          exact map_snd_zip (by omega)
        · intro c hc; exact mem_freshIds.mp hc
        · show (map (·.1) ((dedupKeys keys).zip _)).Nodup
          have : map (·.1) ((dedupKeys keys).zip (freshIds h (dedupKeys keys).length)) = dedupKeys keys :=
            map_fst_zip (by omega)
          rw [this]; exact dedupKeys_nodup _
      · intro hf
        simpa using isEmpty_and_false hf
    · cases hm
  | dictSet o key =>
    simp only [mutate] at hm
    split at hm
    · rename_i ho
      have hfresh : h.next ∉ (h.obj o).byname.map (·.2) := by
        intro hc
        have := ht.bound o .byname _ hc
        omega
      split at hm
      · rename_i k' old hf
        cases hm
        have hmem : (k', old) ∈ (h.obj o).byname := mem_of_find?_eq_some hf
        have hkey : k' = key := by simpa using find?_some hf
        subst hkey
        obtain ⟨r1, r2, r3⟩ := assoc_replace (ht.keys o) (ht.nodup o .byname) hmem hfresh
        refine MutKind.mk_change ht .byname (Or.inr ⟨rfl, rfl⟩) ?_ (by simp)
          (Or.inr (by simp [scUnregs, scRegs, unregAll, regAll]))
        simp only [scUnregs, scRegs]
        have hk' : (map (·.1) (map (fun e : Nat × Nat => if e.1 = k' then (k', h.next) else e)
            (h.obj o).byname)).Nodup := by rw [r1]; exact ht.keys o
        refine Change.ofSet ht ho _ 1 .byname _ _ ?_ ?_ ?_ ?_ r2 (by simp) (by simp) hk'
        · intro a' ha'; cases a' <;> first | exact absurd rfl ha' | rfl
        · intro c
          have h3 := r3 c
          simpa [Obj.targets] using h3
        · intro c hc
          simp only [mem_singleton] at hc; subst hc
          exact mem_map.mpr ⟨_, hmem, rfl⟩
        · intro c hc
          simp only [mem_singleton] at hc; subst hc; omega
      · rename_i hf
        cases hm
        have hnone := find?_eq_none.mp hf
        refine MutKind.mk_change ht .byname (Or.inr ⟨rfl, rfl⟩) ?_ (by simp)
          (Or.inr (by simp [scUnregs, scRegs, unregAll, regAll]))
        simp only [scUnregs, scRegs]
        refine Change.ofSet ht ho _ 1 .byname _ _ ?_ ?_ (by simp) ?_ ?_ (by simp) (by simp) ?_
        · intro a' ha'; cases a' <;> first | exact absurd rfl ha' | rfl
        · intro c
          simp [Obj.targets]
        · intro c hc
          simp only [mem_singleton] at hc; subst hc; omega
        · show (map (·.2) ((h.obj o).byname ++ [(key, h.next)])).Nodup
          rw [map_append, nodup_append]
          refine ⟨ht.nodup o .byname, by simp, ?_⟩
          intro x hx y hy hxy
          simp at hy; subst hy; subst hxy
          exact hfresh hx
        · show (map (·.1) ((h.obj o).byname ++ [(key, h.next)])).Nodup
          rw [map_append, nodup_append]
          refine ⟨ht.keys o, by simp, ?_⟩
          intro x hx y hy hxy
          simp at hy; subst hy; subst hxy
          obtain ⟨e, he, rfl⟩ := mem_map.mp hx
          exact hnone e he (by simp)
    · cases hm
  | dictUpdate o keys =>
    simp only [mutate] at hm
    split at hm
    · rename_i ho
      cases hm
      have hlen : (dedupKeys keys).length = (freshIds h (dedupKeys keys).length).length := by
        rw [freshIds_length]
      have hkeys : map (·.1) ((dedupKeys keys).zip (freshIds h (dedupKeys keys).length)) = dedupKeys keys :=
        map_fst_zip (by omega)
      have hvals : map (·.2) ((dedupKeys keys).zip (freshIds h (dedupKeys keys).length)) =
          freshIds h (dedupKeys keys).length := map_snd_zip (by omega)
      obtain ⟨u1, u2, u3, u4, u5, u6, u7⟩ := dictUpd_spec
        ((dedupKeys keys).zip (freshIds h (dedupKeys keys).length)) (h.obj o).byname
        (ht.keys o) (ht.nodup o .byname) (by rw [hkeys]; exact dedupKeys_nodup _)
        (by rw [hvals]; exact freshIds_nodup _ _)
        (by
          intro v hv hin
          rw [hvals] at hv
          have := ht.bound o .byname v hin
          have := (mem_freshIds.mp hv).1
          omega)
      refine MutKind.mk_change ht .byname (Or.inr ⟨rfl, rfl⟩) ?_ ?_ (Or.inl ?_)
      rotate_left 2
      · intro c hc
        simp only [scRegs_append, scRegs_regAll, scRegs_changed] at hc
        have := (u6 c).mp (mem_append.mp hc)
        rw [hvals] at this
        exact (mem_freshIds.mp this).1
      · simp only [scUnregs_append, scUnregs_regAll, scUnregs_changed, nil_append, scRegs_append,
          scRegs_regAll, scRegs_changed]
        refine Change.ofSet ht ho _ _ .byname _ _ ?_ ?_ ?_ ?_ u2 u5 u7 u1
        · intro a' ha'; cases a' <;> first | exact absurd rfl ha' | rfl
        · intro c
          have := u3 c
          simpa [Obj.targets, or_assoc] using this
        · intro c hc
          obtain ⟨key, _, hkc⟩ := u4 c hc
          exact mem_map.mpr ⟨_, hkc, rfl⟩
        · intro c hc
          have := (u6 c).mp (mem_append.mp hc)
          rw [hvals] at this
          exact mem_freshIds.mp this
      · intro hf
        have hk : dedupKeys keys = [] := by
          cases hd : dedupKeys keys with
          | nil => rfl
          | cons a l => simp [hd] at hf
        simp [hk, dictUpd, regAll, scUnregs, scRegs]
    · cases hm
  | dictDel o key =>
    simp only [mutate] at hm
    split at hm
    · rename_i ho
      split at hm
      · rename_i k' old hf
        cases hm
        obtain ⟨d1, d2, d3, d4⟩ := assoc_del (ht.keys o) (ht.nodup o .byname) hf
        refine MutKind.mk_change ht .byname (Or.inr ⟨rfl, rfl⟩) ?_ (by simp)
          (Or.inr (by simp [scUnregs, scRegs, unregAll, regAll]))
        simp only [scUnregs, scRegs]
        rw [← bump_zero (h.setObj o _)]
        refine Change.ofSet ht ho _ 0 .byname _ _ ?_ ?_ ?_ (by simp) d3 (by simp) (by simp) d4
        · intro a' ha'; cases a' <;> first | exact absurd rfl ha' | rfl
        · intro c
          have h1 := d1 c
          simpa [Obj.targets] using h1
        · intro c hc
          simp only [mem_singleton] at hc; subst hc; exact d2
      · cases hm
    · cases hm
  | dictClear o =>
    simp only [mutate] at hm
    split at hm
    · rename_i ho
      cases hm
      refine MutKind.mk_change ht .byname (Or.inr ⟨rfl, rfl⟩) ?_ ?_
        (Or.inr (by simp [regAll]))
      · simp only [scUnregs_unregAll, scRegs_unregAll]
        rw [targets_eq, ← bump_zero (h.setObj o _)]
        refine Change.replaceAll ht ho _ 0 .byname [] ?_ rfl (by simp) (by simp) (by simp)
        intro a' ha'; cases a' <;> first | exact absurd rfl ha' | rfl
      · intro hf
        have : targets h .byname o = [] := by
          cases hT : targets h .byname o with
          | nil => rfl
          | cons a l => simp [hT] at hf
        simp [this]
    · cases hm
  | rearrange o d p n inplace =>
    simp only [mutate] at hm
    split at hm
    · rename_i ho
      cases hm
      have hkn : (h.obj o).kids.Nodup := ht.nodup o .kids
      have hsub : ∀ c, c ∈ permute p ((h.obj o).kids.drop d) → c ∈ (h.obj o).kids :=
        fun c hc => mem_of_mem_drop (mem_permute.mp hc)
      have hpn : (permute p ((h.obj o).kids.drop d)).Nodup :=
        nodup_permute ((drop_sublist d _).nodup hkn)
      have hnd : (permute p ((h.obj o).kids.drop d) ++ freshIds h n).Nodup := by
        rw [nodup_append]
        refine ⟨hpn, freshIds_nodup _ _, ?_⟩
        intro x hx y hy hxy
        subst hxy
        have := ht.bound o .kids x (hsub x hx)
        have := (mem_freshIds.mp hy).1
        omega
      refine .change .kids (by cases inplace <;> simp [isContainer]) ?_ ?_ (Or.inr (by simp))
      · simp only [scUnregs_append, scUnregs_unregAll, scUnregs_regAll, append_nil, scRegs_append,
          scRegs_unregAll, scRegs_regAll, nil_append]
        refine Change.ofSet' ht ho _ n .kids _ _ ?_ ?_ (fun _ hc => hc) ?_ hnd hkn hnd (ht.keys o)
        · intro a' ha'; cases a' <;> first | exact absurd rfl ha' | rfl
        · intro c
          simp only [Obj.targets]
          constructor
          · exact Or.inr
          · rintro (⟨h1, h2⟩ | h1); exact (h2 h1).elim; exact h1
        · intro c hc
          rcases mem_append.mp hc with h1 | h1
          · exact Or.inr (hsub c h1)
          · exact Or.inl (mem_freshIds.mp h1)
      · intro hf p' a' c
        have hsame : permute p ((h.obj o).kids.drop d) ++ freshIds h n = (h.obj o).kids := by
          cases inplace
          · have : (h.obj o).kids = permute p ((h.obj o).kids.drop d) ++ freshIds h n := by simpa using hf
            exact this.symm
          · have : (h.obj o).kids = [] ∧ permute p ((h.obj o).kids.drop d) = [] ∧ freshIds h n = [] := by
              simpa using hf
            rw [this.2.1, this.2.2, this.1]; rfl
        by_cases hp : p' = o
        · subst hp
          rw [targets_set_self, targets_eq]
          cases a' <;> simp [Obj.targets, hsame]
        · rw [targets_set_ne _ _ _ _ _ hp]
    · cases hm
  | dictCarry o d =>
    simp only [mutate] at hm
    split at hm
    · rename_i ho
      cases hm
      have hsubl : ((h.obj o).byname.drop d).Sublist (h.obj o).byname := drop_sublist d _
      refine .change .byname (Or.inl rfl) ?_ ?_ (Or.inr (by simp))
      · simp only [scUnregs_append, scUnregs_unregAll, scUnregs_regAll, append_nil, scRegs_append,
          scRegs_unregAll, scRegs_regAll, nil_append]
        rw [← bump_zero (h.setObj o _)]
        refine Change.ofSet' ht ho _ 0 .byname _ _ ?_ ?_ (fun _ hc => hc) ?_ ?_ (ht.nodup o .byname) ?_ ?_
        · intro a' ha'; cases a' <;> first | exact absurd rfl ha' | rfl
        · intro c
          simp only [Obj.targets]
          constructor
          · exact Or.inr
          · rintro (⟨h1, h2⟩ | h1); exact (h2 h1).elim; exact h1
        · intro c hc
          refine Or.inr ?_
          obtain ⟨e, he, rfl⟩ := mem_map.mp hc
          exact mem_map.mpr ⟨e, mem_of_mem_drop (mem_reverse.mp he), rfl⟩
        · show (map (·.2) ((h.obj o).byname.drop d).reverse).Nodup
          rw [map_reverse, (reverse_perm _).nodup_iff]
          exact (hsubl.map _).nodup (ht.nodup o .byname)
        · rw [map_reverse, (reverse_perm _).nodup_iff]
          exact (hsubl.map _).nodup (ht.nodup o .byname)
        · show (map (·.1) ((h.obj o).byname.drop d).reverse).Nodup
          rw [map_reverse, (reverse_perm _).nodup_iff]
          exact (hsubl.map _).nodup (ht.keys o)
      · intro hf p' a' c
        have hd : (h.obj o).byname.drop d = (h.obj o).byname := by
          have h0 : ¬ (0 < min d (h.obj o).byname.length) := by simpa using hf
          rcases Nat.eq_zero_or_pos d with rfl | hdpos
          · rfl
          · have : (h.obj o).byname.length = 0 := by omega
            rw [length_eq_zero_iff.mp this]; simp
        by_cases hp : p' = o
        · subst hp
          rw [← bump_zero (h.setObj p' _), targets_set_self, targets_eq]
          cases a' <;> simp [Obj.targets, hd]
        · rw [← bump_zero (h.setObj o _), targets_set_ne _ _ _ _ _ hp]
    · cases hm
  | setGroup o n =>
    simp only [mutate] at hm
    split at hm
    · rename_i ho
      cases hm
      refine MutKind.mk_change ht .group (Or.inl rfl) ?_ ?_ (Or.inr (by simp))
      · simp only [scUnregs_append, scUnregs_unregAll, scUnregs_regAll, append_nil, scRegs_append,
          scRegs_unregAll, scRegs_regAll, nil_append]
        rw [targets_eq]
        refine Change.replaceAll ht ho _ _ .group _ ?_ rfl ?_ (freshIds_nodup _ _) (ht.keys o)
        · intro a' ha'; cases a' <;> first | exact absurd rfl ha' | rfl
        · intro c hc; exact mem_freshIds.mp hc
      · intro hf
        simpa using isEmpty_and_false hf
    · cases hm
  | gsplice o i j n =>
    simp only [mutate] at hm
    split at hm
    · rename_i hg
      obtain ⟨ho, hij, hj⟩ := hg
      cases hm
      have hkn : (h.obj o).group.Nodup := ht.nodup o .group
      have hdisj : ∀ c ∈ freshIds h n, c ∉ (h.obj o).group := by
        intro c hc hck
        have := ht.bound o .group c hck
        have := (mem_freshIds.mp hc).1
        omega
      obtain ⟨f1, f2, f3, f4⟩ := splice_facts hkn hij (freshIds_nodup h n) hdisj
      refine MutKind.mk_change ht .group (Or.inr ⟨rfl, rfl⟩) ?_ ?_ (Or.inr (by simp))
      · simp only [scUnregs_append, scUnregs_unregAll, scUnregs_regAll, append_nil, scRegs_append,
          scRegs_unregAll, scRegs_regAll, nil_append]
        refine Change.ofSet ht ho _ n .group _ _ ?_ f1 f2 (fun c hc => mem_freshIds.mp hc) f3 f4
          (freshIds_nodup _ _) (ht.keys o)
        intro a' ha'; cases a' <;> first | exact absurd rfl ha' | rfl
      · intro hf
        simpa using isEmpty_and_false hf
    · cases hm
  | stray n =>
    simp only [mutate] at hm
    cases hm
    refine MutKind.mk_change ht .child (Or.inl rfl) ?_ (fun _ => ⟨rfl, rfl⟩) (Or.inr rfl)
    refine Change.ofSet ht ht.pos (h.obj root) n .child [] [] (fun _ _ => rfl) ?_ (by simp) (by simp) ?_
      nodup_nil nodup_nil (ht.keys root)
    · intro c; simp [root]
    · rw [← targets_eq]; exact ht.nodup _ _
  | probe o f =>
    simp only [mutate] at hm
    split at hm
    · rename_i ho
      cases hm
      exact .final f ho rfl rfl rfl rfl
    · cases hm
  | reg => simp [mutate] at hm
  | unreg => simp [mutate] at hm

end TraitsVerif.Model.Legacy
