/-
The hand-written models of the `attr` cluster are the interpretation of the
translated C source (`Generated/AttrProg.lean`, language `Model/MiniC.lean`):
one lemma per function, by symbolic execution of the interpreter (`simp`) after
the case splits the model itself makes.
-/
import TraitsVerif.Generated.AttrProg
namespace TraitsVerif.Lemmas.AttrSource
open TraitsVerif TraitsVerif.Model.Attr TraitsVerif.Model.MiniC
open TraitsVerif.Generated

@[simp] theorem truthy_ite (p : Prop) [Decidable p] : truthy (.int (if p then 1 else 0)) = decide p := by
  by_cases h : p <;> simp [truthy, h]

@[simp] theorem truthy_band (a b : Nat) : truthy (.int ((a &&& b : Nat) : Int)) = testFlag a b := by
  simp only [truthy, testFlag, bne, ne_eq, Int.natCast_eq_zero]
  cases h : (a &&& b == 0) <;> simp_all

theorem band_eq_zero (a b : Nat) : (a &&& b = 0) = (testFlag a b = false) := by
  simp [testFlag]

theorem binop_eq (a b : Val) (ha : a ≠ .stuck) (hb : b ≠ .stuck) : binop .eq a b = .int (if a = b then 1 else 0) := by
  cases a <;> cases b <;> simp_all [binop, ofBool]
theorem binop_ne (a b : Val) (ha : a ≠ .stuck) (hb : b ≠ .stuck) : binop .ne a b = .int (if a ≠ b then 1 else 0) := by
  cases a <;> cases b <;> simp_all [binop, ofBool] <;> split <;> split <;> simp_all

@[simp] theorem asList_nlv (o : Option (List Notifier)) (loc : Loc) : asList (nlv o loc) = some o := by
  cases o <;> rfl
@[simp] theorem nlv_ne_stuck (o : Option (List Notifier)) (loc : Loc) : (nlv o loc = .stuck) = False := by
  cases o <;> simp [nlv]
@[simp] theorem hnV_nlv (a b : Option (List Notifier)) (l1 l2 : Loc) :
    hnV (nlv a l1) (nlv b l2) = .int (if hasNotifiers a b then 1 else 0) := by
  simp [hnV]
@[simp] theorem tn_mk (s : OSt) (a b c f g h) : OSt.tn (OSt.mk a b c s.cn s.it f g h) = s.tn := rfl

macro "mc_exec" "[" ts:Lean.Parser.Tactic.simpLemma,* "]" : tactic =>
  `(tactic| simp [call, exec, eval, evalArgs, bindArgs, setVar, ofValue, binop_eq, binop_ne, binop, truthy, ofBool, ofInt, ofPtr,
      band_eq_zero, getField, setField, getGlob, callPrim, callFPtr, retPtr, retInt, withS, failS, $ts,*])

/-- The macro `has_notifiers` is what the model's `hasNotifiers` computes. -/
theorem has_notifiers_is_source (C : IC) (s : OSt) (dn idn : Bool) (tn on : Option (List Notifier)) (l1 l2 : Loc) :
    call C AttrProg.has_notifiers [nlv tn l1, nlv on l2] s dn idn
      = (.int (if hasNotifiers tn on then 1 else 0), s, none) := by
  cases tn <;> cases on <;> mc_exec [AttrProg.has_notifiers, nlv, hasNotifiers] <;> split <;> simp_all

theorem setattr_event_is_source (C : IC) (value : Option Id) (s : OSt) (dn idn : Bool) :
    call C AttrProg.setattr_event [.trait, .trait, .self, .name, ofValue value] s dn idn
      = ofInt (setattrEvent C.E C.t value s) := by
  cases value with
  | none => mc_exec [AttrProg.setattr_event, setattrEvent]
  | some v =>
    unfold setattrEvent
    cases hv : C.t.validate with
    | none =>
      cases hn : hasNotifiers s.tn s.on
      · mc_exec [AttrProg.setattr_event, hv, hn]
      · rcases hc : callNotifiers C.E C.t s.tn s.on undef v s with ⟨_ | e, s'⟩ <;>
        mc_exec [AttrProg.setattr_event, hv, hn, hc]
    | some k =>
      rcases hr : C.E.validate k s.ctx.nval v with e | w
      · mc_exec [AttrProg.setattr_event, hv, runValidate, hr]
      · cases hn : hasNotifiers s.tn s.on
        · mc_exec [AttrProg.setattr_event, hv, runValidate, hr, hn]
        · rcases hc : callNotifiers C.E C.t s.tn s.on undef w
              { s with ctx := { s.ctx with nval := s.ctx.nval + 1 } } with ⟨_ | e, s'⟩ <;>
          mc_exec [AttrProg.setattr_event, hv, runValidate, hr, hn, hc]

theorem getattr_trait_is_source (C : IC) (s : OSt) (dn idn : Bool) :
    call C AttrProg.getattr_trait [.trait, .self, .name] s dn idn = ofPtr (getattrTrait C.E C.t s) := by
  unfold getattrTrait
  rcases hd : s.defaultValueFor C.E C.t with ⟨e | v, s1⟩
  · cases dn <;> mc_exec [AttrProg.getattr_trait, hd]
  · cases hp : C.t.post with
    | none =>
      cases hn : hasNotifiers s1.tn s1.on
      · cases dn <;> mc_exec [AttrProg.getattr_trait, hd, hp, postSetattr, hn]
      · rcases hc : callNotifiers C.E C.t s1.tn s1.on uninit v { s1 with slot := some v } with ⟨_ | e, s'⟩ <;>
        cases dn <;> mc_exec [AttrProg.getattr_trait, hd, hp, postSetattr, hn, hc]
    | some p =>
      rcases hpo : postSetattr C.E C.t v { s1 with slot := some v } with ⟨_ | e, s3⟩
      · cases hn : hasNotifiers s3.tn s3.on
        · cases dn <;> mc_exec [AttrProg.getattr_trait, hd, hp, hpo, hn]
        · rcases hc : callNotifiers C.E C.t s3.tn s3.on uninit v s3 with ⟨_ | e, s'⟩ <;>
          cases dn <;> mc_exec [AttrProg.getattr_trait, hd, hp, hpo, hn, hc]
      · cases dn <;> mc_exec [AttrProg.getattr_trait, hd, hp, hpo]

theorem warn_other (E : Env) (e : Exc) (h : e ≠ .attributeError) :
    warnOnAttributeError E (.error e) = .error e := by
  cases e <;> simp_all [warnOnAttributeError]

macro "dv_exec" "[" ts:Lean.Parser.Tactic.simpLemma,* "]" : tactic =>
  `(tactic| mc_exec [AttrProg.default_value_for, OSt.defaultValueFor, TraitsVerif.Model.Attr.defaultValueFor,
      CONSTANT_DEFAULT_VALUE, MISSING_DEFAULT_VALUE, OBJECT_DEFAULT_VALUE, LIST_COPY_DEFAULT_VALUE,
      DICT_COPY_DEFAULT_VALUE, TRAIT_LIST_OBJECT_DEFAULT_VALUE, TRAIT_DICT_OBJECT_DEFAULT_VALUE,
      CALLABLE_AND_ARGS_DEFAULT_VALUE, CALLABLE_DEFAULT_VALUE, TRAIT_SET_OBJECT_DEFAULT_VALUE,
      DISALLOW_DEFAULT_VALUE, ptrv, idOf, Ctx.copyOf, Ctx.newContainer, $ts,*])

theorem default_value_for_is_source (C : IC) (s : OSt) (dn idn : Bool)
    (hmax : C.t.dvt ≤ MAXIMUM_DEFAULT_VALUE_TYPE) :
    call C AttrProg.default_value_for [.trait, .self, .name] s dn idn = ofPtr (s.defaultValueFor C.E C.t) := by
  have h : C.t.dvt = 0 ∨ C.t.dvt = 1 ∨ C.t.dvt = 2 ∨ C.t.dvt = 3 ∨ C.t.dvt = 4 ∨ C.t.dvt = 5 ∨ C.t.dvt = 6
      ∨ C.t.dvt = 7 ∨ C.t.dvt = 8 ∨ C.t.dvt = 9 ∨ C.t.dvt = 10 := by
    simp only [MAXIMUM_DEFAULT_VALUE_TYPE] at hmax; omega
  rcases h with h | h | h | h | h | h | h | h | h | h | h
  · cases hdv : C.t.dv <;> dv_exec [h, hdv]
  · cases hdv : C.t.dv <;> dv_exec [h, hdv]
  · dv_exec [h]
  · cases hdv : C.t.dv <;> dv_exec [h, hdv]
  · cases hdv : C.t.dv <;> dv_exec [h, hdv]
  · cases hdv : C.t.dv <;> dv_exec [h, hdv]
  · cases hdv : C.t.dv <;> dv_exec [h, hdv]
  · rcases hf : callFactory C.E (C.t.dv.getD noneId) s.self s.name noneId s.ctx with ⟨e | v, c1⟩
    · by_cases he : e = .attributeError
      · subst he
        cases hw : C.E.warnError <;> cases hdv : C.t.dv <;> simp [hdv] at hf <;>
          dv_exec [h, hdv, hf, hw, warnOnAttributeError]
      · cases hdv : C.t.dv <;> simp [hdv] at hf <;> dv_exec [h, hdv, hf, warn_other, he]
    · cases hdv : C.t.dv <;> simp [hdv] at hf <;> dv_exec [h, hdv, hf, warnOnAttributeError]
  · rcases hf : callFactory C.E (C.t.dv.getD noneId) s.self s.name s.self s.ctx with ⟨e | v, c1⟩
    · by_cases he : e = .attributeError
      · subst he
        cases hw : C.E.warnError <;> cases hdv : C.t.dv <;> simp [hdv] at hf <;>
          dv_exec [h, hdv, hf, hw, warnOnAttributeError]
      · cases hdv : C.t.dv <;> simp [hdv] at hf <;> dv_exec [h, hdv, hf, warn_other, he]
    · cases hval : C.t.validate with
      | none =>
        cases hdv : C.t.dv <;> simp [hdv] at hf <;>
          dv_exec [h, hdv, hf, hval, validateDefault, warnOnAttributeError]
      | some k =>
        rcases hr : C.E.validate k c1.nval v with e | w
        · by_cases he : e = .attributeError
          · subst he
            cases hw : C.E.warnError <;> cases ho : testFlag C.t.flags TRAIT_SETATTR_ORIGINAL_VALUE <;>
            cases hdv : C.t.dv <;> simp [hdv] at hf <;>
              dv_exec [h, hdv, hf, hval, validateDefault, runValidate, hr, ho, hw, warnOnAttributeError]
          · cases ho : testFlag C.t.flags TRAIT_SETATTR_ORIGINAL_VALUE <;>
            cases hdv : C.t.dv <;> simp [hdv] at hf <;>
              dv_exec [h, hdv, hf, hval, validateDefault, runValidate, hr, ho, warn_other, he]
        · cases ho : testFlag C.t.flags TRAIT_SETATTR_ORIGINAL_VALUE <;>
          cases hdv : C.t.dv <;> simp [hdv] at hf <;>
            dv_exec [h, hdv, hf, hval, validateDefault, runValidate, hr, ho, warnOnAttributeError]
  · cases hdv : C.t.dv <;> dv_exec [h, hdv]
  · dv_exec [h]
end TraitsVerif.Lemmas.AttrSource
