/-
The tie between Model/Resolve.lean and the *source text* of the resolution code
(cluster `resolve`, C13): function environments for the translated programs
(Generated/ResolveC.lean, Generated/ResolvePy.lean), result conversions, and the
evaluation tactic used by the `…_is_source` theorems of Props/C13.lean.

Calls between translated functions are interpreted by running the callee's
generated program.  The call graph of the source is cyclic
(get_prefix_trait → get_trait(…, 0) → … and get_prefix_trait →
has_traits_setattro(obj, trait_added, name)); it is cut in two places:
  * `has_traits_setattro(obj, trait_added, name)` is the primitive
    `fireTraitAdded` (Model/ResL.lean `prim`);
  * the functions are stratified: `user4` interprets `get_trait` with
    `get_prefix_trait` not yet available (enough for `instance = 0`, which
    returns before that call), `user6` adds `get_prefix_trait`, `user7` the full
    `get_trait` and the entry points.
-/
import TraitsVerif.Lemmas.ResolvePolicy
import TraitsVerif.Generated.ResolveC
import TraitsVerif.Generated.ResolvePy
namespace TraitsVerif.Model.ResL
open TraitsVerif TraitsVerif.Model.Resolve TraitsVerif.Generated

abbrev User := Fn → List V → St → St × V
def stuckUser : User := fun _ _ st => (st, .stuck)

def user0 (E : Env) : User
  | .invalid_attribute_error, a, st => runFun ⟨E, stuckUser⟩ ResolveC.invalid_attribute_error a st
  | .unknown_attribute_error, a, st => runFun ⟨E, stuckUser⟩ ResolveC.unknown_attribute_error a st
  | _, _, st => (st, .stuck)
def user1 (E : Env) : User
  | .set_readonly_error, a, st => runFun ⟨E, user0 E⟩ ResolveC.set_readonly_error a st
  | .delete_readonly_error, a, st => runFun ⟨E, user0 E⟩ ResolveC.delete_readonly_error a st
  | .set_disallow_error, a, st => runFun ⟨E, user0 E⟩ ResolveC.set_disallow_error a st
  | f, a, st => user0 E f a st
def user2 (E : Env) : User
  | .setattr_python, a, st => runFun ⟨E, user1 E⟩ ResolveC.setattr_python a st
  | .setattr_disallow, a, st => runFun ⟨E, user1 E⟩ ResolveC.setattr_disallow a st
  | .setattr_constant, a, st => runFun ⟨E, user1 E⟩ ResolveC.setattr_constant a st
  | .getattr_event, a, st => runFun ⟨E, user1 E⟩ ResolveC.getattr_event a st
  | .getattr_disallow, a, st => runFun ⟨E, user1 E⟩ ResolveC.getattr_disallow a st
  | .getattr_constant, a, st => runFun ⟨E, user1 E⟩ ResolveC.getattr_constant a st
  | f, a, st => user1 E f a st
def user3 (E : Env) : User
  | .setattr_readonly, a, st => runFun ⟨E, user2 E⟩ ResolveC.setattr_readonly a st
  | f, a, st => user2 E f a st
/-- `get_trait` / `self._trait` while `get_prefix_trait` is not yet available (`instance = 0`). -/
def user4 (E : Env) : User
  | .get_trait, a, st => runFun ⟨E, user3 E⟩ ResolveC.get_trait a st
  | .m_trait, a, st => runFun ⟨E, user3 E⟩ ResolveC.get_trait a st
  | f, a, st => user3 E f a st
def user5 (E : Env) : User
  | .m_prefix_trait, a, st => runFun ⟨E, user4 E⟩ ResolvePy.prefix_trait a st
  | f, a, st => user4 E f a st
def user6 (E : Env) : User
  | .get_prefix_trait, a, st => runFun ⟨E, user5 E⟩ ResolveC.get_prefix_trait a st
  | f, a, st => user5 E f a st
def user7 (E : Env) : User
  | .get_trait, a, st => runFun ⟨E, user6 E⟩ ResolveC.get_trait a st
  | .m_trait, a, st => runFun ⟨E, user6 E⟩ ResolveC.get_trait a st
  | .has_traits_setattro, a, st => runFun ⟨E, user6 E⟩ ResolveC.has_traits_setattro a st
  | .has_traits_getattro, a, st => runFun ⟨E, user6 E⟩ ResolveC.has_traits_getattro a st
  | .m_add_trait, a, st => runFun ⟨E, user6 E⟩ ResolvePy.add_trait a st
  | .m_remove_trait, a, st => runFun ⟨E, user6 E⟩ ResolvePy.remove_trait a st
  | f, a, st => user6 E f a st

/-- The state a top-level call starts from.  `nI` / `nO`: the C pointers
`obj->itrait_dict` / `obj->obj_dict` are NULL (only possible while empty). -/
def St.init (w : World) (oi : Nat) (o : Obj) (c : Cls) (nI nO : Bool) : St :=
  { w := w, oi := oi, o := o, c := c, nullI := nI, nullO := nO }

def vOpt : Option Val → V
  | some v => .val v
  | none => .null

/-! ### Reading results back into the model's types (`none` = the interpreter was stuck) -/

/-- an `int`-returning setter, as a new `__dict__` -/
def asDict (r : St × V) : Option (Except Exc (Map Val)) :=
  match r.2 with
  | .int 0 => some (.ok r.1.o.dict)
  | .int (-1) => r.1.err.map .error
  | _ => none

/-- a getter (`trait->getattr`), as value and new `__dict__` -/
def asValDict (r : St × V) : Option (Except Exc (Val × Map Val)) :=
  match r.2 with
  | .val v => some (.ok (v, r.1.o.dict))
  | .none => some (.ok (.none, r.1.o.dict))
  | .null => r.1.err.map .error
  | _ => none

def asTrait (r : St × V) : Option (Except Exc Trait) :=
  match r.2 with
  | .trait t => some (.ok t)
  | .null => r.1.err.map .error
  | _ => none

def asWorldTrait (r : St × V) : Option (World × Except Exc Trait) :=
  match r.2 with
  | .trait t => some (r.1.w, .ok t)
  | .null => r.1.err.map (fun e => (r.1.w, .error e))
  | _ => none

/-- `has_traits_setattro` -/
def asSet (r : St × V) : Option (World × Except Exc Out) :=
  match r.2 with
  | .int 0 => some (r.1.w, .ok .done)
  | .int (-1) => r.1.err.map (fun e => (r.1.w, .error e))
  | _ => none

/-- `has_traits_getattro` -/
def asGet (r : St × V) : Option (World × Except Exc Out) :=
  match r.2 with
  | .val v => some (r.1.w, .ok (.val v))
  | .none => some (r.1.w, .ok (.val .none))
  | .null => r.1.err.map (fun e => (r.1.w, .error e))
  | _ => none

/-- `get_trait` / `_trait` / `trait` / `base_trait` -/
def asGetTrait (r : St × V) : Option (World × Except Exc Out) :=
  match r.2 with
  | .trait t => some (r.1.w, .ok (.trait (some t)))
  | .none => some (r.1.w, .ok (.trait none))
  | .null => r.1.err.map (fun e => (r.1.w, .error e))
  | _ => none

/-- a Python method returning None / a bool -/
def asPy (r : St × V) : Option (World × Except Exc Out) :=
  match r.2 with
  | .none => some (r.1.w, .ok .done)
  | .bool b => some (r.1.w, .ok (.bool b))
  | .null => r.1.err.map (fun e => (r.1.w, .error e))
  | _ => none

/-! ### Evaluation lemmas, restricted to *concrete* states

`simp` also rewrites under binders (the alternatives of a `match` whose
discriminant has not been reduced yet); with the plain equation lemmas of
`execs` / `exec` / `evalE` it would unfold the rest of a literal program on a
symbolic state there, and the terms explode.  The lemmas below are the same
equations, but their left-hand sides only match a state that is a constructor
application, i.e. one that has actually been computed. -/

section mk
variable (Γ : Ctx) (py : Bool) (w : World) (oi : Nat) (o : Obj) (c : Cls) (nI nO : Bool) (fr : Option DictId)
  (er : Option Exc) (env : List (Var × V))
local notation "S" => St.mk w oi o c nI nO fr er env

theorem evalE_lit (v : V) : evalE Γ (.lit v) S = (S, v) := by rw [evalE]
theorem evalE_var (x : Var) : evalE Γ (.var x) S = (S, St.get S x) := by rw [evalE]
theorem evalE_fld (e : Expr) (f : Fld) :
    evalE Γ (.fld e f) S = match evalE Γ e S with | (st', v) => (st', fldGet st' v f) := by rw [evalE]
theorem evalE_asg (x : Var) (e : Expr) :
    evalE Γ (.asg x e) S = match evalE Γ e S with | (st', v) => (st'.set x v, v) := by rw [evalE]
theorem evalE_asgf (e : Expr) (f : Fld) (rhs : Expr) :
    evalE Γ (.asgf e f rhs) S =
      match evalE Γ rhs S with
      | (st', r) => match evalE Γ e st' with | (st'', v) => fldSet st'' v f r := by rw [evalE]
theorem evalE_and (a b : Expr) :
    evalE Γ (.and a b) S = match evalE Γ a S with | (st', v) => if truthy v then evalE Γ b st' else (st', v) := by
  rw [evalE]
theorem evalE_or (a b : Expr) :
    evalE Γ (.or a b) S = match evalE Γ a S with | (st', v) => if truthy v then (st', v) else evalE Γ b st' := by
  rw [evalE]
theorem evalE_not (a : Expr) :
    evalE Γ (.not a) S = match evalE Γ a S with | (st', v) => (st', .bool (!truthy v)) := by rw [evalE]
theorem evalE_call (f : Fn) (args : List Expr) :
    evalE Γ (.call f args) S = match evalArgs Γ args S with | (st', vs) => prim Γ f vs st' := by rw [evalE]
theorem evalArgs_nil : evalArgs Γ [] S = (S, []) := by rw [evalArgs]
theorem evalArgs_cons (e : Expr) (es : List Expr) :
    evalArgs Γ (e :: es) S =
      match evalE Γ e S with
      | (st', v) => match evalArgs Γ es st' with | (st'', vs) => (st'', v :: vs) := by rw [evalArgs]

theorem exec_expr (e : Expr) :
    exec Γ py (.expr e) S =
      match evalE Γ e S with
      | (st', v) => if py && v == .null then (st', .ret .null) else (st', .next) := by rw [exec]
theorem exec_ite (cnd : Expr) (t e : List Stmt) :
    exec Γ py (.ite cnd t e) S =
      match evalE Γ cnd S with
      | (st', v) =>
        if py && v == .null then (st', .ret .null)
        else if truthy v then execs Γ py t st' else execs Γ py e st' := by rw [exec]
theorem exec_ret (e : Expr) : exec Γ py (.ret e) S = match evalE Γ e S with | (st', v) => (st', .ret v) := by
  rw [exec]
theorem exec_raise (x : Exc) : exec Γ py (.raise x) S = ({ S with err := some x }, .ret .null) := by rw [exec]
theorem exec_forIn (x : Var) (it : Expr) (body : List Stmt) :
    exec Γ py (.forIn x it body) S =
      match evalE Γ it S with
      | (st', .names l) => forLoop (fun s => execs Γ py body s) x l st'
      | (st', _) => (st', .ret .stuck) := by rw [exec]; rfl
theorem exec_ghost (n : Nat) : exec Γ py (.ghost n) S = (S, .next) := by rw [exec]
theorem exec_opaque (t : String) : exec Γ py (.opaque t) S = (S, .ret .stuck) := by rw [exec]
theorem execs_nil : execs Γ py [] S = (S, .next) := by rw [execs]
theorem execs_cons (s : Stmt) (ss : List Stmt) :
    execs Γ py (s :: ss) S =
      match exec Γ py s S with
      | (st', .next) => execs Γ py ss st'
      | r => r := by rw [execs]; rfl
theorem runFun_mk (fn : Fun) (args : List V) :
    runFun Γ fn args S =
      match execs Γ fn.py fn.body { S with env := bind fn.params args } with
      | (st', .ret v) => ({ st' with env := env }, v)
      | (st', .next) => ({ st' with env := env }, if fn.py then .none else .ghost) := by rw [runFun]; rfl
end mk

/-- Symbolic evaluation of the interpreter on a literal program (the state must
have been destructured: `obtain ⟨w, oi, o, c, nI, nO, fr, er, env⟩ := st`). -/
macro "resl_eval1" "[" ls:Lean.Parser.Tactic.simpLemma,* "]" : tactic => `(tactic| simp only [runFun_mk, execs_nil,
  execs_cons, exec_expr, exec_ite, exec_ret, exec_raise, exec_forIn, exec_ghost, exec_opaque,
  evalE_lit, evalE_var, evalE_fld, evalE_asg, evalE_asgf, evalE_and, evalE_or, evalE_not, evalE_call,
  evalArgs_nil, evalArgs_cons, prim, bind, St.get, St.set, envGet, St.init,
  truthy, fail, failInt, fldGet, fldSet, dictGet, dictSet, dictDel, St.resolveDict, cmpInt, vOpt,
  St.putDict, St.putObj, St.putITraits, St.putCTraits, St.fire,
  Bool.and_true, Bool.true_and, Bool.false_and, Bool.and_false, Bool.not_true, Bool.not_false,
  beq_self_eq_true, bne_self_eq_false, ite_true, ite_false, reduceCtorEq, ↓reduceIte, Bool.false_eq_true,
  beq_iff_eq, bne_iff_ne, ne_eq, not_true_eq_false, not_false_eq_true, decide_true, decide_false,
  Int.reduceNeg, Int.reduceLT, Int.reduceLE, Int.reduceGE, Int.reduceGT, Int.reduceEq, Int.reduceNe,
  V.int.injEq, V.bool.injEq, V.dict.injEq, V.exc.injEq, Option.some.injEq,
  Map.get_set_same, Map.get_erase_same, List.set_set, $ls,*])

/-- `resl_eval1` until nothing changes (after a `match` has been reduced `simp`
does not always revisit the instantiated alternative in the same pass). -/
macro "resl_eval" "[" ls:Lean.Parser.Tactic.simpLemma,* "]" : tactic =>
  `(tactic| (resl_eval1 [$ls,*] <;> (repeat (resl_eval1 [$ls,*]))))

/-! ### Policies: `setattr_python`, `setattr_disallow`, `setattr_readonly`, `setattr_constant`,
`getattr_event`, `getattr_disallow`, `getattr_constant` -/

set_option maxHeartbeats 1000000 in
theorem setattr_python_src (E : Env) (st : St) (t t' : Trait) (k : Name) (value : Option Val)
    (hO : st.nullO = true → st.o.dict = []) :
    asDict (user2 E .setattr_python [.trait t, .trait t', .obj, .name k, vOpt value] st)
      = some (setattrPython st.o.dict k value) := by
  obtain ⟨w, oi, o, c, nI, nO, fr, er, env⟩ := st
  cases value with
  | some v =>
    cases hn : nO with
    | true =>
      have hd : o.dict = [] := hO hn
      resl_eval [user3, user2, user1, user0, ResolveC.setattr_python, hn]
      simp [asDict, setattrPython, hd]
    | false =>
      resl_eval [user3, user2, user1, user0, ResolveC.setattr_python, hn]
      simp [asDict, setattrPython]
  | none =>
    cases hn : nO with
    | true =>
      have hd : o.dict = [] := hO hn
      resl_eval [user3, user2, user1, user0, ResolveC.setattr_python, ResolveC.unknown_attribute_error, hn]
      simp [asDict, setattrPython, hd]
    | false =>
      cases hd : o.dict.get k <;>
        resl_eval [user3, user2, user1, user0, ResolveC.setattr_python, ResolveC.unknown_attribute_error, hn, hd] <;>
        simp [asDict, setattrPython, hd]

set_option maxHeartbeats 1000000 in
theorem setattr_disallow_src (E : Env) (st : St) (t t' : Trait) (k : Name) (value : Option Val) :
    asDict (user2 E .setattr_disallow [.trait t, .trait t', .obj, .name k, vOpt value] st)
      = some (.error .traitError) := by
  obtain ⟨w, oi, o, c, nI, nO, fr, er, env⟩ := st
  resl_eval [user3, user2, user1, user0, ResolveC.setattr_disallow, ResolveC.set_disallow_error]
  simp [asDict]

set_option maxHeartbeats 1000000 in
theorem setattr_constant_src (E : Env) (st : St) (t t' : Trait) (k : Name) (value : Option Val) :
    asDict (user2 E .setattr_constant [.trait t, .trait t', .obj, .name k, vOpt value] st)
      = some (.error .traitError) := by
  obtain ⟨w, oi, o, c, nI, nO, fr, er, env⟩ := st
  resl_eval [user3, user2, user1, user0, ResolveC.setattr_constant]
  simp [asDict]

set_option maxHeartbeats 2000000 in
theorem setattr_readonly_src (E : Env) (st : St) (t t' : Trait) (k : Name) (value : Option Val)
    (hk : t'.kind = .readonly) (hO : st.nullO = true → st.o.dict = []) :
    asDict (user3 E .setattr_readonly [.trait t, .trait t', .obj, .name k, vOpt value] st)
      = some (setattrKind E t' st.o.dict k value) := by
  obtain ⟨w, oi, o, c, nI, nO, fr, er, env⟩ := st
  cases value with
  | none =>
    resl_eval [user3, user2, user1, user0, ResolveC.setattr_readonly, ResolveC.delete_readonly_error]
    simp [asDict, setattrKind, hk]
  | some v =>
    by_cases hdf : t'.dflt = .undef
    · cases hn : nO with
      | true =>
        have hd : o.dict = [] := hO hn
        resl_eval [user3, user2, user1, user0, ResolveC.setattr_readonly, ResolveC.setattr_python, hdf, hn]
        simp [asDict, setattrKind, hk, hdf, hd, setattrPython]
      | false =>
        cases hd : o.dict.get k with
        | none =>
          resl_eval [user3, user2, user1, user0, ResolveC.setattr_readonly, ResolveC.setattr_python, hdf, hn, hd]
          simp [asDict, setattrKind, hk, hdf, hd, setattrPython]
        | some cur =>
          by_cases hu : cur = .undef
          · subst hu
            resl_eval [user3, user2, user1, user0, ResolveC.setattr_readonly, ResolveC.setattr_python, hdf, hn, hd]
            simp [asDict, setattrKind, hk, hdf, hd, setattrPython]
          · have hu' : ¬ (V.val cur = V.val Val.undef) := by intro h; exact hu (V.val.inj h)
            resl_eval [user3, user2, user1, user0, ResolveC.setattr_readonly, ResolveC.setattr_python, ResolveC.set_readonly_error, hdf, hn, hd, hu']
            simp [asDict, setattrKind, hk, hdf, hd, hu]
    · have hdf' : ¬ (V.val t'.dflt = V.val Val.undef) := by intro h; exact hdf (V.val.inj h)
      resl_eval [user3, user2, user1, user0, ResolveC.setattr_readonly, ResolveC.set_readonly_error, hdf']
      simp [asDict, setattrKind, hk, hdf]

set_option maxHeartbeats 1000000 in
theorem getattr_event_src (E : Env) (st : St) (t : Trait) (k : Name) :
    asValDict (user2 E .getattr_event [.trait t, .obj, .name k] st) = some (.error .attributeError) := by
  obtain ⟨w, oi, o, c, nI, nO, fr, er, env⟩ := st
  resl_eval [user3, user2, user1, user0, ResolveC.getattr_event]
  simp [asValDict]

set_option maxHeartbeats 1000000 in
theorem getattr_disallow_src (E : Env) (st : St) (t : Trait) (k : Name) :
    asValDict (user2 E .getattr_disallow [.trait t, .obj, .name k] st) = some (.error .attributeError) := by
  obtain ⟨w, oi, o, c, nI, nO, fr, er, env⟩ := st
  resl_eval [user3, user2, user1, user0, ResolveC.getattr_disallow, ResolveC.unknown_attribute_error]
  simp [asValDict]

set_option maxHeartbeats 1000000 in
theorem getattr_constant_src (E : Env) (st : St) (t : Trait) (k : Name) :
    asValDict (user2 E .getattr_constant [.trait t, .obj, .name k] st) = some (.ok (t.dflt, st.o.dict)) := by
  obtain ⟨w, oi, o, c, nI, nO, fr, er, env⟩ := st
  resl_eval [user3, user2, user1, user0, ResolveC.getattr_constant]
  simp [asValDict]

end TraitsVerif.Model.ResL
