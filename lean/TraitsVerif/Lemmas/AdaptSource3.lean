/-
`Model.Adapt` is the interpretation of the translated source
(`Generated/AdaptProg.lean`), part 3: the entry points around `_adapt` —
`adapt` (identity shortcut, `default=`, `AdaptationError`), `supports_protocol`,
`register_offer`.
-/
import TraitsVerif.Lemmas.AdaptSource2
set_option linter.unusedSimpArgs false
set_option linter.unusedVariables false
namespace TraitsVerif.Lemmas.AdaptSource
open TraitsVerif TraitsVerif.Model.Adapt TraitsVerif.Model.PyA TraitsVerif.Generated.AdaptProg

variable {α : Type}

/-- How a result of the model's search shows as the way the call of `_adapt` ends. -/
def flowRet : Res α → Flow α
  | .found _ a => .returned (.obj a)
  | .raised e => .raised e
  | .notFound => .returned .none
  | .outOfFuel => .outOfFuel

/-- `_adapt` run as a callee, in any context whose pure calls are the translated functions. -/
theorem adapt_fn_flow (C : Ctx α) (H : Calls C) (adaptee : α) (target fuel : Nat) :
    ∀ r, runFnIn C fuel { nparams := 2, nslots := 19, body := adaptBody } [.obj adaptee, .ty target] [] [] = r →
      r.2 = flowRet (adaptLoop C.cfg C.f adaptee target fuel (initSt C.srcType)).1 ∧
      r.1.trace = (adaptLoop C.cfg C.f adaptee target fuel (initSt C.srcType)).2 := by
  intro r hr
  subst hr
  simp only [runFnIn, List.length_cons, List.length_nil]
  simp [adaptBody, exec, eval, getVar, setVar, initFrame, builtin]
  generalize hr : whileLoop _ _ _ _ = r
  have hw := fun hR => while_loop C H adaptee target fuel _ _ (fun _ => rfl) (fun _ => rfl) fuel _
    (initSt C.srcType) hR r hr
  replace hw := hw ⟨by simp [setVar, initFrame], by simp [setVar, initFrame], by simp [setVar], by
    simp [setVar, initSt, encEntry, encPath], by simp [initSt], by simp [initSt], by simp [initSt]⟩
  obtain ⟨s1, f1⟩ := r
  obtain ⟨h1, h2⟩ := hw
  subst h1
  simp only at h2
  cases hres : (adaptLoop C.cfg C.f adaptee target fuel (initSt C.srcType)).1 <;>
    simp [flowOf, flowRet, h2, hres]

theorem calls_eff (cfg : Cfg) (hne : NonEmptyGroups cfg) (f : Factory α) (s : Nat)
    (ce : String → List (Val α) → List CallRec → List CallRec × Flow α) :
    Calls { cfg := cfg, f := f, srcType := s, call := callAt adaptProg cfg f s 3, callEff := ce } where
  prov := fun a b => call_provides cfg f s 2 a b
  app := fun cur path => call_applicable cfg hne f s 0 cur path
  cmp := fun a b => call_cmp cfg f s 2 a b

/-- The call `self._adapt(adaptee, to_protocol)` made by `adapt`. -/
theorem callEff_inner (cfg : Cfg) (hne : NonEmptyGroups cfg) (f : Factory α) (s fuel : Nat) (adaptee : α)
    (target : Nat) :
    callEffAt adaptProg cfg f s fuel 1 "_adapt" [.obj adaptee, .ty target] [] =
      ((adaptLoop cfg f adaptee target fuel (initSt s)).2, flowRet (adaptLoop cfg f adaptee target fuel (initSt s)).1) := by
  rw [callEffAt, lookup_adapt]
  simp only []
  generalize hr : runFnIn _ _ _ _ _ _ = r
  obtain ⟨h1, h2⟩ := adapt_fn_flow _ (calls_eff cfg hne f s _) adaptee target fuel r hr
  obtain ⟨s1, f1⟩ := r
  simp only at h1 h2
  simp [h1, h2]

theorem lookup_adaptEntry : lookupFn "adapt" adaptProg = some { nparams := 3, nslots := 5, body := adaptEntryBody } := by
  simp [lookupFn, adaptProg]

theorem lookup_supports : lookupFn "supports_protocol" adaptProg =
    some { nparams := 2, nslots := 3, body := supportsProtocolBody } := by
  simp [lookupFn, adaptProg]

theorem lookup_register : lookupFn "register_offer" adaptProg =
    some { nparams := 1, nslots := 2, body := registerOfferBody } := by
  simp [lookupFn, adaptProg]

/-- `self.adapt(adaptee, to_protocol, default)` with `default` the singleton `name`. -/
theorem callEff_adapt (cfg : Cfg) (hne : NonEmptyGroups cfg) (f : Factory α) (s fuel : Nat) (adaptee : α)
    (target : Nat) (name : String) :
    callEffAt adaptProg cfg f s fuel 2 "adapt" [.obj adaptee, .ty target, .glob name] [] =
      if cfg.provides s target then ([], .returned (.obj adaptee))
      else match adaptLoop cfg f adaptee target fuel (initSt s) with
        | (.found _ a, tr) => (tr, .returned (.obj a))
        | (.raised e, tr) => (tr, .raised e)
        | (.notFound, tr) =>
          if name = "AdaptationError" then (tr, .raised .adaptationError) else (tr, .returned (.glob name))
        | (.outOfFuel, tr) => (tr, .outOfFuel) := by
  rw [callEffAt, lookup_adaptEntry]
  simp only [runFnIn, List.length_cons, List.length_nil]
  cases hp : cfg.provides s target with
  | true =>
    simp [adaptEntryBody, exec, truth, eval, getVar, setVar, initFrame, builtin, call_provides, hp]
  | false =>
    rcases hl : adaptLoop cfg f adaptee target fuel (initSt s) with ⟨res, tr⟩
    cases res with
    | found p a =>
      simp [adaptEntryBody, exec, truth, eval, getVar, setVar, initFrame, builtin, call_provides, hp,
        callEff_inner cfg hne, hl, flowRet, isSame]
    | raised e =>
      simp [adaptEntryBody, exec, truth, eval, getVar, setVar, initFrame, builtin, call_provides, hp,
        callEff_inner cfg hne, hl, flowRet, isSame]
    | outOfFuel =>
      simp [adaptEntryBody, exec, truth, eval, getVar, setVar, initFrame, builtin, call_provides, hp,
        callEff_inner cfg hne, hl, flowRet, isSame]
    | notFound =>
      by_cases hn : name = "AdaptationError"
      · simp [adaptEntryBody, exec, truth, eval, getVar, setVar, initFrame, builtin, call_provides, hp,
          callEff_inner cfg hne, hl, flowRet, isSame, hn]
      · have hn' : (name == "AdaptationError") = false := by simp [hn]
        simp [adaptEntryBody, exec, truth, eval, getVar, setVar, initFrame, builtin, call_provides, hp,
          callEff_inner cfg hne, hl, flowRet, isSame, hn, hn']

/-- `self.supports_protocol(obj, protocol)`. -/
theorem callEff_supports (cfg : Cfg) (hne : NonEmptyGroups cfg) (f : Factory α) (s fuel : Nat) (adaptee : α)
    (target : Nat) :
    callEffAt adaptProg cfg f s fuel 3 "supports_protocol" [.obj adaptee, .ty target] [] =
      if cfg.provides s target then ([], .returned (.bool true))
      else match adaptLoop cfg f adaptee target fuel (initSt s) with
        | (.found _ a, tr) => (tr, .returned (.bool true))
        | (.raised e, tr) => (tr, .raised e)
        | (.notFound, tr) => (tr, .returned (.bool false))
        | (.outOfFuel, tr) => (tr, .outOfFuel) := by
  rw [callEffAt, lookup_supports]
  simp only [runFnIn, List.length_cons, List.length_nil]
  cases hp : cfg.provides s target with
  | true =>
    simp [supportsProtocolBody, exec, truth, eval, getVar, setVar, initFrame, builtin, callEff_adapt cfg hne, hp,
      isSame]
  | false =>
    rcases hl : adaptLoop cfg f adaptee target fuel (initSt s) with ⟨res, tr⟩
    cases res <;>
      simp [supportsProtocolBody, exec, truth, eval, getVar, setVar, initFrame, builtin, callEff_adapt cfg hne, hp,
        hl, isSame]

/-! ## `register_offer` -/

theorem map_bucket_other (k : Nat) (o : Offer) : ∀ reg : List (Nat × List Offer),
    reg.any (fun kv => kv.1 == k) = false →
    reg.map (fun kv => if kv.1 = k then (kv.1, kv.2 ++ [o]) else kv) = reg
  | [], _ => rfl
  | kv :: reg, h => by
    simp only [List.any_cons, Bool.or_eq_false_iff, beq_eq_false_iff_ne] at h
    simp [h.1, map_bucket_other k o reg h.2]

theorem register_eq (reg : List (Nat × List Offer)) (o : Offer) :
    runRegisterOffer adaptProg reg o = some (registerOffer reg o) := by
  simp only [runRegisterOffer, lookup_register, runFnIn, List.length_cons, List.length_nil]
  cases h : reg.any (fun kv => kv.1 == o.key) with
  | true =>
    simp [registerOfferBody, exec, eval, getVar, setVar, initFrame, emptyCtx, registerOffer, h]
  | false =>
    simp [registerOfferBody, exec, eval, getVar, setVar, initFrame, emptyCtx, registerOffer, h,
      map_bucket_other o.key o reg h]

end TraitsVerif.Lemmas.AdaptSource
