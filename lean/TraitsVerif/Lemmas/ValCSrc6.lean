/-
Source tie of the compiled validators, part 6: `case 11` and `case 9` of
`validate_trait_complex`, `validate_trait_tuple`, the induction over the loop of
`validate_trait_complex`, and the theorem for the whole function.
-/
import TraitsVerif.Lemmas.ValCSrc5
namespace TraitsVerif.Model.CSrc
open TraitsVerif TraitsVerif.Py.Value TraitsVerif.Model.Val TraitsVerif.Generated.CValidators

set_option maxRecDepth 16384
set_option maxHeartbeats 1000000
variable (E : Env) (inner : Desc → Val → Res) (cdflt : Val) (fuel : Nat)

/-- What `validate_trait_tuple_check` hands back: the validated tuple, NULL without an
exception (no match), NULL with an exception. -/
def tupToC : TupRes → CV × Err
  | .ok w => (.obj w, none)
  | .fail => (.null, none)
  | .exc e => (.null, some e)

/-- HYPOTHESIS of the tuple theorems: the helper `validate_trait_tuple_check` (whose loop
builds the result tuple in place) computes the model's `tupleCheck`.  Its source text is
translated and interpreted like the others, but this equation is not proved: it remains
tied by the correspondence runs (kinds `v`, `f` of the C03 generator). -/
def TupleCheckSpec (E : Env) (inner : Desc → Val → Res) (cdflt : Val) (fuel : Nat)
    (items : List (Option Desc)) : Prop :=
  ∀ v, helpers E inner cdflt fuel "validate_trait_tuple_check" [.traits items, .hobj, .name, .obj v] none =
    tupToC (tupleCheck E items v)

section step
variable (R : St → Option (CV × Err)) (ds : List Desc) (v : Val) (n : Nat) (rest : List Desc)
  (a4 a5 a6 a7 a8 a9 a10 a11 a15 a16 a17 a18 a19 : CV)
variable (hlt : n < ds.length) (ih' : CxIH E R ds v (↑n + 1) rest)

include hlt ih' in
theorem cx_coerce (ty : Ty) (tys : List (Option Ty)) (hf : tys.length < fuel)
    (hget : ds[n]'hlt = .coerce ty tys) :
    CxStep E inner cdflt fuel R ds v n (.coerce ty tys) rest a4 a5 a6 a7 a8 a9 a10 a11 a15 a16 a17 a18 a19 := by
  cx_start
  simp only [CxIH, cxS] at ih'
  csrc_evalw [hget, hlt]
  simp only [fastComplex, complexCase]
  by_cases h0 : Val.isInst ty v = true
  · simp [h0, resToC]
  · simp only [h0]
    simp only [Bool.false_eq_true, if_false]
    refine iter_coerce_scan_Q _ _ _ _
      (fun j t => ⟨[.trait (.complex ds), .hobj, .name, .obj v, a4, a5, a6, a7, .info (.coerce ty tys), .ty ty, t, a11, .infos ds, .int ↑ds.length, .int ↑n, a15, .int (↑tys.length + 1 + 1), .int j, a18, a19], none⟩)
      (fun j => (layout (.coerce ty tys)).getD j .undef) (tys.length + 2) v (.goto "done") (by simp)
      ?hc ?hi ?hb tys 2 a10 fuel hf (by omega) (fun idx h => layout_coerce_item ty tys idx h)
      (fun r => r = _) ?hQ
    case hc =>
      intro j t k'
      have : ((j : Int) < ↑tys.length + 1 + 1) ↔ (j < tys.length + 2) := by omega
      simp [this]
    case hi =>
      intro j t k'
      simp [Int.natCast_add]
    case hb =>
      intro j t k' x hx
      simp only [List.getD_eq_getElem?_getD] at hx
      cases x <;> simp [prim_GET_ITEM, prim_TypeCheck, getItem, hx, fTy, cvEq]
    case hQ =>
      intro j' t' hrel
      rcases hcs : coerceScan v tys with ⟨b, after⟩
      rw [hcs] at hrel
      cases b with
      | true => csrc_evalw [resToC]
      | false =>
        have hrel' := hrel rfl
        simp only [Bool.false_eq_true, if_false]
        simp only [List.getElem?_cons_succ, List.getElem?_cons_zero, Option.getD_some, List.set_cons_succ, List.set_cons_zero]
        refine iter_coerce_any_Q _ _ _ _
          (fun j t => ⟨[.trait (.complex ds), .hobj, .name, .obj v, a4, a5, a6, a7, .info (.coerce ty tys), .ty ty, t, a11, .infos ds, .int ↑ds.length, .int ↑n, a15, .int (↑tys.length + 1 + 1), .int j, a18, a19], none⟩)
          (fun j => (layout (.coerce ty tys)).getD j .undef) (tys.length + 2) v
          (.ret (exceptToC (E.cast ty v)).1) (fun s => { s with err := (exceptToC (E.cast ty v)).2 }) (by simp)
          ?hc ?hi ?hb after (j' + 1) t' fuel ?hm ?hn ?hit
          (fun r => r = _) ?hQ
        case hc =>
          intro j t k'
          have : ((j : Int) < ↑tys.length + 1 + 1) ↔ (j < tys.length + 2) := by omega
          simp [this]
        case hi =>
          intro j t k'
          simp [Int.natCast_add]
        case hb =>
          intro j t k' x hx
          simp only [List.getD_eq_getElem?_getD] at hx
          cases x with
          | none => simp [prim_GET_ITEM, getItem, hx, fTy, prim, CV.truthy]
          | some t0 => simp [prim_GET_ITEM, prim_TypeCheck, getItem, hx, fTy, helpers_type_converter]
        case hm =>
          have := coerceScan_length v tys
          rw [hcs] at this
          simp at this; omega
        case hn =>
          rcases hrel' with h | h
          · exact Or.inl (by simpa using h.1)
          · exact Or.inr (by simpa using h)
        case hit =>
          intro idx h
          rcases hrel' with h' | h'
          · simpa using h'.2 idx h
          · simp at h'; simp [h'.1] at h
        case hQ =>
          intro j2 t2
          by_cases hany : coerceAny v after = true
          · simp [hany]
            cases E.cast ty v <;> simp [exceptToC, resToC]
          · simp [hany, ih', resToC]

include hlt ih' in
theorem cx_tuple (items : List (Option Desc)) (hT : TupleCheckSpec E inner cdflt fuel items)
    (hget : ds[n]'hlt = .tuple items) :
    CxStep E inner cdflt fuel R ds v n (.tuple items) rest a4 a5 a6 a7 a8 a9 a10 a11 a15 a16 a17 a18 a19 := by
  cx_start
  simp only [CxIH, cxS] at ih'
  csrc_evalw [hget, hlt]
  simp only [fastComplex, complexCase, hT v, tupleCheck]
  cases tupleCheckWith items.length (tupleItems E items) v with
  | ok w => simp [tupToC, resToC]
  | fail => simp [tupToC, resToC, ih']
  | exc e => simp [tupToC, resToC]

end step

theorem src_tuple (items : List (Option Desc)) (hT : TupleCheckSpec E inner cdflt fuel items) (v : Val) :
    srcFn E inner cdflt fuel "validate_trait_tuple" (.tuple items) v = some (norm (fastAlone E (.tuple items) v)) := by
  src_start fn_validate_trait_tuple "validate_trait_tuple"
  csrc_eval
  simp only [fastAlone, hT v, tupleCheck]
  cases tupleCheckWith items.length (tupleItems E items) v with
  | ok w => simp [tupToC]
  | fail => simp [tupToC]
  | exc e => simp [tupToC]


/-! ## The loop of `validate_trait_complex` -/

/-- What the theorem about `validate_trait_complex` asks of the entries:
* an `adapt='default'` member: its default is the compound's default — the C code calls
  `default_value_for(trait, …)` with the COMPOUND trait (finding F49), the model takes the member's;
* the `slow` entry: `slow_validate` reports a TraitError as `traitError` (never as `raised traitError`);
* a coerce entry: its tuple is shorter than the loop bound of the interpreter;
* a tuple entry: `TupleCheckSpec` (the one unproved equation, see there);
* no callable entry (kind 14): `_trait_set_validate` never stores one inside a compound. -/
def entryOk (E : Env) (inner : Desc → Val → Res) (cdflt : Val) (fuel : Nat) : Desc → Prop
  | .adapt _ mode _ dflt => mode = 0 ∨ mode = 1 ∨ dflt = cdflt
  | .tuple items => TupleCheckSpec E inner cdflt fuel items
  | .slow h => ∀ x, h x ≠ .raised .traitError
  | .coerce _ tys => tys.length < fuel
  | .python _ => False
  | _ => True

theorem cx_iter (hA : AdaptSome E) (v : Val) (ds : List Desc)
    (hd : ∀ d ∈ ds, entryOk E inner cdflt fuel d) :
    ∀ (suf pre : List Desc) (m : Nat) (a4 a5 a6 a7 a8 a9 a10 a11 a15 a16 a17 a18 a19 : CV),
      ds = pre ++ suf → suf.length < m →
      iter (fun s k' => evalE (C1 E inner cdflt fuel) (getLoop fn_validate_trait_complex.body).2.1 s k')
        (fun s k' => evalE (C1 E inner cdflt fuel) (getLoop fn_validate_trait_complex.body).2.2.1 s k')
        (fun s k' => exec (C1 E inner cdflt fuel) fuel (getLoop fn_validate_trait_complex.body).2.2.2 s k')
        (fnK fuel (C1 E inner cdflt fuel) fn_validate_trait_complex) m (cxS ds v pre.length a4 a5 a6 a7 a8 a9 a10 a11 a15 a16 a17 a18 a19) =
      some (resToC (fastComplex E suf v)) := by
  intro suf
  induction suf with
  | nil =>
    intro pre m a4 a5 a6 a7 a8 a9 a10 a11 a15 a16 a17 a18 a19 hds hm
    cases m with
    | zero => omega
    | succ m =>
      subst hds
      simp only [iter, fn_validate_trait_complex, getLoop, fnK, C1, cxS]
      csrc_eval
      simp [fastComplex, resToC]
  | cons d rest ih =>
    intro pre m a4 a5 a6 a7 a8 a9 a10 a11 a15 a16 a17 a18 a19 hds hm
    cases m with
    | zero => omega
    | succ m =>
      have hlt : pre.length < ds.length := by subst hds; simp
      have hget : ds[pre.length]'hlt = d := by subst hds; simp
      have hmem : d ∈ ds := by subst hds; simp
      have hdd := hd d hmem
      rw [iter_succ]
      have ih' : CxIH E (iter (fun s k' => evalE (C1 E inner cdflt fuel) (getLoop fn_validate_trait_complex.body).2.1 s k')
          (fun s k' => evalE (C1 E inner cdflt fuel) (getLoop fn_validate_trait_complex.body).2.2.1 s k')
          (fun s k' => exec (C1 E inner cdflt fuel) fuel (getLoop fn_validate_trait_complex.body).2.2.2 s k')
          (fnK fuel (C1 E inner cdflt fuel) fn_validate_trait_complex) m) ds v (↑pre.length + 1) rest := by
        intro b4 b5 b6 b7 b8 b9 b10 b11 b15 b16 b17 b18 b19
        have := ih (pre ++ [d]) m b4 b5 b6 b7 b8 b9 b10 b11 b15 b16 b17 b18 b19 (by simp [hds]) (by simp at hm; omega)
        simpa [List.length_append, Int.natCast_add] using this
      cases d
      case typeChk an ty => exact cx_typeChk E inner cdflt fuel _ ds v pre.length rest a4 a5 a6 a7 a8 a9 a10 a11 a15 a16 a17 a18 a19 hlt ih' an ty hget
      case instChk an ty => exact cx_instChk E inner cdflt fuel _ ds v pre.length rest a4 a5 a6 a7 a8 a9 a10 a11 a15 a16 a17 a18 a19 hlt ih' an ty hget
      case selfType an => exact cx_selfType E inner cdflt fuel _ ds v pre.length rest a4 a5 a6 a7 a8 a9 a10 a11 a15 a16 a17 a18 a19 hlt ih' an hget
      case floatRange lo hi mask => exact cx_floatRange E inner cdflt fuel _ ds v pre.length rest a4 a5 a6 a7 a8 a9 a10 a11 a15 a16 a17 a18 a19 hlt ih' lo hi mask hget
      case enum vals => exact cx_enum E inner cdflt fuel _ ds v pre.length rest a4 a5 a6 a7 a8 a9 a10 a11 a15 a16 a17 a18 a19 hlt ih' vals hget
      case map keys => exact cx_map E inner cdflt fuel _ ds v pre.length rest a4 a5 a6 a7 a8 a9 a10 a11 a15 a16 a17 a18 a19 hlt ih' keys hget
      case complex ds' => exact cx_complex E inner cdflt fuel _ ds v pre.length rest a4 a5 a6 a7 a8 a9 a10 a11 a15 a16 a17 a18 a19 hlt ih' ds' hget
      case slow h => exact cx_slow E inner cdflt fuel _ ds v pre.length rest a4 a5 a6 a7 a8 a9 a10 a11 a15 a16 a17 a18 a19 hlt ih' h hdd hget
      case tuple items => exact cx_tuple E inner cdflt fuel _ ds v pre.length rest a4 a5 a6 a7 a8 a9 a10 a11 a15 a16 a17 a18 a19 hlt ih' items hdd hget
      case coerce ty tys => exact cx_coerce E inner cdflt fuel _ ds v pre.length rest a4 a5 a6 a7 a8 a9 a10 a11 a15 a16 a17 a18 a19 hlt ih' ty tys hdd hget
      case cast ty => exact cx_cast E inner cdflt fuel _ ds v pre.length rest a4 a5 a6 a7 a8 a9 a10 a11 a15 a16 a17 a18 a19 hlt ih' ty hget
      case function f => exact cx_function E inner cdflt fuel _ ds v pre.length rest a4 a5 a6 a7 a8 a9 a10 a11 a15 a16 a17 a18 a19 hlt ih' f hget
      case python h => exact absurd hdd (by simp [entryOk])
      case adapt cls mode an dflt =>
        exact cx_adapt E inner cdflt fuel _ ds v pre.length rest a4 a5 a6 a7 a8 a9 a10 a11 a15 a16 a17 a18 a19 hlt ih' hA cls mode an dflt hdd hget
      case int => exact cx_int E inner cdflt fuel _ ds v pre.length rest a4 a5 a6 a7 a8 a9 a10 a11 a15 a16 a17 a18 a19 hlt ih' hget
      case float => exact cx_float E inner cdflt fuel _ ds v pre.length rest a4 a5 a6 a7 a8 a9 a10 a11 a15 a16 a17 a18 a19 hlt ih' hget
      case callable an => exact cx_callable E inner cdflt fuel _ ds v pre.length rest a4 a5 a6 a7 a8 a9 a10 a11 a15 a16 a17 a18 a19 hlt ih' an hget
      case complexNumber => exact cx_complexNumber E inner cdflt fuel _ ds v pre.length rest a4 a5 a6 a7 a8 a9 a10 a11 a15 a16 a17 a18 a19 hlt ih' hget

/-- `validate_trait_complex`, interpreted on its translated source text, is `fastComplex`. -/
theorem src_complex (hA : AdaptSome E) (ds : List Desc) (v : Val)
    (hd : ∀ d ∈ ds, entryOk E inner cdflt fuel d) (hf : ds.length < fuel) :
    srcFn E inner cdflt fuel "validate_trait_complex" (.complex ds) v =
      some (norm (fastAlone E (.complex ds) v)) := by
  have hl : table.lookup "validate_trait_complex" = some fn_validate_trait_complex := by rfl
  have key := cx_iter E inner cdflt fuel hA v ds hd ds [] fuel
    .undef .undef .undef .undef .undef .undef .undef .undef .undef .undef .undef .undef .undef rfl hf
  simp only [srcFn, hl, fastAlone, ← resToC_norm]
  congr 1


/-! ## Every descriptor -/

/-- Side conditions of the source tie for a stand-alone descriptor (see `entryOk`);
kind 8 (`slow`) has no stand-alone C function (`validate_handlers[8]` is NULL). -/
def descOk (E : Env) (inner : Desc → Val → Res) (cdflt : Val) (fuel : Nat) : Desc → Prop
  | .complex ds => (∀ d ∈ ds, entryOk E inner cdflt fuel d) ∧ ds.length < fuel
  | .coerce _ tys => tys.length < fuel
  | .tuple items => TupleCheckSpec E inner cdflt fuel items
  | .slow _ => False
  | _ => True

/-- For every descriptor and every value: the C function `validate_handlers[kind]`, interpreted
on its translated source text, returns what `fastAlone` returns. -/
theorem srcAlone_eq (hA : AdaptSome E) (d : Desc) (v : Val) (hok : descOk E inner cdflt fuel d) :
    srcAlone E inner cdflt fuel d v = some (norm (fastAlone E d v)) := by
  by_cases hs : straight d = true
  · exact srcAlone_straight E inner cdflt fuel hA d v hs
  · cases d <;> simp [straight] at hs <;> simp only [srcAlone, Desc.kind]
    case complex ds => exact src_complex E inner cdflt fuel hA ds v hok.1 hok.2
    case tuple items => exact src_tuple E inner cdflt fuel items hok v
    case coerce ty tys => exact src_coerce E inner cdflt fuel ty tys v hok
    case slow h => exact absurd hok (by simp [descOk])

/-- The copy of a case inside the `switch` of `validate_trait_complex`, run on the
one-entry compound `(7, (d,))`, interpreted on the translated source text, is `fastInCompound`. -/
theorem srcInCompound_eq (hA : AdaptSome E) (d : Desc) (v : Val) (hok : entryOk E inner cdflt fuel d)
    (hf : 1 < fuel) :
    srcFn E inner cdflt fuel "validate_trait_complex" (.complex [d]) v = some (norm (fastInCompound E d v)) := by
  have := src_complex E inner cdflt fuel hA [d] v (by simpa using hok) (by simpa using hf)
  simpa [fastInCompound, fastAlone] using this

end TraitsVerif.Model.CSrc
