/-
Step-level facts about `TraitDict.step`, one per clause of property C06; the
property theorems in `Props/C06.lean` are assembled from these.
-/
import TraitsVerif.Lemmas.MapTrait
set_option linter.unusedSectionVars false
namespace TraitsVerif.Model.Map
open TraitsVerif TraitsVerif.Py
open TraitsVerif.Py.Dict
variable {K V : Type} [DecidableEq K]

theorem valPairs_length {kv : Callback K K} {vv : Callback V V} {n : Nat} {ps ps' : List (K × V)}
    (h : valPairs kv vv n ps = .ok ps') : ps'.length = ps.length := by
  induction ps generalizing n ps' with
  | nil => simp [valPairs] at h; subst h; rfl
  | cons p ps ih =>
    obtain ⟨k, v⟩ := p
    simp only [valPairs] at h
    split at h <;> try cases h
    split at h <;> try cases h
    split at h <;> try cases h
    rename_i hps
    simp [ih hps]

theorem valPairs_valid {kv : Callback K K} {vv : Callback V V} {n : Nat} {ps ps' : List (K × V)}
    (h : valPairs kv vv n ps = .ok ps') :
    ∀ p ∈ ps', TraitDict.ValidOut kv p.1 ∧ TraitDict.ValidOut vv p.2 := by
  induction ps generalizing n ps' with
  | nil => simp [valPairs] at h; subst h; simp
  | cons p ps ih =>
    obtain ⟨k, v⟩ := p
    simp only [valPairs] at h
    split at h <;> try cases h
    rename_i k' hk
    split at h <;> try cases h
    rename_i v' hv
    split at h <;> try cases h
    rename_i ps'' hps
    intro q hq
    rcases List.mem_cons.mp hq with hq | hq
    · subst hq; exact ⟨⟨n, k, hk⟩, ⟨n, v, hv⟩⟩
    · exact ih hps q hq

/-- Shape of a successful `update` / `|=`. -/
theorem updateLike_ok {kv : Callback K K} {vv : Callback V V} {d : Dict K V} {ps : List (K × V)}
    {r : Ret K V} {o : DOut K V} (h : updateLike kv vv d ps r = .ok o) :
    ∃ ps', valPairs kv vv 0 ps = .ok ps' ∧ o.items = update d ps' ∧ o.ret = r ∧
      o.items = update d (updLoop d ps' {}).validated ∧
      o.event = if ps = [] then none
        else some ⟨[], (updLoop d ps' {}).added, (updLoop d ps' {}).changed⟩ := by
  unfold updateLike at h
  split at h
  · cases h
  · rename_i ps' hps
    refine ⟨ps', hps, ?_⟩
    have hlen := valPairs_length hps
    have hnil : ps = [] ↔ ps' = [] := by
      constructor
      · intro e; subst e; simpa using hlen
      · intro e; subst e; simpa using hlen.symm
    have hsil := updLoop_silent_iff d ps'
    simp only [] at h
    split at h
    · rename_i hc
      cases h
      have := hnil.mpr (hsil.mp hc)
      simp [this, updLoop_validated_nil, update_ofPairs]
    · rename_i hc
      cases h
      have : ¬ ps = [] := fun e => hc (hsil.mpr (hnil.mp e))
      simp [this, updLoop_validated_nil, update_ofPairs]

theorem storeValidated_items (d : Dict K V) (k : K) (v : V) (r : Ret K V) :
    (storeValidated d k v r).items = set d k v ∧ (storeValidated d k v r).ret = r := by
  unfold storeValidated; split <;> simp

theorem storeValidated_event (d : Dict K V) (k : K) (v : V) (r : Ret K V) :
    ∃ t, (storeValidated d k v r).event = some t ∧
      Reconstructs d (storeValidated d k v r).items t ∧ WF t.changed ∧
      ¬ (t.removed = [] ∧ t.added = [] ∧ t.changed = []) := by
  unfold storeValidated
  split
  · rename_i old h
    exact ⟨_, rfl, reconstructs_changed v h, by simp [WF, keys], by simp⟩
  · rename_i h
    exact ⟨_, rfl, reconstructs_added v h, by simp [WF, keys], by simp⟩

/-- Everything about the notification of a successful step, in one statement. -/
theorem step_event {kv : Callback K K} {vv : Callback V V} {d : Dict K V} (hwf : WF d) {op : Op K V}
    {o : DOut K V} (h : TraitDict.step kv vv d op = .ok o) :
    WF o.items ∧
    (∀ t, o.event = some t → Reconstructs d o.items t ∧ WF t.changed ∧
      ¬ (t.removed = [] ∧ t.added = [] ∧ t.changed = [])) ∧
    (o.event = none → o.items = d) ∧
    (o.event = none ↔ SilentCase d op) := by
  cases op with
  | setitem k v =>
    simp only [TraitDict.step] at h
    split at h <;> try cases h
    rename_i k' _
    split at h <;> try cases h
    rename_i v' _
    obtain ⟨t, ht, hr, hw, hne⟩ := storeValidated_event d k' v' .none
    have hi := (storeValidated_items d k' v' .none).1
    refine ⟨by rw [hi]; exact wf_set hwf _ _, ?_, by simp [ht], by simp [ht, SilentCase]⟩
    intro t' ht'; rw [ht] at ht'; cases ht'; exact ⟨hr, hw, hne⟩
  | delitem k =>
    simp only [TraitDict.step] at h
    split at h <;> cases h
    rename_i x hx
    refine ⟨wf_erase hwf _, ?_, by simp, by simp [SilentCase]⟩
    intro t ht; cases ht
    exact ⟨reconstructs_removed hx, by simp [WF, keys], by simp⟩
  | update ps =>
    simp only [TraitDict.step] at h
    obtain ⟨ps', _, hi, _, hi2, he⟩ := updateLike_ok h
    refine ⟨by rw [hi]; exact wf_update hwf _, ?_, ?_, ?_⟩
    · intro t ht
      rw [he] at ht
      split at ht
      · cases ht
      · rename_i hne
        cases ht
        rw [hi2]
        refine ⟨reconstructs_update d ps', (updLoop_wf d ps' {} ⟨wf_nil, wf_nil⟩).2, ?_⟩
        intro hh
        have hlen := valPairs_length ‹_›
        have h1 : (updLoop d ps' {}).added = [] := hh.2.1
        have h2 : (updLoop d ps' {}).changed = [] := hh.2.2
        have := (updLoop_silent_iff d ps').mp (by simp [h1, h2])
        subst this
        exact hne (List.length_eq_zero_iff.mp (by simpa using hlen.symm))
    · intro hn
      rw [he] at hn
      split at hn
      · rename_i e; subst e
        have hlen := valPairs_length ‹_›
        have : ps' = [] := List.length_eq_zero_iff.mp (by simpa using hlen)
        subst this; rw [hi]; rfl
      · cases hn
    · rw [he]; simp only [SilentCase]; split <;> simp_all
  | ior ps =>
    simp only [TraitDict.step] at h
    obtain ⟨ps', _, hi, _, hi2, he⟩ := updateLike_ok h
    refine ⟨by rw [hi]; exact wf_update hwf _, ?_, ?_, ?_⟩
    · intro t ht
      rw [he] at ht
      split at ht
      · cases ht
      · rename_i hne
        cases ht
        rw [hi2]
        refine ⟨reconstructs_update d ps', (updLoop_wf d ps' {} ⟨wf_nil, wf_nil⟩).2, ?_⟩
        intro hh
        have hlen := valPairs_length ‹_›
        have h1 : (updLoop d ps' {}).added = [] := hh.2.1
        have h2 : (updLoop d ps' {}).changed = [] := hh.2.2
        have := (updLoop_silent_iff d ps').mp (by simp [h1, h2])
        subst this
        exact hne (List.length_eq_zero_iff.mp (by simpa using hlen.symm))
    · intro hn
      rw [he] at hn
      split at hn
      · rename_i e; subst e
        have hlen := valPairs_length ‹_›
        have : ps' = [] := List.length_eq_zero_iff.mp (by simpa using hlen)
        subst this; rw [hi]; rfl
      · cases hn
    · rw [he]; simp only [SilentCase]; split <;> simp_all
  | setdefault k v =>
    simp only [TraitDict.step] at h
    split at h
    · rename_i x hx
      cases h
      exact ⟨hwf, by simp, by simp, by simp [SilentCase, contains_eq, hx]⟩
    · rename_i hx
      split at h <;> try cases h
      rename_i k' _
      split at h <;> try cases h
      rename_i v' _
      obtain ⟨t, ht, hr, hw, hne⟩ := storeValidated_event d k' v' (.val v')
      have hi := (storeValidated_items d k' v' (.val v')).1
      refine ⟨by rw [hi]; exact wf_set hwf _ _, ?_, by simp [ht], by simp [ht, SilentCase, contains_eq, hx]⟩
      intro t' ht'; rw [ht] at ht'; cases ht'; exact ⟨hr, hw, hne⟩
  | pop k =>
    simp only [TraitDict.step] at h
    split at h <;> cases h
    rename_i x hx
    refine ⟨wf_erase hwf _, ?_, by simp, by simp [SilentCase]⟩
    intro t ht; cases ht
    exact ⟨reconstructs_removed hx, by simp [WF, keys], by simp⟩
  | popDefault k dflt =>
    simp only [TraitDict.step] at h
    split at h <;> cases h
    · rename_i hx
      exact ⟨hwf, by simp, by simp, by simp [SilentCase, hx]⟩
    · rename_i x hx
      refine ⟨wf_erase hwf _, ?_, by simp, by simp [SilentCase, hx]⟩
      intro t ht; cases ht
      exact ⟨reconstructs_removed hx, by simp [WF, keys], by simp⟩
  | popitem =>
    simp only [TraitDict.step] at h
    split at h <;> cases h
    rename_i k x hx
    refine ⟨wf_dropLast hwf, ?_, by simp, by simp [SilentCase]⟩
    intro t ht; cases ht
    exact ⟨reconstructs_popitem hwf hx, by simp [WF, keys], by simp⟩
  | clear =>
    simp only [TraitDict.step] at h
    split at h <;> cases h
    · rename_i he
      have : d = [] := List.isEmpty_iff.mp he
      exact ⟨wf_nil, by simp, by simp [this], by simp [SilentCase, this]⟩
    · rename_i he
      have : d ≠ [] := fun e => he (List.isEmpty_iff.mpr e)
      refine ⟨wf_nil, ?_, by simp, by simp [SilentCase, this]⟩
      intro t ht; cases ht
      exact ⟨reconstructs_clear d, by simp [WF, keys], by simp [this]⟩

/-- Refinement of one step (property C06, first clause). -/
theorem step_refines (kv : Callback K K) (vv : Callback V V) (d : Dict K V) (op : Op K V)
    (hyp : SetdefaultHyp kv d op) : Refines kv vv d op := by
  unfold Refines reference
  cases op with
  | setitem k v =>
    simp only [TraitDict.step, validateOp]
    cases kv 0 k with
    | error e => rfl
    | ok k' =>
      cases vv 0 v with
      | error e => rfl
      | ok v' =>
        simp only [Except.map, DOut.proj, Dict.step, storeValidated_items]
  | delitem k =>
    simp only [TraitDict.step, validateOp, Dict.step]
    cases get? d k <;> rfl
  | update ps =>
    simp only [TraitDict.step, validateOp]
    cases h : updateLike kv vv d ps .none with
    | error e =>
      unfold updateLike at h
      split at h
      · rename_i e' he; cases h; simp [Except.map]
      · simp only [] at h; split at h <;> cases h
    | ok o =>
      obtain ⟨ps', hps, hi, hr, _, _⟩ := updateLike_ok h
      simp [hps, Except.map, DOut.proj, Dict.step, hi, hr]
  | ior ps =>
    simp only [TraitDict.step, validateOp]
    cases h : updateLike kv vv d ps .self with
    | error e =>
      unfold updateLike at h
      split at h
      · rename_i e' he; cases h; simp [Except.map]
      · simp only [] at h; split at h <;> cases h
    | ok o =>
      obtain ⟨ps', hps, hi, hr, _, _⟩ := updateLike_ok h
      simp [hps, Except.map, DOut.proj, Dict.step, hi, hr]
  | setdefault k v =>
    simp only [TraitDict.step, validateOp, contains_eq]
    split
    · rename_i x hg
      simp [Except.map, DOut.proj, Dict.step, hg]
    · rename_i hg
      simp only [hg, Option.isSome_none, Bool.false_eq_true, if_false]
      cases hk : kv 0 k with
      | error e => rfl
      | ok k' =>
        cases vv 0 v with
        | error e => rfl
        | ok v' =>
          have hc : contains d k' = false := by
            have := hyp k' hk
            simpa [contains_eq, hg] using this
          rw [contains_false_iff] at hc
          simp [Except.map, DOut.proj, Dict.step, storeValidated_items, hc]
  | pop k =>
    simp only [TraitDict.step, validateOp, Dict.step]
    cases get? d k <;> rfl
  | popDefault k dflt =>
    simp only [TraitDict.step, validateOp, Dict.step]
    cases get? d k <;> rfl
  | popitem =>
    simp only [TraitDict.step, validateOp, Dict.step]
    cases d.getLast? with
    | none => rfl
    | some p => obtain ⟨k, x⟩ := p; rfl
  | clear =>
    simp only [TraitDict.step, validateOp, Dict.step]
    split <;> rfl

theorem set_valid (kv : Callback K K) (vv : Callback V V) (d : Dict K V) (k : K) (v : V)
    (hd : ∀ p ∈ d, TraitDict.ValidOut kv p.1 ∧ TraitDict.ValidOut vv p.2)
    (hk : TraitDict.ValidOut kv k) (hvv : TraitDict.ValidOut vv v) :
    ∀ p ∈ set d k v, TraitDict.ValidOut kv p.1 ∧ TraitDict.ValidOut vv p.2 := by
  intro p hp
  rcases mem_set hp with hp | ⟨h2, h1⟩
  · exact hd p hp
  · refine ⟨?_, h2 ▸ hvv⟩
    rcases h1 with h1 | ⟨w, hw⟩
    · exact h1 ▸ hk
    · exact (hd _ hw).1

theorem update_valid (kv : Callback K K) (vv : Callback V V) (ps : List (K × V)) (d : Dict K V)
    (hd : ∀ p ∈ d, TraitDict.ValidOut kv p.1 ∧ TraitDict.ValidOut vv p.2)
    (hps : ∀ p ∈ ps, TraitDict.ValidOut kv p.1 ∧ TraitDict.ValidOut vv p.2) :
    ∀ p ∈ update d ps, TraitDict.ValidOut kv p.1 ∧ TraitDict.ValidOut vv p.2 := by
  induction ps generalizing d with
  | nil => exact hd
  | cons q ps ih =>
    simp only [update]
    exact ih _ (set_valid kv vv d q.1 q.2 hd (hps q (by simp)).1 (hps q (by simp)).2)
      (fun p hp => hps p (List.mem_cons_of_mem _ hp))

/-- Invariant of property C04 for dicts: stored keys and values are validator outputs. -/
theorem step_valid_preserved (kv : Callback K K) (vv : Callback V V) (d : Dict K V) (op : Op K V)
    (o : DOut K V) (h : TraitDict.step kv vv d op = .ok o)
    (hv : ∀ p ∈ d, TraitDict.ValidOut kv p.1 ∧ TraitDict.ValidOut vv p.2) :
    ∀ p ∈ o.items, TraitDict.ValidOut kv p.1 ∧ TraitDict.ValidOut vv p.2 := by
  have hset := set_valid kv vv
  have hupd := update_valid kv vv
  cases op with
  | setitem k v =>
    simp only [TraitDict.step] at h
    split at h <;> try cases h
    rename_i k' hk
    split at h <;> try cases h
    rename_i v' hv'
    rw [(storeValidated_items d k' v' .none).1]
    exact hset d k' v' hv ⟨0, k, hk⟩ ⟨0, v, hv'⟩
  | delitem k =>
    simp only [TraitDict.step] at h
    split at h <;> cases h
    exact fun p hp => hv p (mem_erase hp)
  | update ps =>
    simp only [TraitDict.step] at h
    obtain ⟨ps', hps, hi, _, _, _⟩ := updateLike_ok h
    rw [hi]; exact hupd ps' d hv (valPairs_valid hps)
  | ior ps =>
    simp only [TraitDict.step] at h
    obtain ⟨ps', hps, hi, _, _, _⟩ := updateLike_ok h
    rw [hi]; exact hupd ps' d hv (valPairs_valid hps)
  | setdefault k v =>
    simp only [TraitDict.step] at h
    split at h
    · cases h; exact hv
    · split at h <;> try cases h
      rename_i k' hk
      split at h <;> try cases h
      rename_i v' hv'
      rw [(storeValidated_items d k' v' _).1]
      exact hset d k' v' hv ⟨0, k, hk⟩ ⟨0, v, hv'⟩
  | pop k =>
    simp only [TraitDict.step] at h
    split at h <;> cases h
    exact fun p hp => hv p (mem_erase hp)
  | popDefault k dflt =>
    simp only [TraitDict.step] at h
    split at h <;> cases h
    · exact hv
    · exact fun p hp => hv p (mem_erase hp)
  | popitem =>
    simp only [TraitDict.step] at h
    split at h <;> cases h
    exact fun p hp => hv p ((List.dropLast_sublist d).subset hp)
  | clear =>
    simp only [TraitDict.step] at h
    split at h <;> cases h <;> simp

end TraitsVerif.Model.Map
