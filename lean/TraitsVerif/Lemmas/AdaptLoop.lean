/-
The queue invariant of `_adapt` and what follows from it: soundness, completeness,
minimality of the number of adapters, and fuel sufficiency (termination).

Invariant (`Inv`): every queue entry is a well-formed generated path; the queue is
sorted by its key; and every path the search could ever generate either has a prefix
waiting in the queue or has been expanded with all its arriving extensions tried and
failed (`Done`).
-/
import TraitsVerif.Lemmas.AdaptSpec
namespace TraitsVerif.Lemmas.Adapt
open TraitsVerif TraitsVerif.Model.Adapt
variable {α : Type}

/-! ## One expansion: `processEdges` -/

section process
variable (cfg : Cfg) (f : Factory α) (adaptee : α) (target : Nat) (w : Entry)

theorem processEdges_some_kind : ∀ (es : List Edge) (st st' : St) (r : Res α),
    processEdges cfg f adaptee target w es st = (some r, st') →
    (∃ p a, r = .found p a) ∨ ∃ e, r = .raised e
  | [], st, st', r, h => by simp [processEdges] at h
  | (d, o) :: es, st, st', r, h => by
    simp only [processEdges] at h
    by_cases harr : cfg.provides o.to target = true
    · simp only [harr, if_true] at h
      rcases hw : walk f (w.path ++ [o]) adaptee st.trace with ⟨res, tr⟩
      rw [hw] at h
      cases res with
      | done a => simp only [Prod.mk.injEq, Option.some.injEq] at h; exact Or.inl ⟨_, _, h.1.symm⟩
      | raised e => simp only [Prod.mk.injEq, Option.some.injEq] at h; exact Or.inr ⟨_, h.1.symm⟩
      | failed => exact processEdges_some_kind es _ _ _ h
    · simp only [harr, Bool.false_eq_true, if_false] at h
      exact processEdges_some_kind es _ _ _ h

/-- `processEdges` returned a chain: it is the first arriving edge, in the order
given, whose walk succeeded; every arriving edge before it was walked and failed. -/
theorem processEdges_found : ∀ (es : List Edge) (st st' : St) (p : List Offer) (a : α),
    processEdges cfg f adaptee target w es st = (some (.found p a), st') →
    ∃ l1 d o l2, es = l1 ++ (d, o) :: l2 ∧ p = w.path ++ [o] ∧ cfg.provides o.to target = true ∧
      (∃ tr, (walk f p adaptee tr).1 = .done a) ∧
      ∀ d1 o1, (d1, o1) ∈ l1 → cfg.provides o1.to target = true →
        ∃ tr, (walk f (w.path ++ [o1]) adaptee tr).1 = .failed
  | [], st, st', p, a, h => by simp [processEdges] at h
  | (d, o) :: es, st, st', p, a, h => by
    simp only [processEdges] at h
    by_cases harr : cfg.provides o.to target = true
    · simp only [harr, if_true] at h
      rcases hw : walk f (w.path ++ [o]) adaptee st.trace with ⟨res, tr⟩
      rw [hw] at h
      cases res with
      | done a' =>
        simp only [Prod.mk.injEq, Option.some.injEq, Res.found.injEq] at h
        obtain ⟨⟨h1, h2⟩, _⟩ := h
        subst h1; subst h2
        exact ⟨[], d, o, es, rfl, rfl, harr, ⟨st.trace, by rw [hw]⟩, by simp⟩
      | raised e => simp at h
      | failed =>
        obtain ⟨l1, d', o', l2, h1, h2, h3, h4, h5⟩ := processEdges_found es _ _ _ _ h
        refine ⟨(d, o) :: l1, d', o', l2, by rw [h1]; rfl, h2, h3, h4, ?_⟩
        intro d1 o1 hm ha
        rcases List.mem_cons.1 hm with heq | hm
        · simp only [Prod.mk.injEq] at heq
          obtain ⟨_, rfl⟩ := heq
          exact ⟨st.trace, by rw [hw]⟩
        · exact h5 d1 o1 hm ha
    · simp only [harr, Bool.false_eq_true, if_false] at h
      obtain ⟨l1, d', o', l2, h1, h2, h3, h4, h5⟩ := processEdges_found es _ _ _ _ h
      refine ⟨(d, o) :: l1, d', o', l2, by rw [h1]; rfl, h2, h3, h4, ?_⟩
      intro d1 o1 hm ha
      rcases List.mem_cons.1 hm with heq | hm
      · simp only [Prod.mk.injEq] at heq
        obtain ⟨_, rfl⟩ := heq
        rw [ha] at harr; exact absurd rfl harr
      · exact h5 d1 o1 hm ha

/-- `processEdges` fell through (no `return`): what happened to the queue. -/
theorem processEdges_none : ∀ (es : List Edge) (st st' : St),
    processEdges cfg f adaptee target w es st = (none, st') →
    (∀ e ∈ st.queue, e ∈ st'.queue) ∧
    (∀ e ∈ st'.queue, e ∈ st.queue ∨ ∃ d o, (d, o) ∈ es ∧ cfg.provides o.to target = false ∧
        e.path = w.path ++ [o] ∧ e.cur = o.to ∧ e.nAd = w.nAd + 1) ∧
    (∀ d o, (d, o) ∈ es → cfg.provides o.to target = false →
        ∃ e ∈ st'.queue, e.path = w.path ++ [o]) ∧
    (∀ d o, (d, o) ∈ es → cfg.provides o.to target = true →
        ∃ tr, (walk f (w.path ++ [o]) adaptee tr).1 = .failed) ∧
    (QSorted st.queue → QSorted st'.queue)
  | [], st, st', h => by
    simp only [processEdges, Prod.mk.injEq, true_and] at h
    subst h
    refine ⟨fun e he => he, fun e he => Or.inl he, ?_, ?_, fun h => h⟩ <;> simp
  | (d, o) :: es, st, st', h => by
    simp only [processEdges] at h
    by_cases harr : cfg.provides o.to target = true
    · simp only [harr, if_true] at h
      rcases hw : walk f (w.path ++ [o]) adaptee st.trace with ⟨res, tr⟩
      rw [hw] at h
      cases res with
      | done a' => simp at h
      | raised e => simp at h
      | failed =>
        obtain ⟨h1, h2, h3, h4, h5⟩ := processEdges_none es _ _ h
        refine ⟨h1, ?_, ?_, ?_, h5⟩
        · intro e he
          rcases h2 e he with h | ⟨d', o', hm, hr⟩
          · exact Or.inl h
          · exact Or.inr ⟨d', o', List.mem_cons_of_mem _ hm, hr⟩
        · intro d' o' hm hna
          rcases List.mem_cons.1 hm with heq | hm
          · simp only [Prod.mk.injEq] at heq
            obtain ⟨_, rfl⟩ := heq
            rw [harr] at hna; cases hna
          · exact h3 d' o' hm hna
        · intro d' o' hm ha
          rcases List.mem_cons.1 hm with heq | hm
          · simp only [Prod.mk.injEq] at heq
            obtain ⟨_, rfl⟩ := heq
            exact ⟨st.trace, by rw [hw]⟩
          · exact h4 d' o' hm ha
    · have harr' : cfg.provides o.to target = false := by simpa using harr
      simp only [harr, Bool.false_eq_true, if_false] at h
      obtain ⟨h1, h2, h3, h4, h5⟩ := processEdges_none es _ _ h
      simp only at h1 h2 h5
      refine ⟨?_, ?_, ?_, ?_, ?_⟩
      · intro e he
        exact h1 e (mem_qInsert.2 (Or.inr he))
      · intro e he
        rcases h2 e he with h | ⟨d', o', hm, hr⟩
        · rcases mem_qInsert.1 h with rfl | h
          · exact Or.inr ⟨d, o, List.mem_cons_self, harr', rfl, rfl, rfl⟩
          · exact Or.inl h
        · exact Or.inr ⟨d', o', List.mem_cons_of_mem _ hm, hr⟩
      · intro d' o' hm hna
        rcases List.mem_cons.1 hm with heq | hm
        · simp only [Prod.mk.injEq] at heq
          obtain ⟨_, rfl⟩ := heq
          exact ⟨_, h1 _ (mem_qInsert.2 (Or.inl rfl)), rfl⟩
        · exact h3 d' o' hm hna
      · intro d' o' hm ha
        rcases List.mem_cons.1 hm with heq | hm
        · simp only [Prod.mk.injEq] at heq
          obtain ⟨_, rfl⟩ := heq
          rw [ha] at harr'; cases harr'
        · exact h4 d' o' hm ha
      · intro hs
        exact h5 (qInsert_sorted _ _ hs)

end process

/-! ## The invariant -/

/-- A queue entry describes a generated path. -/
structure WF (cfg : Cfg) (src target : Nat) (e : Entry) : Prop where
  reach : Reach cfg src target e.path
  cur : e.cur = endOf src e.path
  nAd : e.nAd = e.path.length

/-- The chain's factories do not all succeed. -/
def Fails (f : Factory α) (adaptee : α) (c : List Offer) : Prop :=
  ¬ ∃ r, SucceedsFrom f 0 c adaptee r

/-- `p` has been expanded: each of its arriving extensions fails. -/
def Done (cfg : Cfg) (src target : Nat) (f : Factory α) (adaptee : α) (p : List Offer) : Prop :=
  ∀ d o, (d, o) ∈ kids cfg src p → cfg.provides o.to target = true → Fails f adaptee (p ++ [o])

structure Inv (cfg : Cfg) (src target : Nat) (f : Factory α) (adaptee : α) (q : List Entry) : Prop where
  wf : ∀ e ∈ q, WF cfg src target e
  sorted : QSorted q
  cover : ∀ p, Reach cfg src target p → (∃ e ∈ q, e.path <+: p) ∨ Done cfg src target f adaptee p

theorem Inv.init (cfg : Cfg) (src target : Nat) (f : Factory α) (adaptee : α) :
    Inv cfg src target f adaptee (initSt src).queue := by
  refine ⟨?_, by simp [initSt, QSorted], ?_⟩
  · intro e he
    simp only [initSt, List.mem_singleton] at he
    subst he
    exact ⟨Reach.nil, rfl, rfl⟩
  · intro p _
    exact Or.inl ⟨⟨0, 0, 0, [], src⟩, by simp [initSt], List.nil_prefix⟩

/-- The head of the queue is popped and expanded without returning: the invariant
holds for the new queue. -/
theorem Inv.step {cfg : Cfg} {src target : Nat} {f : Factory α} {adaptee : α}
    (hdet : Deterministic f) {w : Entry} {rest : List Entry} {st st' : St}
    (hinv : Inv cfg src target f adaptee (w :: rest)) (hq : st.queue = rest)
    (h : processEdges cfg f adaptee target w
      (pySort (edgeLt cfg) (applicable cfg w.cur w.path)) st = (none, st')) :
    Inv cfg src target f adaptee st'.queue := by
  have hw : WF cfg src target w := hinv.wf w List.mem_cons_self
  have hmem : ∀ x, x ∈ pySort (edgeLt cfg) (applicable cfg w.cur w.path) ↔ x ∈ kids cfg src w.path := by
    intro x; rw [mem_pySort, hw.cur]; rfl
  obtain ⟨h1, h2, h3, h4, h5⟩ := processEdges_none cfg f adaptee target w _ _ _ h
  rw [hq] at h1 h2 h5
  refine ⟨?_, h5 (List.pairwise_cons.1 hinv.sorted).2, ?_⟩
  · intro e he
    rcases h2 e he with h | ⟨d, o, hm, hna, hp, hc, hn⟩
    · exact hinv.wf e (List.mem_cons_of_mem _ h)
    · refine ⟨?_, ?_, ?_⟩
      · rw [hp]; exact Reach.snoc hw.reach ((hmem _).1 hm) hna
      · rw [hp, hc, endOf_concat]
      · rw [hp, hn, hw.nAd]; simp
  · intro p hp
    rcases hinv.cover p hp with ⟨e, he, hpre⟩ | hdone
    · rcases List.mem_cons.1 he with rfl | he
      · -- the popped entry was the prefix
        obtain ⟨t, ht⟩ := hpre
        cases t with
        | nil =>
          right
          rw [List.append_nil] at ht
          subst ht
          intro d o hk ha
          obtain ⟨tr, htr⟩ := h4 d o ((hmem _).2 hk) ha
          exact walk_failed_fails hdet htr
        | cons o t =>
          left
          have hpre' : e.path ++ [o] <+: p := ⟨t, by rw [← ht]; simp⟩
          obtain ⟨_, ⟨d, hk⟩, hna⟩ := (hp.of_prefix _ hpre').snoc_inv
          obtain ⟨e', he', hpe'⟩ := h3 d o ((hmem _).2 hk) hna
          exact ⟨e', he', by rw [hpe']; exact hpre'⟩
      · exact Or.inl ⟨e, h1 e he, hpre⟩
    · exact Or.inr hdone

/-! ## What the loop returns -/

theorem adaptLoop_spec {cfg : Cfg} {src target : Nat} {f : Factory α} {adaptee : α}
    (hdet : Deterministic f) : ∀ (fuel : Nat) (st : St),
    Inv cfg src target f adaptee st.queue →
    (∀ tr, adaptLoop cfg f adaptee target fuel st = (.notFound, tr) →
        ∀ p, Reach cfg src target p → Done cfg src target f adaptee p) ∧
    (∀ path a tr, adaptLoop cfg f adaptee target fuel st = (.found path a, tr) →
        Cand cfg src target path ∧ (∃ tr', (walk f path adaptee tr').1 = .done a) ∧
        (∀ c, Cand cfg src target c → ¬ Fails f adaptee c → path.length ≤ c.length) ∧
        (∀ n, (∀ e ∈ st.queue, n ≤ e.nAd) → n < path.length))
  | 0, st, _ => by
    refine ⟨?_, ?_⟩ <;> intros <;> simp_all [adaptLoop]
  | fuel + 1, st, hinv => by
    cases hq : st.queue with
    | nil =>
      rw [hq] at hinv
      refine ⟨?_, ?_⟩
      · intro tr _ p hp
        rcases hinv.cover p hp with ⟨e, he, _⟩ | h
        · cases he
        · exact h
      · intro path a tr h
        simp [adaptLoop, hq] at h
    | cons w rest =>
      rw [hq] at hinv
      have hw : WF cfg src target w := hinv.wf w List.mem_cons_self
      have hmem : ∀ x, x ∈ pySort (edgeLt cfg) (applicable cfg w.cur w.path) ↔
          x ∈ kids cfg src w.path := by
        intro x; rw [mem_pySort, hw.cur]; rfl
      rcases hpe : processEdges cfg f adaptee target w
        (pySort (edgeLt cfg) (applicable cfg w.cur w.path)) { st with queue := rest } with ⟨r, st'⟩
      have hunf : adaptLoop cfg f adaptee target (fuel + 1) st =
          match r with
          | some r => (r, st'.trace)
          | none => adaptLoop cfg f adaptee target fuel st' := by
        simp only [adaptLoop, hq, hpe]
        cases r <;> rfl
      cases r with
      | some r =>
        simp only at hunf
        refine ⟨?_, ?_⟩
        · intro tr h
          rw [hunf] at h
          simp only [Prod.mk.injEq] at h
          rcases processEdges_some_kind cfg f adaptee target w _ _ _ _ hpe with ⟨p, a, hr⟩ | ⟨e, hr⟩
          · rw [hr] at h; cases h.1
          · rw [hr] at h; cases h.1
        · intro path a tr h
          rw [hunf] at h
          simp only [Prod.mk.injEq] at h
          obtain ⟨hr, _⟩ := h
          subst hr
          obtain ⟨l1, d, o, l2, hes, hp, harr, hwalk, _⟩ :=
            processEdges_found cfg f adaptee target w _ _ _ _ _ hpe
          have hk : (d, o) ∈ kids cfg src w.path := (hmem _).1 (by rw [hes]; simp)
          refine ⟨⟨w.path, d, o, hp, hw.reach, hk, harr⟩, hwalk, ?_, ?_⟩
          · intro c hc hnf
            obtain ⟨q, d', o', hcq, hrq, hkq, haq⟩ := hc
            have hlen : w.path.length ≤ q.length := by
              rcases hinv.cover q hrq with ⟨e, he, hpre⟩ | hdone
              · have h1 : e.path.length ≤ q.length := hpre.length_le
                have h2 : w.nAd ≤ e.nAd := by
                  rcases List.mem_cons.1 he with rfl | he
                  · exact Nat.le_refl _
                  · exact ((List.pairwise_cons.1 hinv.sorted).1 e he).nAd_le
                have h3 := (hinv.wf e he).nAd
                have h4 := hw.nAd
                omega
              · exact absurd (hdone d' o' hkq haq) (by rw [← hcq]; exact hnf)
            rw [hp, hcq]
            simp only [List.length_append, List.length_cons, List.length_nil]
            omega
          · intro n hn
            have := hn w List.mem_cons_self
            rw [hp]
            simp only [List.length_append, List.length_cons, List.length_nil]
            have := hw.nAd
            omega
      | none =>
        simp only at hunf
        have hinv' := Inv.step hdet hinv (st := { st with queue := rest }) rfl hpe
        obtain ⟨ih1, ih2⟩ := adaptLoop_spec hdet fuel st' hinv'
        refine ⟨?_, ?_⟩
        · intro tr h; rw [hunf] at h; exact ih1 tr h
        · intro path a tr h
          rw [hunf] at h
          obtain ⟨h1, h2, h3, h4⟩ := ih2 path a tr h
          refine ⟨h1, h2, h3, ?_⟩
          intro n hn
          apply h4
          intro e he
          obtain ⟨_, hb, _, _, _⟩ := processEdges_none cfg f adaptee target w _ _ _ hpe
          rcases hb e he with h | ⟨d, o, _, _, _, _, hnad⟩
          · exact hn e (List.mem_cons_of_mem _ h)
          · have := hn w List.mem_cons_self
            omega

/-! ## Fuel sufficiency -/

/-- Registry entries still usable after `path`. -/
def rem (cfg : Cfg) (path : List Offer) : Nat :=
  (cfg.groups.flatten.filter (fun o => !inPath o path)).length

/-- Weight of a queue entry: the number of offer-simple continuations it can have. -/
def wt (cfg : Cfg) (e : Entry) : Nat := simplePaths (rem cfg e.path)

def mu (cfg : Cfg) (q : List Entry) : Nat := (q.map (wt cfg)).sum

theorem simplePaths_pos (m : Nat) : 0 < simplePaths m := by
  cases m <;> simp [simplePaths] <;> omega

theorem simplePaths_mono : ∀ {m n : Nat}, m ≤ n → simplePaths m ≤ simplePaths n := by
  intro m n h
  induction h with
  | refl => exact Nat.le_refl _
  | @step k _ ih =>
    refine Nat.le_trans ih ?_
    simp only [simplePaths]
    have : simplePaths k ≤ (k + 1) * simplePaths k := Nat.le_mul_of_pos_left _ (Nat.succ_pos k)
    omega

theorem mu_qInsert (cfg : Cfg) (e : Entry) : ∀ q : List Entry, mu cfg (qInsert e q) = wt cfg e + mu cfg q
  | [] => by simp [qInsert, mu]
  | x :: xs => by
    unfold qInsert
    split
    · simp [mu]
    · have ih := mu_qInsert cfg e xs
      simp only [mu, List.map_cons, List.sum_cons] at ih ⊢
      omega

theorem processEdges_mu (cfg : Cfg) (f : Factory α) (adaptee : α) (target : Nat) (w : Entry) :
    ∀ (es : List Edge) (st st' : St) (r : Option (Res α)),
    processEdges cfg f adaptee target w es st = (r, st') →
    mu cfg st'.queue ≤ mu cfg st.queue + (es.map (fun x => simplePaths (rem cfg (w.path ++ [x.2])))).sum
  | [], st, st', r, h => by
    simp only [processEdges, Prod.mk.injEq] at h
    rw [← h.2]; simp
  | (d, o) :: es, st, st', r, h => by
    simp only [processEdges] at h
    by_cases harr : cfg.provides o.to target = true
    · simp only [harr, if_true] at h
      rcases hw : walk f (w.path ++ [o]) adaptee st.trace with ⟨res, tr⟩
      rw [hw] at h
      cases res with
      | done a' => simp only [Prod.mk.injEq] at h; rw [← h.2]; simp only [List.map_cons, List.sum_cons]; omega
      | raised e => simp only [Prod.mk.injEq] at h; rw [← h.2]; simp only [List.map_cons, List.sum_cons]; omega
      | failed =>
        have ih := processEdges_mu cfg f adaptee target w es _ _ _ h
        simp only [List.map_cons, List.sum_cons] at ih ⊢
        omega
    · simp only [harr, Bool.false_eq_true, if_false] at h
      have ih := processEdges_mu cfg f adaptee target w es _ _ _ h
      simp only [mu_qInsert, wt, List.map_cons, List.sum_cons] at ih ⊢
      omega

theorem filter_length_le {β : Type} {p q : β → Bool} (hpq : ∀ x, p x = true → q x = true) :
    ∀ l : List β, (l.filter p).length ≤ (l.filter q).length
  | [] => by simp
  | x :: xs => by
    have ih := filter_length_le hpq xs
    simp only [List.filter_cons]
    by_cases hp : p x = true
    · simp only [hp, hpq x hp, if_true, List.length_cons]; omega
    · by_cases hq : q x = true
      · simp only [hp, hq, if_true, Bool.false_eq_true, if_false, List.length_cons]; omega
      · simp only [hp, hq, Bool.false_eq_true, if_false]; exact ih

theorem filter_length_lt {β : Type} {p q : β → Bool} (hpq : ∀ x, p x = true → q x = true) {a : β}
    (hq : q a = true) (hp : p a = false) :
    ∀ l : List β, a ∈ l → (l.filter p).length < (l.filter q).length
  | [], h => by cases h
  | x :: xs, h => by
    simp only [List.filter_cons]
    by_cases hax : a = x
    · subst hax
      have := filter_length_le hpq xs
      simp only [hp, hq, if_true, Bool.false_eq_true, if_false, List.length_cons]
      omega
    · have hmem : a ∈ xs := by
        rcases List.mem_cons.1 h with h | h
        · exact absurd h hax
        · exact h
      have ih := filter_length_lt hpq hq hp xs hmem
      by_cases hpx : p x = true
      · simp only [hpx, hpq x hpx, if_true, List.length_cons]; omega
      · by_cases hqx : q x = true
        · simp only [hpx, hqx, if_true, Bool.false_eq_true, if_false, List.length_cons]; omega
        · simp only [hpx, hqx, Bool.false_eq_true, if_false]; exact ih

theorem inPath_append (x : Offer) (path : List Offer) (o : Offer) :
    inPath x (path ++ [o]) = (inPath x path || o.id == x.id) := by
  simp [inPath, List.any_append]

/-- Using an applicable offer uses up at least one registry entry. -/
theorem rem_child_lt {cfg : Cfg} {cur : Nat} {path : List Offer} {d : Nat} {o : Offer}
    (h : (d, o) ∈ applicable cfg cur path) : rem cfg (path ++ [o]) < rem cfg path := by
  obtain ⟨g, hg, o0, _, _, hog, hin⟩ := mem_applicable.1 h
  unfold rem
  refine filter_length_lt ?_ (a := o) ?_ ?_ _ ?_
  · intro x hx
    rw [inPath_append] at hx
    simp only [Bool.not_eq_true', Bool.or_eq_false_iff] at hx ⊢
    exact hx.1
  · simp [hin]
  · rw [inPath_append]; simp
  · exact List.mem_flatten.2 ⟨g, hg, hog⟩

theorem length_groupEdges_le (cfg : Cfg) (cur : Nat) (path g : List Offer) :
    (groupEdges cfg cur path g).length ≤ (g.filter (fun o => !inPath o path)).length := by
  cases g with
  | nil => simp [groupEdges]
  | cons o0 tl =>
    simp only [groupEdges]
    cases dist cfg cur o0.frm with
    | none => simp
    | some d => simp

theorem length_flatMap_groupEdges_le (cfg : Cfg) (cur : Nat) (path : List Offer) :
    ∀ gs : List (List Offer), (gs.flatMap (groupEdges cfg cur path)).length ≤
      (gs.flatten.filter (fun o => !inPath o path)).length
  | [] => by simp
  | g :: gs => by
    have ih := length_flatMap_groupEdges_le cfg cur path gs
    have h := length_groupEdges_le cfg cur path g
    simp only [List.flatMap_cons, List.length_append, List.flatten_cons, List.filter_append]
    omega

theorem length_applicable_le (cfg : Cfg) (cur : Nat) (path : List Offer) :
    (applicable cfg cur path).length ≤ rem cfg path :=
  length_flatMap_groupEdges_le cfg cur path cfg.groups

theorem sum_map_le {β : Type} (g : β → Nat) (B : Nat) : ∀ l : List β, (∀ x ∈ l, g x ≤ B) →
    (l.map g).sum ≤ l.length * B
  | [], _ => by simp
  | x :: xs, h => by
    have ih := sum_map_le g B xs (fun y hy => h y (List.mem_cons_of_mem _ hy))
    have hx := h x List.mem_cons_self
    simp only [List.map_cons, List.sum_cons, List.length_cons, Nat.succ_mul]
    omega

/-- One iteration strictly decreases the measure. -/
theorem mu_step (cfg : Cfg) (f : Factory α) (adaptee : α) (target : Nat) (w : Entry) (rest : List Entry)
    (st st' : St) (r : Option (Res α)) (hq : st.queue = rest)
    (h : processEdges cfg f adaptee target w
      (pySort (edgeLt cfg) (applicable cfg w.cur w.path)) st = (r, st')) :
    mu cfg st'.queue < mu cfg (w :: rest) := by
  have hb := processEdges_mu cfg f adaptee target w _ _ _ _ h
  rw [hq] at hb
  have hlen : (pySort (edgeLt cfg) (applicable cfg w.cur w.path)).length ≤ rem cfg w.path := by
    rw [(pySort_perm _ _).length_eq]; exact length_applicable_le cfg w.cur w.path
  have hterm : ∀ x ∈ pySort (edgeLt cfg) (applicable cfg w.cur w.path),
      simplePaths (rem cfg (w.path ++ [x.2])) ≤ simplePaths (rem cfg w.path - 1) := by
    intro x hx
    have hx' : (x.1, x.2) ∈ applicable cfg w.cur w.path := mem_pySort.1 hx
    have := rem_child_lt hx'
    exact simplePaths_mono (by omega)
  have hsum := sum_map_le _ _ _ hterm
  simp only [mu, List.map_cons, List.sum_cons, wt] at hb ⊢
  cases hrem : rem cfg w.path with
  | zero =>
    rw [hrem] at hlen
    have : (pySort (edgeLt cfg) (applicable cfg w.cur w.path)).length = 0 := by omega
    rw [this] at hsum
    simp only [simplePaths]
    omega
  | succ m =>
    rw [hrem] at hlen hsum
    simp only [Nat.add_sub_cancel] at hsum
    have h2 : (pySort (edgeLt cfg) (applicable cfg w.cur w.path)).length * simplePaths m ≤
        (m + 1) * simplePaths m := Nat.mul_le_mul_right _ hlen
    simp only [simplePaths]
    omega

/-- With more fuel than the measure of the queue, the loop never runs dry. -/
theorem adaptLoop_fuel (cfg : Cfg) (f : Factory α) (adaptee : α) (target : Nat) :
    ∀ (fuel : Nat) (st : St), mu cfg st.queue < fuel →
      (adaptLoop cfg f adaptee target fuel st).1 ≠ .outOfFuel
  | 0, _, h => by omega
  | fuel + 1, st, h => by
    cases hq : st.queue with
    | nil => simp [adaptLoop, hq]
    | cons w rest =>
      rcases hpe : processEdges cfg f adaptee target w
        (pySort (edgeLt cfg) (applicable cfg w.cur w.path)) { st with queue := rest } with ⟨r, st'⟩
      have hmu := mu_step cfg f adaptee target w rest _ _ _ rfl hpe
      rw [hq] at h
      cases r with
      | some r =>
        have : adaptLoop cfg f adaptee target (fuel + 1) st = (r, st'.trace) := by
          simp only [adaptLoop, hq, hpe]
        rw [this]
        rcases processEdges_some_kind cfg f adaptee target w _ _ _ _ hpe with ⟨p, a, hr⟩ | ⟨e, hr⟩ <;>
          simp [hr]
      | none =>
        have : adaptLoop cfg f adaptee target (fuel + 1) st = adaptLoop cfg f adaptee target fuel st' := by
          simp only [adaptLoop, hq, hpe]
        rw [this]
        exact adaptLoop_fuel cfg f adaptee target fuel st' (by omega)

theorem rem_nil (cfg : Cfg) : rem cfg [] = nOffers cfg := by
  unfold rem nOffers
  rw [List.filter_eq_self.2]
  intro a _; simp [inPath]

/-- `fuelFor` is enough: `_adapt` as modelled always terminates by itself. -/
theorem fuel_suffices (cfg : Cfg) (f : Factory α) (srcType : Nat) (adaptee : α) (target : Nat) :
    (adaptInner cfg f srcType adaptee target).1 ≠ .outOfFuel := by
  unfold adaptInner
  apply adaptLoop_fuel
  simp [mu, initSt, wt, rem_nil, fuelFor]

end TraitsVerif.Lemmas.Adapt
