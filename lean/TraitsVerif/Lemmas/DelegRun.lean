/-
Histories of the `deleg` model: the invariants hold in every reachable state (induction over the
operation list), the local value of a prototyped attribute is only touched by operations on that
very attribute.
-/
import TraitsVerif.Lemmas.DelegInv
namespace TraitsVerif.Model.Deleg

/-! ### initial pools -/

theorem mkPool_obj (cs : List Cls) (o : ObjId) : ∃ c, (mkPool cs).obj o = mkObj c ∧ (c ∈ cs ∨ c = ⟨none, []⟩) := by
  unfold mkPool
  simp only []
  cases h : cs[o]? with
  | none => exact ⟨_, rfl, Or.inr rfl⟩
  | some c => exact ⟨c, rfl, Or.inl (List.mem_of_getElem? h)⟩

theorem mkPool_inv (cs : List Cls) (hwf : ∀ c ∈ cs, ClsWF c) : Inv (mkPool cs) := by
  refine ⟨?_, ?_, ?_, ?_⟩
  · intro o
    obtain ⟨c, hc, hm⟩ := mkPool_obj cs o
    rw [hc]
    rcases hm with hm | rfl
    · exact hwf c hm
    · simp [ClsWF, mkObj]
  · intro o n d _ _
    obtain ⟨c, hc, _⟩ := mkPool_obj cs o
    rw [hc]; rfl
  · intro o n
    obtain ⟨c, hc, _⟩ := mkPool_obj cs o
    rw [hc]
    simp only [mkObj]
    constructor
    · intro h
      cases htd : c.trait n with
      | defer d => exact ⟨d, rfl⟩
      | plain a b c => simp [htd] at h
      | python => simp [htd] at h
    · intro d _ hd; exact absurd rfl hd
  · intro o n h
    obtain ⟨c, hc, _⟩ := mkPool_obj cs o
    rw [hc]
    simp only [mkObj]
    cases c.trait n <;> simp

theorem mkPool_linked (cs : List Cls) : Linked (mkPool cs) := by
  intro o n d htd _
  obtain ⟨c, hc, _⟩ := mkPool_obj cs o
  rw [hc] at htd ⊢
  simp only [mkObj] at htd ⊢
  rw [htd]

/-! ### histories -/

theorem runPool_inv (E : Env) : ∀ (ops : List Op) (k : Nat) (p : Pool), Inv p → Inv (runPool E k p ops)
  | [], _, _, I => I
  | op :: ops, k, p, I => runPool_inv E ops (k + 1) _ (effect_inv (step_effect E k p op) I)

theorem runPool_frame (E : Env) : ∀ (ops : List Op) (k : Nat) (p : Pool),
    (runPool E k p ops).size = p.size ∧ ∀ j, ((runPool E k p ops).obj j).cls = (p.obj j).cls
  | [], _, _ => ⟨rfl, fun _ => rfl⟩
  | op :: ops, k, p => by
    obtain ⟨h1, h2⟩ := runPool_frame E ops (k + 1) (step E k p op).pool
    obtain ⟨h3, h4⟩ := effect_frame (step_effect E k p op)
    exact ⟨by simp only [runPool]; rw [h1, h3], fun j => by simp only [runPool]; rw [h2, h4]⟩

/-- No `del` of a prototyped value raised after deleting (its read-back through the link failed) during
the history — observable: no failing operation changed state.  Since fix bead785 this is the only way
a link can be left without forwarder (`step_flags`). -/
def NoBrokenDel (E : Env) (k : Nat) (p : Pool) (ops : List Op) : Prop :=
  ∀ s ∈ run E k p ops, s.broken = false

theorem runPool_linked (E : Env) : ∀ (ops : List Op) (k : Nat) (p : Pool),
    Inv p → Linked p → NoBrokenDel E k p ops → Linked (runPool E k p ops)
  | [], _, _, _, L, _ => L
  | op :: ops, k, p, I, L, hnf => by
    have h0 := hnf (step E k p op) (by simp [run])
    have hrest : NoBrokenDel E (k + 1) (step E k p op).pool ops := fun s hs => hnf s (by simp [run, hs])
    exact runPool_linked E ops (k + 1) _ (effect_inv (step_effect E k p op) I)
      (effect_linked (step_effect E k p op) (step_flags E k p op).1 h0 I L) hrest

/-- Histories without `del` never break a link. -/
theorem noBrokenDel_of_no_del (E : Env) : ∀ (ops : List Op) (k : Nat) (p : Pool),
    (∀ op ∈ ops, ∀ o n, op ≠ .del o n) → NoBrokenDel E k p ops
  | [], _, _, _ => by intro s hs; simp [run] at hs
  | op :: ops, k, p, h => by
    intro s hs
    simp only [run, List.mem_cons] at hs
    rcases hs with rfl | hs
    · cases hb : (step E k p op).broken with
      | false => rfl
      | true =>
        obtain ⟨o, n, _, hop, _⟩ := (step_flags E k p op).2 hb
        exact absurd hop (h op (by simp) o n)
    · exact noBrokenDel_of_no_del E ops (k + 1) _ (fun op' h' => h op' (by simp [h'])) s hs

/-! ### independence of a prototyped attribute that holds a local value -/

/-- Does the operation assign or delete attribute `n` of object `o`? -/
def Op.touches (o : ObjId) (n : Name) : Op → Bool
  | .set o' n' _ => o' = o ∧ n' = n
  | .del o' n' => o' = o ∧ n' = n
  | _ => false

theorem effect_untouched {p p' : Pool} {op : Op} {hx : Nat} {br : Bool} (h : Effect p op p' hx br)
    {o : ObjId} {n : Name} {d : DelegInfo} (htd : (p.obj o).cls.trait n = .defer d) (hnt : op.touches o n = false) :
    (p'.obj o).dict n = (p.obj o).dict n := by
  cases h with
  | same => rfl
  | dictTarget _ x t v _ _ hnd => exact setDict_nondefer_dict hnd htd
  | localSet o' n' v d' w =>
    simp only [Op.touches, decide_eq_false_iff_not] at hnt
    have hnt' : ¬(o = o' ∧ n = n') := fun h => hnt ⟨h.1.symm, h.2.symm⟩
    simp only [unlink_dict, setDict_dict, hnt', if_false]
  | localDel o' n' d' =>
    simp only [Op.touches, decide_eq_false_iff_not] at hnt
    have hnt' : ¬(o = o' ∧ n = n') := fun h => hnt ⟨h.1.symm, h.2.symm⟩
    simp only [setDict_dict, hnt', if_false]
  | relink o' n' d' p1 h _ _ _ hp1 =>
    simp only [Op.touches, decide_eq_false_iff_not] at hnt
    have hnt' : ¬(o = o' ∧ n = n') := fun h => hnt ⟨h.1.symm, h.2.symm⟩
    rcases hp1 with rfl | rfl
    · simp
    · simp only [setFwd_dict, setDict_dict, hnt', if_false]
  | swap o' t =>
    rw [(rehook_frame o' _ _ o).2.2.1]; simp

theorem runPool_untouched (E : Env) (o : ObjId) (n : Name) (d : DelegInfo) :
    ∀ (ops : List Op) (k : Nat) (p : Pool), (p.obj o).cls.trait n = .defer d →
      (∀ op ∈ ops, op.touches o n = false) → ((runPool E k p ops).obj o).dict n = (p.obj o).dict n
  | [], _, _, _, _ => rfl
  | op :: ops, k, p, htd, hnt => by
    have he := step_effect E k p op
    have h1 := effect_untouched he htd (hnt op (by simp))
    have h2 : ((step E k p op).pool.obj o).cls.trait n = .defer d := by rw [(effect_frame he).2]; exact htd
    simp only [runPool]
    rw [runPool_untouched E o n d ops (k + 1) _ h2 (fun op' h' => hnt op' (by simp [h'])), h1]

end TraitsVerif.Model.Deleg
