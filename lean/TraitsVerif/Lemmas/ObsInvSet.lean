/-
Cluster `obs`: the refinement invariant is preserved by a trait assignment
`o.n = v` (fragment `SetFrag`).
-/
import TraitsVerif.Lemmas.ObsInvLoop
namespace TraitsVerif.Model.Obs
open TraitsVerif

/-! ### the two lists of trait-maintainer keys -/

def mtKey : Notifier → Option NKey
  | .maint .trait c k => some (.maint .trait c k)
  | _ => none

@[simp] theorem mtKey_user (k : HKey) (rc : Nat) : mtKey (.user k rc) = none := rfl
@[simp] theorem mtKey_trait (c : Graph) (k : HKey) : mtKey (.maint .trait c k) = some (.maint .trait c k) := rfl
@[simp] theorem mtKey_list (c : Graph) (k : HKey) : mtKey (.maint .list c k) = none := rfl
@[simp] theorem mtKey_dict (c : Graph) (k : HKey) : mtKey (.maint .dict c k) = none := rfl
@[simp] theorem mtKey_set (c : Graph) (k : HKey) : mtKey (.maint .set c k) = none := rfl
@[simp] theorem mtKey_added (c : Graph) (k : HKey) : mtKey (.maint .added c k) = none := rfl

/-- trait maintainers found in a notifier list -/
def mtKeys (ns : List Notifier) : List NKey := ns.filterMap mtKey

/-- trait maintainers the visits of all registrations owe -/
def visitKeys (h : Heap) (o : Id) (n : Name) (regs : List Reg) : List NKey :=
  regs.flatMap (fun r => (visits h o n r.g (some r.x)).map (fun c => NKey.maint .trait c r.k))

def keyF (F : Graph → HKey → Nat) : NKey → Nat
  | .maint .trait c k => F c k
  | _ => 0

theorem effectSum_eq_keys (F : Graph → HKey → Nat) (ns : List Notifier) :
    effectSum F ns = ((mtKeys ns).map (keyF F)).sum := by
  induction ns with
  | nil => rfl
  | cons nt ns ih =>
    have : effectSum F (nt :: ns) = effect F nt + effectSum F ns := by simp [effectSum]
    rw [this, ih]
    cases nt with
    | user k rc => simp [mtKeys, effect, List.filterMap_cons]
    | maint mk g k => cases mk <;> simp [mtKeys, effect, keyF, List.filterMap_cons]

theorem blocks_eq_keys (h' : Heap) (val : Val) (o' : Observable) (q : NKey) (k : HKey) (vs : List Graph) :
    blocks h' k val vs o' q = ((vs.map (fun c => NKey.maint .trait c k)).map (keyF (blockAt h' val o' q))).sum := by
  simp [blocks, keyF, blockAt, List.map_map, Function.comp_def]

theorem sum_blocks_eq_keys (h h' : Heap) (o : Id) (n : Name) (val : Val) (o' : Observable) (q : NKey)
    (regs : List Reg) :
    (regs.map (fun r => blocks h' r.k val (visits h o n r.g (some r.x)) o' q)).sum =
      ((visitKeys h o n regs).map (keyF (blockAt h' val o' q))).sum := by
  induction regs with
  | nil => rfl
  | cons r regs ih =>
    simp only [List.map_cons, List.sum_cons, visitKeys, List.flatMap_cons, List.map_append, List.sum_append]
    rw [blocks_eq_keys]
    simp only [visitKeys] at ih
    rw [ih]

theorem cntList_eq_countP (c0 : Graph) (k0 : HKey) (ns : List Notifier) :
    cntList (.maint .trait c0 k0) ns = (mtKeys ns).countP (fun a => a.equals (.maint .trait c0 k0)) := by
  induction ns with
  | nil => rfl
  | cons nt ns ih =>
    cases nt with
    | user k rc => simp only [cntList, mtKeys, List.filterMap_cons, mtKey_user, NKey.equals] at ih ⊢; simpa using ih
    | maint mk g k =>
      cases mk with
      | trait =>
        simp only [cntList, mtKeys, List.filterMap_cons, mtKey_trait, List.countP_cons] at ih ⊢
        rw [ih]; omega
      | list => simp only [cntList, mtKeys, List.filterMap_cons, mtKey_list, NKey.equals] at ih ⊢; simpa using ih
      | dict => simp only [cntList, mtKeys, List.filterMap_cons, mtKey_dict, NKey.equals] at ih ⊢; simpa using ih
      | set => simp only [cntList, mtKeys, List.filterMap_cons, mtKey_set, NKey.equals] at ih ⊢; simpa using ih
      | added => simp only [cntList, mtKeys, List.filterMap_cons, mtKey_added, NKey.equals] at ih ⊢; simpa using ih

theorem visitKeys_countP (h : Heap) (o : Id) (n : Name) (regs : List Reg) (q : NKey) :
    (visitKeys h o n regs).countP (fun a => a.equals q) =
      (regs.map (fun r => visitHits r.k (visits h o n r.g (some r.x)) q)).sum := by
  induction regs with
  | nil => rfl
  | cons r regs ih =>
    simp only [visitKeys, List.flatMap_cons, List.countP_append, List.map_cons, List.sum_cons] at ih ⊢
    rw [ih]
    congr 1
    generalize visits h o n r.g (some r.x) = vs
    induction vs with
    | nil => rfl
    | cons c vs ihv =>
      simp only [List.map_cons, List.countP_cons, visitHits, List.sum_cons, hit] at ihv ⊢
      rw [ihv]; split <;> omega

theorem mtKeys_shape (ns : List Notifier) : ∀ a ∈ mtKeys ns, ∃ c k, a = .maint .trait c k ∧ Notifier.maint .trait c k ∈ ns := by
  intro a ha
  simp only [mtKeys, List.mem_filterMap] at ha
  obtain ⟨nt, hnt, hk⟩ := ha
  cases nt with
  | user k rc => simp at hk
  | maint mk g k =>
    cases mk <;> simp at hk
    exact ⟨g, k, hk.symm, hnt⟩

theorem visitKeys_shape (h : Heap) (o : Id) (n : Name) (regs : List Reg) :
    ∀ a ∈ visitKeys h o n regs, ∃ r ∈ regs, ∃ c ∈ visits h o n r.g (some r.x), a = .maint .trait c r.k := by
  intro a ha
  simp only [visitKeys, List.mem_flatMap, List.mem_map] at ha
  obtain ⟨r, hr, c, hc, rfl⟩ := ha
  exact ⟨r, hr, c, hc, rfl⟩

theorem countP_zero_of_shape (L : List NKey) (q : NKey) (hL : ∀ a ∈ L, ∃ c k, a = .maint .trait c k)
    (hq : ∀ c k, q ≠ .maint .trait c k) : L.countP (fun a => a.equals q) = 0 := by
  rw [List.countP_eq_zero]
  intro a ha
  obtain ⟨c, k, rfl⟩ := hL a ha
  cases q with
  | user k' => simp [NKey.equals]
  | maint mk' g' k' =>
    cases mk' with
    | trait => exact absurd rfl (hq g' k')
    | _ => simp [NKey.equals]

/-! ### the fragment -/

/-- Hypotheses under which `o.n = v` preserves the invariant. -/
structure SetFrag (E : Env) (st : St) (regs : List Reg) (o : Id) (n : Name) (v : Val)
    (fs : List Field) (f : Field) : Prop where
  ho : st.h.get o = .inst fs
  hf : findField fs n = some f
  /-- the trait has been materialised (its value is in `__dict__`) -/
  hset : f.val ≠ .unset
  /-- no `filtered` (`*`, `+metadata`) node in any active registration -/
  noFiltered : ∀ r ∈ regs, r.g.noFiltered = true
  alive : ∀ k, E.dead k = false
  notName : ∀ m, v ≠ .name m
  /-- the walks the maintainers perform meet no failing `iter_*` -/
  okOld : ∀ c k, Notifier.maint .trait c k ∈ st.H.get (.trait o n) → ∀ w ∈ valObjects f.val,
    walkOk (storeField st.h o n v) true c w = true
  okNew : ∀ c k, Notifier.maint .trait c k ∈ st.H.get (.trait o n) → ∀ w ∈ valObjects v,
    walkOk (storeField st.h o n v) true c w = true
  /-- NoSelfReach: below the OLD value, the maintained sub-graphs never come back
  to the mutated trait (F10 is exactly the failure of this) -/
  noSelfReach : ∀ r ∈ regs, ∀ c ∈ visits st.h o n r.g (some r.x), ∀ w ∈ valObjects f.val,
    ∀ it ∈ hookList st.h r.k true c w, it.1 ≠ .trait o n
  /-- graph equality is structural on the sub-graphs involved (no two of them
  differ only in the order of parallel branches) -/
  eqStruct : ∀ c k, Notifier.maint .trait c k ∈ st.H.get (.trait o n) → ∀ r ∈ regs,
    ∀ c' ∈ visits st.h o n r.g (some r.x),
    (NKey.maint .trait c k).equals (.maint .trait c' r.k) = true → c = c' ∧ k = r.k

end TraitsVerif.Model.Obs
