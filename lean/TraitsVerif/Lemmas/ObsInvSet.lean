/-
Cluster `obs`: the refinement invariant is preserved by a trait assignment
`o.n = v` (fragment `SetFrag`).
-/
import TraitsVerif.Lemmas.ObsInvLoop
namespace TraitsVerif.Model.Obs
open TraitsVerif

/-! ### the two lists of trait-maintainer keys -/

def mtKey : Notifier → Option NKey
  | .maint .trait c k => some (.maint .trait c k)
  | _ => none

@[simp] theorem mtKey_user (k : HKey) (rc : Nat) : mtKey (.user k rc) = none := rfl
@[simp] theorem mtKey_trait (c : Graph) (k : HKey) : mtKey (.maint .trait c k) = some (.maint .trait c k) := rfl
@[simp] theorem mtKey_list (c : Graph) (k : HKey) : mtKey (.maint .list c k) = none := rfl
@[simp] theorem mtKey_dict (c : Graph) (k : HKey) : mtKey (.maint .dict c k) = none := rfl
@[simp] theorem mtKey_set (c : Graph) (k : HKey) : mtKey (.maint .set c k) = none := rfl
@[simp] theorem mtKey_added (c : Graph) (k : HKey) : mtKey (.maint .added c k) = none := rfl

/-- trait maintainers found in a notifier list -/
def mtKeys (ns : List Notifier) : List NKey := ns.filterMap mtKey

/-- trait maintainers the visits of all registrations owe -/
def visitKeys (h : Heap) (o : Id) (n : Name) (regs : List Reg) : List NKey :=
  regs.flatMap (fun r => (visits h o n r.g (some r.x)).map (fun c => NKey.maint .trait c r.k))

def keyF (F : Graph → HKey → Nat) : NKey → Nat
  | .maint .trait c k => F c k
  | _ => 0

theorem effectSum_eq_keys (F : Graph → HKey → Nat) (ns : List Notifier) :
    effectSum F ns = ((mtKeys ns).map (keyF F)).sum := by
  induction ns with
  | nil => rfl
  | cons nt ns ih =>
    have : effectSum F (nt :: ns) = effect F nt + effectSum F ns := by simp [effectSum]
    rw [this, ih]
    cases nt with
    | user k rc => simp [mtKeys, effect, List.filterMap_cons]
    | maint mk g k => cases mk <;> simp [mtKeys, effect, keyF, List.filterMap_cons]

theorem blocks_eq_keys (h' : Heap) (val : Val) (o' : Observable) (q : NKey) (k : HKey) (vs : List Graph) :
    blocks h' k val vs o' q = ((vs.map (fun c => NKey.maint .trait c k)).map (keyF (blockAt h' val o' q))).sum := by
  simp [blocks, keyF, blockAt, List.map_map, Function.comp_def]

theorem sum_blocks_eq_keys (h h' : Heap) (o : Id) (n : Name) (val : Val) (o' : Observable) (q : NKey)
    (regs : List Reg) :
    (regs.map (fun r => blocks h' r.k val (visits h o n r.g (some r.x)) o' q)).sum =
      ((visitKeys h o n regs).map (keyF (blockAt h' val o' q))).sum := by
  induction regs with
  | nil => rfl
  | cons r regs ih =>
    simp only [List.map_cons, List.sum_cons, visitKeys, List.flatMap_cons, List.map_append, List.sum_append]
    rw [blocks_eq_keys]
    simp only [visitKeys] at ih
    rw [ih]

theorem cntList_eq_countP (c0 : Graph) (k0 : HKey) (ns : List Notifier) :
    cntList (.maint .trait c0 k0) ns = (mtKeys ns).countP (fun a => a.equals (.maint .trait c0 k0)) := by
  induction ns with
  | nil => rfl
  | cons nt ns ih =>
    cases nt with
    | user k rc => simp only [cntList, mtKeys, List.filterMap_cons, mtKey_user, NKey.equals] at ih ⊢; simpa using ih
    | maint mk g k =>
      cases mk with
      | trait =>
        simp only [cntList, mtKeys, List.filterMap_cons, mtKey_trait, List.countP_cons] at ih ⊢
        rw [ih]; omega
      | list => simp only [cntList, mtKeys, List.filterMap_cons, mtKey_list, NKey.equals] at ih ⊢; simpa using ih
      | dict => simp only [cntList, mtKeys, List.filterMap_cons, mtKey_dict, NKey.equals] at ih ⊢; simpa using ih
      | set => simp only [cntList, mtKeys, List.filterMap_cons, mtKey_set, NKey.equals] at ih ⊢; simpa using ih
      | added => simp only [cntList, mtKeys, List.filterMap_cons, mtKey_added, NKey.equals] at ih ⊢; simpa using ih

theorem visitKeys_countP (h : Heap) (o : Id) (n : Name) (regs : List Reg) (q : NKey) :
    (visitKeys h o n regs).countP (fun a => a.equals q) =
      (regs.map (fun r => visitHits r.k (visits h o n r.g (some r.x)) q)).sum := by
  induction regs with
  | nil => rfl
  | cons r regs ih =>
    simp only [visitKeys, List.flatMap_cons, List.countP_append, List.map_cons, List.sum_cons] at ih ⊢
    rw [ih]
    congr 1
    generalize visits h o n r.g (some r.x) = vs
    induction vs with
    | nil => rfl
    | cons c vs ihv =>
      simp only [List.map_cons, List.countP_cons, visitHits, List.sum_cons, hit] at ihv ⊢
      rw [ihv]; split <;> omega

theorem mtKeys_shape (ns : List Notifier) : ∀ a ∈ mtKeys ns, ∃ c k, a = .maint .trait c k ∧ Notifier.maint .trait c k ∈ ns := by
  intro a ha
  simp only [mtKeys, List.mem_filterMap] at ha
  obtain ⟨nt, hnt, hk⟩ := ha
  cases nt with
  | user k rc => simp at hk
  | maint mk g k =>
    cases mk <;> simp at hk
    exact ⟨g, k, hk.symm, hnt⟩

theorem visitKeys_shape (h : Heap) (o : Id) (n : Name) (regs : List Reg) :
    ∀ a ∈ visitKeys h o n regs, ∃ r ∈ regs, ∃ c ∈ visits h o n r.g (some r.x), a = .maint .trait c r.k := by
  intro a ha
  simp only [visitKeys, List.mem_flatMap, List.mem_map] at ha
  obtain ⟨r, hr, c, hc, rfl⟩ := ha
  exact ⟨r, hr, c, hc, rfl⟩

theorem countP_zero_of_shape (L : List NKey) (q : NKey) (hL : ∀ a ∈ L, ∃ c k, a = .maint .trait c k)
    (hq : ∀ c k, q ≠ .maint .trait c k) : L.countP (fun a => a.equals q) = 0 := by
  rw [List.countP_eq_zero]
  intro a ha
  obtain ⟨c, k, rfl⟩ := hL a ha
  cases q with
  | user k' => simp [NKey.equals]
  | maint mk' g' k' =>
    cases mk' with
    | trait => exact absurd rfl (hq g' k')
    | _ => simp [NKey.equals]

/-! ### the fragment -/

/-- Hypotheses under which `o.n = v` preserves the invariant. -/
structure SetFrag (E : Env) (st : St) (regs : List Reg) (o : Id) (n : Name) (v : Val)
    (fs : List Field) (f : Field) : Prop where
  ho : st.h.get o = .inst fs
  hf : findField fs n = some f
  /-- no `filtered` (`*`, `+metadata`) node in any active registration -/
  noFiltered : ∀ r ∈ regs, r.g.noFiltered = true
  alive : ∀ k, E.dead k = false
  notName : ∀ m, v ≠ .name m
  /-- the walks the maintainers perform meet no failing `iter_*` -/
  okOld : ∀ c k, Notifier.maint .trait c k ∈ st.H.get (.trait o n) → ∀ w ∈ valObjects f.val,
    walkOk (storeField st.h o n v) true c w = true
  okNew : ∀ c k, Notifier.maint .trait c k ∈ st.H.get (.trait o n) → ∀ w ∈ valObjects v,
    walkOk (storeField st.h o n v) true c w = true
  /-- NoSelfReach: below the OLD value, the maintained sub-graphs never come back
  to the mutated trait (F10 is exactly the failure of this) -/
  noSelfReach : ∀ r ∈ regs, ∀ c ∈ visits st.h o n r.g (some r.x), ∀ w ∈ valObjects f.val,
    ∀ it ∈ hookList st.h r.k true c w, it.1 ≠ .trait o n
  /-- graph equality is structural on the sub-graphs involved (no two of them
  differ only in the order of parallel branches) -/
  eqStruct : ∀ c k, Notifier.maint .trait c k ∈ st.H.get (.trait o n) → ∀ r ∈ regs,
    ∀ c' ∈ visits st.h o n r.g (some r.x),
    (NKey.maint .trait c k).equals (.maint .trait c' r.k) = true → c = c' ∧ k = r.k

/-! ### auxiliary facts -/

theorem cntItems_zero_of_ne (l : List Item) (o' : Observable) (q : NKey) (hne : ∀ it ∈ l, it.1 ≠ o') :
    cntItems l o' q = 0 := by
  induction l with
  | nil => rfl
  | cons it l ih =>
    rw [cntItems_cons, ih (fun i hi => hne i (List.mem_cons_of_mem _ hi))]
    simp [wt, hne it (List.mem_cons_self ..)]

theorem visits_noFiltered (h : Heap) (o : Id) (n : Name) :
    ∀ g : Graph, g.noFiltered = true → ∀ x, ∀ c ∈ visits h o n g x, c.noFiltered = true := by
  apply Graph.ind (P := fun g => g.noFiltered = true → ∀ x, ∀ c ∈ visits h o n g x, c.noFiltered = true)
  intro ob cs ih hnf x c hc
  obtain ⟨_, hcs⟩ := (Graph.noFiltered_node ob cs).1 hnf
  have hC : ∀ cs' : List Graph, (∀ c' ∈ cs', c' ∈ cs) → ∀ c ∈ visitsCs h o n ob x cs', c.noFiltered = true := by
    intro cs'
    induction cs' with
    | nil => intro _ c hc; simp [visitsCs] at hc
    | cons c' cs' ihc =>
      intro hsub c hc
      simp only [visitsCs, List.mem_append] at hc
      rcases hc with h1 | h1
      · split at h1
        · cases h1
        · simp only [List.mem_flatMap] at h1
          obtain ⟨y, _, hy⟩ := h1
          exact ih c' (hsub c' (List.mem_cons_self ..)) (hcs c' (hsub c' (List.mem_cons_self ..))) y c hy
      · exact ihc (fun c'' h'' => hsub c'' (List.mem_cons_of_mem _ h'')) c h1
  simp only [visits, List.mem_append] at hc
  rcases hc with h1 | h1
  · split at h1
    · exact hcs c h1
    · cases h1
  · exact hC cs (fun c' h' => h') c h1

theorem fieldVal_of_find {h : Heap} {o : Id} {n : Name} {fs : List Field} {f : Field}
    (ho : h.get o = .inst fs) (hf : findField fs n = some f) : fieldVal h (some o) n = f.val := by
  simp [fieldVal, Heap.at, ho, hf]

theorem sum_map_congr {α} (l : List α) (f g : α → Nat) (hfg : ∀ a ∈ l, f a = g a) :
    (l.map f).sum = (l.map g).sum := by
  induction l with
  | nil => rfl
  | cons a l ih =>
    simp only [List.map_cons, List.sum_cons, hfg a (List.mem_cons_self ..),
      ih (fun b hb => hfg b (List.mem_cons_of_mem _ hb))]

theorem sum_map_zero {α} (l : List α) (f : α → Nat) (hf : ∀ a ∈ l, f a = 0) : (l.map f).sum = 0 := by
  induction l with
  | nil => rfl
  | cons a l ih =>
    simp only [List.map_cons, List.sum_cons, hf a (List.mem_cons_self ..),
      ih (fun b hb => hf b (List.mem_cons_of_mem _ hb))]

theorem cntList_pos_of_mem (mk : MKind) (g : Graph) (k : HKey) (ns : List Notifier)
    (hm : Notifier.maint mk g k ∈ ns) : 0 < cntList (.maint mk g k) ns := by
  induction ns with
  | nil => cases hm
  | cons nt ns ih =>
    cases hm with
    | head => simp [cntList, NKey.equals_refl]; omega
    | tail _ h' =>
      have := ih h'
      cases nt <;> simp only [cntList] <;> omega

theorem cnt_pos_of_user (H : Hooks) (o : Observable) (k : HKey) (rc : Nat)
    (hm : Notifier.user k rc ∈ H.get o) (hrc : 0 < rc) : 0 < cnt H o (.user k) := by
  unfold cnt
  generalize H.get o = ns at hm
  induction ns with
  | nil => cases hm
  | cons nt ns ih =>
    cases hm with
    | head => simp [cntList, NKey.equals]; omega
    | tail _ h' =>
      have := ih h'
      cases nt <;> simp only [cntList] <;> omega

/-- observers whose observables are instance traits contribute trait maintainers -/
theorem observables_trait_kind (h : Heap) (ob : Observer) (x : W) (a : Id) (b : Name)
    (hm : Observable.trait a b ∈ okOr [] (observables h ob x)) : ob.mkind = .trait := by
  cases ob with
  | named m nt opt => rfl
  | filtered fl nt => rfl
  | listItems nt opt =>
    exfalso
    simp only [observables] at hm
    split at hm
    · simp [okOr] at hm
    · split at hm <;> simp [okOr] at hm
  | dictItems nt opt =>
    exfalso
    simp only [observables] at hm
    split at hm
    · simp [okOr] at hm
    · split at hm <;> simp [okOr] at hm
  | setItems nt opt =>
    exfalso
    simp only [observables] at hm
    split at hm
    · simp [okOr] at hm
    · split at hm <;> simp [okOr] at hm

/-- on an instance trait the from-scratch walk owes only user notifiers, trait
maintainers and trait_added maintainers -/
def KindOK (it : Item) : Prop :=
  ∀ a b mk c k, it.1 = .trait a b → it.2 = .maint mk c k → mk = .trait ∨ mk = .added

theorem hookList_kinds (h : Heap) (k : HKey) :
    ∀ g : Graph, ∀ (e : Bool) (x : W), ∀ it ∈ hookList h k e g x, KindOK it := by
  apply Graph.ind (P := fun g => ∀ (e : Bool) (x : W), ∀ it ∈ hookList h k e g x, KindOK it)
  intro ob cs ih e x it hit
  rw [hookList_node, List.mem_append, List.mem_append] at hit
  rcases hit with (h1 | h1) | h1
  · -- own items
    simp only [ownItems, List.mem_append, List.mem_flatMap, List.mem_map] at h1
    rcases h1 with h2 | ⟨ob', hob', c, _, rfl⟩
    · split at h2
      · simp only [List.mem_map] at h2
        obtain ⟨ob', _, rfl⟩ := h2
        intro a b mk c k' _ h4; cases h4
      · cases h2
    · intro a b mk c' k' h3 h4
      simp only at h3 h4
      subst h3
      injection h4 with e1 _ _
      rw [← e1, observables_trait_kind h ob x a b hob']
      exact Or.inl rfl
  · obtain ⟨c, hc, y, _, hm⟩ := (mem_hookListCs h k ob x cs it).1 h1
    exact ih c hc true y it hm
  · split at h1
    · simp only [extraItems, List.mem_map] at h1
      obtain ⟨ob', _, rfl⟩ := h1
      intro a b mk c k' _ h4
      injection h4 with e1 _ _
      exact Or.inr e1.symm
    · cases h1

theorem specCnt_kind_trait (h : Heap) (regs : List Reg) (o : Id) (n : Name) (q : NKey)
    (hq : ∃ mk c k, q = .maint mk c k ∧ mk ≠ .trait ∧ mk ≠ .added) :
    specCnt h regs (.trait o n) q = 0 := by
  obtain ⟨mk, c, k, rfl, h1, h2⟩ := hq
  unfold specCnt
  apply sum_map_zero
  intro r _
  unfold cntItems
  rw [List.countP_eq_zero]
  intro it hit
  simp only [Bool.and_eq_true, beq_iff_eq, not_and, Bool.not_eq_true]
  intro e1
  cases hi : it.2 with
  | user k' => simp [NKey.equals]
  | maint mk' c' k' =>
    rcases hookList_kinds h r.k r.g true (some r.x) it hit o n mk' c' k' e1 hi with rfl | rfl
    · cases mk <;> simp_all [NKey.equals]
    · cases mk <;> simp_all [NKey.equals]

/-! ### the theorem -/

/-- Core: storing `v` in `o.n` (whose `__dict__` entry / old value is `f.val`, possibly
`unset` = Uninitialized) and calling the notifiers of `o.n` re-establishes the
invariant; and storing WITHOUT calling them does so when the value is identical. -/
theorem fire_preserves (E : Env) (st : St) (regs : List Reg) (o : Id) (n : Name) (v : Val)
    (fs : List Field) (f : Field) (hinv : HooksEqReach st.h st.H regs) (fr : SetFrag E st regs o n v fs f) :
    (HooksEqReach (storeField st.h o n v) (fire E st.H (storeField st.h o n v) o n f.val v).st.H regs ∧
      (fire E st.H (storeField st.h o n v) o n f.val v).err = none) ∧
    (f.val = v → HooksEqReach (storeField st.h o n v) st.H regs) ∧
    (st.H.get (.trait o n) = [] → HooksEqReach (storeField st.h o n v) st.H regs) := by
  obtain ⟨hwf, hcnt⟩ := hinv
  -- the two heaps and the decomposition of every registration's walk
  have hold : fieldVal st.h (some o) n = f.val := fieldVal_of_find fr.ho fr.hf
  have R0 : Rel st.h st.h o n f.val := by have := Rel.self st.h o n; rwa [hold] at this
  have R1 : Rel st.h (storeField st.h o n v) o n v := Rel.store v fr.ho
  have Dh : ∀ r ∈ regs, ∀ o' q, cntItems (hookList st.h r.k true r.g (some r.x)) o' q =
      cntItems (stable st.h r.k o n true r.g (some r.x)) o' q +
      blocks st.h r.k f.val (visits st.h o n r.g (some r.x)) o' q :=
    fun r hr o' q => dec R0 r.k r.g (fr.noFiltered r hr) true (some r.x) o' q
  have Dh' : ∀ r ∈ regs, ∀ o' q, cntItems (hookList (storeField st.h o n v) r.k true r.g (some r.x)) o' q =
      cntItems (stable st.h r.k o n true r.g (some r.x)) o' q +
      blocks (storeField st.h o n v) r.k v (visits st.h o n r.g (some r.x)) o' q :=
    fun r hr o' q => dec R1 r.k r.g (fr.noFiltered r hr) true (some r.x) o' q
  -- L3: below the old value nothing changes
  have L3 : ∀ r ∈ regs, ∀ o' q, blocks (storeField st.h o n v) r.k f.val (visits st.h o n r.g (some r.x)) o' q =
      blocks st.h r.k f.val (visits st.h o n r.g (some r.x)) o' q := by
    intro r hr o' q
    unfold blocks
    apply sum_map_congr
    intro c hc
    congr 1
    apply flatMap_congr'
    intro w hw
    exact locality R1 r.k c (visits_noFiltered st.h o n r.g (fr.noFiltered r hr) (some r.x) c hc) true w
      (fr.noSelfReach r hr c hc w hw)
  -- NoSelfReach: the old blocks leave nothing on the mutated trait
  have B0 : ∀ r ∈ regs, ∀ q, blocks st.h r.k f.val (visits st.h o n r.g (some r.x)) (.trait o n) q = 0 := by
    intro r hr q
    unfold blocks
    apply sum_map_zero
    intro c hc
    apply cntItems_zero_of_ne
    intro it hit
    simp only [List.mem_flatMap] at hit
    obtain ⟨w, hw, hm⟩ := hit
    exact fr.noSelfReach r hr c hc w hw it hm
  -- the specification in the two heaps
  have specH : ∀ o' q, specCnt st.h regs o' q =
      (regs.map (fun r => cntItems (stable st.h r.k o n true r.g (some r.x)) o' q)).sum +
      (regs.map (fun r => blocks st.h r.k f.val (visits st.h o n r.g (some r.x)) o' q)).sum := by
    intro o' q
    unfold specCnt
    rw [← sum_map_add]
    exact sum_map_congr _ _ _ (fun r hr => Dh r hr o' q)
  have specH' : ∀ o' q, specCnt (storeField st.h o n v) regs o' q =
      (regs.map (fun r => cntItems (stable st.h r.k o n true r.g (some r.x)) o' q)).sum +
      (regs.map (fun r => blocks (storeField st.h o n v) r.k v (visits st.h o n r.g (some r.x)) o' q)).sum := by
    intro o' q
    unfold specCnt
    rw [← sum_map_add]
    exact sum_map_congr _ _ _ (fun r hr => Dh' r hr o' q)
  -- the maintainers on the mutated trait are the visits (up to `equals`)
  have hcounts : ∀ q, (mtKeys (st.H.get (.trait o n))).countP (fun a => a.equals q) =
      (visitKeys st.h o n regs).countP (fun a => a.equals q) := by
    intro q
    by_cases hq : ∃ c0 k0, q = .maint .trait c0 k0
    · obtain ⟨c0, k0, rfl⟩ := hq
      rw [← cntList_eq_countP, visitKeys_countP]
      have := hcnt (.trait o n) (.maint .trait c0 k0)
      unfold cnt at this
      rw [this, specH]
      have hz : (regs.map (fun r => blocks st.h r.k f.val (visits st.h o n r.g (some r.x)) (.trait o n)
          (.maint .trait c0 k0))).sum = 0 := sum_map_zero _ _ (fun r hr => B0 r hr _)
      rw [hz, Nat.add_zero]
      exact sum_map_congr _ _ _ (fun r hr => stable_at_target st.h r.k o n r.g (fr.noFiltered r hr) true (some r.x) c0 k0)
    · have hq' : ∀ c k, q ≠ .maint .trait c k := fun c k e => hq ⟨c, k, e⟩
      rw [countP_zero_of_shape _ q (fun a ha => by obtain ⟨c, k, e, _⟩ := mtKeys_shape _ a ha; exact ⟨c, k, e⟩) hq',
        countP_zero_of_shape _ q (fun a ha => by obtain ⟨r, _, c, _, e⟩ := visitKeys_shape _ _ _ _ a ha; exact ⟨c, r.k, e⟩) hq']
  have hmatch : ∀ (val : Val) o' q, effectSum (blockAt (storeField st.h o n v) val o' q) (st.H.get (.trait o n)) =
      (regs.map (fun r => blocks (storeField st.h o n v) r.k val (visits st.h o n r.g (some r.x)) o' q)).sum := by
    intro val o' q
    rw [effectSum_eq_keys, sum_blocks_eq_keys]
    apply sum_eq_of_equiv_counts _ _ _ hcounts
    intro a ha b hb hab
    obtain ⟨c, k, rfl, hm⟩ := mtKeys_shape _ a ha
    obtain ⟨r, hr, c', hc', rfl⟩ := visitKeys_shape _ _ _ _ b hb
    obtain ⟨rfl, rfl⟩ := fr.eqStruct c k hm r hr c' hc' hab
    rfl
  refine ⟨?_, ?_, ?_⟩
  · simp only [fire]
    have hl : LoopOk E (storeField st.h o n v) f.val v (st.H.get (.trait o n)) :=
      { alive := fr.alive
        kinds := by
          intro nt hnt mk g k e
          subst e
          -- by the invariant a maintainer on an instance trait is a trait / trait_added maintainer
          cases mk with
          | trait => exact Or.inl rfl
          | added => exact Or.inr rfl
          | list =>
            exfalso
            have h1 : 0 < cnt st.H (.trait o n) (.maint .list g k) := by
              unfold cnt
              exact cntList_pos_of_mem _ _ _ _ hnt
            rw [hcnt] at h1
            rw [specCnt_kind_trait st.h regs o n (.maint .list g k) ⟨.list, g, k, rfl, by simp, by simp⟩] at h1; omega
          | dict =>
            exfalso
            have h1 : 0 < cnt st.H (.trait o n) (.maint .dict g k) := by
              unfold cnt
              exact cntList_pos_of_mem _ _ _ _ hnt
            rw [hcnt] at h1
            rw [specCnt_kind_trait st.h regs o n (.maint .dict g k) ⟨.dict, g, k, rfl, by simp, by simp⟩] at h1; omega
          | set =>
            exfalso
            have h1 : 0 < cnt st.H (.trait o n) (.maint .set g k) := by
              unfold cnt
              exact cntList_pos_of_mem _ _ _ _ hnt
            rw [hcnt] at h1
            rw [specCnt_kind_trait st.h regs o n (.maint .set g k) ⟨.set, g, k, rfl, by simp, by simp⟩] at h1; omega
        notName := fr.notName
        okOld := fr.okOld
        okNew := fr.okNew }
    have hle : ∀ o' q, effectSum (blockAt (storeField st.h o n v) f.val o' q) (st.H.get (.trait o n)) ≤ cnt st.H o' q := by
      intro o' q
      rw [hmatch, hcnt, specH, sum_map_congr _ _ _ (fun r hr => L3 r hr o' q)]
      omega
    obtain ⟨e, w, c⟩ := callTrait_effect E (storeField st.h o n v) o n f.val v _ st.H [] hl hwf hle
    refine ⟨⟨w, ?_⟩, e⟩
    intro o' q
    have := c o' q
    rw [hmatch, hmatch, hcnt, specH, sum_map_congr _ _ _ (fun r hr => L3 r hr o' q)] at this
    rw [specH']
    omega
  · -- assigning the identical value: no notifier is called
    intro hv
    refine ⟨hwf, ?_⟩
    intro o' q
    rw [hcnt, specH, specH']
    congr 1
    apply sum_map_congr
    intro r hr
    rw [← L3 r hr o' q, hv]
  · -- no notifier on the trait: no registration visits it
    intro hnil
    refine ⟨hwf, ?_⟩
    intro o' q
    have e1 := hmatch f.val o' q
    have e2 := hmatch v o' q
    rw [hnil] at e1 e2
    simp only [effectSum, List.map_nil, List.sum_nil] at e1 e2
    rw [hcnt, specH, specH', ← e2]
    have : (regs.map (fun r => blocks st.h r.k f.val (visits st.h o n r.g (some r.x)) o' q)).sum = 0 := by
      rw [← sum_map_congr _ _ _ (fun r hr => L3 r hr o' q), ← e1]
    omega

/-- `o.n = v` on a materialised trait preserves the invariant and raises nothing. -/
theorem setField_preserves (E : Env) (st : St) (regs : List Reg) (o : Id) (n : Name) (v : Val) (fresh : Id)
    (fs : List Field) (f : Field) (hinv : HooksEqReach st.h st.H regs) (fr : SetFrag E st regs o n v fs f)
    (hset : f.val ≠ .unset) :
    HooksEqReach (mutate E st (.setField o n v fresh)).st.h (mutate E st (.setField o n v fresh)).st.H regs ∧
    (mutate E st (.setField o n v fresh)).err = none := by
  obtain ⟨hfire, hsame, hnil⟩ := fire_preserves E st regs o n v fs f hinv fr
  have hset' : (f.val == Val.unset) = false := by
    cases hv : f.val with
    | unset => exact absurd hv hset
    | _ => rfl
  simp only [mutate, fr.ho, fr.hf]
  by_cases hemp : (st.H.get (.trait o n)).isEmpty = true
  · simp only [hemp, if_true]
    exact ⟨hnil (by simpa using hemp), trivial⟩
  · simp only [hemp, Bool.false_eq_true, if_false, oldValue, hset']
    by_cases hsv : (f.cmp != Cmp.none && f.val == v) = true
    · simp only [hsv, if_true]
      exact ⟨hsame (by simp at hsv; exact hsv.2), trivial⟩
    · simp only [hsv, Bool.false_eq_true, if_false]
      exact hfire

/-- Reading a trait whose (non-container) default has not been materialised:
the maintainers hook the default, the invariant holds afterwards, nothing is
raised and NOTHING is delivered to any handler. -/
theorem read_preserves (E : Env) (st : St) (regs : List Reg) (o : Id) (n : Name) (d : Val) (fresh : Id)
    (fs : List Field) (f : Field) (hinv : HooksEqReach st.h st.H regs) (fr : SetFrag E st regs o n d fs f)
    (hunset : f.val = .unset) (hdflt : f.dflt = .val d) :
    HooksEqReach (mutate E st (.read o n fresh)).st.h (mutate E st (.read o n fresh)).st.H regs ∧
    (mutate E st (.read o n fresh)).err = none ∧ (mutate E st (.read o n fresh)).delivered = [] := by
  obtain ⟨hfire, _, _⟩ := fire_preserves E st regs o n d fs f hinv fr
  have hu : (f.val == Val.unset) = true := by rw [hunset]; rfl
  simp only [mutate, fr.ho, fr.hf, hu, if_true, materialise, hdflt]
  rw [hunset] at hfire
  refine ⟨hfire.1, hfire.2, ?_⟩
  -- `old` is Uninitialized: every user notifier is prevented
  cases hdl : (fire E st.H (storeField st.h o n d) o n .unset d).delivered with
  | nil => rfl
  | cons x xs =>
    exfalso
    have hx : x ∈ (fire E st.H (storeField st.h o n d) o n .unset d).delivered := by rw [hdl]; exact List.mem_cons_self ..
    rcases callTrait_delivered E _ o n .unset d _ st.H [] x hx with h1 | ⟨_, _, _, _, hp, _⟩
    · cases h1
    · simp [preventTrait] at hp

end TraitsVerif.Model.Obs
