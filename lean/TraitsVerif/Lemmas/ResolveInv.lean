/-
Invariants of the `resolve` world and their preservation by every step:
no delegate traits (`NoDeleg`), class-level coherence of the resolution cache
(`ClsInv`), and "every trait the lookup of (object, name) can be dispatched to
satisfies P" (`GovAt`).
-/
import TraitsVerif.Lemmas.ResolveStep
namespace TraitsVerif.Model.Resolve
open TraitsVerif

/-! ### list helpers -/

theorem mapM_getElem?_mem {α : Type} {l : List α} {is : List Nat} {xs : List α}
    (h : is.mapM (fun i => l[i]?) = some xs) : ∀ x ∈ xs, ∃ i ∈ is, l[i]? = some x := by
  induction is generalizing xs with
  | nil => simp at h; subst h; simp
  | cons i is ih =>
    rw [List.mapM_cons] at h
    cases hi : l[i]? with
    | none => simp [hi] at h
    | some a =>
      cases hr : is.mapM (fun i => l[i]?) with
      | none => simp [hi, hr] at h
      | some ys =>
        simp [hi, hr] at h
        subst h
        intro x hx
        rcases List.mem_cons.mp hx with hx | hx
        · subst hx; exact ⟨i, List.mem_cons_self, hi⟩
        · obtain ⟨j, hj, hjx⟩ := ih hr x hx
          exact ⟨j, List.mem_cons_of_mem _ hj, hjx⟩

theorem getElem?_set_self' {α : Type} {l : List α} {i : Nat} {a b : α} (h : l[i]? = some a) :
    (l.set i b)[i]? = some b := by
  have : i < l.length := by
    rcases Nat.lt_or_ge i l.length with h' | h'
    · exact h'
    · rw [List.getElem?_eq_none h'] at h; cases h
  simp [this]

theorem getElem?_set_ne' {α : Type} {l : List α} {i j : Nat} {b : α} (h : i ≠ j) :
    (l.set i b)[j]? = l[j]? := by
  simp [h]

theorem getElem?_append_some {α : Type} {l l' : List α} {i : Nat} {a : α} (h : l[i]? = some a) :
    (l ++ l')[i]? = some a := by
  have : i < l.length := by
    rcases Nat.lt_or_ge i l.length with h' | h'
    · exact h'
    · rw [List.getElem?_eq_none h'] at h; cases h
  rw [List.getElem?_append_left this]; exact h

/-! ### `NoDeleg` is preserved -/

theorem Resolved.classes_plain {w w' : World} {o : Obj} {c : Cls} {name : Name}
    (h : Resolved w o c name w') (hw : NoDeleg w) (ho : o ∈ w.objs) (hc : c ∈ w.classes) :
    ∀ c' ∈ w'.classes, ClsPlain c' := by
  cases h with
  | same => exact hw.cls
  | cached b t hi hct hp =>
    intro c' hc'
    rcases List.mem_or_eq_of_mem_set hc' with hc' | hc'
    · exact hw.cls c' hc'
    · subst hc'
      have hcp := hw.cls c hc
      refine ⟨?_, hcp.pf⟩
      intro e he
      rcases List.mem_cons.mp he with he | he
      · subst he; exact prefixTrait_plain hcp (hw.obj o ho) hp
      · exact hcp.ct e he

theorem mkClass_plain {bs : List Cls} {decls : List (Name × Trait)} (hb : ∀ b ∈ bs, ClsPlain b)
    (hd : ∀ d ∈ decls, d.2.Plain) : ClsPlain (mkClass bs decls) := by
  constructor
  · intro e he
    rcases foldl_mergeMap_mem (fun b : Cls => b.ctraits) he with he | ⟨b, hbm, he⟩
    · exact hd e (ownTraits_mem he)
    · exact (hb b hbm).ct e he
  · intro e he
    rcases mkClass_prefix_mem he with he | ⟨b, hbm, he⟩ | he
    · obtain ⟨d, hdm, hed⟩ := ownPrefixes_mem he
      rw [hed]; exact hd d hdm
    · exact (hb b hbm).pf e he
    · subst he; decide

theorem NoDeleg_step (E : Env) {w : World} (hw : NoDeleg w) {op : Op} (hop : op.Plain) :
    NoDeleg (step E w op).1 := by
  have he := step_effect E w hw.hooks op
  generalize (step E w op).1 = w1 at he
  cases he with
  | noop => exact hw
  | mkClass bases decls bs h =>
    refine ⟨?_, hw.obj, hw.hooks⟩
    intro c hc
    rcases List.mem_append.mp hc with hc | hc
    · exact hw.cls c hc
    · simp at hc; subst hc
      apply mkClass_plain
      · intro b hb
        obtain ⟨i, _, hi⟩ := mapM_getElem?_mem h b hb
        exact hw.cls b (List.mem_of_getElem? hi)
      · exact hop
  | new ci c h =>
    refine ⟨hw.cls, ?_, ?_⟩
    · intro o ho
      rcases List.mem_append.mp ho with ho | ho
      · exact hw.obj o ho
      · simp at ho; subst ho; intro e he; simp at he
    · intro o ho
      rcases List.mem_append.mp ho with ho | ho
      · exact hw.hooks o ho
      · simp at ho; subst ho; rfl
  | obj _ oi name o c w' o' ht ho hc hres hch =>
    have hom := List.mem_of_getElem? ho
    have hcm := List.mem_of_getElem? hc
    refine ⟨hres.classes_plain hw hom hcm, ?_, ?_⟩
    · intro x hx
      simp only at hx
      rw [hres.objs] at hx
      rcases List.mem_or_eq_of_mem_set hx with hx | hx
      · exact hw.obj x hx
      · subst hx
        intro e he
        rcases hch.itrMem e he with h | h | h | ⟨b, h⟩
        · exact hw.obj o hom e h
        · subst h; exact hop
        · exact (hw.cls c hcm).ct (name, e.2) (Map.mem_of_get h)
        · exact prefixTrait_plain (hw.cls c hcm) (hw.obj o hom) h
    · intro x hx
      simp only at hx
      rw [hres.objs] at hx
      rcases List.mem_or_eq_of_mem_set hx with hx | hx
      · exact hw.hooks x hx
      · subst hx
        rcases hch.hooksEq with ⟨p, t, h⟩ | h
        · subst h; exact hop.elim
        · rw [h]; exact hw.hooks o hom
  | res _ oi name o c w' ht ho hc hres =>
    refine ⟨hres.classes_plain hw (List.mem_of_getElem? ho) (List.mem_of_getElem? hc), ?_, ?_⟩
    · rw [hres.objs]; exact hw.obj
    · rw [hres.objs]; exact hw.hooks

theorem NoDeleg_run (E : Env) {w : World} (hw : NoDeleg w) {ops : List Op} (hops : ∀ op ∈ ops, op.Plain) :
    NoDeleg (run E w ops).1 := by
  induction ops generalizing w with
  | nil => exact hw
  | cons op ops ih =>
    simp only [run]
    exact ih (NoDeleg_step E hw (hops op List.mem_cons_self)) (fun op' h => hops op' (List.mem_cons_of_mem _ h))

/-! ### coherence of the class-level cache -/

/-- The class dictionary of `c` holds the declared class traits, and every other
entry is what an uncached resolution against `c`'s wildcard table returns. -/
structure ClsInv (c : Cls) : Prop where
  sorted : Sorted c.prefixes
  hasDefault : ∃ t, ([], t) ∈ c.prefixes
  declSub : ∀ n t, c.decl.get n = some t → c.ctraits.get n = some t
  coherent : ∀ n t, c.ctraits.get n = some t → c.decl.get n = none →
    ∃ b, resolve₀ c.prefixes n b = .ok t

/-- No resolved prefix trait has been cached in the class yet. -/
def Clean (c : Cls) : Prop := ∀ n, c.ctraits.get n = c.decl.get n

theorem firstSome_map_congr {α β : Type} {l : List α} {f g : α → Option β} (h : ∀ a ∈ l, f a = g a) :
    firstSome (l.map f) = firstSome (l.map g) := by
  induction l with
  | nil => rfl
  | cons a l ih =>
    simp only [List.map_cons]
    rw [h a List.mem_cons_self]
    cases g a with
    | some v => rfl
    | none => simp only [firstSome]; exact ih (fun a' ha' => h a' (List.mem_cons_of_mem _ ha'))

theorem mkClass_clean {bs : List Cls} (decls : List (Name × Trait)) (hb : ∀ b ∈ bs, Clean b) :
    Clean (mkClass bs decls) := by
  intro n
  rw [mkClass_ctraits_get, mkClass_decl_get]
  rw [firstSome_map_congr (fun b hbm => hb b hbm n)]

theorem mkClass_inv {bs : List Cls} (decls : List (Name × Trait)) (hb : ∀ b ∈ bs, Clean b) :
    ClsInv (mkClass bs decls) := by
  have hc := mkClass_clean decls hb
  refine ⟨mkClass_sorted _ _, mkClass_hasDefault _ _, ?_, ?_⟩
  · intro n t h; rw [hc n]; exact h
  · intro n t h hn; rw [hc n, hn] at h; cases h

theorem ClsInv.cache {c : Cls} (hc : ClsInv c) {name : Name} {t : Trait} (hct : c.ctraits.get name = none)
    (ht : ∃ b, resolve₀ c.prefixes name b = .ok t) :
    ClsInv { c with ctraits := c.ctraits.set name t } := by
  refine ⟨hc.sorted, hc.hasDefault, ?_, ?_⟩
  · intro n t' h
    have := hc.declSub n t' h
    have hne : name ≠ n := by intro hh; subst hh; rw [hct] at this; cases this
    simp only [Map.get_set_ne _ _ hne]; exact this
  · intro n t' h hn
    by_cases hne : name = n
    · subst hne
      simp only [Map.get_set_same] at h
      cases h; exact ht
    · simp only [Map.get_set_ne _ _ hne] at h
      exact hc.coherent n t' h hn

def SafeOp (w : World) : Op → Prop
  | .mkClass bases _ => ∀ b ∈ bases, ∀ c, w.classes[b]? = some c → Clean c
  | _ => True

structure Inv (w : World) : Prop where
  nd : NoDeleg w
  cls : ∀ c ∈ w.classes, ClsInv c

theorem Resolved.classes_inv {w w' : World} {o : Obj} {c : Cls} {name : Name}
    (h : Resolved w o c name w') (hw : Inv w) (ho : o ∈ w.objs) (hc : c ∈ w.classes) :
    ∀ c' ∈ w'.classes, ClsInv c' := by
  cases h with
  | same => exact hw.cls
  | cached b t hi hct hp =>
    intro c' hc'
    rcases List.mem_or_eq_of_mem_set hc' with hc' | hc'
    · exact hw.cls c' hc'
    · subst hc'
      rw [prefixTrait_plain_eq (hw.nd.cls c hc) (hw.nd.obj o ho)] at hp
      exact (hw.cls c hc).cache hct ⟨b, hp⟩

theorem Inv_step (E : Env) {w : World} (hw : Inv w) {op : Op} (hop : op.Plain) (hs : SafeOp w op) :
    Inv (step E w op).1 := by
  refine ⟨NoDeleg_step E hw.nd hop, ?_⟩
  have he := step_effect E w hw.nd.hooks op
  generalize (step E w op).1 = w1 at he
  cases he with
  | noop => exact hw.cls
  | mkClass bases decls bs h =>
    intro c hc
    rcases List.mem_append.mp hc with hc | hc
    · exact hw.cls c hc
    · simp at hc; subst hc
      apply mkClass_inv
      intro b hb
      obtain ⟨i, hi, hib⟩ := mapM_getElem?_mem h b hb
      exact hs i hi b hib
  | new ci c h => exact hw.cls
  | obj _ oi name o c w' o' ht ho hc hres hch =>
    exact hres.classes_inv hw (List.mem_of_getElem? ho) (List.mem_of_getElem? hc)
  | res _ oi name o c w' ht ho hc hres =>
    exact hres.classes_inv hw (List.mem_of_getElem? ho) (List.mem_of_getElem? hc)

/-- Every class definition in the history derives from classes whose cache is
still empty at that moment. -/
def SafeHist (E : Env) : World → List Op → Prop
  | _, [] => True
  | w, op :: ops => SafeOp w op ∧ SafeHist E (step E w op).1 ops

theorem Inv_run (E : Env) {w : World} (hw : Inv w) {ops : List Op} (hops : ∀ op ∈ ops, op.Plain)
    (hs : SafeHist E w ops) : Inv (run E w ops).1 := by
  induction ops generalizing w with
  | nil => exact hw
  | cons op ops ih =>
    simp only [run]
    exact ih (Inv_step E hw (hops op List.mem_cons_self) hs.1)
      (fun op' h => hops op' (List.mem_cons_of_mem _ h)) hs.2

/-! ### all classes clean: definitions before use -/

def AllClean (w : World) : Prop := ∀ c ∈ w.classes, Clean c

def Op.isDef : Op → Bool
  | .mkClass _ _ => true
  | .new _ => true
  | _ => false

def Op.isMkClass : Op → Bool
  | .mkClass _ _ => true
  | _ => false

theorem AllClean_step_def (E : Env) {w : World} (hw : AllClean w) {op : Op} (hd : op.isDef = true) :
    AllClean (step E w op).1 := by
  cases op with
  | mkClass bases decls =>
    simp only [step]
    cases h : bases.mapM (fun b => w.classes[b]?) with
    | none => exact hw
    | some bs =>
      intro c hc
      rcases List.mem_append.mp hc with hc | hc
      · exact hw c hc
      · simp at hc; subst hc
        apply mkClass_clean
        intro b hb
        obtain ⟨i, _, hib⟩ := mapM_getElem?_mem h b hb
        exact hw b (List.mem_of_getElem? hib)
  | new ci =>
    simp only [step]
    cases h : w.classes[ci]? with
    | none => exact hw
    | some c => exact hw
  | get _ _ => cases hd
  | set _ _ _ => cases hd
  | del _ _ => cases hd
  | addTrait _ _ _ => cases hd
  | removeTrait _ _ => cases hd
  | getTrait _ _ _ => cases hd
  | hook _ _ _ => cases hd

theorem SafeOp_of_allClean {w : World} (hw : AllClean w) (op : Op) : SafeOp w op := by
  cases op <;> simp only [SafeOp]
  intro b _ c hc
  exact hw c (List.mem_of_getElem? hc)

theorem SafeOp_of_not_mkClass {w : World} {op : Op} (h : op.isMkClass = false) : SafeOp w op := by
  cases op <;> simp only [SafeOp]
  cases h

/-- Classes first, then use: such a history is safe. -/
theorem SafeHist_defs_then_use (E : Env) {w : World} (hw : AllClean w) (defs uses : List Op)
    (hd : ∀ op ∈ defs, op.isDef = true) (hu : ∀ op ∈ uses, op.isMkClass = false) :
    SafeHist E w (defs ++ uses) := by
  induction defs generalizing w with
  | nil =>
    simp only [List.nil_append]
    clear hw
    induction uses generalizing w with
    | nil => trivial
    | cons op ops ih =>
      exact ⟨SafeOp_of_not_mkClass (hu op List.mem_cons_self),
        ih (fun op' h => hu op' (List.mem_cons_of_mem _ h))⟩
  | cons op defs ih =>
    simp only [List.cons_append]
    exact ⟨SafeOp_of_allClean hw op,
      ih (AllClean_step_def E hw (hd op List.mem_cons_self)) (fun op' h => hd op' (List.mem_cons_of_mem _ h))⟩

end TraitsVerif.Model.Resolve
