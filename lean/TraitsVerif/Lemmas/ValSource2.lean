/-
C01_passthrough at (almost) full strength, for what assignment actually runs
(`ctraitValidate`): after the repairs of F45 (BaseEnum guards its containment
check) and F48 (a compound member without validate method accepts), the only
exceptions other than TraitError that can surface come from the value's numeric
protocol, a type constructor, or the two documented user callbacks (adapt
factories, `fvalidate`) — no `==` of the value, no user validator function, no
"NoneType is not callable".
-/
import TraitsVerif.Lemmas.ValSource
namespace TraitsVerif.Model.Val
open TraitsVerif TraitsVerif.Py.Value

/-- The sources the property statement allows (first four) plus the two
documented user callbacks. -/
def Src2 (E : Env) (e : Exc) : Prop :=
  (∃ x, index x = .error e) ∨ (∃ x, asDouble x = .error e) ∨ (∃ x, asComplex x = .error e) ∨
  (∃ t x, E.cast t x = .error e) ∨ (∃ x c, E.adapt x c = .error e) ∨ (∃ f x, E.pred f x = .error e)

variable {E : Env}

theorem Src2.ofIndex {e : Exc} {x : Val} (h : index x = .error e) : Src2 E e := Or.inl ⟨x, h⟩
theorem Src2.ofDouble {e : Exc} {x : Val} (h : asDouble x = .error e) : Src2 E e := Or.inr (Or.inl ⟨x, h⟩)
theorem Src2.ofComplex {e : Exc} {x : Val} (h : asComplex x = .error e) : Src2 E e :=
  Or.inr (Or.inr (Or.inl ⟨x, h⟩))
theorem Src2.ofCast {e : Exc} {t : Ty} {x : Val} (h : E.cast t x = .error e) : Src2 E e :=
  Or.inr (Or.inr (Or.inr (Or.inl ⟨t, x, h⟩)))
theorem Src2.ofAdapt {e : Exc} {x : Val} {c : Ty} (h : E.adapt x c = .error e) : Src2 E e :=
  Or.inr (Or.inr (Or.inr (Or.inr (Or.inl ⟨x, c, h⟩))))
theorem Src2.ofPred {e : Exc} {f : Nat} {x : Val} (h : E.pred f x = .error e) : Src2 E e :=
  Or.inr (Or.inr (Or.inr (Or.inr (Or.inr ⟨f, x, h⟩))))

theorem fastAlone_raised_src2 (d : Desc) (v : Val) (e : Exc) (ha : d.isAlt = true)
    (hnt : ∀ items, d ≠ .tuple items) (h : fastAlone E d v = .raised e) : Src2 E e := by
  cases d <;> simp [Desc.isAlt] at ha <;> simp only [fastAlone] at h
  case tuple items => exact absurd rfl (hnt items)
  all_goals (repeat' split at h)
  all_goals (try (cases h; done))
  all_goals (try (simp only [Res.raised.injEq] at h; subst h))
  all_goals first
    | (apply Src2.ofIndex; apply asInteger_err; assumption)
    | (apply Src2.ofDouble; apply validateFloat_err; assumption)
    | (apply Src2.ofComplex; apply validateComplex_err; assumption)
    | (apply Src2.ofCast; assumption)
    | (apply Src2.ofAdapt; assumption)
    | skip

/-- Atomic trait types whose PYTHON validate can raise something foreign
(`==` of the value, a user validator function, calling a missing method). -/
def TraitType.noForeign : TraitType → Bool
  | .enumH _ | .functionH _ | .any | .module => false
  | _ => true

theorem pyValidate_raised_src2_atomic (t : TraitType) (v : Val) (e : Exc) (hs : t.subs = none)
    (hn : t.isNoFast = false) (hf : t.noForeign = true) (h : pyValidate E t v = .raised e) : Src2 E e := by
  cases t <;> simp [TraitType.subs, TraitType.isNoFast, TraitType.noForeign] at hs hn hf <;>
    simp only [pyValidate, pyCastNumeric, pyCastAny, pySafeEnumValidate, pyMapValidate, pyInstanceValidate,
      pyCoerceValidate, stringValidate, completeValue, stringRun, arrayValidate, ← asInteger_eq_py] at h
  all_goals (repeat' split at h)
  all_goals (try (cases h; done))
  all_goals (try (simp only [Res.raised.injEq] at h; subst h))
  all_goals first
    | (apply Src2.ofIndex; apply asInteger_err; assumption)
    | (apply Src2.ofDouble; apply validateFloat_err; assumption)
    | (apply Src2.ofComplex; apply validateComplex_err; assumption)
    | (apply Src2.ofCast; assumption)
    | (apply Src2.ofAdapt; assumption)
    | (exfalso; apply ‹_ = Exc.typeError → False›; apply dictFind_err; assumption)
    | skip

mutual
/-- A Base* class (`noFast`) wraps a plain trait type that has one — not a
legacy handler, not a compound —, at every depth. -/
def TraitType.realBase : TraitType → Bool
  | .tuple items => realBaseL items
  | .baseTuple items => realBaseL items
  | .validatedTuple items _ => realBaseL items
  | .either alts _ => realBaseL alts
  | .union alts => realBaseL alts
  | .compoundH hs => realBaseL hs
  | .noFast t => t.subs.isNone && !t.isNoFast && t.noForeign
  | _ => true
def realBaseL : List TraitType → Bool
  | [] => true
  | t :: ts => t.realBase && realBaseL ts
end

variable (E)

def SrcP2 (t : TraitType) : Prop :=
  t.realBase = true →
    (∀ d v e x, descOf E t = some d → x ∈ d.entries → altAlone E x v = .raised e → Src2 E e) ∧
    (∀ v e, ctraitValidate E t v = .raised e → Src2 E e)

def SrcQ2 (ts : List TraitType) : Prop :=
  realBaseL ts = true →
    (∀ v e x, x ∈ flatFast E ts → altAlone E x v = .raised e → Src2 E e) ∧
    (∀ v e, pySel E false ts v = .raised e → Src2 E e) ∧
    (∀ v e, unionFirst E ts v = .raised e → Src2 E e) ∧
    (∀ vs e, ctraitValidateL E ts vs = .error (some e) → Src2 E e)

theorem srcP2_atomic (t : TraitType) (hs : t.subs = none) (hn : t.isNoFast = false) : SrcP2 E t := by
  intro _
  have sfast : ∀ d v e, descOf E t = some d → fastAlone E d v = .raised e → Src2 E e :=
    fun d v e hd h => fastAlone_raised_src2 d v e (descOf_leaf_shape E t d hs hd)
      (descOf_leaf_not_tuple E t d hs hd) h
  constructor
  · intro d v e x hd hx h
    have ha := descOf_leaf_shape E t d hs hd
    have hx' : x = d := by
      cases d <;> simp [Desc.isAlt] at ha <;> simpa [Desc.entries] using hx
    subst hx'
    rw [altAlone_of_isAlt E x v ha] at h
    exact sfast x v e hd h
  · intro v e h
    cases hd : descOf E t with
    | some d => exact sfast d v e hd (by simpa [ctraitValidate, ctraitValidateWith, hd] using h)
    | none =>
      by_cases hp : hasPy t = true
      · have hf : t.noForeign = true := by
          cases t <;> simp [TraitType.subs, TraitType.isNoFast] at hs hn <;> simp [hasPy] at hp <;>
            simp [descOf] at hd <;> rfl
        exact pyValidate_raised_src2_atomic t v e hs hn hf
          (by simpa [ctraitValidate, ctraitValidateWith, hd, hp] using h)
      · simp [ctraitValidate, ctraitValidateWith, hd, hp] at h

theorem srcP2_noFast (t : TraitType) : SrcP2 E (.noFast t) := by
  intro hb
  simp only [TraitType.realBase, Bool.and_eq_true, Option.isNone_iff_eq_none, Bool.not_eq_true'] at hb
  obtain ⟨⟨hs, hn⟩, hf⟩ := hb
  constructor
  · intro d v e x hd; simp [descOf] at hd
  · intro v e h
    by_cases hp : hasPy t = true
    · exact pyValidate_raised_src2_atomic t v e hs hn hf
        (by simpa [ctraitValidate, ctraitValidateWith, descOf, hasPy, hp, pyValidate] using h)
    · simp [ctraitValidate, ctraitValidateWith, descOf, hasPy, hp] at h

theorem srcQ2_nil : SrcQ2 E [] := by
  intro _
  refine ⟨?_, ?_, ?_, ?_⟩
  · intro v e x hx; simp [flatFast] at hx
  · intro v e h; simp [pySel] at h
  · intro v e h; simp [unionFirst] at h
  · intro vs e h; simp [ctraitValidateL] at h

theorem srcQ2_cons (t : TraitType) (ts : List TraitType) (hP : SrcP2 E t) (hQ : SrcQ2 E ts) :
    SrcQ2 E (t :: ts) := by
  intro hb
  simp only [realBaseL, Bool.and_eq_true] at hb
  obtain ⟨s1, s2⟩ := hP hb.1
  obtain ⟨r1, r2, r3, r4⟩ := hQ hb.2
  refine ⟨?_, ?_, ?_, ?_⟩
  · intro v e x hx h
    rw [flatFast_cons, List.mem_append] at hx
    rcases hx with hx | hx
    · cases hd : descOf E t with
      | none => simp [hd] at hx
      | some d => simp only [hd] at hx; exact s1 d v e x hd hx h
    · exact r1 v e x hx h
  · intro v e h
    simp only [pySel] at h
    cases hd : descOf E t with
    | some d => simp [hd] at h; exact r2 v e h
    | none =>
      have hct : (if (false || hasPy t) = true then pyValidate E t v else Res.ok v) = ctraitValidate E t v := by
        simp [ctraitValidate, ctraitValidateWith, hd]
      simp only [hd, Option.isSome_none, beq_self_eq_true, if_true, hct] at h
      cases hr : ctraitValidate E t v with
      | traitError => simp only [hr] at h; exact r2 v e h
      | raised e' => simp [hr] at h; subst h; exact s2 v e' hr
      | ok x => simp [hr] at h
  · intro v e h
    simp only [unionFirst] at h
    have hct : ctraitValidateWith E (descOf E t) (hasPy t) (fun x => pyValidate E t x) v = ctraitValidate E t v := rfl
    rw [hct] at h
    cases hr : ctraitValidate E t v with
    | traitError => simp only [hr] at h; exact r3 v e h
    | raised e' => simp [hr] at h; subst h; exact s2 v e' hr
    | ok x => simp [hr] at h
  · intro vs e h
    cases vs with
    | nil => simp [ctraitValidateL] at h
    | cons b bs =>
      simp only [ctraitValidateL] at h
      have hct : ctraitValidateWith E (descOf E t) (hasPy t) (fun x => pyValidate E t x) b = ctraitValidate E t b := rfl
      rw [hct] at h
      cases hr : ctraitValidate E t b with
      | traitError => simp [hr] at h
      | raised e' => simp [hr] at h; subst h; exact s2 b e' hr
      | ok a =>
        simp only [hr] at h
        cases hrest : ctraitValidateL E ts bs with
        | error x => simp [hrest] at h; subst h; exact r4 bs e hrest
        | ok as => simp [hrest] at h


theorem srcP2_tuple (items : List TraitType) (hQ : SrcQ2 E items) : SrcP2 E (.tuple items) := by
  intro hb
  obtain ⟨_, _, _, r4⟩ := hQ (by simpa [TraitType.realBase] using hb)
  have hd0 : descOf E (.tuple items) = some (.tuple (ctraitDescL E items)) := by simp [descOf]
  have hfast : ∀ v e, fastAlone E (.tuple (ctraitDescL E items)) v = .raised e → Src2 E e := by
    intro v e h
    obtain ⟨vs, hr⟩ := tuple_fast_raised E items v e h
    exact r4 vs e hr
  constructor
  · intro d v e x hd hx h
    rw [hd0] at hd; cases hd
    simp [Desc.entries] at hx; subst hx
    exact hfast v e (by simpa [altAlone] using h)
  · intro v e h
    exact hfast v e (by simpa [ctraitValidate, ctraitValidateWith, hd0] using h)

theorem srcP2_none_of_py (t : TraitType) (hd : descOf E t = none) (hp : hasPy t = true)
    (hpy : ∀ v e, pyValidate E t v = .raised e → Src2 E e) : SrcP2 E t := by
  intro _
  constructor
  · intro d v e x hd'; simp [hd] at hd'
  · intro v e h
    exact hpy v e (by rw [← ctraitValidate_of_none E t v hd hp]; exact h)

theorem srcP2_baseTuple (items : List TraitType) : SrcP2 E (.baseTuple items) :=
  srcP2_none_of_py E _ (by simp [descOf]) rfl
    (fun v e h => absurd ((srcP_baseTuple E items).2.2 v e h) (by
      -- BaseTuple.validate never raises: reuse the general fact through its proof
      intro _
      simp only [pyValidate] at h
      rcases v with a | ⟨sub, vs⟩ | vs
      · simp at h
      · simp only at h
        split at h
        · cases hr : ctraitValidateL E items vs <;> simp [hr] at h
        · simp at h
      · simp only at h
        split at h
        · cases hr : ctraitValidateL E items vs <;> simp [hr] at h
        · simp at h))

theorem srcP2_validatedTuple (items : List TraitType) (fv : Option Nat) : SrcP2 E (.validatedTuple items fv) :=
  srcP2_none_of_py E _ (by simp [descOf]) rfl (by
    intro v e h
    simp only [pyValidate] at h
    have key : ∀ ws, (match fv with
          | none => Res.ok (.tuple false ws)
          | some f =>
            match E.pred f (.tuple false ws) with
            | .ok true => Res.ok (.tuple false ws)
            | .ok false => Res.traitError
            | .error e => Res.raised e) = .raised e → Src2 E e := by
      intro ws hres
      cases fv with
      | none => simp at hres
      | some f =>
        simp only at hres
        cases hp : E.pred f (.tuple false ws) with
        | error e' => simp [hp] at hres; subst hres; exact Src2.ofPred hp
        | ok b => cases b <;> simp [hp] at hres
    rcases v with a | ⟨sub, vs⟩ | vs
    · simp at h
    · simp only at h
      split at h
      · cases hr : ctraitValidateL E items vs with
        | error x => simp [hr] at h
        | ok ws => simp only [hr] at h; exact key ws h
      · simp at h
    · simp only at h
      split at h
      · cases hr : ctraitValidateL E items vs with
        | error x => simp [hr] at h
        | ok ws => simp only [hr] at h; exact key ws h
      · simp at h)

theorem srcP2_union (alts : List TraitType) (hQ : SrcQ2 E alts) : SrcP2 E (.union alts) := by
  intro hb
  obtain ⟨_, _, r3, _⟩ := hQ (by simpa [TraitType.realBase] using hb)
  exact srcP2_none_of_py E _ (by simp [descOf]) rfl
    (fun v e h => r3 v e (by simpa [pyValidate] using h)) hb

theorem srcP2_compound (hE : CastIdem E) (alts : List TraitType) (wn : Bool) (t : TraitType)
    (hQ : SrcQ2 E alts) (hrb : t.realBase = realBaseL alts)
    (hpy : ∀ v, pyValidate E t v =
      match pySel E true alts v with
      | .traitError =>
        match (if wn then pyEnumValidate [Val.none] v else Res.traitError) with
        | .traitError => pySel E false alts v
        | r => r
      | r => r)
    (hdesc : ∀ d, descOf E t = some d →
      d = .complex (flatFast E alts ++ ((if wn then [Desc.enum [Val.none]] else []) ++
        (if anySlow E alts then [Desc.slow (fun v => pySel E false alts v)] else []))))
    (hnone : descOf E t = none → wn = false ∧ flatFast E alts = [])
    (hhp : hasPy t = true) : SrcP2 E t := by
  intro hb
  obtain ⟨r1, r2, _, _⟩ := hQ (hrb ▸ hb)
  have s1 : ∀ d v e x, descOf E t = some d → x ∈ d.entries → altAlone E x v = .raised e → Src2 E e := by
    intro d v e x hd hx h
    rw [hdesc d hd] at hx
    simp only [Desc.entries, List.mem_append] at hx
    rcases hx with hx | hx | hx
    · exact r1 v e x hx h
    · cases wn with
      | false => simp at hx
      | true =>
        simp at hx; subst hx
        simp only [altAlone, fastAlone] at h
        split at h <;> cases h
    · by_cases ha : anySlow E alts = true
      · simp [ha] at hx; subst hx
        simp only [altAlone] at h
        exact r2 v e h
      · simp [ha] at hx
  refine ⟨s1, ?_⟩
  intro v e h
  cases hd : descOf E t with
  | none =>
    obtain ⟨hw, hf⟩ := hnone hd
    rw [ctraitValidate_of_none E t v hd hhp, hpy v,
      pySel_true_all_none E alts v (flatFast_nil_all_none E hE alts hf), hw] at h
    simp only [Bool.false_eq_true, if_false] at h
    exact r2 v e h
  | some d =>
    have hshape := (agreeP_all E hE t).1 d hd
    have hfa : ctraitValidate E t v = fastAlone E d v := by
      simp [ctraitValidate, ctraitValidateWith, hd]
    rw [hfa] at h
    rcases hshape with ha | ⟨ds, hds, hent, _⟩
    · rw [hdesc d hd] at ha; simp [Desc.isAlt] at ha
    · subst hds
      simp only [fastAlone] at h
      rw [fastComplex_first E ds v hent] at h
      have hmem := firstAccept_raised_mem _ e h
      obtain ⟨x, hx, hxe⟩ := List.mem_map.mp hmem
      exact s1 _ v e x hd (by simpa [Desc.entries] using hx) hxe

/-- The strong provenance statement for every trait type of the model. -/
theorem srcP2_all (hE : CastIdem E) : ∀ t, SrcP2 E t :=
  TraitType.induct' (P := SrcP2 E) (Q := SrcQ2 E)
    (fun t hs hn => srcP2_atomic E t hs hn)
    (fun t _ => srcP2_noFast E t)
    (fun t ts hs hQ => by
      cases t <;> simp [TraitType.subs] at hs
      case tuple items => subst hs; exact srcP2_tuple E items hQ
      case baseTuple items => exact srcP2_baseTuple E items
      case validatedTuple items fv => exact srcP2_validatedTuple E items fv
      case union alts => subst hs; exact srcP2_union E alts hQ
      case either alts wn =>
        subst hs
        exact srcP2_compound E hE alts wn _ hQ rfl
          (fun v => by
            simp only [pyValidate]
            cases pySel E true alts v <;> try rfl
            all_goals (cases wn <;> simp)
            all_goals (try (cases pyEnumValidate [Val.none] v <;> simp))
            all_goals (try (cases pySel E false alts v <;> rfl)))
          (fun d hd => descOf_either_eq E alts wn d hd)
          (descOf_either_none E alts wn) rfl
      case compoundH hs' =>
        subst hs
        exact srcP2_compound E hE hs' false _ hQ rfl
          (fun v => by
            simp only [pyValidate]
            cases pySel E true hs' v <;> try rfl
            all_goals (try simp)
            all_goals (try (cases pySel E false hs' v <;> rfl)))
          (fun d hd => by
            simp only [descOf] at hd
            cases hf : flatFast E hs' with
            | nil => simp [hf] at hd
            | cons x xs =>
              simp only [hf] at hd
              simp only [Option.some.injEq] at hd
              simp [← hd])
          (fun h => by
            simp only [descOf] at h
            cases hf : flatFast E hs' with
            | nil => exact ⟨rfl, rfl⟩
            | cons x xs => simp [hf] at h) rfl)
    (srcQ2_nil E) (srcQ2_cons E)

end TraitsVerif.Model.Val
