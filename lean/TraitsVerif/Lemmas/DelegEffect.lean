/-
`Effect`: the shapes the pool can have after one operation of the `deleg` model, with the flags that
say whether a listener hook failed.  `step_effect` is the one place where `step` is taken apart
branch by branch; the invariants of histories are proved against `Effect`.
-/
import TraitsVerif.Lemmas.DelegPool
namespace TraitsVerif.Model.Deleg

inductive Effect (p : Pool) : Op → Pool → Nat → Bool → Prop
  /-- nothing changed -/
  | same (op : Op) (hx : Nat) (br : Bool) : Effect p op p hx br
  /-- a value stored into / deleted from a typed or undeclared attribute (never a deferring one) -/
  | dictTarget (op : Op) (x : ObjId) (t : Name) (v : Option Val) (hx : Nat) (br : Bool) :
      NonDefer ((p.obj x).cls.trait t) → Effect p op (p.setDict x t v) hx br
  /-- local assignment of a prototyped attribute: value stored on the object, forwarder removed -/
  | localSet (o : ObjId) (n : Name) (v : Val) (d : DelegInfo) (w : Val) (hx : Nat) (br : Bool) :
      (p.obj o).cls.trait n = .defer d → d.modify = false →
      Effect p (.set o n v) (unlink (p.setDict o n (some w)) o n) hx br
  /-- local value of a prototyped attribute deleted, forwarder table untouched: the operation raised
  afterwards (`br`), or a forwarder was (unexpectedly) still there -/
  | localDel (o : ObjId) (n : Name) (d : DelegInfo) (hx : Nat) (br : Bool) :
      (p.obj o).cls.trait n = .defer d → d.modify = false → (p.obj o).dict n ≠ none →
      (br = true ∨ (p.obj o).fwd n ≠ none) →
      Effect p (.del o n) (p.setDict o n none) hx br
  /-- local value (if any) deleted and the forwarder re-installed, hooked where `hook` says -/
  | relink (o : ObjId) (n : Name) (d : DelegInfo) (p1 : Pool) (h : Option ObjId) (hx : Nat) :
      (p.obj o).cls.trait n = .defer d → d.modify = false → (p1 = p ∨ p1 = p.setDict o n none) →
      (p1.obj o).dict n = none → (p1.obj o).fwd n = none → hook p1 o n d = (h, false) →
      Effect p (.del o n) (p1.setFwd o n (some h)) hx false
  /-- `o.d` re-pointed, every forwarder of `o` re-hooked -/
  | swap (o : ObjId) (t : Option ObjId) : (p.obj o).deleg ≠ t →
      Effect p (.swap o t) (rehook (p.setDeleg o t) o (p.obj o).cls.deferNames).1
        (rehook (p.setDeleg o t) o (p.obj o).cls.deferNames).2 false

theorem relink_effect {p p1 : Pool} {o : ObjId} {n : Name} {d : DelegInfo} (evs : List Event)
    (htd : (p.obj o).cls.trait n = .defer d) (hm : d.modify = false)
    (hp1 : p1 = p ∨ (p1 = p.setDict o n none ∧ (p.obj o).dict n ≠ none)) (hdict : (p1.obj o).dict n = none) :
    Effect p (.del o n) (relink p1 o n d evs).pool (relink p1 o n d evs).hookExc (relink p1 o n d evs).broken := by
  unfold relink
  cases hf : (p1.obj o).fwd n with
  | some r =>
    simp only []
    rcases hp1 with rfl | ⟨rfl, hne⟩
    · exact .same ..
    · refine .localDel o n d _ _ htd hm hne (Or.inr ?_)
      simp only [setDict_fwd] at hf
      simp [hf]
  | none =>
    simp only []
    cases hh : hook p1 o n d with
    | mk h bad =>
      cases bad with
      | true =>
        simp only []
        rcases hp1 with rfl | ⟨rfl, hne⟩
        · exact .same ..
        · exact .localDel o n d _ _ htd hm hne (Or.inl rfl)
      | false =>
        simp only []
        exact .relink o n d p1 h _ htd hm (hp1.imp id (·.1)) hdict hf hh

theorem setPlain_effect (E : Env) (k : Nat) (p : Pool) (op : Op) (x : ObjId) (t : Name) (vid : Nat) (dflt : Val)
    (cmp : Cmp) (v : Val)
    (hnd : NonDefer ((p.obj x).cls.trait t)) :
    Effect p op (setPlain E k p x t vid dflt cmp v).pool (setPlain E k p x t vid dflt cmp v).hookExc
      (setPlain E k p x t vid dflt cmp v).broken := by
  unfold setPlain
  cases E.validate vid k v with
  | error e => exact .same ..
  | ok w => exact .dictTarget _ x t _ _ _ hnd

theorem delPlain_effect (E : Env) (p : Pool) (op : Op) (x : ObjId) (t : Name) (dflt : Val) (cmp : Cmp)
    (hnd : NonDefer ((p.obj x).cls.trait t)) :
    Effect p op (delPlain E p x t dflt cmp).pool (delPlain E p x t dflt cmp).hookExc (delPlain E p x t dflt cmp).broken := by
  unfold delPlain
  exact .dictTarget _ x t _ _ _ hnd

theorem delPython_effect (p : Pool) (op : Op) (x : ObjId) (t : Name)
    (hnd : NonDefer ((p.obj x).cls.trait t)) :
    Effect p op (delPython p x t).pool (delPython p x t).hookExc (delPython p x t).broken := by
  unfold delPython
  cases (p.obj x).dict t with
  | none => exact .same ..
  | some old => exact .dictTarget _ x t _ _ _ hnd

theorem setDefer_effect (E : Env) (k : Nat) (p : Pool) (o : ObjId) (n : Name) (d : DelegInfo)
    (htd : (p.obj o).cls.trait n = .defer d) (v : Option Val) :
    Effect p (match v with | some v => .set o n v | none => .del o n)
      (setDefer E k p o n d v).pool (setDefer E k p o n d v).hookExc (setDefer E k p o n d v).broken := by
  unfold setDefer
  cases hw : walk p (p.obj o).cls.pfx 100 o d n with
  | error e => exact .same ..
  | ok r =>
    obtain ⟨x, t, td⟩ := r
    obtain ⟨htdx, hnd⟩ := walk_ok hw
    subst htdx
    simp only []
    cases hm : d.modify with
    | true =>
      simp only [if_true]
      cases htx : (p.obj x).cls.trait t with
      | defer d' => exact absurd htx (hnd d')
      | plain vid dflt cmp =>
        cases v with
        | some v => exact setPlain_effect E k p _ x t vid dflt cmp v hnd
        | none => exact delPlain_effect E p _ x t dflt cmp hnd
      | python =>
        cases v with
        | some v => exact .dictTarget _ x t _ _ _ hnd
        | none => exact delPython_effect p _ x t hnd
    | false =>
      simp only [Bool.false_eq_true, if_false]
      cases htx : (p.obj x).cls.trait t with
      | defer d' => exact absurd htx (hnd d')
      | plain vid dflt cmp =>
        cases v with
        | some v =>
          simp only []
          cases E.validate vid k v with
          | error e => exact .same ..
          | ok w =>
            simp only []
            cases read p p.fuel o n with
            | error e => exact .same ..
            | ok old => exact .localSet o n v d w _ _ htd hm
        | none =>
          simp only []
          cases hdict : (p.obj o).dict n with
          | none => exact relink_effect [] htd hm (Or.inl rfl) hdict
          | some old =>
            simp only []
            have hne : (p.obj o).dict n ≠ none := by simp [hdict]
            cases read (p.setDict o n none) (p.setDict o n none).fuel o n with
            | error e => exact .localDel o n d _ _ htd hm hne (Or.inl rfl)
            | ok cur =>
              exact relink_effect _ htd hm (Or.inr ⟨rfl, hne⟩) (by rw [setDict_dict]; simp)
      | python =>
        cases v with
        | some v => exact .localSet o n v d v _ _ htd hm
        | none =>
          simp only []
          cases hdict : (p.obj o).dict n with
          | none => exact .same ..
          | some old =>
            have hne : (p.obj o).dict n ≠ none := by simp [hdict]
            exact relink_effect _ htd hm (Or.inr ⟨rfl, hne⟩) (by rw [setDict_dict]; simp)

/-- **Every operation has one of the `Effect` shapes.** -/
theorem step_effect (E : Env) (k : Nat) (p : Pool) (op : Op) :
    Effect p op (step E k p op).pool (step E k p op).hookExc (step E k p op).broken := by
  cases op with
  | set o n v =>
    simp only [step]
    cases htd : (p.obj o).cls.trait n with
    | plain vid dflt cmp => exact setPlain_effect E k p _ o n vid dflt cmp v (by rw [htd]; intro d; simp)
    | python => exact .dictTarget _ o n _ _ _ (by rw [htd]; intro d; simp)
    | defer d => exact setDefer_effect E k p o n d htd (some v)
  | del o n =>
    simp only [step]
    cases htd : (p.obj o).cls.trait n with
    | plain vid dflt cmp => exact delPlain_effect E p _ o n dflt cmp (by rw [htd]; intro d; simp)
    | python => exact delPython_effect p _ o n (by rw [htd]; intro d; simp)
    | defer d => exact setDefer_effect E k p o n d htd none
  | swap o t =>
    simp only [step, swap]
    by_cases h : (p.obj o).deleg = t
    · simp only [h, if_true]; exact .same ..
    · simp only [h, if_false]; exact .swap o t h
  | read o n =>
    simp only [step]
    cases read p p.fuel o n with
    | error e => exact .same ..
    | ok v => exact .same ..

/-! ### the flags -/

theorem relink_flags (p : Pool) (o : ObjId) (n : Name) (d : DelegInfo) (evs : List Event) :
    (relink p o n d evs).hookExc = 0 ∧ (relink p o n d evs).broken = false := by
  unfold relink
  cases (p.obj o).fwd n with
  | some r => exact ⟨rfl, rfl⟩
  | none =>
    simp only []
    have h2 := hook_snd p o n d
    cases hh : hook p o n d with
    | mk h bad =>
      rw [hh] at h2
      simp only at h2
      subst h2
      exact ⟨rfl, rfl⟩

theorem setPlain_flags (E : Env) (k : Nat) (p : Pool) (x : ObjId) (t : Name) (vid : Nat) (dflt : Val) (cmp : Cmp)
    (v : Val) :
    (setPlain E k p x t vid dflt cmp v).hookExc = 0 ∧ (setPlain E k p x t vid dflt cmp v).broken = false := by
  unfold setPlain; cases E.validate vid k v <;> exact ⟨rfl, rfl⟩

theorem delPlain_flags (E : Env) (p : Pool) (x : ObjId) (t : Name) (dflt : Val) (cmp : Cmp) :
    (delPlain E p x t dflt cmp).hookExc = 0 ∧ (delPlain E p x t dflt cmp).broken = false := ⟨rfl, rfl⟩

theorem delPython_flags (p : Pool) (x : ObjId) (t : Name) :
    (delPython p x t).hookExc = 0 ∧ (delPython p x t).broken = false := by
  unfold delPython; cases (p.obj x).dict t <;> exact ⟨rfl, rfl⟩

/-- Through a deferring attribute: no exception is ever swallowed; the only way to raise after having
changed the object is the `del` of a prototyped value whose read-back through the link fails. -/
theorem setDefer_flags (E : Env) (k : Nat) (p : Pool) (o : ObjId) (n : Name) (d : DelegInfo) (v : Option Val) :
    (setDefer E k p o n d v).hookExc = 0 ∧
    ((setDefer E k p o n d v).broken = true →
      v = none ∧ d.modify = false ∧ (p.obj o).dict n ≠ none ∧
      ∃ e, read (p.setDict o n none) (p.setDict o n none).fuel o n = .error e) := by
  unfold setDefer
  cases hw : walk p (p.obj o).cls.pfx 100 o d n with
  | error e => exact ⟨rfl, fun h => by cases h⟩
  | ok r =>
    obtain ⟨x, t, td⟩ := r
    simp only []
    cases hm : d.modify with
    | true =>
      simp only [if_true]
      cases td with
      | plain vid dflt cmp =>
        cases v with
        | some v => exact ⟨(setPlain_flags ..).1, fun h => by rw [(setPlain_flags ..).2] at h; cases h⟩
        | none => exact ⟨(delPlain_flags ..).1, fun h => by rw [(delPlain_flags ..).2] at h; cases h⟩
      | python =>
        cases v with
        | some v => exact ⟨rfl, fun h => by cases h⟩
        | none => exact ⟨(delPython_flags ..).1, fun h => by rw [(delPython_flags ..).2] at h; cases h⟩
      | defer d' =>
        cases v with
        | some v => exact ⟨rfl, fun h => by cases h⟩
        | none => exact ⟨(delPython_flags ..).1, fun h => by rw [(delPython_flags ..).2] at h; cases h⟩
    | false =>
      simp only [Bool.false_eq_true, if_false]
      cases td with
      | plain vid dflt cmp =>
        cases v with
        | some v =>
          simp only []
          cases E.validate vid k v with
          | error e => exact ⟨rfl, fun h => by cases h⟩
          | ok w =>
            simp only []
            cases read p p.fuel o n with
            | error e => exact ⟨rfl, fun h => by cases h⟩
            | ok old => exact ⟨rfl, fun h => by cases h⟩
        | none =>
          simp only []
          cases hdict : (p.obj o).dict n with
          | none => exact ⟨(relink_flags ..).1, fun h => by rw [(relink_flags ..).2] at h; cases h⟩
          | some old =>
            simp only []
            cases hr : read (p.setDict o n none) (p.setDict o n none).fuel o n with
            | error e => exact ⟨rfl, fun _ => by simp⟩
            | ok cur => exact ⟨(relink_flags ..).1, fun h => by rw [(relink_flags ..).2] at h; cases h⟩
      | python =>
        cases v with
        | some v => exact ⟨rfl, fun h => by cases h⟩
        | none =>
          simp only []
          cases (p.obj o).dict n with
          | none => exact ⟨rfl, fun h => by cases h⟩
          | some old => exact ⟨(relink_flags ..).1, fun h => by rw [(relink_flags ..).2] at h; cases h⟩
      | defer d' =>
        cases v with
        | some v => exact ⟨rfl, fun h => by cases h⟩
        | none =>
          simp only []
          cases (p.obj o).dict n with
          | none => exact ⟨rfl, fun h => by cases h⟩
          | some old => exact ⟨(relink_flags ..).1, fun h => by rw [(relink_flags ..).2] at h; cases h⟩

/-- **No operation swallows a listener exception** (fix bead785), and only a `del` of a prototyped
value whose read-back fails raises after changing the object. -/
theorem step_flags (E : Env) (k : Nat) (p : Pool) (op : Op) :
    (step E k p op).hookExc = 0 ∧
    ((step E k p op).broken = true → ∃ o n d, op = .del o n ∧ (p.obj o).cls.trait n = .defer d ∧
      d.modify = false ∧ (p.obj o).dict n ≠ none ∧
      ∃ e, read (p.setDict o n none) (p.setDict o n none).fuel o n = .error e) := by
  cases op with
  | set o n v =>
    simp only [step]
    cases htd : (p.obj o).cls.trait n with
    | plain vid dflt cmp => exact ⟨(setPlain_flags ..).1, fun h => by rw [(setPlain_flags ..).2] at h; cases h⟩
    | python => exact ⟨rfl, fun h => by cases h⟩
    | defer d =>
      obtain ⟨h1, h2⟩ := setDefer_flags E k p o n d (some v)
      exact ⟨h1, fun h => by cases (h2 h).1⟩
  | del o n =>
    simp only [step]
    cases htd : (p.obj o).cls.trait n with
    | plain vid dflt cmp => exact ⟨(delPlain_flags ..).1, fun h => by rw [(delPlain_flags ..).2] at h; cases h⟩
    | python => exact ⟨(delPython_flags ..).1, fun h => by rw [(delPython_flags ..).2] at h; cases h⟩
    | defer d =>
      obtain ⟨h1, h2⟩ := setDefer_flags E k p o n d none
      exact ⟨h1, fun h => ⟨o, n, d, by first | rfl | trivial, by first | exact htd | trivial, (h2 h).2⟩⟩
  | swap o t =>
    simp only [step, swap]
    by_cases h : (p.obj o).deleg = t
    · simp only [h, if_true]; exact ⟨by first | rfl | trivial, fun h => by simp at h⟩
    · simp only [h, if_false]; exact ⟨rehook_snd .., fun h => by simp at h⟩
  | read o n =>
    simp only [step]
    cases read p p.fuel o n <;> exact ⟨rfl, fun h => by cases h⟩

end TraitsVerif.Model.Deleg
