/-
Cluster `obs`: frame lemma (a walk touches only the observables its from-scratch
items sit on) and, from it, `TraitList.notify`'s iteration over the LIVE notifier
list coincides with an iteration over a copy when no maintainer's walk comes back
to the mutated container.
-/
import TraitsVerif.Lemmas.ObsSite
namespace TraitsVerif.Model.Obs
open TraitsVerif

/-! ### frame -/

theorem addItem_get_ne (it : Item) (H : Hooks) (o : Observable) (hne : it.1 ≠ o) :
    (addItem it H).get o = H.get o := by
  unfold addItem
  rw [Hooks.get_upd]
  have : ¬ o = it.1 := fun e => hne e.symm
  simp [this]

theorem removeItem_get_ne (it : Item) (H H' : Hooks) (o : Observable) (hne : it.1 ≠ o)
    (h : removeItem it H = .ok H') : H'.get o = H.get o := by
  unfold removeItem at h
  cases hr : removeKey it.2 (H.get it.1) with
  | error e => simp [hr] at h
  | ok l =>
    simp [hr] at h
    subst h
    rw [Hooks.get_upd]
    have : ¬ o = it.1 := fun e => hne e.symm
    simp [this]

theorem applyOwn_frame (rm : Bool) (its : List Item) (H : Hooks) (done : List Item) (o : Observable)
    (hne : ∀ it ∈ its, it.1 ≠ o) (hd : ∀ it ∈ done, it.1 ≠ o) :
    (applyOwn rm its H done).1.get o = H.get o ∧ ∀ it ∈ (applyOwn rm its H done).2.1, it.1 ≠ o := by
  induction its generalizing H done with
  | nil => exact ⟨rfl, hd⟩
  | cons it its ih =>
    have hit := hne it (List.mem_cons_self ..)
    have hrest : ∀ i ∈ its, i.1 ≠ o := fun i hi => hne i (List.mem_cons_of_mem _ hi)
    have hd' : ∀ i ∈ it :: done, i.1 ≠ o := by
      intro i hi
      cases hi with
      | head => exact hit
      | tail _ h => exact hd i h
    cases rm with
    | true =>
      simp only [applyOwn, if_true]
      cases hr : removeItem it H with
      | error e => exact ⟨rfl, hd⟩
      | ok H' =>
        obtain ⟨a, b⟩ := ih H' _ hrest hd'
        exact ⟨by rw [a, removeItem_get_ne it H H' o hit hr], b⟩
    | false =>
      simp only [applyOwn, Bool.false_eq_true, if_false]
      obtain ⟨a, b⟩ := ih (addItem it H) _ hrest hd'
      exact ⟨by rw [a, addItem_get_ne it H o hit], b⟩

theorem undo_frame (rm : Bool) (done : List Item) (H : Hooks) (o : Observable) (hd : ∀ it ∈ done, it.1 ≠ o) :
    (undo rm done H).get o = H.get o := by
  induction done generalizing H with
  | nil => rfl
  | cons it done ih =>
    have hit := hd it (List.mem_cons_self ..)
    simp only [undo]
    rw [ih _ (fun i hi => hd i (List.mem_cons_of_mem _ hi))]
    cases rm with
    | true => simp only [if_true]; exact addItem_get_ne it H o hit
    | false =>
      simp only [Bool.false_eq_true, if_false]
      cases hr : removeItem it H with
      | error e => rfl
      | ok H' => exact removeItem_get_ne it H H' o hit hr

theorem foldRes_frame (f : W → Hooks → Res) (o : Observable) (ys : List W) (H : Hooks)
    (hf : ∀ y ∈ ys, ∀ H', (f y H').H.get o = H'.get o) : (foldRes f ys H).H.get o = H.get o := by
  induction ys generalizing H with
  | nil => rfl
  | cons y ys ih =>
    simp only [foldRes]
    split
    · exact hf y (List.mem_cons_self ..) H
    · rw [ih _ (fun y' hy' => hf y' (List.mem_cons_of_mem _ hy')), hf y (List.mem_cons_self ..) H]

/-- A walk leaves untouched every observable none of its from-scratch items sits on
(whether it succeeds or raises). -/
theorem addRemove_frame (h : Heap) (k : HKey) (o : Observable) :
    ∀ g : Graph, ∀ (rm extra : Bool) (x : W) (H : Hooks), (∀ it ∈ hookList h k extra g x, it.1 ≠ o) →
      (addRemove h k rm extra g x H).H.get o = H.get o := by
  apply Graph.ind (P := fun g => ∀ (rm extra : Bool) (x : W) (H : Hooks),
    (∀ it ∈ hookList h k extra g x, it.1 ≠ o) → (addRemove h k rm extra g x H).H.get o = H.get o)
  intro ob cs ih rm extra x H hno
  -- the pieces of the from-scratch list
  have hown : ∀ it ∈ ownItems h k ob cs x, it.1 ≠ o := fun it hit => hno it (mem_hookList_own h k extra ob cs x it hit)
  have hnotif : ∀ (rm : Bool) (H : Hooks) (done : List Item), (∀ it ∈ done, it.1 ≠ o) →
      (notifStep h k rm ob x H done).1.get o = H.get o ∧ ∀ it ∈ (notifStep h k rm ob x H done).2.1, it.1 ≠ o := by
    intro rm H done hd
    unfold notifStep
    split
    · rename_i hn
      split
      · exact ⟨rfl, hd⟩
      · rename_i os hos
        apply applyOwn_frame rm _ H done o _ hd
        intro it hit
        apply hown
        simp only [ownItems, hos, okOr, hn, if_true, List.mem_append]
        exact Or.inl hit
    · exact ⟨rfl, hd⟩
  have hmaint : ∀ (rm : Bool) (H : Hooks) (done : List Item), (∀ it ∈ done, it.1 ≠ o) →
      (maintStep h k rm ob cs x H done).1.get o = H.get o ∧ ∀ it ∈ (maintStep h k rm ob cs x H done).2.1, it.1 ≠ o := by
    intro rm H done hd
    unfold maintStep
    split
    · exact ⟨rfl, hd⟩
    · rename_i os hos
      apply applyOwn_frame rm _ H done o _ hd
      intro it hit
      apply hown
      simp only [ownItems, hos, okOr, List.mem_append]
      exact Or.inr hit
  have hextra : ∀ (rm : Bool) (H : Hooks), extra = true → (extraStep h k rm (.node ob cs) x H).H.get o = H.get o := by
    intro rm H hex
    unfold extraStep
    split
    · rfl
    · rename_i os hos
      have hi : ∀ it ∈ os.map (fun o' => (o', NKey.maint .added (.node ob cs) k)), it.1 ≠ o := by
        intro it hit
        apply hno
        rw [hookList_node]
        simp only [Graph.ob] at hos
        simp only [hex, if_true, extraItems, hos, okOr, List.mem_append]
        exact Or.inr hit
      obtain ⟨a, b⟩ := applyOwn_frame rm _ H [] o hi (by intro it hit; cases hit)
      simp only []
      split
      · rw [undo_frame rm _ _ o b, a]
      · exact a
  have hCs : ∀ (rm : Bool) (cs' : List Graph), (∀ c ∈ cs', c ∈ cs) → ∀ H,
      (addRemoveCs h k rm ob x cs' H).H.get o = H.get o := by
    intro rm cs'
    induction cs' with
    | nil => intro _ H; rfl
    | cons c cs' ihc =>
      intro hsub H
      simp only [addRemoveCs]
      split
      · rfl
      · rename_i ys hys
        have h1 : (foldRes (addRemove h k rm true c) ys H).H.get o = H.get o := by
          apply foldRes_frame
          intro y hy H'
          apply ih c (hsub c (List.mem_cons_self ..)) rm true y H'
          intro it hit
          exact hno it (mem_hookList_child h k extra ob cs x it c (hsub c (List.mem_cons_self ..)) y
            (by rw [hys]; exact hy) hit)
        split
        · exact h1
        · rw [ihc (fun c' hc' => hsub c' (List.mem_cons_of_mem _ hc')), h1]
  cases rm with
  | true =>
    rw [addRemove_rm_unfold]
    have r1 : (if extra then extraStep h k true (.node ob cs) x H else ⟨H, none⟩ : Res).H.get o = H.get o := by
      split
      · rename_i hex; exact hextra true H hex
      · rfl
    simp only []
    split
    · exact r1
    · have r2 := hCs true cs (fun c hc => hc)
        (if extra then extraStep h k true (.node ob cs) x H else ⟨H, none⟩ : Res).H
      split
      · rw [r2, r1]
      · obtain ⟨a3, b3⟩ := hmaint true (addRemoveCs h k true ob x cs
          (if extra then extraStep h k true (.node ob cs) x H else ⟨H, none⟩ : Res).H).H [] (by intro it hit; cases hit)
        split
        · rw [undo_frame true _ _ o b3, a3, r2, r1]
        · obtain ⟨a4, b4⟩ := hnotif true (maintStep h k true ob cs x (addRemoveCs h k true ob x cs
            (if extra then extraStep h k true (.node ob cs) x H else ⟨H, none⟩ : Res).H).H []).1 _ b3
          split
          · rw [undo_frame true _ _ o b4, a4, a3, r2, r1]
          · rw [a4, a3, r2, r1]
  | false =>
    rw [addRemove_add_unfold]
    obtain ⟨a1, b1⟩ := hnotif false H [] (by intro it hit; cases hit)
    simp only []
    split
    · rw [undo_frame false _ _ o b1, a1]
    · obtain ⟨a2, b2⟩ := hmaint false (notifStep h k false ob x H []).1 _ b1
      split
      · rw [undo_frame false _ _ o b2, a2, a1]
      · have r3 := hCs false cs (fun c hc => hc)
          (maintStep h k false ob cs x (notifStep h k false ob x H []).1 (notifStep h k false ob x H []).2.1).1
        split
        · rw [undo_frame false _ _ o b2, r3, a2, a1]
        · have r4 : (if extra then extraStep h k false (.node ob cs) x
              (addRemoveCs h k false ob x cs (maintStep h k false ob cs x (notifStep h k false ob x H []).1
                (notifStep h k false ob x H []).2.1).1).H else
              ⟨(addRemoveCs h k false ob x cs (maintStep h k false ob cs x (notifStep h k false ob x H []).1
                (notifStep h k false ob x H []).2.1).1).H, none⟩ : Res).H.get o =
              (addRemoveCs h k false ob x cs (maintStep h k false ob cs x (notifStep h k false ob x H []).1
                (notifStep h k false ob x H []).2.1).1).H.get o := by
            split
            · rename_i hex; exact hextra false _ hex
            · rfl
          split
          · rw [undo_frame false _ _ o b2, r4, r3, a2, a1]
          · rw [r4, r3, a2, a1]

end TraitsVerif.Model.Obs
