/-
Cluster `obs`: frame lemma (a walk touches only the observables its from-scratch
items sit on) and, from it, `TraitList.notify`'s iteration over the LIVE notifier
list coincides with an iteration over a copy when no maintainer's walk comes back
to the mutated container.
-/
import TraitsVerif.Lemmas.ObsSite
namespace TraitsVerif.Model.Obs
open TraitsVerif

/-! ### frame -/

theorem addItem_get_ne (it : Item) (H : Hooks) (o : Observable) (hne : it.1 ≠ o) :
    (addItem it H).get o = H.get o := by
  unfold addItem
  rw [Hooks.get_upd]
  have : ¬ o = it.1 := fun e => hne e.symm
  simp [this]

theorem removeItem_get_ne (it : Item) (H H' : Hooks) (o : Observable) (hne : it.1 ≠ o)
    (h : removeItem it H = .ok H') : H'.get o = H.get o := by
  unfold removeItem at h
  cases hr : removeKey it.2 (H.get it.1) with
  | error e => simp [hr] at h
  | ok l =>
    simp [hr] at h
    subst h
    rw [Hooks.get_upd]
    have : ¬ o = it.1 := fun e => hne e.symm
    simp [this]

theorem foldRes_frame (f : W → Hooks → Res) (o : Observable) (ys : List W) (H : Hooks)
    (hf : ∀ y ∈ ys, ∀ H', (f y H').H.get o = H'.get o) : (foldRes f ys H).H.get o = H.get o := by
  induction ys generalizing H with
  | nil => rfl
  | cons y ys ih =>
    simp only [foldRes]
    split
    · exact hf y (List.mem_cons_self ..) H
    · rw [ih _ (fun y' hy' => hf y' (List.mem_cons_of_mem _ hy')), hf y (List.mem_cons_self ..) H]

/-- A call leaves untouched every observable none of its from-scratch items sits on
(whether it succeeds or raises and rolls back). -/
theorem addRemove_frame (h : Heap) (k : HKey) (o : Observable) (g : Graph) (rm extra : Bool) (x : W) (H : Hooks)
    (hno : ∀ it ∈ hookList h k extra g x, it.1 ≠ o) : (addRemove h k rm extra g x H).H.get o = H.get o :=
  addRemove_touch (fun H' => H'.get o = H.get o) (fun it => it.1 ≠ o)
    (fun it H' hi hP => by rw [addItem_get_ne it H' o hi]; exact hP)
    (fun it H' H'' hi hP hr => by rw [removeItem_get_ne it H' H'' o hi hr]; exact hP)
    h k g rm extra x H hno rfl

end TraitsVerif.Model.Obs
