/-
The translated `setattr_trait` / `has_traits_setattro` / `has_traits_getattro`
(`Generated/AttrProg.lean`) against the models `setattrTrait`, `traitSetattr`,
`getattro`: the paths proved by symbolic execution of the MiniC interpreter.
-/
import TraitsVerif.Lemmas.AttrSource
namespace TraitsVerif.Lemmas.AttrSource
open TraitsVerif TraitsVerif.Model.Attr TraitsVerif.Model.MiniC
open TraitsVerif.Generated

macro "st_exec" "[" ts:Lean.Parser.Tactic.simpLemma,* "]" : tactic =>
  `(tactic| mc_exec [AttrProg.setattr_trait, ptrv, $ts,*])

/-- `del obj.name` when nothing is stored: returns 0, nothing happens. -/
theorem setattr_trait_del_absent (C : IC) (s : OSt) (dn idn : Bool) (hs : s.slot = none) :
    call C AttrProg.setattr_trait [.trait, .trait, .self, .name, .null] s dn idn
      = ofInt (setattrTrait C.E C.t none s) := by
  unfold setattrTrait setattrTraitDel
  cases dn <;> st_exec [hs]

set_option maxHeartbeats 1000000 in
/-- A rejected assignment: the validator's exception, -1, nothing else. -/
theorem setattr_trait_rejected (C : IC) (s : OSt) (dn idn : Bool) (v : Id) (k : Nat) (e : Exc)
    (hval : C.t.validate = some k) (hu : v ≠ undef) (hr : C.E.validate k s.ctx.nval v = .error e) :
    call C AttrProg.setattr_trait [.trait, .trait, .self, .name, .obj v] s dn idn
      = ofInt (setattrTrait C.E C.t (some v) s) := by
  unfold setattrTrait
  cases dn <;> st_exec [hval, hu, hr, OSt.validateAssigned, runValidate]

/-- `has_traits_setattro`: instance trait first, class trait otherwise, then
`trait->setattr(trait, trait, obj, name, value)` and its result. -/
theorem has_traits_setattro_is_source (C : IC) (value : Option Id) (s : OSt) (dn idn : Bool) :
    call C AttrProg.has_traits_setattro [.self, .name, ofValue value] s dn idn
      = ofInt (traitSetattr C.E C.t value s) := by
  rcases hr : traitSetattr C.E C.t value s with ⟨_ | e, s'⟩ <;>
  cases value <;> cases idn <;> cases hit : s.it <;>
  mc_exec [AttrProg.has_traits_setattro, hr, hit]

/-- `has_traits_getattro`: the `__dict__` short cut, else the selected trait's `getattr`. -/
theorem has_traits_getattro_is_source (C : IC) (s : OSt) (dn idn : Bool) (hdn : dn = true → s.slot = none) :
    call C AttrProg.has_traits_getattro [.self, .name] s dn idn = ofPtr (getattro C.E C.t s) := by
  unfold getattro
  cases hs : s.slot with
  | some v =>
    have hd : dn = false := by cases dn <;> simp_all
    subst hd
    mc_exec [AttrProg.has_traits_getattro, hs, ptrv]
  | none =>
    rcases hr : traitGetattr C.E C.t s with ⟨e | v, s'⟩ <;>
    cases dn <;> cases idn <;> cases hit : s.it <;>
    mc_exec [AttrProg.has_traits_getattro, hs, ptrv, hr, hit]

end TraitsVerif.Lemmas.AttrSource
