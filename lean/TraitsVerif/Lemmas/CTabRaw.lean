/-
Lemmas about the raw-`CTrait` reference machine of `Model.RefLedger.Raw`
(events `incref` / `decref` / `store`, checkpoints after each `decref`).
-/
import TraitsVerif.Model.RefLedger
namespace TraitsVerif.Lemmas.Raw
open TraitsVerif.Model.RefLedger.Raw

/-- Storing `v` into slot `i`: the slots that point to `o` lose the old content of the slot and gain `v`
(`≤`: an index beyond the array stores nothing). -/
theorem count_set_le (l : List (Option Nat)) (i : Nat) (v : Option Nat) (o : Nat) :
    ((l.set i v).count (some o) : Int) + (if l.getD i none = some o then 1 else 0)
      ≤ (l.count (some o) : Int) + (if v = some o then 1 else 0) := by
  by_cases h : i < l.length
  · have hget : l.getD i none = l[i] := by simp [List.getD, h]
    rw [List.count_set h, hget]
    by_cases h1 : l[i] = some o
    · have hpos : 0 < l.count (some o) := List.count_pos_iff.mpr (h1 ▸ List.getElem_mem h)
      by_cases h2 : v = some o <;> simp [h1, h2] <;> omega
    · by_cases h2 : v = some o <;> simp [h1, h2]
  · have hle : l.length ≤ i := Nat.le_of_not_lt h
    have hget : l.getD i none = none := by simp [List.getD, hle]
    rw [List.set_eq_of_length_le hle, hget]
    by_cases h2 : v = some o <;> simp [h2] <;> omega


@[simp] theorem run_nil (s : MS) : run [] s = s := rfl
@[simp] theorem run_cons (e : Ev) (es : List Ev) (s : MS) : run (e :: es) s = run es (ev s e) := rfl

theorem run_append (a b : List Ev) (s : MS) : run (a ++ b) s = run b (run a s) := by
  simp [run, List.foldl_append]

theorem checkpoints_append (a b : List Ev) (s : MS) :
    checkpoints (a ++ b) s = checkpoints a s ++ checkpoints b (run a s) := by
  induction a generalizing s with
  | nil => simp [checkpoints]
  | cons e es ih => cases e <;> simp [checkpoints, ih]

/-! ### `incs`, `stores`, `decs` -/

theorem incs_none (vs : List (Option Nat)) : incs (none :: vs) = incs vs := by simp [incs]
theorem incs_some (p : Nat) (vs : List (Option Nat)) : incs (some p :: vs) = .incref p :: incs vs := by
  simp [incs]
theorem decs_none (vs : List (Option Nat)) : decs (none :: vs) = decs vs := by simp [decs]
theorem decs_some (p : Nat) (vs : List (Option Nat)) : decs (some p :: vs) = .decref p :: decs vs := by
  simp [decs]

theorem run_incs (vs : List (Option Nat)) (s : MS) :
    (run (incs vs) s).ptr = s.ptr ∧ ∀ o, (run (incs vs) s).rc o = s.rc o + (vs.count (some o) : Int) := by
  induction vs generalizing s with
  | nil => simp [incs]
  | cons v vs ih =>
    cases v with
    | none => rw [incs_none]; simpa using ih s
    | some p =>
      rw [incs_some, run_cons]
      refine ⟨(ih _).1, fun o => ?_⟩
      rw [(ih _).2 o]
      by_cases h : o = p
      · subst h; simp [ev, bump]; omega
      · have h' : ¬ p = o := fun e => h e.symm
        simp [ev, bump, h, h']

theorem checkpoints_incs (vs : List (Option Nat)) (s : MS) : checkpoints (incs vs) s = [] := by
  induction vs generalizing s with
  | nil => simp [incs, checkpoints]
  | cons v vs ih =>
    cases v with
    | none => rw [incs_none]; exact ih s
    | some p => rw [incs_some]; simp [checkpoints, ih]

theorem run_decs (vs : List (Option Nat)) (s : MS) :
    (run (decs vs) s).ptr = s.ptr ∧ ∀ o, (run (decs vs) s).rc o = s.rc o - (vs.count (some o) : Int) := by
  induction vs generalizing s with
  | nil => simp [decs]
  | cons v vs ih =>
    cases v with
    | none => rw [decs_none]; simpa using ih s
    | some p =>
      rw [decs_some, run_cons]
      refine ⟨(ih _).1, fun o => ?_⟩
      rw [(ih _).2 o]
      by_cases h : o = p
      · subst h; simp [ev, bump]; omega
      · have h' : ¬ p = o := fun e => h e.symm
        simp [ev, bump, h, h']

/-- Releasing a list of references: if every pointer is backed at the end, it was at every step. -/
theorem checkpoints_decs (vs : List (Option Nat)) (s : MS) (h : (run (decs vs) s).Inv) :
    ∀ c ∈ checkpoints (decs vs) s, c.Inv := by
  induction vs generalizing s with
  | nil => simp [decs, checkpoints]
  | cons v vs ih =>
    cases v with
    | none => rw [decs_none] at h ⊢; exact ih s h
    | some p =>
      rw [decs_some] at h ⊢
      rw [run_cons] at h
      intro c hc
      simp only [checkpoints, List.mem_cons] at hc
      rcases hc with hc | hc
      · subst hc
        intro o
        have h1 := h o
        have h2 := (run_decs vs (ev s (.decref p))).2 o
        have h3 := (run_decs vs (ev s (.decref p))).1
        simp only [MS.held] at h1 ⊢
        rw [h3] at h1
        omega
      · exact ih _ h c hc

theorem run_stores (ws : List (Nat × Option Nat)) (s : MS) :
    (run (stores ws) s).rc = s.rc ∧
    ∀ o, ((run (stores ws) s).held o : Int) ≤ (s.held o : Int) + ((ws.map (·.2)).count (some o) : Int) := by
  induction ws generalizing s with
  | nil => simp [stores]
  | cons w ws ih =>
    obtain ⟨i, v⟩ := w
    have e : stores ((i, v) :: ws) = .store i v :: stores ws := by simp [stores]
    rw [e, run_cons]
    refine ⟨(ih _).1, fun o => ?_⟩
    have h1 := (ih (ev s (.store i v))).2 o
    have h2 := count_set_le s.ptr i v o
    simp only [MS.held, ev] at h1 ⊢
    simp only [List.map_cons, List.count_cons]
    by_cases h3 : v = some o
    · subst h3
      by_cases h4 : s.ptr.getD i none = some o <;> simp at h2 ⊢ <;> omega
    · have h3' : ¬ (v == some o) = true := by simpa using h3
      by_cases h4 : s.ptr.getD i none = some o <;> simp [h3] at h2 ⊢ <;> omega

theorem checkpoints_stores (ws : List (Nat × Option Nat)) (s : MS) : checkpoints (stores ws) s = [] := by
  induction ws generalizing s with
  | nil => simp [stores, checkpoints]
  | cons w ws ih =>
    have e : stores (w :: ws) = .store w.1 w.2 :: stores ws := by simp [stores]
    rw [e]; simp [checkpoints, ih]

/-! ### The entry points -/

theorem decs_append (a b : List (Option Nat)) : decs (a ++ b) = decs a ++ decs b := by
  simp [decs, List.filterMap_append]

theorem at_store_ne (s : MS) (i j : Nat) (v : Option Nat) (h : i ≠ j) : (ev s (.store i v)).at j = s.at j := by
  simp [MS.at, ev, List.getD_eq_getElem?_getD, List.getElem?_set_ne h]

/-- Stores into pairwise different slots: the pointers to `o` lose what those slots held BEFORE and gain what
was stored. -/
theorem run_stores_olds (ws : List (Nat × Option Nat)) (s : MS) (hnd : (ws.map (·.1)).Nodup) (o : Nat) :
    ((run (stores ws) s).held o : Int) + ((ws.map (fun w => s.at w.1)).count (some o) : Int)
      ≤ (s.held o : Int) + ((ws.map (·.2)).count (some o) : Int) := by
  induction ws generalizing s with
  | nil => simp [stores]
  | cons w ws ih =>
    obtain ⟨i, v⟩ := w
    have e : stores ((i, v) :: ws) = .store i v :: stores ws := by simp [stores]
    simp only [List.map_cons, List.nodup_cons] at hnd
    have h1 := ih (ev s (.store i v)) hnd.2
    have hsame : ws.map (fun w => (ev s (.store i v)).at w.1) = ws.map (fun w => s.at w.1) := by
      apply List.map_congr_left
      intro w hw
      apply at_store_ne
      intro hi
      exact hnd.1 (hi ▸ List.mem_map_of_mem (f := (·.1)) hw)
    rw [hsame] at h1
    have h2 : ((s.ptr.set i v).count (some o) : Int) + (if s.at i = some o then 1 else 0)
        ≤ (s.ptr.count (some o) : Int) + (if v = some o then 1 else 0) := count_set_le s.ptr i v o
    rw [e, run_cons]
    simp only [List.map_cons, List.count_cons]
    simp only [MS.held, ev] at h1 ⊢
    by_cases h3 : v = some o
    · subst h3
      by_cases h4 : s.at i = some o <;> simp [h4] at h2 ⊢ <;> omega
    · by_cases h4 : s.at i = some o <;> simp [h3, h4] at h2 ⊢ <;> omega

/-- Accounting of `putEvents` run from a state `t` that has the pointers of `s` (the state the old contents
were read from): the count of `o` gains what was stored and loses what was remembered; the pointers to `o` plus
what was remembered are at most the pointers before plus what was stored. -/
theorem putEvents_account (ws : List (Nat × Option Nat)) (s t : MS) (hpt : t.ptr = s.ptr)
    (hnd : (ws.map (·.1)).Nodup) (o : Nat) :
    (run (putEvents s ws) t).rc o
        = t.rc o + ((ws.map (·.2)).count (some o) : Int) - ((ws.map (fun w => s.at w.1)).count (some o) : Int) ∧
    ((run (putEvents s ws) t).held o : Int) + ((ws.map (fun w => s.at w.1)).count (some o) : Int)
        ≤ (t.held o : Int) + ((ws.map (·.2)).count (some o) : Int) := by
  have h1 := run_stores ws t
  have h2 := run_incs (ws.map (·.2)) (run (stores ws) t)
  have h3 := run_decs (ws.map (fun w => s.at w.1)) (run (incs (ws.map (·.2))) (run (stores ws) t))
  have h4 := run_stores_olds ws t hnd o
  have hat : ws.map (fun w => t.at w.1) = ws.map (fun w => s.at w.1) := by
    apply List.map_congr_left
    intro w _
    simp only [MS.at, hpt]
  rw [hat] at h4
  simp only [putEvents, run_append, MS.held] at h4 ⊢
  rw [h3.1, h3.2 o, h2.1, h2.2 o, h1.1]
  exact ⟨by omega, h4⟩

/-- The remembered contents are released only after the new ones are stored and INCREF'ed
(`_trait_set_property`, `trait_clone` since 86511b4). -/
theorem safe_putEvents (ws : List (Nat × Option Nat)) (s : MS) (h : s.Inv) (hnd : (ws.map (·.1)).Nodup) :
    Safe (putEvents s ws) s := by
  have hfin : (run (putEvents s ws) s).Inv := by
    intro o
    have h1 := putEvents_account ws s s rfl hnd o
    have h5 := h o
    omega
  refine ⟨?_, hfin⟩
  simp only [putEvents, checkpoints_append, checkpoints_stores, checkpoints_incs, List.nil_append]
  apply checkpoints_decs
  simpa [putEvents, run_append] using hfin

theorem zip_fst_nodup (dst : List Nat) (vs : List (Option Nat)) (h : dst.Nodup) :
    ((dst.zip vs).map (·.1)).Nodup := by
  induction dst generalizing vs with
  | nil => simp
  | cons d ds ih =>
    cases vs with
    | nil => simp
    | cons v vs =>
      simp only [List.nodup_cons] at h
      simp only [List.zip_cons_cons, List.map_cons, List.nodup_cons]
      refine ⟨fun hm => h.1 ?_, ih vs h.2⟩
      obtain ⟨w, hw, rfl⟩ := List.mem_map.mp hm
      exact (List.of_mem_zip hw).1

theorem safe_copy (dst src : List Nat) (s : MS) (h : s.Inv) (hnd : dst.Nodup) :
    Safe (compile s (.copy dst src)) s :=
  safe_putEvents _ s h (zip_fst_nodup dst _ hnd)

theorem safe_put (ws : List (Nat × Option Nat)) (s : MS) (h : s.Inv) (hnd : (ws.map (·.1)).Nodup) :
    Safe (compile s (.put ws)) s :=
  safe_putEvents ws s h hnd

/-- `set_value`: INCREF new; store; XDECREF old. -/
theorem safe_set (i new : Nat) (s : MS) (h : s.Inv) : Safe (compile s (.set i new)) s := by
  have key : ∀ o, ((s.ptr.set i (some new)).count (some o) : Int) + (if s.at i = some o then 1 else 0)
      ≤ s.rc o + (if new = o then 1 else 0) := by
    intro o
    have h1 := count_set_le s.ptr i (some new) o
    have h2 := h o
    simp only [MS.held] at h2
    simp only [MS.at]
    by_cases h3 : new = o
    · subst h3; simp at h1 ⊢; omega
    · simp [h3] at h1 ⊢; omega
  cases hold : s.at i with
  | none =>
    refine ⟨by simp [compile, hold, decs, checkpoints], fun o => ?_⟩
    have k := key o
    simp only [compile, hold, decs, List.filterMap_cons, List.filterMap_nil, Option.map_none,
      List.append_nil, run_cons, run_nil, ev, MS.held, bump]
    by_cases h3 : new = o
    · subst h3; simp [hold] at k ⊢; omega
    · have h3' : ¬ o = new := fun e => h3 e.symm
      simp [hold, h3, h3'] at k ⊢; omega
  | some p =>
    have hfin : (run (compile s (.set i new)) s).Inv := by
      intro o
      have k := key o
      simp only [compile, hold, decs, List.filterMap_cons, List.filterMap_nil, Option.map_some,
        List.cons_append, List.nil_append, run_cons, run_nil, ev, MS.held, bump]
      by_cases h3 : new = o
      · subst h3
        by_cases h4 : p = new
        · subst h4; simp [hold] at k ⊢; omega
        · have h4' : ¬ new = p := fun e => h4 e.symm
          simp [hold, h4, h4'] at k ⊢; omega
      · have h3' : ¬ o = new := fun e => h3 e.symm
        by_cases h4 : p = o
        · subst h4; simp [hold, h3, h3'] at k ⊢; omega
        · have h4' : ¬ o = p := fun e => h4 e.symm
          simp [hold, h3, h3', h4, h4'] at k ⊢; omega
    refine ⟨?_, hfin⟩
    intro c hc
    have : c = run (compile s (.set i new)) s := by
      simp only [compile, hold, decs, List.filterMap_cons, List.filterMap_nil, Option.map_some,
        List.cons_append, List.nil_append, checkpoints, List.mem_singleton] at hc
      simp only [compile, hold, decs, List.filterMap_cons, List.filterMap_nil, Option.map_some,
        List.cons_append, List.nil_append, run_cons, run_nil]
      exact hc
    rw [this]; exact hfin


/-- `Py_CLEAR`: store NULL; DECREF old. -/
theorem safe_clear (i : Nat) (s : MS) (h : s.Inv) : Safe (compile s (.clear i)) s := by
  have key : ∀ o, ((s.ptr.set i none).count (some o) : Int) + (if s.at i = some o then 1 else 0) ≤ s.rc o := by
    intro o
    have h1 := count_set_le s.ptr i none o
    have h2 := h o
    simp only [MS.held] at h2
    simp only [MS.at]
    simp at h1 ⊢; omega
  cases hold : s.at i with
  | none =>
    refine ⟨by simp [compile, hold, decs, checkpoints], fun o => ?_⟩
    have k := key o
    simp only [compile, hold, decs, List.filterMap_cons, List.filterMap_nil, Option.map_none,
      List.append_nil, run_cons, run_nil, ev, MS.held]
    simp [hold] at k ⊢; omega
  | some p =>
    have hfin : (run (compile s (.clear i)) s).Inv := by
      intro o
      have k := key o
      simp only [compile, hold, decs, List.filterMap_cons, List.filterMap_nil, Option.map_some,
        List.cons_append, List.nil_append, run_cons, run_nil, ev, MS.held, bump]
      by_cases h4 : p = o
      · subst h4; simp [hold] at k ⊢; omega
      · have h4' : ¬ o = p := fun e => h4 e.symm
        simp [hold, h4, h4'] at k ⊢; omega
    refine ⟨?_, hfin⟩
    intro c hc
    have : c = run (compile s (.clear i)) s := by
      simp only [compile, hold, decs, List.filterMap_cons, List.filterMap_nil, Option.map_some,
        List.cons_append, List.nil_append, checkpoints, List.mem_singleton] at hc
      simp only [compile, hold, decs, List.filterMap_cons, List.filterMap_nil, Option.map_some,
        List.cons_append, List.nil_append, run_cons, run_nil]
      exact hc
    rw [this]; exact hfin

/-- Getters: new references, released by the caller. -/
theorem safe_read (is : List Nat) (s : MS) (h : s.Inv) : Safe (compile s (.read is)) s := by
  have hfin : (run (compile s (.read is)) s).Inv := by
    intro o
    have h1 := run_incs (is.map s.at) s
    have h2 := run_decs (is.map s.at) (run (incs (is.map s.at)) s)
    have h3 := h o
    simp only [compile, run_append, MS.held] at h3 ⊢
    rw [h2.1, h2.2 o, h1.1, h1.2 o]
    omega
  refine ⟨?_, hfin⟩
  simp only [compile, checkpoints_append, checkpoints_incs, List.nil_append]
  apply checkpoints_decs
  simpa [compile, run_append] using hfin

/-- `t.__setstate__(s.__getstate__())`. -/
theorem safe_restate (dst src : List Nat) (s : MS) (h : s.Inv) (hnd : dst.Nodup) :
    Safe (compile s (.restate dst src)) s := by
  have hnd' := zip_fst_nodup dst (src.map s.at) hnd
  have h0 := run_incs (src.map s.at) s
  have hfin : (run (compile s (.restate dst src)) s).Inv := by
    intro o
    have h1 := putEvents_account (dst.zip (src.map s.at)) s (run (incs (src.map s.at)) s) h0.1 hnd' o
    have h4 := run_decs (src.map s.at) (run (putEvents s (dst.zip (src.map s.at))) (run (incs (src.map s.at)) s))
    have h6 := h o
    have h7 := h0.2 o
    simp only [compile, run_append, MS.held] at h1 h6 ⊢
    rw [h4.1, h4.2 o]
    rw [h0.1] at h1
    omega
  refine ⟨?_, hfin⟩
  simp only [compile, putEvents, checkpoints_append, checkpoints_incs, checkpoints_stores, List.nil_append,
    List.append_nil, run_append]
  intro c hc
  -- the two releasing runs are one: `decs (olds ++ vals)`
  have hcp := checkpoints_decs ((dst.zip (src.map s.at)).map (fun w => s.at w.1) ++ src.map s.at)
    (run (incs ((dst.zip (src.map s.at)).map (·.2)))
      (run (stores (dst.zip (src.map s.at))) (run (incs (src.map s.at)) s)))
    (by simpa [compile, putEvents, run_append, decs_append] using hfin)
  apply hcp
  simpa [decs_append, checkpoints_append] using hc

/-- A field set again from its own getter. -/
theorem safe_reset (i : Nat) (s : MS) (h : s.Inv) : Safe (compile s (.reset i)) s := by
  cases hold : s.at i with
  | none => exact ⟨by simp [compile, hold, checkpoints], by simpa [compile, hold] using h⟩
  | some p =>
    have key : ∀ o, ((s.ptr.set i (some p)).count (some o) : Int) ≤ s.rc o := by
      intro o
      have h1 := count_set_le s.ptr i (some p) o
      have h2 := h o
      simp only [MS.held] at h2
      simp only [MS.at] at hold
      rw [hold] at h1
      by_cases h3 : p = o
      · subst h3; simp at h1; omega
      · simp [h3] at h1; omega
    refine ⟨?_, ?_⟩
    · intro c hc
      simp only [compile, hold, checkpoints, List.mem_cons, List.not_mem_nil, or_false] at hc
      rcases hc with hc | hc <;> subst hc <;> intro o <;> have k := key o <;>
        simp only [ev, MS.held, bump] <;>
        (by_cases h3 : o = p
         · subst h3; simp <;> omega
         · simp [h3] <;> omega)
    · intro o
      have k := key o
      simp only [compile, hold, run_cons, run_nil, ev, MS.held, bump]
      by_cases h3 : o = p
      · subst h3; simp <;> omega
      · simp [h3] <;> omega

/-- Why the order matters: a trait that owns the only reference to object 1 in its slot; releasing it BEFORE
storing the new value (`_trait_set_validate` before d96fc77) leaves, at the moment the finalizer of 1 runs, a
slot that points to an object without a reference. -/
def soleValidator : MS := { ptr := [some 1], rc := fun o => if o = 1 then 1 else 0 }

theorem soleValidator_inv : soleValidator.Inv := by
  intro o
  by_cases h : o = 1
  · subst h; simp [soleValidator, MS.held]
  · have h' : ¬ (1 : Nat) = o := fun e => h e.symm
    simp [soleValidator, MS.held, h, h']

theorem release_before_store_unsafe :
    ¬ Safe [.incref 2, .decref 1, .store 0 (some 2)] soleValidator := by
  intro hs
  have := hs.1 (ev (ev soleValidator (.incref 2)) (.decref 1)) (by simp [checkpoints])
  have h1 := this 1
  simp [ev, bump, soleValidator, MS.held] at h1

/-! ### Neutrality: no call changes the references no slot accounts for -/

theorem count_set_eq (l : List (Option Nat)) (i : Nat) (v : Option Nat) (o : Nat) (h : i < l.length) :
    ((l.set i v).count (some o) : Int) + (if l.getD i none = some o then 1 else 0)
      = (l.count (some o) : Int) + (if v = some o then 1 else 0) := by
  have hget : l.getD i none = l[i] := by simp [List.getD, h]
  rw [List.count_set h, hget]
  by_cases h1 : l[i] = some o
  · have hpos : 0 < l.count (some o) := List.count_pos_iff.mpr (h1 ▸ List.getElem_mem h)
    by_cases h2 : v = some o <;> simp [h1, h2] <;> omega
  · by_cases h2 : v = some o <;> simp [h1, h2]

theorem run_stores_len (ws : List (Nat × Option Nat)) (s : MS) : (run (stores ws) s).ptr.length = s.ptr.length := by
  induction ws generalizing s with
  | nil => simp [stores]
  | cons w ws ih =>
    have e : stores (w :: ws) = .store w.1 w.2 :: stores ws := by simp [stores]
    rw [e, run_cons, ih]; simp [ev]

theorem run_stores_olds_eq (ws : List (Nat × Option Nat)) (s : MS) (hnd : (ws.map (·.1)).Nodup)
    (hr : ∀ w ∈ ws, w.1 < s.ptr.length) (o : Nat) :
    ((run (stores ws) s).held o : Int) + ((ws.map (fun w => s.at w.1)).count (some o) : Int)
      = (s.held o : Int) + ((ws.map (·.2)).count (some o) : Int) := by
  induction ws generalizing s with
  | nil => simp [stores]
  | cons w ws ih =>
    obtain ⟨i, v⟩ := w
    have e : stores ((i, v) :: ws) = .store i v :: stores ws := by simp [stores]
    simp only [List.map_cons, List.nodup_cons] at hnd
    have hr' : ∀ w ∈ ws, w.1 < (ev s (.store i v)).ptr.length := by
      intro w hw; simpa [ev] using hr w (List.mem_cons_of_mem _ hw)
    have h1 := ih (ev s (.store i v)) hnd.2 hr'
    have hsame : ws.map (fun w => (ev s (.store i v)).at w.1) = ws.map (fun w => s.at w.1) := by
      apply List.map_congr_left
      intro w hw
      apply at_store_ne
      intro hi
      exact hnd.1 (hi ▸ List.mem_map_of_mem (f := (·.1)) hw)
    rw [hsame] at h1
    have h2 : ((s.ptr.set i v).count (some o) : Int) + (if s.at i = some o then 1 else 0)
        = (s.ptr.count (some o) : Int) + (if v = some o then 1 else 0) :=
      count_set_eq s.ptr i v o (hr (i, v) List.mem_cons_self)
    rw [e, run_cons]
    simp only [List.map_cons, List.count_cons]
    simp only [MS.held, ev] at h1 ⊢
    by_cases h3 : v = some o
    · subst h3
      by_cases h4 : s.at i = some o <;> simp [h4] at h2 ⊢ <;> omega
    · by_cases h4 : s.at i = some o <;> simp [h3, h4] at h2 ⊢ <;> omega

theorem putEvents_neutral (ws : List (Nat × Option Nat)) (s t : MS) (hpt : t.ptr = s.ptr)
    (hnd : (ws.map (·.1)).Nodup) (hr : ∀ w ∈ ws, w.1 < s.ptr.length) (o : Nat) :
    (run (putEvents s ws) t).slack o = t.slack o := by
  have h1 := run_stores ws t
  have h2 := run_incs (ws.map (·.2)) (run (stores ws) t)
  have h3 := run_decs (ws.map (fun w => s.at w.1)) (run (incs (ws.map (·.2))) (run (stores ws) t))
  have h4 := run_stores_olds_eq ws t hnd (by rw [hpt]; exact hr) o
  have hat : ws.map (fun w => t.at w.1) = ws.map (fun w => s.at w.1) := by
    apply List.map_congr_left
    intro w _
    simp only [MS.at, hpt]
  rw [hat] at h4
  simp only [MS.slack, putEvents, run_append, MS.held] at h4 ⊢
  rw [h3.1, h3.2 o, h2.1, h2.2 o, h1.1]
  omega

theorem neutral_set (i new : Nat) (s : MS) (hr : i < s.ptr.length) (o : Nat) :
    (run (compile s (.set i new)) s).slack o = s.slack o := by
  have h1 : ((s.ptr.set i (some new)).count (some o) : Int) + (if s.at i = some o then 1 else 0)
      = (s.ptr.count (some o) : Int) + (if some new = some o then 1 else 0) :=
    count_set_eq s.ptr i (some new) o hr
  cases hold : s.at i with
  | none =>
    simp only [compile, hold, decs, List.filterMap_cons, List.filterMap_nil, Option.map_none,
      List.append_nil, run_cons, run_nil, ev, MS.held, bump, MS.slack]
    by_cases h3 : new = o
    · subst h3; simp [hold] at h1 ⊢; omega
    · have h3' : ¬ o = new := fun e => h3 e.symm
      simp [hold, h3, h3'] at h1 ⊢; omega
  | some p =>
    simp only [compile, hold, decs, List.filterMap_cons, List.filterMap_nil, Option.map_some,
      List.cons_append, List.nil_append, run_cons, run_nil, ev, MS.held, bump, MS.slack]
    by_cases h3 : new = o
    · subst h3
      by_cases h4 : p = new
      · subst h4; simp [hold] at h1 ⊢; omega
      · have h4' : ¬ new = p := fun e => h4 e.symm
        simp [hold, h4, h4'] at h1 ⊢; omega
    · have h3' : ¬ o = new := fun e => h3 e.symm
      by_cases h4 : p = o
      · subst h4; simp [hold, h3, h3'] at h1 ⊢; omega
      · have h4' : ¬ o = p := fun e => h4 e.symm
        simp [hold, h3, h3', h4, h4'] at h1 ⊢; omega

theorem neutral_clear (i : Nat) (s : MS) (hr : i < s.ptr.length) (o : Nat) :
    (run (compile s (.clear i)) s).slack o = s.slack o := by
  have h1 : ((s.ptr.set i none).count (some o) : Int) + (if s.at i = some o then 1 else 0)
      = (s.ptr.count (some o) : Int) + (if (none : Option Nat) = some o then 1 else 0) :=
    count_set_eq s.ptr i none o hr
  cases hold : s.at i with
  | none =>
    simp only [compile, hold, decs, List.filterMap_cons, List.filterMap_nil, Option.map_none,
      List.append_nil, run_cons, run_nil, ev, MS.held, MS.slack]
    simp [hold] at h1 ⊢; omega
  | some p =>
    simp only [compile, hold, decs, List.filterMap_cons, List.filterMap_nil, Option.map_some,
      List.cons_append, List.nil_append, run_cons, run_nil, ev, MS.held, bump, MS.slack]
    by_cases h4 : p = o
    · subst h4; simp [hold] at h1 ⊢; omega
    · have h4' : ¬ o = p := fun e => h4 e.symm
      simp [hold, h4, h4'] at h1 ⊢; omega

theorem neutral_read (is : List Nat) (s : MS) (o : Nat) :
    (run (compile s (.read is)) s).slack o = s.slack o := by
  have h1 := run_incs (is.map s.at) s
  have h2 := run_decs (is.map s.at) (run (incs (is.map s.at)) s)
  simp only [compile, run_append, MS.held, MS.slack]
  rw [h2.1, h2.2 o, h1.1, h1.2 o]
  omega

theorem neutral_restate (dst src : List Nat) (s : MS) (hnd : dst.Nodup) (hr : ∀ i ∈ dst, i < s.ptr.length)
    (o : Nat) : (run (compile s (.restate dst src)) s).slack o = s.slack o := by
  have hnd' := zip_fst_nodup dst (src.map s.at) hnd
  have hr' : ∀ w ∈ dst.zip (src.map s.at), w.1 < s.ptr.length := fun w hw => hr _ (List.of_mem_zip hw).1
  have h0 := run_incs (src.map s.at) s
  have h1 := putEvents_neutral (dst.zip (src.map s.at)) s (run (incs (src.map s.at)) s) h0.1 hnd' hr' o
  have h4 := run_decs (src.map s.at) (run (putEvents s (dst.zip (src.map s.at))) (run (incs (src.map s.at)) s))
  have h7 := h0.2 o
  simp only [compile, run_append, MS.held, MS.slack] at h1 ⊢
  rw [h4.1, h4.2 o]
  rw [h0.1] at h1
  omega

theorem neutral_reset (i : Nat) (s : MS) (o : Nat) :
    (run (compile s (.reset i)) s).slack o = s.slack o := by
  cases hold : s.at i with
  | none => simp [compile, hold]
  | some p =>
    have hr : i < s.ptr.length := by
      apply Decidable.byContradiction
      intro hn
      have : s.at i = none := by simp [MS.at, List.getD, Nat.le_of_not_lt hn]
      rw [hold] at this; cases this
    have h1 : ((s.ptr.set i (some p)).count (some o) : Int) + (if s.at i = some o then 1 else 0)
        = (s.ptr.count (some o) : Int) + (if some p = some o then 1 else 0) :=
      count_set_eq s.ptr i (some p) o hr
    simp only [compile, hold, run_cons, run_nil, ev, MS.held, bump, MS.slack]
    by_cases h3 : p = o
    · subst h3; simp [hold] at h1 ⊢; omega
    · have h3' : ¬ o = p := fun e => h3 e.symm
      simp [hold, h3, h3'] at h1 ⊢; omega

end TraitsVerif.Lemmas.Raw
